#!/usr/bin/env python3
"""Run the registered checks against the seeded defects in /verif/seeded/<id>/.

  tools/run_seeded.py [--tier quick|thorough] [--only ID[,ID...]] [--jobs N]

For every seeded/<id>/meta.json (fields: property, patch = patch.diff) a scratch
worktree of /repo is created under /var/tmp, the patch is applied there, the
property's check is run with SKYLLH_REPO pointing at the worktree, and the
worktree is removed again.  /repo itself is never touched.  Afterwards the
check is run once more on /repo for every property touched, so that the
regenerated kernels under coq/gen/ are those of the real tree again.
Result table: build/seeded_results.json and stdout."""
import argparse
import concurrent.futures
import json
import os
import subprocess
import sys
import time

VERIF = os.path.dirname(os.path.dirname(os.path.abspath(__file__)))


def sh(cmd, **kw):
    return subprocess.run(cmd, shell=True, capture_output=True, text=True, **kw)


def run_one(sid, meta, tier):
    wt = f'/var/tmp/seedwt-{sid}-{os.getpid()}'
    sh(f'git -C /repo worktree remove --force {wt}')
    r = sh(f'git -C /repo worktree add --detach {wt} HEAD')
    if r.returncode != 0:
        return {'id': sid, 'error': 'worktree: ' + r.stderr[-300:]}
    try:
        patch = os.path.join(VERIF, 'seeded', sid, meta.get('patch', 'patch.diff'))
        r = sh(f'git -C {wt} apply {patch}')
        if r.returncode != 0:
            return {'id': sid, 'property': meta['property'], 'error': 'patch does not apply: ' + r.stderr[-300:]}
        t0 = time.time()
        env = dict(os.environ, SKYLLH_REPO=wt)
        r = sh(f'./check {meta["property"]} --tier {tier}', cwd=VERIF, env=env, timeout=3600)
        out = r.stdout + r.stderr
        viol = [l for l in out.splitlines() if l.startswith('VIOLATION')]
        summary = [l for l in out.splitlines() if l.startswith('[')][-1:]
        how = ''
        if viol:
            try:
                rp = viol[0].split('replay=')[1].split()[0]
                v = json.load(open(rp))
                kinds = sorted({b.get('kind', '?') + ':' + str(b.get('lemma') or b.get('kernel') or b.get('target') or '')
                                for b in v.get('broken', [])})
                how = f"{v.get('site')}/{v.get('kind')}; broken={kinds[:6]}"
            except Exception as ex:  # noqa
                how = f'(replay unreadable: {ex})'
        return {'id': sid, 'property': meta['property'], 'rc': r.returncode, 'caught': r.returncode == 1 and bool(viol),
                'violations': viol[:3], 'how': how, 'summary': summary, 'wall_s': round(time.time() - t0, 1)}
    finally:
        sh(f'git -C /repo worktree remove --force {wt}')


def merge_results(results):
    """accumulate into the committed table seeded/RESULTS.json (by id)"""
    rp = os.path.join(VERIF, 'seeded', 'RESULTS.json')
    cur = {}
    if os.path.exists(rp):
        cur = {r['id']: r for r in json.load(open(rp))}
    for r in results:
        cur[r['id']] = {k: r.get(k) for k in ('id', 'property', 'caught', 'rc', 'how', 'wall_s', 'error')}
    json.dump([cur[k] for k in sorted(cur)], open(rp, 'w'), indent=1)


def main():
    ap = argparse.ArgumentParser()
    ap.add_argument('--tier', default='quick')
    ap.add_argument('--only', default='')
    ap.add_argument('--jobs', type=int, default=4)
    a = ap.parse_args()
    only = set(x for x in a.only.split(',') if x)
    todo = []
    for sid in sorted(os.listdir(os.path.join(VERIF, 'seeded'))):
        mp = os.path.join(VERIF, 'seeded', sid, 'meta.json')
        if not os.path.exists(mp):
            continue
        if only and sid not in only and json.load(open(mp))['property'] not in only:
            continue
        todo.append((sid, json.load(open(mp))))
    # one property at a time per worker: two runs of the same property would
    # race on coq/gen/G_<its modules>.v
    byprop = {}
    for sid, m in todo:
        byprop.setdefault(m['property'], []).append((sid, m))

    def worker(items):
        return [run_one(sid, m, a.tier) for sid, m in items]

    results = []
    with concurrent.futures.ThreadPoolExecutor(max_workers=a.jobs) as ex:
        for rs in ex.map(worker, byprop.values()):
            results.extend(rs)
    # restore generated kernels of the real tree
    for p in sorted(byprop):
        sh(f'./check {p} --tier quick', cwd=VERIF)
    os.makedirs(os.path.join(VERIF, 'build'), exist_ok=True)
    json.dump(results, open(os.path.join(VERIF, 'build', 'seeded_results.json'), 'w'), indent=1)
    merge_results(results)
    for r in sorted(results, key=lambda r: r['id']):
        print(f"{r['id']:14s} {r.get('property', '?'):4s} caught={r.get('caught')} rc={r.get('rc')} "
              f"{r.get('wall_s', '')}s  {r.get('how') or r.get('error') or ''}")
    missed = [r['id'] for r in results if not r.get('caught')]
    print('missed:', missed)
    return 0


if __name__ == '__main__':
    sys.exit(main())
