#!/usr/bin/env python3
"""Regenerate the generated tail of DESIGN.md (everything after the marker
line) from design.d/*.md (as-built notes per property), seeded/*/meta.json +
seeded/RESULTS.json (which check catches which seeded change) and
known_findings.json."""
import glob
import json
import os

here = os.path.dirname(os.path.dirname(os.path.abspath(__file__)))
MARK = '<!-- GENERATED BELOW by tools/mkdesign.py — edit design.d/*.md, seeded/*, known_findings.d/* instead -->'
p = os.path.join(here, 'DESIGN.md')
txt = open(p).read()
head = txt.split(MARK)[0].rstrip() + '\n\n' + MARK + '\n\n'
out = []
out.append('## 13. As built — per property\n')
out.append('Each sub-section is the builder\'s own record for that property: model, theorem list, kernels, '
           'correspondence, predicates, what is partial and why, findings, mutation table, cost.\n')
for f in sorted(glob.glob(os.path.join(here, 'design.d', 'C*.md'))):
    body = open(f).read().strip()
    # demote headings by two levels so that they nest under section 13
    lines = []
    for l in body.splitlines():
        if l.startswith('#'):
            l = '##' + l
        lines.append(l)
    out.append('\n'.join(lines) + '\n')
out.append('---------------------------------------------------------------------------\n')
out.append('## 14. Seeded changes and which check catches them\n')
out.append('Each change below was written by a fresh sub-agent that saw only the property text and a scratch '
           'worktree of /repo, confirmed by `tools/confirm_mutation.sh` (demo passes on the clean tree, the 174 tests '
           'pass with the patch, demo fails with the patch) and is kept under `seeded/<id>/`. `tools/run_seeded.py` '
           'applies each to a scratch worktree and runs the property\'s registered quick check against it '
           '(`SKYLLH_REPO=<worktree> ./check Cxx`).\n')
res = {}
rp = os.path.join(here, 'seeded', 'RESULTS.json')
if os.path.exists(rp):
    res = {r['id']: r for r in json.load(open(rp))}
out.append('| id | property | what breaks | needs | caught | by |')
out.append('|---|---|---|---|---|---|')
for mp in sorted(glob.glob(os.path.join(here, 'seeded', '*', 'meta.json'))):
    m = json.load(open(mp))
    r = res.get(m['id'], {})
    caught = {True: 'yes', False: '**no**'}.get(r.get('caught'), 'not run')
    if m.get('neutralised'):
        caught += ' (neutralised: harmless on the current tree, reported with no-failing-input-found)'
    how = (r.get('how') or m.get('caught_by') or '').replace('|', '/')
    out.append(f"| {m['id']} | {m['property']} | {m['breaks'].replace('|', '/')} | {m['needs'].replace('|', '/')} | {caught} | {how} |")
out.append('')
out.append('---------------------------------------------------------------------------\n')
out.append('## 15. Genuine defects: fixed and open\n')
kf = json.load(open(os.path.join(here, 'known_findings.json')))['findings']
out.append('Repaired in /repo (one `fix:` commit each; a fixed entry suppresses nothing):\n')
for k in kf:
    if k.get('status') == 'fixed':
        out.append(f"* {k['property']} `{k.get('commit', '')}` — {k['text']}")
out.append('\nOpen known findings (the check prints `KNOWN-FINDING:` for exactly this signature and exits 0):\n')
for k in kf:
    if k.get('status') == 'open':
        out.append(f"* {k['property']} `{k['id']}` site=`{k['signature'].get('site')}` kind=`{k['signature'].get('kind')}` — {k['text']}")
out.append('')
open(p, 'w').write(head + '\n'.join(out) + '\n')
print('DESIGN.md regenerated:', len(head.splitlines()), 'hand-written lines +', sum(len(o.splitlines()) for o in out), 'generated')
