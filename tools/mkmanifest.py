#!/usr/bin/env python3
"""Assemble MANIFEST.json from manifest.d/*.json (one fragment per claimed
property) and manifest.d/_head.json."""
import glob
import json
import os

here = os.path.dirname(os.path.dirname(os.path.abspath(__file__)))
head = json.load(open(os.path.join(here, 'manifest.d', '_head.json')))
checks = []
for p in sorted(glob.glob(os.path.join(here, 'manifest.d', 'C*.json'))):
    checks.append(json.load(open(p)))
head['checks'] = checks
claimed = {c['property_id'] for c in checks}
props = [json.loads(l)['id'] for l in open(os.path.join(here, 'properties.jsonl'))]
na = head.get('not_applicable', [])
na = [e for e in na if e['property_id'] not in claimed]
listed = {e['property_id'] for e in na}
for pid in props:
    if pid not in claimed and pid not in listed:
        na.append({'property_id': pid, 'reason': 'check not built yet (work in progress; the technique applies, see DESIGN.md §8)'})
head['not_applicable'] = sorted(na, key=lambda e: e['property_id'])
def _atomic(path, obj):
    tmp = path + '.tmp.%d' % os.getpid()
    with open(tmp, 'w') as f:
        json.dump(obj, f, indent=1)
    os.replace(tmp, path)


_atomic(os.path.join(here, 'MANIFEST.json'), head)
# known findings: merge known_findings.d/*.json (committed; never written at run time)
kf = []
for p in sorted(glob.glob(os.path.join(here, 'known_findings.d', '*.json'))):
    kf.extend(json.load(open(p))['findings'])
_atomic(os.path.join(here, 'known_findings.json'), {'findings': kf})
head['hooks']['source_commits'] = head['hooks'].get('source_commits', [])
print('claimed:', sorted(claimed), ' known findings:', len([k for k in kf if k.get('status') == 'open']), 'open,', len([k for k in kf if k.get('status') == 'fixed']), 'fixed')
