#!/bin/bash
# (Re)generate coq/_CoqProject and coq/Makefile from the files present.
set -e
cd "$(dirname "$0")/../coq"
new=$( (echo "-Q . Sky"; echo "-arg -w -arg -notation-overridden,-ambiguous-paths,-deprecated-hint-without-locality,-deprecated-instance-without-locality"; find base gen model spec proofs props extract -name '*.v' 2>/dev/null | sort) )
if [ ! -f _CoqProject ] || [ "$new" != "$(cat _CoqProject)" ] || [ ! -f Makefile ]; then
  echo "$new" > _CoqProject
  coq_makefile -f _CoqProject -o Makefile >/dev/null
fi
