#!/bin/bash
# Serialised build of Coq targets (same lock as ./check):  tools/coqmake.sh props/Prop_C14.vo ...
cd "$(dirname "$0")/.."
mkdir -p build
exec flock build/.build.lock bash -c 'ulimit -v ${VERIF_COQ_MEM_KB:-12582912}; tools/mkcoqproject.sh && cd coq && timeout ${COQ_TIMEOUT:-900} make -j8 "$@"' _ "$@"
