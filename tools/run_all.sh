#!/bin/bash
# Run every claimed check (quick tier by default) and summarise:  tools/run_all.sh [quick|thorough] [jobs]
cd "$(dirname "$0")/.."
tier=${1:-quick}; jobs=${2:-4}
mkdir -p build/all
ids=$(python3 -c "import json; print(' '.join(c['property_id'] for c in json.load(open('MANIFEST.json'))['checks']))")
printf '%s\n' $ids | xargs -P "$jobs" -I{} bash -c './check {} --tier '"$tier"' > build/all/{}.log 2>&1; echo "{} rc=$? $(tail -1 build/all/{}.log)"'
for i in $ids; do python3-vt -c "import json,jsonschema,sys; jsonschema.validate(json.load(open('evidence/$i.json')), json.load(open('/root/.vp/EVIDENCE.schema.json')))" || echo "EVIDENCE INVALID $i"; done
grep -l "VIOLATION" build/all/*.log
