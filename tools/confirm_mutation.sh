#!/bin/bash
# tools/confirm_mutation.sh <dir with patch.diff + demo.py>  -> prints CONFIRMED / REJECTED(reason)
# Independent confirmation in a scratch worktree of /repo (never touches /repo itself).
d=$(readlink -f "$1"); wt=/var/tmp/confwt-$$
git -C /repo worktree add --detach "$wt" HEAD >/dev/null 2>&1 || { echo "REJECTED(worktree)"; exit 2; }
trap 'git -C /repo worktree remove --force "$wt" >/dev/null 2>&1' EXIT
run_demo() { (cd "$wt" && PYTHONPATH="$wt" PYTHONHASHSEED=0 timeout 600 /venv/bin/python "$d/demo.py" >"$d/.demo_$1.log" 2>&1); echo $?; }
rc0=$(run_demo clean)
[ "$rc0" = 0 ] || { echo "REJECTED(demo fails on clean tree rc=$rc0)"; exit 1; }
git -C "$wt" apply "$d/patch.diff" || { echo "REJECTED(patch does not apply)"; exit 1; }
t=$(cd "$wt" && PYTHONPATH="$wt" timeout 1200 /venv/bin/python -m pytest -q -p no:cacheprovider --timeout=900 2>&1 | tail -1)
echo "$t" | grep -q "174 passed" || { echo "REJECTED(tests: $t)"; exit 1; }
echo "$t" | grep -q "failed\|error" && { echo "REJECTED(tests: $t)"; exit 1; }
rc1=$(run_demo mutated)
[ "$rc1" != 0 ] || { echo "REJECTED(demo passes on mutated tree)"; exit 1; }
echo "CONFIRMED clean_rc=0 mutated_rc=$rc1 tests='$t'"
