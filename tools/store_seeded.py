#!/usr/bin/env python3
"""tools/store_seeded.py Cxx i 'breaks' 'needs'  — copy a confirmed mutation from /tmp/mut-out/Cxx/i to seeded/Cxx-i/ with meta.json"""
import json, os, shutil, sys
prop, i, breaks, needs = sys.argv[1:5]
src = f'/tmp/mut-out/{prop}/{i}'
dst = os.path.join(os.path.dirname(os.path.dirname(os.path.abspath(__file__))), 'seeded', f'{prop}-{i}')
os.makedirs(dst, exist_ok=True)
for f in ('patch.diff', 'demo.py', 'notes.md'):
    if os.path.exists(os.path.join(src, f)):
        shutil.copy(os.path.join(src, f), dst)
json.dump({'id': f'{prop}-{i}', 'property': prop, 'patch': 'patch.diff', 'demo': 'demo.py', 'breaks': breaks, 'needs': needs,
           'origin': 'independent sub-agent given only the property text and a scratch worktree',
           'confirmed': 'tools/confirm_mutation.sh in a scratch worktree: demo rc 0 on the clean tree; 174 tests pass with the patch; demo rc != 0 with the patch'},
          open(os.path.join(dst, 'meta.json'), 'w'), indent=1)
print('stored', dst)
