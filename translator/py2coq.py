#!/venv/bin/python
"""Fail-closed Python-AST -> Gallina translator for arithmetic kernels.

Reads translator/kernels.toml, parses the named functions of /repo's *current*
working tree and writes coq/gen/G_<module>.v.  Every kernel is one expression
(the value of an assignment, an `if` test, a return value, ...) read *per
element* of the numpy arrays involved.  Anything the translator does not
understand makes it exit non-zero: the tie between model and source is then
broken, never assumed.

Modes
  Z    integer / index arithmetic (Coq Z, bool)
  Num  real-valued formulas, polymorphic in the record Sky.Num.Num
       (instantiated with R for theorems and OCaml floats for execution)

Kernel entry (TOML [[kernel]]):
  name        Coq identifier of the generated definition
  out         generated module name (G_<out>.v)
  file, func  source file (relative to the repo) and qualified function name
  select      which expression:  assign:<target>#k | augassign:<target>#k |
              if#k | while#k | return#k | count:<If|Return|...> | order:<A> << <B> | ncalls:<callee prefix> |
              ifexp / call arguments via "path"
              (optional list of child selectors, see _descend)
  mode        "Z" | "Num"
  args        ["name:type", ...]   every free Python name must be listed
              (type Z | B | T | O ; T = the Num carrier, O = `option Z`
              for values that may be None: only `is None`, `is not None`,
              `== k`, `!= k` are translated; ZL = `list Z`, only as the
              container of `x in c` / `x not in c`).  `self._x` is written
              `self._x` here and becomes the Coq variable `x`.
  subscripts  optional list of expected subscript / call bases, in order of
              appearance; each such sub-expression becomes an extra argument
              sub<i> and its index expression is emitted as <name>_idx<i>.
  consts      optional table  python-name -> Coq term (module constants)
"""
import ast
import hashlib
import json
import os
import sys
import tomllib
from fractions import Fraction

HERE = os.path.dirname(os.path.abspath(__file__))
VERIF = os.path.dirname(HERE)
REPO = os.environ.get('SKYLLH_REPO', '/repo')


class TranslateError(Exception):
    pass


def find_func(tree, qualname):
    parts = qualname.split('.')
    node = tree
    for p in parts:
        found = None
        # `name#k` selects the k-th definition of that name among the direct
        # children (e.g. `Parameter.value#1` = the property setter)
        p, _, nth = p.partition('#')
        nth = int(nth) if nth else 0
        for ch in ast.iter_child_nodes(node):
            if isinstance(ch, (ast.FunctionDef, ast.ClassDef)) and ch.name == p:
                if nth > 0:
                    nth -= 1
                    continue
                found = ch
                break
        if found is None:
            # search nested defs inside function bodies (closures)
            for ch in ast.walk(node):
                if ch is not node and isinstance(ch, (ast.FunctionDef, ast.ClassDef)) and ch.name == p:
                    found = ch
                    break
        if found is None:
            raise TranslateError(f'function {qualname!r}: {p!r} not found')
        node = found
    return node


def target_text(t):
    return ast.unparse(t)


def _stmt_match(st, pat):
    """`pat$` = the statement text is exactly pat; otherwise the statement text starts with pat"""
    t = ast.unparse(st)
    return t == pat[:-1] if pat.endswith('$') else t.startswith(pat)


def select_expr(func, select):
    """Return the ast expression selected by `select` inside `func`."""
    sel, _, path = select.partition('@')
    kind, _, rest = sel.partition(':')
    if '#' in kind:
        kind, _, k = kind.partition('#')
        name = None
    else:
        name, _, k = rest.partition('#')
    if kind == 'order':
        # order:<A> << <B> : the boolean "the (unique) statement whose source text starts with A precedes the
        # (unique) statement starting with B in the SAME statement list" (statement order / nesting as a fact)
        a_txt, sep, b_txt = rest.partition(' << ')
        if not sep or path:
            raise TranslateError(f'selector {select!r}: expected order:<A> << <B>')
        na = nb = 0
        holds = False
        line = func.lineno
        for node in ast.walk(func):
            for fld in ('body', 'orelse', 'finalbody'):
                body = getattr(node, fld, None)
                if not (isinstance(body, list) and body and isinstance(body[0], ast.stmt)):
                    continue
                ia = [i for i, st in enumerate(body) if _stmt_match(st, a_txt)]
                ib = [i for i, st in enumerate(body) if _stmt_match(st, b_txt)]
                na += len(ia)
                nb += len(ib)
                if ia and ib and ia[0] < ib[0]:
                    holds = True
                    line = body[ia[0]].lineno
        if na != 1 or nb != 1:
            raise TranslateError(f'selector {select!r}: {na} statement(s) start with A, {nb} with B (1 each expected)')
        return ast.Constant(value=holds), line
    if kind == 'ncalls':
        # ncalls:<prefix> : the number of calls whose callee text starts with <prefix>
        if path:
            raise TranslateError(f'selector {select!r}: no path allowed')
        n = sum(1 for node in ast.walk(func)
                if isinstance(node, ast.Call) and ast.unparse(node.func).startswith(rest))
        return ast.Constant(value=n), func.lineno
    k = int(k) if k else 0
    if kind == 'count':
        # count:<NodeType> = number of statements of that ast type (If, Return, While, For,
        # Try, Raise) inside the function: pins "this is done unconditionally"
        if name not in ('If', 'Return', 'While', 'For', 'Try', 'Raise', 'IfExp'):
            raise TranslateError(f'selector {select!r}: unsupported node type')
        n = sum(1 for node in ast.walk(func) if type(node).__name__ == name)
        return ast.Constant(value=n), getattr(func, 'lineno', 0)
    hits = []
    for node in ast.walk(func):
        if kind == 'assign' and isinstance(node, ast.Assign):
            if any(target_text(t) == name for t in node.targets):
                hits.append((node.lineno, node.col_offset, node.value))
        elif kind == 'augassign' and isinstance(node, ast.AugAssign):
            if target_text(node.target) == name:
                hits.append((node.lineno, node.col_offset, ast.BinOp(
                    left=node.target, op=node.op, right=node.value)))
        elif kind == 'if' and isinstance(node, ast.If):
            hits.append((node.lineno, node.col_offset, node.test))
        elif kind == 'while' and isinstance(node, ast.While):
            hits.append((node.lineno, node.col_offset, node.test))
        elif kind == 'return' and isinstance(node, ast.Return) and node.value is not None:
            hits.append((node.lineno, node.col_offset, node.value))
        elif kind == 'ifexp' and isinstance(node, ast.IfExp):
            hits.append((node.lineno, node.col_offset, node))
        elif kind == 'call' and isinstance(node, ast.Call) and ast.unparse(node.func) == name:
            hits.append((node.lineno, node.col_offset, node))
        elif kind in ('subassign', 'subtarget') and isinstance(node, (ast.Assign, ast.AugAssign)):
            # masked / indexed store `base[idx] = v` or `base[idx] op= v`, selected by
            # the base only: subtarget = the index (mask) expression, subassign = the
            # stored value (for op=: `base[idx] op v`)
            tgts = node.targets if isinstance(node, ast.Assign) else [node.target]
            if len(tgts) == 1 and isinstance(tgts[0], ast.Subscript) and ast.unparse(tgts[0].value) == name:
                if kind == 'subtarget':
                    hits.append((node.lineno, node.col_offset, tgts[0].slice))
                elif isinstance(node, ast.Assign):
                    hits.append((node.lineno, node.col_offset, node.value))
                else:
                    hits.append((node.lineno, node.col_offset, ast.BinOp(
                        left=tgts[0], op=node.op, right=node.value)))
    hits.sort(key=lambda h: (h[0], h[1]))
    if k >= len(hits):
        raise TranslateError(f'selector {select!r}: only {len(hits)} match(es)')
    expr = hits[k][2]
    lineno = hits[k][0]
    if path:
        for step in path.split('/'):
            expr = _descend(expr, step)
    return expr, lineno


def _descend(expr, step):
    """step: argN | kw=<name> | elt N | left | right | test | body | orelse | value"""
    if step.startswith('arg'):
        if not isinstance(expr, ast.Call):
            raise TranslateError(f'path {step}: not a call: {ast.unparse(expr)}')
        return expr.args[int(step[3:])]
    if step.startswith('kw='):
        for kw in expr.keywords:
            if kw.arg == step[3:]:
                return kw.value
        raise TranslateError(f'path {step}: keyword missing')
    if step == 'elt':
        # element expression of a list comprehension / generator expression
        if not isinstance(expr, (ast.ListComp, ast.GeneratorExp, ast.SetComp)):
            raise TranslateError(f'path {step}: not a comprehension: {ast.unparse(expr)}')
        return expr.elt
    if step.startswith('iter'):
        # iterable of the N-th `for` clause of a comprehension
        if not isinstance(expr, (ast.ListComp, ast.GeneratorExp, ast.SetComp)):
            raise TranslateError(f'path {step}: not a comprehension: {ast.unparse(expr)}')
        return expr.generators[int(step[4:])].iter
    if step.startswith('genif'):   # genif<N>: N-th condition of the (single) generator
        if not isinstance(expr, (ast.ListComp, ast.GeneratorExp, ast.SetComp)) or len(expr.generators) != 1:
            raise TranslateError(f'path {step}: not a single-generator comprehension: {ast.unparse(expr)}')
        return expr.generators[0].ifs[int(step[5:])]
    if step.startswith('streq='):
        # a string literal (e.g. side='right') read as the boolean `literal == text`
        if not (isinstance(expr, ast.Constant) and isinstance(expr.value, str)):
            raise TranslateError(f'path {step}: not a string literal: {ast.unparse(expr)}')
        return ast.Constant(value=(expr.value == step[6:]))
    if step.startswith('elt'):
        return expr.elts[int(step[3:])]
    if step in ('left', 'right', 'test', 'body', 'orelse', 'value', 'operand', 'slice', 'lower', 'upper', 'func'):
        return getattr(expr, step)
    if step.startswith('cmp'):
        return expr.comparators[int(step[3:])]
    if step.startswith('val'):
        return expr.values[int(step[3:])]
    raise TranslateError(f'unknown path step {step!r}')


NP_UNARY = {
    'log1p': 'log1p', 'log': 'ln', 'exp': 'exp', 'sqrt': 'sqrt', 'sin': 'sin',
    'cos': 'cos', 'arcsin': 'asin', 'arccos': 'acos', 'abs': 'abs',
    'fabs': 'abs', 'absolute': 'abs', 'floor': 'floor', 'rint': 'rint',
    'around': 'rint', 'round': 'rint', 'trunc': 'trunc', 'tan': 'tan',
    'arctan': 'atan', 'log10': 'log10', 'square': None, 'ceil': 'ceil',
    'expm1': 'expm1',      # derived operation nexpm1 of base/NumX.v (Kahan's formula), not a Num field
}
NP_BINARY = {
    'arctan2': 'atan2', 'power': 'pow', 'mod': 'fmod',   # np.mod only: np.fmod (sign of the dividend) is NOT the model's nfmod -> rejected
    'minimum': 'min', 'maximum': 'max', 'multiply': 'mul', 'divide': 'div',
    'add': 'add', 'subtract': 'sub',
}


class Emitter:
    def __init__(self, kernel):
        self.k = kernel
        self.mode = kernel['mode']
        self.args = []
        for a in kernel.get('args', []):
            n, _, t = a.partition(':')
            self.args.append((n, t or ('Z' if self.mode == 'Z' else 'T')))
        self.argtypes = dict(self.args)
        self.consts = kernel.get('consts', {})
        self.expected_subs = kernel.get('subscripts', None)
        self.subs = []       # (base_text, index_ast or None)
        self.used = set()
        # per-element reading: x[m] with m a boolean mask named here is x
        self.erase_masks = set(kernel.get('erase_masks', []))
        # sub-expressions treated as atoms: python text -> declared arg name
        self.atoms = kernel.get('atoms', {})

    # ---- naming
    @staticmethod
    def coqname(pyname):
        n = pyname
        if n.startswith('self.'):
            n = n[5:]
        n = n.lstrip('_')
        n = n.replace('.', '_')
        if n in ('if', 'then', 'else', 'fun', 'let', 'in', 'match', 'with', 'end', 'as', 'at', 'by', 'for', 'return', 'Type', 'Prop', 'Set', 'exists', 'forall'):
            n = n + '_'
        return n

    def fail(self, node, why):
        raise TranslateError(
            f"kernel {self.k['name']}: {why}: `{ast.unparse(node)}` (line {getattr(node, 'lineno', '?')})")

    # ---- literals
    def lit(self, v, node):
        if v is None:
            # the literal None: only as a value of type O (`option Z`)
            return '(@None Z)', 'O'
        if isinstance(v, bool):
            return ('true' if v else 'false'), 'B'
        if self.mode == 'Z':
            if isinstance(v, int):
                return (f'({v})' if v < 0 else str(v)), 'Z'
            if isinstance(v, float) and v == int(v):
                return str(int(v)), 'Z'
            self.fail(node, 'non-integer literal in Z mode')
        # Num mode
        if isinstance(v, int):
            return f'(ofZ Nm_ ({v}))', 'T'
        if isinstance(v, float):
            fr = Fraction(ast.unparse(node)) if not isinstance(node, str) else Fraction(node)
            if fr.denominator == 1:
                return f'(ofZ Nm_ ({fr.numerator}))', 'T'
            if fr.numerator >= 2**53 or fr.denominator >= 2**53:
                self.fail(node, 'literal not exactly representable as p/q of doubles')
            return f'(ndiv Nm_ (ofZ Nm_ ({fr.numerator})) (ofZ Nm_ ({fr.denominator})))', 'T'
        self.fail(node, 'unsupported literal')

    def truthy(self, s, t):
        if t == 'B':
            return s
        if t == 'Z':
            return f'(negb ({s} =? 0))'
        if t == 'T':
            return f'(negb (neqb Nm_ {s} (nzero Nm_)))'
        raise TranslateError('truthy of ' + t)

    # ---- expressions; returns (coq_text, type)
    def e(self, n):
        m = self.mode
        if self.atoms and not isinstance(n, ast.Constant):
            txt = ast.unparse(n)
            if txt in self.atoms:
                an = self.atoms[txt]
                if an not in self.argtypes:
                    self.fail(n, f'atom {txt!r} maps to undeclared arg {an!r}')
                self.used.add(an)
                return self.coqname(an), self.argtypes[an]
        if isinstance(n, ast.Subscript):
            sl = n.slice
            sl_txt = ast.unparse(sl)
            # broadcasting helpers and declared boolean masks are erased
            if sl_txt in self.erase_masks or sl_txt in (':, np.newaxis', '(:, np.newaxis)', 'np.newaxis, :', '(np.newaxis, :)', ':', '...'):
                return self.e(n.value)
        if isinstance(n, ast.Constant):
            return self.lit(n.value, n)
        if isinstance(n, (ast.Name, ast.Attribute)):
            txt = ast.unparse(n)
            if txt in self.consts:
                c = self.consts[txt]
                return f'({c})', ('Z' if m == 'Z' else 'T')
            if txt in ('np.pi', 'numpy.pi', 'math.pi'):
                if m != 'Num':
                    self.fail(n, 'pi in Z mode')
                return '(npi Nm_)', 'T'
            if txt in self.argtypes:
                self.used.add(txt)
                return self.coqname(txt), self.argtypes[txt]
            self.fail(n, f'free name {txt!r} not declared in args')
        if isinstance(n, ast.UnaryOp):
            s, t = self.e(n.operand)
            if isinstance(n.op, ast.USub):
                if isinstance(n.operand, ast.Constant) and m == 'Z':
                    return f'(-{s})', 'Z'
                return (f'(- {s})', 'Z') if m == 'Z' and t == 'Z' else (f'(nopp Nm_ {s})', 'T')
            if isinstance(n.op, ast.UAdd):
                return s, t
            if isinstance(n.op, (ast.Not, ast.Invert)):
                if t != 'B':
                    self.fail(n, 'not/~ on non-bool')
                return f'(negb {s})', 'B'
        if isinstance(n, ast.BinOp):
            # int(a/b) handled at Call
            a, ta = self.e(n.left)
            b, tb = self.e(n.right)
            op = n.op
            if isinstance(op, (ast.BitAnd, ast.BitOr, ast.BitXor)) and ta == 'B' and tb == 'B':
                f = {ast.BitAnd: 'andb', ast.BitOr: 'orb', ast.BitXor: 'xorb'}[type(op)]
                return f'({f} {a} {b})', 'B'
            if m == 'Z':
                if ta != 'Z' or tb != 'Z':
                    self.fail(n, f'Z arithmetic on {ta},{tb}')
                tab = {ast.Add: '+', ast.Sub: '-', ast.Mult: '*', ast.FloorDiv: '/', ast.Mod: 'mod'}
                if type(op) in tab:
                    return f'({a} {tab[type(op)]} {b})', 'Z'
                if isinstance(op, ast.BitAnd):
                    return f'(Z.land {a} {b})', 'Z'
                if isinstance(op, ast.BitOr):
                    return f'(Z.lor {a} {b})', 'Z'
                if isinstance(op, ast.LShift):
                    return f'(Z.shiftl {a} {b})', 'Z'
                if isinstance(op, ast.RShift):
                    return f'(Z.shiftr {a} {b})', 'Z'
                if isinstance(op, ast.Pow):
                    return f'(Z.pow {a} {b})', 'Z'
                self.fail(n, 'operator not supported in Z mode (true division must be wrapped in int())')
            else:
                if ta == 'Z':
                    a, ta = f'(ofZ Nm_ {a})', 'T'
                if tb == 'Z':
                    b, tb = f'(ofZ Nm_ {b})', 'T'
                if ta != 'T' or tb != 'T':
                    self.fail(n, f'Num arithmetic on {ta},{tb}')
                tab = {ast.Add: 'nadd', ast.Sub: 'nsub', ast.Mult: 'nmul', ast.Div: 'ndiv', ast.Mod: 'nfmod'}
                if type(op) in tab:
                    return f'({tab[type(op)]} Nm_ {a} {b})', 'T'
                if isinstance(op, ast.Pow):
                    if isinstance(n.right, ast.Constant) and n.right.value == 2:
                        return f'(nmul Nm_ {a} {a})', 'T'
                    if isinstance(n.right, ast.Constant) and n.right.value == 3:
                        return f'(nmul Nm_ (nmul Nm_ {a} {a}) {a})', 'T'
                    return f'(npow Nm_ {a} {b})', 'T'
                self.fail(n, 'operator not supported in Num mode')
        if isinstance(n, ast.Compare):
            parts = []
            left = n.left
            for op, right in zip(n.ops, n.comparators):
                # `x is None`, `x is not None`, `x == None`, `x != None` for an argument of type O (option Z)
                lnone = isinstance(left, ast.Constant) and left.value is None
                rnone = isinstance(right, ast.Constant) and right.value is None
                if lnone != rnone:
                    o, to = self.e(left if rnone else right)
                    if to != 'O':
                        self.fail(n, f'comparison with None on type {to} (declare the argument as :O)')
                    isnone = f'(match {o} with None => true | Some _ => false end)'
                    if isinstance(op, (ast.Is, ast.Eq)):
                        parts.append(isnone)
                    elif isinstance(op, (ast.IsNot, ast.NotEq)):
                        parts.append(f'(negb {isnone})')
                    else:
                        self.fail(n, 'ordering comparison with None')
                    left = right
                    continue
                a, ta = self.e(left)
                b, tb = self.e(right)
                if (ta == 'O') != (tb == 'O') and {ta, tb} == {'O', 'Z'} and isinstance(op, (ast.Eq, ast.NotEq)):
                    # Python: None == 0 is False, None != 0 is True
                    (o, z) = (a, b) if ta == 'O' else (b, a)
                    eq = f'(match {o} with Some v_ => (v_ =? {z}) | None => false end)'
                    parts.append(eq if isinstance(op, ast.Eq) else f'(negb {eq})')
                    left = right
                    continue
                if ta == 'O' or tb == 'O':
                    self.fail(n, f'comparison on {ta},{tb}')
                if isinstance(op, (ast.In, ast.NotIn)):
                    # `x in arr` / `x not in arr`: integer x, container declared as :ZL (list Z)
                    if m != 'Z' or ta != 'Z' or tb != 'ZL':
                        self.fail(n, f'membership test on {ta},{tb} (declare the container as :ZL)')
                    mem = f'(List.existsb (Z.eqb {a}) {b})'
                    parts.append(mem if isinstance(op, ast.In) else f'(negb {mem})')
                    left = right
                    continue
                if m == 'Z':
                    if ta == 'B' and tb == 'B' and isinstance(op, (ast.Eq, ast.Is)):
                        parts.append(f'(Bool.eqb {a} {b})')
                        left = right
                        continue
                    if ta != 'Z' or tb != 'Z':
                        self.fail(n, f'comparison on {ta},{tb}')
                    tab = {ast.Lt: '<?', ast.LtE: '<=?', ast.Gt: '>?', ast.GtE: '>=?', ast.Eq: '=?'}
                    if type(op) in tab:
                        parts.append(f'({a} {tab[type(op)]} {b})')
                    elif isinstance(op, ast.NotEq):
                        parts.append(f'(negb ({a} =? {b}))')
                    else:
                        self.fail(n, 'comparison operator')
                else:
                    if ta == 'Z':
                        a = f'(ofZ Nm_ {a})'
                    if tb == 'Z':
                        b = f'(ofZ Nm_ {b})'
                    tab = {ast.Lt: ('nltb', 0), ast.LtE: ('nleb', 0), ast.Gt: ('nltb', 1), ast.GtE: ('nleb', 1), ast.Eq: ('neqb', 0)}
                    if type(op) in tab:
                        f, sw = tab[type(op)]
                        parts.append(f'({f} Nm_ {b} {a})' if sw else f'({f} Nm_ {a} {b})')
                    elif isinstance(op, ast.NotEq):
                        parts.append(f'(negb (neqb Nm_ {a} {b}))')
                    else:
                        self.fail(n, 'comparison operator')
                left = right
            s = parts[0]
            for p in parts[1:]:
                s = f'(andb {s} {p})'
            return s, 'B'
        if isinstance(n, ast.BoolOp):
            vals = [self.e(v) for v in n.values]
            f = 'andb' if isinstance(n.op, ast.And) else 'orb'
            s = self.truthy(*vals[0])
            for v in vals[1:]:
                s = f'({f} {s} {self.truthy(*v)})'
            return s, 'B'
        if isinstance(n, ast.IfExp):
            c = self.truthy(*self.e(n.test))
            a, ta = self.e(n.body)
            b, tb = self.e(n.orelse)
            if ta != tb:
                self.fail(n, 'branches of different type')
            return f'(if {c} then {a} else {b})', ta
        if isinstance(n, ast.Subscript):
            return self.abstract(n, ast.unparse(n.value), n.slice)
        if isinstance(n, ast.Call):
            fn = ast.unparse(n.func)
            base = fn.split('.')[-1]
            mod = fn.rsplit('.', 1)[0] if '.' in fn else ''
            if fn == 'int' and len(n.args) == 1:
                a0 = n.args[0]
                if m == 'Z' and isinstance(a0, ast.BinOp) and isinstance(a0.op, ast.Div):
                    a, ta = self.e(a0.left)
                    b, tb = self.e(a0.right)
                    return f'(Z.quot {a} {b})', 'Z'
                if (m == 'Z' and isinstance(a0, ast.Call) and ast.unparse(a0.func) in ('np.ceil', 'numpy.ceil', 'math.ceil')
                        and len(a0.args) == 1 and not a0.keywords
                        and isinstance(a0.args[0], ast.BinOp) and isinstance(a0.args[0].op, ast.Div)):
                    # int(np.ceil(a / b)): ceiling division = -floor(-a / b)
                    a, ta = self.e(a0.args[0].left)
                    b, tb = self.e(a0.args[0].right)
                    if ta != 'Z' or tb != 'Z':
                        self.fail(n, f'ceiling division on {ta},{tb}')
                    return f'(- ((- {a}) / {b}))', 'Z'
                s, t = self.e(a0)
                if m == 'Z' and t == 'Z':
                    return s, 'Z'
                self.fail(n, 'int() of a non-division in this mode')
            if fn in ('float', 'np.float64', 'np.asarray', 'np.array', 'np.atleast_1d') and len(n.args) >= 1:
                # value-preserving conversions only: one positional argument, and at most a dtype keyword
                # naming a double / the same kind (anything else could change the value: fail closed)
                okdt = {'np.float64', 'np.double', 'float', 'np.float_', 'numpy.float64', 'np.bool_', 'bool'}   # bool: the kernel's declared type does the coercion
                for kw in n.keywords:
                    if kw.arg == 'dtype' and ast.unparse(kw.value) in okdt:
                        continue
                    if kw.arg in ('copy', 'ndmin'):
                        continue
                    self.fail(n, f'conversion with keyword {kw.arg}={ast.unparse(kw.value)}')
                if len(n.args) == 2 and ast.unparse(n.args[1]) in okdt:
                    return self.e(n.args[0])
                if len(n.args) != 1:
                    self.fail(n, 'conversion with extra positional arguments')
                return self.e(n.args[0])
            if fn in ('np.take', 'numpy.take') and len(n.args) == 2 and not n.keywords:
                # np.take(a, i) is the lookup a[i]
                return self.abstract(n, ast.unparse(n.args[0]), n.args[1])
            if fn in ('np.repeat', 'numpy.repeat') and len(n.args) == 2 and not n.keywords:
                # per element, np.repeat(c, n) of a constant scalar c is c
                used0 = set(self.used)
                s, t = self.e(n.args[0])
                if t not in ('T', 'Z') or self.used != used0:
                    self.fail(n, 'np.repeat of a non-constant')
                return s, t
            if (mod in ('np', 'numpy') and base in NP_UNARY and NP_UNARY[base] and m == 'Num'
                    and len(n.args) == 1 and not n.keywords
                    and isinstance(n.args[0], (ast.List, ast.Tuple)) and len(n.args[0].elts) >= 2):
                # np.f([a, b, ...]): the stacked arrays, f applied to each
                elts = [self.e(x) for x in n.args[0].elts]
                if any(t != 'T' for _, t in elts):
                    self.fail(n, 'unary function over a list of non-T')
                return [(f'(n{NP_UNARY[base]} Nm_ {s})', 'T') for s, _ in elts], 'L'
            if (mod in ('np', 'numpy') and base in ('amin', 'amax', 'min', 'max') and len(n.args) == 1
                    and [kw.arg for kw in n.keywords] == ['axis']
                    and isinstance(n.keywords[0].value, ast.Constant) and n.keywords[0].value.value == 0):
                # np.amin([a, b, ...], axis=0): per element the minimum of the stacked arrays
                v, t = self.e(n.args[0])
                if t != 'L' or m != 'Num' or any(tt != 'T' for _, tt in v):
                    self.fail(n, 'axis-0 reduction of something that is not a literal list of arrays')
                f = 'nmin' if base in ('amin', 'min') else 'nmax'
                s = v[0][0]
                for (x, _) in v[1:]:
                    s = f'({f} Nm_ {s} {x})'
                return s, 'T'
            if (mod in ('np', 'numpy') and base in ('amin', 'amax', 'min', 'max') and len(n.args) == 1
                    and [kw.arg for kw in n.keywords] == ['axis']
                    and isinstance(n.keywords[0].value, ast.Constant) and n.keywords[0].value.value == 1
                    and isinstance(n.args[0], ast.Attribute) and n.args[0].attr == 'T'
                    and isinstance(n.args[0].value, ast.Call)
                    and ast.unparse(n.args[0].value.func) in ('np.vstack', 'numpy.vstack')
                    and len(n.args[0].value.args) == 1 and not n.args[0].value.keywords
                    and isinstance(n.args[0].value.args[0], (ast.Tuple, ast.List))
                    and len(n.args[0].value.args[0].elts) >= 2 and m == 'Num'):
                # np.max(np.vstack((a, b, ...)).T, axis=1): per element the maximum of the stacked arrays
                elts = [self.e(x) for x in n.args[0].value.args[0].elts]
                if any(t != 'T' for _, t in elts):
                    self.fail(n, 'row-wise reduction of a vstack of non-real arrays')
                f = 'nmin' if base in ('amin', 'min') else 'nmax'
                s = elts[0][0]
                for (x, _) in elts[1:]:
                    s = f'({f} Nm_ {s} {x})'
                return s, 'T'
            if mod in ('np', 'numpy', 'math', 'scipy.special', 'special') or fn in ('abs', 'min', 'max', 'erf'):
                if base == 'where' and len(n.args) == 3:
                    c = self.truthy(*self.e(n.args[0]))
                    a, ta = self.e(n.args[1])
                    b, tb = self.e(n.args[2])
                    if m == 'Num':
                        if ta == 'Z':
                            a, ta = f'(ofZ Nm_ {a})', 'T'
                        if tb == 'Z':
                            b, tb = f'(ofZ Nm_ {b})', 'T'
                    if ta != tb:
                        self.fail(n, 'np.where branches of different type')
                    return f'(if {c} then {a} else {b})', ta
                if base in ('logical_and', 'logical_or') and len(n.args) == 2:
                    a = self.truthy(*self.e(n.args[0]))
                    b = self.truthy(*self.e(n.args[1]))
                    return f"({'andb' if base == 'logical_and' else 'orb'} {a} {b})", 'B'
                if base in ('logical_not', 'invert') and len(n.args) == 1:
                    a = self.truthy(*self.e(n.args[0]))
                    return f'(negb {a})', 'B'
                if base == 'square' and len(n.args) == 1:
                    a, ta = self.e(n.args[0])
                    return (f'({a} * {a})', 'Z') if m == 'Z' else (f'(nmul Nm_ {a} {a})', 'T')
                if base == 'clip' and len(n.args) == 3 and not n.keywords and m == 'Num':
                    # np.clip(x, lo, hi) = minimum(maximum(x, lo), hi)
                    a, ta = self.e(n.args[0])
                    lo, tl = self.e(n.args[1])
                    hi, th = self.e(n.args[2])
                    if (ta, tl, th) != ('T', 'T', 'T'):
                        self.fail(n, 'np.clip on non-real operands')
                    return f'(nmin Nm_ (nmax Nm_ {a} {lo}) {hi})', 'T'
                if base == 'clip' and len(n.args) == 3 and not n.keywords and m == 'Z' and mod in ('np', 'numpy'):
                    # the same on an integer-coded ordered set (C07)
                    a, ta = self.e(n.args[0])
                    lo, tl = self.e(n.args[1])
                    hi, th = self.e(n.args[2])
                    if (ta, tl, th) != ('Z', 'Z', 'Z'):
                        self.fail(n, 'np.clip on non-integer operands')
                    return f'(Z.min (Z.max {a} {lo}) {hi})', 'Z'
                if base in ('equal', 'not_equal') and len(n.args) == 2 and not n.keywords and mod in ('np', 'numpy'):
                    # np.equal(a, b) / np.not_equal(a, b): per element the comparison a == b / a != b
                    cmp_ = ast.Compare(left=n.args[0], ops=[ast.Eq() if base == 'equal' else ast.NotEq()],
                                       comparators=[n.args[1]])
                    return self.e(ast.copy_location(cmp_, n))
                if (base in ('all', 'any') and len(n.args) == 1 and not n.keywords and mod in ('np', 'numpy')
                        and self.k.get('elementwise_reduce')):
                    # opt-in (kernel flag `elementwise_reduce = true`): read per element, the
                    # reduction of a one-element boolean array is that element
                    a, ta = self.e(n.args[0])
                    if ta != 'B':
                        self.fail(n, 'np.all/np.any of a non-boolean')
                    return a, 'B'
                if base == 'erf' and len(n.args) == 1 and m == 'Num':
                    a, _ = self.e(n.args[0])
                    return f'(nerf Nm_ {a})', 'T'
                if base in ('isnan',) and m == 'Num':
                    a, _ = self.e(n.args[0])
                    return f'(nisnan Nm_ {a})', 'B'
                kwnames = {kw.arg for kw in n.keywords}
                if base in NP_BINARY and len(n.args) == 2 and kwnames and kwnames <= {'where', 'out'}:
                    # ufunc(x, y, where=mask, out=arr): per selected element it is the plain function
                    a, ta = self.e(n.args[0])
                    b, tb = self.e(n.args[1])
                    if m == 'Num':
                        return f'(n{NP_BINARY[base]} Nm_ {a} {b})', 'T'
                if base in NP_UNARY and len(n.args) == 1 and kwnames and kwnames <= {'where', 'out'} and m == 'Num':
                    a, ta = self.e(n.args[0])
                    return f'(n{NP_UNARY[base]} Nm_ {a})', 'T'
                if (base in NP_UNARY and len(n.args) == 1 and not n.keywords) or (base in ('around', 'round') and 1 <= len(n.args) <= 2):
                    if base in ('around', 'round') and (len(n.args) != 1 or n.keywords):
                        # np.around(x, d) = rint(x*10^d)/10^d
                        if len(n.args) == 2 and isinstance(n.args[1], ast.Constant) and m == 'Num':
                            a, _ = self.e(n.args[0])
                            d = n.args[1].value
                            p = f'(ofZ Nm_ {10**d})'
                            return f'(ndiv Nm_ (nrint Nm_ (nmul Nm_ {a} {p})) {p})', 'T'
                        if (len(n.args) == 2 and not n.keywords and m == 'Num'
                                and isinstance(n.args[1], (ast.Name, ast.Attribute))
                                and self.argtypes.get(ast.unparse(n.args[1])) == 'Z'):
                            # np.around(x, d) with a variable number of decimals d (declared :Z, read for d >= 0):
                            # the same formula with p = 10^d
                            a, _ = self.e(n.args[0])
                            dn, _ = self.e(n.args[1])
                            return (f'(let p_ := ofZ Nm_ (Z.pow 10 {dn}) in '
                                    f'ndiv Nm_ (nrint Nm_ (nmul Nm_ {a} p_)) p_)'), 'T'
                        self.fail(n, 'np.around form')
                    a, ta = self.e(n.args[0])
                    if m == 'Z':
                        if base in ('abs', 'fabs', 'absolute'):
                            return f'(Z.abs {a})', 'Z'
                        self.fail(n, 'unary function in Z mode')
                    if ta == 'Z':
                        a = f'(ofZ Nm_ {a})'
                    return f'(n{NP_UNARY[base]} Nm_ {a})', 'T'
                if base == 'nextafter' and len(n.args) == 2 and not n.keywords and m == 'Z':
                    # np.nextafter(a, b) on the discrete time grid of the Z models: the neighbour of a towards b
                    a, ta = self.e(n.args[0])
                    b, tb = self.e(n.args[1])
                    if ta != 'Z' or tb != 'Z':
                        self.fail(n, 'nextafter on non-Z')
                    return f'(if {b} <? {a} then {a} - 1 else if {a} <? {b} then {a} + 1 else {a})', 'Z'
                if base in NP_BINARY and len(n.args) == 2 and not n.keywords:
                    a, ta = self.e(n.args[0])
                    b, tb = self.e(n.args[1])
                    if m == 'Z':
                        tabz = {'minimum': 'Z.min', 'maximum': 'Z.max', 'min': 'Z.min', 'max': 'Z.max', 'mod': 'Z.modulo'}
                        if base in tabz:
                            return f'({tabz[base]} {a} {b})', 'Z'
                        self.fail(n, 'binary function in Z mode')
                    if ta == 'Z':
                        a = f'(ofZ Nm_ {a})'
                    if tb == 'Z':
                        b = f'(ofZ Nm_ {b})'
                    return f'(n{NP_BINARY[base]} Nm_ {a} {b})', 'T'
                if fn in ('min', 'max') and len(n.args) == 2:
                    a, ta = self.e(n.args[0])
                    b, tb = self.e(n.args[1])
                    if m == 'Z':
                        return f"({'Z.min' if fn == 'min' else 'Z.max'} {a} {b})", 'Z'
                    return f"(n{fn} Nm_ {a} {b})", 'T'
            # any other call: abstract it if the kernel expects it
            return self.abstract(n, ast.unparse(n), None)
        if isinstance(n, ast.Dict) and len(n.keys) >= 2 and all(k is None for k in n.keys):
            # {**a, **b, ...}: a pure merge of dictionaries; the kernel is the ORDER of the operands
            # (later ones override earlier ones), each operand an integer token (Z mode only)
            if m != 'Z':
                self.fail(n, 'dictionary merge outside Z mode')
            elts = [self.e(v) for v in n.values]
            if any(t != 'Z' for _, t in elts):
                self.fail(n, 'dictionary merge of non-token operands (declare them via atoms as :Z)')
            s = 'nil'
            for (x, _) in reversed(elts):
                s = f'(cons {x} {s})'
            return s, 'ZL'
        if isinstance(n, ast.Tuple) and len(n.elts) == 1:
            return self.e(n.elts[0])
        if isinstance(n, ast.List) and len(n.elts) >= 2:
            # a literal list of arrays (only consumed by an axis-0 reduction)
            return [self.e(x) for x in n.elts], 'L'
        self.fail(n, f'unsupported syntax {type(n).__name__}')

    def abstract(self, node, base_text, index_ast):
        if self.expected_subs is None:
            self.fail(node, 'subscript/call not allowed (no `subscripts` list for this kernel)')
        i = len(self.subs)
        if i >= len(self.expected_subs):
            self.fail(node, 'more subscripts/calls than declared')
        exp = self.expected_subs[i]
        exp_base, _, exp_t = exp.partition('::')
        full_text = ast.unparse(node)
        if exp_base == full_text and exp_base != base_text:
            # the whole sub-expression (e.g. a['time']) is pinned literally
            base_text, index_ast = full_text, None
        elif exp_base != base_text:
            self.fail(node, f'abstracted sub-expression #{i} is {base_text!r} (full: {full_text!r}), kernels.toml expects {exp_base!r}')
        self.subs.append((base_text, index_ast))
        t = exp_t or ('Z' if self.mode == 'Z' else 'T')
        return f'sub{i}', t


def binder(args, mode):
    out = []
    for n, t in args:
        ct = {'Z': 'Z', 'B': 'bool', 'T': 'T', 'O': 'option Z', 'ZL': 'list Z'}[t]
        out.append(f'({Emitter.coqname(n)} : {ct})')
    return ' '.join(out)


def stmt_skeleton(body, values=False, withs=False, trys=False):
    """statement kinds with nesting; docstrings dropped; assignment targets and the test / iterator / raised or
    returned expression text kept, so that an added branch, a re-bound name or a changed guard is visible"""
    out = []
    for st in body:
        if isinstance(st, ast.Expr) and isinstance(st.value, ast.Constant) and isinstance(st.value.value, str):
            continue
        if isinstance(st, ast.Assign):
            out.append('Assign[' + ','.join(ast.unparse(t) for t in st.targets) + ']'
                       + ('=<' + ast.unparse(st.value) + '>' if values else ''))
        elif isinstance(st, ast.AugAssign):
            out.append('AugAssign[' + ast.unparse(st.target) + ']'
                       + ('=<' + ast.unparse(st.value) + '>' if values else ''))
        elif isinstance(st, ast.If):
            s_ = 'If<' + ast.unparse(st.test) + '>(' + stmt_skeleton(st.body, values, withs, trys) + ')'
            if st.orelse:
                s_ += 'Else(' + stmt_skeleton(st.orelse, values, withs, trys) + ')'
            out.append(s_)
        elif isinstance(st, ast.For):
            out.append('For<' + ast.unparse(st.target) + ' in ' + ast.unparse(st.iter) + '>(' + stmt_skeleton(st.body, values, withs, trys) + ')')
        elif isinstance(st, ast.While):
            out.append('While<' + ast.unparse(st.test) + '>(' + stmt_skeleton(st.body, values, withs, trys) + ')')
        elif isinstance(st, ast.Return):
            out.append('Return<' + (ast.unparse(st.value) if st.value is not None else '') + '>')
        elif isinstance(st, ast.Raise):
            out.append('Raise<' + (ast.unparse(st.exc.func) if isinstance(st.exc, ast.Call) else 'exc') + '>')
        elif isinstance(st, ast.Expr):
            out.append('Expr<' + ast.unparse(st.value) + '>')
        elif withs and isinstance(st, ast.With):
            # opt-in (kernel option descend_with = true): the body of a `with` block belongs to the skeleton
            out.append('With(' + stmt_skeleton(st.body, values, withs, trys) + ')')
        elif trys and isinstance(st, ast.Try):
            # opt-in (kernel option descend_try = true): body, handlers (with their exception type), else and
            # finally blocks of a `try` statement belong to the skeleton
            s_ = 'Try(' + stmt_skeleton(st.body, values, withs, trys) + ')'
            for h in st.handlers:
                s_ += ('Except<' + (ast.unparse(h.type) if h.type is not None else '') + '>('
                       + stmt_skeleton(h.body, values, withs, trys) + ')')
            if st.orelse:
                s_ += 'Else(' + stmt_skeleton(st.orelse, values, withs, trys) + ')'
            if st.finalbody:
                s_ += 'Finally(' + stmt_skeleton(st.finalbody, values, withs, trys) + ')'
            out.append(s_)
        else:
            out.append(type(st).__name__)
    return ';'.join(out)


def translate_kernel(k, trees):
    path = os.path.join(REPO, k['file'])
    if path not in trees:
        with open(path) as f:
            trees[path] = ast.parse(f.read(), filename=path)
    func = find_func(trees[path], k['func'])
    if k['select'] in ('shape', 'shapev'):
        # structural pin (C07): the statement skeleton of the function (statement kinds, nesting, assignment
        # targets, called mutators) must be exactly `expect`; emits the constant `true`.  Fail-closed.
        skel = stmt_skeleton(func.body, values=(k['select'] == 'shapev'), withs=bool(k.get('descend_with', False)),
                             trys=bool(k.get('descend_try', False)))
        if skel != k.get('expect'):
            raise TranslateError(f"kernel {k['name']}: statement skeleton of {k['func']} is {skel!r}, "
                                 f"kernels pin {k.get('expect')!r}")
        skel_c = skel.replace('(*', '( *').replace('*)', '* )')     # keep the Coq comment well-formed
        text = (f"(* {k['file']}:{k['func']} [shape] line {func.lineno}\n   {skel_c} *)\n"
                f"Definition {k['name']} : bool := true.")
        return text, skel
    expr, lineno = select_expr(func, k['select'])
    em = Emitter(k)
    body, typ = em.e(expr)
    want = k.get('type')
    if want and want != typ:
        if want == 'B':
            body, typ = em.truthy(body, typ), 'B'
        else:
            raise TranslateError(f"kernel {k['name']}: result type {typ}, expected {want}")
    if em.expected_subs is not None and len(em.subs) != len(em.expected_subs):
        raise TranslateError(f"kernel {k['name']}: {len(em.subs)} subscripts/calls found, {len(em.expected_subs)} declared")
    unused = [n for n, _ in em.args if n not in em.used]
    strict = k.get('strict_args', True)
    if unused and strict:
        # an argument that disappeared from the formula is a semantic change
        idx_used = set()
        for (_, ia) in em.subs:
            if ia is not None:
                for nn in ast.walk(ia):
                    if isinstance(nn, (ast.Name, ast.Attribute)):
                        idx_used.add(ast.unparse(nn))
        unused = [n for n in unused if n not in idx_used]
        if unused:
            raise TranslateError(f"kernel {k['name']}: declared args not used by the source expression: {unused}")
    ct = {'Z': 'Z', 'B': 'bool', 'T': 'T', 'O': 'option Z', 'ZL': 'list Z'}[typ]
    subargs = []
    for i, (b, ia) in enumerate(em.subs):
        exp = em.expected_subs[i]
        _, _, st = exp.partition('::')
        st = st or ('Z' if em.mode == 'Z' else 'T')
        subargs.append((f'sub{i}', st))
    lines = []
    src = ast.unparse(expr)
    lines.append(f"(* {k['file']}:{k['func']} [{k['select']}] line {lineno}\n   {src.replace('(*', '( *').replace('*)', '* )')} *)")
    pre = '{T : Type} (Nm_ : Num T) ' if em.mode == 'Num' else ''
    allb = binder(em.args, em.mode)
    subb = ' '.join(f"({n} : {({'Z': 'Z', 'B': 'bool', 'T': 'T', 'O': 'option Z', 'ZL': 'list Z'}[t])})" for n, t in subargs)
    lines.append(f"Definition {k['name']} {pre}{allb} {subb} : {ct} :=\n  {body}.")
    for i, (b, ia) in enumerate(em.subs):
        if ia is None:
            continue
        em2 = Emitter(dict(k, subscripts=None))
        if isinstance(ia, ast.Slice) or (isinstance(ia, ast.Tuple)):
            lines.append(f"(* {k['name']}_idx{i}: base `{b}` index `{ast.unparse(ia)}` (slice/tuple: not translated) *)")
            continue
        try:
            ib, it = em2.e(ia)
        except TranslateError:
            lines.append(f"(* {k['name']}_idx{i}: base `{b}` index `{ast.unparse(ia)}` (not translated) *)")
            continue
        ict = {'Z': 'Z', 'B': 'bool', 'T': 'T'}[it]
        lines.append(f"(* index into `{b}` *)\nDefinition {k['name']}_idx{i} {pre}{allb} : {ict} :=\n  {ib}.")
    return '\n'.join(lines), src


def main(argv):
    outdir = os.path.join(VERIF, 'coq', 'gen')
    cfg = os.path.join(HERE, 'kernels.toml')
    only = None
    if len(argv) > 1:
        only = set(argv[1:])
    with open(cfg, 'rb') as f:
        spec = tomllib.load(f)
    import glob
    for extra in sorted(glob.glob(os.path.join(HERE, 'kernels.d', '*.toml'))):
        with open(extra, 'rb') as f:
            spec.setdefault('kernel', []).extend(tomllib.load(f).get('kernel', []))
    trees = {}
    mods = {}
    report = {'kernels': {}, 'errors': []}
    for k in spec.get('kernel', []):
        if only and k['out'] not in only:
            continue
        try:
            text, src = translate_kernel(k, trees)
            mods.setdefault(k['out'], {'modes': set(), 'defs': []})
            mods[k['out']]['modes'].add(k['mode'])
            mods[k['out']]['defs'].append(text)
            report['kernels'][k['name']] = {
                'out': k['out'], 'file': k['file'], 'func': k['func'],
                'select': k['select'], 'source': src,
                'sha': hashlib.sha256(text.encode()).hexdigest()[:16]}
        except Exception as ex:   # fail closed: whatever goes wrong, the kernel is reported as not translated
            report['errors'].append({'kernel': k.get('name'), 'out': k.get('out'), 'error': f'{type(ex).__name__}: {ex}'})
    os.makedirs(outdir, exist_ok=True)
    for out, m in mods.items():
        hdr = ['(* GENERATED by translator/py2coq.py from the current /repo working tree. Do not edit. *)',
               'From Coq Require Import ZArith Bool.']
        if 'Num' in m['modes']:
            hdr.append('From Sky Require Import Num.')
        if any('(nexpm1 ' in d for d in m['defs']):
            hdr.append('From Sky Require Import NumX.')
        if any('List.existsb' in d for d in m['defs']):
            hdr.append('From Coq Require List.')
        hdr.append('Open Scope Z_scope.')
        text = '\n'.join(hdr) + '\n\n' + '\n\n'.join(m['defs']) + '\n'
        p = os.path.join(outdir, f'G_{out}.v')
        old = None
        if os.path.exists(p):
            with open(p) as f:
                old = f.read()
        if old != text:
            tmp = p + f'.tmp{os.getpid()}'
            with open(tmp, 'w') as f:
                f.write(text)
            os.replace(tmp, p)
    # a module whose kernels all failed still needs a file so that the build
    # fails at the *use* site with a clear message
    for er in report['errors']:
        out = er.get('out')
        if out and out not in mods:
            p = os.path.join(outdir, f'G_{out}.v')
            with open(p, 'w') as f:
                f.write('(* translator failed for every kernel of this module *)\n')
    json.dump(report, sys.stdout, indent=1)
    print()
    return 1 if report['errors'] else 0


if __name__ == '__main__':
    sys.exit(main(sys.argv))
