import os, sys, time, signal, logging
from skyllh.core.multiproc import parallelize
def task(i):
    if i == 1:   # worker pid 1
        lg = logging.getLogger('skyllh.audit')
        for k in range(int(os.environ.get('NREC','400'))):
            lg.warning('x' * 1000)
        raise ValueError('task failed')
    return i
def on_alarm(sig, frm):
    import faulthandler; faulthandler.dump_traceback(all_threads=False)
    print('HANG: parallelize did not end within 25 s after a worker task raised', flush=True)
    import multiprocessing as mp
    for c in mp.active_children(): c.kill()
    os._exit(3)
signal.signal(signal.SIGALRM, on_alarm)
signal.alarm(25)
t0=time.time()
try:
    r = parallelize(task, [((0,),{}), ((1,),{})], 2)
    print('returned', r, time.time()-t0)
except Exception as ex:
    print('raised', type(ex).__name__, str(ex)[:100], time.time()-t0)
