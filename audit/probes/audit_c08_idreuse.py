import numpy as np, gc
from skyllh.core.config import Config
from skyllh.core.background_generation import MCDataSamplingBkgGenMethod
from skyllh.core.dataset import DatasetData
from skyllh.core.storage import DataFieldRecordArray as DFRA
from skyllh.core.random import RandomStateService
cfg=Config()
def mkdata(n,k):
    mc = DFRA(np.array([(0.1*i+k, 0.01*i, 2.0+i, 1.0) for i in range(n)], dtype=[('ra',float),('dec',float),('log_energy',float),('mcweight',float)]))
    exp = DFRA(np.array([(0.1,0.01,2.0)], dtype=[('ra',float),('dec',float),('log_energy',float)]))
    return DatasetData(data_exp=exp, data_mc=mc, livetime=1.0)
def prob(dataset,data,events):
    w=np.array(events['mcweight']); return w/w.sum()
class DS: name='s'
hits=0
for trial in range(20):
    m = MCDataSamplingBkgGenMethod(cfg=cfg, get_event_prob_func=prob, get_mean_func=None, data_scrambler=None, keep_mc_data_fields=['mcweight'])
    d1 = mkdata(10, 0.0)
    i1=id(d1)
    m.generate_events(RandomStateService(1), DS(), d1, mean=3.0, poisson=False)
    del d1; gc.collect()
    d2 = mkdata(10, 100.0)   # ra in [100,101)
    same = id(d2)==i1
    (n, ev) = m.generate_events(RandomStateService(1), DS(), d2, mean=3.0, poisson=False)
    fresh = MCDataSamplingBkgGenMethod(cfg=cfg, get_event_prob_func=prob, get_mean_func=None, data_scrambler=None, keep_mc_data_fields=['mcweight'])
    (n2, ev2) = fresh.generate_events(RandomStateService(1), DS(), d2, mean=3.0, poisson=False)
    if same:
        hits+=1
        print('id reused; used-object ra', ev['ra'], 'fresh-object ra', ev2['ra'])
        break
print('hits',hits)
