import os, sys, threading, time, signal
from skyllh.core.multiproc import parallelize
def task(i):
    if i == 1:   # runs in worker pid 1 (2 tasks, ncpu 2)
        def killer():
            time.sleep(float(os.environ["KD"]))
            os._exit(1)          # "dies at any point": here while the result record is being transferred
        threading.Thread(target=killer, daemon=True).start()
        return b'x' * (int(os.environ["MB"]) * 1024 * 1024)
    return i
def on_alarm(sig, frm):
    import faulthandler; faulthandler.dump_traceback(all_threads=False)
    print('HANG: parallelize did not return within 25 s after the worker died', flush=True)
    os._exit(3)
signal.signal(signal.SIGALRM, on_alarm)
signal.alarm(25)
t0=time.time()
try:
    r = parallelize(task, [((0,),{}), ((1,),{})], 2)
    print('returned', [type(x) for x in r], time.time()-t0)
except Exception as ex:
    print('raised', type(ex).__name__, str(ex)[:100], time.time()-t0)
