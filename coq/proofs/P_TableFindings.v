(* C16 — witnesses that the remaining guards are needed (open findings / by-design aliasing), and
   set_selection on rows composed with the operation. *)
From Coq Require Import ZArith List Bool Lia Arith.
From Sky Require Import Result PyList G_table M_Table S_Table S_TableInterp P_TableBase P_TableOps P_TableOps2 P_TableOps3
  P_TableCtor P_Table P_TableSim P_TableSim2 P_TableSim3 P_TableRows.
Import ListNotations.
Open Scope Z_scope.

(* a table without fields keeps its length, its copy and its selections do not; an index out of
   range is not noticed (open findings C16-zero-field-length / -selection) *)
Definition zf_ops : list op :=
  [ OCtor [(0, mkbuf 2 [1; 2; 3; 4; 5])] None [] [] true; ORemove 0 0; OCtorFrom 0 None [] []; OSelect 0 (SIdx [99]);
    OCtor [(0, mkbuf 2 [1; 2; 3])] (Some []) [] [] true ].

Lemma zero_field_length_refuted :
  Forall op_wf zf_ops
  /\ map fst (run_obs empty_world zf_ops) = [Done; Done; Done; Done; Done]
  /\ map (fun o => (fnl o, olen o)) (wobjs (run empty_world zf_ops)) = [([], 5); ([], 0); ([], 0); ([], 0)].
Proof. split; [repeat constructor|]. vm_compute. split; reflexivity. Qed.

(* a colliding rename loses a column without any exception (open finding C16-colliding-rename) *)
Lemma rename_collision_refuted :
  exists t conv t', NoDup (anames t) /\ NoDup (map fst conv)
    /\ s_rename t conv true = Ok t' /\ (length (acols t') < length (acols t))%nat.
Proof.
  exists (mkat [(0, mkbuf 2 [1; 2]); (1, mkbuf 3 [10; 20])] 2 false), [(0, 1)],
         (mkat [(1, mkbuf 2 [1; 2])] 2 false).
  split; [repeat constructor; cbn; intuition discriminate|].
  split; [repeat constructor; cbn; intuition|]. split; [reflexivity | cbn; lia].
Qed.

(* storing a column array of one table into another (t1[n] = t0[m]) aliases the two tables: they share
   a location, a later in-place assignment to t0 changes t1, and the world is no longer the world of
   the value interpreter.  Hence op_wf excludes OSetItemFrom. *)
Definition alias_ops : list op :=
  [ OCtor [(0, mkbuf 2 [1; 2])] None [] [] true; OCtor [(0, mkbuf 2 [5; 6])] None [] [] true;
    OSetItemFrom 1 0 0 0;
    OCtor [(0, mkbuf 2 [8; 9])] None [] [] true; OSetSel 0 (SIdx [0; 1]) 2 ].

Lemma alias_refuted :
  map fst (run_obs empty_world alias_ops) = [Done; Done; Done; Done; Done]
  /\ (exists o0 o1 l, nth_error (wobjs (run empty_world alias_ops)) 0 = Some o0
        /\ nth_error (wobjs (run empty_world alias_ops)) 1 = Some o1
        /\ In l (obj_locs o0) /\ In l (obj_locs o1))
  /\ map acols (absw (run empty_world alias_ops))
       = [[(0, mkbuf 2 [8; 9])]; [(0, mkbuf 2 [8; 9])]; [(0, mkbuf 2 [8; 9])]]
  /\ map acols (s_run [] alias_ops)
       = [[(0, mkbuf 2 [8; 9])]; [(0, mkbuf 2 [1; 2])]; [(0, mkbuf 2 [8; 9])]].
Proof.
  split; [vm_compute; reflexivity|]. split.
  - vm_compute. eexists; eexists; eexists. split; [reflexivity|]. split; [reflexivity|]. split; left; reflexivity.
  - split; vm_compute; reflexivity.
Qed.

(* ---- set_selection on rows, composed with the operation *)
Lemma set_selection_op_rows : forall s E o Ea a sl s' o' ps,
  repr s E o -> eqlen E o -> repr s Ea a -> eqlen Ea a -> compat o a ->
  set_selection s o a sl = ((s', o'), Done) -> sel_pos (olen o) sl = Ok ps ->
  exists E', o' = o /\ repr s' E' o
    /\ forall i, (i < Z.to_nat (olen o))%nat ->
         row E' (keys (fields o)) i =
           match last_idx ps i with
           | Some j => row Ea (keys (fields o)) (if Nat.eqb (Z.to_nat (olen a)) (length ps) then j else 0%nat)
           | None => row E (keys (fields o)) i
           end.
Proof.
  intros s E o Ea a sl s' o' ps R [L0 L1] Ra [A0 A1] Hc H SP.
  pose proof (set_selection_spec2 s E o Ea a sl R Ra Hc) as S. rewrite H in S.
  destruct S as (todo & -> & S2 & S3 & S4 & S5).
  destruct S5 as [(_ & -> & FA) | [(k & e & _ & _ & Q & _) | (Q & _)]]; try discriminate.
  assert (Hsub : forall n, In n (keys (fields o)) -> In n (keys (fields a))).
  { intros n Hn; apply (repr_has _ _ _ _ Ra). eapply forallb_In; [exact FA|]. rewrite (r_fnl _ _ _ R); assumption. }
  exists (EmixW sl (fnl o) E Ea []). split; [reflexivity|]. split; [assumption|].
  intros i Hi. apply (set_selection_rows E Ea _ (keys (fields o)) sl (Z.to_nat (olen o)) (Z.to_nat (olen a)) ps); [| | assumption].
  - intros n Hn. assert (Hf : In n (fnl o)) by (rewrite (r_fnl _ _ _ R); assumption).
    destruct (S4 n Hf (fun q => q)) as [d Hd]. splits.
    + pose proof (L1 n Hn) as Q. unfold blen, zlen in Q. lia.
    + pose proof (A1 n (Hsub n Hn)) as Q. unfold blen, zlen in Q. lia.
    + unfold EmixW. replace (mem n (fnl o)) with true by (symmetry; apply mem_In; assumption). cbn.
      unfold putbuf. rewrite Hd. reflexivity.
  - rewrite Z2Nat.id by assumption. assumption.
Qed.
