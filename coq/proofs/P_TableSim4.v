(* C16 — simulation of rename_fields and of the constructors (dict, copy, get_selection). *)
From Coq Require Import ZArith List Bool Lia Arith.
From Sky Require Import Result PyList G_table M_Table S_Table S_TableInterp P_TableBase P_TableOps P_TableOps2 P_TableOps3 P_TableCtor P_Table P_TableSim P_TableSim2 P_TableSim3.
Import ListNotations.
Open Scope Z_scope.

Lemma assoc_vals_of : forall s d n, assoc n (vals_of s d) = option_map (getb s) (assoc n d).
Proof.
  induction d as [|[k l] r IH]; intros n; [reflexivity|]. cbn [vals_of map assoc fst snd].
  destruct (k =? n); [reflexivity | apply IH].
Qed.

Lemma vals_of_ddel : forall s d n, vals_of s (ddel d n) = ddel (vals_of s d) n.
Proof.
  induction d as [|[k l] r IH]; intros n; [reflexivity|]. cbn [vals_of map ddel fst snd].
  destruct (k =? n); [reflexivity|]. cbn [map fst snd]. f_equal. apply IH.
Qed.

Lemma vals_of_dset : forall s d n l, vals_of s (dset d n l) = dset (vals_of s d) n (getb s l).
Proof.
  induction d as [|[k l0] r IH]; intros n l; [reflexivity|]. cbn [vals_of map dset fst snd].
  destruct (k =? n); [reflexivity|]. cbn [map fst snd]. f_equal. apply IH.
Qed.

Lemma vals_of_app : forall s a b, vals_of s (a ++ b) = vals_of s a ++ vals_of s b.
Proof. intros; unfold vals_of; apply map_app. Qed.

Lemma vals_of_ext_store : forall s e d, (forall l, In l (vals d) -> (l < length s)%nat) ->
  vals_of (s ++ e) d = vals_of s d.
Proof.
  intros s e d H; unfold vals_of. apply map_ext_in. intros [n l] Hi; cbn. unfold getb.
  rewrite rd_prefix; [reflexivity|]. apply H. apply (in_map snd) in Hi; exact Hi.
Qed.

(* ------------------------------------------------------------ rename_fields *)
Lemma rename_pop_sim : forall s fl conv d d' ins,
  rename_pop fl conv d = (d', ins, Done) ->
  s_rename_pop fl conv (vals_of s d) = (vals_of s d', vals_of s ins).
Proof.
  induction conv as [|[old new] r IH]; intros d d' ins H; cbn in *.
  - inversion H; reflexivity.
  - destruct (mem old fl).
    + rewrite assoc_vals_of. destruct (assoc old d) as [l|]; cbn [option_map]; [|inversion H].
      destruct (rename_pop fl r (ddel d old)) as [[d1 ins1] x1] eqn:RP. inversion H; subst.
      rewrite <- vals_of_ddel. rewrite (IH _ _ _ RP). reflexivity.
    + apply IH; assumption.
Qed.

Lemma rename_ins_sim : forall s ins d, vals_of s (rename_ins ins d) = s_rename_ins (vals_of s ins) (vals_of s d).
Proof.
  induction ins as [|[n l] r IH]; intros d; [reflexivity|].
  change (rename_ins ((n, l) :: r) d) with (rename_ins r (dset d n l)). rewrite IH, vals_of_dset. reflexivity.
Qed.

Lemma sim_rename : forall s E o conv must, repr s E o -> NoDup (map fst conv) ->
  sim1 (rename_fields s o conv must) (abs_of E o) (s_rename (abs_of E o) conv must).
Proof.
  intros s E o conv must R NDc. unfold s_rename, rename_fields. unfold anames; cbn [acols alen acache abs_of].
  rewrite keys_cols_of, <- (r_fnl _ _ _ R).
  destruct (must && negb (forallb (fun c => mem (fst c) (fnl o)) conv)).
  - cbn. split; [reflexivity | apply abs_obj_repr; assumption].
  - pose proof (r_locs _ _ _ R) as NDl; unfold obj_locs in NDl.
    destruct (rename_pop (fnl o) conv (fields o)) as [[d ins] x] eqn:RP.
    destruct (rename_pop_spec _ _ _ _ _ _ RP (r_nodup _ _ _ R) (NoDup_app_l _ _ _ NDl)) as (_ & _ & _ & _ & I5).
    assert (X : x = Done).
    { apply I5; [assumption|]. intros k _ Hk; rewrite <- (r_fnl _ _ _ R); assumption. }
    subst x. rewrite (r_fnl _ _ _ R), <- (vals_of_repr _ _ _ R), <- (r_fnl _ _ _ R).
    rewrite (rename_pop_sim s _ _ _ _ _ RP). cbn. split; [reflexivity|].
    unfold abs_obj; cbn [fields olen oidx]. rewrite rename_ins_sim. reflexivity.
Qed.

(* ------------------------------------------------------------ the constructor *)
Definition valid (s : store) (d : list (name * loc)) : Prop := forall l, In l (vals d) -> (l < length s)%nat.

Lemma getb_rd : forall s l, (l < length s)%nat -> rd s l = Some (getb s l).
Proof. intros s l H; unfold getb; destruct (rd_Some_of_lt s l H) as [b ->]; reflexivity. Qed.

Lemma valid_ext : forall s e d, valid s d -> valid (s ++ e) d.
Proof. intros s e d H l Hl; rewrite app_length; apply H in Hl; lia. Qed.

Definition csim (s1 : store) (r : cstate * outcome) (v : res (list (name * buf) * option Z)) : Prop :=
  let '((s2, fs2, len2), x) := r in
  (exists e, s2 = s1 ++ e) /\
  match x, v with
  | Done, Ok (acc2, len2') => vals_of s2 fs2 = acc2 /\ len2 = len2' /\ valid s2 fs2
  | Raised e, Err e' => e = e'
  | _, _ => False
  end.

Section CtorSim.
Variables (length : Z) (keep : option (list name)) (conv : list (dtype * dtype)) (exc : list name) (copy : bool).

Lemma ctor_one_sim : forall s1 fs len fname l, (l < List.length s1)%nat -> valid s1 fs ->
  csim s1 (ctor_one length keep conv exc copy (fname, l) (s1, fs, len))
          (v_ctor_one length keep conv exc copy (fname, getb s1 l) (vals_of s1 fs, len)).
Proof.
  intros s1 fs len fname l Hl Hv. unfold ctor_one, v_ctor_one. rewrite (getb_rd _ _ Hl).
  set (b := getb s1 l).
  assert (Nil : exists e, s1 = s1 ++ e) by (exists []; rewrite app_nil_r; reflexivity).
  destruct (match keep with Some k => negb (mem fname k) | None => false end).
  { unfold csim. split; [assumption | splits; auto]. }
  (* the tail shared by the copying and the non-copying branch *)
  assert (Tail : forall (s2 : store) (l' : loc) (b' : buf), (exists e, s2 = s1 ++ e) ->
     vals_of s2 fs = vals_of s1 fs -> getb s2 l' = b' -> (l' < List.length s2)%nat -> valid s2 fs ->
     csim s1 (match len with
              | None => ((s2, dset fs fname l', Some (ctor_first_len (blen b'))), Done)
              | Some n => if ctor_len_bad n (blen b') then ((s2, fs, len), Raised ValueError)
                          else ((s2, dset fs fname l', len), Done)
              end)
             (match len with
              | None => Ok (dset (vals_of s1 fs) fname b', Some (blen b'))
              | Some n => if negb (blen b' =? n) then Err ValueError else Ok (dset (vals_of s1 fs) fname b', len)
              end)).
  { intros s2 l' b' He Hvals Hg Hl' Hv2.
    assert (VD : valid s2 (dset fs fname l')).
    { intros x Hx. apply vals_dset in Hx. destruct Hx as [->|Hx]; [assumption | apply Hv2; assumption]. }
    destruct len as [n|].
    - unfold ctor_len_bad. destruct (negb (blen b' =? n)).
      + unfold csim. split; [assumption | reflexivity].
      + unfold csim. split; [assumption|]. splits; auto. rewrite vals_of_dset, Hvals, Hg; reflexivity.
    - unfold csim. split; [assumption|]. splits; auto. rewrite vals_of_dset, Hvals, Hg; reflexivity. }
  destruct (if mem fname exc then None else assoc (bdt b) conv) as [dt'|].
  - (* conversion: copy *)
    destruct (broadcast (bdata b) (Z.to_nat length)) as [vs|]; cbn [bind].
    + cbn [alloc]. change (zlen vs) with (blen (mkbuf dt' vs)).
      apply Tail.
      * eexists; reflexivity.
      * apply vals_of_ext_store; assumption.
      * unfold getb; rewrite rd_app_new; reflexivity.
      * rewrite app_length; cbn; lia.
      * apply valid_ext; assumption.
    + unfold csim. split; [assumption | reflexivity].
  - destruct copy.
    + destruct (broadcast (bdata b) (Z.to_nat length)) as [vs|]; cbn [bind].
      * cbn [alloc]. change (zlen vs) with (blen (mkbuf (bdt b) vs)).
        apply Tail.
        -- eexists; reflexivity.
        -- apply vals_of_ext_store; assumption.
        -- unfold getb; rewrite rd_app_new; reflexivity.
        -- rewrite app_length; cbn; lia.
        -- apply valid_ext; assumption.
      * unfold csim. split; [assumption | reflexivity].
    + cbn [bind]. apply Tail; auto.
Qed.

Lemma cloop_sim : forall todo s1 fs len, valid s1 todo -> valid s1 fs ->
  csim s1 (cloop (ctor_one length keep conv exc copy) todo (s1, fs, len))
          (v_ctor_loop length keep conv exc copy (vals_of s1 todo) (vals_of s1 fs, len)).
Proof.
  induction todo as [|[fname l] r IH]; intros s1 fs len Ht Hf; cbn [cloop vals_of map v_ctor_loop fst snd].
  - unfold csim. split; [exists []; rewrite app_nil_r; reflexivity | splits; auto].
  - assert (Hl : (l < List.length s1)%nat) by (apply Ht; left; reflexivity).
    pose proof (ctor_one_sim s1 fs len fname l Hl Hf) as S1.
    match type of S1 with csim _ ?X _ =>
      match goal with |- csim _ (match ?X' with _ => _ end) _ => change X' with X end;
      destruct X as [[[s2 fs2] len2] x] end.
    destruct (v_ctor_one length keep conv exc copy (fname, getb s1 l) (vals_of s1 fs, len)) as [[acc2 len2']|e'];
      unfold csim in S1; cbv beta iota in S1; destruct S1 as [[e0 He] S1]; destruct x; try contradiction.
    + destruct S1 as (V1 & -> & V3). cbn [bind]. subst s2.
      assert (Hr : valid (s1 ++ e0) r) by (apply valid_ext; intros x Hx; apply Ht; right; assumption).
      specialize (IH (s1 ++ e0) fs2 len2' Hr V3).
      rewrite vals_of_ext_store in IH by (intros x Hx; apply Ht; right; assumption).
      rewrite V1 in IH. fold (vals_of s1 r).
      match type of IH with csim _ ?X _ =>
        match goal with |- csim _ ?X' _ => change X' with X end;
        destruct X as [[[s3 fs3] len3] x3] end.
      unfold csim in *; cbv beta iota in IH. destruct IH as [[e1 He1] IH]. split; [exists (e0 ++ e1); rewrite app_assoc; assumption | exact IH].
    + cbn [bind]. unfold csim. split; [exists e0; assumption | assumption].
Qed.

Lemma ctor_sim : forall s src, valid s src ->
  match ctor s src length keep conv exc copy with
  | (s', Some o', x) => x = Done /\ (exists e, s' = s ++ e)
                        /\ v_ctor (vals_of s src) length keep conv exc copy = Ok (abs_obj s' o')
  | (s', None, x) => (exists e, s' = s ++ e) /\ exists e, x = Raised e
                        /\ v_ctor (vals_of s src) length keep conv exc copy = Err e
  end.
Proof.
  intros s src Hv. unfold ctor, v_ctor.
  assert (Hnil : valid s []) by (intros l []).
  pose proof (cloop_sim src s [] None Hv Hnil) as S. cbn [vals_of map] in S.
  match type of S with csim _ ?X _ =>
    match goal with |- match (match ?X' with _ => _ end) with _ => _ end => change X' with X end;
    destruct X as [[[s' fs] len] x] end.
  fold (vals_of s src) in *.
  destruct (v_ctor_loop length keep conv exc copy (vals_of s src) ([], None)) as [[acc len']|e'];
    unfold csim in S; cbv beta iota in S; destruct S as [He S]; destruct x; try contradiction.
  - destruct S as (V1 & -> & V3). cbn [bind fst snd]. splits; auto.
    unfold abs_obj; cbn [fields olen oidx]. rewrite V1. destruct len'; reflexivity.
  - split; [assumption|]. exists e; splits; auto. subst; reflexivity.
Qed.
End CtorSim.

(* ------------------------------------------------------------ the callers of the constructor *)
Lemma alloc_cols_sim : forall cols s d, valid s d ->
  match alloc_cols s cols d with
  | (s', d') => (exists e, s' = s ++ e) /\ valid s' d' /\ vals_of s' d' = v_dict cols (vals_of s d)
  end.
Proof.
  induction cols as [|[n b] r IH]; intros s d Hv; cbn [alloc_cols v_dict].
  - splits; auto. exists []; rewrite app_nil_r; reflexivity.
  - cbn [alloc].
    assert (Hv' : valid (s ++ [b]) (dset d n (length s))).
    { intros l Hl. rewrite app_length; cbn. apply vals_dset in Hl. destruct Hl as [->|Hl]; [lia | apply Hv in Hl; lia]. }
    specialize (IH (s ++ [b]) (dset d n (length s)) Hv').
    destruct (alloc_cols (s ++ [b]) r (dset d n (length s))) as [s' d'].
    destruct IH as ([e He] & I2 & I3). splits; auto.
    + exists ([b] ++ e). rewrite He, app_assoc. reflexivity.
    + rewrite I3. f_equal. rewrite vals_of_dset. rewrite vals_of_ext_store by assumption.
      unfold getb; rewrite rd_app_new. reflexivity.
Qed.

Lemma dict_length_sim : forall s d, valid s d -> dict_length s d = Some (v_dict_length (vals_of s d)).
Proof.
  intros s d Hv. unfold dict_length, v_dict_length. destruct d as [|[k l] r].
  - reflexivity.
  - replace (dict_nonempty (zlen ((k, l) :: r))) with true
      by (symmetry; apply K_dict_nonempty; unfold zlen; cbn [length]; lia).
    cbn [vals_of map fst snd]. rewrite (getb_rd s l); [reflexivity|]. apply Hv; left; reflexivity.
Qed.

Lemma ctor_dict_sim : forall s d keep conv exc copy, valid s d ->
  match ctor_dict s d keep conv exc copy with
  | (s', Some o', x) => x = Done /\ (exists e, s' = s ++ e)
                        /\ v_ctor_dict (vals_of s d) keep conv exc copy = Ok (abs_obj s' o')
  | (s', None, x) => (exists e, s' = s ++ e) /\ exists e, x = Raised e
                        /\ v_ctor_dict (vals_of s d) keep conv exc copy = Err e
  end.
Proof.
  intros s d keep conv exc copy Hv. unfold ctor_dict, v_ctor_dict. rewrite (dict_length_sim s d Hv).
  apply ctor_sim; assumption.
Qed.

Lemma repr_valid : forall s E o, repr s E o -> valid s (fields o).
Proof.
  intros s E o R l Hl. eapply repr_loc_lt; [exact R|]. unfold obj_locs; apply in_or_app; left; assumption.
Qed.

Lemma ctor_from_sim : forall s E a keep conv exc, repr s E a ->
  match ctor_from s a keep conv exc with
  | (s', Some o', x) => x = Done /\ (exists e, s' = s ++ e)
                        /\ v_ctor (acols (abs_of E a)) (olen a) keep conv exc true = Ok (abs_obj s' o')
  | (s', None, x) => (exists e, s' = s ++ e) /\ exists e, x = Raised e
                        /\ v_ctor (acols (abs_of E a)) (olen a) keep conv exc true = Err e
  end.
Proof.
  intros s E a keep conv exc R. unfold ctor_from.
  rewrite (r_fnl _ _ _ R). rewrite lookup_all_fields.
  2:{ intros n l Hi; apply In_assoc; [apply R | assumption]. }
  cbn [acols abs_of]. rewrite <- (vals_of_repr _ _ _ R).
  apply ctor_sim. eapply repr_valid; eassumption.
Qed.

(* get_selection: the dict of gathered arrays *)
Definition ssim (s1 : store) (d : list (name * loc)) (r : (store * list (name * loc)) * outcome)
    (v : res (list (name * buf))) : Prop :=
  let '((s2, d2), x) := r in
  (exists e, s2 = s1 ++ e) /\
  match x, v with
  | Done, Ok c => valid s2 d2 /\ vals_of s2 d2 = vals_of s1 d ++ c
  | Raised e, Err e' => e = e'
  | _, _ => False
  end.

Lemma sloop_sim : forall s E a sl, repr s E a ->
  forall names s1 d, (exists e, s1 = s ++ e) -> valid s1 d -> NoDup names ->
    (forall k, In k names -> In k (keys (fields a)) /\ ~ In k (keys d)) ->
    ssim s1 d (sloop (sel_one sl a) names (s1, d)) (map_cols (s_take sl) (cols_of E names)).
Proof.
  intros s E a sl R. induction names as [|fn r IH]; intros s1 d [e1 He1] Hv ND Hn; cbn [sloop cols_of map map_cols].
  - unfold ssim. split; [exists []; rewrite app_nil_r; reflexivity|]. split; [assumption | rewrite app_nil_r; reflexivity].
  - inversion ND as [|? ? Hnr NDr]; subst.
    destruct (Hn fn (or_introl eq_refl)) as [Hin Hnd].
    destruct (repr_assoc _ _ _ _ R Hin) as [l [B1 B2]].
    unfold sel_one at 1. rewrite B1. rewrite rd_prefix by (eapply rd_lt; eassumption). rewrite B2.
    unfold s_take at 1. fold (cols_of E r).
    destruct (np_take (bdata (E fn)) sl) as [vs|e]; cbn [bind].
    + cbn [alloc].
      assert (Hv' : valid ((s ++ e1) ++ [mkbuf (bdt (E fn)) vs]) (dset d fn (length (s ++ e1)))).
      { intros x Hx. rewrite app_length; cbn. apply vals_dset in Hx. destruct Hx as [->|Hx]; [lia | apply Hv in Hx; lia]. }
      assert (Hn' : forall k, In k r -> In k (keys (fields a)) /\ ~ In k (keys (dset d fn (length (s ++ e1))))).
      { intros k Hk. destruct (Hn k (or_intror Hk)) as [Q1 Q2]. split; [assumption|].
        intros Q. apply keys_dset_incl in Q. destruct Q as [->|Q]; contradiction. }
      specialize (IH ((s ++ e1) ++ [mkbuf (bdt (E fn)) vs]) (dset d fn (length (s ++ e1)))
                     (ex_intro _ (e1 ++ [mkbuf (bdt (E fn)) vs]) (eq_sym (app_assoc _ _ _))) Hv' NDr Hn').
      match type of IH with ssim _ _ ?X ?Y =>
        match goal with |- ssim _ _ ?X' _ => change X' with X end;
        destruct X as [[s2 d2] x]; destruct Y as [c|e'] end;
        unfold ssim in *; cbv beta iota in IH; destruct IH as [[e2 He2] IH]; destruct x; try contradiction; cbn [bind].
      * destruct IH as [I2 I3]. split; [exists ([mkbuf (bdt (E fn)) vs] ++ e2); rewrite He2, app_assoc; reflexivity|].
        split; [assumption|].
        rewrite I3. rewrite dset_notin by assumption. rewrite vals_of_app. cbn [vals_of map fst snd].
        rewrite vals_of_ext_store by assumption. unfold getb at 1. rewrite rd_app_new.
        rewrite <- app_assoc. reflexivity.
      * split; [exists ([mkbuf (bdt (E fn)) vs] ++ e2); rewrite He2, app_assoc; reflexivity | assumption].
    + unfold ssim. split; [exists []; rewrite app_nil_r; reflexivity | reflexivity].
Qed.

Lemma get_selection_sim : forall s E a sl, repr s E a ->
  match get_selection s a sl with
  | (s', Some o', x) => x = Done /\ (exists e, s' = s ++ e) /\ s_select (abs_of E a) sl = Ok (abs_obj s' o')
  | (s', None, x) => (exists e, s' = s ++ e) /\ exists e, x = Raised e /\ s_select (abs_of E a) sl = Err e
  end.
Proof.
  intros s E a sl R. unfold get_selection, s_select. cbn [acols abs_of].
  assert (Hnil : valid s []) by (intros l []).
  assert (NDf : NoDup (fnl a)) by (rewrite (r_fnl _ _ _ R); apply R).
  assert (Hn : forall k, In k (fnl a) -> In k (keys (fields a)) /\ ~ In k (keys (@nil (name * loc)))).
  { intros k Hk; rewrite <- (r_fnl _ _ _ R); split; [assumption | intros []]. }
  pose proof (sloop_sim s E a sl R (fnl a) s [] (ex_intro _ [] (eq_sym (app_nil_r s))) Hnil NDf Hn) as S.
  rewrite <- (r_fnl _ _ _ R).
  match type of S with ssim _ _ ?X ?Y =>
    match goal with |- match (match ?X' with _ => _ end) with _ => _ end => change X' with X end;
    destruct X as [[s1 d] x]; destruct Y as [c|e'] end;
    unfold ssim in S; cbv beta iota in S; destruct S as [[e1 He1] S]; destruct x; try contradiction; cbn [bind].
  - destruct S as [S2 S3]. cbn [vals_of map app] in S3.
    pose proof (ctor_dict_sim s1 d None [] [] false S2) as C. rewrite S3 in C.
    destruct (ctor_dict s1 d None [] [] false) as [[s2 [o'|]] x2].
    + destruct C as (C1 & [e2 He2] & C3). splits; auto. exists (e1 ++ e2). rewrite He2, He1, app_assoc. reflexivity.
    + destruct C as ([e2 He2] & e & C2 & C3). split; [exists (e1 ++ e2); rewrite He2, He1, app_assoc; reflexivity|].
      exists e; split; assumption.
  - subst e. split; [exists e1; assumption|]. exists e'; split; reflexivity.
Qed.
