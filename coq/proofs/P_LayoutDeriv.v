(* C02: the chain rule through the parameter bookkeeping.  A local quantity f
   (a PDF ratio, a detector yield) of the value stored in a cell of the source
   parameter record array, seen as a function of the r-th entry of the vector of
   global floating parameter values, has derivative f' where the cell's
   <name>:gpidx equals r+1 and 0 elsewhere — exactly the selection every consumer
   makes. *)
From Coq Require Import Reals ZArith List Bool Lia Lra.
From Coquelicot Require Import Coquelicot.
From Sky Require Import Result PyList G_layout M_Layout S_Layout P_Layout.
Import ListNotations.

Lemma set_nth_length {A} (l : list A) k v : length (set_nth l k v) = length l.
Proof. revert k; induction l as [|a l IH]; intros [|k]; cbn; auto. Qed.

Lemma nth_error_set_nth_eq {A} (l : list A) k v : (k < length l)%nat -> nth_error (set_nth l k v) k = Some v.
Proof. revert k; induction l as [|a l IH]; intros [|k] H; cbn in *; try lia; auto. apply IH. lia. Qed.

Lemma nth_error_set_nth_neq {A} (l : list A) k j v : k <> j -> nth_error (set_nth l k v) j = nth_error l j.
Proof. revert k j; induction l as [|a l IH]; intros [|k] [|j] H; cbn; auto; try congruence. Qed.

Section D.
  Notation gdecl := (@gdecl R).

  (* the value a consumer reads from the cell (s, name) when the floating values are vec *)
  Definition cellval (m : @mapper R) (vec : list R) (s : nat) (name : Z) : R :=
    match create_src_params_recarray m vec with
    | Ok r => match fst (rcell r s name) with Some v => v | None => 0%R end
    | Err _ => 0%R
    end.
  Definition cellkey (m : @mapper R) (vec : list R) (s : nat) (name : Z) : Z :=
    match create_src_params_recarray m vec with
    | Ok r => snd (rcell r s name)
    | Err _ => 0%Z
    end.

  Theorem local_chain_rule (m : @mapper R) vec (rec : @recarray R) s name (r : nat) (f : R -> R) x0 df pre d post :
    names_distinct (m_decls m) ->
    create_src_params_recarray m vec = Ok rec -> (s < m_nmodels m)%nat -> (r < length vec)%nat ->
    m_decls m = pre ++ d :: post -> nm s d = Some name ->
    x0 = cellval m vec s name -> is_derive f x0 df ->
    is_derive (fun t => f (cellval m (set_nth vec r t) s name)) (nth r vec 0%R)
              (if lk_is_local (Z.of_nat r) (cellkey m vec s name) then df else 0%R).
  Proof.
    intros Hd Hc Hs Hr E N Hx Hf.
    destruct (create_ok _ _ _ Hc) as (Hl & _).
    (* the record array for the updated vector exists as well *)
    assert (Hc' : forall t, exists rec', create_src_params_recarray m (set_nth vec r t) = Ok rec').
    { intros t. unfold create_src_params_recarray. rewrite K_lk_len_bad.
      replace (zlen (set_nth vec r t)) with (zlen vec) by (unfold zlen; rewrite set_nth_length; reflexivity).
      unfold create_src_params_recarray in Hc. rewrite K_lk_len_bad in Hc.
      destruct (negb (zlen vec =? n_floating (m_decls m))); [discriminate|]. eexists. reflexivity. }
    destruct (cell_complete _ _ _ _ _ _ _ _ Hd Hc Hs E N) as (v0 & Ec0 & Hv0).
    assert (Hkey : cellkey m vec s name = if g_fixed d then (- Z.of_nat (length pre) - 1)%Z else (rank pre + 1)%Z).
    { unfold cellkey. rewrite Hc, Ec0. reflexivity. }
    assert (Hx0 : x0 = v0). { rewrite Hx. unfold cellval. rewrite Hc, Ec0. reflexivity. }
    rewrite Hkey, K_lk_is_local.
    destruct (g_fixed d) eqn:Ef.
    - (* a fixed parameter: the cell does not move *)
      replace (- Z.of_nat (length pre) - 1 =? Z.of_nat r + 1)%Z with false by (symmetry; apply Z.eqb_neq; lia).
      apply (is_derive_ext (fun _ => f x0)); [|apply (is_derive_const (f x0))].
      intros t. destruct (Hc' t) as (rec' & Ht).
      destruct (cell_complete _ _ _ _ _ _ _ _ Hd Ht Hs E N) as (v & Ec & Hv). rewrite Ef in Hv.
      unfold cellval. rewrite Ht, Ec. cbn [fst]. subst v. rewrite Hx0. rewrite Hv0. reflexivity.
    - unfold rank. destruct (Nat.eq_dec (rankn pre) r) as [Er|Er].
      + (* the cell holds the r-th floating parameter itself *)
        replace (Z.of_nat (rankn pre) + 1 =? Z.of_nat r + 1)%Z with true by (symmetry; apply Z.eqb_eq; lia).
        assert (Hnth : nth r vec 0%R = x0).
        { rewrite Hx0. rewrite Er in Hv0. apply nth_error_nth. exact Hv0. }
        rewrite Hnth. apply (is_derive_ext f); [|exact Hf].
        intros t. destruct (Hc' t) as (rec' & Ht).
        destruct (cell_complete _ _ _ _ _ _ _ _ Hd Ht Hs E N) as (v & Ec & Hv). rewrite Ef in Hv.
        rewrite Er, nth_error_set_nth_eq in Hv by exact Hr. inversion Hv; subst v.
        unfold cellval. rewrite Ht, Ec. reflexivity.
      + (* another floating parameter: the cell does not move *)
        replace (Z.of_nat (rankn pre) + 1 =? Z.of_nat r + 1)%Z with false by (symmetry; apply Z.eqb_neq; lia).
        apply (is_derive_ext (fun _ => f x0)); [|apply (is_derive_const (f x0))].
        intros t. destruct (Hc' t) as (rec' & Ht).
        destruct (cell_complete _ _ _ _ _ _ _ _ Hd Ht Hs E N) as (v & Ec & Hv). rewrite Ef in Hv.
        rewrite nth_error_set_nth_neq in Hv by (intros Q; apply Er; symmetry; exact Q).
        unfold cellval. rewrite Ht, Ec. cbn [fst]. rewrite Hx0. congruence.
  Qed.

  (* a cell no declaration feeds holds NaN / key 0 whatever the vector is *)
  Theorem unmapped_cell (m : @mapper R) vec (rec : @recarray R) s name :
    create_src_params_recarray m vec = Ok rec -> (s < m_nmodels m)%nat ->
    (forall d, In d (m_decls m) -> nm s d <> Some name) ->
    rcell rec s name = (None, 0%Z).
  Proof.
    intros Hc Hs Hno. destruct (rcell rec s name) as (ov, g) eqn:Ec.
    destruct (cell_sound _ _ _ _ _ _ _ Hc Hs Ec) as [(-> & ->)|(pre & d & post & v & E & N & _)]; [reflexivity|].
    exfalso. apply (Hno d); [rewrite E; apply in_or_app; right; left; reflexivity|exact N].
  Qed.

  (* for every declaration list accepted by map_param *)
  Theorem layout_chain n ds (m : @mapper R) vec (rec : @recarray R) s name (r : nat) (f : R -> R) df pre d post :
    build n ds = Ok m -> create_src_params_recarray m vec = Ok rec -> (s < n)%nat -> (r < length vec)%nat ->
    ds = pre ++ d :: post -> nm s d = Some name ->
    is_derive f (cellval m vec s name) df ->
    is_derive (fun t => f (cellval m (set_nth vec r t) s name)) (nth r vec 0%R)
              (if lk_is_local (Z.of_nat r) (cellkey m vec s name) then df else 0%R).
  Proof.
    intros Hb Hc Hs Hr E N Hf. destruct (build_spec _ _ _ Hb) as (Hd & Hn & Hl).
    eapply local_chain_rule; try eassumption; [rewrite Hn; exact Hs|rewrite Hl; exact E|reflexivity].
  Qed.

  (* the leaf hypotheses of the gradient pipeline (P_LlhPipeGrad.pipeline_p_derive) are supplied by
     the layout: a weight W*Y(local parameter) or a table ratio c*phi(local parameter), as a function
     of the r-th floating value, is differentiable with exactly the entry the code selects *)
  Theorem layout_leaf n ds (m : @mapper R) vec (rec : @recarray R) s name (r : nat) (f : R -> R) df (c : R) pre d post :
    build n ds = Ok m -> create_src_params_recarray m vec = Ok rec -> (s < n)%nat -> (r < length vec)%nat ->
    ds = pre ++ d :: post -> nm s d = Some name ->
    is_derive f (cellval m vec s name) df ->
    is_derive (fun t => (c * f (cellval m (set_nth vec r t) s name))%R) (nth r vec 0%R)
              (c * (if lk_is_local (Z.of_nat r) (cellkey m vec s name) then df else 0))%R.
  Proof.
    intros Hb Hc Hs Hr E N Hf.
    apply (is_derive_scal (fun t => f (cellval m (set_nth vec r t) s name)) (nth r vec 0%R) c).
    eapply layout_chain; eassumption.
  Qed.
End D.
