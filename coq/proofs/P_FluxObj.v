(* C13 — objects: update = construct (single steps and whole histories),
   product form, unit invariance. *)
From Coq Require Import Reals ZArith List Bool Lra Lia.
From Sky Require Import Result Num NumR G_flux M_Flux S_Flux P_Flux.
Import ListNotations.
Open Scope R_scope.

Section WithErf.
  Variable erfR : R -> R.
  Notation RN := (RNum erfR).

  Lemma tfac_pos u : 0 < IZR (tfac u).
  Proof. unfold tfac. destruct (u =? 0)%Z, (u =? 1)%Z; apply IZR_lt; lia. Qed.
  Lemma efac_pos u : 0 < IZR (efac u).
  Proof. unfold efac. destruct (u =? 0)%Z, (u =? 1)%Z; apply IZR_lt; lia. Qed.

  Lemma to_self_R fac test scale unit su x :
    conv_test_spec test -> (forall a b, scale a b = a * b) ->
    to_self RN fac test scale unit su x =
      match unit with
      | None => x
      | Some u => if (u =? su)%Z then x else x * (IZR (fac u) / IZR (fac su))
      end.
  Proof.
    intros Ht Hs. unfold to_self. rewrite Ht. destruct unit as [u|]; [|reflexivity].
    destruct (u =? su)%Z; cbn [negb]; [reflexivity|]. rewrite Hs. unfold conv. num_R. reflexivity.
  Qed.

  (* the physical quantity (value times unit factor) is what reaches the formula *)
  Lemma to_self_phys fac test scale u su x :
    conv_test_spec test -> (forall a b, scale a b = a * b) -> (forall v, 0 < IZR (fac v)) ->
    to_self RN fac test scale (Some u) su x * IZR (fac su) = x * IZR (fac u).
  Proof.
    intros Ht Hs Hp. rewrite to_self_R by assumption.
    destruct (u =? su)%Z eqn:E.
    - apply Z.eqb_eq in E. subst. reflexivity.
    - field. generalize (Hp su). lra.
  Qed.

  Lemma to_self_units fac test scale u w su x :
    conv_test_spec test -> (forall a b, scale a b = a * b) -> (forall v, 0 < IZR (fac v)) ->
    to_self RN fac test scale (Some u) su x =
    to_self RN fac test scale (Some w) su (x * IZR (fac u) / IZR (fac w)).
  Proof.
    intros Ht Hs Hp.
    apply (Rmult_eq_reg_r (IZR (fac su))); [|generalize (Hp su); lra].
    rewrite !to_self_phys by assumption. field. generalize (Hp w). lra.
  Qed.
  Lemma to_self_own fac test scale su x :
    conv_test_spec test -> (forall a b, scale a b = a * b) ->
    to_self RN fac test scale None su x = to_self RN fac test scale (Some su) su x.
  Proof. intros Ht Hs. rewrite !to_self_R by assumption. rewrite Z.eqb_refl. reflexivity. Qed.

  Local Ltac mulok := (intros; reflexivity).

  (* ---------------------------------------------------------- unit invariance *)
  Theorem e_call_units p u w x :
    e_call RN p (Some u) x = e_call RN p (Some w) (x * IZR (efac u) / IZR (efac w)).
  Proof.
    destruct p; cbn [e_call]; cbv zeta; try reflexivity.
    - rewrite (to_self_units efac pl_call_conv _ u w) by (try mulok; auto using K_pl_call_conv, efac_pos). reflexivity.
    - rewrite (to_self_units efac co_call_conv _ u w) by (try mulok; auto using K_co_call_conv, efac_pos). reflexivity.
    - rewrite (to_self_units efac lp_call_conv _ u w) by (try mulok; auto using K_lp_call_conv, efac_pos). reflexivity.
    - rewrite (to_self_units efac fn_call_conv _ u w) by (try mulok; auto using K_fn_call_conv, efac_pos). reflexivity.
  Qed.
  Theorem e_call_own p x : e_call RN p None x = e_call RN p (Some (e_unit p)) x.
  Proof.
    destruct p; cbn [e_call e_unit]; cbv zeta; try reflexivity.
    - rewrite (to_self_own efac pl_call_conv) by (try mulok; auto using K_pl_call_conv). reflexivity.
    - rewrite (to_self_own efac co_call_conv) by (try mulok; auto using K_co_call_conv). reflexivity.
    - rewrite (to_self_own efac lp_call_conv) by (try mulok; auto using K_lp_call_conv). reflexivity.
    - rewrite (to_self_own efac fn_call_conv) by (try mulok; auto using K_fn_call_conv). reflexivity.
  Qed.
  Theorem e_int_units p u w a b :
    e_int RN p (Some u) a b =
    e_int RN p (Some w) (a * IZR (efac u) / IZR (efac w)) (b * IZR (efac u) / IZR (efac w)).
  Proof.
    destruct p; cbn [e_int]; try reflexivity.
    - rewrite !(to_self_units efac ue_int_conv _ u w) by (try mulok; auto using K_ue_int_conv, efac_pos). reflexivity.
    - rewrite (to_self_units efac pl_int_conv (pl_int_scale1 RN) u w), (to_self_units efac pl_int_conv (pl_int_scale2 RN) u w)
        by (try mulok; auto using K_pl_int_conv, efac_pos). reflexivity.
  Qed.
  Theorem t_call_units p u w x :
    t_call RN p (Some u) x = t_call RN p (Some w) (x * IZR (tfac u) / IZR (tfac w)).
  Proof.
    destruct p; cbn [t_call]; cbv zeta; try reflexivity.
    - rewrite (to_self_units tfac box_call_conv _ u w) by (try mulok; auto using K_box_call_conv, tfac_pos). reflexivity.
    - rewrite (to_self_units tfac ga_call_conv _ u w) by (try mulok; auto using K_ga_call_conv, tfac_pos). reflexivity.
  Qed.
  Theorem t_int_units p u w a b :
    t_int RN p (Some u) a b =
    t_int RN p (Some w) (a * IZR (tfac u) / IZR (tfac w)) (b * IZR (tfac u) / IZR (tfac w)).
  Proof.
    destruct p; cbn [t_int].
    - rewrite !(to_self_units tfac ut_int_conv _ u w) by (try mulok; auto using K_ut_int_conv, tfac_pos). reflexivity.
    - rewrite !(to_self_units tfac box_int_conv _ u w) by (try mulok; auto using K_box_int_conv, tfac_pos). reflexivity.
    - rewrite !(to_self_units tfac ga_int_conv _ u w) by (try mulok; auto using K_ga_int_conv, tfac_pos). reflexivity.
  Qed.

  (* a power law re-expressed in another unit (E0 and the argument divided by k): same values,
     integral scaled by the unit factor *)
  Theorem pl_rescale E0 g k E : 0 < k -> pl_call RN (E / k) (E0 / k) g = pl_call RN E E0 g.
  Proof.
    intros Hk. rewrite !K_pl_call. f_equal.
    destruct (Req_dec E0 0) as [->|H0].
    - unfold Rdiv. rewrite Rmult_0_l, !Rinv_0, !Rmult_0_r. reflexivity.
    - field. split; lra.
  Qed.

  (* ---------------------------------------------------------- product *)
  Theorem ffm_product s l Phi0 ls le lt sp ep tp rd E t eu tu :
    nth_error s l = Some (OM Phi0 ls le lt) ->
    get_s s ls = Ok sp -> get_e s le = Ok ep -> get_t s lt = Ok tp ->
    ffm_call RN s l rd E t eu tu =
      Ok (Phi0
          * (match rd with Some (ra, dec) => s_call RN sp ra dec | None => 1 end)
          * (match E with Some x => e_call RN ep eu x | None => 1 end)
          * (match t with Some x => t_call RN tp tu x | None => 1 end)).
  Proof.
    intros Hl Hs He Ht. unfold ffm_call. rewrite Hl, Hs, He, Ht. cbn [bind]. rewrite K_ffm_flux.
    destruct rd as [[ra dec]|], E, t; reflexivity.
  Qed.

  (* ---------------------------------------------------------- update = construct: box *)
  Lemma box_new_R tu t0 tw : box_new RN tu t0 tw = Box tu (t0 - tw / 2) (t0 + tw / 2).
  Proof. unfold box_new. rewrite K_box_ctor_start, K_box_ctor_stop. reflexivity. Qed.
  Lemma box_from_R tu a b : a <= b -> box_from RN tu a b = Box tu a b.
  Proof.
    intros _. unfold box_from. rewrite box_new_R, K_box_from_t0, K_box_from_tw. f_equal; lra.
  Qed.

  Lemma shift_R test scale tu dt u :
    conv_test_spec test -> (forall a b, scale a b = a * b) ->
    to_self RN tfac test scale u tu dt = shift tu dt u.
  Proof. intros. rewrite to_self_R by assumption. reflexivity. Qed.

  Ltac kbox := rewrite ?K_box_get_t0, ?K_box_get_tw, ?K_box_set_t0_dt, ?K_box_set_tw_start, ?K_box_set_tw_stop,
                 ?K_box_move_start, ?K_box_move_stop in *.

  Lemma box_move_R tu t0 tw dt u :
    t_move RN (Box tu (t0 - tw / 2) (t0 + tw / 2)) dt u =
      Box tu (t0 + shift tu dt u - tw / 2) (t0 + shift tu dt u + tw / 2).
  Proof.
    cbn [t_move]. cbv zeta. rewrite (shift_R box_move_conv (box_move_scale RN)) by (auto using K_box_move_conv; intros; reflexivity).
    kbox. f_equal; lra.
  Qed.
  Lemma box_set_t0_R tu t0 tw v :
    t_set RN (Box tu (t0 - tw / 2) (t0 + tw / 2)) nT0 v = Box tu (v - tw / 2) (v + tw / 2).
  Proof.
    cbn [t_set t_move]. cbv zeta. rewrite (to_self_R tfac box_move_conv (box_move_scale RN) None) by (auto using K_box_move_conv; intros; reflexivity).
    kbox. f_equal; lra.
  Qed.
  Lemma box_set_tw_R tu t0 tw v :
    t_set RN (Box tu (t0 - tw / 2) (t0 + tw / 2)) nTw v = Box tu (t0 - v / 2) (t0 + v / 2).
  Proof. cbn [t_set]. cbv zeta. kbox. f_equal; lra. Qed.

  Lemma box_set_params_R tu t0 tw pd :
    fst (t_set_params RN pd (Box tu (t0 - tw / 2) (t0 + tw / 2))) =
      Box tu (pick pd nT0 t0 - pick pd nTw tw / 2) (pick pd nT0 t0 + pick pd nTw tw / 2).
  Proof.
    unfold t_set_params, set_params_gen, pick. cbn [t_names fold_left].
    cbn [fst t_get].
    set (v0 := match lookup pd nT0 with Some v => v | None => box_get_t0 RN (t0 - tw / 2) (t0 + tw / 2) end).
    assert (Hv0 : match lookup pd nT0 with Some v => v | None => t0 end = v0).
    { unfold v0. destruct (lookup pd nT0); [reflexivity|]. kbox. lra. }
    rewrite Hv0.
    assert (H1 : fst (if mf_changed RN v0 (box_get_t0 RN (t0 - tw / 2) (t0 + tw / 2))
                      then (t_set RN (Box tu (t0 - tw / 2) (t0 + tw / 2)) nT0 v0, true)
                      else (Box tu (t0 - tw / 2) (t0 + tw / 2), false))
                 = Box tu (v0 - tw / 2) (v0 + tw / 2)).
    { destruct (mf_changed RN v0 _) eqn:H; cbn [fst].
      - apply box_set_t0_R.
      - apply K_mf_unchanged in H. kbox. f_equal; lra. }
    destruct (if mf_changed RN v0 (box_get_t0 RN (t0 - tw / 2) (t0 + tw / 2)) then _ else _) as [p1 b1].
    cbn [fst] in H1. subst p1. cbn [fst t_get].
    set (w0 := match lookup pd nTw with Some v => v | None => box_get_tw RN (v0 - tw / 2) (v0 + tw / 2) end).
    assert (Hw0 : match lookup pd nTw with Some v => v | None => tw end = w0).
    { unfold w0. destruct (lookup pd nTw); [reflexivity|]. kbox. lra. }
    rewrite Hw0.
    destruct (mf_changed RN w0 _) eqn:H; cbn [fst].
    - apply box_set_tw_R.
    - apply K_mf_unchanged in H. kbox. f_equal; lra.
  Qed.

  Lemma box_step tu t0 tw o : par_op o ->
    t_apply RN (box_new RN tu t0 tw) o =
      box_new RN tu (fst (box_spec tu (t0, tw) o)) (snd (box_spec tu (t0, tw) o)).
  Proof.
    intros Hp. rewrite !box_new_R. destruct o as [pd|n v|dt u]; cbn [t_apply box_spec fst snd].
    - apply box_set_params_R.
    - destruct Hp as [Ha Hb].
      destruct n; cbn [pname_beq fst snd]; try reflexivity; try contradiction.
      + apply box_set_t0_R.
      + apply box_set_tw_R.
    - apply box_move_R.
  Qed.

  Theorem box_update ops : forall tu t0 tw, Forall par_op ops ->
    t_run RN ops (box_new RN tu t0 tw) =
      box_new RN tu (fst (fold_left (box_spec tu) ops (t0, tw))) (snd (fold_left (box_spec tu) ops (t0, tw))).
  Proof.
    unfold t_run. induction ops as [|o r IH]; intros tu t0 tw Hf.
    - reflexivity.
    - inversion Hf; subst. cbn [fold_left]. rewrite box_step by assumption.
      rewrite IH by assumption.
      destruct (box_spec tu (t0, tw) o). reflexivity.
  Qed.
  (* ---------------------------------------------------------- update = construct: gaussian *)
  Definition gd (sg tol : R) : R := sqrt (- 2 * (sg * sg) * ln tol).

  Ltac kga := rewrite ?K_ga_get_t0, ?K_ga_set_t0_dt, ?K_ga_set_sigma_dt, ?K_ga_set_sigma_start, ?K_ga_set_sigma_stop,
                ?K_ga_move_start, ?K_ga_move_stop, ?K_ga_ctor_dt, ?K_ga_ctor_start, ?K_ga_ctor_stop in *.

  Lemma ga_move_R tu t0 d sg tol dt u :
    t_move RN (Gauss tu (t0 - d) (t0 + d) sg tol) dt u =
      Gauss tu (t0 + shift tu dt u - d) (t0 + shift tu dt u + d) sg tol.
  Proof.
    cbn [t_move]. cbv zeta. rewrite (shift_R ga_move_conv (ga_move_scale RN)) by (auto using K_ga_move_conv; intros; reflexivity).
    kga. f_equal; lra.
  Qed.
  Lemma ga_set_t0_R tu t0 d sg tol v :
    t_set RN (Gauss tu (t0 - d) (t0 + d) sg tol) nT0 v = Gauss tu (v - d) (v + d) sg tol.
  Proof.
    cbn [t_set t_move]. cbv zeta. rewrite (to_self_R tfac ga_move_conv (ga_move_scale RN) None) by (auto using K_ga_move_conv; intros; reflexivity).
    kga. f_equal; lra.
  Qed.
  Lemma ga_set_sigma_R tu t0 d sg tol v :
    t_set RN (Gauss tu (t0 - d) (t0 + d) sg tol) nSigma v = Gauss tu (t0 - gd v tol) (t0 + gd v tol) v tol.
  Proof. cbn [t_set]. cbv zeta. kga. fold (gd v tol). f_equal; lra. Qed.

  Lemma gauss_new_R tu t0 sg tol :
    gauss_new RN tu t0 sg tol = Gauss tu (t0 - gd sg tol) (t0 + gd sg tol) sg tol.
  Proof.
    unfold gauss_new. cbv zeta. rewrite K_ga_ctor_dt, K_ga_ctor_start, K_ga_ctor_stop. fold (gd sg tol).
    rewrite ga_set_t0_R, ga_set_sigma_R. reflexivity.
  Qed.

  Lemma ga_set_params_R tu t0 sg tol pd :
    fst (t_set_params RN pd (Gauss tu (t0 - gd sg tol) (t0 + gd sg tol) sg tol)) =
      Gauss tu (pick pd nT0 t0 - gd (pick pd nSigma sg) tol) (pick pd nT0 t0 + gd (pick pd nSigma sg) tol)
            (pick pd nSigma sg) tol.
  Proof.
    unfold t_set_params, set_params_gen, pick. cbn [t_names fold_left].
    cbn [fst t_get]. set (d := gd sg tol).
    set (v0 := match lookup pd nT0 with Some v => v | None => ga_get_t0 RN (t0 - d) (t0 + d) end).
    assert (Hv0 : match lookup pd nT0 with Some v => v | None => t0 end = v0).
    { unfold v0. destruct (lookup pd nT0); [reflexivity|]. kga. lra. }
    rewrite Hv0.
    assert (H1 : fst (if mf_changed RN v0 (ga_get_t0 RN (t0 - d) (t0 + d))
                      then (t_set RN (Gauss tu (t0 - d) (t0 + d) sg tol) nT0 v0, true)
                      else (Gauss tu (t0 - d) (t0 + d) sg tol, false))
                 = Gauss tu (v0 - d) (v0 + d) sg tol).
    { destruct (mf_changed RN v0 _) eqn:H; cbn [fst].
      - apply ga_set_t0_R.
      - apply K_mf_unchanged in H. kga. f_equal; lra. }
    destruct (if mf_changed RN v0 (ga_get_t0 RN (t0 - d) (t0 + d)) then _ else _) as [p1 b1].
    cbn [fst] in H1. subst p1. cbn [fst t_get].
    destruct (lookup pd nSigma) as [w|].
    - destruct (mf_changed RN w sg) eqn:H; cbn [fst].
      + apply ga_set_sigma_R.
      + apply K_mf_unchanged in H. subst w. reflexivity.
    - assert (H : mf_changed RN sg sg = false) by (apply K_mf_unchanged; reflexivity).
      rewrite H. reflexivity.
  Qed.

  Lemma gauss_step tu t0 sg tol o : par_op o ->
    t_apply RN (gauss_new RN tu t0 sg tol) o =
      gauss_new RN tu (fst (gauss_spec tu (t0, sg) o)) (snd (gauss_spec tu (t0, sg) o)) tol.
  Proof.
    intros Hp. rewrite !gauss_new_R. destruct o as [pd|n v|dt u]; cbn [t_apply gauss_spec fst snd].
    - apply ga_set_params_R.
    - destruct Hp as [Ha Hb].
      destruct n; cbn [pname_beq fst snd]; try reflexivity; try contradiction.
      + apply ga_set_t0_R.
      + apply ga_set_sigma_R.
    - apply ga_move_R.
  Qed.

  Theorem gauss_update ops : forall tu t0 sg tol, Forall par_op ops ->
    t_run RN ops (gauss_new RN tu t0 sg tol) =
      gauss_new RN tu (fst (fold_left (gauss_spec tu) ops (t0, sg))) (snd (fold_left (gauss_spec tu) ops (t0, sg))) tol.
  Proof.
    unfold t_run. induction ops as [|o r IH]; intros tu t0 sg tol Hf.
    - reflexivity.
    - inversion Hf; subst. cbn [fold_left]. rewrite gauss_step by assumption.
      rewrite IH by assumption.
      destruct (gauss_spec tu (t0, sg) o). reflexivity.
  Qed.

  (* energy profiles: every declared parameter is stored as given (set then get = the value;
     the other parameters are untouched) and set_params = constructing with the picked values *)
  Theorem pl_set_params eu E0 g pd :
    fst (e_set_params RN pd (PowerLaw eu E0 g)) = PowerLaw eu (pick pd nE0 E0) (pick pd nGamma g).
  Proof.
    unfold e_set_params, set_params_gen, pick. cbn [e_names fold_left fst e_get].
    destruct (lookup pd nE0) as [a|], (lookup pd nGamma) as [b|];
      repeat (match goal with |- context [mf_changed RN ?v ?c] =>
                let H := fresh in destruct (mf_changed RN v c) eqn:H; [|apply K_mf_unchanged in H; subst] end;
              cbn [fst e_get e_set]); try reflexivity;
      try (exfalso; match goal with H : mf_changed RN ?x ?x = true |- _ => apply K_mf_changed in H; apply H; reflexivity end).
  Qed.
  Theorem co_set_params eu E0 g Ec pd :
    fst (e_set_params RN pd (Cutoff eu E0 g Ec)) =
      Cutoff eu (pick pd nE0 E0) (pick pd nGamma g) (pick pd nEcut Ec).
  Proof.
    unfold e_set_params, set_params_gen, pick. cbn [e_names fold_left fst e_get].
    destruct (lookup pd nE0) as [a|], (lookup pd nGamma) as [b|], (lookup pd nEcut) as [c|];
      repeat (match goal with |- context [mf_changed RN ?v ?c] =>
                let H := fresh in destruct (mf_changed RN v c) eqn:H; [|apply K_mf_unchanged in H; subst] end;
              cbn [fst e_get e_set]); try reflexivity;
      try (exfalso; match goal with H : mf_changed RN ?x ?x = true |- _ => apply K_mf_changed in H; apply H; reflexivity end).
  Qed.
  Theorem lp_set_params eu E0 a b pd :
    fst (e_set_params RN pd (LogPar eu E0 a b)) =
      LogPar eu (pick pd nE0 E0) (pick pd nAlpha a) (pick pd nBeta b).
  Proof.
    unfold e_set_params, set_params_gen, pick. cbn [e_names fold_left fst e_get].
    destruct (lookup pd nE0) as [x|], (lookup pd nAlpha) as [y|], (lookup pd nBeta) as [z|];
      repeat (match goal with |- context [mf_changed RN ?v ?c] =>
                let H := fresh in destruct (mf_changed RN v c) eqn:H; [|apply K_mf_unchanged in H; subst] end;
              cbn [fst e_get e_set]); try reflexivity;
      try (exfalso; match goal with H : mf_changed RN ?x ?x = true |- _ => apply K_mf_changed in H; apply H; reflexivity end).
  Qed.
End WithErf.
