(* Proofs about M_CollCfg: deepcopy allocates only fresh nodes closed under
   references; under every history the nodes of the store are partitioned into
   the part of each Config instance and the part of the user / base
   dictionaries, references never cross parts, every step writes one part. *)
From Coq Require Import ZArith List Bool Lia Arith.
From Sky Require Import Result PyList G_coll M_Coll M_CollCfg S_Coll P_Coll.
Import ListNotations.

(* kernels: the values the Config methods assign *)
Lemma K_cfg_enable_val : cfg_enable_val = true. Proof. reflexivity. Qed.
Lemma K_cfg_disable_val : cfg_disable_val = false. Proof. reflexivity. Qed.
Lemma K_cfg_set_tracing_val : forall f, cfg_set_tracing_val f = f. Proof. reflexivity. Qed.
Lemma K_cfg_set_ncpu_val : forall n, cfg_set_ncpu_val n = n. Proof. reflexivity. Qed.
Lemma K_cfg_units_angle_val : forall u, cfg_units_angle_val u = u. Proof. reflexivity. Qed.
Lemma K_cfg_units_energy_val : forall u, cfg_units_energy_val u = u. Proof. reflexivity. Qed.
Lemma K_cfg_units_length_val : forall u, cfg_units_length_val u = u. Proof. reflexivity. Qed.
Lemma K_cfg_units_time_val : forall u, cfg_units_time_val u = u. Proof. reflexivity. Qed.
Lemma K_cfg_set_wd_val : forall w, cfg_set_wd_val w = w. Proof. reflexivity. Qed.

Definition refs_ok (P : nat -> Prop) (nd : cnode) : Prop :=
  forall k r, In (k, VRef r) nd -> P r.

Lemma od_set_in : forall {V} (d : od V) k v k' v',
  In (k', v') (od_set d k v) -> In (k', v') d \/ (k' = k /\ v' = v).
Proof.
  induction d as [|[k0 v0] t IH]; intros k v k' v' I; cbn in I.
  - destruct I as [I|[]]. inversion I; auto.
  - destruct (Z.eqb_spec k0 k).
    + destruct I as [I|I]; [inversion I; subst; auto | left; right; exact I].
    + destruct I as [I|I]; [left; left; exact I|].
      destruct (IH _ _ _ _ I) as [X|X]; [left; right; exact X | right; exact X].
Qed.

Lemma od_update_in : forall {V} (B d : od V) k v,
  In (k, v) (od_update d B) -> In (k, v) d \/ In (k, v) B.
Proof.
  induction B as [|[k0 v0] t IH]; intros d k v I; [left; exact I|].
  rewrite od_update_cons in I. destruct (IH _ _ _ I) as [X|X]; [|right; right; exact X].
  destruct (od_set_in _ _ _ _ _ X) as [Y|[Y1 Y2]]; [left; exact Y | subst; right; left; reflexivity].
Qed.

Lemma refs_ok_set : forall P nd k v,
  refs_ok P nd -> (forall r, v = VRef r -> P r) -> refs_ok P (od_set nd k v).
Proof.
  intros P nd k v R Hv k' r I. destruct (od_set_in _ _ _ _ _ I) as [X|[_ X]]; [eapply R; eauto | apply Hv; auto].
Qed.

Lemma refs_ok_weaken : forall (P Q : nat -> Prop) nd, (forall r, P r -> Q r) -> refs_ok P nd -> refs_ok Q nd.
Proof. intros P Q nd PQ R k r I. apply PQ. eapply R; eauto. Qed.

(* ------------------------------------------------------------------ *)
(* deepcopy *)
Definition dinv (n0 : nat) (st : cstore) (m : memo) : Prop :=
  (n0 <= length st)%nat
  /\ (forall o n, memo_get m o = Some n -> (n0 <= n < length st)%nat)
  /\ (forall k nd, (n0 <= k)%nat -> nth_error st k = Some nd ->
        refs_ok (fun r => (n0 <= r < length st)%nat) nd).

Definition grows (n0 : nat) (st st' : cstore) : Prop :=
  (length st <= length st')%nat /\ forall k, (k < n0)%nat -> nth_error st' k = nth_error st k.

Lemma grows_refl : forall n0 st, grows n0 st st.
Proof. intros; split; auto. Qed.

Lemma grows_trans : forall n0 a b c, grows n0 a b -> grows n0 b c -> grows n0 a c.
Proof. intros n0 a b c [L1 P1] [L2 P2]. split; [lia|]. intros k Hk. rewrite P2, P1; auto. Qed.

Definition cp_ok (n0 : nat) (cp : copier) : Prop :=
  forall st m l st' m' l', cp st m l = Ok (st', m', l') -> dinv n0 st m ->
    dinv n0 st' m' /\ grows n0 st st' /\ (n0 <= l' < length st')%nat.

Lemma copy_entries_ok : forall n0 cp, cp_ok n0 cp ->
  forall es st m acc st' m' acc',
    copy_entries cp es st m acc = Ok (st', m', acc') -> dinv n0 st m ->
    refs_ok (fun r => (n0 <= r < length st)%nat) acc ->
    dinv n0 st' m' /\ grows n0 st st' /\ refs_ok (fun r => (n0 <= r < length st')%nat) acc'.
Proof.
  intros n0 cp CP. induction es as [|[k [a|c]] t IH]; intros st m acc st' m' acc' E D R; cbn in E.
  - inversion E; subst. split; [exact D|]. split; [apply grows_refl | exact R].
  - eapply IH; eauto. apply refs_ok_set; [exact R | intros r X; discriminate].
  - destruct (cp st m c) as [[[st1 m1] c']|e] eqn:Ec; [|discriminate].
    destruct (CP _ _ _ _ _ _ Ec D) as (D1 & G1 & C1).
    assert (R1 : refs_ok (fun r => (n0 <= r < length st1)%nat) (od_set acc k (VRef c'))).
    { apply refs_ok_set.
      - eapply refs_ok_weaken; [|exact R]. intros r Hr. destruct G1. cbn beta in *. lia.
      - intros r X; inversion X; subst; exact C1. }
    destruct (IH _ _ _ _ _ _ E D1 R1) as (D2 & G2 & R2).
    split; [exact D2|]. split; [eapply grows_trans; eauto | exact R2].
Qed.

Lemma dcopy_ok : forall fuel n0, cp_ok n0 (dcopy fuel).
Proof.
  induction fuel as [|f IH]; intros n0 st m l st' m' l' E D; [discriminate|].
  cbn [dcopy] in E. destruct D as (DL & DM & DC).
  destruct (memo_get m l) as [lm|] eqn:Em.
  - inversion E; subst st' m' l'. split; [exact (conj DL (conj DM DC))|]. split; [apply grows_refl | eapply DM; eauto].
  - destruct (nth_error st l) as [nd|] eqn:En; [|discriminate].
    destruct (copy_entries (dcopy f) nd (st ++ [[]]) ((l, length st) :: m) []) as [[[st2 m2] nd']|e] eqn:Ec;
      [|discriminate].
    inversion E; subst st' m' l'. clear E.
    assert (D1 : dinv n0 (st ++ [[]]) ((l, length st) :: m)).
    { split; [rewrite app_length; cbn; lia|]. split.
      - intros o n X. cbn in X. rewrite app_length; cbn.
        destruct (Nat.eqb l o); [inversion X; subst; lia|]. specialize (DM _ _ X). lia.
      - intros k nd0 Hk X. rewrite nth_error_snoc in X. rewrite app_length; cbn.
        destruct (Nat.eqb_spec k (length st)).
        + inversion X; subst. intros k0 r [].
        + eapply refs_ok_weaken; [|eapply DC; eauto]. intros r Hr; cbn beta in *; lia. }
    assert (R0 : refs_ok (fun r => (n0 <= r < length (st ++ [[]]))%nat) []) by (intros k r []).
    destruct (copy_entries_ok n0 (dcopy f) (IH n0) _ _ _ _ _ _ _ Ec D1 R0) as ((L2 & M2 & C2) & (G2a & G2b) & R2).
    rewrite app_length in G2a; cbn in G2a.
    split; [|split].
    + split; [rewrite length_set_nth; lia|]. split; [rewrite length_set_nth; exact M2|].
      intros k nd0 Hk X. rewrite length_set_nth. rewrite nth_error_set_nth in X.
      destruct (Nat.eqb_spec k (length st)).
      * destruct (nth_error st2 (length st)); inversion X; subst. exact R2.
      * eapply C2; eauto.
    + split; [rewrite length_set_nth; lia|]. intros k Hk. rewrite nth_error_set_nth.
      destruct (Nat.eqb_spec k (length st)); [lia|]. rewrite G2b by exact Hk.
      rewrite nth_error_app1 by lia. reflexivity.
    + rewrite length_set_nth. lia.
Qed.

(* ------------------------------------------------------------------ *)
(* coloured stores: col l = 0 for base / user nodes, S i for instance i *)
Definition sinv (st : cstore) (col : nat -> nat) : Prop :=
  forall l nd, nth_error st l = Some nd ->
    refs_ok (fun r => (r < length st)%nat /\ col r = col l) nd.

Lemma sinv_ext : forall st col col',
  (forall l, (l < length st)%nat -> col' l = col l) -> sinv st col -> sinv st col'.
Proof.
  intros st col col' X S l nd E k r I.
  assert (l < length st)%nat by (apply nth_error_Some; congruence).
  destruct (S _ _ E _ _ I) as [A B]. split; [exact A|]. rewrite !X by assumption. exact B.
Qed.

(* a top-level deepcopy into a store whose free locations are pre-coloured c *)
Lemma dcopy_sinv : forall fuel st col c b st' m' r,
  sinv st col -> (forall l, (length st <= l)%nat -> col l = c) ->
  dcopy fuel st [] b = Ok (st', m', r) ->
  sinv st' col /\ grows (length st) st st' /\ (length st <= r < length st')%nat.
Proof.
  intros fuel st col c b st' m' r S C E.
  assert (D : dinv (length st) st []).
  { split; [lia|]. split; [intros o n X; discriminate|].
    intros k nd Hk X. exfalso. assert (k < length st)%nat by (apply nth_error_Some; congruence). lia. }
  destruct (dcopy_ok fuel (length st) _ _ _ _ _ _ E D) as ((L & M & Cl) & G & R).
  split; [|split; assumption].
  intros l nd X k r0 I. destruct (Nat.lt_ge_cases l (length st)) as [Hl|Hl].
  - destruct G as [G1 G2]. rewrite G2 in X by exact Hl.
    destruct (S _ _ X _ _ I) as [A B]. split; [lia | exact B].
  - destruct (Cl _ _ Hl X _ _ I) as [A B]. split; [exact B|]. rewrite !C by lia. reflexivity.
Qed.

Lemma walk_col : forall st col path r l,
  sinv st col -> (r < length st)%nat -> walk st r path = Ok l ->
  (l < length st)%nat /\ col l = col r.
Proof.
  intros st col. induction path as [|k t IH]; intros r l S Hr E; cbn in E.
  - inversion E; subst; auto.
  - unfold get_key in E. destruct (nth_error st r) as [nd|] eqn:En; [|discriminate].
    destruct (od_get nd k) as [[a|r2]|] eqn:Eg; try discriminate.
    assert (I : In (k, VRef r2) nd).
    { clear -Eg. induction nd as [|[k0 v0] t' IHn]; [discriminate|]. cbn in Eg.
      destruct (Z.eqb_spec k0 k); [inversion Eg; subst; left; reflexivity | right; auto]. }
    destruct (S _ _ En _ _ I) as [A B].
    destruct (IH _ _ S A E) as [C D]. split; [exact C | congruence].
Qed.

(* one item assignment below a root: only a node of the root's colour changes *)
Lemma set_path_sinv : forall st col r path k v st' x,
  sinv st col -> (r < length st)%nat ->
  (forall r2, v = VRef r2 -> (r2 < length st)%nat /\ col r2 = col r) ->
  set_path st r path k v = (st', x) ->
  sinv st' col /\ length st' = length st
  /\ (forall l, col l <> col r -> nth_error st' l = nth_error st l).
Proof.
  intros st col r path k v st' x S Hr Hv E. unfold set_path in E.
  destruct (walk st r path) as [l|e] eqn:Ew; [|inversion E; subst; auto].
  destruct (nth_error st l) as [nd|] eqn:En; [|inversion E; subst; auto].
  inversion E; subst st' x. clear E.
  destruct (walk_col _ _ _ _ _ S Hr Ew) as [Hl Cl].
  split; [|split; [apply length_set_nth|]].
  - intros l0 nd0 X k0 r0 I. rewrite length_set_nth. rewrite nth_error_set_nth in X.
    destruct (Nat.eqb_spec l0 l).
    + subst l0. rewrite En in X. inversion X; subst nd0.
      destruct (od_set_in _ _ _ _ _ I) as [Y|[_ Y]]; [eapply S; eauto|].
      subst v. destruct (Hv _ eq_refl) as [A B]. split; [exact A | congruence].
    + eapply S; eauto.
  - intros l0 NC. rewrite nth_error_set_nth. destruct (Nat.eqb_spec l0 l); [subst; congruence | reflexivity].
Qed.

Lemma cfg_od_del_in : forall {V} (d : od V) k k' v, In (k', v) (od_del d k) -> In (k', v) d.
Proof.
  induction d as [|[k0 v0] t IH]; intros k k' v I; [exact I|]. cbn in I.
  destruct (k0 =? k); [right; exact I|]. destruct I as [I|I]; [left; exact I | right; eapply IH; eauto].
Qed.

Lemma cfg_od_del_nodup : forall {V} (d : od V) k, NoDup (od_keys d) -> NoDup (od_keys (od_del d k)).
Proof.
  unfold od_keys. induction d as [|[k0 v0] t IH]; intros k N; [exact N|]. cbn in *.
  inversion N as [|? ? Nk Nt]; subst. destruct (k0 =? k); [exact Nt|]. cbn. constructor.
  - intros X. apply Nk. apply in_map_iff in X. destruct X as ([k1 v1] & E1 & I1). cbn in E1; subst.
    apply in_map_iff. exists (k0, v1). split; [reflexivity | eapply cfg_od_del_in; eauto].
  - apply IH; exact Nt.
Qed.

Lemma del_path_sinv : forall st col r path k st' x,
  sinv st col -> (r < length st)%nat -> del_path st r path k = (st', x) ->
  sinv st' col /\ length st' = length st
  /\ (forall l, col l <> col r -> nth_error st' l = nth_error st l).
Proof.
  intros st col r path k st' x S Hr E. unfold del_path in E.
  destruct (walk st r path) as [l|e] eqn:Ew; [|inversion E; subst; auto].
  destruct (nth_error st l) as [nd|] eqn:En; [|inversion E; subst; auto].
  destruct (od_mem nd k); [|inversion E; subst; auto].
  inversion E; subst st' x. clear E.
  destruct (walk_col _ _ _ _ _ S Hr Ew) as [Hl Cl].
  split; [|split; [apply length_set_nth|]].
  - intros l0 nd0 X k0 r0 I. rewrite length_set_nth. rewrite nth_error_set_nth in X.
    destruct (Nat.eqb_spec l0 l).
    + subst l0. rewrite En in X. inversion X; subst nd0. apply cfg_od_del_in in I. eapply S; eauto.
    + eapply S; eauto.
  - intros l0 NC. rewrite nth_error_set_nth. destruct (Nat.eqb_spec l0 l); [subst; congruence | reflexivity].
Qed.

Lemma set_path_atom : forall st col r path k a st' x,
  sinv st col -> (r < length st)%nat -> set_path st r path k (VAtom a) = (st', x) ->
  sinv st' col /\ length st' = length st
  /\ (forall l, col l <> col r -> nth_error st' l = nth_error st l).
Proof. intros. eapply set_path_sinv; eauto. intros r2 X; discriminate. Qed.

Definition mut_ok (st : cstore) (col : nat -> nat) (r : nat) (st' : cstore) : Prop :=
  sinv st' col /\ length st' = length st
  /\ (forall l, col l <> col r -> nth_error st' l = nth_error st l).

Lemma mut_ok_refl : forall st col r, sinv st col -> mut_ok st col r st.
Proof. intros st col r S; unfold mut_ok; split; [exact S|]; split; [reflexivity | auto]. Qed.

Lemma mut_ok_trans : forall st col r st1 st2,
  mut_ok st col r st1 -> mut_ok st1 col r st2 -> mut_ok st col r st2.
Proof.
  intros st col r st1 st2 (S1 & L1 & F1) (S2 & L2 & F2). split; [exact S2|]. split; [congruence|].
  intros l N. rewrite F2, F1; auto.
Qed.

Lemma set_unit_ok : forall st col r key u st' x,
  sinv st col -> (r < length st)%nat -> set_unit st r key u = (st', x) -> mut_ok st col r st'.
Proof.
  intros st col r key [[[|] v]|] st' x S Hr E; cbn in E.
  - eapply set_path_atom; eauto.
  - inversion E; subst; apply mut_ok_refl; exact S.
  - inversion E; subst; apply mut_ok_refl; exact S.
Qed.

Lemma cfg_apply_ok : forall st col r m st' x,
  sinv st col -> (r < length st)%nat -> cfg_apply st r m = (st', x) -> mut_ok st col r st'.
Proof.
  intros st col r m st' x S Hr E. destruct m as [| |f|a e l t|n|absv|path k v|path k]; cbn [cfg_apply] in E;
    try (eapply set_path_atom; eauto; fail); try (eapply del_path_sinv; eauto; fail).
  - destruct (set_unit st r k_angle (umap cfg_units_angle_val a)) as [st1 [u1|e1]] eqn:E1;
      pose proof (set_unit_ok _ _ _ _ _ _ _ S Hr E1) as M1; [|inversion E; subst; exact M1].
    pose proof M1 as (S1 & L1 & F1). assert (Hr1 : (r < length st1)%nat) by lia.
    destruct (set_unit st1 r k_energy (umap cfg_units_energy_val e)) as [st2 [u2|e2]] eqn:E2;
      pose proof (mut_ok_trans _ _ _ _ _ M1 (set_unit_ok _ _ _ _ _ _ _ S1 Hr1 E2)) as M2;
      [|inversion E; subst; exact M2].
    pose proof M2 as (S2 & L2 & F2). assert (Hr2 : (r < length st2)%nat) by lia.
    destruct (set_unit st2 r k_length (umap cfg_units_length_val l)) as [st3 [u3|e3]] eqn:E3;
      pose proof (mut_ok_trans _ _ _ _ _ M2 (set_unit_ok _ _ _ _ _ _ _ S2 Hr2 E3)) as M3;
      [|inversion E; subst; exact M3].
    pose proof M3 as (S3 & L3 & F3). assert (Hr3 : (r < length st3)%nat) by lia.
    exact (mut_ok_trans _ _ _ _ _ M3 (set_unit_ok _ _ _ _ _ _ _ S3 Hr3 E)).
  - destruct (get_path st r [k_project] k_working_directory); [|inversion E; subst; apply mut_ok_refl; exact S].
    eapply set_path_atom; eauto.
Qed.

(* ------------------------------------------------------------------ *)
(* the world *)
Definition winv (w : world) (col : nat -> nat) : Prop :=
  sinv (wst w) col
  /\ (forall u r, nth_error (wusers w) u = Some r -> (r < length (wst w))%nat /\ col r = 0%nat)
  /\ (forall i r, nth_error (winsts w) i = Some r -> (r < length (wst w))%nat /\ col r = S i).

(* the colour a step writes; None: it writes fresh locations only *)
Definition step_col (o : wop) : option nat :=
  match o with
  | WUserNew | WNew | WFromDict _ => None
  | WUserSet _ _ _ _ | WUserLink _ _ _ _ => Some 0%nat
  | WMut i _ => Some (S i)
  end.

Definition recol (col : nat -> nat) (n c : nat) : nat -> nat :=
  fun l => if Nat.ltb l n then col l else c.

Lemma recol_old : forall col n c l, (l < n)%nat -> recol col n c l = col l.
Proof. intros; unfold recol. destruct (Nat.ltb_spec l n); [reflexivity | lia]. Qed.
Lemma recol_new : forall col n c l, (n <= l)%nat -> recol col n c l = c.
Proof. intros; unfold recol. destruct (Nat.ltb_spec l n); [lia | reflexivity]. Qed.

Lemma sinv_snoc : forall st col nd,
  sinv st col ->
  refs_ok (fun r => (r < length st)%nat /\ col r = col (length st)) nd ->
  sinv (st ++ [nd]) col.
Proof.
  intros st col nd S R l nd0 X k r I. rewrite app_length; cbn. rewrite nth_error_snoc in X.
  destruct (Nat.eqb_spec l (length st)).
  - inversion X; subst. destruct (R _ _ I). split; [lia | assumption].
  - destruct (S _ _ X _ _ I). split; [lia | assumption].
Qed.

Lemma od_of_in : forall {V} (B : od V) k v, In (k, v) (od_of B) -> In (k, v) B.
Proof. intros V B k v I. unfold od_of in I. destruct (od_update_in _ _ _ _ I) as [[]|X]; exact X. Qed.

Lemma cfg_new_ok : forall fuel st col c b st' root,
  sinv st col -> (forall l, (length st <= l)%nat -> col l = c) ->
  cfg_new fuel st b = Ok (st', root) ->
  sinv st' col /\ grows (length st) st st' /\ (length st <= root < length st')%nat.
Proof.
  intros fuel st col c b st' root S F E. unfold cfg_new in E.
  destruct (dcopy fuel st [] b) as [[[st1 m1] cc]|e] eqn:Ed; [|discriminate].
  destruct (nth_error st1 cc) as [nd|] eqn:En; [|discriminate].
  inversion E; subst st' root. clear E.
  destruct (dcopy_sinv _ _ _ _ _ _ _ _ S F Ed) as (S1 & [G1 G2] & R).
  split; [|split].
  - apply sinv_snoc; [exact S1|]. intros k r I. apply od_of_in in I.
    destruct (S1 _ _ En _ _ I) as [A B]. split; [exact A|]. rewrite B, !F by lia. reflexivity.
  - split; [rewrite app_length; cbn; lia|]. intros k Hk. rewrite nth_error_app1 by lia. apply G2; exact Hk.
  - rewrite app_length; cbn; lia.
Qed.

Lemma cfg_from_dict_ok : forall fuel st col c b u st' root,
  sinv st col -> (forall l, (length st <= l)%nat -> col l = c) ->
  cfg_from_dict fuel st b u = Ok (st', root) ->
  sinv st' col /\ grows (length st) st st' /\ (length st <= root < length st')%nat.
Proof.
  intros fuel st col c b u st' root S F E. unfold cfg_from_dict in E.
  destruct (cfg_new fuel st b) as [[st1 r1]|e] eqn:En; [|discriminate].
  destruct (cfg_new_ok _ _ _ _ _ _ _ S F En) as (S1 & [G1 G2] & R1).
  destruct (dcopy fuel st1 [] u) as [[[st2 m2] u']|e] eqn:Ed; [|discriminate].
  assert (F1 : forall l, (length st1 <= l)%nat -> col l = c) by (intros; apply F; lia).
  destruct (dcopy_sinv _ _ _ _ _ _ _ _ S1 F1 Ed) as (S2 & [H1 H2] & R2).
  destruct (nth_error st2 u') as [und|] eqn:Eu; [|discriminate].
  destruct (nth_error st2 r1) as [rnd|] eqn:Er; [|discriminate].
  inversion E; subst st' root. clear E.
  split; [|split].
  - intros l nd X k r I. rewrite length_set_nth. rewrite nth_error_set_nth in X.
    destruct (Nat.eqb_spec l r1).
    + subst l. rewrite Er in X. inversion X; subst nd.
      destruct (od_update_in _ _ _ _ I) as [Y|Y].
      * eapply S2; eauto.
      * destruct (S2 _ _ Eu _ _ Y) as [A B]. split; [exact A|]. rewrite B, !F by lia. reflexivity.
    + eapply S2; eauto.
  - split; [rewrite length_set_nth; lia|]. intros k Hk. rewrite nth_error_set_nth.
    destruct (Nat.eqb_spec k r1); [lia|]. rewrite H2 by lia. apply G2; exact Hk.
  - rewrite length_set_nth. lia.
Qed.

Lemma nth_error_snoc_list : forall {A} (l : list A) x i r,
  nth_error (l ++ [x]) i = Some r ->
  ((i < length l)%nat /\ nth_error l i = Some r) \/ (i = length l /\ r = x).
Proof.
  intros A l x i r E. rewrite nth_error_snoc in E. destruct (Nat.eqb_spec i (length l)).
  - inversion E; auto.
  - left. split; [apply nth_error_Some; congruence | exact E].
Qed.

Lemma wstep_inv : forall fuel w o col, winv w col ->
  exists col', winv (fst (wstep fuel w o)) col'
    /\ (forall l, (l < length (wst w))%nat -> col' l = col l)
    /\ (length (wst w) <= length (wst (fst (wstep fuel w o))))%nat
    /\ (forall l, (l < length (wst w))%nat ->
          (forall c, step_col o = Some c -> col l <> c) ->
          nth_error (wst (fst (wstep fuel w o))) l = nth_error (wst w) l).
Proof.
  intros fuel [st users insts] o col (Sv & U & I). cbn [wst wusers winsts] in *.
  assert (Same : exists col', winv (mkw st users insts) col'
      /\ (forall l, (l < length st)%nat -> col' l = col l) /\ (length st <= length st)%nat
      /\ (forall l, (l < length st)%nat -> (forall c, step_col o = Some c -> col l <> c) ->
            nth_error st l = nth_error st l)).
  { exists col. split; [split; [exact Sv | split; assumption]|]. auto. }
  (* steps that write below an existing root with an allowed value *)
  assert (Write : forall r path k v c, (r < length st)%nat -> col r = c -> step_col o = Some c ->
      (forall r2, v = VRef r2 -> (r2 < length st)%nat /\ col r2 = col r) ->
      exists col', winv (mkw (fst (set_path st r path k v)) users insts) col'
      /\ (forall l, (l < length st)%nat -> col' l = col l)
      /\ (length st <= length (fst (set_path st r path k v)))%nat
      /\ (forall l, (l < length st)%nat -> (forall c, step_col o = Some c -> col l <> c) ->
            nth_error (fst (set_path st r path k v)) l = nth_error st l)).
  { intros r path k v c Hr Cr Sc Hv. destruct (set_path st r path k v) as [st' x] eqn:E. cbn [fst].
    destruct (set_path_sinv _ _ _ _ _ _ _ _ Sv Hr Hv E) as (S' & L & F).
    exists col. split; [|split; [auto|split; [lia|]]].
    - split; [exact S'|]. cbn [wst wusers winsts]. rewrite L. split; assumption.
    - intros l Hl N. apply F. rewrite Cr. apply N. exact Sc. }
  destruct o as [|u path k v|u path k u2| |u|i m]; unfold wstep; cbn [wst wusers winsts].
  - (* WUserNew *)
    cbn [fst wst]. exists (recol col (length st) 0%nat).
    split; [|split; [intros; apply recol_old; assumption | split; [rewrite app_length; cbn; lia|]]].
    + split; [|split]; cbn [wst wusers winsts].
      * apply sinv_snoc; [|intros k r []].
        eapply sinv_ext; [|exact Sv]. intros; apply recol_old; assumption.
      * intros u r E. rewrite app_length; cbn. apply nth_error_snoc_list in E.
        destruct E as [[_ E]|[_ E]].
        -- destruct (U _ _ E). rewrite recol_old by assumption. split; [lia | assumption].
        -- subst r. rewrite recol_new by lia. split; [lia | reflexivity].
      * intros i r E. rewrite app_length; cbn. destruct (I _ _ E).
        rewrite recol_old by assumption. split; [lia | assumption].
    + intros l Hl _. apply nth_error_app1; exact Hl.
  - (* WUserSet *)
    destruct (nth_error users u) as [r|] eqn:Eu; [|exact Same].
    destruct (U _ _ Eu) as [Hr Cr].
    destruct (Write r path k (VAtom v) 0%nat Hr Cr eq_refl ltac:(intros r2 X; discriminate)) as (col' & W).
    destruct (set_path st r path k (VAtom v)) as [st' x]. exists col'. exact W.
  - (* WUserLink *)
    destruct (nth_error users u) as [r|] eqn:Eu; [|exact Same].
    destruct (nth_error users u2) as [r2|] eqn:Eu2; [|exact Same].
    destruct (U _ _ Eu) as [Hr Cr]. destruct (U _ _ Eu2) as [Hr2 Cr2].
    destruct (Write r path k (VRef r2) 0%nat Hr Cr eq_refl
                ltac:(intros r3 X; inversion X; subst; split; [assumption | congruence])) as (col' & W).
    destruct (set_path st r path k (VRef r2)) as [st' x]. exists col'. exact W.
  - (* WNew *)
    destruct (nth_error users 0) as [base|] eqn:Eb; [|exact Same].
    destruct (cfg_new fuel st base) as [[st' root]|e] eqn:En; [|exact Same].
    cbn [fst wst]. set (c := S (length insts)). exists (recol col (length st) c).
    assert (S0 : sinv st (recol col (length st) c))
      by (eapply sinv_ext; [|exact Sv]; intros; apply recol_old; assumption).
    destruct (cfg_new_ok _ _ _ c _ _ _ S0 ltac:(intros; apply recol_new; assumption) En) as (S' & [G1 G2] & R).
    split; [|split; [intros; apply recol_old; assumption | split; [exact G1|]]].
    + split; [exact S'|]. cbn [wst wusers winsts]. split.
      * intros u r E. destruct (U _ _ E). rewrite recol_old by assumption. split; [lia | assumption].
      * intros i r E. apply nth_error_snoc_list in E. destruct E as [[_ E]|[Ei E]].
        -- destruct (I _ _ E). rewrite recol_old by assumption. split; [lia | assumption].
        -- subst r i. rewrite recol_new by lia. split; [lia | reflexivity].
    + intros l Hl _. apply G2; exact Hl.
  - (* WFromDict *)
    destruct (nth_error users 0) as [base|] eqn:Eb; [|exact Same].
    destruct (nth_error users u) as [ur|] eqn:Eu; [|exact Same].
    destruct (cfg_from_dict fuel st base ur) as [[st' root]|e] eqn:En; [|exact Same].
    cbn [fst wst]. set (c := S (length insts)). exists (recol col (length st) c).
    assert (S0 : sinv st (recol col (length st) c))
      by (eapply sinv_ext; [|exact Sv]; intros; apply recol_old; assumption).
    destruct (cfg_from_dict_ok _ _ _ c _ _ _ _ S0 ltac:(intros; apply recol_new; assumption) En) as (S' & [G1 G2] & R).
    split; [|split; [intros; apply recol_old; assumption | split; [exact G1|]]].
    + split; [exact S'|]. cbn [wst wusers winsts]. split.
      * intros u0 r E. destruct (U _ _ E). rewrite recol_old by assumption. split; [lia | assumption].
      * intros i r E. apply nth_error_snoc_list in E. destruct E as [[_ E]|[Ei E]].
        -- destruct (I _ _ E). rewrite recol_old by assumption. split; [lia | assumption].
        -- subst r i. rewrite recol_new by lia. split; [lia | reflexivity].
    + intros l Hl _. apply G2; exact Hl.
  - (* WMut *)
    destruct (nth_error insts i) as [r|] eqn:Ei; [|exact Same].
    destruct (I _ _ Ei) as [Hr Cr].
    destruct (cfg_apply st r m) as [st' x] eqn:Ea. cbn [fst wst].
    destruct (cfg_apply_ok _ _ _ _ _ _ Sv Hr Ea) as (S' & L & F).
    exists col. split; [|split; [auto | split; [lia|]]].
    + split; [exact S'|]. cbn [wst wusers winsts]. rewrite L. split; assumption.
    + intros l Hl N. apply F. rewrite Cr. apply N. reflexivity.
Qed.

Lemma winv_w0 : winv w0 (fun _ => 0%nat).
Proof. split; [|split]; cbn; intros l; intros; destruct l; discriminate. Qed.

Lemma wrun_inv : forall fuel ops w col, winv w col -> exists col', winv (wrun fuel w ops) col'.
Proof.
  intros fuel. induction ops as [|o t IH]; intros w col W; [exists col; exact W|].
  cbn. destruct (wstep_inv fuel w o col W) as (col' & W' & _). eapply IH; exact W'.
Qed.

(* reading below a root only looks at nodes of the root's colour *)
Lemma mapM_ext_in : forall {A B} (f g : A -> res B) l,
  (forall a, In a l -> f a = g a) -> mapM f l = mapM g l.
Proof.
  intros A B f g. induction l as [|a t IH]; intros X; [reflexivity|].
  cbn. rewrite (X a) by (left; reflexivity). rewrite IH by (intros; apply X; right; assumption). reflexivity.
Qed.

Lemma tree_frame : forall st st' col c,
  sinv st col ->
  (forall l, (l < length st)%nat -> col l = c -> nth_error st' l = nth_error st l) ->
  forall f r, (r < length st)%nat -> col r = c ->
    tree_of f st' (VRef r) = tree_of f st (VRef r).
Proof.
  intros st st' col c S F. induction f as [|f IH]; intros r Hr Cr; [reflexivity|].
  cbn [tree_of]. rewrite (F _ Hr Cr). destruct (nth_error st r) as [nd|] eqn:En; [|reflexivity].
  erewrite mapM_ext_in; [reflexivity|]. intros [k v] Hin. cbn [fst snd].
  destruct v as [a|r2].
  - destruct f; reflexivity.
  - destruct (S _ _ En _ _ Hin) as [A B]. rewrite IH by congruence. reflexivity.
Qed.

Lemma reach_col : forall st col a c, sinv st col -> reach st a c -> col c = col a.
Proof.
  intros st col a c S R. induction R as [a|a b c k nd En Hin R IH]; [reflexivity|].
  destruct (S _ _ En _ _ Hin) as [_ B]. congruence.
Qed.

(* C20_config *)
Theorem cfg_isolation : forall fuel ops o,
  let w := wrun fuel w0 ops in
  let w' := fst (wstep fuel w o) in
  (forall j r, nth_error (winsts w) j = Some r -> ~ targets_inst o j ->
     forall f, tree_of f (wst w') (VRef r) = tree_of f (wst w) (VRef r))
  /\ (forall u r, nth_error (wusers w) u = Some r -> ~ is_user_step o ->
     forall f, tree_of f (wst w') (VRef r) = tree_of f (wst w) (VRef r)).
Proof.
  intros fuel ops o w w'.
  destruct (wrun_inv fuel ops w0 _ winv_w0) as (col & W). fold w in W.
  destruct (wstep_inv fuel w o col W) as (col' & W' & Ceq & Len & Fr). fold w' in W', Len, Fr.
  destruct W as (Sv & U & I).
  split.
  - intros j r E NT f. destruct (I _ _ E) as [Hr Cr].
    apply (tree_frame _ _ col (S j) Sv); auto.
    intros l Hl Cl. apply Fr; [exact Hl|]. intros c Sc.
    destruct o; cbn in Sc; inversion Sc; subst; try lia.
    cbn in NT. intros X. apply NT. lia.
  - intros u r E NU f. destruct (U _ _ E) as [Hr Cr].
    apply (tree_frame _ _ col 0%nat Sv); auto.
    intros l Hl Cl. apply Fr; [exact Hl|]. intros c Sc.
    destruct o; cbn in Sc; inversion Sc; subst; try lia; cbn in NU; tauto.
Qed.

Theorem cfg_disjoint : forall fuel ops,
  let w := wrun fuel w0 ops in
  (forall i j ri rj l, i <> j -> nth_error (winsts w) i = Some ri -> nth_error (winsts w) j = Some rj ->
     reach (wst w) ri l -> reach (wst w) rj l -> False)
  /\ (forall i u ri ru l, nth_error (winsts w) i = Some ri -> nth_error (wusers w) u = Some ru ->
     reach (wst w) ri l -> reach (wst w) ru l -> False).
Proof.
  intros fuel ops w. destruct (wrun_inv fuel ops w0 _ winv_w0) as (col & S & U & I). fold w in S, U, I.
  split.
  - intros i j ri rj l NE Ei Ej Ri Rj.
    pose proof (reach_col _ _ _ _ S Ri). pose proof (reach_col _ _ _ _ S Rj).
    destruct (I _ _ Ei). destruct (I _ _ Ej). lia.
  - intros i u ri ru l Ei Eu Ri Ru.
    pose proof (reach_col _ _ _ _ S Ri). pose proof (reach_col _ _ _ _ S Ru).
    destruct (I _ _ Ei). destruct (U _ _ Eu). lia.
Qed.

(* a fresh deep copy: nothing of the old store is written, every node reachable
   from the copy is new *)
Theorem dcopy_fresh : forall fuel st b st' m' r,
  dcopy fuel st [] b = Ok (st', m', r) ->
  (forall k, (k < length st)%nat -> nth_error st' k = nth_error st k)
  /\ (forall l, reach st' r l -> (length st <= l < length st')%nat).
Proof.
  intros fuel st b st' m' r E.
  assert (D : dinv (length st) st []).
  { split; [lia|]. split; [intros o n X; discriminate|].
    intros k nd Hk X. exfalso. assert (k < length st)%nat by (apply nth_error_Some; congruence). lia. }
  destruct (dcopy_ok fuel (length st) _ _ _ _ _ _ E D) as ((L & M & Cl) & [G1 G2] & R).
  split; [exact G2|].
  assert (X : forall a l, reach st' a l -> (length st <= a < length st')%nat ->
                         (length st <= l < length st')%nat).
  { clear E R. intros a l Re. induction Re as [a|a b2 c k nd En Hin Re IH]; intros Ra; [exact Ra|].
    apply IH. destruct Ra as [Ra1 Ra2]. exact (Cl _ _ Ra1 En _ _ Hin). }
  intros l Re. eapply X; eauto.
Qed.

(* ------------------------------------------------------------------ *)
(* deepcopy copies the CONTENT: the tree below the copy equals the tree below
   the original (aliasing / cycles included, through the memo table) *)
Definition ent_rel (m : memo) (e e' : Z * cval) : Prop :=
  fst e = fst e' /\ match snd e, snd e' with
                    | VAtom a, VAtom a' => a = a'
                    | VRef c, VRef c' => memo_get m c = Some c'
                    | _, _ => False
                    end.

Definition mono (m m' : memo) : Prop := forall o n, memo_get m o = Some n -> memo_get m' o = Some n.

Lemma ent_rel_mono : forall m m' e e', mono m m' -> ent_rel m e e' -> ent_rel m' e e'.
Proof.
  intros m m' [k v] [k' v'] M [A B]. split; [exact A|]. cbn in *.
  destruct v, v'; auto.
Qed.

Lemma Forall2_ent_mono : forall m m' l l', mono m m' -> Forall2 (ent_rel m) l l' -> Forall2 (ent_rel m') l l'.
Proof. intros m m' l l' M F. induction F; constructor; eauto using ent_rel_mono. Qed.

Lemma Forall2_ent_keys : forall m l l', Forall2 (ent_rel m) l l' -> map fst l = map fst l'.
Proof. intros m l l' F. induction F as [|x y l l' [A _] _ IH]; cbn; congruence. Qed.

Definition knodup (st : cstore) : Prop := forall l nd, nth_error st l = Some nd -> NoDup (od_keys nd).

Section DeepCopyContent.
  Variable st0 : cstore.
  Let n0 := length st0.
  Hypothesis wf0 : forall k nd, nth_error st0 k = Some nd -> refs_ok (fun r => (r < n0)%nat) nd.
  Hypothesis nd0 : knodup st0.

  Definition img (st : cstore) (m : memo) (o n : nat) : Prop :=
    exists nd nd', nth_error st0 o = Some nd /\ nth_error st n = Some nd' /\ Forall2 (ent_rel m) nd nd'.

  Definition sim_inv (st : cstore) (m : memo) (pend : list nat) : Prop :=
    forall o n, memo_get m o = Some n -> In n pend \/ img st m o n.

  Definition prefix0 (st : cstore) : Prop := forall k, (k < n0)%nat -> nth_error st k = nth_error st0 k.

  Definition frame (st st' : cstore) : Prop :=
    (length st <= length st')%nat /\ forall k, (k < length st)%nat -> nth_error st' k = nth_error st k.

  Lemma img_mono : forall st st' m m' o n,
    frame st st' -> mono m m' -> img st m o n -> img st' m' o n.
  Proof.
    intros st st' m m' o n [_ F] M (nd & nd' & A & B & C). exists nd, nd'. split; [exact A|]. split.
    - rewrite F; [exact B | apply nth_error_Some; congruence].
    - eapply Forall2_ent_mono; eauto.
  Qed.

  Definition cp_sim (cp : copier) : Prop :=
    forall st m l st' m' l' pend,
      cp st m l = Ok (st', m', l') ->
      dinv n0 st m -> prefix0 st -> (l < n0)%nat -> sim_inv st m pend ->
      frame st st' /\ mono m m' /\ memo_get m' l = Some l'
      /\ (forall o n, memo_get m' o = Some n -> memo_get m o = Some n \/ (length st <= n)%nat)
      /\ sim_inv st' m' pend.

  Lemma frame_prefix0 : forall st st', dinv n0 st [] \/ (n0 <= length st)%nat -> frame st st' -> prefix0 st -> prefix0 st'.
  Proof.
    intros st st' L [_ F] P k Hk. rewrite F; [apply P; exact Hk|]. destruct L as [[L _]|L]; lia.
  Qed.

  Lemma copy_entries_sim : forall cp, cp_sim cp -> cp_ok n0 cp ->
    forall es pre st m acc st' m' acc' pend,
      copy_entries cp es st m acc = Ok (st', m', acc') ->
      dinv n0 st m -> prefix0 st -> sim_inv st m pend ->
      refs_ok (fun r => (r < n0)%nat) es -> NoDup (map fst pre ++ map fst es) ->
      Forall2 (ent_rel m) pre acc ->
      frame st st' /\ mono m m'
      /\ (forall o n, memo_get m' o = Some n -> memo_get m o = Some n \/ (length st <= n)%nat)
      /\ sim_inv st' m' pend /\ Forall2 (ent_rel m') (pre ++ es) acc'.
  Proof.
    intros cp CS CO. induction es as [|[k v] r IH]; intros pre st m acc st' m' acc' pend E D P SI R N F.
    - cbn in E. inversion E; subst. rewrite app_nil_r.
      split; [split; auto|]. split; [intros o n X; exact X|]. split; [auto|]. split; assumption.
    - assert (Kn : od_mem acc k = false).
      { apply od_mem_false_keys. unfold od_keys. rewrite <- (Forall2_ent_keys _ _ _ F).
        cbn in N. apply NoDup_remove_2 in N. intros X. apply N. apply in_or_app. left; exact X. }
      assert (N' : NoDup (map fst (pre ++ [(k, v)]) ++ map fst r)).
      { rewrite map_app. cbn. rewrite <- app_assoc. exact N. }
      assert (R' : refs_ok (fun r0 => (r0 < n0)%nat) r) by (intros k0 r0 I; eapply R; right; exact I).
      replace (pre ++ (k, v) :: r) with ((pre ++ [(k, v)]) ++ r) by (rewrite <- app_assoc; reflexivity).
      destruct v as [a|c]; cbn [copy_entries] in E.
      + rewrite od_set_notin in E by exact Kn.
        eapply IH; eauto. apply Forall2_app; [exact F|]. constructor; [|constructor]. split; reflexivity.
      + destruct (cp st m c) as [[[st1 m1] c']|e] eqn:Ec; [|discriminate].
        assert (Hc : (c < n0)%nat) by (eapply R; left; reflexivity).
        destruct (CS _ _ _ _ _ _ pend Ec D P Hc SI) as (F1 & M1 & G1 & NE1 & SI1).
        destruct (CO _ _ _ _ _ _ Ec D) as (D1 & _ & _).
        assert (P1 : prefix0 st1).
        { intros k0 Hk0. destruct F1 as [_ F1]. rewrite F1; [apply P; exact Hk0|]. destruct D as [L _]. lia. }
        rewrite od_set_notin in E by exact Kn.
        assert (F' : Forall2 (ent_rel m1) (pre ++ [(k, VRef c)]) (acc ++ [(k, VRef c')])).
        { apply Forall2_app; [eapply Forall2_ent_mono; eauto|]. constructor; [|constructor]. split; [reflexivity | exact G1]. }
        destruct (IH _ _ _ _ _ _ _ pend E D1 P1 SI1 R' N' F') as (F2 & M2 & NE2 & SI2 & FF).
        split; [|split; [|split; [|split; [exact SI2 | exact FF]]]].
        * destruct F1 as [L1 F1]. destruct F2 as [L2 F2]. split; [lia|]. intros k0 Hk0. rewrite F2, F1; auto. lia.
        * intros o n X. apply M2, M1, X.
        * intros o n X. destruct (NE2 _ _ X) as [Y|Y]; [apply NE1; exact Y|]. right. destruct F1. lia.
  Qed.

  Lemma dcopy_sim : forall fuel, cp_sim (dcopy fuel).
  Proof.
    induction fuel as [|f IH]; intros st m l st' m' l' pend E D P Hl SI; [discriminate|].
    cbn [dcopy] in E. destruct (memo_get m l) as [lm|] eqn:Em.
    - inversion E; subst. split; [split; auto|]. split; [intros o n X; exact X|]. split; [exact Em|]. split; auto.
    - rewrite (P _ Hl) in E. destruct (nth_error st0 l) as [nd|] eqn:En; [|discriminate].
      destruct (copy_entries (dcopy f) nd (st ++ [[]]) ((l, length st) :: m) []) as [[[st2 m2] nd']|e] eqn:Ec;
        [|discriminate].
      inversion E; subst st' m' l'. clear E.
      pose proof D as (DL & DM & DC).
      set (l' := length st) in *. set (m1 := (l, l') :: m) in *.
      assert (D1 : dinv n0 (st ++ [[]]) m1).
      { split; [rewrite app_length; cbn; lia|]. split.
        - intros o n X. cbn in X. rewrite app_length; cbn.
          destruct (Nat.eqb l o); [inversion X; subst; unfold l'; lia|]. specialize (DM _ _ X). lia.
        - intros k nd1 Hk X. rewrite nth_error_snoc in X. rewrite app_length; cbn.
          destruct (Nat.eqb_spec k (length st)).
          + inversion X; subst. intros k0 r [].
          + eapply refs_ok_weaken; [|eapply DC; eauto]. intros r Hr; cbn beta in *; lia. }
      assert (M01 : mono m m1).
      { intros o n X. cbn. destruct (Nat.eqb_spec l o); [subst; congruence | exact X]. }
      assert (Fr01 : frame st (st ++ [[]])).
      { split; [rewrite app_length; cbn; lia|]. intros k Hk. apply nth_error_app1; exact Hk. }
      assert (P1 : prefix0 (st ++ [[]])).
      { intros k Hk. rewrite nth_error_app1 by lia. apply P; exact Hk. }
      assert (SI1 : sim_inv (st ++ [[]]) m1 (l' :: pend)).
      { intros o n X. cbn in X. destruct (Nat.eqb_spec l o).
        - inversion X; subst. left; left; reflexivity.
        - destruct (SI _ _ X) as [Y|Y]; [left; right; exact Y | right; eapply img_mono; eauto]. }
      destruct (copy_entries_sim (dcopy f) IH (dcopy_ok f n0) nd [] _ _ _ _ _ _ (l' :: pend) Ec D1 P1 SI1
                  (wf0 _ _ En) (nd0 _ _ En) (Forall2_nil _)) as ([L2 F2] & M2 & NE2 & SI2 & FF).
      cbn [app] in FF. rewrite app_length in L2, F2; cbn in L2, F2.
      assert (G2 : memo_get m2 l = Some l') by (apply M2; cbn; rewrite Nat.eqb_refl; reflexivity).
      assert (Only : forall o, memo_get m2 o = Some l' -> o = l).
      { intros o X. destruct (NE2 _ _ X) as [Y|Y]; [|rewrite app_length in Y; cbn in Y; unfold l' in Y; lia].
        cbn in Y. destruct (Nat.eqb_spec l o); [auto|]. specialize (DM _ _ Y). unfold l' in DM; lia. }
      split; [|split; [|split; [|split]]].
      + split; [rewrite length_set_nth; lia|]. intros k Hk. rewrite nth_error_set_nth.
        destruct (Nat.eqb_spec k l'); [unfold l' in *; lia|]. rewrite F2 by lia. apply nth_error_app1; exact Hk.
      + intros o n X. apply M2, M01, X.
      + exact G2.
      + intros o n X. destruct (NE2 _ _ X) as [Y|Y]; [|right; rewrite app_length in Y; cbn in Y; lia].
        cbn in Y. destruct (Nat.eqb_spec l o); [inversion Y; subst; right; unfold l'; lia | left; exact Y].
      + intros o n X. destruct (Nat.eq_dec n l') as [->|NE].
        * right. rewrite (Only _ X). exists nd, nd'. split; [exact En|]. split; [|exact FF].
          rewrite nth_error_set_nth, Nat.eqb_refl.
          destruct (nth_error st2 l') eqn:Z; [reflexivity|]. apply nth_error_None in Z. unfold l' in Z. lia.
        * destruct (SI2 _ _ X) as [[Y|Y]|Y]; [congruence | left; exact Y|].
          right. destruct Y as (a & b & A & B & C). exists a, b. split; [exact A|]. split; [|exact C].
          rewrite nth_error_set_nth. destruct (Nat.eqb_spec n l'); [contradiction | exact B].
  Qed.

  Lemma tree_of_img : forall st' m',
    (forall o n, memo_get m' o = Some n -> img st' m' o n) ->
    forall f o n, memo_get m' o = Some n -> tree_of f st' (VRef n) = tree_of f st0 (VRef o).
  Proof.
    intros st' m' A. induction f as [|f IH]; intros o n X; [reflexivity|].
    destruct (A _ _ X) as (nd & nd' & E0 & E1 & F). cbn [tree_of]. rewrite E0, E1.
    assert (Q : mapM (fun kv => match tree_of f st' (snd kv) with Ok t => Ok (fst kv, t) | Err e => Err e end) nd'
              = mapM (fun kv => match tree_of f st0 (snd kv) with Ok t => Ok (fst kv, t) | Err e => Err e end) nd).
    { clear E0 E1. induction F as [|[k v] [k' v'] t t' [R1 R2] _ IHF]; [reflexivity|]. cbn in R1, R2. subst k'.
      cbn [mapM bind fst snd]. rewrite IHF.
      assert (Z : tree_of f st' v' = tree_of f st0 v).
      { destruct v as [a|c], v' as [a'|c']; try contradiction; [subst; destruct f; reflexivity | apply IH; exact R2]. }
      rewrite Z. reflexivity. }
    rewrite Q. reflexivity.
  Qed.

  Theorem dcopy_content_0 : forall fuel b st' m' r,
    (b < n0)%nat -> dcopy fuel st0 [] b = Ok (st', m', r) ->
    forall f, tree_of f st' (VRef r) = tree_of f st0 (VRef b).
  Proof.
    intros fuel b st' m' r Hb E f.
    assert (D : dinv n0 st0 []).
    { split; [unfold n0; lia|]. split; [intros o n X; discriminate|].
      intros k nd Hk X. exfalso. assert (k < length st0)%nat by (apply nth_error_Some; congruence). unfold n0 in Hk. lia. }
    assert (SI : sim_inv st0 [] []) by (intros o n X; discriminate).
    destruct (dcopy_sim fuel _ _ _ _ _ _ [] E D (fun k _ => eq_refl) Hb SI) as (_ & _ & G & _ & SI').
    apply (tree_of_img st' m'); [|exact G].
    intros o n X. destruct (SI' _ _ X) as [[]|Y]; exact Y.
  Qed.
End DeepCopyContent.

Theorem dcopy_content : forall st fuel b st' m' r,
  (forall k nd, nth_error st k = Some nd -> refs_ok (fun r => (r < length st)%nat) nd) ->
  knodup st -> (b < length st)%nat ->
  dcopy fuel st [] b = Ok (st', m', r) ->
  forall f, tree_of f st' (VRef r) = tree_of f st (VRef b).
Proof. intros st fuel b st' m' r W K Hb E f. eapply dcopy_content_0; eauto. Qed.

(* ------------------------------------------------------------------ *)
(* dictionaries keep unique keys in every reachable store *)
Lemma knodup_snoc : forall st nd, knodup st -> NoDup (od_keys nd) -> knodup (st ++ [nd]).
Proof.
  intros st nd K N l nd0 X. rewrite nth_error_snoc in X.
  destruct (Nat.eqb l (length st)); [inversion X; subst; exact N | eapply K; eauto].
Qed.

Lemma knodup_set_nth : forall st l nd, knodup st -> NoDup (od_keys nd) -> knodup (set_nth st l nd).
Proof.
  intros st l nd K N k nd0 X. rewrite nth_error_set_nth in X. destruct (Nat.eqb k l).
  - destruct (nth_error st l); inversion X; subst; exact N.
  - eapply K; eauto.
Qed.

Definition cp_kn (cp : copier) : Prop :=
  forall st m l st' m' l', cp st m l = Ok (st', m', l') -> knodup st -> knodup st'.

Lemma copy_entries_kn : forall cp, cp_kn cp -> forall es st m acc st' m' acc',
  copy_entries cp es st m acc = Ok (st', m', acc') -> knodup st -> NoDup (od_keys acc) ->
  knodup st' /\ NoDup (od_keys acc').
Proof.
  intros cp CK. induction es as [|[k [a|c]] r IH]; intros st m acc st' m' acc' E K N; cbn in E.
  - inversion E; subst; auto.
  - eapply IH; eauto. apply od_keys_set_nodup; exact N.
  - destruct (cp st m c) as [[[st1 m1] c']|e] eqn:Ec; [|discriminate].
    eapply IH; eauto. apply od_keys_set_nodup; exact N.
Qed.

Lemma dcopy_kn : forall fuel, cp_kn (dcopy fuel).
Proof.
  induction fuel as [|f IH]; intros st m l st' m' l' E K; [discriminate|].
  cbn [dcopy] in E. destruct (memo_get m l); [inversion E; subst; exact K|].
  destruct (nth_error st l) as [nd|]; [|discriminate].
  destruct (copy_entries (dcopy f) nd (st ++ [[]]) ((l, length st) :: m) []) as [[[st2 m2] nd']|e] eqn:Ec; [|discriminate].
  inversion E; subst. destruct (copy_entries_kn _ IH _ _ _ _ _ _ _ Ec) as [K2 N2].
  - apply knodup_snoc; [exact K | constructor].
  - constructor.
  - apply knodup_set_nth; assumption.
Qed.

Lemma set_path_kn : forall st r path k v st' x, knodup st -> set_path st r path k v = (st', x) -> knodup st'.
Proof.
  intros st r path k v st' x K E. unfold set_path in E.
  destruct (walk st r path) as [l|e]; [|inversion E; subst; exact K].
  destruct (nth_error st l) as [nd|] eqn:En; [|inversion E; subst; exact K].
  inversion E; subst. apply knodup_set_nth; [exact K|]. apply od_keys_set_nodup. eapply K; eauto.
Qed.

Lemma del_path_kn : forall st r path k st' x, knodup st -> del_path st r path k = (st', x) -> knodup st'.
Proof.
  intros st r path k st' x K E. unfold del_path in E.
  destruct (walk st r path) as [l|e]; [|inversion E; subst; exact K].
  destruct (nth_error st l) as [nd|] eqn:En; [|inversion E; subst; exact K].
  destruct (od_mem nd k); [|inversion E; subst; exact K].
  inversion E; subst. apply knodup_set_nth; [exact K|]. apply cfg_od_del_nodup. eapply K; eauto.
Qed.

Lemma set_unit_kn : forall st r key u st' x, knodup st -> set_unit st r key u = (st', x) -> knodup st'.
Proof.
  intros st r key [[[|] v]|] st' x K E; cbn in E; try (inversion E; subst; exact K).
  eapply set_path_kn; eauto.
Qed.

Lemma cfg_apply_kn : forall st r m st' x, knodup st -> cfg_apply st r m = (st', x) -> knodup st'.
Proof.
  intros st r m st' x K E. destruct m as [| |f|a e l t|n|absv|path k v|path k]; cbn [cfg_apply] in E;
    try (eapply set_path_kn; eauto; fail); try (eapply del_path_kn; eauto; fail).
  - destruct (set_unit st r k_angle (umap cfg_units_angle_val a)) as [st1 [u1|e1]] eqn:E1;
      pose proof (set_unit_kn _ _ _ _ _ _ K E1) as K1; [|inversion E; subst; exact K1].
    destruct (set_unit st1 r k_energy (umap cfg_units_energy_val e)) as [st2 [u2|e2]] eqn:E2;
      pose proof (set_unit_kn _ _ _ _ _ _ K1 E2) as K2; [|inversion E; subst; exact K2].
    destruct (set_unit st2 r k_length (umap cfg_units_length_val l)) as [st3 [u3|e3]] eqn:E3;
      pose proof (set_unit_kn _ _ _ _ _ _ K2 E3) as K3; [|inversion E; subst; exact K3].
    eapply set_unit_kn; eauto.
  - destruct (get_path st r [k_project] k_working_directory); [|inversion E; subst; exact K].
    eapply set_path_kn; eauto.
Qed.

Lemma cfg_new_kn : forall fuel st b st' root, knodup st -> cfg_new fuel st b = Ok (st', root) -> knodup st'.
Proof.
  intros fuel st b st' root K E. unfold cfg_new in E.
  destruct (dcopy fuel st [] b) as [[[st1 m1] c]|e] eqn:Ed; [|discriminate].
  destruct (nth_error st1 c); [|discriminate]. inversion E; subst.
  apply knodup_snoc; [eapply dcopy_kn; eauto | apply od_of_nodup].
Qed.

Lemma cfg_from_dict_kn : forall fuel st b u st' root, knodup st -> cfg_from_dict fuel st b u = Ok (st', root) -> knodup st'.
Proof.
  intros fuel st b u st' root K E. unfold cfg_from_dict in E.
  destruct (cfg_new fuel st b) as [[st1 r1]|e] eqn:En; [|discriminate].
  destruct (dcopy fuel st1 [] u) as [[[st2 m2] u']|e] eqn:Ed; [|discriminate].
  destruct (nth_error st2 u') as [und|]; [|discriminate].
  destruct (nth_error st2 r1) as [rnd|] eqn:Er; [|discriminate]. inversion E; subst.
  assert (K2 : knodup st2) by (eapply dcopy_kn; eauto; eapply cfg_new_kn; eauto).
  apply knodup_set_nth; [exact K2|]. apply od_update_nodup. eapply K2; eauto.
Qed.

Lemma wstep_kn : forall fuel w o, knodup (wst w) -> knodup (wst (fst (wstep fuel w o))).
Proof.
  intros fuel [st users insts] o K. cbn [wst] in K.
  destruct o as [|u path k v|u path k u2| |u|i m]; unfold wstep; cbn [wst wusers winsts].
  - cbn. apply knodup_snoc; [exact K | constructor].
  - destruct (nth_error users u); [|exact K].
    destruct (set_path st n path k (VAtom v)) as [st' x] eqn:E. cbn. eapply set_path_kn; eauto.
  - destruct (nth_error users u); [|exact K]. destruct (nth_error users u2); [|exact K].
    destruct (set_path st n path k (VRef n0)) as [st' x] eqn:E. cbn. eapply set_path_kn; eauto.
  - destruct (nth_error users 0); [|exact K].
    destruct (cfg_new fuel st n) as [[st' root]|e] eqn:E; [|exact K]. cbn. eapply cfg_new_kn; eauto.
  - destruct (nth_error users 0); [|exact K]. destruct (nth_error users u); [|exact K].
    destruct (cfg_from_dict fuel st n n0) as [[st' root]|e] eqn:E; [|exact K]. cbn. eapply cfg_from_dict_kn; eauto.
  - destruct (nth_error insts i); [|exact K].
    destruct (cfg_apply st n m) as [st' x] eqn:E. cbn. eapply cfg_apply_kn; eauto.
Qed.

Lemma wrun_kn : forall fuel ops w, knodup (wst w) -> knodup (wst (wrun fuel w ops)).
Proof.
  intros fuel. induction ops as [|o t IH]; intros w K; [exact K|]. cbn. apply IH. apply wstep_kn; exact K.
Qed.

(* Config(): the new instance has the content of the base configuration *)
Lemma cfg_new_tree : forall fuel st b st' root,
  sinv st (fun _ => 0%nat) -> knodup st -> (b < length st)%nat ->
  cfg_new fuel st b = Ok (st', root) ->
  forall f, tree_of f st' (VRef root) = tree_of f st (VRef b).
Proof.
  intros fuel st b st' root S K Hb E f. unfold cfg_new in E.
  destruct (dcopy fuel st [] b) as [[[st1 m1] c]|e] eqn:Ed; [|discriminate].
  destruct (nth_error st1 c) as [nd|] eqn:En; [|discriminate]. inversion E; subst st' root. clear E.
  assert (W : forall k nd0, nth_error st k = Some nd0 -> refs_ok (fun r => (r < length st)%nat) nd0).
  { intros k nd0 X kk r I. destruct (S _ _ X _ _ I); assumption. }
  rewrite <- (dcopy_content st fuel b st1 m1 c W K Hb Ed f).
  destruct (dcopy_sinv fuel st (fun _ => 0%nat) 0%nat b st1 m1 c S (fun _ _ => eq_refl) Ed) as (S1 & _ & _).
  assert (K1 : knodup st1) by (eapply dcopy_kn; eauto).
  destruct f as [|f]; [reflexivity|]. cbn [tree_of].
  rewrite nth_error_app2, Nat.sub_diag by lia. cbn [nth_error]. rewrite En.
  rewrite (od_of_nodup_id nd) by (apply (K1 _ _ En)).
  erewrite mapM_ext_in; [reflexivity|]. intros [k v] Hin. cbn [fst snd].
  destruct v as [a|r]; [destruct f; reflexivity|].
  destruct (S1 _ _ En _ _ Hin) as [Hr _].
  rewrite (tree_frame st1 (st1 ++ [nd]) (fun _ => 0%nat) 0%nat S1); auto.
  intros l Hl _. apply nth_error_app1; exact Hl.
Qed.

Theorem new_config_is_base : forall fuel ops w',
  let w := wrun fuel w0 ops in
  wstep fuel w WNew = (w', Ok tt) ->
  exists base root,
    nth_error (wusers w) 0 = Some base /\ winsts w' = winsts w ++ [root] /\ wusers w' = wusers w
    /\ forall f, tree_of f (wst w') (VRef root) = tree_of f (wst w) (VRef base).
Proof.
  intros fuel ops w' w E.
  destruct (wrun_inv fuel ops w0 _ winv_w0) as (col & Sv & U & I). fold w in Sv, U, I.
  assert (K : knodup (wst w)) by (apply wrun_kn; intros l nd X; destruct l; discriminate).
  unfold wstep in E. destruct (nth_error (wusers w) 0) as [base|] eqn:Eb; [|inversion E].
  destruct (cfg_new fuel (wst w) base) as [[st' root]|e] eqn:En; [|inversion E].
  inversion E; subst w'. clear E. exists base, root. cbn [winsts wusers wst].
  split; [reflexivity|]. split; [reflexivity|]. split; [reflexivity|].
  destruct (U _ _ Eb) as [Hb _].
  apply (cfg_new_tree fuel (wst w) base st' root); auto.
  intros l nd X k r Hin. destruct (Sv _ _ X _ _ Hin). split; [assumption | reflexivity].
Qed.

(* ------------------------------------------------------------------ *)
(* composition: an instance is a private snapshot of the base configuration at
   its creation time, whatever happens afterwards to anything else *)
Lemma wstep_insts_keep : forall fuel w o j r,
  nth_error (winsts w) j = Some r -> nth_error (winsts (fst (wstep fuel w o))) j = Some r.
Proof.
  intros fuel [st users insts] o j r E. cbn [winsts] in E.
  assert (Ap : forall x, nth_error (insts ++ [x]) j = Some r).
  { intros x. rewrite nth_error_app1; [exact E | apply nth_error_Some; congruence]. }
  destruct o as [|u path k v|u path k u2| |u|i m]; unfold wstep; cbn [wst wusers winsts].
  - exact E.
  - destruct (nth_error users u); [|exact E]. destruct (set_path st n path k (VAtom v)); exact E.
  - destruct (nth_error users u); [|exact E]. destruct (nth_error users u2); [|exact E].
    destruct (set_path st n path k (VRef n0)); exact E.
  - destruct (nth_error users 0); [|exact E]. destruct (cfg_new fuel st n) as [[st' root]|e]; [apply Ap | exact E].
  - destruct (nth_error users 0); [|exact E]. destruct (nth_error users u); [|exact E].
    destruct (cfg_from_dict fuel st n n0) as [[st' root]|e]; [apply Ap | exact E].
  - destruct (nth_error insts i); [|exact E]. destruct (cfg_apply st n m); exact E.
Qed.

Theorem config_snapshot : forall fuel ops1 ops2 w1,
  let w := wrun fuel w0 ops1 in
  wstep fuel w WNew = (w1, Ok tt) ->
  let j := length (winsts w) in
  (forall o, In o ops2 -> ~ targets_inst o j) ->
  exists base root,
    nth_error (wusers w) 0 = Some base
    /\ nth_error (winsts (wrun fuel w1 ops2)) j = Some root
    /\ forall f, tree_of f (wst (wrun fuel w1 ops2)) (VRef root) = tree_of f (wst w) (VRef base).
Proof.
  intros fuel ops1 ops2 w1 w E j NT.
  destruct (new_config_is_base fuel ops1 w1 E) as (base & root & Eb & Ei & _ & T). fold w in Eb, Ei, T.
  exists base, root. split; [exact Eb|].
  assert (R0 : nth_error (winsts w1) j = Some root).
  { rewrite Ei. unfold j. rewrite nth_error_app2, Nat.sub_diag by lia. reflexivity. }
  assert (W1 : w1 = fst (wstep fuel w WNew)) by (rewrite E; reflexivity).
  revert NT. induction ops2 as [|o t IH] using rev_ind; intros NT.
  - cbn. split; [exact R0 | exact T].
  - destruct (IH ltac:(intros o' I; apply NT; apply in_or_app; left; exact I)) as [R T'].
    assert (Run : wrun fuel w1 (t ++ [o]) = fst (wstep fuel (wrun fuel w1 t) o)).
    { unfold wrun. rewrite fold_left_app. reflexivity. }
    assert (Pre : wrun fuel w1 t = wrun fuel w0 (ops1 ++ WNew :: t)).
    { unfold wrun at 2. rewrite fold_left_app. cbn [fold_left]. fold (wrun fuel w0 ops1). fold w. rewrite <- W1. reflexivity. }
    rewrite Run. split; [apply wstep_insts_keep; exact R|].
    intros f. rewrite <- T'. rewrite Pre.
    apply (proj1 (cfg_isolation fuel (ops1 ++ WNew :: t) o) j root).
    + rewrite <- Pre. exact R.
    + apply NT. apply in_or_app. right. left. reflexivity.
Qed.

(* ------------------------------------------------------------------ *)
(* Config.from_dict: the content is the base content updated (dict.update, top
   level) by the content of the user dictionary *)
Definition tree_ent (f : nat) (st : cstore) (kv : Z * cval) : res (Z * ctree) :=
  match tree_of f st (snd kv) with Ok t => Ok (fst kv, t) | Err e => Err e end.

Lemma mapM_od_set : forall f st A A' k v t,
  mapM (tree_ent f st) A = Ok A' -> tree_of f st v = Ok t ->
  mapM (tree_ent f st) (od_set A k v) = Ok (od_set A' k t).
Proof.
  intros f st. induction A as [|[k0 v0] A0 IH]; intros A' k v t E T.
  - cbn in E. inversion E; subst. cbn. unfold tree_ent at 1. cbn [snd fst]. rewrite T. reflexivity.
  - cbn [mapM bind] in E. destruct (tree_ent f st (k0, v0)) as [[k1 t0]|e] eqn:E0; [|discriminate].
    destruct (mapM (tree_ent f st) A0) as [A0'|e] eqn:E1; [|discriminate]. inversion E; subst A'.
    assert (k1 = k0). { unfold tree_ent in E0. cbn in E0. destruct (tree_of f st v0); inversion E0; reflexivity. }
    subst k1. cbn [od_set]. destruct (k0 =? k) eqn:Ek.
    + cbn [mapM bind]. unfold tree_ent at 1. cbn [snd fst]. rewrite T, E1. reflexivity.
    + cbn [mapM bind]. rewrite E0. rewrite (IH _ _ _ _ eq_refl T). reflexivity.
Qed.

Lemma mapM_od_update : forall f st B A A' B',
  mapM (tree_ent f st) A = Ok A' -> mapM (tree_ent f st) B = Ok B' ->
  mapM (tree_ent f st) (od_update A B) = Ok (od_update A' B').
Proof.
  intros f st. induction B as [|[k v] B0 IH]; intros A A' B' EA EB.
  - cbn in EB. inversion EB; subst. exact EA.
  - cbn [mapM bind] in EB. destruct (tree_ent f st (k, v)) as [[k1 t]|e] eqn:E0; [|discriminate].
    destruct (mapM (tree_ent f st) B0) as [B0'|e] eqn:E1; [|discriminate]. inversion EB; subst B'.
    unfold tree_ent in E0. cbn [snd fst] in E0. destruct (tree_of f st v) as [t'|] eqn:Tv; inversion E0; subst k1 t'.
    rewrite !od_update_cons. apply IH; [|reflexivity]. apply mapM_od_set; assumption.
Qed.

Lemma tree_of_S : forall f st l nd,
  nth_error st l = Some nd ->
  tree_of (S f) st (VRef l) = match mapM (tree_ent f st) nd with Ok es => Ok (TNode es) | Err e => Err e end.
Proof. intros f st l nd E. cbn [tree_of]. rewrite E. reflexivity. Qed.

Lemma tree_ent_frame : forall f st st' col c nd,
  sinv st col ->
  (forall l, (l < length st)%nat -> col l = c -> nth_error st' l = nth_error st l) ->
  refs_ok (fun r => (r < length st)%nat /\ col r = c) nd ->
  mapM (tree_ent f st') nd = mapM (tree_ent f st) nd.
Proof.
  intros f st st' col c nd S F R. apply mapM_ext_in. intros [k v] Hin. unfold tree_ent. cbn [fst snd].
  destruct v as [a|r]; [destruct f; reflexivity|].
  destruct (R _ _ Hin) as [Hr Cr]. rewrite (tree_frame st st' col c S F f r Hr Cr). reflexivity.
Qed.

Lemma cfg_from_dict_tree : forall fuel st b u st' root,
  sinv st (fun _ => 0%nat) -> knodup st -> (b < length st)%nat -> (u < length st)%nat ->
  cfg_from_dict fuel st b u = Ok (st', root) ->
  forall f eb eu,
    tree_of (S f) st (VRef b) = Ok (TNode eb) -> tree_of (S f) st (VRef u) = Ok (TNode eu) ->
    tree_of (S f) st' (VRef root) = Ok (TNode (od_update eb eu)).
Proof.
  intros fuel st b u st' root S K Hb Hu E f eb eu Tb Tu.
  unfold cfg_from_dict in E. destruct (cfg_new fuel st b) as [[st1 r1]|e] eqn:En; [|discriminate].
  pose proof (cfg_new_tree fuel st b st1 r1 S K Hb En (Datatypes.S f)) as T1. rewrite Tb in T1.
  destruct (cfg_new_ok fuel st (fun _ => 0%nat) 0%nat b st1 r1 S (fun _ _ => eq_refl) En) as (S1 & [G1 G2] & R1).
  assert (K1 : knodup st1) by (eapply cfg_new_kn; eauto).
  destruct (dcopy fuel st1 [] u) as [[[st2 m2] u']|e] eqn:Ed; [|discriminate].
  destruct (nth_error st2 u') as [und|] eqn:Eu; [|discriminate].
  destruct (nth_error st2 r1) as [rnd|] eqn:Er; [|discriminate].
  inversion E; subst st' root. clear E.
  (* the user content, read in st2 *)
  assert (W1 : forall k nd, nth_error st1 k = Some nd -> refs_ok (fun r => (r < length st1)%nat) nd).
  { intros k nd X kk r I. destruct (S1 _ _ X _ _ I); assumption. }
  assert (Hu1 : (u < length st1)%nat) by lia.
  pose proof (dcopy_content st1 fuel u st2 m2 u' W1 K1 Hu1 Ed (Datatypes.S f)) as T2.
  assert (Tu1 : tree_of (Datatypes.S f) st1 (VRef u) = Ok (TNode eu)).
  { rewrite (tree_frame st st1 (fun _ => 0%nat) 0%nat S); auto. }
  rewrite Tu1 in T2.
  (* colouring: 0 below length st1, 1 above *)
  set (col := recol (fun _ => 0%nat) (length st1) 1%nat).
  assert (S1c : sinv st1 col) by (eapply sinv_ext; [|exact S1]; intros; apply recol_old; assumption).
  destruct (dcopy_sinv fuel st1 col 1%nat u st2 m2 u' S1c ltac:(intros; apply recol_new; assumption) Ed)
    as (S2 & [H1 H2] & R2).
  assert (Hr1 : (r1 < length st1)%nat) by lia.
  assert (Er1 : nth_error st1 r1 = Some rnd) by (rewrite <- (H2 _ Hr1); exact Er).
  set (newnd := od_update rnd und).
  assert (F0 : forall l, (l < length st2)%nat -> l <> r1 -> nth_error (set_nth st2 r1 newnd) l = nth_error st2 l).
  { intros l Hl NE. rewrite nth_error_set_nth. destruct (Nat.eqb_spec l r1); [contradiction | reflexivity]. }
  (* children of the root node as read in st1 are the same in the final store *)
  rewrite (tree_of_S f st1 r1 rnd Er1) in T1.
  destruct (mapM (tree_ent f st1) rnd) as [eb'|] eqn:Mb; inversion T1; subst eb'.
  rewrite (tree_of_S f st2 u' und Eu) in T2.
  destruct (mapM (tree_ent f st2) und) as [eu'|] eqn:Mu; inversion T2; subst eu'.
  (* no node other than the root refers to the root: children of rnd are below r1 *)
  assert (Rr : refs_ok (fun r => (r < r1)%nat) rnd).
  { unfold cfg_new in En. destruct (dcopy fuel st [] b) as [[[sta ma] c]|] eqn:Eda; [|discriminate].
    destruct (nth_error sta c) as [ndc|] eqn:Ec; [|discriminate]. inversion En; subst st1 r1.
    destruct (dcopy_sinv fuel st (fun _ => 0%nat) 0%nat b sta ma c S (fun _ _ => eq_refl) Eda) as (Sa & _ & _).
    rewrite nth_error_app2, Nat.sub_diag in Er1 by lia. cbn in Er1. inversion Er1; subst rnd.
    intros k r I. apply od_of_in in I. destruct (Sa _ _ Ec _ _ I); assumption. }
  assert (Mb' : mapM (tree_ent f (set_nth st2 r1 newnd)) rnd = Ok eb).
  { rewrite <- Mb. unfold cfg_new in En. destruct (dcopy fuel st [] b) as [[[sta ma] c]|] eqn:Eda; [|discriminate].
    destruct (nth_error sta c) as [ndc|] eqn:Ec; [|discriminate]. inversion En; subst st1 r1.
    destruct (dcopy_sinv fuel st (fun _ => 0%nat) 0%nat b sta ma c S (fun _ _ => eq_refl) Eda) as (Sa & _ & _).
    assert (Ra : refs_ok (fun r => (r < length sta)%nat /\ (fun _ : nat => 0%nat) r = 0%nat) rnd)
      by (intros k r I; split; [eapply Rr; eauto | reflexivity]).
    rewrite (tree_ent_frame f sta (set_nth st2 (length sta) newnd) (fun _ => 0%nat) 0%nat rnd Sa); auto.
    - symmetry. apply (tree_ent_frame f sta (sta ++ [od_of ndc]) (fun _ => 0%nat) 0%nat rnd Sa); auto.
      intros l Hl _. apply nth_error_app1; exact Hl.
    - intros l Hl _. rewrite F0; [|rewrite app_length in H1; cbn in H1; lia | lia].
      rewrite H2 by (rewrite app_length; cbn; lia). apply nth_error_app1; exact Hl. }
  assert (Mu' : mapM (tree_ent f (set_nth st2 r1 newnd)) und = Ok eu).
  { rewrite <- Mu. apply (tree_ent_frame f st2 (set_nth st2 r1 newnd) col 1%nat und S2).
    - intros l Hl Cl. apply F0; [exact Hl|]. intros X; subst l. unfold col in Cl. rewrite recol_old in Cl by lia. discriminate.
    - intros k r I. destruct (S2 _ _ Eu _ _ I) as [A B]. split; [exact A|]. rewrite B. unfold col. apply recol_new. lia. }
  assert (Enew : nth_error (set_nth st2 r1 newnd) r1 = Some newnd).
  { rewrite nth_error_set_nth, Nat.eqb_refl, Er. reflexivity. }
  rewrite (tree_of_S f _ r1 newnd Enew).
  pose proof (mapM_od_update f _ und rnd eb eu Mb' Mu') as Q. fold newnd in Q. rewrite Q. reflexivity.
Qed.

Theorem from_dict_content : forall fuel ops u w',
  let w := wrun fuel w0 ops in
  wstep fuel w (WFromDict u) = (w', Ok tt) ->
  exists base ur root,
    nth_error (wusers w) 0 = Some base /\ nth_error (wusers w) u = Some ur
    /\ winsts w' = winsts w ++ [root] /\ wusers w' = wusers w
    /\ forall f eb eu,
         tree_of (S f) (wst w) (VRef base) = Ok (TNode eb) ->
         tree_of (S f) (wst w) (VRef ur) = Ok (TNode eu) ->
         tree_of (S f) (wst w') (VRef root) = Ok (TNode (od_update eb eu)).
Proof.
  intros fuel ops u w' w E.
  destruct (wrun_inv fuel ops w0 _ winv_w0) as (col & Sv & U & I). fold w in Sv, U, I.
  assert (K : knodup (wst w)) by (apply wrun_kn; intros l nd X; destruct l; discriminate).
  unfold wstep in E. destruct (nth_error (wusers w) 0) as [base|] eqn:Eb; [|inversion E].
  destruct (nth_error (wusers w) u) as [ur|] eqn:Eu; [|inversion E].
  destruct (cfg_from_dict fuel (wst w) base ur) as [[st' root]|e] eqn:En; [|inversion E].
  inversion E; subst w'. clear E. exists base, ur, root. cbn [winsts wusers wst].
  repeat (split; [reflexivity|]).
  destruct (U _ _ Eb) as [Hb _]. destruct (U _ _ Eu) as [Hu _].
  apply (cfg_from_dict_tree fuel (wst w) base ur st' root); auto.
  intros l nd X k r Hin. destruct (Sv _ _ X _ _ Hin). split; [assumption | reflexivity].
Qed.
