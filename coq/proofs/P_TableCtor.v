(* C16 — the constructor (from a dict of arrays, from another DataFieldRecordArray =
   copy) and get_selection: the new object is a well-formed table whose locations are
   all fresh, and its columns are the source columns (copy) / the gathered rows. *)
From Coq Require Import ZArith List Bool Lia Arith.
From Sky Require Import Result PyList G_table M_Table P_TableBase P_TableOps P_TableOps2 P_TableOps3.
Import ListNotations.
Open Scope Z_scope.

Lemma cloop_ind : forall (f : (name * loc) -> cstate -> cstate * outcome)
    (J : list (name * loc) -> cstate -> Prop) (F : cstate -> outcome -> Prop) l st,
  J l st ->
  (forall a r st0, J (a :: r) st0 ->
     match f a st0 with (st', Done) => J r st' | (st', x) => F st' x end) ->
  match cloop f l st with (st', Done) => J [] st' | (st', x) => F st' x end.
Proof.
  induction l as [|a r IH]; intros st HJ Hstep; cbn [cloop]; [assumption|].
  specialize (Hstep a r st HJ) as Hs.
  destruct (f a st) as [st' x]; destruct x; try assumption.
  apply IH; assumption.
Qed.

Lemma NoDup_dset_app : forall fs fname (l' : loc) (r : list loc),
  NoDup (vals fs ++ r) -> ~ In l' (vals fs) -> ~ In l' r -> NoDup (vals (dset fs fname l') ++ r).
Proof.
  intros fs fname l' r ND H1 H2. apply NoDup_app_intro.
  - apply NoDup_vals_dset; [eapply NoDup_app_l; eassumption | assumption].
  - eapply NoDup_app_r; eassumption.
  - intros x Hx Q; apply vals_dset in Hx; destruct Hx as [->|Hx]; [contradiction | eapply NoDup_app_disj; eassumption].
Qed.

Lemma NoDup_app_remove_mid : forall A (a : list A) x b, NoDup (a ++ x :: b) -> NoDup (a ++ b) /\ ~ In x a /\ ~ In x b.
Proof.
  intros A a x b H. split; [eapply NoDup_remove_1; eassumption|].
  apply NoDup_remove_2 in H. split; intros Q; apply H; apply in_or_app; [left | right]; assumption.
Qed.

Lemma broadcast_same : forall vals k, length vals = k -> broadcast vals k = Some vals.
Proof. intros; unfold broadcast; subst; rewrite Nat.eqb_refl; reflexivity. Qed.

Lemma broadcast_length : forall vals k vs, broadcast vals k = Some vs -> length vs = k.
Proof.
  intros vals k vs H; unfold broadcast in H. destruct (Nat.eqb (length vals) k) eqn:Q.
  - apply Nat.eqb_eq in Q; inversion H; subst; reflexivity.
  - destruct vals as [|v [|? ?]]; try discriminate. inversion H; apply repeat_length.
Qed.

(* what the new column (k, l') has to do with the source column of the same name *)
Definition col_from (s : store) (src : list (name * loc)) (length : Z) (conv : list (dtype * dtype))
    (exc : list name) (s1 : store) (k : name) (l' : loc) : Prop :=
  exists l b b', In (k, l) src /\ rd s l = Some b /\ rd s1 l' = Some b'
    /\ (Z.to_nat length = List.length (bdata b) -> bdata b' = bdata b)
    /\ bdt b' = match (if mem k exc then None else assoc (bdt b) conv) with Some dt' => dt' | None => bdt b end.

Section Ctor.
Variables (s : store) (src : list (name * loc)) (length : Z) (keep : option (list name))
          (conv : list (dtype * dtype)) (exc : list name) (copy : bool) (base : nat).
Hypothesis Hsrc : forall n l, In (n, l) src -> exists b, rd s l = Some b.
Hypothesis Hnd : NoDup (vals src).
Hypothesis Hndk : NoDup (keys src).
Definition keepb (k : name) : bool := match keep with Some kp => mem k kp | None => true end.
Hypothesis Hlen : 0 <= length.
Hypothesis Hbase : (base <= List.length s)%nat.
Hypothesis Hshare : copy = false -> forall l, In l (vals src) -> (base <= l)%nat.
(* a conversion forces a copy; when nothing is copied the source arrays become the columns *)

Definition CJ (todo : list (name * loc)) (st : cstate) : Prop :=
  let '(s1, fs, len) := st in
  exists ext, s1 = s ++ ext /\ NoDup (keys fs) /\ NoDup (vals fs ++ vals todo)
    /\ (forall l, In l (vals fs) -> (l < List.length s1)%nat /\ (base <= l)%nat)
    /\ (forall n l, In (n, l) todo -> In (n, l) src)
    /\ (len = None -> fs = [])
    /\ (forall n0, len = Some n0 -> 0 <= n0 /\ forall k l, In (k, l) fs -> exists b, rd s1 l = Some b /\ blen b = n0)
    /\ (forall k l', In (k, l') fs -> col_from s src length conv exc s1 k l')
    /\ (forall k, In k (keys fs) -> In k (keys src) /\ match keep with Some kp => mem k kp = true | None => True end)
    /\ (exists done, src = done ++ todo /\ keys fs = filter keepb (keys done)).

Definition CF (st : cstate) (x : outcome) : Prop :=
  let '(s1, fs, len) := st in exists ext, s1 = s ++ ext.

Lemma rd_src_ext : forall ext n l, In (n, l) src -> exists b, rd s l = Some b /\ rd (s ++ ext) l = Some b.
Proof.
  intros ext n l H; destruct (Hsrc n l H) as [b Hb]; exists b; split; [assumption|].
  rewrite rd_prefix; [assumption | eapply rd_lt; eassumption].
Qed.

Lemma ctor_step : forall a r st0, CJ (a :: r) st0 ->
  match ctor_one length keep conv exc copy a st0 with (st', Done) => CJ r st' | (st', x) => CF st' x end.
Proof.
  intros [fname l] r [[s1 fs] len] (ext & A1 & A2 & A3 & A4 & A5 & A6 & A7 & A8 & A9 & (done & D1 & D2)); subst s1.
  assert (Dn : src = (done ++ [(fname, l)]) ++ r) by (rewrite <- app_assoc; exact D1).
  assert (Kd : keys (done ++ [(fname, l)]) = keys done ++ [fname]) by (unfold keys; rewrite map_app; reflexivity).
  cbn [vals map snd] in A3. fold (vals r) in A3.
  destruct (NoDup_app_remove_mid _ _ _ _ A3) as (N1 & N2 & N3).
  assert (A5' : forall n l0, In (n, l0) r -> In (n, l0) src) by (intros; apply A5; right; assumption).
  assert (Hin : In (fname, l) src) by (apply A5; left; reflexivity).
  unfold ctor_one.
  destruct (match keep with Some k => negb (mem fname k) | None => false end) eqn:KP.
  { exists ext; splits; auto. exists (done ++ [(fname, l)]); split; [exact Dn|].
    rewrite Kd, filter_app; cbn [filter]. unfold keepb at 2. destruct keep as [kp|]; [|discriminate].
    apply negb_true_iff in KP; rewrite KP, app_nil_r; assumption. }
  assert (Kb : keepb fname = true).
  { unfold keepb; destruct keep as [kp|]; [apply negb_false_iff in KP; assumption | reflexivity]. }
  assert (Hfresh_name : ~ In fname (keys fs)).
  { rewrite D2. intros Q; apply filter_In in Q; destruct Q as [Q _].
    rewrite D1 in Hndk. unfold keys in Hndk; rewrite map_app in Hndk; cbn in Hndk.
    apply NoDup_remove_2 in Hndk. apply Hndk; apply in_or_app; left; exact Q. }
  destruct (rd_src_ext ext fname l Hin) as [b [Hb0 Hb]]. rewrite Hb.
  assert (Hl_lt : (l < List.length (s ++ ext))%nat) by (eapply rd_lt; eassumption).
  remember (if mem fname exc then None else assoc (bdt b) conv) as cv eqn:CVdef.
  assert (Hkeep : match keep with Some kp => mem fname kp = true | None => True end).
  { destruct keep; [apply negb_false_iff in KP; assumption | exact I]. }
  (* the three ways a column comes into being *)
  assert (Fin : forall (s2 : store) (l' : loc) (flen : Z) b' e2,
     s2 = (s ++ ext) ++ e2 -> rd s2 l' = Some b' -> blen b' = flen ->
     ~ In l' (vals fs) -> ~ In l' (vals r) -> (base <= l')%nat ->
     (Z.to_nat length = List.length (bdata b) -> bdata b' = bdata b) ->
     bdt b' = match cv with Some dt' => dt' | None => bdt b end ->
     match (match len with
            | None => ((s2, dset fs fname l', Some (ctor_first_len flen)), Done)
            | Some n => if ctor_len_bad n flen then ((s2, fs, len), Raised ValueError)
                        else ((s2, dset fs fname l', len), Done)
            end) with (st', Done) => CJ r st' | (st', x) => CF st' x end).
  { intros s2 l' flen b' e2 E2 Hr Hfl Hn1 Hn2 Hb2 Hdata Hdt.
    assert (Hold : forall l0 b0, rd (s ++ ext) l0 = Some b0 -> rd s2 l0 = Some b0).
    { intros l0 b0 Q; subst s2; rewrite rd_prefix; [assumption | eapply rd_lt; eassumption]. }
    assert (Hlt2 : forall l0, (l0 < List.length (s ++ ext))%nat -> (l0 < List.length s2)%nat).
    { intros; subst s2; rewrite app_length; lia. }
    assert (Common : forall len', (len' = None -> dset fs fname l' = []) ->
       (forall n0, len' = Some n0 -> 0 <= n0 /\ flen = n0 /\ forall k l0, In (k, l0) fs -> exists b0, rd (s ++ ext) l0 = Some b0 /\ blen b0 = n0) ->
       CJ r (s2, dset fs fname l', len')).
    { intros len' C1 C2. exists (ext ++ e2); splits.
      - subst s2; rewrite app_assoc; reflexivity.
      - apply NoDup_keys_dset; assumption.
      - apply NoDup_dset_app; assumption.
      - intros l0 Hl0; apply vals_dset in Hl0; destruct Hl0 as [->|Hl0].
        + split; [eapply rd_lt; eassumption | assumption].
        + destruct (A4 l0 Hl0); split; [apply Hlt2; assumption | assumption].
      - assumption.
      - assumption.
      - intros n0 Hn0; destruct (C2 n0 Hn0) as (P1 & P2 & P3); split; [assumption|].
        intros k l0 Hi; apply In_dset in Hi; [|assumption]. destruct Hi as [[-> ->]|[_ Hi]].
        + exists b'; split; [assumption | lia].
        + destruct (P3 k l0 Hi) as [b0 [Q1 Q2]]; exists b0; split; [apply Hold; assumption | assumption].
      - intros k l0 Hi; apply In_dset in Hi; [|assumption]. destruct Hi as [[-> ->]|[_ Hi]].
        + exists l, b, b'; splits; auto. rewrite <- CVdef; assumption.
        + destruct (A8 k l0 Hi) as (l1 & b1 & b1' & Q1 & Q2 & Q3 & Q4 & Q5).
          exists l1, b1, b1'; splits; auto.
      - intros k Hk; apply keys_dset_incl in Hk; destruct Hk as [->|Hk]; [|apply A9; assumption].
        split; [apply (in_map fst) in Hin; exact Hin | assumption].
      - exists (done ++ [(fname, l)]); split; [exact Dn|].
        rewrite dset_notin by assumption. rewrite Kd, filter_app; cbn [filter]. rewrite Kb.
        unfold keys at 1; rewrite map_app; cbn. fold (keys fs). rewrite D2; reflexivity. }
    destruct len as [n|].
    - destruct (ctor_len_bad n flen) eqn:LB; [exists (ext ++ e2); subst s2; rewrite app_assoc; reflexivity|].
      apply K_ctor_len_bad in LB. apply Common; [discriminate|].
      intros n0 Hn0; inversion Hn0; subst n0. destruct (A7 n eq_refl) as [P1 P2]. splits; auto.
    - rewrite K_ctor_first_len. apply Common; [discriminate|].
      intros n0 Hn0; inversion Hn0; subst n0. splits; auto.
      + subst flen; unfold blen, zlen; lia.
      + rewrite (A6 eq_refl); intros k l0 []. }
  assert (Hbl : (base <= l)%nat -> True) by auto.
  (* case analysis on conversion / copy *)
  assert (CopyCase : forall dt,
     bdt (mkbuf dt (bdata b)) = match cv with Some dt' => dt' | None => bdt b end ->
     match (let r0 : res (store * loc * Z) :=
              match broadcast (bdata b) (Z.to_nat length) with
              | None => Err ValueError
              | Some vs => let '(s', l') := alloc (s ++ ext) (mkbuf dt vs) in Ok (s', l', zlen vs)
              end in
            match r0 with
            | Err e => (((s ++ ext, fs, len) : cstate), Raised e)
            | Ok (s', l', flen) =>
              match len with
              | None => ((s', dset fs fname l', Some (ctor_first_len flen)), Done)
              | Some n => if ctor_len_bad n flen then ((s', fs, len), Raised ValueError)
                          else ((s', dset fs fname l', len), Done)
              end
            end) with (st', Done) => CJ r st' | (st', x) => CF st' x end).
  { intros dt Hdt. cbv zeta.
    destruct (broadcast (bdata b) (Z.to_nat length)) as [vs|] eqn:BC; [|exists ext; reflexivity].
    cbn [alloc].
    apply (Fin ((s ++ ext) ++ [mkbuf dt vs]) (List.length (s ++ ext)) (zlen vs) (mkbuf dt vs) [mkbuf dt vs]); auto.
    - apply rd_app_new.
    - intros Q; apply A4 in Q; lia.
    - intros Q. unfold vals in Q; apply in_map_iff in Q; destruct Q as [[k0 l0] [Q1 Q2]]; cbn in Q1; subst l0.
      destruct (rd_src_ext ext k0 _ (A5' _ _ Q2)) as [b0 [_ Q3]]. apply rd_lt in Q3; lia.
    - rewrite app_length; lia.
    - intros Q; cbn. rewrite broadcast_same in BC by (symmetry; assumption). inversion BC; reflexivity. }
  unfold cstate in *.
  destruct cv as [dt'|].
  - apply (CopyCase dt'); reflexivity.
  - destruct copy eqn:CP.
    + apply (CopyCase (bdt b)); reflexivity.
    + apply (Fin (s ++ ext) l (blen b) b []); auto.
      * rewrite app_nil_r; reflexivity.
      * apply Hshare; [reflexivity | apply (in_map snd) in Hin; exact Hin].
Qed.

Lemma ctor_spec :
  (forall l, In l (vals src) -> True) ->
  match ctor s src length keep conv exc copy with
  | (s', Some o', x) =>
      x = Done /\ exists ext, s' = s ++ ext /\ obj_inv s' o' /\ repr s' (Ecanon s' (fields o')) o'
        /\ (forall l, In l (obj_locs o') -> (base <= l)%nat)
        /\ (forall k l', In (k, l') (fields o') -> col_from s src length conv exc s' k l')
        /\ (forall k, In k (keys (fields o')) -> In k (keys src) /\ match keep with Some kp => mem k kp = true | None => True end)
        /\ oidx o' = None /\ keys (fields o') = filter keepb (keys src)
  | (s', None, x) => x <> Done /\ exists ext, s' = s ++ ext
  end.
Proof.
  intros _. unfold ctor.
  pose proof (cloop_ind (ctor_one length keep conv exc copy) CJ CF src (s, [], None)) as L.
  assert (J0 : CJ src (s, [], None)).
  { exists []; rewrite app_nil_r; splits; auto; try (intros; discriminate); try (cbn; intros; contradiction).
    - constructor.
    - exists []; split; reflexivity. }
  specialize (L J0 ctor_step).
  destruct (cloop (ctor_one length keep conv exc copy) src (s, [], None)) as [[[s' fs] len] x]; destruct x.
  - destruct L as (ext & A1 & A2 & A3 & A4 & A5 & A6 & A7 & A8 & A9 & (done & D1 & D2)).
    rewrite app_nil_r in D1; subst done.
    cbn [vals map] in A3; rewrite app_nil_r in A3.
    split; [reflexivity|]. exists ext.
    set (n := match len with Some n => n | None => ctor_empty_len end).
    assert (R : repr s' (Ecanon s' fs) (mkobj fs (keys fs) n None)).
    { constructor; cbn [fields fnl olen oidx]; auto.
      - intros k l Hi; unfold Ecanon; rewrite (In_assoc _ _ _ A2 Hi).
        destruct (A8 k l Hi) as (l1 & b1 & b1' & Q1 & Q2 & Q3 & _). rewrite Q3; reflexivity.
      - unfold obj_locs; cbn; rewrite app_nil_r; assumption.
      - exact I. }
    splits; auto.
    + exists (Ecanon s' fs); split; [assumption|]. cbn [fields olen]. subst n. destruct len as [n0|].
      * destruct (A7 n0 eq_refl) as [P1 P2]; split; [assumption|].
        intros k Hk. cbn [fields] in Hk. destruct (In_keys_assoc _ _ Hk) as [l Hl]. unfold Ecanon; rewrite Hl.
        destruct (P2 k l (assoc_In _ _ _ Hl)) as [b0 [Q1 Q2]]. rewrite Q1; assumption.
      * rewrite (A6 eq_refl); split; [rewrite K_ctor_empty_len; apply Z.le_refl | cbn; intros k []].
    + intros l Hl; unfold obj_locs in Hl; cbn in Hl; rewrite app_nil_r in Hl; apply A4; assumption.
  - destruct L as [ext ->]; split; [discriminate | exists ext; reflexivity].
  - destruct L as [ext ->]; split; [discriminate | exists ext; reflexivity].
Qed.
End Ctor.
