(* C18, part 3 (deepening): source batches, the relocation loop, the generator
   object as a state machine (change_shg_mgr, poisson switch), the dict merge
   of MultiDatasetSignalGenerator, and the end-to-end composition. *)
From Coq Require Import ZArith List Bool Lia.
From Sky Require Import Result PyList G_inject M_Inject S_Inject P_Inject P_InjectMC.
Import ListNotations.
Open Scope Z_scope.

(* ------------------------------------------------ characterising lemmas (Z) *)
Lemma K_batch_n n bs : batch_n n bs = - ((- n) / bs).
Proof. reflexivity. Qed.
Lemma K_batch_start bi bs : batch_start bi bs = bi * bs.
Proof. reflexivity. Qed.
Lemma K_batch_end bi bs n : Z.min (batch_end_a bi bs) (batch_end_b n) = Z.min ((bi + 1) * bs) n.
Proof. reflexivity. Qed.
Lemma K_batch_bs e s : batch_bs e s = e - s.
Proof. reflexivity. Qed.
Lemma K_batch_src_idx bi bs j : batch_src_idx bi bs j = bi * bs + j.
Proof. reflexivity. Qed.
Lemma K_post_source k v : post_source k v = v /\ post_source_idx0 k = k.
Proof. split; reflexivity. Qed.
Lemma K_md_poisson_guard b : md_poisson_guard b = b /\ mc_poisson_guard b = b.
Proof. split; reflexivity. Qed.
Lemma K_md_n_acc n m : md_n_acc n m = n + m.
Proof. reflexivity. Qed.
Lemma K_md_new_key k keys : md_new_key k keys = true <-> ~ In k keys.
Proof.
  unfold md_new_key. rewrite negb_true_iff. split.
  - intros H Hin. assert (E : existsb (Z.eqb k) keys = true).
    { apply existsb_exists. exists k. split; [exact Hin|apply Z.eqb_refl]. }
    congruence.
  - intros H. destruct (existsb (Z.eqb k) keys) eqn:E; [|reflexivity].
    apply existsb_exists in E. destruct E as [x [Hx Ex]]. apply Z.eqb_eq in Ex. subst. contradiction.
Qed.

(* ------------------------------------------------------------- source batches *)
Lemma enum_from_app {A} : forall (a b : list A) s,
  enum_from s (a ++ b) = enum_from s a ++ enum_from (s + zlen a) b.
Proof.
  induction a as [|x a IH]; intros b s; cbn [app enum_from].
  - unfold zlen. cbn [length]. rewrite Z.add_0_r. reflexivity.
  - rewrite IH. rewrite zlen_cons. f_equal. f_equal. f_equal. lia.
Qed.

Lemma flat_map_shift {A B} (F : Z * A -> list B) (s : Z) : forall (l : list A) t,
  flat_map (fun jx : Z * A => F (s + fst jx, snd jx)) (enum_from t l) = flat_map F (enum_from (s + t) l).
Proof.
  induction l as [|x l IH]; intros t; cbn [enum_from flat_map fst snd]; [reflexivity|].
  rewrite IH. f_equal. f_equal. f_equal. lia.
Qed.

Lemma skipn_all_Z {A} (l : list A) k : zlen l <= Z.of_nat k -> skipn k l = [].
Proof. unfold zlen. intros H. apply skipn_all2. lia. Qed.

Lemma zlen_skipn {A} (l : list A) k : zlen (skipn k l) = Z.max 0 (zlen l - Z.of_nat k).
Proof. unfold zlen. rewrite skipn_length. lia. Qed.

Lemma zlen_firstn {A} (l : list A) k : zlen (firstn k l) = Z.min (Z.of_nat k) (zlen l).
Proof. unfold zlen. rewrite firstn_length. lia. Qed.

Lemma skipn_skipn_add {A} : forall (x y : nat) (l : list A), skipn x (skipn y l) = skipn (x + y) l.
Proof.
  intros x y. revert x. induction y as [|y IH]; intros x l.
  - rewrite Nat.add_0_r. reflexivity.
  - destruct l as [|a l]; [rewrite !skipn_nil; reflexivity|].
    rewrite Nat.add_succ_r. cbn [skipn]. apply IH.
Qed.

Lemma batched_from_eq {A B} (F : Z * A -> list B) (bs : Z) (l : list A) :
  0 < bs -> forall fuel bi, 0 <= bi -> zlen l - bi * bs <= Z.of_nat fuel * bs ->
  batched_from F fuel bi bs l (zlen l)
  = flat_map F (enum_from (bi * bs) (skipn (Z.to_nat (bi * bs)) l)).
Proof.
  intros Hbs. induction fuel as [|fuel IH]; intros bi Hbi Hf.
  - cbn [batched_from]. rewrite skipn_all_Z by nia. reflexivity.
  - cbn [batched_from]. cbv zeta.
    rewrite K_batch_start, K_batch_end, K_batch_bs.
    set (n := zlen l) in *. set (s := bi * bs) in *.
    assert (Hs : 0 <= s) by (unfold s; nia).
    rewrite (IH (bi + 1)) by nia.
    destruct (Z_le_gt_dec n s) as [Hns|Hns].
    + (* nothing left *)
      assert (E : Z.min ((bi + 1) * bs) n = n) by (apply Z.min_r; nia).
      rewrite E. replace (Z.to_nat (n - s)) with O by lia. cbn [firstn enum enum_from flat_map app].
      rewrite (skipn_all_Z l (Z.to_nat ((bi + 1) * bs))) by (fold n; nia).
      rewrite (skipn_all_Z l (Z.to_nat s)) by (fold n; lia). reflexivity.
    + set (e := Z.min ((bi + 1) * bs) n).
      assert (He : s < e <= n) by (unfold e, s; nia).
      set (rest := skipn (Z.to_nat s) l).
      assert (Hrest : zlen rest = n - s) by (unfold rest; rewrite zlen_skipn; fold n; lia).
      rewrite <- (firstn_skipn (Z.to_nat (e - s)) rest) at 2.
      rewrite enum_from_app, flat_map_app. f_equal.
      * pose proof (flat_map_shift F s (firstn (Z.to_nat (e - s)) rest) 0) as Hsh.
        rewrite Z.add_0_r in Hsh. rewrite <- Hsh. unfold enum.
        apply flat_map_ext. intros [j x]. cbn [fst snd]. rewrite K_batch_src_idx. reflexivity.
      * rewrite zlen_firstn, Hrest. replace (Z.min (Z.of_nat (Z.to_nat (e - s))) (n - s)) with (e - s) by lia.
        replace (s + (e - s)) with e by lia.
        unfold rest. rewrite skipn_skipn_add.
        replace (Z.to_nat (e - s) + Z.to_nat s)%nat with (Z.to_nat e) by lia.
        destruct (Z_le_gt_dec ((bi + 1) * bs) n) as [Hfull|Hpart].
        -- assert (Ee : e = (bi + 1) * bs) by (unfold e; apply Z.min_l; lia). rewrite Ee. reflexivity.
        -- assert (Ee : e = n) by (unfold e; apply Z.min_r; lia).
           rewrite (skipn_all_Z l (Z.to_nat ((bi + 1) * bs))) by (fold n; lia).
           rewrite (skipn_all_Z l (Z.to_nat e)) by (fold n; lia). reflexivity.
Qed.

Theorem batched_eq {A B} (F : Z * A -> list B) (bs : Z) (l : list A) :
  0 < bs -> batched F bs l = flat_map F (enum l).
Proof.
  intros Hbs. unfold batched, enum.
  rewrite (batched_from_eq F bs l Hbs _ 0 ltac:(lia)).
  - reflexivity.
  - rewrite K_batch_n. pose proof (zlen_nonneg l) as Hn. set (n := zlen l) in *.
    pose proof (Z.div_mod (- n) bs ltac:(lia)) as Hdm.
    pose proof (Z.mod_pos_bound (- n) bs Hbs) as Hb.
    assert (0 <= - (- n / bs)) by nia. nia.
Qed.

Theorem cands_for_b_eq bs hi h di d : 0 < bs -> cands_for_b bs hi h di d = cands_for hi h di d.
Proof.
  intros Hbs. unfold cands_for_b, cands_for, cands_with.
  destruct (bs =? 0) eqn:E; [apply Z.eqb_eq in E; lia|].
  destruct (d_mc d); [reflexivity|]. cbv zeta.
  destruct ((_ =? _) || (h_hw h =? 0)); [reflexivity|].
  rewrite batched_eq by exact Hbs. reflexivity.
Qed.

(* --------------------------------------------------------- relocation loop *)
Section PP.
  Variables (S E : Type).
  Variable rot : S -> E -> E.

  Lemma nth_error_map2 {A B C} (f : A -> B -> C) : forall (l : list A) (m : list B) i a b,
    nth_error l i = Some a -> nth_error m i = Some b -> nth_error (map2 f l m) i = Some (f a b).
  Proof.
    induction l as [|x l IH]; intros [|y m] [|i] a b Ha Hb; cbn [nth_error map2] in *; try discriminate.
    - inversion Ha; inversion Hb; reflexivity.
    - apply IH; assumption.
  Qed.

  Lemma map2_length {A B C} (f : A -> B -> C) : forall (l : list A) (m : list B),
    length l = length m -> length (map2 f l m) = length m.
  Proof.
    induction l as [|x l IH]; intros [|y m] H; cbn [length map2] in *; try discriminate; [reflexivity|].
    f_equal. apply IH. lia.
  Qed.

  Lemma pp_loop_spec (srcs : list S) (meta : list Z) : forall ks evs r,
    length meta = length evs -> NoDup ks ->
    pp_loop S E rot srcs ks meta evs = Ok r ->
    length r = length evs
    /\ forall i m e, nth_error meta i = Some m -> nth_error evs i = Some e ->
         (In m ks -> exists s, py_get srcs m = Ok s /\ nth_error r i = Some (rot s e))
         /\ (~ In m ks -> nth_error r i = Some e).
  Proof.
    induction ks as [|k ks IH]; intros evs r Hl Hn H; cbn [pp_loop] in H.
    - inversion H; subst. split; [reflexivity|]. intros i m e Hm He. split; [intros []|intros _; exact He].
    - destruct (K_post_source k 0) as [_ Ek]. rewrite Ek in H.
      destruct (py_get srcs k) as [s|] eqn:Es; [|discriminate]. cbn [bind] in H.
      inversion Hn as [|k' ks' Hk Hn']; subst.
      assert (Hl' : length meta = length (pp_apply S E rot k s meta evs)).
      { unfold pp_apply. rewrite map2_length by exact Hl. exact Hl. }
      destruct (IH _ _ Hl' Hn' H) as [Hlen Hpt]. split.
      + rewrite Hlen. unfold pp_apply. apply map2_length. exact Hl.
      + intros i m e Hm He.
        assert (He' : nth_error (pp_apply S E rot k s meta evs) i
                      = Some (if post_src_mask k m then rot s e else e)).
        { unfold pp_apply. apply (nth_error_map2 (fun (m0 : Z) (e0 : E) => if post_src_mask k m0 then rot s e0 else e0) meta evs i m e Hm He). }
        rewrite K_post_src_mask in He'.
        destruct (Hpt i m _ Hm He') as [P1 P2].
        destruct (m =? k) eqn:Emk.
        * apply Z.eqb_eq in Emk. subst m. split.
          -- intros _. exists s. split; [exact Es|]. apply P2. exact Hk.
          -- intros Hnot. exfalso. apply Hnot. left; reflexivity.
        * apply Z.eqb_neq in Emk. split.
          -- intros [Hin|Hin]; [congruence|]. apply P1. exact Hin.
          -- intros Hnot. apply P2. intros Hin. apply Hnot. right; exact Hin.
  Qed.

  (* every event is relocated exactly once, to the source named by its own
     meta entry (= the source of its candidate) *)
  Theorem post_process_spec (srcs : list S) (meta : list Z) (evs r : list E) :
    post_process S E rot srcs meta evs = Ok r ->
    length meta = length evs /\ length r = length evs
    /\ forall i m e, nth_error meta i = Some m -> nth_error evs i = Some e ->
         exists s, py_get srcs m = Ok s /\ nth_error r i = Some (rot s e).
  Proof.
    unfold post_process. destruct (Nat.eqb (length meta) (length evs)) eqn:El; cbn [negb]; [|discriminate].
    apply Nat.eqb_eq in El. intros H.
    destruct (pp_loop_spec srcs meta _ _ _ El (zuniq_NoDup meta) H) as [Hlen Hpt].
    split; [exact El|]. split; [exact Hlen|].
    intros i m e Hm He. apply (Hpt i m e Hm He). apply zuniq_In. apply (nth_error_In _ _ Hm).
  Qed.
End PP.

(* ----------------------------------------------- non-negative inputs, factors *)
Lemma cand_sound_nonneg shgs dss c : inputs_nonneg shgs dss -> cand_sound shgs dss c -> 0 <= c_wn c.
Proof.
  intros [Hs Hd] [h [d [e [x [ow [L [U R]]]]]]].
  destruct R as [Rh [_ [Rd [_ [Re [_ [Rx [_ [_ [_ [_ [_ [_ [_ [_ Rw]]]]]]]]]]]]]]].
  rewrite Forall_forall in Hs, Hd.
  destruct (Hs h (nth_error_In _ _ Rh)) as [Hf Hsw]. destruct (Hd d (nth_error_In _ _ Rd)) as [Hlt Hmw].
  rewrite Forall_forall in Hsw, Hmw.
  pose proof (Hmw e (nth_error_In _ _ Re)) as H1. pose proof (Hf (e_en e)) as H2.
  pose proof (Hsw (x, ow) (nth_error_In _ _ Rx)) as H3. cbn [snd] in H3.
  rewrite Rw. apply Z.mul_nonneg_nonneg; [|exact Hlt].
  apply Z.mul_nonneg_nonneg; [apply Z.mul_nonneg_nonneg; assumption|].
  destruct (src_weights h); [destruct ow; lia|lia].
Qed.

Lemma construct_nonneg shgs dss tbl :
  inputs_nonneg shgs dss -> construct shgs dss = Ok tbl -> Forall (fun c => 0 <= c_wn c) tbl.
Proof.
  intros Hi Hc. apply Forall_forall. intros c Hin.
  apply (cand_sound_nonneg shgs dss c Hi). apply (construct_sound _ _ _ _ Hc Hin).
Qed.

Lemma construct_wd_pos shgs dss tbl : construct shgs dss = Ok tbl -> Forall (fun c => 0 < c_wd c) tbl.
Proof.
  intros Hc. apply Forall_forall. intros c Hin.
  destruct (construct_sound _ _ _ _ Hc Hin) as [h [d [e [x [ow [L [U R]]]]]]].
  destruct R as [_ [_ [_ [_ [_ [_ [_ [_ [_ [_ [_ [Rh [Rw _]]]]]]]]]]]]]. rewrite Rw. exact Rh.
Qed.

Lemma cand_factors shgs dss c : cand_sound shgs dss c -> c_wn c <> 0 -> cand_factors_nonzero shgs dss c.
Proof.
  intros [h [d [e [x [ow [L [U R]]]]]]] Hnz.
  destruct R as [Rh [_ [Rd [_ [Re [_ [Rx [_ [_ [_ [_ [_ [_ [_ [_ Rw]]]]]]]]]]]]]]].
  exists h, d, e, x, ow. rewrite Rw in Hnz.
  repeat split; try assumption.
  - intros E. apply Hnz. rewrite E. ring.
  - intros E. apply Hnz. rewrite E. ring.
  - intros E. apply Hnz. rewrite E. ring.
  - intros Hsw. destruct (src_weights h) as [l|]; [|congruence].
    destruct ow as [w|]; [|exfalso; apply Hnz; ring].
    exists w. split; [reflexivity|]. intros E. apply Hnz. rewrite E. ring.
Qed.

(* ------------------------------------------------ the generator object *)
Section Machine.
  Variable rng : Type.
  Variable choice : rng -> list Z -> nat -> list nat * rng.
  Variable post : Z -> Z -> Z -> Z -> list Z.
  Variable pois : rng -> Z -> Z * rng.
  Hypothesis Hc : choice_contract choice.

  Notation mc_step := (mc_step rng choice post pois).
  Notation mc_run := (mc_run rng choice post pois).

  Lemma mc_init_ok shgs dss st : mc_init shgs dss = Ok st -> mc_ok st /\ g_dss st = dss /\ g_shgs st = shgs.
  Proof.
    unfold mc_init. destruct (construct shgs dss) as [tbl|] eqn:E; [|discriminate]. cbn [bind].
    intros H. inversion H; subst. unfold mc_ok. cbn. repeat split; try reflexivity. exact E.
  Qed.

  Lemma mc_step_ok fuel st g op st' g' o :
    mc_ok st -> mc_step fuel st g op = Ok (st', g', o) -> mc_ok st' /\ g_dss st' = g_dss st.
  Proof.
    intros Hok H. destruct op as [shgs|poisson mean]; cbn [M_Inject.mc_step] in H.
    - destruct (mc_init shgs (g_dss st)) as [s1|] eqn:E; [|discriminate]. cbn [bind] in H. inversion H; subst.
      destruct (mc_init_ok _ _ _ E) as [H1 [H2 _]]. split; assumption.
    - destruct (generate_any _ _ _ _ _ _ _ _ _ _ _) as [r|]; [|discriminate]. cbn [bind] in H.
      inversion H; subst. split; [exact Hok|reflexivity].
  Qed.

  (* the invariant of every successful history: the table is the one built
     from the current sources, and the sampler holds exactly its weights *)
  Theorem mc_run_ok fuel : forall ops st g st' g' outs,
    mc_ok st -> mc_run fuel st g ops = Ok (st', g', outs) -> mc_ok st' /\ g_dss st' = g_dss st.
  Proof.
    induction ops as [|op ops IH]; intros st g st' g' outs Hok H; cbn [M_Inject.mc_run] in H.
    - inversion H; subst. split; [exact Hok|reflexivity].
    - destruct (mc_step fuel st g op) as [[[s1 g1] o1]|] eqn:E1; [|discriminate]. cbn [bind fst snd] in H.
      destruct (mc_run fuel s1 g1 ops) as [[[s2 g2] o2]|] eqn:E2; [|discriminate]. cbn [bind fst snd] in H.
      inversion H; subst. destruct (mc_step_ok _ _ _ _ _ _ _ Hok E1) as [Hok1 Hd1].
      destruct (IH _ _ _ _ _ Hok1 E2) as [Hok2 Hd2]. split; [exact Hok2|congruence].
  Qed.

  (* end to end: a generate call after any history of change_shg_mgr /
     generate calls, with or without the Poisson draw *)
  Theorem mc_end_to_end fuel shgs dss st0 g0 ops st g outs poisson mean st' g' n out :
    (forall g m, 0 <= fst (pois g m)) ->
    mc_init shgs dss = Ok st0 ->
    mc_run fuel st0 g0 ops = Ok (st, g, outs) ->
    mc_step fuel st g (OpGenerate poisson mean) = Ok (st', g', Some (n, out)) ->
    (poisson = false -> 0 <= mean) ->
    inputs_nonneg (g_shgs st) dss -> Exists (fun c => 0 < c_wn c) (g_tbl st) ->
    st' = st /\ g_dss st = dss /\ construct (g_shgs st) dss = Ok (g_tbl st)
    /\ n = (if poisson then fst (pois g mean) else mean)
    /\ zsum (map (fun kv => zlen (snd kv)) out) = n
    /\ NoDup (map fst out)
    /\ forall ds evs ev, In (ds, evs) out -> In ev evs ->
         exists d c, py_get dss ds = Ok d /\ In c (g_tbl st) /\ c_ds c = ds /\ 0 < c_wn c
           /\ cand_sound (g_shgs st) dss c /\ cand_factors_nonzero (g_shgs st) dss c
           /\ ev = post (c_ds c) (c_shg c) (c_src c) (c_ev c)
           /\ in_ranges (d_rng d) ev.
  Proof.
    intros Hpois Hinit Hrun Hstep Hmean Hnn Hex.
    destruct (mc_init_ok _ _ _ Hinit) as [Hok0 [Hd0 _]].
    destruct (mc_run_ok _ _ _ _ _ _ _ Hok0 Hrun) as [[Hcon Hp] Hd]. rewrite Hd0 in Hd.
    rewrite Hd in Hcon.
    cbn [M_Inject.mc_step] in Hstep.
    destruct (generate_any _ _ _ _ _ _ _ _ _ _ _) as [[[n1 o1] g1]|] eqn:Eg; [|discriminate].
    cbn [bind fst snd] in Hstep. inversion Hstep; subst st' g1 n1 o1. clear Hstep.
    unfold generate_any in Eg. destruct (K_md_poisson_guard poisson) as [_ Ek]. rewrite Ek in Eg.
    rewrite Hp, Hd in Eg.
    set (m := if poisson then fst (pois g mean) else mean).
    assert (Hm : 0 <= m) by (unfold m; destruct poisson; [apply Hpois|apply Hmean; reflexivity]).
    assert (Eg' : generate rng choice post fuel (if poisson then snd (pois g mean) else g) (g_tbl st) dss m
                  = Ok (n, out, g')).
    { unfold generate, m. destruct poisson; exact Eg. }
    destruct (generate_count_thm rng choice post Hc _ _ _ _ _ _ _ _ Hm Eg') as [En [Es Hnd]].
    pose proof (construct_nonneg _ _ _ Hnn Hcon) as Hnonneg.
    split; [reflexivity|]. split; [exact Hd|]. split; [exact Hcon|]. split; [exact En|].
    split; [exact Es|]. split; [exact Hnd|].
    intros ds evs ev Hin Hev.
    destruct (generate_valid rng choice post Hc _ _ _ _ _ _ _ _ Hnonneg Hex (construct_wd_pos _ _ _ Hcon) Eg' ds evs ev Hin Hev)
      as [d [c [H1 [H2 [H3 [H4 [H5 H6]]]]]]].
    exists d, c. pose proof (construct_sound _ _ _ _ Hcon H2) as Hs.
    repeat split; try assumption. apply cand_factors; [exact Hs|lia].
  Qed.
End Machine.

Lemma NoDup_snoc (l : list Z) (k : Z) : ~ In k l -> NoDup l -> NoDup (l ++ [k]).
Proof.
  intros Hk Hn. induction Hn as [|a l Ha Hn IH]; cbn [app]; [constructor; [intros []|constructor]|].
  constructor.
  - intros Hin. apply in_app_or in Hin. destruct Hin as [Hin|[Hin|[]]]; [contradiction|].
    subst. apply Hk. left; reflexivity.
  - apply IH. intros H. apply Hk. right; exact H.
Qed.

(* ------------------------------ MultiDatasetSignalGenerator: dict merge, whole call *)
Section MultiP.
  Variable rng : Type.
  Variable choice : rng -> list Z -> nat -> list nat * rng.
  Variable pois : rng -> Z -> Z * rng.
  Variable E : Type.
  Variable subgen : nat -> rng -> Z -> res (Z * list (Z * list E) * rng).
  Hypothesis Hc : choice_contract choice.

  Notation dict_total := (@dict_total E).
  Notation subgen_contract := (subgen_contract subgen).

  Lemma dict_total_app a b : dict_total (a ++ b) = dict_total a + dict_total b.
  Proof. unfold dict_total. rewrite map_app. apply zsum_app. Qed.

  Lemma dict_add_existing (k : Z) (v : list E) : forall d,
    NoDup (map fst d) -> In k (map fst d) ->
    dict_total (map (fun kv => if fst kv =? k then (fst kv, snd kv ++ v) else kv) d) = dict_total d + zlen v
    /\ map fst (map (fun kv : Z * list E => if fst kv =? k then (fst kv, snd kv ++ v) else kv) d) = map fst d.
  Proof.
    unfold dict_total. induction d as [|[k0 v0] d IH]; intros Hn Hin; [contradiction|].
    cbn [map fst snd] in *. inversion Hn as [|k' ks Hk Hn']; subst.
    destruct (k0 =? k) eqn:Ek.
    - apply Z.eqb_eq in Ek. subst k0. cbn [fst snd zsum fold_right]. rewrite zlen_app.
      assert (Hsame : map (fun kv : Z * list E => if fst kv =? k then (fst kv, snd kv ++ v) else kv) d = d).
      { clear IH Hn Hn' Hin. induction d as [|[k1 v1] d IHd]; [reflexivity|]. cbn [map fst snd] in *.
        destruct (k1 =? k) eqn:E1; [apply Z.eqb_eq in E1; subst; exfalso; apply Hk; left; reflexivity|].
        f_equal. apply IHd. intros H; apply Hk; right; exact H. }
      rewrite Hsame. split; [unfold zsum; lia|reflexivity].
    - apply Z.eqb_neq in Ek. destruct Hin as [Hin|Hin]; [congruence|].
      destruct (IH Hn' Hin) as [I1 I2]. cbn [fst snd zsum fold_right]. unfold zsum in I1. rewrite I1, I2.
      split; [lia|reflexivity].
  Qed.

  Lemma dict_add_spec d k v :
    NoDup (map fst d) ->
    dict_total (dict_add E d k v) = dict_total d + zlen v /\ NoDup (map fst (dict_add E d k v)).
  Proof.
    intros Hn. unfold dict_add. destruct (md_new_key k (map fst d)) eqn:Ek.
    - apply K_md_new_key in Ek. split.
      + rewrite dict_total_app. unfold dict_total at 2. cbn [map snd zsum fold_right]. lia.
      + rewrite map_app. cbn [map fst]. apply NoDup_snoc; assumption.
    - assert (Hin : In k (map fst d)).
      { destruct (in_dec Z.eq_dec k (map fst d)) as [H|H]; [exact H|].
        apply K_md_new_key in H. congruence. }
      destruct (dict_add_existing k v d Hn Hin) as [H1 H2]. split; [exact H1|rewrite H2; exact Hn].
  Qed.

  Lemma dict_merge_spec : forall dj d,
    NoDup (map fst d) ->
    dict_total (dict_merge E d dj) = dict_total d + dict_total dj /\ NoDup (map fst (dict_merge E d dj)).
  Proof.
    unfold dict_merge. induction dj as [|[k v] dj IH]; intros d Hn; cbn [fold_left fst snd].
    - unfold dict_total at 3. cbn. split; [lia|exact Hn].
    - destruct (dict_add_spec d k v Hn) as [H1 H2]. destruct (IH _ H2) as [I1 I2].
      split; [|exact I2]. rewrite I1, H1. unfold dict_total at 4. cbn [map snd zsum fold_right].
      unfold dict_total, zsum. lia.
  Qed.

  Lemma md_loop_spec (Hs : subgen_contract) : forall cnts j g n d n' d' g',
    Forall (fun c => 0 <= c) cnts -> NoDup (map fst d) ->
    md_loop rng E subgen j cnts g n d = Ok (n', d', g') ->
    n' = n + zsum cnts /\ dict_total d' = dict_total d + zsum cnts /\ NoDup (map fst d').
  Proof.
    induction cnts as [|c cnts IH]; intros j g n d n' d' g' Hnn Hn H; cbn [md_loop] in H.
    - inversion H; subst. cbn. repeat split; try lia. exact Hn.
    - destruct (subgen j g c) as [[[nj dj] gj]|] eqn:Ej; [|discriminate]. cbn [bind fst snd] in H.
      inversion Hnn as [|c' cs Hc0 Hnn']; subst.
      destruct (Hs _ _ _ _ _ _ Hc0 Ej) as [En Ed]. subst nj.
      destruct (dict_merge_spec dj d Hn) as [M1 M2].
      destruct (IH _ _ _ _ _ _ _ Hnn' M2 H) as [I1 [I2 I3]].
      assert (Ka : md_n_acc n c = n + c) by apply K_md_n_acc. rewrite Ka in I1.
      cbn [zsum fold_right]. unfold zsum in *. repeat split; [lia| |exact I3].
      rewrite I2, M1, Ed. lia.
  Qed.

  (* the whole call: the reported n is the requested (or Poisson-drawn) total
     and equals the number of events in the merged dictionary *)
  Theorem md_generate_spec (Hs : subgen_contract) poisson g mean D ws n d g' :
    (forall g m, 0 <= fst (pois g m)) -> (poisson = false -> 0 <= mean) ->
    0 < D -> Forall (fun x => 0 <= x) ws -> zsum ws = D ->
    md_generate rng choice pois E subgen poisson g mean D ws = Ok (n, d, g') ->
    n = (if poisson then fst (pois g mean) else mean)
    /\ dict_total d = n /\ NoDup (map fst d).
  Proof.
    intros Hpois Hmean HD Hw Hsum H. unfold md_generate in H.
    destruct (K_md_poisson_guard poisson) as [Ek _]. rewrite Ek in H. cbv zeta in H.
    set (mg := if poisson then pois g mean else (mean, g)) in *.
    assert (Hm : 0 <= fst mg) by (unfold mg; destruct poisson; [apply Hpois|apply Hmean; reflexivity]).
    destruct (ds_counts_spec rng choice Hc (snd mg) (fst mg) D ws Hm HD Hw Hsum) as [c [g1 [Ec [Es [Hnn _]]]]].
    rewrite Ec in H. cbn [bind fst snd] in H.
    assert (Hn0 : NoDup (map fst (@nil (Z * list E)))) by constructor.
    destruct (md_loop_spec Hs _ _ _ _ _ _ _ _ Hnn Hn0 H) as [I1 [I2 I3]].
    assert (Em : fst mg = if poisson then fst (pois g mean) else mean) by (unfold mg; destruct poisson; reflexivity).
    unfold dict_total at 2 in I2. cbn in I2. rewrite Es in I1, I2.
    split; [lia|]. split; [lia|exact I3].
  Qed.
End MultiP.

(* the MC generator, used as the per-dataset generator, meets the contract *)
Theorem mc_subgen_contract (rng : Type) (choice : rng -> list Z -> nat -> list nat * rng)
  (post : Z -> Z -> Z -> Z -> list Z) (fuel : nat) (tbls : nat -> list cand) (dsss : nat -> list dsT) :
  choice_contract choice ->
  subgen_contract (fun j g c => generate rng choice post fuel g (tbls j) (dsss j) c).
Proof.
  intros Hc j g c n d g' Hc0 H.
  destruct (generate_count_thm rng choice post Hc _ _ _ _ _ _ _ _ Hc0 H) as [E1 [E2 _]].
  split; [exact E1|]. unfold dict_total. rewrite E2. exact E1.
Qed.

(* why the invariant matters (seeded defect C18-5): with a sampler left over
   from another table the contract-abiding oracle returns a zero-weight candidate *)
Lemma stale_sampler_refuted :
  let tbl := [ {| c_ds := 0; c_ev := 0; c_shg := 0; c_src := 0; c_wn := 0; c_wd := 1 |};
               {| c_ds := 0; c_ev := 1; c_shg := 0; c_src := 1; c_wn := 5; c_wd := 1 |} ] in
  let dss := [ {| d_mc := []; d_lt := 1; d_rng := [] |} ] in
  let stale := [3; 0] in
  (forall d, In d (fst (stream_choice [[0%nat]] stale 1%nat)) -> 0 < nth d stale 0)
  /\ generate_p _ stream_choice (fun ds shg src ev => [src]) 3 [[0%nat]] stale tbl dss 1
     = Ok (1, [(0, [[0]])], []).
Proof. cbv zeta. split; [intros d [<-|[]]; vm_compute; reflexivity|vm_compute; reflexivity]. Qed.

(* ------------------------------------------------ audit: more characterising lemmas *)
(* what is masked is the variable assigned from the relocation call *)
Lemma K_mask_data_flow e v :
  redraw_relocated v = v /\ redraw_mask_arg e = e /\ gen_relocated v = v /\ gen_mask_arg e = e.
Proof. repeat split; reflexivity. Qed.
(* one loop with one change_shg_mgr call on the per-dataset generators *)
Lemma K_md_change : md_change_calls = 1 /\ md_change_loops = 1.
Proof. split; reflexivity. Qed.
Lemma K_an_mean_zero m : an_mean_zero m = (m =? 0).
Proof. reflexivity. Qed.
Lemma K_an_inc a b : an_inc a b = a + b.
Proof. reflexivity. Qed.
Lemma K_an_slot_empty o : an_slot_empty o = match o with None => true | Some _ => false end.
Proof. reflexivity. Qed.

(* ------------------------------------------------ a contract-abiding oracle *)
Lemma pos_idx_In p d : In d (pos_idx p) -> 0 < nth d p 0.
Proof. unfold pos_idx. intros H. apply filter_In in H. destruct H as [_ H]. apply Z.ltb_lt. exact H. Qed.

Lemma pos_idx_nonempty p : Exists (fun x => 0 < x) p -> pos_idx p <> [].
Proof.
  intros H. apply Exists_exists in H. destruct H as [x [Hin Hx]].
  destruct (In_nth p x 0 Hin) as [i [Hi Hn]].
  assert (Hm : In i (pos_idx p)).
  { unfold pos_idx. apply filter_In. split; [apply in_seq; lia|]. rewrite Hn. apply Z.ltb_lt. exact Hx. }
  intros E. rewrite E in Hm. exact Hm.
Qed.

Theorem cyc_choice_contract : choice_contract cyc_choice.
Proof.
  intros g p k. unfold cyc_choice. cbn [fst]. split.
  - rewrite map_length. apply seq_length.
  - intros _ Hex d Hin. apply in_map_iff in Hin. destruct Hin as [i [Hd _]]. subst d.
    apply pos_idx_In. apply nth_In. apply Nat.mod_upper_bound.
    pose proof (pos_idx_nonempty p Hex) as Hne. destruct (pos_idx p); [congruence|cbn [length]; lia].
Qed.

(* ------------------------------------------------ Analysis.generate_signal_events *)
Section AnaP.
  Variable rng : Type.
  Variable E : Type.

  Definition ev_total (evs : list (option (list E))) : Z :=
    zsum (map (fun o => match o with None => 0 | Some l => zlen l end) evs).

  Lemma zsum_map_set_nth {A} (f : A -> Z) : forall (l : list A) i v v',
    nth_error l i = Some v -> zsum (map f (set_nth l i v')) = zsum (map f l) - f v + f v'.
  Proof.
    unfold zsum. induction l as [|a l IH]; intros [|i] v v' H; cbn [nth_error] in H; try discriminate.
    - inversion H; subst. cbn [set_nth map fold_right]. lia.
    - cbn [set_nth map fold_right]. rewrite (IH i v v' H). lia.
  Qed.

  Lemma py_get_set {A} (l : list A) k v v' : 0 <= k -> py_get l k = Ok v ->
    py_set l k v' = Ok (set_nth l (Z.to_nat k) v') /\ nth_error l (Z.to_nat k) = Some v.
  Proof.
    unfold py_get, py_set. cbv zeta. intros Hk.
    destruct (k <? 0) eqn:Ek0; [apply Z.ltb_lt in Ek0; lia|].
    destruct ((k <? 0) || (zlen l <=? k)); [discriminate|].
    destruct (nth_error l (Z.to_nat k)); [|discriminate]. intros H. inversion H; subst. split; reflexivity.
  Qed.

  (* the injection adds exactly the events of the dictionary: counts and event
     lists grow by the same total, nothing else changes in length *)
  Lemma an_inject_spec : forall (d : list (Z * list E)) ns evs ns' evs',
    Forall (fun kv => 0 <= fst kv) d ->
    an_inject E d ns evs = Ok (ns', evs') ->
    zsum ns' = zsum ns + dict_total d /\ ev_total evs' = ev_total evs + dict_total d
    /\ length ns' = length ns /\ length evs' = length evs.
  Proof.
    unfold dict_total, ev_total.
    induction d as [|[k v] d IH]; intros ns evs ns' evs' Hk H; cbn [an_inject] in H.
    - inversion H; subst. cbn. repeat split; lia.
    - inversion Hk as [|kv d' Hk0 Hk']; subst. cbn [fst] in Hk0.
      destruct (py_get ns k) as [n|] eqn:E1; [|discriminate]. cbn [bind] in H.
      destruct (py_get_set ns k n (an_inc n (zlen v)) Hk0 E1) as [S1 N1]. rewrite S1 in H. cbn [bind] in H.
      destruct (py_get evs k) as [e|] eqn:E2; [|discriminate]. cbn [bind] in H.
      match type of H with context [py_set evs k ?x] => set (newv := x) in * end.
      destruct (py_get_set evs k e newv Hk0 E2) as [S2 N2]. rewrite S2 in H. cbn [bind] in H.
      destruct (IH _ _ _ _ Hk' H) as [I1 [I2 [I3 I4]]].
      pose proof (zsum_map_set_nth (fun x : Z => x) ns _ n (an_inc n (zlen v)) N1) as Z1.
      rewrite !map_id in Z1.
      pose proof (zsum_map_set_nth (fun o : option (list E) => match o with None => 0 | Some l => zlen l end)
                                   evs _ e newv N2) as Z2.
      assert (Ka : an_inc n (zlen v) = n + zlen v) by apply K_an_inc.
      assert (Enew : match newv with None => 0 | Some l => zlen l end
                     = match e with None => 0 | Some l => zlen l end + zlen v).
      { unfold newv. destruct e as [old|]; cbn; [rewrite zlen_app; reflexivity|lia]. }
      rewrite I1, I2, I3, I4, !set_nth_length, Z1, Z2, Ka, Enew.
      cbn [map snd zsum fold_right]. unfold zsum. repeat split; lia.
  Qed.

  (* at the site a user calls: with a generator that reports and returns what it
     is asked for, the reported n_sig is the number of events added to the event
     lists and to the per-dataset counters *)
  Theorem an_generate_spec (gen : rng -> Z -> res (Z * list (Z * list E) * rng)) nds g mean ns evs n ns' evs' g' :
    (forall g m n d g1, gen g m = Ok (n, d, g1) -> dict_total d = n /\ Forall (fun kv => 0 <= fst kv) d) ->
    an_generate rng E gen nds g mean ns evs = Ok (n, ns', evs', g') ->
    zsum ns' = zsum ns + n /\ ev_total evs' = ev_total evs + n
    /\ length ns' = length ns /\ length evs' = length evs /\ zlen ns = nds /\ zlen evs = nds.
  Proof.
    intros Hgen H. unfold an_generate in H.
    destruct (negb (zlen ns =? nds) || negb (zlen evs =? nds)) eqn:El; [discriminate|].
    apply orb_false_iff in El. destruct El as [L1 L2].
    apply negb_false_iff in L1. apply negb_false_iff in L2. apply Z.eqb_eq in L1. apply Z.eqb_eq in L2.
    rewrite K_an_mean_zero in H. destruct (mean =? 0).
    - inversion H; subst. repeat split; lia.
    - destruct (gen g mean) as [[[n1 d1] g1]|] eqn:Eg; [|discriminate]. cbn [bind fst snd] in H.
      destruct (an_inject E d1 ns evs) as [[a b]|] eqn:Ei; [|discriminate]. cbn [bind fst snd] in H.
      inversion H; subst. destruct (Hgen _ _ _ _ _ Eg) as [Hd Hk].
      destruct (an_inject_spec _ _ _ _ _ Hk Ei) as [I1 [I2 [I3 I4]]]. rewrite Hd in I1, I2.
      repeat split; assumption.
  Qed.
End AnaP.

(* ------------------------------------------------ change_shg_mgr of the multi generator *)
Theorem md_change_ok : forall sts shgs sts',
  md_change sts shgs = Ok sts' ->
  Forall2 (fun o o' => match o, o' with
                       | None, None => True
                       | Some st, Some st' => mc_ok st' /\ g_shgs st' = shgs /\ g_dss st' = g_dss st
                       | _, _ => False
                       end) sts sts'.
Proof.
  unfold md_change. intros sts shgs sts' H. apply mapM_ok in H.
  induction H as [|o o' sts sts' Ho H IH]; constructor; [|exact IH].
  destruct o as [st|]; [|inversion Ho; exact I].
  destruct (mc_init shgs (g_dss st)) as [s|] eqn:E; [|discriminate]. cbn [bind] in Ho. inversion Ho; subst.
  destruct (mc_init_ok _ _ _ E) as [H1 [H2 H3]]. exact (conj H1 (conj H3 H2)).
Qed.
