(* C19 extension: the Gaussian PSF value of signalpdf.calculate_pd over the reals. *)
From Coq Require Import Reals ZArith List Bool Lra Psatz.
From Sky Require Import Num NumR G_coords M_Coords M_CoordsPdf S_Coords P_Coords_Real P_Coords_K P_Coords.
Open Scope R_scope.

Section Pdf.
  Variable e : R -> R.
  Notation N := (RNum e).

  Lemma K_spdf_sigma_sq s : spdf_sigma_sq N s = s * s.
  Proof. unfold spdf_sigma_sq. num_R. reflexivity. Qed.

  Lemma K_spdf_pd s2 psi : s2 <> 0 -> spdf_pd N s2 psi = / (2 * PI * s2) * exp (- (psi * psi) / (2 * s2)).
  Proof.
    intros H. unfold spdf_pd. num_R. generalize PI_RGT_0; intros HP.
    replace (- (1 / 2) * (psi * psi / s2)) with (- (psi * psi) / (2 * s2)) by (field; exact H).
    f_equal. field. split; lra.
  Qed.

  (* the density depends on source and event only through the angle between them *)
  Lemma signalpdf_pd_R sra sdec ra dec sigma :
    sigma <> 0 ->
    signalpdf_pd N sra sdec ra dec sigma
    = / (2 * PI * (sigma * sigma))
      * exp (- (angle (dirv sra sdec) (dirv ra dec) * angle (dirv sra sdec) (dirv ra dec)) / (2 * (sigma * sigma))).
  Proof.
    intros H. unfold signalpdf_pd. rewrite K_spdf_sigma_sq, signalpdf_psi_R, K_spdf_pd by nra. reflexivity.
  Qed.

  (* strictly positive, at most the peak value, which is attained exactly on the source *)
  Lemma signalpdf_pd_bounds sra sdec ra dec sigma :
    sigma <> 0 ->
    0 < signalpdf_pd N sra sdec ra dec sigma <= / (2 * PI * (sigma * sigma))
    /\ signalpdf_pd N sra sdec sra sdec sigma = / (2 * PI * (sigma * sigma)).
  Proof.
    intros H. generalize PI_RGT_0; intros HP.
    assert (S2 : 0 < sigma * sigma) by nra.
    assert (P : 0 < / (2 * PI * (sigma * sigma))) by (apply Rinv_0_lt_compat; nra).
    split.
    - rewrite signalpdf_pd_R by exact H.
      set (a := angle (dirv sra sdec) (dirv ra dec)).
      assert (E0 : 0 < exp (- (a * a) / (2 * (sigma * sigma)))) by apply exp_pos.
      assert (E1 : exp (- (a * a) / (2 * (sigma * sigma))) <= 1).
      { rewrite <- exp_0. destruct (Req_dec (a * a) 0) as [Z|Z].
        - rewrite Z. right. f_equal. field. nra.
        - left. apply exp_increasing. unfold Rdiv. rewrite <- Ropp_mult_distr_l.
          assert (0 < a * a * / (2 * (sigma * sigma))).
          { apply Rmult_lt_0_compat; [nra | apply Rinv_0_lt_compat; nra]. }
          lra. }
      split; [apply Rmult_lt_0_compat; assumption | nra].
    - rewrite signalpdf_pd_R by exact H. unfold angle. rewrite dirv_unit, acos_1.
      replace (- (0 * 0) / (2 * (sigma * sigma))) with 0 by (field; nra).
      rewrite exp_0. ring.
  Qed.
End Pdf.
