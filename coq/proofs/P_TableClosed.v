(* C16 — closed forms of the plain-table interpreter on well-formed tables: what the
   constructor options, convert_dtypes and rename_fields compute, written without loops. *)
From Coq Require Import ZArith List Bool Lia Arith.
From Sky Require Import Result PyList M_Table S_Table S_TableInterp P_TableBase.
Import ListNotations.
Open Scope Z_scope.

Definition keepc (keep : option (list name)) (c : name * buf) : bool :=
  match keep with Some k => mem (fst c) k | None => true end.

(* the dtype decision is taken ONCE, on the dtype the column has before the call *)
Definition conv1 (conv : list (dtype * dtype)) (exc : list name) (c : name * buf) : name * buf :=
  (fst c, match (if mem (fst c) exc then None else assoc (bdt (snd c)) conv) with
          | Some dt => astype dt (snd c)
          | None => snd c
          end).

Lemma broadcast_eq : forall v k, length v = k -> broadcast v k = Some v.
Proof. intros; unfold broadcast; subst; rewrite Nat.eqb_refl; reflexivity. Qed.

Lemma mkbuf_eta : forall b, mkbuf (bdt b) (bdata b) = b.
Proof. intros [d v]; reflexivity. Qed.

Section CtorClosed.
Variables (length : Z) (keep : option (list name)) (conv : list (dtype * dtype)) (exc : list name) (copy : bool).
Hypothesis Hlen : 0 <= length.

Lemma v_ctor_loop_closed : forall src acc len0,
  (forall c, In c src -> blen (snd c) = length) -> NoDup (keys src) ->
  (forall k, In k (keys src) -> ~ In k (keys acc)) ->
  (forall n, len0 = Some n -> n = length) ->
  v_ctor_loop length keep conv exc copy src (acc, len0) =
    Ok (acc ++ map (conv1 conv exc) (filter (keepc keep) src),
        match len0 with
        | Some n => Some n
        | None => match filter (keepc keep) src with [] => None | _ => Some length end
        end).
Proof.
  induction src as [|[k b] r IH]; intros acc len0 Hb ND Hfresh Hl0; cbn [v_ctor_loop filter map].
  - rewrite app_nil_r. destruct len0; reflexivity.
  - cbn [keys map fst] in ND. inversion ND as [|? ? Hk NDr]; subst.
    assert (Hbk : blen b = length) by (apply (Hb (k, b)); left; reflexivity).
    assert (Hbr : forall c, In c r -> blen (snd c) = length) by (intros; apply Hb; right; assumption).
    assert (Hfr : forall k', In k' (keys r) -> ~ In k' (keys acc)) by (intros k' Hk'; apply Hfresh; right; assumption).
    unfold v_ctor_one.
    replace (match keep with Some k0 => negb (mem k k0) | None => false end) with (negb (keepc keep (k, b)))
      by (unfold keepc; destruct keep; reflexivity).
    destruct (keepc keep (k, b)) eqn:KC; cbn [negb].
    2:{ cbn [bind]. apply IH; auto. }
    (* the column is kept: its new buffer *)
    set (b' := snd (conv1 conv exc (k, b))).
    assert (Hb' : blen b' = length).
    { unfold b', conv1; cbn [fst snd]. destruct (if mem k exc then None else assoc (bdt b) conv); [|assumption].
      unfold blen, astype in *; cbn. assumption. }
    assert (Hbc : Z.to_nat length = List.length (bdata b)) by (unfold blen, zlen in Hbk; lia).
    assert (Hgoal : forall b0, b0 = b' ->
      (do st' <- match len0 with
                 | None => Ok (dset acc k b0, Some (blen b0))
                 | Some n => if negb (blen b0 =? n) then Err ValueError else Ok (dset acc k b0, len0)
                 end;
       v_ctor_loop length keep conv exc copy r st') =
      Ok (acc ++ (k, b') :: map (conv1 conv exc) (filter (keepc keep) r),
          match len0 with Some n => Some n | None => Some length end)).
    { intros b0 ->. rewrite dset_notin by (apply Hfresh; left; reflexivity).
      assert (Hfr' : forall k', In k' (keys r) -> ~ In k' (keys (acc ++ [(k, b')]))).
      { intros k' Hk' Q. unfold keys in Q; rewrite map_app in Q; apply in_app_or in Q. destruct Q as [Q|[Q|[]]].
        - apply (Hfr k' Hk'); assumption.
        - cbn in Q; subst k'. contradiction. }
      destruct len0 as [n|].
      - rewrite (Hl0 n eq_refl), Hb', Z.eqb_refl. cbn [negb bind].
        rewrite IH; auto; [|intros n0 Hn0; inversion Hn0; reflexivity]. rewrite <- app_assoc. reflexivity.
      - cbn [bind]. rewrite IH; auto; [|intros n Hn; inversion Hn; assumption].
        rewrite <- app_assoc, Hb'. reflexivity. }
    cbn [map]. fold b'. change (conv1 conv exc (k, b)) with (k, b').
    unfold b', conv1 in Hgoal |- *; cbn [fst snd] in Hgoal |- *.
    destruct (if mem k exc then None else assoc (bdt b) conv) as [dt'|].
    + rewrite broadcast_eq by (symmetry; assumption). cbn [bind]. apply Hgoal. reflexivity.
    + destruct copy.
      * rewrite broadcast_eq by (symmetry; assumption). cbn [bind]. apply Hgoal. apply mkbuf_eta.
      * cbn [bind]. apply Hgoal. reflexivity.
Qed.

(* the constructor on a well-formed source: filter by keep_fields (None keeps everything, an
   EMPTY list keeps nothing), convert each kept column once; no kept column => length 0 *)
Theorem v_ctor_closed : forall src,
  (forall c, In c src -> blen (snd c) = length) -> NoDup (keys src) ->
  v_ctor src length keep conv exc copy =
    Ok (mkat (map (conv1 conv exc) (filter (keepc keep) src))
             (match filter (keepc keep) src with [] => 0 | _ => length end) false).
Proof.
  intros src Hb ND. unfold v_ctor. rewrite v_ctor_loop_closed; auto; try (intros; discriminate).
  cbn [bind fst snd app]. destruct (filter (keepc keep) src); reflexivity.
Qed.
End CtorClosed.

Corollary keep_empty_list_keeps_nothing : forall src length conv exc copy, 0 <= length ->
  (forall c, In c src -> blen (snd c) = length) -> NoDup (keys src) ->
  v_ctor src length (Some []) conv exc copy = Ok (mkat [] 0 false).
Proof.
  intros. rewrite v_ctor_closed by assumption.
  assert (F : filter (keepc (Some [])) src = []) by (induction src as [|c r IH]; [reflexivity | cbn; apply IH; auto;
    [intros; apply H0; right; assumption | cbn in H1; inversion H1; assumption]]).
  rewrite F. reflexivity.
Qed.

Corollary keep_none_keeps_all : forall src length conv exc copy, 0 <= length ->
  (forall c, In c src -> blen (snd c) = length) -> NoDup (keys src) ->
  v_ctor src length None conv exc copy =
    Ok (mkat (map (conv1 conv exc) src) (match src with [] => 0 | _ => length end) false).
Proof.
  intros. rewrite v_ctor_closed by assumption.
  assert (F : filter (keepc None) src = src) by (clear; induction src as [|c r IH]; [reflexivity | cbn; f_equal; exact IH]).
  rewrite F. reflexivity.
Qed.

(* ------------------------------------------------------------ convert_dtypes *)
Lemma map_cols_total : forall (f : name * buf -> name * buf) g c,
  (forall k b, g k b = Ok (snd (f (k, b)))) -> (forall k b, fst (f (k, b)) = k) ->
  map_cols g c = Ok (map f c).
Proof.
  intros f g c Hg Hf. induction c as [|[k b] r IH]; [reflexivity|]. cbn [map_cols map].
  rewrite Hg; cbn [bind]. rewrite IH; cbn [bind]. f_equal. f_equal.
  pose proof (Hf k b) as Q. destruct (f (k, b)) as [k' b']; cbn in *; subst; reflexivity.
Qed.

Theorem s_convert_closed : forall t conv exc,
  s_convert t conv exc = Ok (mkat (map (conv1 conv exc) (acols t)) (alen t) (acache t)).
Proof.
  intros t conv exc. unfold s_convert. rewrite (map_cols_total (conv1 conv exc)); [reflexivity | | reflexivity].
  intros k b. unfold s_conv1, conv1; cbn [fst snd]. destruct (mem k exc); [reflexivity|].
  destruct (assoc (bdt b) conv); reflexivity.
Qed.

(* conversions are NOT chained: with {int64 -> float64, float64 -> int16} an int64 column becomes
   float64 (and a float64 column int16), whatever the order of the dict *)
Example convert_not_chained :
  s_convert (mkat [(0, mkbuf 2 [1; 2]); (1, mkbuf 3 [3; 4])] 2 false) [(2, 3); (3, 0)] []
    = Ok (mkat [(0, mkbuf 3 [1; 2]); (1, mkbuf 0 [3; 4])] 2 false)
  /\ s_convert (mkat [(0, mkbuf 2 [1; 2]); (1, mkbuf 3 [3; 4])] 2 false) [(3, 0); (2, 3)] []
    = Ok (mkat [(0, mkbuf 3 [1; 2]); (1, mkbuf 0 [3; 4])] 2 false).
Proof. split; reflexivity. Qed.

(* ------------------------------------------------------------ rename_fields *)
Lemma ddel_filter : forall (c : list (name * buf)) old, NoDup (keys c) ->
  ddel c old = filter (fun col => negb (fst col =? old)) c.
Proof.
  induction c as [|[k b] r IH]; intros old ND; [reflexivity|]. cbn [ddel filter fst].
  cbn [keys map fst] in ND. inversion ND as [|? ? Hk NDr]; subst.
  destruct (k =? old) eqn:Q; cbn [negb].
  - apply Z.eqb_eq in Q; subst k. symmetry. clear IH.
    assert (F : forall c0 : list (name * buf), ~ In old (keys c0) -> filter (fun col => negb (fst col =? old)) c0 = c0).
    { induction c0 as [|[k0 b0] r0 IH0]; intros H; [reflexivity|]. cbn [filter fst].
      destruct (k0 =? old) eqn:Q0; [apply Z.eqb_eq in Q0; exfalso; apply H; left; assumption|].
      cbn [negb]. f_equal. apply IH0. intros Q1; apply H; right; assumption. }
    apply F; assumption.
  - f_equal. apply IH; assumption.
Qed.

Lemma assoc_lookup : forall (c : list (name * buf)) k, In k (keys c) -> assoc k c = Some (lookup k c).
Proof. intros c k H. destruct (In_keys_assoc _ _ H) as [v Hv]. unfold lookup; rewrite Hv; reflexivity. Qed.

Lemma lookup_ddel_other : forall (c : list (name * buf)) old k, k <> old -> lookup k (ddel c old) = lookup k c.
Proof.
  induction c as [|[k0 b0] r IH]; intros old k Hne; [reflexivity|]. unfold lookup in *. cbn [ddel assoc].
  destruct (k0 =? old) eqn:Q.
  - apply Z.eqb_eq in Q; subst k0. destruct (old =? k) eqn:Q2; [apply Z.eqb_eq in Q2; congruence | reflexivity].
  - cbn [assoc]. destruct (k0 =? k); [reflexivity | apply IH; assumption].
Qed.

Lemma filter_filter' : forall A (p q : A -> bool) l, filter p (filter q l) = filter (fun x => q x && p x) l.
Proof.
  induction l as [|a r IH]; [reflexivity|]. cbn [filter]. destruct (q a); cbn [andb filter]; [|exact IH].
  destruct (p a); [f_equal|]; exact IH.
Qed.

Lemma filter_ext' : forall A (p q : A -> bool) l, (forall x, p x = q x) -> filter p l = filter q l.
Proof. induction l as [|a r IH]; intros H; [reflexivity|]. cbn [filter]. rewrite H, IH by assumption. reflexivity. Qed.

Lemma filter_all : forall A (p : A -> bool) l, (forall x, p x = true) -> filter p l = l.
Proof. induction l as [|a r IH]; intros H; [reflexivity|]. cbn [filter]. rewrite H, IH by assumption. reflexivity. Qed.

(* first phase: the present old names are taken out, in the order of the conversions *)
Lemma s_rename_pop_closed : forall present conv c,
  NoDup (keys c) -> NoDup (map fst conv) ->
  (forall old, In old (map fst conv) -> mem old present = true -> In old (keys c)) ->
  let pres := filter (fun cv => mem (fst cv) present) conv in
  s_rename_pop present conv c =
    (filter (fun col => negb (mem (fst col) (map fst pres))) c,
     map (fun cv => (snd cv, lookup (fst cv) c)) pres).
Proof.
  induction conv as [|[old new] r IH]; intros c NDc NDv Hin pres; cbn [s_rename_pop].
  - subst pres; cbn [filter map]. rewrite filter_all by reflexivity. reflexivity.
  - cbn [map fst] in NDv. inversion NDv as [|? ? Hold NDr]; subst.
    subst pres. cbn [filter fst]. destruct (mem old present) eqn:M.
    + assert (Ho : In old (keys c)) by (apply Hin; [left; reflexivity | assumption]).
      rewrite (assoc_lookup _ _ Ho).
      assert (NDd : NoDup (keys (ddel c old))) by (rewrite keys_ddel; apply NoDup_lremove; assumption).
      assert (Hin' : forall o, In o (map fst r) -> mem o present = true -> In o (keys (ddel c old))).
      { intros o Ho1 Ho2. rewrite keys_ddel. apply lremove_In_other; [intros ->; contradiction|].
        apply Hin; [right; assumption | assumption]. }
      rewrite (IH (ddel c old) NDd NDr Hin'). cbn [map fst snd]. f_equal.
      * rewrite (ddel_filter c old NDc). rewrite filter_filter'. apply filter_ext'. intros [k b]; cbn [fst].
        unfold mem; cbn [existsb]. fold (mem k (map fst (filter (fun cv : Z * name => mem (fst cv) present) r))).
        rewrite negb_orb. reflexivity.
      * f_equal. apply map_ext_in. intros [o n] Hon. cbn [fst snd]. f_equal.
        apply lookup_ddel_other. intros ->. apply Hold.
        apply filter_In in Hon. destruct Hon as [Hon _]. apply (in_map fst) in Hon; exact Hon.
    + apply IH; auto. intros o Ho1 Ho2; apply Hin; [right; assumption | assumption].
Qed.

Lemma s_rename_ins_closed : forall ins (c : list (name * buf)), NoDup (map fst ins) ->
  (forall n, In n (map fst ins) -> ~ In n (keys c)) -> s_rename_ins ins c = c ++ ins.
Proof.
  induction ins as [|[n b] r IH]; intros c ND H; cbn [s_rename_ins]; [rewrite app_nil_r; reflexivity|].
  cbn [map fst] in ND. inversion ND as [|? ? Hn NDr]; subst.
  rewrite dset_notin by (apply H; left; reflexivity).
  rewrite IH; [rewrite <- app_assoc; reflexivity | assumption |].
  intros k Hk Q. unfold keys in Q; rewrite map_app in Q; apply in_app_or in Q. destruct Q as [Q|[Q|[]]].
  - apply (H k (or_intror Hk)); assumption.
  - cbn in Q; subst k; contradiction.
Qed.

(* rename_fields as a SIMULTANEOUS renaming (swaps and chains included): whenever the result
   has no duplicate name, the table afterwards consists of the columns that are not renamed,
   in their old order, followed by the renamed columns in the order of the dict, under
   their new names, each with the data it had before *)
Theorem s_rename_closed : forall t conv must,
  NoDup (anames t) -> NoDup (map fst conv) ->
  let pres := filter (fun cv => mem (fst cv) (anames t)) conv in
  let kept := filter (fun col => negb (mem (fst col) (map fst pres))) (acols t) in
  NoDup (map snd pres) -> (forall n, In n (map snd pres) -> ~ In n (keys kept)) ->
  (must = true -> forall cv, In cv conv -> mem (fst cv) (anames t) = true) ->
  s_rename t conv must =
    Ok (mkat (kept ++ map (fun cv => (snd cv, lookup (fst cv) (acols t))) pres) (alen t) (acache t)).
Proof.
  intros t conv must NDt NDc pres kept NDn Hfresh Hmust. unfold s_rename.
  match goal with |- (if ?X then _ else _) = _ => assert (PC : X = false) end.
  { destruct must; [|reflexivity]. cbn. apply negb_false_iff. apply forallb_forall. intros cv Hcv. apply Hmust; [reflexivity | assumption]. }
  rewrite PC.
  rewrite (s_rename_pop_closed (anames t) conv (acols t) NDt NDc).
  2:{ intros old _ M. apply mem_In in M. exact M. }
  fold pres. fold kept. f_equal. f_equal. apply s_rename_ins_closed.
  - rewrite map_map. cbn [fst]. exact NDn.
  - intros n Hn. rewrite map_map in Hn. cbn [fst] in Hn. apply Hfresh; assumption.
Qed.

Example rename_swap_and_chain :
  s_rename (mkat [(0, mkbuf 0 [1]); (1, mkbuf 3 [2]); (2, mkbuf 1 [3])] 1 false) [(0, 1); (1, 0)] true
    = Ok (mkat [(2, mkbuf 1 [3]); (1, mkbuf 0 [1]); (0, mkbuf 3 [2])] 1 false)
  /\ s_rename (mkat [(0, mkbuf 0 [1]); (1, mkbuf 3 [2]); (2, mkbuf 1 [3])] 1 false) [(1, 0); (0, 5); (9, 2)] false
    = Ok (mkat [(2, mkbuf 1 [3]); (0, mkbuf 3 [2]); (5, mkbuf 0 [1])] 1 false).
Proof. split; reflexivity. Qed.
