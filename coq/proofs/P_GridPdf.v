(* C15, "every rounded value finds its grid PDF": the PDFSet registry filled
   with one PDF per grid point, queried with a rounded value, returns the PDF
   registered for the grid member the rounded value is -- every number system. *)
From Coq Require Import ZArith List Bool Lia.
From Sky Require Import Result PyList Num G_grid M_Grid M_GridPdf P_Grid.
Import ListNotations.
Open Scope Z_scope.

Lemma K_pdfset_keys k : pdfset_hash k = k /\ pdfset_add_key k = k /\ pdfset_get_key k = k.
Proof. repeat split. Qed.
Lemma K_pdfset_add_exists k l : pdfset_add_exists k l = true <-> In k l.
Proof.
  unfold pdfset_add_exists. rewrite existsb_exists. split.
  - intros [x [Hin E]]. apply Z.eqb_eq in E. subst. exact Hin.
  - intros H. exists k. split; [exact H|apply Z.eqb_refl].
Qed.
Lemma K_pdfset_get_missing k l : pdfset_get_missing k l = false <-> In k l.
Proof.
  unfold pdfset_get_missing. rewrite negb_false_iff. apply (K_pdfset_add_exists k l).
Qed.

Lemma NoDup_snoc {B} (l : list B) x : NoDup l -> ~ In x l -> NoDup (l ++ [x]).
Proof.
  induction l as [|a l IH]; intros Hnd Hni; cbn [app].
  - constructor; [intros []|constructor].
  - inversion Hnd as [|? ? Ha Hl]; subst. constructor.
    + intros Hin. apply in_app_or in Hin. destruct Hin as [Hin|[E|[]]]; [exact (Ha Hin)|].
      subst. apply Hni. left. reflexivity.
    + apply IH; [exact Hl|]. intros Hin. apply Hni. right. exact Hin.
Qed.

Section Lookup.
  Context {T : Type} {A : Type}.
  Variable h : T -> Z.

  Lemma ps_find_nodup (tbl : pdfset (A := A)) k q : NoDup (ps_keys tbl) -> In (k, q) tbl -> ps_find tbl k = Some q.
  Proof.
    induction tbl as [|[k' p] r IH]; intros Hnd Hin; [destruct Hin|].
    cbn [ps_find]. cbn [ps_keys map fst] in Hnd. inversion Hnd as [|? ? Hni Hnd']; subst.
    destruct Hin as [E|Hin].
    - inversion E; subst. rewrite Z.eqb_refl. reflexivity.
    - destruct (k' =? k) eqn:Ek.
      + apply Z.eqb_eq in Ek. subst k'. exfalso. apply Hni. change k with (fst (k, q)). apply in_map. exact Hin.
      + apply IH; assumption.
  Qed.

  (* what a successful build leaves behind *)
  Lemma ps_build_spec (grid : list T) : forall (pdfs : list A) (t0 tbl : pdfset),
    ps_build h t0 grid pdfs = Ok tbl ->
    tbl = t0 ++ combine (map h grid) pdfs /\ length grid = length pdfs /\ (NoDup (ps_keys t0) -> NoDup (ps_keys tbl)).
  Proof.
    induction grid as [|v grid IH]; intros pdfs t0 tbl H.
    - destruct pdfs; [|discriminate]. inversion H; subst. cbn. rewrite app_nil_r. auto.
    - destruct pdfs as [|p pdfs]; [discriminate|]. cbn [ps_build] in H. unfold ps_add in H.
      destruct (K_pdfset_keys (h v)) as [E1 [_ _]]. destruct (K_pdfset_keys (pdfset_hash (h v))) as [_ [E2 _]].
      rewrite E2, E1 in H.
      destruct (pdfset_add_exists (h v) (ps_keys t0)) eqn:Ex; [discriminate|]. cbn [bind] in H.
      destruct (IH pdfs _ tbl H) as [Et [El Hnd]].
      split; [|split].
      + rewrite Et, <- app_assoc. reflexivity.
      + cbn [length]. lia.
      + intros Hnd0. apply Hnd. unfold ps_keys. rewrite map_app. cbn [map fst].
        apply NoDup_snoc; [exact Hnd0|].
        intros Hin. apply K_pdfset_add_exists in Hin. unfold ps_keys in Ex. congruence.
  Qed.

  Lemma combine_nth (grid : list T) (pdfs : list A) i gi q :
    nth_error grid i = Some gi -> nth_error pdfs i = Some q ->
    nth_error (combine (map h grid) pdfs) i = Some (h gi, q).
  Proof.
    revert i pdfs. induction grid as [|v grid IH]; intros i pdfs Hg Hq; [destruct i; discriminate|].
    destruct pdfs as [|p pdfs]; [destruct i; discriminate|].
    destruct i as [|i]; cbn in *.
    - inversion Hg; inversion Hq; subst. reflexivity.
    - apply IH; auto.
  Qed.
  Lemma map_fst_combine {B C} (l : list B) (l' : list C) : length l = length l' -> map fst (combine l l') = l.
  Proof.
    revert l'. induction l as [|a l IH]; intros l' E; [reflexivity|].
    destruct l' as [|c l']; [discriminate|]. cbn in *. f_equal. apply IH. lia.
  Qed.

  (* T: the registry filled with one PDF per grid point returns, for any value
     whose hash is that of the i-th grid point, the i-th PDF *)
  Theorem ps_lookup_finds_grid_pdf (grid : list T) (pdfs : list A) (tbl : pdfset) i gi q x :
    ps_build h [] grid pdfs = Ok tbl ->
    nth_error grid i = Some gi -> nth_error pdfs i = Some q ->
    h x = h gi ->
    ps_get h tbl x = Ok q.
  Proof.
    intros Hb Hg Hq Hx. destruct (ps_build_spec grid pdfs [] tbl Hb) as [Et [El Hnd]].
    cbn [app] in Et. specialize (Hnd (NoDup_nil _)).
    assert (Hin : In (h gi, q) tbl).
    { rewrite Et. apply (nth_error_In _ i). apply combine_nth; assumption. }
    unfold ps_get. destruct (K_pdfset_keys (h x)) as [E1 _]. destruct (K_pdfset_keys (pdfset_hash (h x))) as [_ [_ E3]].
    rewrite E3, E1, Hx.
    assert (Hk : In (h gi) (ps_keys tbl)) by (change (h gi) with (fst (h gi, q)); apply in_map; exact Hin).
    apply K_pdfset_get_missing in Hk. rewrite Hk.
    rewrite (ps_find_nodup tbl (h gi) q Hnd Hin). reflexivity.
  Qed.

  (* a successful build means the hashes of the grid points are pairwise
     distinct (a collision makes add_pdf raise KeyError) *)
  Theorem ps_build_keys_distinct (grid : list T) (pdfs : list A) (tbl : pdfset) :
    ps_build h [] grid pdfs = Ok tbl -> NoDup (map h grid) /\ length grid = length pdfs.
  Proof.
    intros Hb. destruct (ps_build_spec grid pdfs [] tbl Hb) as [Et [El Hnd]].
    split; [|exact El]. specialize (Hnd (NoDup_nil _)). cbn [app] in Et. rewrite Et in Hnd.
    unfold ps_keys in Hnd. rewrite map_fst_combine in Hnd by (rewrite map_length; exact El). exact Hnd.
  Qed.
End Lookup.

(* composition with the rounding functions *)
Section Compose.
  Context {T : Type} (N : Num T) {A : Type}.
  Variable h : T -> Z.

  Lemma In_nth_pdf (grid : list T) (pdfs : list A) x : In x grid -> length grid = length pdfs ->
    exists i q, nth_error grid i = Some x /\ nth_error pdfs i = Some q.
  Proof.
    intros Hin El. apply In_nth_error in Hin. destruct Hin as [i Hi]. exists i.
    assert (Hl : (i < length pdfs)%nat) by (rewrite <- El; apply nth_error_Some; congruence).
    destruct (nth_error pdfs i) as [q|] eqn:E; [exists q; auto|apply nth_error_None in E; lia].
  Qed.

  (* T: if the index a rounding function computed is the index of a stored
     grid point, the lookup with the rounded value succeeds and returns the PDF
     registered for exactly that grid point *)
  Theorem rounded_value_finds_its_pdf d0 dec arr (p : pgrid) (pdfs : list A) (tbl : pdfset) v :
    pg_make N d0 dec arr = Ok p ->
    ps_build h [] (pg_grid p) pdfs = Ok tbl ->
    (In (k_lower N (pg_desc p) v) (map (k_nearest N (pg_desc p)) arr) ->
     exists i q, nth_error (pg_grid p) i = Some (round_lower N (pg_desc p) v) /\ nth_error pdfs i = Some q
                 /\ ps_get h tbl (round_lower N (pg_desc p) v) = Ok q) /\
    (In (k_nearest N (pg_desc p) v) (map (k_nearest N (pg_desc p)) arr) ->
     exists i q, nth_error (pg_grid p) i = Some (round_nearest N (pg_desc p) v) /\ nth_error pdfs i = Some q
                 /\ ps_get h tbl (round_nearest N (pg_desc p) v) = Ok q) /\
    (In (k_upper N (pg_desc p) v) (map (k_nearest N (pg_desc p)) arr) ->
     exists i q, nth_error (pg_grid p) i = Some (round_upper N (pg_desc p) v) /\ nth_error pdfs i = Some q
                 /\ ps_get h tbl (round_upper N (pg_desc p) v) = Ok q).
  Proof.
    intros Hm Hb. destruct (ps_build_keys_distinct h _ _ _ Hb) as [_ El].
    repeat split; intros Hin.
    - pose proof (round_lower_member N d0 dec arr p v Hm Hin) as Hmem.
      destruct (In_nth_pdf _ pdfs _ Hmem El) as [i [q [Hi Hq]]]. exists i, q. repeat split; try assumption.
      eapply ps_lookup_finds_grid_pdf; eauto.
    - pose proof (round_nearest_member N d0 dec arr p v Hm Hin) as Hmem.
      destruct (In_nth_pdf _ pdfs _ Hmem El) as [i [q [Hi Hq]]]. exists i, q. repeat split; try assumption.
      eapply ps_lookup_finds_grid_pdf; eauto.
    - pose proof (round_upper_member N d0 dec arr p v Hm Hin) as Hmem.
      destruct (In_nth_pdf _ pdfs _ Hmem El) as [i [q [Hi Hq]]]. exists i, q. repeat split; try assumption.
      eapply ps_lookup_finds_grid_pdf; eauto.
  Qed.

  (* T: on a self-consistent grid (the computable float predicate) rounding a
     grid point down / to the nearest and looking it up returns that grid
     point's own PDF; "up" returns the next grid point's.  Python's hash
     contract (values comparing equal hash equal) is the hypothesis on h. *)
  Lemma list_eqb_nth (f : T -> T) l l' i x y : list_eqb N (map f l) l' = true ->
    nth_error l i = Some x -> nth_error l' i = Some y -> neqb N (f x) y = true.
  Proof.
    revert l' i. induction l as [|a l IH]; intros l' i H Hx Hy; [destruct i; discriminate|].
    destruct l' as [|b l']; [destruct i; discriminate|]. cbn [map list_eqb] in H.
    apply andb_prop in H. destruct H as [Hab H]. destruct i as [|i]; cbn in Hx, Hy.
    - inversion Hx; inversion Hy; subst. exact Hab.
    - eapply IH; eauto.
  Qed.

  Theorem self_consistent_grid_point_finds_own_pdf (p : pgrid) (pdfs : list A) (tbl : pdfset) i gi q :
    (forall x y, neqb N x y = true -> h x = h y) ->
    self_consistent N p = true ->
    ps_build h [] (pg_grid p) pdfs = Ok tbl ->
    nth_error (pg_grid p) i = Some gi -> nth_error pdfs i = Some q ->
    ps_get h tbl (round_lower N (pg_desc p) gi) = Ok q /\
    ps_get h tbl (round_nearest N (pg_desc p) gi) = Ok q.
  Proof.
    intros Hh Hsc Hb Hg Hq. unfold self_consistent in Hsc.
    apply andb_prop in Hsc. destruct Hsc as [Hsc _]. apply andb_prop in Hsc. destruct Hsc as [HL HN].
    split.
    - eapply ps_lookup_finds_grid_pdf; eauto. apply Hh. eapply list_eqb_nth; eauto.
    - eapply ps_lookup_finds_grid_pdf; eauto. apply Hh. eapply list_eqb_nth; eauto.
  Qed.
End Compose.


(* the guard "the registry could be built" of the lookup theorems is needed:
   with CPython's hash, the distinct grid values -2 and -1 collide
   (hash(-1.0) = hash(-2.0) = -2), and add_pdf raises KeyError *)
Theorem pdfset_build_refuted :
  NoDup [-3; -2; -1; 0] /\
  ps_build cpython_hash_small [] [-3; -2; -1; 0] [0; 1; 2; 3]%nat = Err KeyError /\
  exists tbl, ps_build cpython_hash_small [] [-3; -2; 0; 1] [0; 1; 2; 3]%nat = Ok tbl.
Proof.
  split; [|split; [reflexivity|eexists; reflexivity]].
  repeat (constructor; [cbn; intuition lia|]). constructor.
Qed.

(* the positive counterpart (what fix 3d907c5 of make_dict_hash provides for real
   numbers: different values, different keys): when the hashes of the grid values
   are pairwise distinct, the registry can be built *)
Lemma ps_build_ok_acc {T A : Type} (h : T -> Z) (grid : list T) : forall (pdfs : list A) (t0 : pdfset),
  NoDup (ps_keys t0 ++ map h grid) -> length grid = length pdfs ->
  exists tbl, ps_build h t0 grid pdfs = Ok tbl.
Proof.
  induction grid as [|v grid IH]; intros pdfs t0 Hnd Hl.
  - destruct pdfs; [|discriminate]. eexists; reflexivity.
  - destruct pdfs as [|p pdfs]; [discriminate|]. cbn [ps_build]. unfold ps_add.
    destruct (K_pdfset_keys (h v)) as [E1 _]. destruct (K_pdfset_keys (pdfset_hash (h v))) as [_ [E2 _]].
    rewrite E2, E1.
    destruct (pdfset_add_exists (h v) (ps_keys t0)) eqn:Ex.
    + exfalso. apply K_pdfset_add_exists in Ex. cbn [map] in Hnd.
      apply NoDup_remove_2 in Hnd. apply Hnd. apply in_or_app. left. exact Ex.
    + cbn [bind]. apply IH; [|cbn in Hl; lia].
      unfold ps_keys. rewrite map_app. cbn [map fst]. rewrite <- app_assoc. exact Hnd.
Qed.
Theorem ps_build_ok {T A : Type} (h : T -> Z) (grid : list T) (pdfs : list A) :
  NoDup (map h grid) -> length grid = length pdfs -> exists tbl, ps_build h [] grid pdfs = Ok tbl.
Proof. intros Hnd Hl. apply ps_build_ok_acc; [exact Hnd|exact Hl]. Qed.
