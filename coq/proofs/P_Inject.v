(* C18, part 1: the per-dataset counts of
   MultiDatasetSignalGenerator.generate_signal_events. *)
From Coq Require Import ZArith List Bool Lia.
From Sky Require Import Result PyList G_inject M_Inject S_Inject.
Import ListNotations.
Open Scope Z_scope.

Ltac Zify.zify_post_hook ::= Z.to_euclidean_division_equations.

(* ------------------------------------------------ characterising lemmas (Z) *)
Lemma K_cnt_need_add s mean : cnt_need_add s mean = (s <? mean).
Proof. reflexivity. Qed.
Lemma K_cnt_need_sub s mean : cnt_need_sub s mean = (mean <? s).
Proof. unfold cnt_need_sub. rewrite Z.gtb_ltb. reflexivity. Qed.
Lemma K_cnt_add_size mean s : cnt_add_size mean s = mean - s.
Proof. reflexivity. Qed.
Lemma K_cnt_add_inc c v : cnt_add_inc c v = v + c.
Proof. reflexivity. Qed.
Lemma K_cnt_sub_steps s mean : cnt_sub_steps s mean = s - mean.
Proof. reflexivity. Qed.
Lemma K_cnt_sub_p n w : cnt_sub_p n w = if 0 <? n then w else 0.
Proof. unfold cnt_sub_p. rewrite Z.gtb_ltb. reflexivity. Qed.
Lemma K_cnt_sub_dec v : cnt_sub_dec v = v - 1.
Proof. reflexivity. Qed.

(* ------------------------------------------------------------------ rounding *)
Lemma rhe_bounds p q : 0 < q -> 2 * p - q <= 2 * q * rhe p q <= 2 * p + q.
Proof.
  intros Hq. unfold rhe. cbv zeta.
  pose proof (Z.div_mod p q ltac:(lia)) as Hdm.
  pose proof (Z.mod_pos_bound p q Hq) as Hb.
  set (f := p / q) in *. set (r := p mod q) in *. clearbody f r.
  destruct (2 * r <? q) eqn:E1; [apply Z.ltb_lt in E1; nia|].
  apply Z.ltb_ge in E1.
  destruct (q <? 2 * r) eqn:E2; [apply Z.ltb_lt in E2; nia|].
  apply Z.ltb_ge in E2.
  destruct (Z.even f); nia.
Qed.

Lemma rhe_nonneg p q : 0 <= p -> 0 < q -> 0 <= rhe p q.
Proof. intros Hp Hq. pose proof (rhe_bounds p q Hq). nia. Qed.

Lemma rhe_zero q : 0 < q -> rhe 0 q = 0.
Proof.
  intros Hq. unfold rhe. cbv zeta.
  rewrite Z.mod_0_l by lia. rewrite Z.div_0_l by lia.
  change (2 * 0) with 0. destruct (0 <? q) eqn:E; [reflexivity|apply Z.ltb_ge in E; lia].
Qed.

(* ------------------------------------------------------------ list plumbing *)
Lemma zsum_app a b : zsum (a ++ b) = zsum a + zsum b.
Proof. unfold zsum. induction a as [|x a IH]; cbn [app fold_right]; [reflexivity|]. rewrite IH. lia. Qed.

Lemma set_nth_length {A} (l : list A) i v : length (set_nth l i v) = length l.
Proof. revert i; induction l as [|a l IH]; intros [|i]; cbn [set_nth length]; auto. Qed.

Lemma zsum_set_nth l i v v' : nth_error l i = Some v -> zsum (set_nth l i v') = zsum l - v + v'.
Proof.
  revert i; induction l as [|a l IH]; intros [|i] H; cbn [nth_error] in H; try discriminate.
  - inversion H; subst. cbn [set_nth zsum fold_right]. lia.
  - cbn [set_nth zsum fold_right]. specialize (IH i H). unfold zsum in IH. rewrite IH. lia.
Qed.

Lemma Forall2_set_nth {A B} (R : A -> B -> Prop) ws l i w v' :
  Forall2 R ws l -> nth_error ws i = Some w -> R w v' -> Forall2 R ws (set_nth l i v').
Proof.
  intros H; revert i; induction H as [|a b ws l Hab H IH]; intros [|i] Hw Hr; cbn [nth_error] in Hw; try discriminate.
  - inversion Hw; subst. cbn [set_nth]. constructor; assumption.
  - cbn [set_nth]. constructor; [assumption|]. apply IH; assumption.
Qed.

Lemma Forall2_nth_error {A B} (R : A -> B -> Prop) ws l i w :
  Forall2 R ws l -> nth_error ws i = Some w -> exists v, nth_error l i = Some v /\ R w v.
Proof.
  intros H; revert i; induction H as [|a b ws l Hab H IH]; intros [|i] Hw; cbn [nth_error] in *; try discriminate.
  - inversion Hw; subst. eauto.
  - apply IH; assumption.
Qed.

Lemma nth_pos_nth_error l d : 0 < nth d l 0 -> exists v, nth_error l d = Some v /\ 0 < v.
Proof.
  revert d; induction l as [|a l IH]; intros [|d] H; cbn [nth nth_error] in *; try lia.
  - eauto.
  - apply IH; assumption.
Qed.

Lemma nth_map2 {A B} (f : A -> B -> Z) l m d :
  0 < nth d (map2 f l m) 0 ->
  exists a b, nth_error l d = Some a /\ nth_error m d = Some b /\ 0 < f a b.
Proof.
  revert m d; induction l as [|a l IH]; intros [|b m] [|d] H; cbn [map2 nth nth_error] in *; try lia.
  - eauto.
  - apply IH; assumption.
Qed.

(* the relation kept between the weights and the counts *)
Definition Rwc (w n : Z) : Prop := 0 <= w /\ 0 <= n /\ (w = 0 -> n = 0).

Lemma Rwc_counts0 mean D ws :
  0 <= mean -> 0 < D -> Forall (fun x => 0 <= x) ws -> Forall2 Rwc ws (counts0 mean D ws).
Proof.
  intros Hm HD H. unfold counts0. induction H as [|w ws Hw H IH]; cbn [map]; constructor; [|exact IH].
  repeat split; [assumption|apply rhe_nonneg; nia|].
  intros ->. rewrite Z.mul_0_r. apply rhe_zero; assumption.
Qed.

Lemma Forall2_length {A B} (R : A -> B -> Prop) l m : Forall2 R l m -> length l = length m.
Proof. induction 1; cbn [length]; congruence. Qed.

Lemma Rwc_nonneg ws c : Forall2 Rwc ws c -> nonneg c.
Proof. unfold nonneg. induction 1 as [|w n ws c [_ [H _]] _ IH]; constructor; assumption. Qed.

Lemma Rwc_zero ws c : Forall2 Rwc ws c -> zero_stays_zero ws c.
Proof. unfold zero_stays_zero. induction 1 as [|w n ws c [_ [_ H]] _ IH]; constructor; assumption. Qed.

Lemma zsum_pos_exists l : 0 < zsum l -> Exists (fun x => 0 < x) l.
Proof.
  induction l as [|a l IH]; cbn [zsum fold_right]; intros H; [lia|].
  destruct (Z_lt_dec 0 a); [left; assumption|right; apply IH; unfold zsum; lia].
Qed.

Section Counts.
  Variable rng : Type.
  Variable choice : rng -> list Z -> nat -> list nat * rng.
  Hypothesis Hc : choice_contract choice.

  Lemma add_draws_spec ws : forall draws cnt,
    Forall2 Rwc ws cnt ->
    (forall d, In d draws -> 0 < nth d ws 0) ->
    exists c, add_draws cnt draws = Ok c /\ Forall2 Rwc ws c
              /\ zsum c = zsum cnt + Z.of_nat (length draws).
  Proof.
    induction draws as [|d r IH]; intros cnt HR Hd.
    - exists cnt. cbn [add_draws length]. repeat split; [assumption|lia].
    - cbn [add_draws].
      destruct (nth_pos_nth_error ws d (Hd d (or_introl eq_refl))) as [w [Hw Hwp]].
      destruct (Forall2_nth_error _ _ _ _ _ HR Hw) as [v [Hv [_ [Hv0 _]]]].
      unfold bump. rewrite Hv. cbn [bind]. rewrite K_cnt_add_inc.
      destruct (IH (set_nth cnt d (v + 1))) as [c [E [HR' Hs]]].
      + eapply Forall2_set_nth; [exact HR|exact Hw|]. unfold Rwc; repeat split; lia.
      + intros d' Hin. apply Hd. right; assumption.
      + exists c. repeat split; [assumption|assumption|].
        rewrite Hs, (zsum_set_nth _ _ _ _ Hv). cbn [length]. lia.
  Qed.

  Lemma map2_sub_p_props ws : forall cnt,
    Forall2 Rwc ws cnt -> 0 < zsum cnt ->
    Forall (fun x => 0 <= x) (map2 cnt_sub_p cnt ws)
    /\ Exists (fun x => 0 < x) (map2 cnt_sub_p cnt ws).
  Proof.
    intros cnt H; induction H as [|w n ws cnt [Hw [Hn Hz]] H IH]; intros Hs; cbn [zsum fold_right] in Hs; [lia|].
    cbn [map2]. rewrite K_cnt_sub_p. split.
    - constructor.
      + destruct (0 <? n); lia.
      + clear IH Hs. induction H as [|w' n' ws cnt [Hw' _] H IH]; cbn [map2]; constructor; [|exact IH].
        rewrite K_cnt_sub_p. destruct (0 <? n'); lia.
    - destruct (0 <? n) eqn:E.
      + apply Z.ltb_lt in E. left. lia.
      + apply Z.ltb_ge in E. right. apply IH. unfold zsum. lia.
  Qed.

  Lemma all_zero_false l : Exists (fun x => 0 < x) l -> all_zero l = false.
  Proof.
    unfold all_zero. induction 1 as [a l H|a l H IH]; cbn [forallb].
    - destruct (a =? 0) eqn:E; [apply Z.eqb_eq in E; lia|reflexivity].
    - rewrite IH. apply andb_false_r.
  Qed.

  Lemma sub_loop_spec ws : forall k g cnt,
    Forall2 Rwc ws cnt -> 0 <= zsum cnt - Z.of_nat k ->
    exists c g', sub_loop rng choice k g ws cnt = Ok (c, g') /\ Forall2 Rwc ws c
                 /\ zsum c = zsum cnt - Z.of_nat k.
  Proof.
    induction k as [|k IH]; intros g cnt HR Hs.
    - exists cnt, g. cbn [sub_loop]. repeat split; [assumption|lia].
    - cbn [sub_loop]. cbv zeta.
      destruct (map2_sub_p_props ws cnt HR ltac:(lia)) as [Hnn Hex].
      rewrite (all_zero_false _ Hex).
      destruct (Hc g (map2 cnt_sub_p cnt ws) 1%nat) as [Hlen Hpos].
      destruct (choice g (map2 cnt_sub_p cnt ws) 1%nat) as [ds g'] eqn:Ech. cbn [fst] in Hlen, Hpos.
      destruct ds as [|d [|d2 r]]; cbn [length] in Hlen; try discriminate.
      destruct (nth_map2 _ _ _ _ (Hpos Hnn Hex d (or_introl eq_refl))) as [n [w [Hn [Hw Hp]]]].
      rewrite K_cnt_sub_p in Hp.
      destruct (0 <? n) eqn:En; [apply Z.ltb_lt in En|lia].
      unfold bump. rewrite Hn. cbn [bind]. rewrite K_cnt_sub_dec.
      destruct (IH g' (set_nth cnt d (n - 1))) as [c [g'' [E [HR' Hs']]]].
      + eapply Forall2_set_nth; [exact HR|exact Hw|]. unfold Rwc; repeat split; lia.
      + rewrite (zsum_set_nth _ _ _ _ Hn). lia.
      + exists c, g''. repeat split; [assumption|assumption|].
        rewrite Hs', (zsum_set_nth _ _ _ _ Hn). lia.
  Qed.

  Theorem ds_counts_spec g mean D ws :
    0 <= mean -> 0 < D -> Forall (fun x => 0 <= x) ws -> zsum ws = D ->
    exists c g', ds_counts rng choice g mean D ws = Ok (c, g')
      /\ zsum c = mean /\ nonneg c /\ zero_stays_zero ws c /\ length c = length ws.
  Proof.
    intros Hm HD Hw Hsum. unfold ds_counts. cbv zeta.
    pose proof (Rwc_counts0 mean D ws Hm HD Hw) as HR0.
    set (c0 := counts0 mean D ws) in *. set (s := zsum c0).
    rewrite (K_cnt_need_add s mean), (K_cnt_need_sub s mean).
    replace (cnt_add_size mean s) with (mean - s) by (symmetry; apply K_cnt_add_size).
    replace (cnt_sub_steps s mean) with (s - mean) by (symmetry; apply K_cnt_sub_steps).
    destruct (s <? mean) eqn:E1.
    - apply Z.ltb_lt in E1.
      destruct (Hc g ws (Z.to_nat (mean - s))) as [Hlen Hpos].
      destruct (add_draws_spec ws (fst (choice g ws (Z.to_nat (mean - s)))) c0 HR0) as [c [E [HR Hs]]].
      + apply Hpos; [assumption|]. apply zsum_pos_exists. lia.
      + rewrite E. cbn [bind]. exists c, (snd (choice g ws (Z.to_nat (mean - s)))).
        repeat split; [|apply (Rwc_nonneg ws); assumption|apply Rwc_zero; assumption
                        |symmetry; apply (Forall2_length _ _ _ HR)].
        rewrite Hs, Hlen. fold s. lia.
    - apply Z.ltb_ge in E1. destruct (mean <? s) eqn:E2.
      + apply Z.ltb_lt in E2.
        destruct (sub_loop_spec ws (Z.to_nat (s - mean)) g c0 HR0) as [c [g' [E [HR Hs]]]]; [fold s; lia|].
        exists c, g'. repeat split; [assumption| |apply (Rwc_nonneg ws); assumption|apply Rwc_zero; assumption
                        |symmetry; apply (Forall2_length _ _ _ HR)].
        rewrite Hs. fold s. lia.
      + apply Z.ltb_ge in E2. exists c0, g.
        repeat split; [fold s; lia|apply (Rwc_nonneg ws); assumption|apply Rwc_zero; assumption
                        |symmetry; apply (Forall2_length _ _ _ HR0)].
  Qed.

  (* the sum is right whatever the rounding produced and whatever the oracle
     drew (only the number of draws matters): no hypothesis on the weights *)
  Lemma add_draws_sum : forall draws cnt c,
    add_draws cnt draws = Ok c -> zsum c = zsum cnt + Z.of_nat (length draws).
  Proof.
    induction draws as [|d r IH]; intros cnt c H; cbn [add_draws] in H.
    - inversion H; subst. cbn [length]. lia.
    - unfold bump in H. destruct (nth_error cnt d) as [v|] eqn:Hv; [|discriminate].
      cbn [bind] in H. apply IH in H. rewrite H, (zsum_set_nth _ _ _ _ Hv), K_cnt_add_inc.
      cbn [length]. lia.
  Qed.

  Lemma sub_loop_sum ws : forall k g cnt c g',
    sub_loop rng choice k g ws cnt = Ok (c, g') -> zsum c = zsum cnt - Z.of_nat k.
  Proof.
    induction k as [|k IH]; intros g cnt c g' H; cbn [sub_loop] in H.
    - inversion H; subst. lia.
    - cbv zeta in H. destruct (all_zero (map2 cnt_sub_p cnt ws)); [discriminate|].
      destruct (choice g (map2 cnt_sub_p cnt ws) 1%nat) as [ds g1].
      destruct ds as [|d [|d2 r]]; try discriminate.
      unfold bump in H. destruct (nth_error cnt d) as [v|] eqn:Hv; [|discriminate].
      cbn [bind] in H. apply IH in H. rewrite H, (zsum_set_nth _ _ _ _ Hv), K_cnt_sub_dec. lia.
  Qed.

  Theorem ds_counts_sum g mean D ws c g' :
    ds_counts rng choice g mean D ws = Ok (c, g') -> zsum c = mean.
  Proof.
    unfold ds_counts. cbv zeta.
    set (c0 := counts0 mean D ws). set (s := zsum c0).
    rewrite (K_cnt_need_add s mean), (K_cnt_need_sub s mean).
    replace (cnt_add_size mean s) with (mean - s) by (symmetry; apply K_cnt_add_size).
    replace (cnt_sub_steps s mean) with (s - mean) by (symmetry; apply K_cnt_sub_steps).
    destruct (s <? mean) eqn:E1.
    - apply Z.ltb_lt in E1. intros H.
      destruct (add_draws c0 (fst (choice g ws (Z.to_nat (mean - s))))) as [c1|] eqn:E; [|discriminate].
      cbn [bind] in H. inversion H; subst. apply add_draws_sum in E.
      destruct (Hc g ws (Z.to_nat (mean - s))) as [Hlen _]. rewrite E, Hlen. fold s. lia.
    - apply Z.ltb_ge in E1. destruct (mean <? s) eqn:E2.
      + apply Z.ltb_lt in E2. intros H. apply sub_loop_sum in H. rewrite H. fold s. lia.
      + apply Z.ltb_ge in E2. intros H. inversion H; subst. fold s. lia.
  Qed.
End Counts.

(* --------------------------------------- the defect repaired by 7c8d32b *)
(* total 5, weights (.08, .31, .31, .30): the rounded counts (0,2,2,2) add up
   to 6; the single correction draw hits dataset 0 (probability .08) *)
Lemma prefix_negative :
  let choice := stream_choice in
  ds_counts_prefix _ choice [[0%nat]] 5 100 [8; 31; 31; 30] = Ok ([-1; 2; 2; 2], []).
Proof. vm_compute. reflexivity. Qed.

Lemma prefix_refuted :
  exists (g : list (list nat)) mean D ws c g',
    0 <= mean /\ 0 < D /\ Forall (fun x => 0 <= x) ws /\ zsum ws = D
    /\ (forall d, In d (fst (stream_choice g ws 1%nat)) -> 0 < nth d ws 0)
    /\ ds_counts_prefix _ stream_choice g mean D ws = Ok (c, g') /\ ~ nonneg c.
Proof.
  exists [[0%nat]], 5, 100, [8; 31; 31; 30], [-1; 2; 2; 2], [].
  repeat split; try lia; try (vm_compute; reflexivity).
  - repeat constructor; lia.
  - intros d [<-|[]]. vm_compute. reflexivity.
  - intros H. inversion H as [|x l Hx _]. lia.
Qed.

(* an oracle satisfying the contract exists: always return the first index of
   positive probability *)
Fixpoint first_pos (p : list Z) : nat :=
  match p with
  | [] => O
  | a :: r => if 0 <? a then O else S (first_pos r)
  end.
Definition const_choice (g : unit) (p : list Z) (k : nat) : list nat * unit := (repeat (first_pos p) k, tt).

Lemma first_pos_ok p : Exists (fun x => 0 < x) p -> 0 < nth (first_pos p) p 0.
Proof.
  induction 1 as [a l H|a l H IH]; cbn [first_pos].
  - destruct (0 <? a) eqn:E; [cbn [nth]; assumption|apply Z.ltb_ge in E; lia].
  - destruct (0 <? a) eqn:E; [apply Z.ltb_lt in E; cbn [nth]; assumption|cbn [nth]; assumption].
Qed.

Lemma const_choice_contract : choice_contract const_choice.
Proof.
  intros g p k. unfold const_choice. cbn [fst]. split; [apply repeat_length|].
  intros _ Hex d Hin. apply repeat_spec in Hin. subst. apply first_pos_ok; assumption.
Qed.
