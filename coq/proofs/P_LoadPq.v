(* C17: the parquet loader's own logic for keep_fields = None (no column
   selection): same-schema files are concatenated and the constructor applies the
   dtype map — equal to the npy load of the same files.  Relative to the reader
   contract "pyarrow.parquet.read_table returns the table of the file". *)
From Coq Require Import ZArith List Bool Lia.
From Sky Require Import Result PyList G_load M_Load S_Load P_Load P_LoadDs P_LoadFiles P_LoadRen.
Import ListNotations.
Open Scope Z_scope.

Lemma schema_eqb_refl : forall a, schema_eqb a a = true.
Proof.
  intros a. unfold schema_eqb. rewrite Z.eqb_refl. cbn [andb].
  induction a as [|[n d] a IH]; [reflexivity|]. cbn. rewrite !Z.eqb_refl. exact IH.
Qed.

Lemma pq_concat_same : forall o rest acc,
  o_keep o = None -> (forall f, In f rest -> f_schema f = f_schema acc) ->
  pq_concat acc (map Some rest) o
  = Ok (mkFile (f_schema acc) (f_rows acc ++ concat (map f_rows rest))).
Proof.
  intros o. induction rest as [|f rest IH]; intros acc Hk Hs.
  - cbn. rewrite app_nil_r. destruct acc; reflexivity.
  - cbn [map pq_concat]. unfold pq_read, keep_given. rewrite Hk. cbn [open_file bind].
    rewrite (Hs f (or_introl eq_refl)), schema_eqb_refl.
    rewrite IH; [|exact Hk|intros g Hg; cbn [f_schema]; apply Hs; right; exact Hg].
    cbn [f_schema f_rows map concat]. rewrite <- app_assoc. reflexivity.
Qed.

Lemma dfra_init_spec : forall f o, wf_file f -> dfra_init f o = Ok (spec_load_file f o).
Proof.
  intros f o Hwf. pose proof (load_time_spec f o Hwf) as H. unfold load_file_time in H.
  destruct (dfra_init f o) as [t|e]; cbn [bind] in H; [|discriminate]. inversion H. reflexivity.
Qed.

Lemma promote_same : forall d n, fold_left promote (repeat d n) d = d.
Proof.
  intros d. induction n as [|n IH]; [reflexivity|]. cbn [repeat fold_left].
  unfold promote at 2. rewrite Z.eqb_refl. exact IH.
Qed.

Theorem parquet_equals_npy_nokeep : forall f0 rest o,
  o_keep o = None -> wf_file f0 ->
  (forall f, In f rest -> wf_file f /\ f_schema f = f_schema f0) ->
  pq_load (map Some (f0 :: rest)) o = Ok (spec_load_files f0 rest o) /\
  exists n, npy_load MTime (map Some (f0 :: rest)) o = Ok (spec_load_files f0 rest o, n).
Proof.
  intros f0 rest o Hk Hwf Hrest. split.
  - unfold pq_load. cbn [map tl].
    change (py_get (Some f0 :: map Some rest) 0) with (py_get (Some f0 :: map Some rest) (Z.of_nat 0)).
    rewrite (py_get_nth _ 0 None) by (cbn; lia). cbn [nth bind].
    unfold pq_read at 1, keep_given. rewrite Hk. cbn [open_file bind].
    rewrite (pq_concat_same o rest f0 Hk) by (intros f Hf; apply Hrest; exact Hf). cbn [bind].
    destruct Hwf as [Hnd Hrows].
    rewrite dfra_init_spec.
    2:{ split; cbn [f_schema f_rows]; [exact Hnd|]. apply Forall_app. split; [exact Hrows|].
        apply Forall_forall. intros r Hr. apply in_concat in Hr. destruct Hr as [rows [Hrows' Hin]].
        apply in_map_iff in Hrows'. destruct Hrows' as [f [Hf Hfin]]. subst rows.
        destruct (Hrest f Hfin) as [[_ Hfr] Hsch]. rewrite Forall_forall in Hfr.
        rewrite <- Hsch. apply Hfr. exact Hin. }
    f_equal. unfold spec_load_file, spec_load_files. cbn [f_schema].
    apply map_ext_in. intros [n dt] Hp. cbn [fst snd]. f_equal. f_equal.
    + (* dtype: every file converts to the same dtype *)
      replace (map (fun f => spec_dtype_in f o n) rest) with (repeat (spec_dtype o n dt) (length rest)).
      * symmetry. apply promote_same.
      * assert (Hl : alookup n (spec_kept o (f_schema f0)) = Some dt).
        { apply In_nodup_alookup; [|exact Hp]. unfold spec_kept.
          clear - Hnd. induction (f_schema f0) as [|[k v] l IH]; [constructor|].
          cbn in Hnd. inversion Hnd as [|? ? Hn Hnd']; subst. cbn [filter fst].
          destruct (spec_keeps o k); [|apply IH; exact Hnd'].
          cbn. constructor; [|apply IH; exact Hnd'].
          intros Hin. apply Hn. unfold keys in Hin. apply in_map_iff in Hin.
          destruct Hin as [[k' v'] [E Hf]]. cbn in E. subst k'. apply filter_In in Hf.
          apply (in_map fst _ _ (proj1 Hf)). }
        clear - Hrest Hl. induction rest as [|f rest IH]; [reflexivity|].
        cbn [length repeat map]. f_equal.
        -- unfold spec_dtype_in. rewrite (proj2 (Hrest f (or_introl eq_refl))), Hl. reflexivity.
        -- apply IH. intros g Hg. apply Hrest. right. exact Hg.
    + (* column: rows of file 1, then file 2, ... *)
      unfold spec_col. cbn [f_schema f_rows map concat]. rewrite map_app. f_equal.
      rewrite concat_map, map_map. f_equal. apply map_ext_in. intros f Hf.
      rewrite (proj2 (Hrest f Hf)). reflexivity.
  - apply npy_files_closed_ex; [discriminate|exact Hwf|].
    intros f Hf. destruct (Hrest f Hf) as [Hwf' Hsch]. split; [exact Hwf'|].
    intros p Hp. rewrite Hsch. apply zmem_In. apply (in_map fst _ _ Hp).
Qed.
