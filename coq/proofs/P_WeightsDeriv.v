(* Weight clauses of C02: quotient rule for f_j, differentiation rules of the PDF
   ratios, d/dns of the multi-dataset value.  (Split off P_Weights.v, which now holds
   only the C03 lemmas over M_Weights.v; this file is about M_Llh.v.) *)
From Coq Require Import Reals ZArith List Bool Lra Lia Permutation.
From Coquelicot Require Import Coquelicot.
From Sky Require Import Num NumR G_llh M_Llh S_Llh P_Llh P_LlhValue P_LlhDeriv.
Import ListNotations.
Open Scope R_scope.

Section WD.
  Variable erfR : R -> R.
  Notation Nm := (RNum erfR).

  Theorem multi_value_additive opa ns f (ds : list (R * list R)) :
    multi_value Nm opa ns f ds =
    Rsum (map (fun p => evaluate_value Nm opa (fst (snd p)) (ns * fst p) (snd (snd p)))
              (combine f ds)).
  Proof. unfold multi_value. rewrite nsum_R. reflexivity. Qed.

  (* C02.4: quotient rule for f_j; a_j(p), a(p) arbitrary differentiable *)
  Theorem f_j_quotient_rule (aj a : R -> R) (p0 daj da : R) :
    is_derive aj p0 daj -> is_derive a p0 da -> a p0 <> 0 ->
    is_derive (fun p => k_f_j Nm (aj p) (a p)) p0 (k_f_j_grad Nm daj (a p0) (aj p0) da).
  Proof.
    intros Haj Ha Hne.
    apply (is_derive_ext (fun p => aj p / a p)); [intros p; reflexivity|].
    rewrite K_f_j_grad.
    auto_derive; [repeat split; [exists daj; exact Haj|exists da; exact Ha|exact Hne]|].
    replace (Derive (fun x : R => aj x) p0) with daj
      by (symmetry; apply is_derive_unique; exact Haj).
    replace (Derive (fun x : R => a x) p0) with da
      by (symmetry; apply is_derive_unique; exact Ha).
    field. exact Hne.
  Qed.

  (* ---- PDF-ratio differentiation rules (C02.4) *)
  Theorem sob_quotient_rule (s b : R -> R) (p0 ds db : R) :
    is_derive s p0 ds -> is_derive b p0 db -> 0 < b p0 ->
    is_derive (fun p => s p / b p) p0 (sob_grad_both Nm (s p0) ds (b p0) db).
  Proof.
    intros Hs Hb Hpos. unfold sob_grad_both. rewrite K_sob_mask, K_sob_grad_both.
    unfold Rltb. destruct (Rlt_dec 0 (b p0)); [|lra].
    auto_derive; [repeat split; [exists ds; exact Hs|exists db; exact Hb|lra]|].
    replace (Derive (fun x : R => s x) p0) with ds by (symmetry; apply is_derive_unique; exact Hs).
    replace (Derive (fun x : R => b x) p0) with db by (symmetry; apply is_derive_unique; exact Hb).
    field. lra.
  Qed.

  Theorem sob_sig_rule (s : R -> R) (b p0 ds : R) :
    is_derive s p0 ds -> 0 < b ->
    is_derive (fun p => s p / b) p0 (sob_grad_sig Nm ds b).
  Proof.
    intros Hs Hpos. unfold sob_grad_sig. rewrite K_sob_mask, K_sob_grad_sig.
    unfold Rltb. destruct (Rlt_dec 0 b); [|lra].
    auto_derive; [exists ds; exact Hs|].
    replace (Derive (fun x : R => s x) p0) with ds by (symmetry; apply is_derive_unique; exact Hs).
    field. lra.
  Qed.

  Theorem sob_bkg_rule (s : R) (b : R -> R) (p0 db : R) :
    is_derive b p0 db -> 0 < b p0 ->
    is_derive (fun p => s / b p) p0 (sob_grad_bkg Nm s (b p0) db).
  Proof.
    intros Hb Hpos. unfold sob_grad_bkg. rewrite K_sob_mask, K_sob_grad_bkg.
    unfold Rltb. destruct (Rlt_dec 0 (b p0)); [|lra].
    auto_derive; [split; [exists db; exact Hb|lra]|].
    replace (Derive (fun x : R => b x) p0) with db by (symmetry; apply is_derive_unique; exact Hb).
    field. lra.
  Qed.

  (* events with zero background: constant ratio, gradient 0 *)
  Theorem sob_zero_bkg_grad s ds b db :
    ~ 0 < b ->
    sob_grad_both Nm s ds b db = 0 /\ sob_grad_sig Nm ds b = 0 /\ sob_grad_bkg Nm s b db = 0.
  Proof.
    intros H. unfold sob_grad_both, sob_grad_sig, sob_grad_bkg. rewrite K_sob_mask.
    unfold Rltb. destruct (Rlt_dec 0 b); [lra|]. repeat split.
  Qed.

  Theorem product_rule (r1 r2 : R -> R) (p0 d1 d2 : R) :
    is_derive r1 p0 d1 -> is_derive r2 p0 d2 ->
    is_derive (fun p => prod_ratio Nm (r1 p) (r2 p)) p0
              (prod_grad_both Nm (r1 p0) (r2 p0) d1 d2).
  Proof.
    intros H1 H2. unfold prod_grad_both. rewrite K_prod_grad_both.
    apply (is_derive_ext (fun p => r1 p * r2 p)); [intros p; reflexivity|].
    auto_derive; [split; [exists d1; exact H1|split; [exists d2; exact H2|trivial]]|].
    replace (Derive (fun x : R => r1 x) p0) with d1 by (symmetry; apply is_derive_unique; exact H1).
    replace (Derive (fun x : R => r2 x) p0) with d2 by (symmetry; apply is_derive_unique; exact H2).
    ring.
  Qed.

  (* C02.5: d/dns of the multi-dataset value *)
  Lemma multi_grad_ns_sum opa ns f (ds : list (R * list R)) :
    multi_grad_ns Nm opa ns f ds =
    Rsum (map (fun p => evaluate_grad_ns Nm opa (fst (snd p)) (ns * fst p) (snd (snd p)) * fst p)
              (combine f ds)).
  Proof.
    unfold multi_grad_ns.
    generalize (combine f ds). intros l.
    assert (G : forall acc,
      fold_left (fun acc0 p => k_multi_grad_ns Nm acc0
          (evaluate_grad_ns Nm opa (fst (snd p)) (k_nsf Nm ns (fst p)) (snd (snd p))) (fst p)) l acc
      = acc + Rsum (map (fun p => evaluate_grad_ns Nm opa (fst (snd p)) (ns * fst p) (snd (snd p)) * fst p) l)).
    { induction l as [|p l IH]; intros acc; cbn [fold_left map]; [cbn; lra|].
      rewrite IH, K_multi_grad_ns, K_nsf. unfold Rsum. cbn [fold_right]. lra. }
    rewrite G. cbn [nzero RNum]. lra.
  Qed.

  Theorem multi_value_ns_derive opa ns f (ds : list (R * list R)) :
    0 < opa ->
    List.Forall (fun p => fst (snd p) <> 0 /\ 0 < 1 - ns * fst p / fst (snd p)
                     /\ List.Forall (fun r => ns * fst p * Xof (fst (snd p)) r <> opa - 1) (snd (snd p)))
           (combine f ds) ->
    is_derive (fun t => multi_value Nm opa t f ds) ns (multi_grad_ns Nm opa ns f ds).
  Proof.
    intros Hopa H. rewrite multi_grad_ns_sum.
    apply (is_derive_ext
             (fun t => Rsum (map (fun g => g t)
                (map (fun p => fun t => evaluate_value Nm opa (fst (snd p)) (t * fst p) (snd (snd p)))
                     (combine f ds))))).
    { intros t. rewrite multi_value_additive, map_map. reflexivity. }
    apply Rsum_derive.
    induction H as [|p l (HN & Hpos & Hthr) _ IH]; cbn [map]; constructor; [|exact IH].
    (* chain rule through t |-> t * f_j *)
    replace (evaluate_grad_ns Nm opa (fst (snd p)) (ns * fst p) (snd (snd p)) * fst p)
      with (scal (fst p) (evaluate_grad_ns Nm opa (fst (snd p)) (ns * fst p) (snd (snd p))))
      by (unfold scal; cbn; unfold mult; cbn; ring).
    apply (is_derive_comp (fun u => evaluate_value Nm opa (fst (snd p)) u (snd (snd p)))
                          (fun t => t * fst p) ns
                          (evaluate_grad_ns Nm opa (fst (snd p)) (ns * fst p) (snd (snd p)))
                          (fst p)).
    - apply value_ns_derive; assumption.
    - auto_derive; [trivial|]. ring.
  Qed.
End WD.
