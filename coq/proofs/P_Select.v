(* C05 — proofs about the discrete model of the event selection methods
   (model/M_Select.v) against the specification spec/S_Select.v. *)
From Coq Require Import ZArith List Bool Lia Sorting.Sorted Permutation.
From Sky Require Import Result PyList G_select M_Select S_Select.
Import ListNotations.
Local Open Scope nat_scope.

(* ------------------------------------------------------------------ *)
(* Characterising lemmas of the regenerated integer / boolean kernels.
   All later proofs use these, never the generated text.               *)

Lemma K_csm_row i : csm_row i = i. Proof. reflexivity. Qed.
Lemma K_csm_col i : csm_col i = i. Proof. reflexivity. Qed.
Lemma K_db_mask_inc a b : db_mask_inc a b = a && b. Proof. reflexivity. Qed.
Lemma K_rb_mask_inc a b : rb_mask_inc a b = a && b. Proof. reflexivity. Qed.
Lemma K_sb_mask_inc a b : sb_mask_inc a b = a && b. Proof. reflexivity. Qed.
Lemma K_sb_mask_sky a b : sb_mask_sky a b = a && b. Proof. reflexivity. Qed.
Lemma K_sb_batch_size : (0 < sb_batch_size)%Z. Proof. reflexivity. Qed.
Lemma K_sb_n_batches n bs : (0 < bs)%Z ->
  ((sb_n_batches n bs - 1) * bs < n <= sb_n_batches n bs * bs)%Z.
Proof.
  intros H. unfold sb_n_batches.
  Ltac Zify.zify_post_hook ::= Z.to_euclidean_division_equations.
  nia.
Qed.
Ltac Zify.zify_post_hook ::= idtac.
Lemma K_sb_is_last bi nb : sb_is_last bi nb = (bi =? nb - 1)%Z. Proof. reflexivity. Qed.
Lemma K_sb_lo bi bs : sb_lo bi bs = (bi * bs)%Z /\ sb_lo_last bi bs = (bi * bs)%Z.
Proof. split; reflexivity. Qed.
Lemma K_sb_hi bi bs : sb_hi bi bs = ((bi + 1) * bs)%Z. Proof. reflexivity. Qed.
Lemma K_ae_idx i : ae_ra1_idx0 i = i /\ ae_dec1_idx0 i = i /\ ae_ra2_idx0 i = i /\ ae_dec2_idx0 i = i.
Proof. repeat split; reflexivity. Qed.
Lemma K_ae_val i v : ae_ra1 i v = v /\ ae_dec1 i v = v /\ ae_ra2 i v = v /\ ae_dec2 i v = v.
Proof. repeat split; reflexivity. Qed.
Lemma K_ix_org i v : ix_org i v = v /\ ix_org_idx0 i = i. Proof. split; reflexivity. Qed.
Lemma K_tdm_inv_pos i : tdm_inv_pos i = i. Proof. reflexivity. Qed.
Lemma K_pf_ns_bad n : pf_ns_bad n = negb (n =? 1)%Z. Proof. reflexivity. Qed.
Lemma K_ix_shape : ix_shape = true. Proof. reflexivity. Qed.
Lemma K_tdm_src_keep v : tdm_src_keep v = v /\ tdm_src_keep_idx0 = 0%Z. Proof. split; reflexivity. Qed.
Lemma K_tdm_new_evt v : tdm_new_evt v = v. Proof. reflexivity. Qed.

(* ------------------------------------------------------------------ *)
(* Lists                                                               *)

Lemma map_seq_nth {A B} (f : A -> B) (g : nat -> B) (l : list A) a :
  (forall i x, nth_error l i = Some x -> f x = g (a + i)) ->
  map f l = map g (seq a (length l)).
Proof.
  revert a; induction l as [|x l IH]; intros a H; cbn [map length seq]; [reflexivity|].
  f_equal.
  - rewrite (H 0 x eq_refl). f_equal; lia.
  - apply IH. intros i y Hy. rewrite (H (S i) y Hy). f_equal; lia.
Qed.

Lemma where_from_filter g a n :
  where_from a (map g (seq a n)) = filter g (seq a n).
Proof.
  revert a; induction n as [|n IH]; intros a; cbn [seq map where_from filter]; [reflexivity|].
  rewrite IH. destruct (g a); reflexivity.
Qed.

Lemma map2_map {A B C D} (f : B -> C -> D) (g : A -> B) (h : A -> C) l :
  map2 f (map g l) (map h l) = map (fun x => f (g x) (h x)) l.
Proof. induction l as [|x l IH]; cbn [map map2]; [reflexivity|]. now rewrite IH. Qed.

Lemma repeat_map_seq {A} (x : A) a n : repeat x n = map (fun _ => x) (seq a n).
Proof. revert a; induction n as [|n IH]; intros a; cbn [repeat seq map]; [reflexivity|]. now rewrite (IH (S a)). Qed.

Lemma any0_rows (f : nat -> nat -> bool) ne l :
  any0 ne (map (fun k => map (f k) (seq 0 ne)) l)
  = map (fun j => existsb (fun k => f k j) l) (seq 0 ne).
Proof.
  induction l as [|k l IH]; cbn [any0 map existsb].
  - apply repeat_map_seq.
  - rewrite IH, map2_map. reflexivity.
Qed.

Lemma mask_select_map {A B} (h : A -> B) (g : A -> bool) l :
  mask_select (map h l) (map g l) = map h (filter g l).
Proof.
  induction l as [|x l IH]; cbn [map mask_select filter]; [reflexivity|].
  destruct (g x); cbn [map]; now rewrite IH.
Qed.

Lemma argwhere_rows (R : nat -> list bool) a n :
  argwhere_from a (map R (seq a n))
  = flat_map (fun k => map (pair k) (where_from 0 (R k))) (seq a n).
Proof.
  revert a; induction n as [|n IH]; intros a; cbn [seq map argwhere_from flat_map]; [reflexivity|].
  now rewrite IH.
Qed.

Lemma where_from_combine {A} (h : A -> bool) (k : nat) l a :
  map (pair k) (where_from a (map h l))
  = flat_map (fun p => if h (snd p) then [(k, fst p)] else [])
             (combine (seq a (length l)) l).
Proof.
  revert a; induction l as [|x l IH]; intros a; cbn [map where_from length seq combine flat_map]; [reflexivity|].
  cbn [snd fst]. destruct (h x); cbn [map app]; now rewrite IH.
Qed.

Lemma select_core_tab f ns ne :
  select_core ne (tab ns ne f)
  = (spec_orig f ns ne, spec_pairs f ns (spec_orig f ns ne)).
Proof.
  unfold select_core, tab. rewrite any0_rows, where_from_filter.
  fold (spec_orig f ns ne). f_equal.
  unfold cols. rewrite map_map.
  erewrite map_ext; [| intro k; apply mask_select_map].
  fold (spec_orig f ns ne).
  rewrite (argwhere_rows (fun k => map (f k) (spec_orig f ns ne))).
  unfold spec_pairs. apply flat_map_ext; intro k. apply where_from_combine.
Qed.

Lemma tab_ext ns ne f g :
  (forall k j, k < ns -> j < ne -> f k j = g k j) -> tab ns ne f = tab ns ne g.
Proof.
  intros H. unfold tab. apply map_ext_in; intros k Hk. apply in_seq in Hk.
  apply map_ext_in; intros j Hj. apply in_seq in Hj. apply H; lia.
Qed.

Lemma mat_tab {S E} (c : S -> E -> bool) srcs evs :
  mat c srcs evs = tab (length srcs) (length evs) (cidx c srcs evs).
Proof.
  unfold mat, tab.
  apply (map_seq_nth (fun s => map (c s) evs)
                     (fun k => map (cidx c srcs evs k) (seq 0 (length evs))) srcs 0).
  intros k s Hs. cbn [Nat.add].
  apply (map_seq_nth (c s) (cidx c srcs evs k) evs 0).
  intros j e He. cbn [Nat.add]. unfold cidx. now rewrite Hs, He.
Qed.

Lemma map2_tab f g h ns ne :
  map2 (map2 f) (tab ns ne g) (tab ns ne h) = tab ns ne (fun k j => f (g k j) (h k j)).
Proof.
  unfold tab. rewrite map2_map. apply map_ext; intro k. apply map2_map.
Qed.

(* ------------------------------------------------------------------ *)
(* Sortedness                                                          *)

Lemma SS_app {A} (R : A -> A -> Prop) l1 l2 :
  StronglySorted R l1 -> StronglySorted R l2 ->
  (forall x y, In x l1 -> In y l2 -> R x y) -> StronglySorted R (l1 ++ l2).
Proof.
  induction l1 as [|a l1 IH]; intros S1 S2 H; cbn [app]; [assumption|].
  inversion S1 as [|? ? S1' F1]; subst. constructor.
  - apply IH; [assumption|assumption|]. intros x y Hx Hy; apply H; [now right|assumption].
  - apply Forall_app; split; [assumption|].
    apply Forall_forall; intros y Hy. apply H; [now left|assumption].
Qed.

Lemma SS_filter {A} (R : A -> A -> Prop) g l :
  StronglySorted R l -> StronglySorted R (filter g l).
Proof.
  induction 1 as [|a l S IH F]; cbn [filter]; [constructor|].
  destruct (g a); [|assumption]. constructor; [assumption|].
  apply Forall_forall; intros y Hy. apply filter_In in Hy.
  rewrite Forall_forall in F. now apply F.
Qed.

Lemma SS_seq a n : StronglySorted lt (seq a n).
Proof.
  revert a; induction n as [|n IH]; intros a; cbn [seq]; constructor; [apply IH|].
  apply Forall_forall; intros y Hy. apply in_seq in Hy. lia.
Qed.

Lemma SS_map {A B} (R : A -> A -> Prop) (R' : B -> B -> Prop) (f : A -> B) l :
  (forall x y, R x y -> R' (f x) (f y)) ->
  StronglySorted R l -> StronglySorted R' (map f l).
Proof.
  intros H. induction 1 as [|a l S IH F]; cbn [map]; constructor; [assumption|].
  apply Forall_forall; intros y Hy. apply in_map_iff in Hy as (x & <- & Hx).
  rewrite Forall_forall in F. apply H. now apply F.
Qed.

(* two lists sorted by a strict order with the same members are equal *)
Lemma SS_unique {A} (R : A -> A -> Prop) :
  (forall x, ~ R x x) -> (forall x y z, R x y -> R y z -> R x z) ->
  forall l1 l2, StronglySorted R l1 -> StronglySorted R l2 ->
  (forall x, In x l1 <-> In x l2) -> l1 = l2.
Proof.
  intros irr tr. induction l1 as [|a l1 IH]; intros l2 S1 S2 H.
  - destruct l2 as [|b l2]; [reflexivity|]. exfalso. apply (proj2 (H b)). now left.
  - destruct l2 as [|b l2]; [exfalso; apply (proj1 (H a)); now left|].
    inversion S1 as [|? ? S1' F1]; subst. inversion S2 as [|? ? S2' F2]; subst.
    rewrite Forall_forall in F1, F2.
    assert (a = b) as ->.
    { destruct (proj1 (H a) (or_introl eq_refl)) as [E|Ha]; [now symmetry|].
      destruct (proj2 (H b) (or_introl eq_refl)) as [E|Hb]; [assumption|].
      exfalso. apply (irr a). apply tr with b; [now apply F1 | now apply F2]. }
    f_equal. apply IH; [assumption|assumption|]. intros x; split; intros Hx.
    + destruct (proj1 (H x) (or_intror Hx)) as [E|Hx']; [|assumption].
      subst x. exfalso. apply (irr b). now apply F1.
    + destruct (proj2 (H x) (or_intror Hx)) as [E|Hx']; [|assumption].
      subst x. exfalso. apply (irr b). now apply F2.
Qed.

Definition lexlt_n (p q : nat * nat) : Prop :=
  fst p < fst q \/ (fst p = fst q /\ snd p < snd q).

Lemma lexlt_zz p q : lexlt_n p q -> lexlt (zz p) (zz q).
Proof. unfold lexlt_n, lexlt, zz; cbn [fst snd]. lia. Qed.
Lemma lexlt_irr p : ~ lexlt p p.
Proof. unfold lexlt. lia. Qed.
Lemma lexlt_tr p q r : lexlt p q -> lexlt q r -> lexlt p r.
Proof. unfold lexlt. lia. Qed.

(* ------------------------------------------------------------------ *)
(* The specification lists: membership, order, extensionality          *)

Lemma spec_orig_In ci ns ne j :
  In j (spec_orig ci ns ne) <-> j < ne /\ exists k, k < ns /\ ci k j = true.
Proof.
  unfold spec_orig. rewrite filter_In, in_seq, existsb_exists. split.
  - intros (H & k & Hk & Hc). apply in_seq in Hk. split; [lia|]. exists k. split; [lia|assumption].
  - intros (H & k & Hk & Hc). split; [lia|]. exists k. split; [apply in_seq; lia|assumption].
Qed.

Lemma spec_orig_sorted ci ns ne : StronglySorted lt (spec_orig ci ns ne).
Proof. unfold spec_orig. apply SS_filter, SS_seq. Qed.

Lemma spec_orig_lt ci ns ne : Forall (fun j => j < ne) (spec_orig ci ns ne).
Proof. apply Forall_forall; intros j Hj. now apply spec_orig_In in Hj. Qed.

Lemma spec_orig_ext ci ci' ns ne :
  (forall k j, k < ns -> j < ne -> ci k j = ci' k j) ->
  spec_orig ci ns ne = spec_orig ci' ns ne.
Proof.
  intros H. unfold spec_orig. apply filter_ext_in; intros j Hj. apply in_seq in Hj.
  apply eq_true_iff_eq. rewrite !existsb_exists.
  split; intros (k & Hk & Hc); exists k; (split; [assumption|]); apply in_seq in Hk;
    [rewrite <- H by lia | rewrite H by lia]; assumption.
Qed.

Lemma in_combine_seq {A} (l : list A) a b x :
  In (b, x) (combine (seq a (length l)) l) <-> a <= b /\ nth_error l (b - a) = Some x.
Proof.
  revert a; induction l as [|y l IH]; intros a; cbn [length seq combine In].
  - split; [tauto|]. intros (_ & H). destruct (b - a); discriminate.
  - rewrite IH. split.
    + intros [E | (H1 & H2)].
      * inversion E; subst. split; [lia|]. now rewrite Nat.sub_diag.
      * split; [lia|]. replace (b - a) with (S (b - S a)) by lia. assumption.
    + intros (H1 & H2). destruct (Nat.eq_dec a b) as [->|Hne].
      * left. rewrite Nat.sub_diag in H2. cbn in H2. now inversion H2.
      * right. split; [lia|]. replace (b - a) with (S (b - S a)) in H2 by lia. assumption.
Qed.

Definition pblock (ci : nat -> nat -> bool) (k a : nat) (l : list nat) : list (nat * nat) :=
  flat_map (fun p => if ci k (snd p) then [(k, fst p)] else []) (combine (seq a (length l)) l).

Lemma pblock_In ci k a l q :
  In q (pblock ci k a l) <->
  fst q = k /\ a <= snd q /\ exists j, nth_error l (snd q - a) = Some j /\ ci k j = true.
Proof.
  unfold pblock. rewrite in_flat_map. split.
  - intros ((b, j) & Hin & Hq). cbn [fst snd] in Hq. apply in_combine_seq in Hin as (H1 & H2).
    destruct (ci k j) eqn:Hc; [|contradiction]. destruct Hq as [<-|[]]. cbn [fst snd].
    split; [reflexivity|]. split; [assumption|]. now exists j.
  - intros (H1 & H2 & j & Hj & Hc). exists (snd q, j). split.
    + apply in_combine_seq. now split.
    + cbn [fst snd]. rewrite Hc. left. destruct q; cbn [fst snd] in *. now subst.
Qed.

Lemma pblock_sorted ci k a l : StronglySorted lexlt_n (pblock ci k a l).
Proof.
  revert a; induction l as [|x l IH]; intros a; [constructor|].
  unfold pblock. cbn [length seq combine flat_map]. fold (pblock ci k (S a) l).
  cbn [snd fst]. destruct (ci k x); cbn [app]; [|apply IH].
  constructor; [apply IH|]. apply Forall_forall; intros q Hq.
  apply pblock_In in Hq as (H1 & H2 & _). unfold lexlt_n; cbn [fst snd]. lia.
Qed.

Lemma spec_pairs_blocks ci ns orig :
  spec_pairs ci ns orig = flat_map (fun k => pblock ci k 0 orig) (seq 0 ns).
Proof. reflexivity. Qed.

Lemma blocks_In ci orig a n q :
  In q (flat_map (fun k => pblock ci k 0 orig) (seq a n)) <->
  a <= fst q < a + n /\ exists j, nth_error orig (snd q) = Some j /\ ci (fst q) j = true.
Proof.
  rewrite in_flat_map. split.
  - intros (k & Hk & Hq). apply in_seq in Hk. apply pblock_In in Hq as (H1 & _ & j & Hj & Hc).
    rewrite Nat.sub_0_r in Hj. subst k. split; [lia|]. now exists j.
  - intros (H & j & Hj & Hc). exists (fst q). split; [apply in_seq; lia|].
    apply pblock_In. split; [reflexivity|]. split; [lia|]. exists j. now rewrite Nat.sub_0_r.
Qed.

Lemma spec_pairs_In ci ns orig k b :
  In (k, b) (spec_pairs ci ns orig) <->
  k < ns /\ exists j, nth_error orig b = Some j /\ ci k j = true.
Proof.
  rewrite spec_pairs_blocks, blocks_In. cbn [fst snd]. split; intros (H & R); (split; [lia|exact R]).
Qed.

Lemma blocks_sorted ci orig a n :
  StronglySorted lexlt_n (flat_map (fun k => pblock ci k 0 orig) (seq a n)).
Proof.
  revert a; induction n as [|n IH]; intros a; cbn [seq flat_map]; [constructor|].
  apply SS_app; [apply pblock_sorted|apply IH|].
  intros x y Hx Hy. apply pblock_In in Hx as (H1 & _). apply blocks_In in Hy as (H2 & _).
  unfold lexlt_n. lia.
Qed.

Lemma spec_pairs_sorted ci ns orig : StronglySorted lexlt (map zz (spec_pairs ci ns orig)).
Proof.
  apply SS_map with (R := lexlt_n); [apply lexlt_zz|]. rewrite spec_pairs_blocks. apply blocks_sorted.
Qed.

Lemma in_map_zz k b l : In (Z.of_nat k, Z.of_nat b) (map zz l) <-> In (k, b) l.
Proof.
  rewrite in_map_iff. split.
  - intros ((k', b') & E & H). unfold zz in E; cbn [fst snd] in E. inversion E.
    apply Nat2Z.inj in H1, H2. now subst.
  - intros H. exists (k, b). now split.
Qed.

(* the pair list only depends on the criterion values at the listed events *)
Lemma pblock_ext2 ci ci' k a l l' :
  Forall2 (fun j j' => ci k j = ci' k j') l l' ->
  pblock ci k a l = pblock ci' k a l'.
Proof.
  intros F. revert a. induction F as [|j j' l l' H F IH]; intros a; [reflexivity|].
  unfold pblock. cbn [length seq combine flat_map]. fold (pblock ci k (S a) l) (pblock ci' k (S a) l').
  cbn [snd fst]. now rewrite H, IH.
Qed.

Lemma F2_impl {A B} (P Q : A -> B -> Prop) l l' :
  (forall x y, P x y -> Q x y) -> Forall2 P l l' -> Forall2 Q l l'.
Proof. intros H. induction 1; constructor; auto. Qed.

Lemma spec_pairs_ext2 ci ci' ns l l' :
  Forall2 (fun j j' => forall k, k < ns -> ci k j = ci' k j') l l' ->
  spec_pairs ci ns l = spec_pairs ci' ns l'.
Proof.
  intros F. rewrite !spec_pairs_blocks.
  assert (G : forall k, In k (seq 0 ns) -> pblock ci k 0 l = pblock ci' k 0 l').
  { intros k Hk. apply in_seq in Hk. apply pblock_ext2.
    eapply F2_impl; [|exact F]. cbn. intros j j' H. apply H. lia. }
  revert G. generalize (seq 0 ns). intros ks. induction ks as [|k ks IH]; intros G; cbn [flat_map]; [reflexivity|].
  rewrite G by now left. f_equal. apply IH. intros k' Hk'. apply G. now right.
Qed.

Lemma Forall2_same {A} (P : A -> A -> Prop) l : Forall (fun x => P x x) l -> Forall2 P l l.
Proof. induction 1; constructor; assumption. Qed.

Lemma spec_pairs_ext ci ci' ns ne l :
  Forall (fun j => j < ne) l ->
  (forall k j, k < ns -> j < ne -> ci k j = ci' k j) ->
  spec_pairs ci ns l = spec_pairs ci' ns l.
Proof.
  intros F H. apply spec_pairs_ext2. apply Forall2_same.
  eapply Forall_impl; [|exact F]. cbn. intros j Hj k Hk. now apply H.
Qed.

(* ------------------------------------------------------------------ *)
(* finish                                                              *)

Lemma take_nat_ok {A} (l : list A) idx :
  Forall (fun i => i < length l) idx ->
  exists out, take_nat l idx = Ok out /\ Forall2 (fun e j => nth_error l j = Some e) out idx.
Proof.
  induction 1 as [|i idx Hi F IH].
  - exists []. split; [reflexivity|constructor].
  - destruct IH as (out & E & F2). unfold take_nat in *. cbn [mapM].
    destruct (nth_error l i) as [x|] eqn:Ex; [|apply nth_error_None in Ex; lia].
    cbn [bind]. rewrite E. cbn [bind]. exists (x :: out). split; [reflexivity|]. now constructor.
Qed.

Definition evs_at {E} (evs : list E) (ev' : list E) (orig : list nat) : Prop :=
  Forall2 (fun e j => nth_error evs j = Some e) ev' orig.

Lemma finish_tab {E} (evs : list E) ns f :
  exists ev',
    finish evs (tab ns (length evs) f)
    = Ok {| s_events := ev';
            s_tbl := map zz (spec_pairs f ns (spec_orig f ns (length evs)));
            s_orig := map Z.of_nat (spec_orig f ns (length evs)) |}
    /\ evs_at evs ev' (spec_orig f ns (length evs)).
Proof.
  unfold finish. rewrite select_core_tab.
  destruct (take_nat_ok evs (spec_orig f ns (length evs)) (spec_orig_lt _ _ _)) as (ev' & E1 & F).
  exists ev'. rewrite E1. cbn [bind]. split; [reflexivity|exact F].
Qed.

(* ------------------------------------------------------------------ *)
(* SpatialBox: filling mask_ra in batches of bs sources equals the
   unbatched broadcast, for every number of sources and every bs > 0   *)

Lemma py_norm_idx_in n i : (0 <= i <= n)%Z -> py_norm_idx n i = i.
Proof. intros H. unfold py_norm_idx. destruct (Z.ltb_spec i 0); lia. Qed.

Lemma set_rows_nat (acc new : bmat) a b :
  a <= b -> b <= length acc -> length new = b - a ->
  set_rows acc (Z.of_nat a) (Z.of_nat b) new = Ok (firstn a acc ++ new ++ skipn b acc).
Proof.
  intros H1 H2 H3. unfold set_rows, zlen.
  rewrite !py_norm_idx_in by lia.
  replace (Z.of_nat (length new) =? Z.max 0 (Z.of_nat b - Z.of_nat a))%Z with true
    by (symmetry; apply Z.eqb_eq; lia).
  cbn [negb]. rewrite Nat2Z.id.
  replace (Z.to_nat (Z.of_nat a + Z.of_nat (length new))) with b by lia. reflexivity.
Qed.

Lemma py_slice_nat {A} (l : list A) a b : a <= b -> b <= length l ->
  py_slice l (Z.of_nat a) (Z.of_nat b) = firstn (b - a) (skipn a l).
Proof.
  intros H1 H2. unfold py_slice, zlen. rewrite !py_norm_idx_in by lia.
  rewrite Nat2Z.id. f_equal. lia.
Qed.

Lemma firstn_plus {A} (l : list A) i d : firstn (i + d) l = firstn i l ++ firstn d (skipn i l).
Proof.
  revert l; induction i as [|i IH]; intros l; [reflexivity|].
  destruct l as [|x l]; cbn [Nat.add firstn skipn app].
  - now rewrite firstn_nil.
  - now rewrite IH.
Qed.

Lemma firstn_app_exact {A} (a b : list A) i : length a = i -> firstn i (a ++ b) = a.
Proof.
  intros <-. rewrite firstn_app, Nat.sub_diag, firstn_all. cbn [firstn]. apply app_nil_r.
Qed.

Lemma skipn_app_exact {A} (a b : list A) i d : length a = i -> skipn (i + d) (a ++ b) = skipn d b.
Proof.
  intros <-. rewrite skipn_app. rewrite skipn_all2 by lia. cbn [app]. f_equal. lia.
Qed.

Lemma skipn_repeat {A} (z : A) m d : skipn d (repeat z m) = repeat z (m - d).
Proof.
  revert d; induction m as [|m IH]; intros d; cbn [repeat].
  - now rewrite skipn_nil.
  - destruct d as [|d]; cbn [skipn Nat.sub repeat]; [reflexivity|apply IH].
Qed.

Section Batching.
  Variable S : Type.
  Variable rowf : S -> list bool.
  Variable srcs : list S.
  Variable ne : nat.

  Let n := length srcs.
  Let z := repeat false ne.
  Definition brows (i : nat) : bmat := map rowf (firstn i srcs) ++ repeat z (n - i).

  Lemma brows_len i : i <= n -> length (brows i) = n.
  Proof.
    intros H. unfold brows. rewrite app_length, map_length, firstn_length, repeat_length.
    fold n. lia.
  Qed.

  Lemma brows_step i i' : i <= i' -> i' <= n ->
    set_rows (brows i) (Z.of_nat i) (Z.of_nat i')
             (map rowf (py_slice srcs (Z.of_nat i) (Z.of_nat i'))) = Ok (brows i').
  Proof.
    intros H1 H2. rewrite py_slice_nat by (fold n; lia).
    assert (L : length (map rowf (firstn i srcs)) = i)
      by (rewrite map_length, firstn_length; fold n; lia).
    rewrite set_rows_nat; [|lia|rewrite brows_len; lia|].
    2:{ rewrite map_length, firstn_length, skipn_length. fold n. lia. }
    f_equal. unfold brows at 1 2.
    rewrite firstn_app_exact by exact L.
    replace i' with (i + (i' - i)) at 2 by lia.
    rewrite skipn_app_exact by exact L. rewrite skipn_repeat.
    unfold brows. replace i' with (i + (i' - i)) at 3 by lia.
    rewrite firstn_plus, map_app, <- app_assoc. do 3 f_equal. lia.
  Qed.

  Variable bs : Z.
  Hypothesis bs_pos : (0 < bs)%Z.
  Let bsn := Z.to_nat bs.
  Let nb := sb_n_batches (Z.of_nat n) bs.

  Definition bstep (acc : res bmat) (bi : Z) : res bmat :=
    do a <- acc; batch_step bs nb rowf srcs a bi.

  Lemma bstep_mid i : (Z.of_nat i < nb - 1)%Z ->
    bstep (Ok (brows (i * bsn))) (Z.of_nat i) = Ok (brows ((i + 1) * bsn)).
  Proof.
    intros H. pose proof (K_sb_n_batches (Z.of_nat n) bs bs_pos) as K. fold nb in K.
    assert (Hb : bs = Z.of_nat bsn) by (unfold bsn; lia).
    assert (Hle : (i + 1) * bsn <= n) by nia.
    unfold bstep, batch_step. cbn [bind]. rewrite K_sb_is_last.
    destruct (Z.eqb_spec (Z.of_nat i) (nb - 1)) as [E|_]; [lia|].
    rewrite (proj1 (K_sb_lo _ _)), K_sb_hi.
    replace (Z.of_nat i * bs)%Z with (Z.of_nat (i * bsn)) by nia.
    replace ((Z.of_nat i + 1) * bs)%Z with (Z.of_nat ((i + 1) * bsn)) by nia.
    apply brows_step; nia.
  Qed.

  Lemma bstep_last i : (Z.of_nat i = nb - 1)%Z ->
    bstep (Ok (brows (i * bsn))) (Z.of_nat i) = Ok (brows n).
  Proof.
    intros H. pose proof (K_sb_n_batches (Z.of_nat n) bs bs_pos) as K. fold nb in K.
    assert (Hb : bs = Z.of_nat bsn) by (unfold bsn; lia).
    unfold bstep, batch_step. cbn [bind]. rewrite K_sb_is_last.
    destruct (Z.eqb_spec (Z.of_nat i) (nb - 1)) as [_|E]; [|lia].
    rewrite (proj2 (K_sb_lo _ _)). unfold zlen. fold n.
    replace (Z.of_nat i * bs)%Z with (Z.of_nat (i * bsn)) by nia.
    apply brows_step; nia.
  Qed.

  Lemma bfold_prefix i : (Z.of_nat i <= nb - 1)%Z ->
    fold_left bstep (map Z.of_nat (seq 0 i)) (Ok (brows 0)) = Ok (brows (i * bsn)).
  Proof.
    induction i as [|i IH]; intros H; [reflexivity|].
    rewrite seq_S, map_app, fold_left_app, IH by lia. cbn [Nat.add map fold_left].
    rewrite bstep_mid by lia. do 2 f_equal. lia.
  Qed.

  Lemma fill_batches_spec : fill_batches bs rowf srcs ne = Ok (map rowf srcs).
  Proof.
    pose proof (K_sb_n_batches (Z.of_nat n) bs bs_pos) as K. fold nb in K.
    unfold fill_batches. unfold zlen. fold n nb z bstep.
    replace (repeat z n) with (brows 0)
      by (unfold brows; cbn [firstn map app]; now rewrite Nat.sub_0_r).
    destruct (Nat.eq_dec n 0) as [E0|Hn].
    - assert (nb = 0%Z) as -> by nia. cbn [Z.to_nat seq map fold_left].
      unfold brows. rewrite E0. cbn [Nat.sub repeat firstn map app].
      unfold n in E0. apply length_zero_iff_nil in E0. now rewrite E0.
    - assert (Hnb : (1 <= nb)%Z) by nia.
      replace (Z.to_nat nb) with (Datatypes.S (Z.to_nat (nb - 1))) by lia.
      rewrite seq_S, map_app, fold_left_app, bfold_prefix by lia.
      cbn [Nat.add map fold_left]. rewrite bstep_last by lia.
      f_equal. unfold brows. rewrite Nat.sub_diag. cbn [repeat]. rewrite app_nil_r.
      unfold n. now rewrite firstn_all.
  Qed.
End Batching.

(* ------------------------------------------------------------------ *)
(* The incoming pair table                                             *)

Lemma wrap_nat n i : i < n -> wrap n (Z.of_nat i) = Ok i.
Proof.
  intros H. unfold wrap.
  destruct ((Z.of_nat i <? - Z.of_nat n)%Z || (Z.of_nat n <=? Z.of_nat i)%Z) eqn:E.
  - apply orb_true_iff in E as [E|E]; [apply Z.ltb_lt in E | apply Z.leb_le in E]; lia.
  - destruct (Z.ltb_spec (Z.of_nat i) 0); [lia|]. now rewrite Nat2Z.id.
Qed.

Lemma wrap_Z n i : (0 <= i < Z.of_nat n)%Z -> wrap n i = Ok (Z.to_nat i).
Proof. intros H. rewrite <- (Z2Nat.id i) at 1 by lia. apply wrap_nat. lia. Qed.

Lemma mapM_ok {A B} (f : A -> res B) (g : A -> B) l :
  (forall x, In x l -> f x = Ok (g x)) -> mapM f l = Ok (map g l).
Proof.
  induction l as [|x l IH]; intros H; [reflexivity|].
  cbn [mapM map]. rewrite H by now left. cbn [bind]. rewrite IH; [reflexivity|].
  intros y Hy. apply H. now right.
Qed.

Lemma existsb_ext_in {A} (f g : A -> bool) l :
  (forall x, In x l -> f x = g x) -> existsb f l = existsb g l.
Proof.
  induction l as [|x l IH]; intros H; [reflexivity|]. cbn [existsb].
  rewrite H by now left. rewrite IH; [reflexivity|]. intros y Hy. apply H. now right.
Qed.

Lemma existsb_map {A B} (f : B -> bool) (g : A -> B) l :
  existsb f (map g l) = existsb (fun x => f (g x)) l.
Proof. induction l as [|x l IH]; [reflexivity|]. cbn [map existsb]. now rewrite IH. Qed.

Definition tbl_rng (ns ne : nat) (t : tbl) : Prop :=
  forall p, In p t -> (0 <= fst p < Z.of_nat ns)%Z /\ (0 <= snd p < Z.of_nat ne)%Z.

Lemma inc_has_In t k j : inc_has (Some t) k j = true <-> In (Z.of_nat k, Z.of_nat j) t.
Proof.
  cbn [inc_has]. rewrite existsb_exists. split.
  - intros ((a, b) & Hin & H). cbn [fst snd] in H. apply andb_true_iff in H as (H1 & H2).
    apply Z.eqb_eq in H1, H2. now subst.
  - intros H. exists (Z.of_nat k, Z.of_nat j). split; [assumption|]. cbn [fst snd].
    now rewrite !Z.eqb_refl.
Qed.

Lemma tbl_mask_ok ns ne t :
  tbl_rng ns ne t -> tbl_mask ns ne t = Ok (tab ns ne (inc_has (Some t))).
Proof.
  intros R. unfold tbl_mask.
  rewrite (mapM_ok _ (fun p => (Z.to_nat (fst p), Z.to_nat (snd p)))).
  2:{ intros p Hp. destruct (R p Hp) as (R1 & R2). rewrite K_csm_row, K_csm_col.
      rewrite !wrap_Z by assumption. reflexivity. }
  cbn [bind]. f_equal. apply tab_ext. intros k j Hk Hj. cbn [inc_has].
  rewrite existsb_map. apply existsb_ext_in. intros p Hp. destruct (R p Hp) as (R1 & R2).
  cbn [fst snd]. f_equal.
  - destruct (Nat.eqb_spec (Z.to_nat (fst p)) k), (Z.eqb_spec (fst p) (Z.of_nat k)); try reflexivity; lia.
  - destruct (Nat.eqb_spec (Z.to_nat (snd p)) j), (Z.eqb_spec (snd p) (Z.of_nat j)); try reflexivity; lia.
Qed.

(* ------------------------------------------------------------------ *)
(* More list facts                                                     *)

Lemma cidx_and {S E} (c1 c2 : S -> E -> bool) srcs evs k j :
  cidx (fun s e => c1 s e && c2 s e) srcs evs k j
  = cidx c1 srcs evs k j && cidx c2 srcs evs k j.
Proof. unfold cidx. destruct (nth_error srcs k), (nth_error evs j); reflexivity. Qed.

Lemma pblock_cons ci k a x l :
  pblock ci k a (x :: l) = (if ci k x then [(k, a)] else []) ++ pblock ci k (S a) l.
Proof. reflexivity. Qed.

Lemma pblock_true k a n : pblock (fun _ _ => true) k a (seq a n) = map (pair k) (seq a n).
Proof.
  revert a; induction n as [|n IH]; intros a; [reflexivity|].
  cbn [seq]. rewrite pblock_cons, IH. reflexivity.
Qed.

Lemma full_tbl_spec ns ne :
  full_tbl ns ne = map zz (spec_pairs (fun _ _ => true) ns (seq 0 ne)).
Proof.
  unfold full_tbl. rewrite spec_pairs_blocks. generalize (seq 0 ns). intros ks.
  induction ks as [|k ks IH]; [reflexivity|]. cbn [flat_map]. rewrite map_app, <- IH. f_equal.
  rewrite pblock_true, map_map. reflexivity.
Qed.

Lemma filter_all {A} (g : A -> bool) l : (forall x, In x l -> g x = true) -> filter g l = l.
Proof.
  induction l as [|x l IH]; intros H; [reflexivity|]. cbn [filter].
  rewrite H by now left. f_equal. apply IH. intros y Hy. apply H. now right.
Qed.

Lemma spec_orig_all ci ns ne :
  (forall j, j < ne -> exists k, k < ns /\ ci k j = true) -> spec_orig ci ns ne = seq 0 ne.
Proof.
  intros H. unfold spec_orig. apply filter_all. intros j Hj. apply in_seq in Hj.
  destruct (H j) as (k & Hk & Hc); [lia|]. apply existsb_exists. exists k. split; [apply in_seq; lia|assumption].
Qed.

Lemma nth_error_seq a n i : i < n -> nth_error (seq a n) i = Some (a + i).
Proof.
  revert a i; induction n as [|n IH]; intros a i H; [lia|].
  destruct i as [|i]; cbn [seq nth_error]; [f_equal; lia|]. rewrite IH by lia. f_equal; lia.
Qed.

Lemma F2_seq {A} (l0 l : list A) a :
  (forall i e, nth_error l i = Some e -> nth_error l0 (a + i) = Some e) ->
  Forall2 (fun e j => nth_error l0 j = Some e) l (seq a (length l)).
Proof.
  revert a; induction l as [|x l IH]; intros a H; cbn [length seq]; constructor.
  - rewrite <- (Nat.add_0_r a). now apply H.
  - apply IH. intros i e He. replace (S a + i) with (a + S i) by lia. now apply H.
Qed.

Lemma evs_at_all {E} (evs : list E) : evs_at evs evs (seq 0 (length evs)).
Proof. apply F2_seq. intros i e H. exact H. Qed.

Lemma F2_nth {A B} (P : A -> B -> Prop) l l' b y :
  Forall2 P l l' -> nth_error l' b = Some y -> exists x, nth_error l b = Some x /\ P x y.
Proof.
  intros F. revert b. induction F as [|x0 y0 l l' H F IH]; intros b Hb.
  - destruct b; discriminate.
  - destruct b as [|b]; cbn [nth_error] in *.
    + inversion Hb; subst. now exists x0.
    + now apply IH.
Qed.

Lemma F2_map_r {A B} (P : A -> B -> Prop) (f : A -> B) l :
  Forall (fun x => P x (f x)) l -> Forall2 P l (map f l).
Proof. induction 1; cbn [map]; constructor; assumption. Qed.

Lemma F2_map_r2 {A B C} (Q : A -> C -> Prop) (f : B -> C) l l' :
  Forall2 (fun x y => Q x (f y)) l l' -> Forall2 Q l (map f l').
Proof. induction 1; cbn [map]; constructor; assumption. Qed.

Lemma F2_length {A B} (P : A -> B -> Prop) l l' : Forall2 P l l' -> length l = length l'.
Proof. induction 1; cbn [length]; congruence. Qed.

Lemma filter_map_comm {A B} (f : A -> B) (g : B -> bool) l :
  map f (filter (fun x => g (f x)) l) = filter g (map f l).
Proof.
  induction l as [|x l IH]; [reflexivity|]. cbn [filter map].
  destruct (g (f x)); cbn [map]; now rewrite IH.
Qed.

Lemma map_nth_id (l : list nat) : map (fun b => nth b l 0) (seq 0 (length l)) = l.
Proof.
  symmetry. rewrite <- (map_id l) at 1.
  apply (map_seq_nth (fun x => x) (fun b => nth b l 0) l 0).
  intros i x H. cbn [Nat.add]. symmetry. now apply nth_error_nth.
Qed.

Lemma filter_filter_sub {A} (g h : A -> bool) l :
  (forall x, In x l -> g x = true -> h x = true) -> filter g (filter h l) = filter g l.
Proof.
  induction l as [|x l IH]; intros H; [reflexivity|]. cbn [filter].
  assert (IH' : filter g (filter h l) = filter g l) by (apply IH; intros y Hy; apply H; now right).
  destruct (h x) eqn:Eh; cbn [filter].
  - now rewrite IH'.
  - destruct (g x) eqn:Eg; [|assumption]. rewrite H in Eh; [discriminate|now left|assumption].
Qed.

Lemma existsb_false {A} (f : A -> bool) l : (forall x, In x l -> f x = false) -> existsb f l = false.
Proof.
  induction l as [|x l IH]; intros H; [reflexivity|]. cbn [existsb].
  rewrite H by now left. apply IH. intros y Hy. apply H. now right.
Qed.

Lemma existsb_combine_map {A B} (F : A -> B -> bool) (g : A -> B) t :
  existsb (fun pv => F (fst pv) (snd pv)) (combine t (map g t)) = existsb (fun p => F p (g p)) t.
Proof. induction t as [|p t IH]; [reflexivity|]. cbn [map combine existsb fst snd]. now rewrite IH. Qed.

(* ------------------------------------------------------------------ *)
(* What a method hands on satisfies the precondition of the next one   *)

Lemma out_tbl_ok ci ns ne :
  tbl_ok ns (length (spec_orig ci ns ne)) (map zz (spec_pairs ci ns (spec_orig ci ns ne))).
Proof.
  split; [apply spec_pairs_sorted|]. split.
  - intros p Hp. apply in_map_iff in Hp as ((k, b) & <- & Hin).
    apply spec_pairs_In in Hin as (Hk & j & Hj & _).
    assert (b < length (spec_orig ci ns ne)) by (apply nth_error_Some; congruence).
    unfold zz; cbn [fst snd]. lia.
  - intros b Hb. destruct (nth_error (spec_orig ci ns ne) b) as [j|] eqn:Ej;
      [|apply nth_error_None in Ej; lia].
    pose proof (nth_error_In _ _ Ej) as Hin. apply spec_orig_In in Hin as (_ & k & Hk & Hc).
    exists k. apply in_map_zz, spec_pairs_In. split; [assumption|]. now exists j.
Qed.

Lemma full_tbl_ok ns ne : 0 < ns -> tbl_ok ns ne (full_tbl ns ne).
Proof.
  intros H. rewrite full_tbl_spec.
  pose proof (out_tbl_ok (fun _ _ => true) ns ne) as T.
  rewrite spec_orig_all in T; [|intros j _; exists 0; split; [assumption|reflexivity]].
  now rewrite seq_length in T.
Qed.

Lemma full_tbl_In ns ne k j : k < ns -> j < ne -> In (Z.of_nat k, Z.of_nat j) (full_tbl ns ne).
Proof.
  intros Hk Hj. rewrite full_tbl_spec. apply in_map_zz, spec_pairs_In. split; [assumption|].
  exists j. split; [now apply nth_error_seq|reflexivity].
Qed.

Lemma tbl_ok_rng ns ne t : tbl_ok ns ne t -> tbl_rng ns ne t.
Proof. intros (_ & R & _). exact R. Qed.

(* ------------------------------------------------------------------ *)
(* Every method: the result is the specification for the pair criterion
   cix m inc = (pair listed in the incoming table) && (documented criterion) *)

Definition run_ok {S E} (m : meth S E) (srcs : list S) (evs : list E) (inc : option tbl) : Prop :=
  let ns := length srcs in
  let ci := cix m inc srcs evs in
  let orig := spec_orig ci ns (length evs) in
  exists ev',
    run m srcs evs inc
    = Ok {| s_events := ev'; s_tbl := map zz (spec_pairs ci ns orig); s_orig := map Z.of_nat orig |}
    /\ evs_at evs ev' orig.

Lemma finish_ci {E} (evs : list E) ns (M : bmat) f ci :
  M = tab ns (length evs) f ->
  (forall k j, k < ns -> j < length evs -> f k j = ci k j) ->
  let orig := spec_orig ci ns (length evs) in
  exists ev',
    finish evs M
    = Ok {| s_events := ev'; s_tbl := map zz (spec_pairs ci ns orig); s_orig := map Z.of_nat orig |}
    /\ evs_at evs ev' orig.
Proof.
  intros -> H. rewrite (tab_ext _ _ _ _ H). apply finish_tab.
Qed.

Section RunSpec.
  Variables S E : Type.
  Variable srcs : list S.
  Let ns := length srcs.
  Hypothesis ns_pos : 0 < ns.

  Lemma and_inc_spec andf (evs : list E) c inc :
    (forall a b, andf a b = a && b) ->
    inc_ok ns (length evs) inc ->
    and_inc andf (tab ns (length evs) (cidx c srcs evs)) ns (length evs) inc
    = Ok (tab ns (length evs) (fun k j => cidx c srcs evs k j && inc_has inc k j)).
  Proof.
    intros Hand Hinc. destruct inc as [t|]; cbn [and_inc].
    - rewrite tbl_mask_ok by (apply tbl_ok_rng; exact Hinc). cbn [bind].
      rewrite map2_tab. f_equal. apply tab_ext. intros k j _ _. apply Hand.
    - f_equal. apply tab_ext. intros k j _ _. cbn [inc_has]. now rewrite andb_true_r.
  Qed.

  Lemma run_all (evs : list E) inc : inc_ok ns (length evs) inc -> run_ok MAll srcs evs inc.
  Proof.
    intros Hinc. unfold run_ok. fold ns. set (ci := cix MAll inc srcs evs).
    assert (Hall : spec_orig ci ns (length evs) = seq 0 (length evs)).
    { apply spec_orig_all. intros j Hj. destruct inc as [t|].
      - destruct Hinc as (_ & R & C). destruct (C j Hj) as (k & Hin).
        destruct (R _ Hin) as (R1 & _). cbn [fst] in R1. exists k. split; [lia|].
        unfold ci, cix. rewrite (proj2 (inc_has_In t k j) Hin). cbn [andb crit_of]. unfold cidx.
        destruct (nth_error srcs k) eqn:Es; [|apply nth_error_None in Es; fold ns in Es; lia].
        destruct (nth_error evs j) eqn:Ee; [reflexivity|apply nth_error_None in Ee; lia].
      - exists 0. split; [assumption|]. unfold ci, cix. cbn [inc_has andb crit_of]. unfold cidx.
        destruct (nth_error srcs 0) eqn:Es; [|apply nth_error_None in Es; fold ns in Es; lia].
        destruct (nth_error evs j) eqn:Ee; [reflexivity|apply nth_error_None in Ee; lia]. }
    rewrite Hall. exists evs. split; [|apply evs_at_all].
    cbn [run]. fold ns. do 2 f_equal.
    assert (Hci : forall k j, k < ns -> j < length evs -> ci k j = inc_has inc k j).
    { intros k j Hk Hj. unfold ci, cix. cbn [crit_of]. unfold cidx.
      destruct (nth_error srcs k) eqn:Es; [|apply nth_error_None in Es; fold ns in Es; lia].
      destruct (nth_error evs j) eqn:Ee; [apply andb_true_r|apply nth_error_None in Ee; lia]. }
    assert (Fl : Forall (fun j => j < length evs) (seq 0 (length evs)))
      by (apply Forall_forall; intros j Hj; apply in_seq in Hj; lia).
    rewrite (spec_pairs_ext ci (inc_has inc) ns (length evs) _ Fl Hci).
    destruct inc as [t|].
    - (* the given table is returned as is: it is the sorted list of its members *)
      destruct Hinc as (Sd & R & C).
      apply (SS_unique lexlt lexlt_irr lexlt_tr); [assumption|apply spec_pairs_sorted|].
      intros (zk, zj). split.
      + intros Hin. destruct (R _ Hin) as (R1 & R2). cbn [fst snd] in R1, R2.
        rewrite <- (Z2Nat.id zk), <- (Z2Nat.id zj) by lia. apply in_map_zz, spec_pairs_In.
        split; [lia|]. exists (Z.to_nat zj). split; [apply nth_error_seq; lia|].
        apply inc_has_In. now rewrite !Z2Nat.id by lia.
      + intros Hin. apply in_map_iff in Hin as ((k, b) & Ez & Hin). unfold zz in Ez; cbn [fst snd] in Ez.
        inversion Ez; subst. apply spec_pairs_In in Hin as (Hk & j & Hj & Hc).
        assert (b < length evs).
        { rewrite <- (seq_length (length evs) 0). apply nth_error_Some. congruence. }
        rewrite nth_error_seq in Hj by assumption. inversion Hj; subst. now apply inc_has_In.
    - cbn [inc_has]. apply full_tbl_spec.
  Qed.

  Lemma run_band (evs : list E) kd c inc :
    inc_ok ns (length evs) inc -> run_ok (MBand kd c) srcs evs inc.
  Proof.
    intros Hinc. unfold run_ok. cbn [run]. rewrite mat_tab. fold ns.
    rewrite (and_inc_spec (inc_kernel kd) evs c inc); [|destruct kd; reflexivity|assumption].
    cbn [bind]. eapply finish_ci; [reflexivity|].
    intros k j _ _. unfold cix. cbn [crit_of]. apply andb_comm.
  Qed.

  Lemma run_box (evs : list E) bs cra crab cdec inc :
    (0 < bs)%Z /\ (forall s e, crab s e = cra s e) ->
    inc_ok ns (length evs) inc -> run_ok (MBox bs cra crab cdec) srcs evs inc.
  Proof.
    intros (Hbs & Hcp) Hinc. unfold run_ok. cbn [run]. fold ns.
    (* whichever path the code takes, mask_ra is the broadcast of the RA criterion *)
    assert (Hra : (if sb_use_batches (Z.of_nat ns) bs
                   then fill_batches bs (fun s => map (crab s) evs) srcs (length evs)
                   else Ok (mat cra srcs evs)) = Ok (mat cra srcs evs)).
    { destruct (sb_use_batches (Z.of_nat ns) bs); [|reflexivity].
      rewrite fill_batches_spec by assumption. f_equal. unfold mat.
      apply map_ext; intro s. apply map_ext; intro e. apply Hcp. }
    rewrite Hra. cbn [bind]. rewrite !mat_tab, map2_tab. fold ns.
    assert (Hsky : tab ns (length evs)
                       (fun k j => sb_mask_sky (cidx cra srcs evs k j) (cidx cdec srcs evs k j))
                   = tab ns (length evs) (cidx (fun s e => cra s e && cdec s e) srcs evs)).
    { apply tab_ext. intros k j _ _. now rewrite K_sb_mask_sky, cidx_and. }
    rewrite Hsky.
    rewrite (and_inc_spec sb_mask_inc evs _ inc); [|reflexivity|assumption].
    cbn [bind]. eapply finish_ci; [reflexivity|].
    intros k j _ _. unfold cix. cbn [crit_of]. apply andb_comm.
  Qed.

  Lemma run_psi (evs : list E) c inc :
    ns = 1 -> inc_ok ns (length evs) inc -> run_ok (MPsi c) srcs evs inc.
  Proof.
    intros H1 Hinc. unfold run_ok. cbn [run]. fold ns. rewrite K_pf_ns_bad, H1. cbn [Z.of_nat Pos.of_succ_nat Z.eqb Pos.eqb negb].
    eapply finish_ci with (f := cidx (fun _ e => c e) srcs evs).
    - unfold tab. cbn [seq map]. f_equal.
      apply (map_seq_nth c (cidx (fun _ e => c e) srcs evs 0) evs 0).
      intros j e He. cbn [Nat.add]. unfold cidx. rewrite He.
      destruct (nth_error srcs 0) eqn:Es; [reflexivity|apply nth_error_None in Es; fold ns in Es; lia].
    - intros k j Hk Hj. unfold cix. cbn [crit_of]. fold ns.
      assert (Hi : inc_has inc k j = true).
      { destruct inc as [t|]; [|reflexivity]. destruct Hinc as (_ & R & C).
        destruct (C j Hj) as (k' & Hin). destruct (R _ Hin) as (R1 & _). cbn [fst] in R1.
        apply inc_has_In. replace k with k' by lia. exact Hin. }
      now rewrite Hi.
  Qed.

  Lemma take_wrap_rng {A} (l : list A) i :
    (0 <= i < Z.of_nat (length l))%Z ->
    take_wrap l i = match nth_error l (Z.to_nat i) with Some a => Ok a | None => Err IndexError end.
  Proof. intros H. unfold take_wrap. rewrite wrap_Z by assumption. reflexivity. Qed.

  Lemma run_pair (evs : list E) c inc :
    inc_ok ns (length evs) inc -> run_ok (MPair c) srcs evs inc.
  Proof.
    intros Hinc. unfold run_ok. cbn [run]. fold ns.
    set (t := match inc with None => full_tbl ns (length evs) | Some t => t end).
    assert (Ht : tbl_ok ns (length evs) t)
      by (unfold t; destruct inc; [exact Hinc|now apply full_tbl_ok]).
    pose proof (tbl_ok_rng _ _ _ Ht) as R.
    set (g := fun p : Z * Z => cidx c srcs evs (Z.to_nat (fst p)) (Z.to_nat (snd p))).
    rewrite (mapM_ok _ g).
    2:{ intros p Hp. destruct (R p Hp) as (R1 & R2). rewrite !(proj1 (K_ae_idx _)).
        rewrite ?(proj1 (proj2 (proj2 (K_ae_idx _)))).
        rewrite !take_wrap_rng by (fold ns; assumption).
        unfold g, cidx.
        destruct (nth_error srcs (Z.to_nat (fst p))) eqn:Es;
          [|apply nth_error_None in Es; fold ns in Es; lia].
        destruct (nth_error evs (Z.to_nat (snd p))) eqn:Ee;
          [|apply nth_error_None in Ee; lia].
        reflexivity. }
    cbn [bind]. rewrite existsb_false.
    2:{ intros p Hp. destruct (R p Hp) as (R1 & R2).
        destruct (Z.ltb_spec (fst p) 0), (Z.ltb_spec (snd p) 0); try lia; try reflexivity. }
    eapply finish_ci; [reflexivity|]. intros k j Hk Hj. cbn beta.
    rewrite (existsb_combine_map
               (fun (p : Z * Z) (v : bool) => (fst p =? Z.of_nat k)%Z && (snd p =? Z.of_nat j)%Z && v) g t).
    unfold cix. cbn [crit_of].
    assert (Hi : inc_has inc k j = inc_has (Some t) k j).
    { unfold t. destruct inc; [reflexivity|]. transitivity true; [reflexivity|]. symmetry.
      apply inc_has_In. now apply full_tbl_In. }
    rewrite Hi. apply eq_true_iff_eq. rewrite existsb_exists, andb_true_iff, inc_has_In. split.
    - intros ((zk, zj) & Hin & H). cbn [fst snd] in H.
      apply andb_true_iff in H as (H & Hg). apply andb_true_iff in H as (H1 & H2).
      apply Z.eqb_eq in H1, H2. subst. unfold g in Hg. cbn [fst snd] in Hg.
      rewrite !Nat2Z.id in Hg. now split.
    - intros (Hin & Hc). exists (Z.of_nat k, Z.of_nat j). split; [assumption|].
      cbn [fst snd]. rewrite !Z.eqb_refl. unfold g. cbn [fst snd andb]. now rewrite !Nat2Z.id.
  Qed.
End RunSpec.

(* ------------------------------------------------------------------ *)
(* Intersection: chaining two methods                                  *)

Lemma take_wrap_map_nat (l : list nat) b :
  b < length l -> take_wrap (map Z.of_nat l) (Z.of_nat b) = Ok (Z.of_nat (nth b l 0)).
Proof.
  intros H. unfold take_wrap. rewrite map_length, wrap_nat by assumption. cbn [bind].
  rewrite (map_nth_error Z.of_nat b l (nth_error_nth' l 0 H)). reflexivity.
Qed.

Section Chain.
  Variables S E : Type.
  Variable srcs : list S.
  Let ns := length srcs.

  Lemma run_and (a b : meth S E) (evs : list E) inc :
    run_ok a srcs evs inc ->
    (forall ev1 t1, inc_ok ns (length ev1) (Some t1) -> run_ok b srcs ev1 (Some t1)) ->
    run_ok (MAnd a b) srcs evs inc.
  Proof.
    intros Ha Hb. unfold run_ok in Ha. fold ns in Ha.
    set (ci1 := cix a inc srcs evs) in Ha. set (orig1 := spec_orig ci1 ns (length evs)) in Ha.
    destruct Ha as (ev1 & E1 & F1).
    pose proof (F2_length _ _ _ F1) as L1.
    set (t1 := map zz (spec_pairs ci1 ns orig1)) in *.
    assert (Ht1 : inc_ok ns (length ev1) (Some t1)).
    { cbn [inc_ok]. rewrite L1. apply out_tbl_ok. }
    specialize (Hb ev1 t1 Ht1). unfold run_ok in Hb. fold ns in Hb.
    set (ci2 := cix b (Some t1) srcs ev1) in Hb. set (orig2 := spec_orig ci2 ns (length ev1)) in Hb.
    destruct Hb as (ev2 & E2 & F2).
    unfold run_ok. fold ns. set (ci := cix (MAnd a b) inc srcs evs).
    (* pointwise: the criterion of the intersection *)
    assert (Hci : forall k j, ci k j = ci1 k j && cidx (crit_of b ns) srcs evs k j).
    { intros k j. unfold ci, ci1, cix. cbn [crit_of]. fold ns. now rewrite cidx_and, andb_assoc. }
    (* key fact: the second method's criterion at position b of the first
       selection is the intersection criterion at the original event *)
    assert (Key : forall k p j, k < ns -> nth_error orig1 p = Some j -> ci2 k p = ci k j).
    { intros k p j Hk Hp. rewrite Hci. unfold ci2, cix. fold ns. f_equal.
      - apply eq_true_iff_eq. rewrite inc_has_In. unfold t1. rewrite in_map_zz, spec_pairs_In. split.
        + intros (_ & j' & Hj' & Hc). congruence.
        + intros Hc. split; [assumption|]. now exists j.
      - destruct (F2_nth _ _ _ _ _ F1 Hp) as (e & He1 & He). unfold cidx. now rewrite He1, He. }
    assert (Hlt : forall p, p < length ev1 -> nth_error orig1 p = Some (nth p orig1 0))
      by (intros p Hp; apply nth_error_nth'; lia).
    set (L := map (fun p => nth p orig1 0) orig2).
    assert (HL : L = spec_orig ci ns (length evs)).
    { unfold L, orig2, spec_orig.
      rewrite (filter_ext_in _ (fun p => existsb (fun k => ci k (nth p orig1 0)) (seq 0 ns))).
      2:{ intros p Hp. apply in_seq in Hp. apply existsb_ext_in. intros k Hk. apply in_seq in Hk.
          apply Key; [lia|apply Hlt; lia]. }
      rewrite (filter_map_comm (fun p => nth p orig1 0)
                 (fun j => existsb (fun k => ci k j) (seq 0 ns))).
      rewrite L1, map_nth_id. unfold orig1, spec_orig. apply filter_filter_sub.
      intros j _ Hj. apply existsb_exists in Hj as (k & Hk & Hc). apply existsb_exists.
      exists k. split; [assumption|]. rewrite Hci in Hc. now apply andb_true_iff in Hc as (Hc & _). }
    assert (Hlt2 : Forall (fun p => p < length ev1) orig2) by apply spec_orig_lt.
    exists ev2. split.
    - cbn [run]. rewrite E1. cbn [bind s_events s_tbl s_orig]. fold t1. rewrite E2.
      cbn [bind s_events s_tbl s_orig].
      rewrite (mapM_ok _ (fun z => Z.of_nat (nth (Z.to_nat z) orig1 0))).
      2:{ intros z Hz. apply in_map_iff in Hz as (p & <- & Hp). rewrite (proj2 (K_ix_org _ 0%Z)).
          rewrite Forall_forall in Hlt2. rewrite take_wrap_map_nat by (rewrite <- L1; now apply Hlt2).
          now rewrite Nat2Z.id. }
      cbn [bind]. f_equal. rewrite <- HL. f_equal.
      + f_equal. apply spec_pairs_ext2. unfold L. apply F2_map_r.
        eapply Forall_impl; [|exact Hlt2]. cbn beta. intros p Hp k Hk. apply Key; [assumption|now apply Hlt].
      + unfold L. rewrite !map_map. apply map_ext. intros p. now rewrite Nat2Z.id.
    - rewrite <- HL. unfold L, evs_at. apply F2_map_r2. eapply F2_impl; [|exact F2]. cbn beta.
      intros e p Hp.
      assert (p < length ev1) by (apply nth_error_Some; congruence).
      destruct (F2_nth _ _ _ _ _ F1 (Hlt p H)) as (e' & He1 & He). congruence.
  Qed.

  Hypothesis ns_pos : 0 < ns.

  Theorem run_spec (m : meth S E) : forall (evs : list E) inc,
    wf_meth m ns -> inc_ok ns (length evs) inc -> run_ok m srcs evs inc.
  Proof.
    induction m as [|kd c|bs cra crab cdec|c|c|a IHa b IHb]; intros evs inc Hwf Hinc.
    - now apply run_all.
    - now apply run_band.
    - now apply run_box.
    - now apply run_psi.
    - now apply run_pair.
    - destruct Hwf as (Wa & Wb). apply run_and; [now apply IHa|]. intros ev1 t1 H1. now apply IHb.
  Qed.
End Chain.

(* ------------------------------------------------------------------ *)
(* The property in the form stated in props/Prop_C05.v                 *)

Lemma cidx_true {S E} (c : S -> E -> bool) srcs evs k j :
  cidx c srcs evs k j = true <->
  exists s e, nth_error srcs k = Some s /\ nth_error evs j = Some e /\ c s e = true.
Proof.
  unfold cidx. split.
  - destruct (nth_error srcs k) as [s|]; [|discriminate].
    destruct (nth_error evs j) as [e|]; [|discriminate]. intros H. now exists s, e.
  - intros (s & e & -> & -> & H). exact H.
Qed.

(* consequences of "the result is the specification lists" *)
Lemma spec_result {E} ci ns (evs ev' : list E) :
  let orig := spec_orig ci ns (length evs) in
  let t := map zz (spec_pairs ci ns orig) in
  evs_at evs ev' orig ->
  StronglySorted lexlt t
  /\ (forall p, In p t -> (0 <= fst p < Z.of_nat ns)%Z /\ (0 <= snd p < Z.of_nat (length ev'))%Z)
  /\ (forall k b, In (Z.of_nat k, Z.of_nat b) t <->
        k < ns /\ exists j, nth_error orig b = Some j /\ ci k j = true)
  /\ (forall b, b < length ev' -> exists k, In (Z.of_nat k, Z.of_nat b) t).
Proof.
  intros orig t F. pose proof (out_tbl_ok ci ns (length evs)) as (T1 & T2 & T3).
  fold orig in T1, T2, T3. fold t in T1, T2, T3. rewrite <- (F2_length _ _ _ F) in T2, T3.
  split; [exact T1|]. split; [exact T2|]. split; [|exact T3].
  intros k b. unfold t. rewrite in_map_zz. apply spec_pairs_In.
Qed.

Theorem select_full {S E} (m : meth S E) (srcs : list S) (evs : list E) :
  let ns := length srcs in
  let c := cidx (crit_of m ns) srcs evs in
  0 < ns -> wf_meth m ns ->
  exists r orig,
    run m srcs evs None = Ok r
    /\ orig = filter (fun j => existsb (fun k => c k j) (seq 0 ns)) (seq 0 (length evs))
    /\ s_orig r = map Z.of_nat orig
    /\ Forall2 (fun e j => nth_error evs j = Some e) (s_events r) orig
    /\ StronglySorted lexlt (s_tbl r)
    /\ (forall p, In p (s_tbl r) ->
          (0 <= fst p < Z.of_nat ns)%Z /\ (0 <= snd p < Z.of_nat (length (s_events r)))%Z)
    /\ (forall k b, In (Z.of_nat k, Z.of_nat b) (s_tbl r) <->
          k < ns /\ exists j, nth_error orig b = Some j /\ c k j = true)
    /\ (forall b, b < length (s_events r) -> exists k, In (Z.of_nat k, Z.of_nat b) (s_tbl r)).
Proof.
  intros ns c Hns Hwf.
  destruct (run_spec S E srcs Hns m evs None Hwf I) as (ev' & Er & F).
  change (cix m None srcs evs) with c in Er, F. fold ns in Er, F.
  eexists. exists (spec_orig c ns (length evs)). split; [exact Er|].
  cbn [s_events s_tbl s_orig]. split; [reflexivity|]. split; [reflexivity|]. split; [exact F|].
  apply (spec_result c ns evs ev' F).
Qed.

Theorem select_incoming {S E} (m : meth S E) (srcs : list S) (evs : list E) (t0 : tbl) :
  let ns := length srcs in
  let c := fun k j => inc_has (Some t0) k j && cidx (crit_of m ns) srcs evs k j in
  0 < ns -> wf_meth m ns -> tbl_ok ns (length evs) t0 ->
  exists r orig,
    run m srcs evs (Some t0) = Ok r
    /\ orig = filter (fun j => existsb (fun k => c k j) (seq 0 ns)) (seq 0 (length evs))
    /\ s_orig r = map Z.of_nat orig
    /\ Forall2 (fun e j => nth_error evs j = Some e) (s_events r) orig
    /\ tbl_ok ns (length (s_events r)) (s_tbl r)
    /\ (forall k b, In (Z.of_nat k, Z.of_nat b) (s_tbl r) <->
          k < ns /\ exists j, nth_error orig b = Some j /\ c k j = true).
Proof.
  intros ns c Hns Hwf Ht.
  destruct (run_spec S E srcs Hns m evs (Some t0) Hwf Ht) as (ev' & Er & F).
  change (cix m (Some t0) srcs evs) with c in Er, F. fold ns in Er, F.
  eexists. exists (spec_orig c ns (length evs)). split; [exact Er|].
  cbn [s_events s_tbl s_orig]. split; [reflexivity|]. split; [reflexivity|]. split; [exact F|].
  destruct (spec_result c ns evs ev' F) as (R1 & R2 & R3 & R4).
  split; [|exact R3]. split; [exact R1|]. split; [exact R2|exact R4].
Qed.

(* chaining written out: both stages run, the second on the output of the
   first; original indices compose; the pairs are those meeting both criteria *)
Theorem chain_full {S E} (a b : meth S E) (srcs : list S) (evs : list E) :
  let ns := length srcs in
  0 < ns -> wf_meth a ns -> wf_meth b ns ->
  exists r1 r2 r orig,
    run a srcs evs None = Ok r1
    /\ run b srcs (s_events r1) (Some (s_tbl r1)) = Ok r2
    /\ run (MAnd a b) srcs evs None = Ok r
    /\ s_events r = s_events r2 /\ s_tbl r = s_tbl r2
    /\ Forall2 (fun o o2 => exists p, o2 = Z.of_nat p /\ nth_error (s_orig r1) p = Some o)
               (s_orig r) (s_orig r2)
    /\ s_orig r = map Z.of_nat orig
    /\ orig = filter (fun j => existsb (fun k => cidx (crit_of a ns) srcs evs k j
                                                && cidx (crit_of b ns) srcs evs k j) (seq 0 ns))
                     (seq 0 (length evs))
    /\ Forall2 (fun e j => nth_error evs j = Some e) (s_events r) orig
    /\ (forall k p, In (Z.of_nat k, Z.of_nat p) (s_tbl r) <->
          k < ns /\ exists j, nth_error orig p = Some j
                              /\ cidx (crit_of a ns) srcs evs k j = true
                              /\ cidx (crit_of b ns) srcs evs k j = true).
Proof.
  intros ns Hns Wa Wb.
  destruct (select_full a srcs evs Hns Wa) as (r1 & o1 & E1 & Ho1 & So1 & F1 & T1 & Rg1 & In1 & Cv1).
  assert (Ht1 : tbl_ok ns (length (s_events r1)) (s_tbl r1)) by (split; [exact T1|split; [exact Rg1|exact Cv1]]).
  destruct (select_incoming b srcs (s_events r1) (s_tbl r1) Hns Wb Ht1)
    as (r2 & o2 & E2 & Ho2 & So2 & F2 & T2 & In2).
  destruct (select_full (MAnd a b) srcs evs Hns (conj Wa Wb))
    as (r & o & Er & Ho & So & F & T & Rg & Inn & Cv).
  exists r1, r2, r, o. split; [exact E1|]. split; [exact E2|]. split; [exact Er|].
  (* unfold the intersection once to relate r with r1, r2 *)
  pose proof Er as E'. cbn [run] in E'. fold ns in E1, E2. rewrite E1 in E'. cbn [bind] in E'.
  rewrite E2 in E'. cbn [bind] in E'.
  destruct (mapM (fun i => take_wrap (s_orig r1) (ix_org_idx0 i)) (s_orig r2)) as [org|] eqn:Eo;
    [|discriminate]. cbn [bind] in E'. inversion E'; subst r. cbn [s_events s_tbl s_orig] in *.
  split; [reflexivity|]. split; [reflexivity|]. split.
  { clear - Eo So2 So1. rewrite So2 in *. clear So2. revert org Eo.
    induction o2 as [|p o2 IH]; intros org Eo; cbn [map mapM] in Eo.
    - inversion Eo. constructor.
    - destruct (take_wrap (s_orig r1) (ix_org_idx0 (Z.of_nat p))) as [x|] eqn:Ex; [|discriminate].
      cbn [bind] in Eo. destruct (mapM _ (map Z.of_nat o2)) as [xs|] eqn:Exs; [|discriminate].
      cbn [bind] in Eo. inversion Eo; subst. cbn [map]. constructor; [|now apply IH].
      exists p. split; [reflexivity|]. rewrite (proj2 (K_ix_org _ 0%Z)) in Ex.
      unfold take_wrap in Ex. destruct (wrap (length (s_orig r1)) (Z.of_nat p)) as [q|] eqn:Eq; [|discriminate].
      cbn [bind] in Ex. unfold wrap in Eq.
      destruct ((Z.of_nat p <? - Z.of_nat (length (s_orig r1)))%Z || (Z.of_nat (length (s_orig r1)) <=? Z.of_nat p)%Z); [discriminate|].
      destruct (Z.ltb_spec (Z.of_nat p) 0); [lia|]. inversion Eq; subst q. rewrite Nat2Z.id in Ex.
      destruct (nth_error (s_orig r1) p); [now inversion Ex|discriminate]. }
  split; [exact So|]. split.
  { rewrite Ho. apply filter_ext. intros j. apply existsb_ext_in. intros k _. cbn [crit_of]. apply cidx_and. }
  split; [exact F|].
  intros k p. rewrite Inn. cbn [crit_of]. split; intros (Hk & j & Hj & Hc); (split; [exact Hk|]); exists j;
    (split; [exact Hj|]); [rewrite cidx_and in Hc; now apply andb_true_iff in Hc
                          |rewrite cidx_and; now apply andb_true_iff].
Qed.

Theorem box_batch_indep {S E} (bs bs' : Z) (cra cdec : S -> E -> bool) srcs evs inc :
  (0 < bs)%Z -> (0 < bs')%Z ->
  run (MBox bs cra cra cdec) srcs evs inc = run (MBox bs' cra cra cdec) srcs evs inc.
Proof.
  intros H H'. cbn [run].
  assert (G : forall b, (0 < b)%Z ->
     (if sb_use_batches (Z.of_nat (length srcs)) b
      then fill_batches b (fun s => map (cra s) evs) srcs (length evs)
      else Ok (mat cra srcs evs)) = Ok (mat cra srcs evs)).
  { intros b Hb. destruct (sb_use_batches _ b); [|reflexivity]. now rewrite fill_batches_spec. }
  now rewrite !G.
Qed.

(* ------------------------------------------------------------------ *)
(* select_events without ret_original_evt_idxs: the separate branch of the
   intersection returns what the flag=True branch returns, minus the original
   indices — for every tree, every input and every error                   *)

Lemma bind_ok {A B} (a : res A) (f : A -> res B) r :
  (do x <- a; f x) = Ok r -> exists x, a = Ok x /\ f x = Ok r.
Proof. destruct a as [x|e]; cbn [bind]; [intros H; now exists x|discriminate]. Qed.

Lemma take_nat_inv {A} (l : list A) idx out :
  take_nat l idx = Ok out -> length out = length idx /\ Forall (fun i => i < length l) idx.
Proof.
  unfold take_nat. revert out. induction idx as [|i idx IH]; intros out H; cbn [mapM] in H.
  - inversion H. split; [reflexivity|constructor].
  - destruct (nth_error l i) as [x|] eqn:Ex; [|discriminate]. cbn [bind] in H.
    apply bind_ok in H as (xs & Exs & H). inversion H; subst. destruct (IH xs Exs) as (L & F).
    split; [cbn [length]; now rewrite L|]. constructor; [apply nth_error_Some; congruence|assumption].
Qed.

Definition sel_shape {E} (ne : nat) (r : sel E) : Prop :=
  length (s_orig r) = length (s_events r)
  /\ Forall (fun o => (0 <= o < Z.of_nat ne)%Z) (s_orig r).

Lemma finish_shape {E} (evs : list E) M r : finish evs M = Ok r -> sel_shape (length evs) r.
Proof.
  unfold finish. destruct (select_core (length evs) M) as (orig, pairs).
  intros H. apply bind_ok in H as (ev' & Et & H). inversion H; subst. unfold sel_shape. cbn [s_orig s_events].
  destruct (take_nat_inv _ _ _ Et) as (L & F). split; [now rewrite map_length|].
  apply Forall_forall. intros o Ho. apply in_map_iff in Ho as (i & <- & Hi).
  rewrite Forall_forall in F. specialize (F i Hi). lia.
Qed.

Lemma mapM_length {A B} (f : A -> res B) l out : mapM f l = Ok out -> length out = length l.
Proof.
  revert out; induction l as [|x l IH]; intros out H; cbn [mapM] in H; [now inversion H|].
  apply bind_ok in H as (y & _ & H). apply bind_ok in H as (ys & Eys & H). inversion H; subst.
  cbn [length]. now rewrite (IH ys Eys).
Qed.

Lemma mapM_In {A B} (f : A -> res B) l out y :
  mapM f l = Ok out -> In y out -> exists x, In x l /\ f x = Ok y.
Proof.
  revert out; induction l as [|x l IH]; intros out H Hy; cbn [mapM] in H; [inversion H; subst; contradiction|].
  apply bind_ok in H as (y0 & Ey0 & H). apply bind_ok in H as (ys & Eys & H). inversion H; subst.
  destruct Hy as [<-|Hy]; [exists x; split; [now left|assumption]|].
  destruct (IH ys Eys Hy) as (x' & Hx' & Ex'). exists x'. split; [now right|assumption].
Qed.

Lemma take_wrap_In {A} (l : list A) i a : take_wrap l i = Ok a -> In a l.
Proof.
  unfold take_wrap. intros H. apply bind_ok in H as (k & _ & H).
  destruct (nth_error l k) eqn:Ek; [|discriminate]. inversion H; subst. eapply nth_error_In; eassumption.
Qed.

Lemma run_shape {S E} (m : meth S E) : forall srcs evs inc r,
  run m srcs evs inc = Ok r -> sel_shape (length evs) r.
Proof.
  induction m as [|kd c|bs cra crab cdec|c|c|a IHa b IHb]; intros srcs evs inc r H; cbn [run] in H.
  - inversion H; subst. unfold sel_shape. cbn. split; [now rewrite map_length, seq_length|].
    apply Forall_forall. intros o Ho. apply in_map_iff in Ho as (i & <- & Hi). apply in_seq in Hi. lia.
  - apply bind_ok in H as (m1 & _ & H). now apply finish_shape in H.
  - apply bind_ok in H as (mra & _ & H). apply bind_ok in H as (m1 & _ & H). now apply finish_shape in H.
  - destruct (pf_ns_bad _); [discriminate|]. now apply finish_shape in H.
  - apply bind_ok in H as (vals & _ & H). destruct (existsb _ _); [discriminate|]. now apply finish_shape in H.
  - apply bind_ok in H as (r1 & E1 & H). apply bind_ok in H as (r2 & E2 & H).
    apply bind_ok in H as (org & Eo & H). inversion H; subst. unfold sel_shape. cbn [s_orig s_events].
    destruct (IHa _ _ _ _ E1) as (La & Fa). destruct (IHb _ _ _ _ E2) as (Lb & Fb).
    split; [rewrite (mapM_length _ _ _ Eo); exact Lb|].
    apply Forall_forall. intros o Ho. destruct (mapM_In _ _ _ _ Eo Ho) as (i & _ & Ei).
    apply take_wrap_In in Ei. rewrite Forall_forall in Fa. now apply Fa.
Qed.

Lemma mapM_take_ok (l : list Z) idxs :
  Forall (fun o => (0 <= o < Z.of_nat (length l))%Z) idxs ->
  exists out, mapM (fun i => take_wrap l (ix_org_idx0 i)) idxs = Ok out.
Proof.
  induction 1 as [|i idxs Hi F (out & IH)]; [now exists []|].
  cbn [mapM]. rewrite (proj2 (K_ix_org _ 0%Z)). unfold take_wrap at 1. rewrite wrap_Z by assumption. cbn [bind].
  destruct (nth_error l (Z.to_nat i)) as [x|] eqn:Ex; [|apply nth_error_None in Ex; lia].
  cbn [bind]. rewrite IH. cbn [bind]. now eexists.
Qed.

Theorem run_nr_eq {S E} (m : meth S E) : forall srcs evs inc,
  run_nr m srcs evs inc = do r <- run m srcs evs inc; Ok (s_events r, s_tbl r).
Proof.
  induction m as [|kd c|bs cra crab cdec|c|c|a IHa b IHb]; intros srcs evs inc; try reflexivity.
  cbn [run_nr run]. rewrite IHa. destruct (run a srcs evs inc) as [r1|e] eqn:E1; [|reflexivity].
  cbn [bind fst snd]. rewrite IHb. destruct (run b srcs (s_events r1) (Some (s_tbl r1))) as [r2|e] eqn:E2; [|reflexivity].
  cbn [bind]. destruct (run_shape a _ _ _ _ E1) as (La & _). destruct (run_shape b _ _ _ _ E2) as (_ & Fb).
  rewrite <- La in Fb. destruct (mapM_take_ok _ _ Fb) as (org & Eo). rewrite Eo. reflexivity.
Qed.

(* ------------------------------------------------------------------ *)
(* TrialDataManager.initialize_trial: selection, sort by the index field,
   re-assignment of the event indices                                  *)
Require Import Coq.Logic.FinFun.

Lemma set_nth_length {A} (l : list A) k v : length (set_nth l k v) = length l.
Proof.
  revert k; induction l as [|x l IH]; intros k; [reflexivity|].
  destruct k; cbn [set_nth length]; [reflexivity|now rewrite IH].
Qed.

Lemma set_nth_eq {A} (l : list A) k v : k < length l -> nth_error (set_nth l k v) k = Some v.
Proof.
  revert k; induction l as [|x l IH]; intros k H; cbn [length] in H; [lia|].
  destruct k; cbn [set_nth nth_error]; [reflexivity|apply IH; lia].
Qed.

Lemma set_nth_neq {A} (l : list A) k q v : q <> k -> nth_error (set_nth l k v) q = nth_error l q.
Proof.
  revert k q; induction l as [|x l IH]; intros k q H; [reflexivity|].
  destruct k, q; cbn [set_nth nth_error]; try reflexivity; [lia|apply IH; lia].
Qed.

Lemma scatter_spec n : forall (p : list Z) (acc : list (option Z)) (i : Z),
  (forall x, In x p -> (0 <= x < Z.of_nat n)%Z) -> NoDup p -> length acc = n ->
  exists inv, scatter n acc i p = Ok inv /\ length inv = n
    /\ (forall d x, nth_error p d = Some x ->
          nth_error inv (Z.to_nat x) = Some (Some (i + Z.of_nat d)%Z))
    /\ (forall q, ~ In (Z.of_nat q) p -> nth_error inv q = nth_error acc q).
Proof.
  induction p as [|x r IH]; intros acc i Hr Hn Hl.
  - exists acc. split; [reflexivity|]. split; [assumption|]. split; [|reflexivity].
    intros d y Hd. destruct d; discriminate.
  - inversion Hn as [|? ? Hx Hn']; subst. cbn [scatter]. rewrite K_tdm_inv_pos.
    assert (Hxr : (0 <= x < Z.of_nat (length acc))%Z) by (apply Hr; now left).
    rewrite wrap_Z by assumption. cbn [bind].
    destruct (IH (set_nth acc (Z.to_nat x) (Some i)) (i + 1)%Z) as (inv & E & L & P1 & P2);
      [intros y Hy; apply Hr; now right|assumption|apply set_nth_length|].
    exists inv. split; [exact E|]. split; [exact L|]. split.
    + intros d y Hd. destruct d as [|d]; cbn [nth_error] in Hd.
      * inversion Hd; subst y. rewrite P2 by (rewrite Z2Nat.id by lia; exact Hx).
        rewrite set_nth_eq by lia. do 2 f_equal. lia.
      * rewrite (P1 d y Hd). do 2 f_equal. lia.
    + intros q Hq. rewrite P2 by (intros H; apply Hq; now right).
      apply set_nth_neq. intros ->. apply Hq. left. lia.
Qed.

Lemma mapM_F2 {A B} (f : A -> res B) (P : B -> A -> Prop) l :
  (forall x, In x l -> exists y, f x = Ok y /\ P y x) ->
  exists ys, mapM f l = Ok ys /\ Forall2 P ys l.
Proof.
  induction l as [|x l IH]; intros H.
  - exists []. split; [reflexivity|constructor].
  - destruct (H x (or_introl eq_refl)) as (y & Ey & Py).
    destruct IH as (ys & Eys & F); [intros z Hz; apply H; now right|].
    exists (y :: ys). cbn [mapM]. rewrite Ey. cbn [bind]. rewrite Eys. cbn [bind].
    split; [reflexivity|now constructor].
Qed.

Lemma F2_In_l {A B} (P : A -> B -> Prop) l l' x :
  Forall2 P l l' -> In x l -> exists y, In y l' /\ P x y.
Proof.
  induction 1 as [|a b l l' H F IH]; intros Hx; [contradiction|].
  destruct Hx as [<-|Hx]; [exists b; split; [now left|assumption]|].
  destruct (IH Hx) as (y & Hy & Py). exists y. split; [now right|assumption].
Qed.

Lemma F2_In_r {A B} (P : A -> B -> Prop) l l' y :
  Forall2 P l l' -> In y l' -> exists x, In x l /\ P x y.
Proof.
  induction 1 as [|a b l l' H F IH]; intros Hy; [contradiction|].
  destruct Hy as [<-|Hy]; [exists a; split; [now left|assumption]|].
  destruct (IH Hy) as (x & Hx & Px). exists x. split; [now right|assumption].
Qed.

Lemma F2_NoDup {A B} (P : A -> B -> Prop) l l' :
  Forall2 P l l' -> (forall x y y', P x y -> P x y' -> y = y') -> NoDup l' -> NoDup l.
Proof.
  intros F inj. induction F as [|a b l l' H F IH]; intros Hn; [constructor|].
  inversion Hn as [|? ? Hb Hn']; subst. constructor; [|now apply IH].
  intros Ha. destruct (F2_In_l _ _ _ _ F Ha) as (y & Hy & Py).
  apply Hb. now rewrite (inj a b y H Py).
Qed.

Lemma perm_facts (p : list Z) n :
  Permutation p (map Z.of_nat (seq 0 n)) ->
  (forall x, In x p <-> (0 <= x < Z.of_nat n)%Z) /\ NoDup p /\ length p = n.
Proof.
  intros P. split; [|split].
  - intros x. split.
    + intros H. apply (Permutation_in _ P) in H. apply in_map_iff in H as (b & <- & Hb).
      apply in_seq in Hb. lia.
    + intros H. apply (Permutation_in _ (Permutation_sym P)). apply in_map_iff.
      exists (Z.to_nat x). split; [lia|apply in_seq; lia].
  - apply (Permutation_NoDup (Permutation_sym P)).
    apply Injective_map_NoDup; [intros a b; apply Nat2Z.inj|apply seq_NoDup].
  - rewrite (Permutation_length P), map_length. apply seq_length.
Qed.

Section TDM.
  Variables S E : Type.
  Variable argsort : list E -> list Z.
  (* contract of np.argsort: the result is a permutation of 0..n-1 *)
  Hypothesis argsort_perm :
    forall l, Permutation (argsort l) (map Z.of_nat (seq 0 (length l))).
  Variable srcs : list S.
  Let ns := length srcs.
  Hypothesis ns_pos : 0 < ns.

  Lemma sorted_events (ev1 : list E) :
    exists ev2, mapM (take_wrap ev1) (argsort ev1) = Ok ev2
      /\ Forall2 (fun e z => nth_error ev1 (Z.to_nat z) = Some e) ev2 (argsort ev1).
  Proof.
    destruct (perm_facts _ _ (argsort_perm ev1)) as (Pin & _ & _).
    apply mapM_F2. intros z Hz. apply Pin in Hz. rewrite take_wrap_rng by assumption.
    destruct (nth_error ev1 (Z.to_nat z)) as [e|] eqn:Ee; [|apply nth_error_None in Ee; lia].
    now exists e.
  Qed.

  Theorem tdm_sort_full (m : meth S E) (evs : list E) :
    let c := cidx (crit_of m ns) srcs evs in
    wf_meth m ns ->
    exists r1 ev2 t2 orig2,
      run m srcs evs None = Ok r1
      /\ tdm_init argsort (Some m) srcs evs true = Ok (ev2, t2)
      /\ Permutation orig2
           (filter (fun j => existsb (fun k => c k j) (seq 0 ns)) (seq 0 (length evs)))
      /\ Forall2 (fun e j => nth_error evs j = Some e) ev2 orig2
      /\ Forall2 (fun e z => nth_error (s_events r1) (Z.to_nat z) = Some e) ev2 (argsort (s_events r1))
      /\ map fst t2 = map fst (s_tbl r1)
      /\ NoDup t2
      /\ (forall q, In q t2 -> (0 <= fst q < Z.of_nat ns)%Z /\ (0 <= snd q < Z.of_nat (length ev2))%Z)
      /\ (forall k b, In (Z.of_nat k, Z.of_nat b) t2 <->
            k < ns /\ exists j, nth_error orig2 b = Some j /\ c k j = true).
  Proof.
    intros c Hwf.
    destruct (select_full m srcs evs ns_pos Hwf)
      as (r1 & o1 & E1 & Ho1 & So1 & F1 & T1 & Rg1 & In1 & Cv1).
    fold ns in E1, Ho1, Rg1, In1. fold c in Ho1, In1.
    set (ev1 := s_events r1) in *. set (t1 := s_tbl r1) in *.
    set (p := argsort ev1).
    destruct (perm_facts _ _ (argsort_perm ev1)) as (Pin & Pnd & Plen). fold p in Pin, Pnd, Plen.
    destruct (sorted_events ev1) as (ev2 & Eev2 & Fev2). fold p in Eev2, Fev2.
    pose proof (F2_length _ _ _ F1) as L1. fold ev1 in L1.
    pose proof (F2_length _ _ _ Fev2) as L2.
    destruct (scatter_spec (length p) p (repeat None (length p)) 0%Z)
      as (inv & Einv & Linv & P1 & _);
      [intros x Hx; apply Pin in Hx; lia|assumption|apply repeat_length|].
    (* the re-assigned table *)
    destruct (mapM_F2
      (fun q : Z * Z => do v <- take_wrap inv (snd q);
                        match v with
                        | Some j => Ok (tdm_src_keep (fst q), tdm_new_evt j)
                        | None => Err RuntimeError end)
      (fun q' q => fst q' = fst q /\ exists d, snd q' = Z.of_nat d /\ nth_error p d = Some (snd q))
      t1) as (t2 & Et2 & Ft2).
    { intros q Hq. destruct (Rg1 q Hq) as (_ & R2). fold ev1 in R2.
      assert (Hin : In (snd q) p) by (apply Pin; lia).
      apply In_nth_error in Hin as (d & Hd).
      rewrite take_wrap_rng by (rewrite Linv, Plen; assumption).
      rewrite (P1 d _ Hd). cbn [bind]. rewrite (proj1 (K_tdm_src_keep _)), K_tdm_new_evt.
      eexists. split; [reflexivity|]. cbn [fst snd]. split; [reflexivity|]. exists d. split; [lia|assumption]. }
    set (orig2 := map (fun z => nth (Z.to_nat z) o1 0) p).
    exists r1, ev2, t2, orig2. split; [exact E1|]. split.
    { unfold tdm_init. rewrite run_nr_eq, E1. cbn [bind fst snd]. fold ev1 t1 p. rewrite Eev2. cbn [bind].
      rewrite Einv. cbn [bind]. rewrite Et2. reflexivity. }
    split.
    { rewrite <- Ho1. unfold orig2.
      apply Permutation_trans
        with (map (fun z => nth (Z.to_nat z) o1 0) (map Z.of_nat (seq 0 (length ev1)))).
      - apply Permutation_map, argsort_perm.
      - rewrite map_map. erewrite map_ext; [|intros b; rewrite Nat2Z.id; reflexivity].
        rewrite L1, map_nth_id. apply Permutation_refl. }
    assert (Ho2 : forall b z, nth_error p b = Some z ->
                  nth_error orig2 b = Some (nth (Z.to_nat z) o1 0)
                  /\ nth_error o1 (Z.to_nat z) = Some (nth (Z.to_nat z) o1 0)).
    { intros b z Hz. split; [unfold orig2; exact (map_nth_error (fun z => nth (Z.to_nat z) o1 0) b p Hz)|].
      apply nth_error_nth'. apply nth_error_In, Pin in Hz. lia. }
    split.
    { unfold orig2. apply F2_map_r2. eapply F2_impl; [|exact Fev2]. cbn beta. intros e z He.
      assert (Hz : Z.to_nat z < length o1) by (rewrite <- L1; apply nth_error_Some; congruence).
      destruct (F2_nth _ _ _ _ _ F1 (nth_error_nth' o1 0 Hz)) as (e' & He1 & He'). congruence. }
    split; [exact Fev2|]. split.
    { change (map fst t2 = map fst t1). revert Ft2. generalize t1, t2. intros l' l F.
      induction F as [|q' q l l' (H & _) F IH]; [reflexivity|]. cbn [map]. now rewrite H, IH. }
    split.
    { apply (F2_NoDup _ _ _ Ft2).
      - intros q' q1 q2 (Hf1 & d1 & Hd1 & Hp1) (Hf2 & d2 & Hd2 & Hp2).
        assert (d1 = d2) by lia. subst d2. destruct q1, q2; cbn [fst snd] in *. congruence.
      - revert T1. generalize t1. intros l T1. induction T1 as [|a l Sd IH Fa]; constructor; [|assumption].
        intros Ha. rewrite Forall_forall in Fa. apply (lexlt_irr a). now apply Fa. }
    split.
    { intros q' Hq'. destruct (F2_In_l _ _ _ _ Ft2 Hq') as (q & Hq & Hf & d & Hd & Hpd).
      destruct (Rg1 q Hq) as (R1 & _). rewrite Hf. split; [assumption|].
      assert (d < length p) by (apply nth_error_Some; congruence). lia. }
    intros k b. split.
    - intros Hin. destruct (F2_In_l _ _ _ _ Ft2 Hin) as ((zk, zb) & Hq & Hf & d & Hd & Hpd).
      cbn [fst snd] in Hf, Hd, Hpd. apply Nat2Z.inj in Hd. subst d zk.
      destruct (Rg1 _ Hq) as (_ & R2). cbn [snd] in R2.
      rewrite <- (Z2Nat.id zb) in Hq by lia. apply In1 in Hq as (Hk & j & Hj & Hc).
      split; [assumption|]. exists j. destruct (Ho2 b zb Hpd) as (H1 & H2). split; [congruence|assumption].
    - intros (Hk & j & Hj & Hc).
      assert (Hb : b < length p).
      { unfold orig2 in Hj. rewrite <- (map_length (fun z => nth (Z.to_nat z) o1 0)). apply nth_error_Some. congruence. }
      destruct (nth_error p b) as [zb|] eqn:Hpb; [|apply nth_error_None in Hpb; lia].
      destruct (Ho2 b zb Hpb) as (H1 & H2).
      assert (Hzb : (0 <= zb < Z.of_nat (length ev1))%Z) by (apply Pin; eapply nth_error_In; eassumption).
      assert (Hq : In (Z.of_nat k, Z.of_nat (Z.to_nat zb)) t1).
      { apply In1. split; [assumption|]. exists j. split; [congruence|assumption]. }
      rewrite Z2Nat.id in Hq by lia.
      destruct (F2_In_r _ _ _ _ Ft2 Hq) as ((zk', zb') & Hq' & Hf & d & Hd & Hpd).
      cbn [fst snd] in Hf, Hd, Hpd. subst zk' zb'.
      assert (d = b) by (apply (proj1 (NoDup_nth_error p) Pnd); [apply nth_error_Some; congruence|congruence]).
      now subst d.
  Qed.

  (* without an index field the selection result is stored unchanged; without a
     selection every event is paired with every source *)
  Lemma tdm_nosort (m : meth S E) (evs : list E) :
    tdm_init argsort (Some m) srcs evs false
    = do r <- run m srcs evs None; Ok (s_events r, s_tbl r).
  Proof. unfold tdm_init. rewrite run_nr_eq. destruct (run m srcs evs None); reflexivity. Qed.

  Lemma tdm_nosel (evs : list E) (index_field : bool) :
    exists ev2, tdm_init argsort None srcs evs index_field = Ok (ev2, full_tbl ns (length ev2))
      /\ tbl_ok ns (length ev2) (full_tbl ns (length ev2))
      /\ (if index_field
          then Forall2 (fun e z => nth_error evs (Z.to_nat z) = Some e) ev2 (argsort evs)
          else ev2 = evs).
  Proof.
    destruct index_field.
    - destruct (sorted_events evs) as (ev2 & E2 & F2). exists ev2. unfold tdm_init. cbn [bind].
      rewrite E2. cbn [bind]. split; [reflexivity|]. split; [now apply full_tbl_ok|exact F2].
    - exists evs. split; [reflexivity|]. split; [now apply full_tbl_ok|reflexivity].
  Qed.
End TDM.
