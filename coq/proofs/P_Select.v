(* C05 — proofs about the discrete model of the event selection methods
   (model/M_Select.v) against the specification spec/S_Select.v. *)
From Coq Require Import ZArith List Bool Lia Sorting.Sorted Permutation.
From Sky Require Import Result PyList G_select M_Select S_Select.
Import ListNotations.
Local Open Scope nat_scope.

(* ------------------------------------------------------------------ *)
(* Characterising lemmas of the regenerated integer / boolean kernels.
   All later proofs use these, never the generated text.               *)

Lemma K_csm_row i : csm_row i = i. Proof. reflexivity. Qed.
Lemma K_csm_col i : csm_col i = i. Proof. reflexivity. Qed.
Lemma K_db_mask_inc a b : db_mask_inc a b = a && b. Proof. reflexivity. Qed.
Lemma K_rb_mask_inc a b : rb_mask_inc a b = a && b. Proof. reflexivity. Qed.
Lemma K_sb_mask_inc a b : sb_mask_inc a b = a && b. Proof. reflexivity. Qed.
Lemma K_sb_mask_sky a b : sb_mask_sky a b = a && b. Proof. reflexivity. Qed.
Lemma K_sb_batch_size : (0 < sb_batch_size)%Z. Proof. reflexivity. Qed.
Lemma K_sb_use_batches n bs : sb_use_batches n bs = (n >? bs)%Z. Proof. reflexivity. Qed.
Lemma K_sb_n_batches n bs : (0 < bs)%Z ->
  ((sb_n_batches n bs - 1) * bs < n <= sb_n_batches n bs * bs)%Z.
Proof.
  intros H. unfold sb_n_batches.
  Ltac Zify.zify_post_hook ::= Z.to_euclidean_division_equations.
  nia.
Qed.
Ltac Zify.zify_post_hook ::= idtac.
Lemma K_sb_is_last bi nb : sb_is_last bi nb = (bi =? nb - 1)%Z. Proof. reflexivity. Qed.
Lemma K_sb_lo bi bs : sb_lo bi bs = (bi * bs)%Z /\ sb_lo_last bi bs = (bi * bs)%Z.
Proof. split; reflexivity. Qed.
Lemma K_sb_hi bi bs : sb_hi bi bs = ((bi + 1) * bs)%Z. Proof. reflexivity. Qed.
Lemma K_ae_idx i : ae_ra1_idx0 i = i /\ ae_dec1_idx0 i = i /\ ae_ra2_idx0 i = i /\ ae_dec2_idx0 i = i.
Proof. repeat split; reflexivity. Qed.
Lemma K_ae_val i v : ae_ra1 i v = v /\ ae_dec1 i v = v /\ ae_ra2 i v = v /\ ae_dec2 i v = v.
Proof. repeat split; reflexivity. Qed.
Lemma K_ix_org i v : ix_org i v = v /\ ix_org_idx0 i = i. Proof. split; reflexivity. Qed.
Lemma K_tdm_inv_pos i : tdm_inv_pos i = i. Proof. reflexivity. Qed.
Lemma K_tdm_src_keep v : tdm_src_keep v = v /\ tdm_src_keep_idx0 = 0%Z. Proof. split; reflexivity. Qed.
Lemma K_tdm_new_evt v : tdm_new_evt v = v. Proof. reflexivity. Qed.

(* ------------------------------------------------------------------ *)
(* Lists                                                               *)

Lemma map_seq_nth {A B} (f : A -> B) (g : nat -> B) (l : list A) a :
  (forall i x, nth_error l i = Some x -> f x = g (a + i)) ->
  map f l = map g (seq a (length l)).
Proof.
  revert a; induction l as [|x l IH]; intros a H; cbn [map length seq]; [reflexivity|].
  f_equal.
  - rewrite (H 0 x eq_refl). f_equal; lia.
  - apply IH. intros i y Hy. rewrite (H (S i) y Hy). f_equal; lia.
Qed.

Lemma where_from_filter g a n :
  where_from a (map g (seq a n)) = filter g (seq a n).
Proof.
  revert a; induction n as [|n IH]; intros a; cbn [seq map where_from filter]; [reflexivity|].
  rewrite IH. destruct (g a); reflexivity.
Qed.

Lemma map2_map {A B C D} (f : B -> C -> D) (g : A -> B) (h : A -> C) l :
  map2 f (map g l) (map h l) = map (fun x => f (g x) (h x)) l.
Proof. induction l as [|x l IH]; cbn [map map2]; [reflexivity|]. now rewrite IH. Qed.

Lemma repeat_map_seq {A} (x : A) a n : repeat x n = map (fun _ => x) (seq a n).
Proof. revert a; induction n as [|n IH]; intros a; cbn [repeat seq map]; [reflexivity|]. now rewrite (IH (S a)). Qed.

Lemma any0_rows (f : nat -> nat -> bool) ne l :
  any0 ne (map (fun k => map (f k) (seq 0 ne)) l)
  = map (fun j => existsb (fun k => f k j) l) (seq 0 ne).
Proof.
  induction l as [|k l IH]; cbn [any0 map existsb].
  - apply repeat_map_seq.
  - rewrite IH, map2_map. reflexivity.
Qed.

Lemma mask_select_map {A B} (h : A -> B) (g : A -> bool) l :
  mask_select (map h l) (map g l) = map h (filter g l).
Proof.
  induction l as [|x l IH]; cbn [map mask_select filter]; [reflexivity|].
  destruct (g x); cbn [map]; now rewrite IH.
Qed.

Lemma argwhere_rows (R : nat -> list bool) a n :
  argwhere_from a (map R (seq a n))
  = flat_map (fun k => map (pair k) (where_from 0 (R k))) (seq a n).
Proof.
  revert a; induction n as [|n IH]; intros a; cbn [seq map argwhere_from flat_map]; [reflexivity|].
  now rewrite IH.
Qed.

Lemma where_from_combine {A} (h : A -> bool) (k : nat) l a :
  map (pair k) (where_from a (map h l))
  = flat_map (fun p => if h (snd p) then [(k, fst p)] else [])
             (combine (seq a (length l)) l).
Proof.
  revert a; induction l as [|x l IH]; intros a; cbn [map where_from length seq combine flat_map]; [reflexivity|].
  cbn [snd fst]. destruct (h x); cbn [map app]; now rewrite IH.
Qed.

Lemma select_core_tab f ns ne :
  select_core ne (tab ns ne f)
  = (spec_orig f ns ne, spec_pairs f ns (spec_orig f ns ne)).
Proof.
  unfold select_core, tab. rewrite any0_rows, where_from_filter.
  fold (spec_orig f ns ne). f_equal.
  unfold cols. rewrite map_map.
  erewrite map_ext; [| intro k; apply mask_select_map].
  fold (spec_orig f ns ne).
  rewrite (argwhere_rows (fun k => map (f k) (spec_orig f ns ne))).
  unfold spec_pairs. apply flat_map_ext; intro k. apply where_from_combine.
Qed.

Lemma tab_ext ns ne f g :
  (forall k j, k < ns -> j < ne -> f k j = g k j) -> tab ns ne f = tab ns ne g.
Proof.
  intros H. unfold tab. apply map_ext_in; intros k Hk. apply in_seq in Hk.
  apply map_ext_in; intros j Hj. apply in_seq in Hj. apply H; lia.
Qed.

Lemma mat_tab {S E} (c : S -> E -> bool) srcs evs :
  mat c srcs evs = tab (length srcs) (length evs) (cidx c srcs evs).
Proof.
  unfold mat, tab.
  apply (map_seq_nth (fun s => map (c s) evs)
                     (fun k => map (cidx c srcs evs k) (seq 0 (length evs))) srcs 0).
  intros k s Hs. cbn [Nat.add].
  apply (map_seq_nth (c s) (cidx c srcs evs k) evs 0).
  intros j e He. cbn [Nat.add]. unfold cidx. now rewrite Hs, He.
Qed.

Lemma map2_tab f g h ns ne :
  map2 (map2 f) (tab ns ne g) (tab ns ne h) = tab ns ne (fun k j => f (g k j) (h k j)).
Proof.
  unfold tab. rewrite map2_map. apply map_ext; intro k. apply map2_map.
Qed.

(* ------------------------------------------------------------------ *)
(* Sortedness                                                          *)

Lemma SS_app {A} (R : A -> A -> Prop) l1 l2 :
  StronglySorted R l1 -> StronglySorted R l2 ->
  (forall x y, In x l1 -> In y l2 -> R x y) -> StronglySorted R (l1 ++ l2).
Proof.
  induction l1 as [|a l1 IH]; intros S1 S2 H; cbn [app]; [assumption|].
  inversion S1 as [|? ? S1' F1]; subst. constructor.
  - apply IH; [assumption|assumption|]. intros x y Hx Hy; apply H; [now right|assumption].
  - apply Forall_app; split; [assumption|].
    apply Forall_forall; intros y Hy. apply H; [now left|assumption].
Qed.

Lemma SS_filter {A} (R : A -> A -> Prop) g l :
  StronglySorted R l -> StronglySorted R (filter g l).
Proof.
  induction 1 as [|a l S IH F]; cbn [filter]; [constructor|].
  destruct (g a); [|assumption]. constructor; [assumption|].
  apply Forall_forall; intros y Hy. apply filter_In in Hy.
  rewrite Forall_forall in F. now apply F.
Qed.

Lemma SS_seq a n : StronglySorted lt (seq a n).
Proof.
  revert a; induction n as [|n IH]; intros a; cbn [seq]; constructor; [apply IH|].
  apply Forall_forall; intros y Hy. apply in_seq in Hy. lia.
Qed.

Lemma SS_map {A B} (R : A -> A -> Prop) (R' : B -> B -> Prop) (f : A -> B) l :
  (forall x y, R x y -> R' (f x) (f y)) ->
  StronglySorted R l -> StronglySorted R' (map f l).
Proof.
  intros H. induction 1 as [|a l S IH F]; cbn [map]; constructor; [assumption|].
  apply Forall_forall; intros y Hy. apply in_map_iff in Hy as (x & <- & Hx).
  rewrite Forall_forall in F. apply H. now apply F.
Qed.

(* two lists sorted by a strict order with the same members are equal *)
Lemma SS_unique {A} (R : A -> A -> Prop) :
  (forall x, ~ R x x) -> (forall x y z, R x y -> R y z -> R x z) ->
  forall l1 l2, StronglySorted R l1 -> StronglySorted R l2 ->
  (forall x, In x l1 <-> In x l2) -> l1 = l2.
Proof.
  intros irr tr. induction l1 as [|a l1 IH]; intros l2 S1 S2 H.
  - destruct l2 as [|b l2]; [reflexivity|]. exfalso. apply (proj2 (H b)). now left.
  - destruct l2 as [|b l2]; [exfalso; apply (proj1 (H a)); now left|].
    inversion S1 as [|? ? S1' F1]; subst. inversion S2 as [|? ? S2' F2]; subst.
    rewrite Forall_forall in F1, F2.
    assert (a = b) as ->.
    { destruct (proj1 (H a) (or_introl eq_refl)) as [E|Ha]; [now symmetry|].
      destruct (proj2 (H b) (or_introl eq_refl)) as [E|Hb]; [assumption|].
      exfalso. apply (irr a). apply tr with b; [now apply F1 | now apply F2]. }
    f_equal. apply IH; [assumption|assumption|]. intros x; split; intros Hx.
    + destruct (proj1 (H x) (or_intror Hx)) as [E|Hx']; [|assumption].
      subst x. exfalso. apply (irr b). now apply F1.
    + destruct (proj2 (H x) (or_intror Hx)) as [E|Hx']; [|assumption].
      subst x. exfalso. apply (irr b). now apply F2.
Qed.

Definition lexlt_n (p q : nat * nat) : Prop :=
  fst p < fst q \/ (fst p = fst q /\ snd p < snd q).

Lemma lexlt_zz p q : lexlt_n p q -> lexlt (zz p) (zz q).
Proof. unfold lexlt_n, lexlt, zz; cbn [fst snd]. lia. Qed.
Lemma lexlt_irr p : ~ lexlt p p.
Proof. unfold lexlt. lia. Qed.
Lemma lexlt_tr p q r : lexlt p q -> lexlt q r -> lexlt p r.
Proof. unfold lexlt. lia. Qed.

(* ------------------------------------------------------------------ *)
(* The specification lists: membership, order, extensionality          *)

Lemma spec_orig_In ci ns ne j :
  In j (spec_orig ci ns ne) <-> j < ne /\ exists k, k < ns /\ ci k j = true.
Proof.
  unfold spec_orig. rewrite filter_In, in_seq, existsb_exists. split.
  - intros (H & k & Hk & Hc). apply in_seq in Hk. split; [lia|]. exists k. split; [lia|assumption].
  - intros (H & k & Hk & Hc). split; [lia|]. exists k. split; [apply in_seq; lia|assumption].
Qed.

Lemma spec_orig_sorted ci ns ne : StronglySorted lt (spec_orig ci ns ne).
Proof. unfold spec_orig. apply SS_filter, SS_seq. Qed.

Lemma spec_orig_lt ci ns ne : Forall (fun j => j < ne) (spec_orig ci ns ne).
Proof. apply Forall_forall; intros j Hj. now apply spec_orig_In in Hj. Qed.

Lemma spec_orig_ext ci ci' ns ne :
  (forall k j, k < ns -> j < ne -> ci k j = ci' k j) ->
  spec_orig ci ns ne = spec_orig ci' ns ne.
Proof.
  intros H. unfold spec_orig. apply filter_ext_in; intros j Hj. apply in_seq in Hj.
  apply eq_true_iff_eq. rewrite !existsb_exists.
  split; intros (k & Hk & Hc); exists k; (split; [assumption|]); apply in_seq in Hk;
    [rewrite <- H by lia | rewrite H by lia]; assumption.
Qed.

Lemma in_combine_seq {A} (l : list A) a b x :
  In (b, x) (combine (seq a (length l)) l) <-> a <= b /\ nth_error l (b - a) = Some x.
Proof.
  revert a; induction l as [|y l IH]; intros a; cbn [length seq combine In].
  - split; [tauto|]. intros (_ & H). destruct (b - a); discriminate.
  - rewrite IH. split.
    + intros [E | (H1 & H2)].
      * inversion E; subst. split; [lia|]. now rewrite Nat.sub_diag.
      * split; [lia|]. replace (b - a) with (S (b - S a)) by lia. assumption.
    + intros (H1 & H2). destruct (Nat.eq_dec a b) as [->|Hne].
      * left. rewrite Nat.sub_diag in H2. cbn in H2. now inversion H2.
      * right. split; [lia|]. replace (b - a) with (S (b - S a)) in H2 by lia. assumption.
Qed.

Definition pblock (ci : nat -> nat -> bool) (k a : nat) (l : list nat) : list (nat * nat) :=
  flat_map (fun p => if ci k (snd p) then [(k, fst p)] else []) (combine (seq a (length l)) l).

Lemma pblock_In ci k a l q :
  In q (pblock ci k a l) <->
  fst q = k /\ a <= snd q /\ exists j, nth_error l (snd q - a) = Some j /\ ci k j = true.
Proof.
  unfold pblock. rewrite in_flat_map. split.
  - intros ((b, j) & Hin & Hq). cbn [fst snd] in Hq. apply in_combine_seq in Hin as (H1 & H2).
    destruct (ci k j) eqn:Hc; [|contradiction]. destruct Hq as [<-|[]]. cbn [fst snd].
    split; [reflexivity|]. split; [assumption|]. now exists j.
  - intros (H1 & H2 & j & Hj & Hc). exists (snd q, j). split.
    + apply in_combine_seq. now split.
    + cbn [fst snd]. rewrite Hc. left. destruct q; cbn [fst snd] in *. now subst.
Qed.

Lemma pblock_sorted ci k a l : StronglySorted lexlt_n (pblock ci k a l).
Proof.
  revert a; induction l as [|x l IH]; intros a; [constructor|].
  unfold pblock. cbn [length seq combine flat_map]. fold (pblock ci k (S a) l).
  cbn [snd fst]. destruct (ci k x); cbn [app]; [|apply IH].
  constructor; [apply IH|]. apply Forall_forall; intros q Hq.
  apply pblock_In in Hq as (H1 & H2 & _). unfold lexlt_n; cbn [fst snd]. lia.
Qed.

Lemma spec_pairs_blocks ci ns orig :
  spec_pairs ci ns orig = flat_map (fun k => pblock ci k 0 orig) (seq 0 ns).
Proof. reflexivity. Qed.

Lemma blocks_In ci orig a n q :
  In q (flat_map (fun k => pblock ci k 0 orig) (seq a n)) <->
  a <= fst q < a + n /\ exists j, nth_error orig (snd q) = Some j /\ ci (fst q) j = true.
Proof.
  rewrite in_flat_map. split.
  - intros (k & Hk & Hq). apply in_seq in Hk. apply pblock_In in Hq as (H1 & _ & j & Hj & Hc).
    rewrite Nat.sub_0_r in Hj. subst k. split; [lia|]. now exists j.
  - intros (H & j & Hj & Hc). exists (fst q). split; [apply in_seq; lia|].
    apply pblock_In. split; [reflexivity|]. split; [lia|]. exists j. now rewrite Nat.sub_0_r.
Qed.

Lemma spec_pairs_In ci ns orig k b :
  In (k, b) (spec_pairs ci ns orig) <->
  k < ns /\ exists j, nth_error orig b = Some j /\ ci k j = true.
Proof.
  rewrite spec_pairs_blocks, blocks_In. cbn [fst snd]. split; intros (H & R); (split; [lia|exact R]).
Qed.

Lemma blocks_sorted ci orig a n :
  StronglySorted lexlt_n (flat_map (fun k => pblock ci k 0 orig) (seq a n)).
Proof.
  revert a; induction n as [|n IH]; intros a; cbn [seq flat_map]; [constructor|].
  apply SS_app; [apply pblock_sorted|apply IH|].
  intros x y Hx Hy. apply pblock_In in Hx as (H1 & _). apply blocks_In in Hy as (H2 & _).
  unfold lexlt_n. lia.
Qed.

Lemma spec_pairs_sorted ci ns orig : StronglySorted lexlt (map zz (spec_pairs ci ns orig)).
Proof.
  apply SS_map with (R := lexlt_n); [apply lexlt_zz|]. rewrite spec_pairs_blocks. apply blocks_sorted.
Qed.

Lemma in_map_zz k b l : In (Z.of_nat k, Z.of_nat b) (map zz l) <-> In (k, b) l.
Proof.
  rewrite in_map_iff. split.
  - intros ((k', b') & E & H). unfold zz in E; cbn [fst snd] in E. inversion E.
    apply Nat2Z.inj in H1, H2. now subst.
  - intros H. exists (k, b). now split.
Qed.

(* the pair list only depends on the criterion values at the listed events *)
Lemma pblock_ext2 ci ci' k a l l' :
  Forall2 (fun j j' => ci k j = ci' k j') l l' ->
  pblock ci k a l = pblock ci' k a l'.
Proof.
  intros F. revert a. induction F as [|j j' l l' H F IH]; intros a; [reflexivity|].
  unfold pblock. cbn [length seq combine flat_map]. fold (pblock ci k (S a) l) (pblock ci' k (S a) l').
  cbn [snd fst]. now rewrite H, IH.
Qed.

Lemma F2_impl {A B} (P Q : A -> B -> Prop) l l' :
  (forall x y, P x y -> Q x y) -> Forall2 P l l' -> Forall2 Q l l'.
Proof. intros H. induction 1; constructor; auto. Qed.

Lemma spec_pairs_ext2 ci ci' ns l l' :
  Forall2 (fun j j' => forall k, k < ns -> ci k j = ci' k j') l l' ->
  spec_pairs ci ns l = spec_pairs ci' ns l'.
Proof.
  intros F. rewrite !spec_pairs_blocks.
  assert (G : forall k, In k (seq 0 ns) -> pblock ci k 0 l = pblock ci' k 0 l').
  { intros k Hk. apply in_seq in Hk. apply pblock_ext2.
    eapply F2_impl; [|exact F]. cbn. intros j j' H. apply H. lia. }
  revert G. generalize (seq 0 ns). intros ks. induction ks as [|k ks IH]; intros G; cbn [flat_map]; [reflexivity|].
  rewrite G by now left. f_equal. apply IH. intros k' Hk'. apply G. now right.
Qed.

Lemma Forall2_same {A} (P : A -> A -> Prop) l : Forall (fun x => P x x) l -> Forall2 P l l.
Proof. induction 1; constructor; assumption. Qed.

Lemma spec_pairs_ext ci ci' ns ne l :
  Forall (fun j => j < ne) l ->
  (forall k j, k < ns -> j < ne -> ci k j = ci' k j) ->
  spec_pairs ci ns l = spec_pairs ci' ns l.
Proof.
  intros F H. apply spec_pairs_ext2. apply Forall2_same.
  eapply Forall_impl; [|exact F]. cbn. intros j Hj k Hk. now apply H.
Qed.

(* ------------------------------------------------------------------ *)
(* finish                                                              *)

Lemma take_nat_ok {A} (l : list A) idx :
  Forall (fun i => i < length l) idx ->
  exists out, take_nat l idx = Ok out /\ Forall2 (fun e j => nth_error l j = Some e) out idx.
Proof.
  induction 1 as [|i idx Hi F IH].
  - exists []. split; [reflexivity|constructor].
  - destruct IH as (out & E & F2). unfold take_nat in *. cbn [mapM].
    destruct (nth_error l i) as [x|] eqn:Ex; [|apply nth_error_None in Ex; lia].
    cbn [bind]. rewrite E. cbn [bind]. exists (x :: out). split; [reflexivity|]. now constructor.
Qed.

Definition evs_at {E} (evs : list E) (ev' : list E) (orig : list nat) : Prop :=
  Forall2 (fun e j => nth_error evs j = Some e) ev' orig.

Lemma finish_tab {E} (evs : list E) ns f :
  exists ev',
    finish evs (tab ns (length evs) f)
    = Ok {| s_events := ev';
            s_tbl := map zz (spec_pairs f ns (spec_orig f ns (length evs)));
            s_orig := map Z.of_nat (spec_orig f ns (length evs)) |}
    /\ evs_at evs ev' (spec_orig f ns (length evs)).
Proof.
  unfold finish. rewrite select_core_tab.
  destruct (take_nat_ok evs (spec_orig f ns (length evs)) (spec_orig_lt _ _ _)) as (ev' & E1 & F).
  exists ev'. rewrite E1. cbn [bind]. split; [reflexivity|exact F].
Qed.
