(* C11: NR on the parameter vector, NR + scan, the NaN step (any number system),
   the NR instances of the wrapper and LLHRatio.maximize. *)
From Coq Require Import Reals ZArith List Bool Lia Lra.
From Sky Require Import Result Num NumR G_minimize M_Minimize S_Minimize P_Minimize P_MinimizeWrap.
Import ListNotations.

(* ------------------------------------------------------------------ any number system *)
Section NaNStep.
  Context {T : Type} (N : Num T).
  Variable obj : T -> T * T * T.
  Variables tol lo hi : T.

  (* an undefined Newton step at the first evaluation: warnflag 2, x unchanged *)
  Theorem nr_nan_step_flagged max_steps init f f1 f2 :
    (0 < max_steps)%Z ->
    nr_init_bad N lo init = false ->
    nr_cond_num N tol (nr_step0 N tol) (nr_fprime0 N) = true ->
    obj init = (f, f1, f2) ->
    nr_step_nan N (nr_step N f1 f2) = true ->
    exists r, nr1d N obj tol lo hi max_steps init = Ok r /\
              r_flag r = 2%Z /\ r_x r = init /\ r_niter r = 0%Z /\ nr_converged (r_flag r) = false.
  Proof.
    intros Hms Hib Hc Ho Hn. unfold nr1d. rewrite Hib.
    destruct (Z.to_nat max_steps) as [|k] eqn:Ek; [lia|].
    cbn [nr_loop]. rewrite Hc.
    assert (Hci : nr_cond_iter nr_niter0 max_steps = true) by (unfold nr_cond_iter, nr_niter0; apply Z.ltb_lt; lia).
    rewrite Hci. cbn [andb]. rewrite Ho, Hn.
    eexists. split; [reflexivity|].
    unfold nr_finish, nr_maxed, nr_niter0, nr_reeval, nr_flag_nan, nr_flag_maxed.
    assert (Hne : (0 =? max_steps)%Z = false) by (apply Z.eqb_neq; lia).
    rewrite Hne. cbn [negb tr_cons r_flag r_x r_niter]. unfold nr_flag_fnan.
    destruct (nr_f_nan N (fst3 (obj init))); repeat split.
  Qed.
End NaNStep.

(* the NR instance of the wrapper, any number system: a returned result has a
   converged status (warnflag <= 0: never 1 = max_steps reached, never 2 = NaN step) *)
Theorem minimize_nr_status {T} (N : Num T) func tol max_steps max_reps bounds uniform initials x f st reps :
  minimize_nr N func tol max_steps max_reps bounds uniform initials = Ok (x, f, st, reps) ->
  (r_flag st <= 0)%Z /\ reps = 0%Z /\ f = r_f st /\
  nr1d_vec N func tol max_steps bounds initials = Ok (x, st).
Proof.
  unfold minimize_nr. intros H.
  destruct (nr1d_vec N func tol max_steps bounds initials) as [[x0 r0]|e] eqn:E0.
  - rewrite (minimize_single_run N _ _ _ _ _ _ _ initials x0 (r_f r0) r0) in H.
    + destruct (nr_converged (r_flag r0)) eqn:Ec; [|discriminate].
      destruct (clip_vec N x0 bounds) as [[xc c]|e] eqn:Ecl; [|discriminate].
      cbn [bind fst snd] in H. destruct c; [discriminate|].
      injection H as <- <- <- <-.
      unfold nr_converged in Ec. apply Z.leb_le in Ec. repeat split; assumption.
    + rewrite E0. reflexivity.
    + reflexivity.
  - unfold minimize in H. rewrite E0 in H. discriminate.
Qed.

Theorem minimize_nr_flag_raises {T} (N : Num T) func tol max_steps max_reps bounds uniform initials x r :
  nr1d_vec N func tol max_steps bounds initials = Ok (x, r) ->
  (0 < r_flag r)%Z ->
  minimize_nr N func tol max_steps max_reps bounds uniform initials = Err ValueError.
Proof.
  intros E0 Hfl. unfold minimize_nr.
  rewrite (minimize_single_run N _ _ _ _ _ _ _ initials x (r_f r) r).
  - assert (Hc : nr_converged (r_flag r) = false) by (unfold nr_converged; apply Z.leb_gt; lia).
    rewrite Hc. reflexivity.
  - rewrite E0. reflexivity.
  - reflexivity.
Qed.

(* a NaN Newton step at the initial point (e.g. 0/0 for a flat objective):
   Minimizer.minimize raises, whatever the number system *)
Theorem minimize_nr_nan_raises {T} (N : Num T) func tol max_steps max_reps lo hi bs uniform i0 rest f f1 f2 :
  (0 < max_steps)%Z ->
  nr_init_bad N lo i0 = false ->
  nr_cond_num N tol (nr_step0 N tol) (nr_fprime0 N) = true ->
  func (i0 :: rest) = (f, f1, f2) ->
  nr_step_nan N (nr_step N f1 f2) = true ->
  minimize_nr N func tol max_steps max_reps ((lo, hi) :: bs) uniform (i0 :: rest) = Err ValueError.
Proof.
  intros Hms Hib Hc Ho Hn.
  destruct (nr_nan_step_flagged N (fun ns => func (ns :: rest)) tol lo hi max_steps i0 f f1 f2 Hms Hib Hc Ho Hn)
    as (r & Hr & Hfl & _).
  apply (minimize_nr_flag_raises N func tol max_steps max_reps ((lo, hi) :: bs) uniform (i0 :: rest) (r_x r :: rest) r).
  - cbn [nr1d_vec]. rewrite Hr. reflexivity.
  - rewrite Hfl. lia.
Qed.

(* LLHRatio.maximize with an NR minimiser *)
Theorem maximize_nr_spec {T} (N : Num T) ns_pidx llh tol max_steps max_reps bounds uniform initials ll x st :
  maximize_nr N ns_pidx llh tol max_steps max_reps bounds uniform initials = Ok (ll, x, st) ->
  ns_pidx = 0%Z /\ ll = mx_llmax_nr N (r_f st) /\ (r_flag st <= 0)%Z /\
  nr1d_vec N (neg_obj N ns_pidx llh) tol max_steps bounds initials = Ok (x, st).
Proof.
  unfold maximize_nr. intros H.
  destruct (mx_ns_not_first ns_pidx) eqn:En; [discriminate|].
  assert (Hz : ns_pidx = 0%Z).
  { unfold mx_ns_not_first in En. apply negb_false_iff in En. apply Z.eqb_eq in En. exact En. }
  destruct (minimize_nr N (neg_obj N ns_pidx llh) tol max_steps max_reps bounds uniform initials)
    as [[[[x0 f0] st0] rp]|e] eqn:Em; [|discriminate].
  cbn [bind] in H. injection H as <- <- <-.
  apply minimize_nr_status in Em. destruct Em as (Hfl & _ & -> & Hv). repeat split; assumption.
Qed.

(* ns not the first global floating parameter: the NR path raises (it would vary x[0] with ns-derivatives) *)
Theorem maximize_nr_ns_first {T} (N : Num T) ns_pidx llh tol max_steps max_reps bounds p2s uniform initials :
  ns_pidx <> 0%Z ->
  maximize_nr N ns_pidx llh tol max_steps max_reps bounds uniform initials = Err ValueError /\
  maximize_scan N ns_pidx llh tol max_steps max_reps bounds p2s uniform initials = Err ValueError.
Proof.
  intros Hn. unfold maximize_nr, maximize_scan, mx_ns_not_first.
  destruct (Z.eqb_spec ns_pidx 0); [contradiction|]. split; reflexivity.
Qed.

(* ------------------------------------------------------------------ over the reals *)
Open Scope R_scope.
Section VecScan.
  Variable erfR : R -> R.
  Notation N := (RNum erfR).
  Variable func : list R -> R * R * R.
  Variable tol : R.
  Variable max_steps : Z.

  (* NR on the vector: only x[0] moves; everything of nr1d carries over *)
  Theorem nr1d_vec_spec lo hi bs i0 rest x r :
    (0 <= max_steps)%Z ->
    nr1d_vec N func tol max_steps ((lo, hi) :: bs) (i0 :: rest) = Ok (x, r) ->
    x = r_x r :: rest /\ lo <= i0 /\
    nr_post (fun ns => func (ns :: rest)) tol lo hi max_steps 0 r /\
    (lo <= hi -> i0 <= hi -> lo <= r_x r <= hi) /\
    r_f r = fst3 (func x).
  Proof.
    intros Hms H. cbn [nr1d_vec] in H.
    destruct (nr1d N (fun ns => func (ns :: rest)) tol lo hi max_steps i0) as [r0|e] eqn:E; [|discriminate].
    cbn [bind] in H. injection H as <- <-.
    apply nr1d_spec in E; [|exact Hms]. destruct E as (Hlo & Hp & Hb).
    split; [reflexivity|]. split; [exact Hlo|]. split; [exact Hp|]. split; [exact Hb|].
    destruct Hp as (P1 & _). rewrite P1. reflexivity.
  Qed.

  Variable bounds : list (R * R).
  Variables (i0 : R) (rest : list R).
  Definition run (p2 : R) := nr1d_vec N func tol max_steps bounds (i0 :: p2 :: rest).

  Definition scan_inv (done : list R) (best : option (list R * nrres R)) : Prop :=
    match best with
    | None => done = []
    | Some b => (exists p2, In p2 done /\ run p2 = Ok b) /\
                (forall q, In q done -> exists xr, run q = Ok xr /\ r_f (snd b) <= r_f (snd xr))
    end.

  Lemma scan_loop_spec : forall p2s done best nt best' nt',
    scan_inv done best ->
    scan_loop N func tol max_steps bounds p2s i0 rest best nt = Ok (best', nt') ->
    scan_inv (done ++ p2s) best'.
  Proof.
    induction p2s as [|p2 more IH]; intros done best nt best' nt' Hinv H; cbn [scan_loop] in H.
    - injection H as <- <-. rewrite app_nil_r. exact Hinv.
    - fold (run p2) in H. destruct (run p2) as [[x r]|e] eqn:Er; [|discriminate]. cbn [bind] in H.
      replace (done ++ p2 :: more) with ((done ++ [p2]) ++ more) by (rewrite <- app_assoc; reflexivity).
      eapply IH; [|exact H].
      destruct best as [[bx br]|]; cbn [scan_inv] in *.
      + destruct Hinv as [(p0 & Hp0 & Hr0) Hall].
        destruct (scan_better N (r_f r) (r_f br)) eqn:Eb.
        * apply K_scan_better in Eb. cbn [scan_inv]. split.
          -- exists p2. split; [apply in_or_app; right; left; reflexivity|exact Er].
          -- intros q Hq. apply in_app_or in Hq. destruct Hq as [Hq|[<-|[]]].
             ++ destruct (Hall q Hq) as (xr & Hxr & Hle). exists xr. split; [exact Hxr|]. cbn [snd] in *. lra.
             ++ exists (x, r). split; [exact Er|]. cbn [snd]. lra.
        * assert (Hnb : ~ r_f r < r_f br).
          { intro Hc. apply (proj2 (K_scan_better erfR (r_f r) (r_f br))) in Hc. congruence. }
          cbn [scan_inv]. split.
          -- exists p0. split; [apply in_or_app; left; exact Hp0|exact Hr0].
          -- intros q Hq. apply in_app_or in Hq. destruct Hq as [Hq|[<-|[]]].
             ++ apply Hall; exact Hq.
             ++ exists (x, r). split; [exact Er|]. cbn [snd]. lra.
      + subst done. cbn [app scan_inv]. split.
        * exists p2. split; [left; reflexivity|exact Er].
        * intros q [<-|[]]. exists (x, r). split; [exact Er|]. cbn [snd]. lra.
  Qed.

  (* NRNsScan2dMinimizerImpl.minimize: the result is the NR result of one scan
     value, carries that scan value in x[1], and no scan value has a smaller minimum *)
  Theorem scan2d_spec p2s i1 x r :
    scan2d N func tol max_steps bounds p2s (i0 :: i1 :: rest) = Ok (x, r) ->
    (exists p2 r0, In p2 p2s /\ run p2 = Ok (x, r0) /\
                   r_x r = r_x r0 /\ r_f r = r_f r0 /\ r_flag r = r_flag r0 /\ r_step r = r_step r0) /\
    (forall q, In q p2s -> exists xr, run q = Ok xr /\ r_f r <= r_f (snd xr)).
  Proof.
    unfold scan2d. intros H.
    destruct (scan_loop N func tol max_steps bounds p2s i0 rest None 0%Z) as [[best nt]|e] eqn:El; [|discriminate].
    cbn [bind fst snd] in H.
    apply (scan_loop_spec p2s [] None) in El; [|reflexivity]. cbn [app] in El.
    destruct best as [[bx br]|]; [|discriminate].
    injection H as <- <-. cbn [scan_inv snd] in El. destruct El as [(p2 & Hin & Hr) Hall].
    split.
    - exists p2, br. cbn [r_x r_f r_flag r_step]. repeat split; assumption.
    - intros q Hq. cbn [r_f]. apply Hall. exact Hq.
  Qed.
End VecScan.

(* LLHRatio.maximize (NR path): the reported maximum is the log-likelihood ratio
   at the reported point, the point is within the ns bounds *)
Theorem maximize_nr_value erfR ns_pidx llh tol max_steps max_reps bounds uniform initials ll x st :
  (0 <= max_steps)%Z ->
  maximize_nr (RNum erfR) ns_pidx llh tol max_steps max_reps bounds uniform initials = Ok (ll, x, st) ->
  ns_pidx = 0%Z /\ ll = fst3 (llh x) /\ (r_flag st <= 0)%Z /\
  exists lo hi bs i0 rest, bounds = (lo, hi) :: bs /\ initials = i0 :: rest /\ x = r_x st :: rest /\
                           lo <= i0 /\ (lo <= hi -> i0 <= hi -> lo <= r_x st <= hi).
Proof.
  intros Hms H. apply maximize_nr_spec in H. destruct H as (Hz & Hll & Hfl & Hv).
  destruct bounds as [|[lo hi] bs]; [discriminate|].
  destruct initials as [|i0 rest]; [discriminate|].
  apply nr1d_vec_spec in Hv; [|exact Hms]. destruct Hv as (Hx & Hlo & _ & Hb & Hf).
  split; [exact Hz|]. split.
  - rewrite Hll, Hf. unfold neg_obj, fst3. destruct (llh x) as [[a b] c]. cbn [fst].
    unfold mx_llmax_nr, mx_neg_f. num_R. lra.
  - split; [exact Hfl|]. exists lo, hi, bs, i0, rest. repeat split; try assumption; apply Hb; assumption.
Qed.

(* ------------------------------------------------------------------ the statements of Prop_C11.v *)
Lemma thm_nr_bounds : forall erfR obj tol lo hi max_steps init r,
  (0 <= max_steps)%Z -> lo <= hi -> init <= hi ->
  (forall x, lo <= x <= hi -> thd3 (obj x) <> 0) ->
  nr1d (RNum erfR) obj tol lo hi max_steps init = Ok r ->
  lo <= r_x r <= hi.
Proof.
  intros erfR obj tol lo hi max_steps init r Hms Hlh Hhi _ H.
  exact (proj2 (proj2 (nr1d_spec erfR obj tol lo hi max_steps init r Hms H)) Hlh Hhi).
Qed.

Lemma thm_nr_fmin : forall erfR obj tol lo hi max_steps init r,
  (0 <= max_steps)%Z ->
  nr1d (RNum erfR) obj tol lo hi max_steps init = Ok r ->
  r_f r = fst3 (obj (r_x r)).
Proof.
  intros erfR obj tol lo hi max_steps init r Hms H.
  exact (proj1 (proj1 (proj2 (nr1d_spec erfR obj tol lo hi max_steps init r Hms H)))).
Qed.

Lemma thm_nr_status : forall erfR obj tol lo hi max_steps init r,
  (0 <= max_steps)%Z -> lo < hi ->
  (forall x, lo <= x <= hi -> thd3 (obj x) <> 0) ->
  nr1d (RNum erfR) obj tol lo hi max_steps init = Ok r ->
  (0 <= r_niter r <= max_steps)%Z /\
  (r_flag r = (-2)%Z \/ r_flag r = (-1)%Z \/ r_flag r = 0%Z \/ r_flag r = 1%Z) /\
  (r_flag r = 1%Z <-> r_niter r = max_steps) /\
  (r_flag r = (-2)%Z ->
     r_x r = lo /\ r_step r = - snd3 (obj lo) / thd3 (obj lo) /\ r_step r < 0) /\
  (r_flag r = (-1)%Z ->
     r_x r = hi /\ r_step r = - snd3 (obj hi) / thd3 (obj hi) /\ 0 < r_step r) /\
  (r_flag r = 0%Z -> exists prev,
     r_step r = - snd3 (obj prev) / thd3 (obj prev) /\ Rabs (r_step r) <= tol /\
     Rabs (snd3 (obj prev)) <= 1 / 10 /\ r_x r = clipR lo hi (prev + r_step r)).
Proof.
  intros erfR obj tol lo hi max_steps init r Hms Hlh _ H.
  destruct (nr1d_spec erfR obj tol lo hi max_steps init r Hms H) as (_ & (P1 & P2 & P3 & P4 & P5 & P6 & P7 & P8) & _).
  split; [split; assumption|]. split; [exact P4|]. split; [exact P5|].
  split; [|split; [|exact P8]].
  - intros Hf. destruct (P6 Hf) as (Hx & Hs & [Hn|[He _]]); [|lra]. repeat split; assumption.
  - intros Hf. destruct (P7 Hf) as (Hx & Hs & Hp & _). repeat split; assumption.
Qed.

Lemma thm_concave_bound_exit : forall erfR obj tol lo hi max_steps init r,
  (0 <= max_steps)%Z -> lo < hi ->
  convex_fo (fun x => fst3 (obj x)) (fun x => snd3 (obj x)) ->
  nr1d (RNum erfR) obj tol lo hi max_steps init = Ok r ->
  (r_flag r = (-2)%Z -> 0 < thd3 (obj lo) ->
     argmin_on (fun x => fst3 (obj x)) lo hi (r_x r) /\ 0 < snd3 (obj lo)) /\
  (r_flag r = (-1)%Z -> 0 < thd3 (obj hi) ->
     argmin_on (fun x => fst3 (obj x)) lo hi (r_x r) /\ snd3 (obj hi) < 0).
Proof.
  intros erfR obj tol lo hi max_steps init r Hms Hlh Hcx H.
  exact (nr_bound_exit_is_minimiser obj tol lo hi max_steps r Hcx Hlh
           (proj1 (proj2 (nr1d_spec erfR obj tol lo hi max_steps init r Hms H)))).
Qed.

Lemma thm_not_below_initial : forall erfR obj tol lo hi max_steps init r,
  (0 <= max_steps)%Z ->
  convex_fo (fun x => fst3 (obj x)) (fun x => snd3 (obj x)) ->
  nr1d (RNum erfR) obj tol lo hi max_steps init = Ok r ->
  r_f r <= fst3 (obj init) + Rabs (snd3 (obj (r_x r))) * Rabs (init - r_x r).
Proof.
  intros erfR obj tol lo hi max_steps init r Hms Hcx H.
  exact (nr_not_worse_than_initial obj tol lo hi max_steps init r Hcx
           (proj1 (proj2 (nr1d_spec erfR obj tol lo hi max_steps init r Hms H)))).
Qed.

Lemma thm_nr_near_stationary : forall erfR obj tol lo hi max_steps init r m xs,
  (0 <= max_steps)%Z -> 0 < m ->
  (forall x y, fst3 (obj x) + snd3 (obj x) * (y - x) + m / 2 * (y - x) * (y - x) <= fst3 (obj y)) ->
  lo <= xs <= hi -> snd3 (obj xs) = 0 ->
  nr1d (RNum erfR) obj tol lo hi max_steps init = Ok r -> r_flag r = 0%Z ->
  Rabs (r_x r - xs) <= tol + 1 / 10 / m.
Proof.
  intros erfR obj tol lo hi max_steps init r m xs Hms Hm Hsc Hxs Hst H Hfl.
  exact (nr_converged_near_stationary obj tol lo hi max_steps r m xs Hm Hsc Hxs Hst
           (proj1 (proj2 (nr1d_spec erfR obj tol lo hi max_steps init r Hms H))) Hfl).
Qed.
