(* C16 extension — as_numpy_record_array returns exactly the rows of the plain table. *)
From Coq Require Import ZArith List Bool Lia Arith.
From Sky Require Import Result PyList G_table G_tablerec M_Table M_TableRec S_Table S_TableInterp P_TableBase P_TableOps
  P_TableOps2 P_TableOps3 P_TableCtor P_Table P_TableSim P_TableFull.
Import ListNotations.
Open Scope Z_scope.

Lemma K_rec_len : forall n, rec_len n = n.
Proof. reflexivity. Qed.

Lemma mapM_ok : forall A B (f : A -> res B) (g : A -> B) l,
  (forall x, In x l -> f x = Ok (g x)) -> mapM f l = Ok (map g l).
Proof.
  induction l as [|a r IH]; intros H; [reflexivity|]. cbn [mapM map].
  rewrite (H a (or_introl eq_refl)); cbn [bind]. rewrite IH by (intros; apply H; right; assumption). reflexivity.
Qed.

(* the record array of a table on values *)
Definition rec_of (t : atable) : list (name * dtype) * list (list Z) :=
  (map (fun c => (fst c, bdt (snd c))) (acols t),
   map (fun i => map (fun c => nth i (bdata (snd c)) 0) (acols t)) (seq 0 (Z.to_nat (alen t)))).

Lemma as_record_rows : forall s E o, repr s E o -> eqlen E o ->
  as_record s o = Ok (map (fun n => (n, bdt (E n))) (keys (fields o)),
                      trows (abs E (keys (fields o)) (Z.to_nat (olen o)))).
Proof.
  intros s E o R [L0 L1]. unfold as_record. rewrite K_rec_len, (r_fnl _ _ _ R).
  rewrite (mapM_ok _ _ (rec_lookup s o) (fun n => (n, E n))).
  2:{ intros n Hn. unfold rec_lookup. destruct (repr_assoc _ _ _ _ R Hn) as [l [A B]]. rewrite A, B. reflexivity. }
  cbn [bind].
  rewrite (mapM_ok _ _ (rec_fill (Z.to_nat (olen o))) (fun c => (fst c, bdt (snd c), bdata (snd c)))).
  2:{ intros c Hc. apply in_map_iff in Hc. destruct Hc as [n [<- Hn]]. unfold rec_fill; cbn [fst snd].
      rewrite broadcast_same; [reflexivity|]. pose proof (L1 n Hn) as Q. unfold blen, zlen in Q. lia. }
  cbn [bind]. rewrite !map_map. cbn [fst snd]. f_equal. f_equal.
  unfold rec_rows, abs; cbn [trows]. apply map_ext. intros i. unfold row. rewrite !map_map. reflexivity.
Qed.

Lemma as_record_abs : forall s E o, repr s E o -> eqlen E o -> as_record s o = Ok (rec_of (abs_obj s o)).
Proof.
  intros s E o R L. rewrite (as_record_rows s E o R L), (abs_obj_repr _ _ _ R).
  unfold rec_of, abs_of, abs, cols_of; cbn [acols alen trows]. rewrite !map_map. cbn [fst snd]. f_equal. f_equal.
  apply map_ext. intros i. unfold row. rewrite map_map. reflexivity.
Qed.

(* for every operation sequence: the record array of every live table is the record array of
   the interpreter's table *)
Lemma record_array_all_sequences : forall ops, Forall op_wf ops ->
  let w := run empty_world ops in
  forall i o, nth_error (wobjs w) i = Some o ->
    exists t, nth_error (s_run [] ops) i = Some t /\ as_record (wstore w) o = Ok (rec_of t).
Proof.
  intros ops F w i o Hi. destruct (run_inv ops empty_world winv_empty F) as [WI _].
  destruct (WI i o Hi) as (E & R & L). destruct (full_refinement ops F) as [FR _]. fold w in FR.
  exists (abs_obj (wstore w) o). split.
  - rewrite <- FR. unfold absw. rewrite nth_error_map, Hi. reflexivity.
  - eapply as_record_abs; eassumption.
Qed.

(* as_numpy_record_array raises exactly when the table is not well-formed *)
Lemma as_record_missing_field : forall s o n, In n (fnl o) -> assoc n (fields o) = None ->
  (forall k, In k (fnl o) -> k <> n -> exists l b, assoc k (fields o) = Some l /\ rd s l = Some b) ->
  as_record s o = Err KeyError.
Proof.
  intros s o n Hin A Hothers. unfold as_record.
  assert (G : forall l, In n l -> (forall k, In k l -> In k (fnl o)) -> mapM (rec_lookup s o) l = Err KeyError).
  { induction l as [|k r IH]; intros H1 H2; [contradiction|]. cbn [mapM].
    destruct (Z.eq_dec k n) as [->|Hne].
    - unfold rec_lookup at 1. rewrite A. reflexivity.
    - destruct (Hothers k (H2 k (or_introl eq_refl)) Hne) as (l0 & b & Q1 & Q2).
      unfold rec_lookup at 1. rewrite Q1, Q2. cbn [bind]. rewrite IH; [reflexivity | | intros; apply H2; right; assumption].
      destruct H1; [congruence | assumption]. }
  rewrite (G (fnl o) Hin (fun k H => H)). reflexivity.
Qed.
