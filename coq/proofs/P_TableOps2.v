(* C16 — specifications of sort_by_field, convert_dtypes, set_field_dtype, indices,
   append, set_selection (continuation of P_TableOps.v). *)
From Coq Require Import ZArith List Bool Lia Arith.
From Sky Require Import Result PyList G_table M_Table P_TableBase P_TableOps.
Import ListNotations.
Open Scope Z_scope.

(* ------------------------------------------------------------ numpy contract facts *)
Lemma mapM_length : forall A B (f : A -> res B) l r, mapM f l = Ok r -> length r = length l.
Proof.
  induction l as [|a t IH]; intros r H; cbn in H.
  - inversion H; reflexivity.
  - destruct (f a); cbn in H; [|discriminate]. destruct (mapM f t); cbn in H; [|discriminate].
    inversion H; subst; cbn; f_equal; apply IH; reflexivity.
Qed.

Lemma gather_length : forall d ps vs, gather d ps = Some vs -> length vs = length ps.
Proof.
  induction ps as [|p r IH]; intros vs H; cbn in H.
  - inversion H; reflexivity.
  - destruct (nth_error d p); [|discriminate]. destruct (gather d r); [|discriminate].
    inversion H; subst; cbn; f_equal; apply IH; reflexivity.
Qed.

Lemma np_take_inv : forall d sl vs, np_take d sl = Ok vs ->
  exists ps, sel_pos (zlen d) sl = Ok ps /\ gather d ps = Some vs.
Proof.
  intros d sl vs H; unfold np_take in H. destruct (sel_pos (zlen d) sl) as [ps|e]; cbn in H; [|discriminate].
  exists ps; split; [reflexivity|]. destruct (gather d ps); [inversion H; reflexivity | discriminate].
Qed.

Lemma np_take_idx_length : forall d idx vs, np_take d (SIdx idx) = Ok vs -> length vs = length idx.
Proof.
  intros d idx vs H; apply np_take_inv in H; destruct H as [ps [H1 H2]]; cbn in H1.
  apply mapM_length in H1; apply gather_length in H2; congruence.
Qed.

Lemma scatter_length : forall ps d vs, length (scatter d ps vs) = length d.
Proof.
  induction ps as [|p r IH]; intros d vs; cbn; [reflexivity|].
  destruct vs; [reflexivity|]. rewrite IH; apply length_set_nth.
Qed.

Lemma np_put_length : forall d sl vals r, np_put d sl vals = Ok r -> length r = length d.
Proof.
  intros d sl vals r H; unfold np_put in H; destruct sl.
  - destruct (broadcast vals (length idx)); [|discriminate].
    destruct (sel_pos (zlen d) (SIdx idx)); cbn in H; [|discriminate]. inversion H; apply scatter_length.
  - destruct (sel_pos (zlen d) (SMask m)) as [ps|]; cbn in H; [|discriminate].
    destruct (broadcast vals (length ps)); [|discriminate]. inversion H; apply scatter_length.
Qed.

Lemma blen_np_append : forall b1 b2, blen (np_append b1 b2) = blen b1 + blen b2.
Proof. intros; unfold blen, np_append, zlen; cbn; rewrite app_length; lia. Qed.

Lemma eqlen_Emix : forall g l0 E o o' todo,
  eqlen E o -> same_shape o o' ->
  (forall n, In n (keys (fields o)) -> blen (G g n (E n)) = blen (E n)) ->
  eqlen (Emix g l0 E todo) o'.
Proof.
  intros g l0 E o o' todo [L0 L] (S1 & S2 & S3 & S4) Hg; split; [lia|].
  intros n Hn; rewrite S1 in Hn; rewrite S3; unfold Emix.
  destruct (mem n l0 && negb (mem n todo)); [rewrite Hg by assumption|]; apply L; assumption.
Qed.

(* ------------------------------------------------------------ sort_by_field *)
Definition g_sort (perm : list Z) (n : name) (b : buf) : res (option buf) :=
  match np_take (bdata b) (SIdx perm) with
  | Err e => Err e
  | Ok vs => Ok (Some (mkbuf (bdt b) vs))
  end.

Lemma sort_one_eq : forall perm fname (s1 : store) o1 l b,
  assoc fname (fields o1) = Some l -> rd s1 l = Some b ->
  sort_one perm fname (s1, o1) =
    match g_sort perm fname b with
    | Err e => ((s1, o1), Raised e)
    | Ok None => ((s1, o1), Done)
    | Ok (Some b') => ((s1 ++ [b'], with_fields o1 (dset (fields o1) fname (length s1))), Done)
    end.
Proof.
  intros perm fname s1 o1 l b H1 H2; unfold sort_one, g_sort; rewrite H1, H2.
  destruct (np_take (bdata b) (SIdx perm)); reflexivity.
Qed.

Lemma is_perm_length : forall perm n, is_perm perm n = true -> length perm = n.
Proof. intros perm n H; unfold is_perm in H; apply andb_prop in H; destruct H as [H _]; apply Nat.eqb_eq; assumption. Qed.

Lemma sort_spec : forall s E o n perm, repr s E o ->
  match sort_by_field s o n perm with
  | ((s', o'), x) =>
      exists ext todo, s' = s ++ ext /\ repr s' (Emix (g_sort perm) (fnl o) E todo) o' /\ frame_rel s o s' o'
        /\ same_shape o o'
        /\ (x = Done -> todo = [] /\ In n (keys (fields o)) /\ argsort_ok (bdata (E n)) perm = true)
        /\ (todo = fnl o \/ (In n (keys (fields o)) /\ argsort_ok (bdata (E n)) perm = true))
        /\ (x = Done -> forall k, In k (fnl o) -> exists r, g_sort perm k (E k) = Ok r)
        /\ (forall k, In k (fnl o) -> ~ In k todo -> exists r, g_sort perm k (E k) = Ok r)
        /\ (x = Done \/ (exists k e, In k (fnl o) /\ g_sort perm k (E k) = Err e /\ x = Raised e)
            \/ (todo = fnl o /\ s' = s /\ o' = o /\ (assoc n (fields o) = None \/ argsort_ok (bdata (E n)) perm = false)))
  end.
Proof.
  intros s E o n perm R; unfold sort_by_field.
  assert (Triv : exists ext todo, s = s ++ ext /\ repr s (Emix (g_sort perm) (fnl o) E todo) o /\ frame_rel s o s o
        /\ same_shape o o /\ todo = fnl o).
  { exists [], (fnl o); rewrite app_nil_r; splits; auto; try apply frame_refl; try apply same_shape_refl.
    eapply repr_ext; [exact R|]. intros k Hk; unfold Emix. destruct (mem k (fnl o)); reflexivity. }
  destruct Triv as (e0 & t0 & T1 & T2 & T3 & T4 & T5).
  destruct (assoc n (fields o)) as [l|] eqn:A.
  2:{ exists e0, t0; splits; auto; try (intros; congruence); try (intros k Hk Hn; subst t0; contradiction);
      try solve [right; right; splits; auto]. }
  pose proof (r_cols _ _ _ R _ _ (assoc_In _ _ _ A)) as C; rewrite C.
  pose proof (assoc_keys _ _ _ A) as Hin.
  destruct (argsort_ok (bdata (E n)) perm) eqn:AO.
  2:{ exists e0, t0; splits; auto; try (intros; congruence); try (intros k Hk Hn; subst t0; contradiction);
      try solve [right; right; splits; auto]. }
  pose proof (map_loop (g_sort perm) (sort_one perm) s (fnl o)) as ML.
  assert (Feq : forall fname ext o1 l1 b, In fname (fnl o) -> assoc fname (fields o1) = Some l1 ->
     rd (s ++ ext) l1 = Some b -> sort_one perm fname ((s ++ ext, o1) : mstate) =
       match g_sort perm fname b with
       | Err e => ((s ++ ext, o1), Raised e)
       | Ok None => ((s ++ ext, o1), Done)
       | Ok (Some b') => (((s ++ ext) ++ [b'], with_fields o1 (dset (fields o1) fname (length (s ++ ext)))), Done)
       end).
  { intros; eapply sort_one_eq; eassumption. }
  specialize (ML Feq E o R).
  assert (NDf : NoDup (fnl o)) by (rewrite (r_fnl _ _ _ R); apply R).
  assert (Subf : forall k, In k (fnl o) -> In k (keys (fields o))) by (intros k; rewrite (r_fnl _ _ _ R); auto).
  specialize (ML NDf Subf).
  unfold mstate, store in *.
  destruct (loop (sort_one perm) (fnl o) (s, o)) as [[s' o'] x].
  destruct ML as (ext & todo & M1 & M2 & M3 & M4 & M5 & M6 & M7 & M8 & M9).
  exists ext, todo; splits; auto.
  destruct M7 as [M7|M7]; [left; assumption | right; left; assumption].
Qed.

Lemma sort_inv : forall s o n perm, obj_inv s o ->
  match sort_by_field s o n perm with
  | ((s', o'), _) => frame_rel s o s' o' /\ obj_inv s' o'
  end.
Proof.
  intros s o n perm (E & R & L). pose proof (sort_spec s E o n perm R) as S.
  destruct (sort_by_field s o n perm) as [[s' o'] x].
  destruct S as (ext & todo & S1 & S2 & S3 & S4 & S5 & S6 & S7 & _).
  split; [assumption|]. eexists; split; [exact S2|].
  destruct S6 as [->|[Hin AO]].
  - destruct L as [L0 L1]; destruct S4 as (Q1 & Q2 & Q3 & Q4). split; [lia|].
    intros k Hk; rewrite Q1 in Hk; rewrite Q3; unfold Emix.
    replace (mem k (fnl o)) with true; [cbn; apply L1; assumption|].
    symmetry; apply mem_In; rewrite (r_fnl _ _ _ R); assumption.
  - eapply eqlen_Emix; try eassumption.
    intros k Hk; unfold G, g_sort. destruct (np_take (bdata (E k)) (SIdx perm)) as [vs|] eqn:T; [|reflexivity].
    apply np_take_idx_length in T. unfold argsort_ok in AO; apply andb_prop in AO; destruct AO as [AO _].
    apply is_perm_length in AO. destruct L as [L0 L1].
    unfold blen, zlen in *; cbn. pose proof (L1 k Hk); pose proof (L1 n Hin). lia.
Qed.

(* ------------------------------------------------------------ convert_dtypes / set_field_dtype *)
Definition g_conv (conv : list (dtype * dtype)) (exc : list name) (n : name) (b : buf) : res (option buf) :=
  if mem n exc then Ok None
  else match assoc (bdt b) conv with
       | None => Ok None
       | Some dt => Ok (Some (astype dt b))
       end.

Lemma convert_spec : forall s E o conv exc, repr s E o ->
  match convert_dtypes s o conv exc with
  | ((s', o'), x) =>
      exists ext todo, s' = s ++ ext /\ repr s' (Emix (g_conv conv exc) (fnl o) E todo) o' /\ frame_rel s o s' o'
        /\ same_shape o o' /\ (x = Done -> todo = [])
  end.
Proof.
  intros s E o conv exc R; unfold convert_dtypes.
  pose proof (map_loop (g_conv conv exc) (convert_one conv exc) s (fnl o)) as ML.
  assert (Feq : forall fname ext o1 l1 b, In fname (fnl o) -> assoc fname (fields o1) = Some l1 ->
     rd (s ++ ext) l1 = Some b -> convert_one conv exc fname ((s ++ ext, o1) : mstate) =
       match g_conv conv exc fname b with
       | Err e => ((s ++ ext, o1), Raised e)
       | Ok None => ((s ++ ext, o1), Done)
       | Ok (Some b') => (((s ++ ext) ++ [b'], with_fields o1 (dset (fields o1) fname (length (s ++ ext)))), Done)
       end).
  { intros fname ext o1 l1 b _ H1 H2; unfold convert_one, g_conv.
    destruct (mem fname exc); [reflexivity|]. rewrite H1, H2. destruct (assoc (bdt b) conv); reflexivity. }
  specialize (ML Feq E o R).
  assert (NDf : NoDup (fnl o)) by (rewrite (r_fnl _ _ _ R); apply R).
  assert (Subf : forall k, In k (fnl o) -> In k (keys (fields o))) by (intros k; rewrite (r_fnl _ _ _ R); auto).
  specialize (ML NDf Subf).
  unfold mstate, store in *.
  destruct (loop (convert_one conv exc) (fnl o) (s, o)) as [[s' o'] x].
  destruct ML as (ext & todo & M1 & M2 & M3 & M4 & M5 & M6 & M7 & M8 & M9).
  exists ext, todo; splits; auto.
Qed.

Lemma convert_inv : forall s o conv exc, obj_inv s o ->
  match convert_dtypes s o conv exc with
  | ((s', o'), _) => frame_rel s o s' o' /\ obj_inv s' o'
  end.
Proof.
  intros s o conv exc (E & R & L). pose proof (convert_spec s E o conv exc R) as S.
  destruct (convert_dtypes s o conv exc) as [[s' o'] x].
  destruct S as (ext & todo & S1 & S2 & S3 & S4 & S5).
  split; [assumption|]. eexists; split; [exact S2|].
  eapply eqlen_Emix; try eassumption.
  intros k Hk; unfold G, g_conv. destruct (mem k exc); [reflexivity|].
  destruct (assoc (bdt (E k)) conv); reflexivity.
Qed.

Lemma set_field_dtype_spec : forall s E o n dt, repr s E o ->
  match set_field_dtype s o n dt with
  | ((s', o'), Done) =>
      In n (keys (fields o)) /\ frame_rel s o s' o' /\ same_shape o o'
      /\ repr s' (upd E n (astype dt (E n))) o'
  | ((s', o'), _) => s' = s /\ o' = o
  end.
Proof.
  intros s E o n dt R; unfold set_field_dtype.
  destruct (assoc n (fields o)) as [l|] eqn:A; [|split; reflexivity].
  pose proof (r_cols _ _ _ R _ _ (assoc_In _ _ _ A)) as C; rewrite C.
  pose proof (assoc_keys _ _ _ A) as Hin.
  destruct (bdt (E n) =? dt) eqn:Q.
  - apply Z.eqb_eq in Q. splits; auto; try apply frame_refl; try apply same_shape_refl.
    eapply repr_ext; [exact R|]. intros k Hk; unfold upd. destruct (k =? n) eqn:Q2; [|reflexivity].
    apply Z.eqb_eq in Q2; subst k. unfold astype; rewrite <- Q. destruct (E n); reflexivity.
  - cbn [alloc]. destruct (replace_col s E o n (astype dt (E n)) R Hin) as (B1 & B2 & B3).
    splits; auto. unfold same_shape; rewrite B3; cbn; splits; reflexivity.
Qed.

Lemma set_field_dtype_inv : forall s o n dt, obj_inv s o ->
  match set_field_dtype s o n dt with
  | ((s', o'), _) => frame_rel s o s' o' /\ obj_inv s' o'
  end.
Proof.
  intros s o n dt (E & R & L). pose proof (set_field_dtype_spec s E o n dt R) as S.
  destruct (set_field_dtype s o n dt) as [[s' o'] x]; destruct x.
  - destruct S as (S1 & S2 & (Q1 & Q2 & Q3 & Q4) & S4). split; [assumption|]. eexists; split; [exact S4|].
    destruct L as [L0 L1]; split; [lia|]. intros k Hk; rewrite Q1 in Hk; rewrite Q3; unfold upd.
    destruct (k =? n) eqn:Q; [apply Z.eqb_eq in Q; subst k; unfold blen, astype; cbn; apply (L1 n Hk) | apply L1; assumption].
  - destruct S as [-> ->]; split; [apply frame_refl | exists E; split; assumption].
  - destruct S as [-> ->]; split; [apply frame_refl | exists E; split; assumption].
Qed.

(* ------------------------------------------------------------ indices *)
Lemma get_indices_spec : forall s E o, repr s E o -> 0 <= olen o ->
  match get_indices s o with
  | ((s', o'), x) =>
      x = Done /\ repr s' E o' /\ frame_rel s o s' o' /\ fields o' = fields o /\ olen o' = olen o
      /\ exists li b, oidx o' = Some li /\ rd s' li = Some b /\ bdata b = arange (Z.to_nat (olen o))
  end.
Proof.
  intros s E o R L0; unfold get_indices.
  destruct (oidx o) as [li|] eqn:I.
  - splits; auto; try apply frame_refl.
    pose proof (r_idx _ _ _ R) as X; unfold idx_ok in X; rewrite I in X. destruct X as [b [X1 X2]].
    exists li, b; splits; auto.
  - cbn [alloc]. rewrite K_indices_n.
    set (b := mkbuf 2 (arange (Z.to_nat (olen o)))).
    destruct (repr_extend s E o [b] R) as [R' F'].
    pose proof (r_locs _ _ _ R) as ND; unfold obj_locs in ND; rewrite I in ND; cbn in ND; rewrite app_nil_r in ND.
    splits; auto.
    + constructor; cbn [fields fnl olen oidx]; try apply R'.
      * unfold obj_locs; cbn [fields oidx optl].
        apply NoDup_app_intro; [assumption | constructor; [intros [] | constructor] |].
        intros x Hx [<-|[]].
        assert (x' : (length s < length s)%nat); [|lia].
        eapply (repr_loc_lt s E o); [exact R|]. unfold obj_locs; apply in_or_app; left; assumption.
      * unfold idx_ok; cbn [oidx olen]. exists b; split; [apply rd_app_new | reflexivity].
    + destruct F' as (F1 & F2 & F3); split; [assumption | split; [|assumption]].
      intros l Hl; unfold obj_locs in Hl; cbn [fields oidx optl] in Hl. apply in_app_or in Hl.
      destruct Hl as [Hl|[<-|[]]]; [left; unfold obj_locs; apply in_or_app; left; assumption | right; lia].
    + exists (length s), b; splits; auto. apply rd_app_new.
Qed.

(* ------------------------------------------------------------ append *)
Definition g_app (Ea : name -> buf) (n : name) (b : buf) : res (option buf) := Ok (Some (np_append b (Ea n))).

Lemma forallb_In : forall A (p : A -> bool) l, forallb p l = true -> forall x, In x l -> p x = true.
Proof. intros A p l H x Hx; rewrite forallb_forall in H; apply H; assumption. Qed.

(* `a` is the appended table; it is either the same object or lives elsewhere in the store *)
Lemma append_spec : forall s E o Ea a, repr s E o -> repr s Ea a ->
  match append s o a with
  | ((s', o'), Done) =>
      exists ext, s' = s ++ ext /\ frame_rel s o s' o'
        /\ repr s' (fun n => np_append (E n) (Ea n)) o'
        /\ keys (fields o') = keys (fields o) /\ olen o' = olen o + olen a /\ oidx o' = None
        /\ (forall n, In n (keys (fields o)) -> In n (keys (fields a)))
  | ((s', o'), _) => s' = s /\ o' = o /\ forallb (has a) (fnl o) = false
  end.
Proof.
  intros s E o Ea a R Ra; unfold append.
  destruct (forallb (has a) (fnl o)) eqn:FA; [|splits; reflexivity].
  assert (Hsub : forall n, In n (keys (fields o)) -> In n (keys (fields a))).
  { intros n Hn; apply (repr_has _ _ _ _ Ra). eapply forallb_In; [exact FA|]. rewrite (r_fnl _ _ _ R); assumption. }
  pose proof (map_loop (g_app Ea) (append_one a) s (fnl o)) as ML.
  assert (Feq : forall fname ext o1 l1 b, In fname (fnl o) -> assoc fname (fields o1) = Some l1 ->
     rd (s ++ ext) l1 = Some b -> append_one a fname ((s ++ ext, o1) : mstate) =
       match g_app Ea fname b with
       | Err e => ((s ++ ext, o1), Raised e)
       | Ok None => ((s ++ ext, o1), Done)
       | Ok (Some b') => (((s ++ ext) ++ [b'], with_fields o1 (dset (fields o1) fname (length (s ++ ext)))), Done)
       end).
  { intros fname ext o1 l1 b Hf H1 H2; unfold append_one, g_app. rewrite H1.
    assert (Ha : In fname (keys (fields a))) by (apply Hsub; rewrite <- (r_fnl _ _ _ R); assumption).
    destruct (repr_assoc _ _ _ _ Ra Ha) as [l2 [A1 A2]]. rewrite A1, H2.
    rewrite rd_prefix; [|eapply rd_lt; eassumption]. rewrite A2. reflexivity. }
  specialize (ML Feq E o R).
  assert (NDf : NoDup (fnl o)) by (rewrite (r_fnl _ _ _ R); apply R).
  assert (Subf : forall k, In k (fnl o) -> In k (keys (fields o))) by (intros k; rewrite (r_fnl _ _ _ R); auto).
  specialize (ML NDf Subf).
  unfold mstate, store in *.
  destruct (loop (append_one a) (fnl o) (s, o)) as [[s' o'] x].
  destruct ML as (ext & todo & M1 & M2 & M3 & M4 & M5 & M6 & M7 & M8 & M9).
  destruct x.
  - specialize (M5 eq_refl); subst todo. destruct M4 as (Q1 & Q2 & Q3 & Q4).
    exists ext; splits; auto.
    + destruct M3 as (F1 & F2 & F3); split; [assumption | split; [|assumption]].
      intros l Hl; apply F2. unfold obj_locs in *; cbn [fields oidx optl] in Hl. rewrite app_nil_r in Hl.
      apply in_or_app; left; assumption.
    + apply repr_no_idx. eapply repr_ext; [exact M2|].
      intros n Hn; unfold Emix, G, g_app. rewrite Q1 in Hn.
      replace (mem n (fnl o)) with true; [reflexivity|]. symmetry; apply mem_In; rewrite (r_fnl _ _ _ R); assumption.
    + cbn; rewrite K_append_new_len; lia.
  - (* the body never raises: g_app is total *)
    exfalso. destruct M7 as [M7|(n & e' & _ & M7 & _)]; [discriminate | unfold g_app in M7; discriminate].
  - exfalso. destruct M7 as [M7|(n & e' & _ & _ & M7)]; discriminate.
Qed.
