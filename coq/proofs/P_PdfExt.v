(* C10 at the extended-real instance: what the code returns when a
   normalisation is zero (S = 0: window without on-time; empty declination
   band), and agreement with the real-number model whenever it is not. *)
From Coq Require Import Reals ZArith List Bool Lra Lia.
From Coquelicot Require Import Coquelicot.
From Sky Require Import Num NumR Result G_pdf M_Pdf M_PdfExt S_Pdf P_PdfTime P_Pdf.
Import ListNotations.
Open Scope R_scope.

(* ------------------------------------------------------------------ any number system *)
(* off-time events get exactly zero whatever S is (np.zeros, masked store) *)
Lemma off_time_zero {T} (N : Num T) ivs p t :
  lt_is_on N ivs t = false ->
  sig_time_pd N ivs p t = nzero N /\ bkg_time_pd N ivs p t = nzero N.
Proof. unfold sig_time_pd, bkg_time_pd. intros ->. split; reflexivity. Qed.

Ltac xred :=
  cbn [nleb nltb neqb nmax nmin nsub nadd nzero none ndiv XNum xleb xltb xeqb xmax xmin xsub xadd xopp andb orb].

Section Ext.
  Variable e : R -> R.
  Let X := XNum e.
  Let N := RNum e.

  Lemma xdiv_zero x :
    xdiv (Fin x) (Fin 0) =
    if Req_EM_T x 0 then XNaN else if Rlt_dec 0 x then PInf else NInf.
  Proof.
    cbn [xdiv]. destruct (Req_EM_T 0 0) as [_|H]; [|exfalso; apply H; reflexivity].
    destruct (Req_EM_T x 0); [reflexivity|].
    unfold xsign_inf, Rltb. destruct (Rlt_dec 0 x); reflexivity.
  Qed.

  Lemma xdiv_fin x y : y <> 0 -> xdiv (Fin x) (Fin y) = Fin (x / y).
  Proof. intros H. cbn [xdiv]. destruct (Req_EM_T y 0); [contradiction | reflexivity]. Qed.

  (* S = 0: the density of an on-time event is +inf where the profile is
     positive and NaN where it is zero; off-time events stay 0 *)
  Theorem time_pd_S_zero ivs p t :
    S_of X ivs p = Fin 0 ->
    (lt_is_on X ivs t = false -> sig_time_pd X ivs p t = Fin 0) /\
    (lt_is_on X ivs t = true -> forall x, prof_call X p t = Fin x ->
       (0 < x -> sig_time_pd X ivs p t = PInf) /\ (x = 0 -> sig_time_pd X ivs p t = XNaN)).
  Proof.
    intros HS. unfold sig_time_pd. split.
    - intros ->. reflexivity.
    - intros -> x Hx. rewrite HS, Hx.
      change (tp_sig_pd X (Fin 0) (Fin x)) with (xdiv (Fin x) (Fin 0)).
      rewrite xdiv_zero. split; intros H.
      + destruct (Req_EM_T x 0); [lra|]. destruct (Rlt_dec 0 x); [reflexivity | lra].
      + destruct (Req_EM_T x 0); [reflexivity | contradiction].
  Qed.

  (* S finite and non-zero: the extended model is the real model *)
  Theorem time_pd_fin S x : S <> 0 -> tp_sig_pd X (Fin S) (Fin x) = Fin (tp_sig_pd N S x).
  Proof. intros H. change (tp_sig_pd X (Fin S) (Fin x)) with (xdiv (Fin x) (Fin S)). apply xdiv_fin. exact H. Qed.

  (* ---------------------------------------------------------------- energy histogram *)
  Lemma fold_xadd l a : fold_left xadd (map Fin l) (Fin a) = Fin (fold_left Rplus l a).
  Proof. revert a. induction l as [|x l IH]; intros a; [reflexivity|]. cbn [map fold_left xadd]. apply IH. Qed.

  Lemma nsum_fin l : nsum X (map Fin l) = Fin (Rsum l).
  Proof.
    unfold nsum. cbn [nadd nzero X XNum]. rewrite fold_xadd, fold_left_Rplus. f_equal. apply Rplus_0_l.
  Qed.

  (* a declination band without content: every entry is 0/0 = NaN *)
  Theorem eh_band_empty c w :
    length c = length w -> Rsum c = 0 -> List.Forall (fun x => x = 0) c ->
    eh_band X (map Fin c) (map Fin w) = map (fun _ => XNaN) c.
  Proof.
    intros Hlen Hs Hc. unfold eh_band. rewrite nsum_fin, Hs. clear Hs.
    revert w Hlen. induction Hc as [|x c Hx Hc IH]; intros [|y w] Hlen; try discriminate; [reflexivity|].
    cbn [map combine fst snd]. f_equal; [|apply IH; cbn in Hlen; lia].
    subst x. change (eh_div X (Fin 0) (eh_norm X (Fin 0) (Fin y))) with (xdiv (Fin 0) (xmul (Fin 0) (Fin y))).
    cbn [xmul]. rewrite Rmult_0_l, xdiv_zero.
    destruct (Req_EM_T 0 0) as [_|H]; [reflexivity | exfalso; apply H; reflexivity].
  Qed.

  (* a band with content and positive widths: the extended model is the real model *)
  Theorem eh_band_fin c w :
    length c = length w -> Rsum c <> 0 -> List.Forall (fun x => x <> 0) w ->
    eh_band X (map Fin c) (map Fin w) = map Fin (eh_band N c w).
  Proof.
    intros Hlen Hs Hw. unfold eh_band. rewrite nsum_fin. unfold N. rewrite nsum_R.
    generalize dependent (Rsum c). intros s Hs.
    revert w Hlen Hw. induction c as [|x c IH]; intros [|y w] Hlen Hw; try discriminate; [reflexivity|].
    inversion Hw as [|? ? Hy Hw']; subst.
    cbn [map combine fst snd]. f_equal; [|apply IH; [cbn in Hlen; lia | exact Hw']].
    change (eh_div X (Fin x) (eh_norm X (Fin s) (Fin y))) with (xdiv (Fin x) (xmul (Fin s) (Fin y))).
    cbn [xmul]. rewrite xdiv_fin; [reflexivity|].
    apply Rmult_integral_contrapositive_currified; assumption.
  Qed.

  (* ---------------------------------------------------------------- validity check and NaN (fix 837a912) *)
  (* a NaN value is out of range for every binning: it is rejected by
     assert_is_valid_for_trial_data and never reaches the lookup *)
  Theorem nan_rejected lo up : bin_oor_n X XNaN lo up = true.
  Proof. unfold bin_oor_n, X. destruct lo, up; reflexivity. Qed.

  Theorem inf_rejected lo up :
    bin_oor_n X PInf (Fin lo) (Fin up) = true /\ bin_oor_n X NInf (Fin lo) (Fin up) = true.
  Proof.
    unfold bin_oor_n, X. cbn [nleb XNum xleb xltb xeqb orb]. split; [|reflexivity].
    destruct (true && false) eqn:E; [discriminate E | reflexivity].
  Qed.

  Theorem fin_range x lo up :
    bin_oor_n X (Fin x) (Fin lo) (Fin up) = negb (Rleb lo x && Rleb x up).
  Proof. reflexivity. Qed.

  (* the check as it was before the repair accepted NaN *)
  Lemma nan_accepted_before lo up :
    orb (nltb X XNaN (Fin lo)) (nltb X (Fin up) XNaN) = false.
  Proof. reflexivity. Qed.

  (* TimePDF.assert_is_valid_for_trial_data accepts a NaN time (both comparisons
     false); the evaluation is total and such an event is off-time: density 0 *)
  Theorem nan_time_accepted_and_zero lo up ivs p :
    tp_time_oor X XNaN (Fin lo) (Fin up) = false /\
    sig_time_pd X ivs p XNaN = Fin 0 /\ bkg_time_pd X ivs p XNaN = Fin 0.
  Proof.
    split; [reflexivity|].
    assert (H : lt_is_on X ivs XNaN = false).
    { unfold lt_is_on. induction ivs as [|[l u] r IH]; [reflexivity|].
      cbn [existsb fst snd]. rewrite IH.
      assert (nleb X l XNaN = false) as -> by (unfold X; destruct l; reflexivity).
      reflexivity. }
    destruct (off_time_zero X ivs p XNaN H) as [A B]. split; [exact A | exact B].
  Qed.

  (* ---------------------------------------------------------------- witnesses: the guards are needed *)
  (* a zero-width box inside the on-time: S = 0 and the on-time event at the box gets +inf *)
  Lemma S_zero_witness :
    S_of X [(Fin 0, Fin 1)] (Box (Fin (1 / 2)) (Fin (1 / 2))) = Fin 0 /\
    sig_time_pd X [(Fin 0, Fin 1)] (Box (Fin (1 / 2)) (Fin (1 / 2))) (Fin (1 / 2)) = PInf /\
    sig_time_pd X [(Fin 0, Fin 1)] (Box (Fin (1 / 2)) (Fin (1 / 2))) (Fin (1 / 4)) = XNaN /\
    sig_time_pd X [(Fin 0, Fin 1)] (Box (Fin (1 / 2)) (Fin (1 / 2))) (Fin 2) = Fin 0.
  Proof.
    unfold X.
    assert (HS : S_of (XNum e) [(Fin 0, Fin 1)] (Box (Fin (1 / 2)) (Fin (1 / 2))) = Fin 0).
    { unfold S_of, S_terms, lt_between, nsum, prof_int,
        tp_box_int_m, tp_box_int_val, tp_box_int_lo, tp_box_int_hi.
      cbn [p_start p_stop filter map fst snd fold_left].
      repeat (xred; rdec).
      cbn [filter map fst snd fold_left]. repeat (xred; rdec).
      f_equal. lra. }
    split; [exact HS|].
    repeat split; unfold sig_time_pd; rewrite HS; unfold lt_is_on, prof_call, tp_box_call_m;
      cbn [existsb fst snd]; repeat (xred; rdec); try reflexivity;
      change (tp_sig_pd (XNum e) (Fin 0) ?a) with (xdiv a (Fin 0)); rewrite xdiv_zero.
    - destruct (Req_EM_T 1 0); [lra|]. destruct (Rlt_dec 0 1); [reflexivity | lra].
    - destruct (Req_EM_T 0 0) as [_|H]; [reflexivity | exfalso; apply H; reflexivity].
  Qed.
End Ext.

(* at the real-number reading the guard S <> 0 of the normalisation theorem is
   necessary: a window after the live time has S = 0 and the integrals sum to 0 *)
Lemma S_zero_refuted (e : R -> R) :
  wfR [(0, 1)] /\ 2 <= 3 /\
  S_of (RNum e) [(0, 1)] (Box 2 3) = 0 /\
  Rsum (map (fun iv => RInt (sig_time_pd (RNum e) [(0, 1)] (Box 2 3)) (fst iv) (snd iv)) [(0, 1)]) = 0.
Proof.
  assert (HS : S_of (RNum e) [(0, 1)] (Box 2 3) = 0).
  { rewrite S_of_win. cbn [map Rsum fold_right]. unfold win_val. cbn [fst snd p_start p_stop]. rdec. cbn [andb]. lra. }
  split; [cbn; lra|]. split; [lra|]. split; [exact HS|].
  cbn [map Rsum fold_right fst snd].
  rewrite (is_RInt_unique _ 0 1 0); [lra|].
  apply is_RInt_zero_on; [lra|]. intros t Ht.
  rewrite sig_pd_on. destruct (lt_is_on (RNum e) [(0, 1)] t); [|reflexivity].
  cbn [prof_call]. rewrite K_tp_box_call_m. rdec. cbn [andb nzero RNum]. unfold Rdiv. ring.
Qed.
