(* Proofs for C12, part 4: the gamma-fit branch of calculate_pval_from_trials_mixed
   (calculate_pval_from_gammafit_to_trials).  The fit + scipy.stats.gamma.sf is the
   oracle `sf eta tail x`; its contract (values in [0,1], positive at eta,
   non-increasing) appears as explicit premises. *)
From Coq Require Import Reals ZArith List Bool Lia Lra.
From Sky Require Import Result PyList Num NumR G_stat M_Stat S_Stat P_Stat P_StatR P_StatTop.
Import ListNotations.
Open Scope R_scope.

(* ------------------------------------------------------------------ K lemmas *)
Lemma K_gf_below_eta t e : gf_below_eta t e = true <-> (t < e)%Z.
Proof. unfold gf_below_eta. apply Z.ltb_lt. Qed.
Lemma K_gf_trunc_test n l : gf_trunc_test n l = true <-> (n < l)%Z.
Proof. unfold gf_trunc_test. rewrite Z.gtb_lt. tauto. Qed.
Lemma K_gf_trunc_upper n : gf_trunc_upper n = n. Proof. reflexivity. Qed.
Lemma K_gf_tail_mask x e : gf_tail_mask x e = true <-> (e < x)%Z.
Proof. unfold gf_tail_mask. rewrite Z.gtb_lt. tauto. Qed.
Lemma K_gf_sf_args x : gf_sf0_arg x = x /\ gf_sf1_arg x = x. Proof. split; reflexivity. Qed.

Lemma bool_eq_of_iff (b : bool) (c : bool) : (b = true <-> c = true) -> b = c.
Proof. destruct b, c; intros [H1 H2]; try reflexivity; [symmetry; apply H1; reflexivity | apply H2; reflexivity]. Qed.

Lemma gf_below_eta_ltb t e : gf_below_eta t e = (t <? e)%Z.
Proof. apply bool_eq_of_iff. rewrite K_gf_below_eta, Z.ltb_lt. tauto. Qed.
Lemma gf_trunc_test_ltb n l : gf_trunc_test n l = (n <? l)%Z.
Proof. apply bool_eq_of_iff. rewrite K_gf_trunc_test, Z.ltb_lt. tauto. Qed.
Lemma gf_tail_mask_ltb x e : gf_tail_mask x e = (e <? x)%Z.
Proof. apply bool_eq_of_iff. rewrite K_gf_tail_mask, Z.ltb_lt. tauto. Qed.

Section RG.
  Variable e : R -> R.
  Notation N := (RNum e).
  Lemma K_gf_alpha k n : gf_alpha N k n = IZR k / IZR n.
  Proof. unfold gf_alpha. num_R. reflexivity. Qed.
  Lemma K_gf_norm a s : gf_norm N a s = a / s.
  Proof. unfold gf_norm. num_R. reflexivity. Qed.
  Lemma K_gf_p n s : gf_p N n s = n * s.
  Proof. unfold gf_p. num_R. reflexivity. Qed.
  Lemma K_gf_psigma : gf_psigma N = 0.
  Proof. unfold gf_psigma. num_R. reflexivity. Qed.
End RG.

(* ------------------------------------------------------------------ counts *)
Definition trunc (ts : list Z) (n_max : Z) : list Z :=
  if (n_max <? zlen ts)%Z then py_slice ts 0 n_max else ts.
Definition tail_of (ts : list Z) (eta : Z) : list Z := filter (fun x => (eta <? x)%Z) ts.

Lemma filter_ext_bool {A} (f g : A -> bool) l : (forall x, f x = g x) -> filter f l = filter g l.
Proof. intros H. induction l as [|a r IH]; cbn [filter]; [reflexivity|]. rewrite H, IH. reflexivity. Qed.

Lemma gammafit_counts_char ts t eta m :
  gammafit_counts ts t eta m =
    if (t <? eta)%Z then Err ValueError
    else if (zlen (trunc ts m) =? 0)%Z then Err ZeroDivision
    else Ok (zlen (tail_of (trunc ts m) eta), zlen (trunc ts m), tail_of (trunc ts m) eta).
Proof.
  unfold gammafit_counts. rewrite gf_below_eta_ltb. destruct (t <? eta)%Z; [reflexivity|].
  rewrite gf_trunc_test_ltb, K_gf_trunc_upper. fold (trunc ts m).
  rewrite (filter_ext_bool (fun x => gf_tail_mask x eta) (fun x => (eta <? x)%Z)) by (intros x; apply gf_tail_mask_ltb).
  fold (tail_of (trunc ts m) eta). unfold py_truediv_ints.
  destruct (zlen (trunc ts m) =? 0)%Z; reflexivity.
Qed.

Lemma zlen_filter_le {A} (f : A -> bool) l : (0 <= zlen (filter f l) <= zlen l)%Z.
Proof.
  unfold zlen. induction l as [|a r IH]; cbn [filter length]; [lia|].
  destruct (f a); cbn [length]; lia.
Qed.

Lemma zlen_tail_n_greater ts eta : zlen (tail_of ts eta) = n_greater ts eta.
Proof.
  unfold tail_of, n_greater, zlen. induction ts as [|a r IH]; cbn [filter count_spec length]; [reflexivity|].
  destruct (eta <? a)%Z; cbn [length]; lia.
Qed.

Lemma trunc_id ts m : (zlen ts <= m)%Z -> trunc ts m = ts.
Proof. intros H. unfold trunc. destruct (m <? zlen ts)%Z eqn:E; [apply Z.ltb_lt in E; lia|reflexivity]. Qed.

Section RG2.
  Variable e : R -> R.
  Notation N := (RNum e).
  Variable sf : Z -> list Z -> Z -> R.

  Lemma pval_gammafit_char ts t eta m :
    pval_gammafit N sf ts t eta m =
      match gammafit_counts ts t eta m with
      | Ok (k, n, tail) => Ok (IZR k / IZR n / sf eta tail eta * sf eta tail t, 0)
      | Err x => Err x
      end.
  Proof.
    unfold pval_gammafit. destruct (gammafit_counts ts t eta m) as [[[k n] tail]|x]; cbn [bind]; [|reflexivity].
    destruct (K_gf_sf_args eta) as [A0 _]. destruct (K_gf_sf_args t) as [_ A1].
    rewrite A0, A1, K_gf_p, K_gf_norm, K_gf_alpha, K_gf_psigma. reflexivity.
  Qed.

  (* explicit form *)
  Lemma pval_gammafit_ok ts t eta m p s :
    pval_gammafit N sf ts t eta m = Ok (p, s) ->
    (eta <= t)%Z /\ (0 < zlen (trunc ts m))%Z /\ s = 0
    /\ p = IZR (zlen (tail_of (trunc ts m) eta)) / IZR (zlen (trunc ts m))
           / sf eta (tail_of (trunc ts m) eta) eta * sf eta (tail_of (trunc ts m) eta) t.
  Proof.
    rewrite pval_gammafit_char, gammafit_counts_char.
    destruct (t <? eta)%Z eqn:E1; [discriminate|]. apply Z.ltb_ge in E1.
    destruct (zlen (trunc ts m) =? 0)%Z eqn:E2; [discriminate|]. apply Z.eqb_neq in E2.
    intros H. injection H as Hp Hs. subst. repeat split; auto.
    pose proof (zlen_filter_le (fun _ : Z => true) (trunc ts m)). unfold zlen in *. lia.
  Qed.

  (* the oracle's contract *)
  Hypothesis sf_range : forall eta l x, 0 <= sf eta l x <= 1.
  Hypothesis sf_pos : forall eta l, 0 < sf eta l eta.
  Hypothesis sf_mono : forall eta l x y, (x <= y)%Z -> sf eta l y <= sf eta l x.

  Lemma alpha_range ts m eta :
    (0 < zlen (trunc ts m))%Z ->
    0 <= IZR (zlen (tail_of (trunc ts m) eta)) / IZR (zlen (trunc ts m)) <= 1.
  Proof. intros Hn. apply pfrac_range; [apply zlen_filter_le | exact Hn]. Qed.

  Lemma gamma_range ts t eta m p s :
    pval_gammafit N sf ts t eta m = Ok (p, s) ->
    0 <= p <= IZR (zlen (tail_of (trunc ts m) eta)) / IZR (zlen (trunc ts m)) /\ p <= 1 /\ s = 0.
  Proof.
    intros H. apply pval_gammafit_ok in H. destruct H as [Ht [Hn [Hs Hp]]].
    pose proof (alpha_range ts m eta Hn) as [A0 A1].
    set (al := IZR (zlen (tail_of (trunc ts m) eta)) / IZR (zlen (trunc ts m))) in *.
    set (l := tail_of (trunc ts m) eta) in *.
    pose proof (sf_pos eta l) as P0. pose proof (sf_range eta l t) as [R0 R1].
    pose proof (sf_mono eta l eta t Ht) as M.
    assert (Hq : 0 <= sf eta l t / sf eta l eta <= 1).
    { split.
      - apply Rmult_le_pos; [exact R0|]. left. apply Rinv_0_lt_compat. exact P0.
      - apply (Rmult_le_reg_r (sf eta l eta)); [exact P0|]. unfold Rdiv. rewrite Rmult_assoc, Rinv_l by lra. lra. }
    assert (Hp' : p = al * (sf eta l t / sf eta l eta)) by (rewrite Hp; field; lra).
    destruct Hq as [Q0 Q1]. set (q := sf eta l t / sf eta l eta) in *. clearbody q al.
    assert (B0 : 0 <= al * q) by (apply Rmult_le_pos; assumption).
    assert (B1 : al * q <= al * 1) by (apply Rmult_le_compat_l; assumption).
    rewrite Hp'. repeat split; try assumption; lra.
  Qed.

  Lemma gamma_mono ts t t' eta m p s p' s' :
    (t <= t')%Z ->
    pval_gammafit N sf ts t eta m = Ok (p, s) -> pval_gammafit N sf ts t' eta m = Ok (p', s') -> p' <= p.
  Proof.
    intros Htt H H'. apply pval_gammafit_ok in H, H'.
    destruct H as [Ht [Hn [_ Hp]]]. destruct H' as [_ [_ [_ Hp']]].
    pose proof (alpha_range ts m eta Hn) as [A0 _].
    set (al := IZR (zlen (tail_of (trunc ts m) eta)) / IZR (zlen (trunc ts m))) in *.
    set (l := tail_of (trunc ts m) eta) in *.
    pose proof (sf_pos eta l) as P0. pose proof (sf_mono eta l t t' Htt) as M.
    assert (Hc : 0 <= al / sf eta l eta).
    { apply Rmult_le_pos; [exact A0|]. left. apply Rinv_0_lt_compat. exact P0. }
    rewrite Hp, Hp'. apply Rmult_le_compat_l; assumption.
  Qed.

  Lemma gamma_at_eta ts eta m p s :
    pval_gammafit N sf ts eta eta m = Ok (p, s) ->
    p = IZR (zlen (tail_of (trunc ts m) eta)) / IZR (zlen (trunc ts m)).
  Proof.
    intros H. apply pval_gammafit_ok in H. destruct H as [_ [Hn [_ Hp]]]. rewrite Hp.
    pose proof (sf_pos eta (tail_of (trunc ts m) eta)). apply IZR_lt in Hn. field. split; lra.
  Qed.

  (* ---------------------------------------------------------------- _mixed, both branches *)
  Lemma pval_mixed_full_char op ts t s eta m :
    pval_mixed_full N sf op ts t s eta m =
      if (t <? s)%Z then pval_trials N op ts t
      else pval_gammafit N sf ts t (match eta with Some x => x | None => s end) m.
  Proof.
    unfold pval_mixed_full. rewrite pval_mixed_char. destruct (t <? s)%Z; [|reflexivity].
    rewrite pval_trials_char.
    destruct (pval_counts op ts t) as [[k n]|x] eqn:E; cbn [bind]; [|reflexivity].
    reflexivity.
  Qed.

  Lemma mixed_full_range op ts t s eta m p sg :
    pval_mixed_full N sf op ts t s eta m = Ok (p, sg) -> 0 <= p <= 1.
  Proof.
    rewrite pval_mixed_full_char. destruct (t <? s)%Z.
    - intros H. pose proof (pval_trials_inv e op ts t p sg H) as [Hne [Hop _]].
      destruct (top_pval_range e op ts t Hne Hop) as [p0 [s0 [H0 [_ [Hr _]]]]].
      rewrite H in H0. injection H0 as -> ->. exact Hr.
    - intros H. destruct (gamma_range _ _ _ _ _ _ H) as [[H0 _] [H1 _]]. lra.
  Qed.

  (* non-increasing over the whole threshold axis when the sample is not
     truncated (len <= n_max) and eta is the default (= switch_at_ts) *)
  Lemma mixed_full_mono op ts t t' s m p sg p' sg' :
    (zlen ts <= m)%Z -> (t <= t')%Z ->
    pval_mixed_full N sf op ts t s None m = Ok (p, sg) ->
    pval_mixed_full N sf op ts t' s None m = Ok (p', sg') -> p' <= p.
  Proof.
    intros Hm Htt. rewrite !pval_mixed_full_char.
    destruct (t <? s)%Z eqn:E1; destruct (t' <? s)%Z eqn:E2.
    - apply top_pval_mono. exact Htt.
    - intros H H'. apply Z.ltb_lt in E1. apply Z.ltb_ge in E2.
      destruct (gamma_range _ _ _ _ _ _ H') as [[_ Hle] _].
      apply pval_trials_inv in H. destruct H as [Hne [Hop ->]].
      rewrite (trunc_id ts m Hm), zlen_tail_n_greater in Hle.
      eapply Rle_trans; [exact Hle|]. apply pfrac_le; [apply zlen_pos; exact Hne|].
      destruct op; cbn [n_above]; [apply n_greater_mono; lia | | congruence].
      apply count_spec_le. intros x Hx. apply Z.ltb_lt in Hx. apply Z.leb_le. lia.
    - apply Z.ltb_ge in E1. apply Z.ltb_lt in E2. lia.
    - apply gamma_mono. exact Htt.
  Qed.
End RG2.

(* with a truncated sample (len > n_max) the p-value can increase across the
   switch: the gamma branch normalises with the tail fraction of the FIRST
   n_max trials, the trials branch counts all of them *)
Lemma mixed_full_refuted (e : R -> R) :
  exists (sf : Z -> list Z -> Z -> R) ts s m p sg p' sg',
    (forall eta l x, 0 <= sf eta l x <= 1) /\ (forall eta l, 0 < sf eta l eta)
    /\ (forall eta l x y, (x <= y)%Z -> sf eta l y <= sf eta l x)
    /\ (m < zlen ts)%Z
    /\ pval_mixed_full (RNum e) sf Greater ts 0%Z s None m = Ok (p, sg)
    /\ pval_mixed_full (RNum e) sf Greater ts s s None m = Ok (p', sg')
    /\ (0 <= s)%Z /\ p < p'.
Proof.
  exists (fun _ _ _ => 1), [5; 0; 0; 0]%Z, 1%Z, 1%Z, (IZR 1 / IZR 4), (sqrt (IZR 1 / IZR 4 * (1 - IZR 1 / IZR 4) / IZR 4)),
         (IZR 1 / IZR 1 / 1 * 1), 0.
  split; [intros; lra|]. split; [intros; lra|]. split; [intros; lra|].
  split; [vm_compute; reflexivity|].
  split.
  { rewrite pval_mixed_full_char. change (0 <? 1)%Z with true.
    rewrite pval_trials_char.
    replace (pval_counts Greater [5; 0; 0; 0]%Z 0%Z) with (@Ok (Z * Z) (1, 4)%Z) by (vm_compute; reflexivity).
    reflexivity. }
  split.
  { rewrite pval_mixed_full_char. change (1 <? 1)%Z with false.
    rewrite pval_gammafit_char.
    replace (gammafit_counts [5; 0; 0; 0]%Z 1%Z 1%Z 1%Z) with (@Ok (Z * Z * list Z) (1, 1, [5])%Z) by (vm_compute; reflexivity).
    reflexivity. }
  split; [lia|]. lra.
Qed.
