(* C10 <-> C14: on integer-valued (dyadic) inputs the closed forms lt_is_on /
   lt_between used by the time-PDF model coincide with the model of the
   code's digitize-based Livetime methods (M_Livetime, tied to the code by its
   own kernels and correspondence). *)
From Coq Require Import Reals ZArith List Bool Lra Lia.
From Sky Require Import Num NumR Result PyList M_Livetime S_Livetime P_Livetime G_pdf M_Pdf M_PdfExt S_Pdf.
Import ListNotations.

Definition IZR2 (iv : Z * Z) : R * R := (IZR (fst iv), IZR (snd iv)).

Lemma Rleb_IZR a b : Rleb (IZR a) (IZR b) = (a <=? b)%Z.
Proof.
  destruct (a <=? b)%Z eqn:E.
  - apply Rleb_true. apply IZR_le. apply Z.leb_le. exact E.
  - apply Rleb_false. intros H. apply le_IZR in H. apply Z.leb_gt in E. lia.
Qed.

Lemma Rltb_IZR a b : Rltb (IZR a) (IZR b) = (a <? b)%Z.
Proof.
  destruct (a <? b)%Z eqn:E.
  - apply Rltb_true. apply IZR_lt. apply Z.ltb_lt. exact E.
  - apply Rltb_false. intros H. apply lt_IZR in H. apply Z.ltb_ge in E. lia.
Qed.

Lemma Rmax_IZR a b : Rmax (IZR a) (IZR b) = IZR (Z.max a b).
Proof.
  destruct (Z.max_spec a b) as [[H ->]|[H ->]].
  - apply Rmax_right. apply IZR_le. lia.
  - apply Rmax_left. apply IZR_le. lia.
Qed.

Lemma Rmin_IZR a b : Rmin (IZR a) (IZR b) = IZR (Z.min a b).
Proof.
  destruct (Z.min_spec a b) as [[H ->]|[H ->]].
  - apply Rmin_left. apply IZR_le. lia.
  - apply Rmin_right. apply IZR_le. lia.
Qed.

Section Bridge.
  Variable erf : R -> R.
  Let N := RNum erf.

  Lemma lt_is_on_Z ivs t :
    lt_is_on N (map IZR2 ivs) (IZR t)
    = existsb (fun iv => (fst iv <=? t)%Z && (t <? snd iv)%Z) ivs.
  Proof.
    unfold lt_is_on. induction ivs as [|[l u] r IH]; [reflexivity|].
    cbn [map existsb IZR2 fst snd nleb nltb N RNum] in *.
    rewrite IH, Rleb_IZR, Rltb_IZR. reflexivity.
  Qed.

  (* Livetime.is_on *)
  Theorem is_on_bridge ivs t :
    wf ivs -> lt_is_on N (map IZR2 ivs) (IZR t) = is_on ivs t.
  Proof.
    intros Hwf. rewrite lt_is_on_Z.
    destruct (is_on ivs t) eqn:E.
    - apply (is_on_spec ivs t Hwf) in E. destruct E as (l & u & Hin & Ht).
      apply existsb_exists. exists (l, u). split; [exact Hin|].
      cbn [fst snd]. apply andb_true_intro. split; [apply Z.leb_le | apply Z.ltb_lt]; lia.
    - destruct (existsb _ ivs) eqn:F; [|reflexivity].
      apply existsb_exists in F. destruct F as ([l u] & Hin & H).
      cbn [fst snd] in H. apply andb_prop in H. destruct H as [H1 H2].
      apply Z.leb_le in H1. apply Z.ltb_lt in H2.
      assert (is_on ivs t = true) as C.
      { apply (is_on_spec ivs t Hwf). exists l, u. split; [exact Hin | lia]. }
      congruence.
  Qed.

  Lemma lt_between_Z ivs t1 t2 :
    lt_between N (map IZR2 ivs) (IZR t1) (IZR t2) = map IZR2 (clip ivs t1 t2).
  Proof.
    unfold lt_between, clip.
    induction ivs as [|[l u] r IH]; [reflexivity|].
    cbn [map filter IZR2 fst snd nleb nltb nmax nmin N RNum] in *.
    rewrite Rltb_IZR, Rleb_IZR.
    destruct ((t1 <? u)%Z && (l <=? t2)%Z).
    - cbn [map]. rewrite IH. unfold clip1, IZR2. cbn [fst snd].
      rewrite Rmax_IZR, Rmin_IZR. reflexivity.
    - exact IH.
  Qed.

  (* Livetime.get_uptime_intervals_between *)
  Theorem between_bridge ivs t1 t2 :
    wf ivs -> (t1 <= t2)%Z ->
    between ivs t1 t2 = Ok (clip ivs t1 t2) /\
    lt_between N (map IZR2 ivs) (IZR t1) (IZR t2) = map IZR2 (clip ivs t1 t2).
  Proof.
    intros Hwf Ht. split; [apply between_clip; assumption | apply lt_between_Z].
  Qed.

  (* integer interval lists accepted by the integrity check are well-formed
     real interval lists *)
  Lemma chain_chainR lo ivs : chain lo ivs -> chainR (IZR lo) (map IZR2 ivs).
  Proof.
    revert lo. induction ivs as [|[l u] r IH]; intros lo H; [exact I|].
    cbn in H. destruct H as (H1 & H2 & H3).
    cbn [map IZR2 fst snd chainR]. repeat split.
    - apply IZR_le. exact H1.
    - apply IZR_le. exact H2.
    - apply IH. exact H3.
  Qed.

  Theorem wf_wfR ivs : wf ivs -> wfR (map IZR2 ivs).
  Proof.
    destruct ivs as [|[l u] r]; [intros _; exact I|].
    intros H. exact (chain_chainR l ((l, u) :: r) H).
  Qed.
End Bridge.

(* the range test of BinningDefinition.any_data_out_of_range read over Z (index
   model) and over the extended reals (NaN model) agree on integer values *)
Theorem bin_oor_bridge (erf : R -> R) x lo up :
  bin_oor_n (XNum erf) (Fin (IZR x)) (Fin (IZR lo)) (Fin (IZR up)) = bin_oor x lo up.
Proof.
  unfold bin_oor_n, bin_oor. cbn [nleb XNum xleb]. rewrite !Rleb_IZR, Z.geb_leb. reflexivity.
Qed.
