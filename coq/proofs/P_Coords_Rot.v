(* C19 proofs, part 2: the Rodrigues rotation of rotate_spherical_vector
   (orthogonal, maps v1 to v2, preserves separations; degenerate axes
   included), the conversion of a unit vector back to (ra, dec), and
   psi_to_dec_and_ra. *)
From Coq Require Import Reals ZArith List Bool Lra Lia Psatz.
From Sky Require Import Num NumR G_coords M_Coords S_Coords P_Coords_Real P_Coords_K P_Coords.
Import ListNotations.
Open Scope R_scope.

(* ---------------------------------------------------------------- pure algebra *)
(* c v + (1-c)(n.v) n + s (n x v) *)
Definition rodrigues (c s : R) (n v : V3) : V3 :=
  let nv := vdot n v in
  (c * c1 v + (1 - c) * nv * c1 n + s * (c2 n * c3 v - c3 n * c2 v),
   c * c2 v + (1 - c) * nv * c2 n + s * (c3 n * c1 v - c1 n * c3 v),
   c * c3 v + (1 - c) * nv * c3 n + s * (c1 n * c2 v - c2 n * c1 v)).

Definition cross3 (a b : V3) : V3 :=
  (c2 a * c3 b - c3 a * c2 b, c3 a * c1 b - c1 a * c3 b, c1 a * c2 b - c2 a * c1 b).

(* the rotation axis as the code builds it: normalised only when norm > 0 *)
Definition axis (u v : V3) : V3 :=
  let w := cross3 u v in
  let m := sqrt (c1 w * c1 w + c2 w * c2 w + c3 w * c3 w) in
  if Rltb 0 m then (c1 w / m, c2 w / m, c3 w / m) else w.

(* the hand-structured identity: n.n stays symbolic *)
Lemma rodrigues_dot c s n a b :
  vdot (rodrigues c s n a) (rodrigues c s n b)
  = ((1 - c) * (1 - c) * vdot n n + 2 * c * (1 - c) - s * s) * (vdot n a * vdot n b)
    + (c * c + s * s * vdot n n) * vdot a b.
Proof.
  destruct n as [[n0 n1] n2], a as [[a0 a1] a2], b as [[b0 b1] b2].
  unfold rodrigues, vdot, c1, c2, c3. cbn [fst snd]. ring.
Qed.

Lemma lagrange u v : vdot (cross3 u v) (cross3 u v) = vdot u u * vdot v v - vdot u v * vdot u v.
Proof.
  destruct u as [[u0 u1] u2], v as [[v0 v1] v2].
  unfold cross3, vdot, c1, c2, c3. cbn [fst snd]. ring.
Qed.

Lemma vdot_mk a0 a1 a2 b : vdot (a0, a1, a2) b = a0 * c1 b + a1 * c2 b + a2 * c3 b.
Proof. reflexivity. Qed.
Lemma vdot_mk2 a0 a1 a2 b0 b1 b2 : vdot (a0, a1, a2) (b0, b1, b2) = a0 * b0 + a1 * b1 + a2 * b2.
Proof. reflexivity. Qed.
Lemma rodrigues_mk c s n0 n1 n2 v :
  rodrigues c s (n0, n1, n2) v =
  (c * c1 v + (1 - c) * vdot (n0, n1, n2) v * n0 + s * (n1 * c3 v - n2 * c2 v),
   c * c2 v + (1 - c) * vdot (n0, n1, n2) v * n1 + s * (n2 * c1 v - n0 * c3 v),
   c * c3 v + (1 - c) * vdot (n0, n1, n2) v * n2 + s * (n0 * c2 v - n1 * c1 v)).
Proof. reflexivity. Qed.

Lemma v3_ext a0 a1 a2 (v : V3) : a0 = c1 v -> a1 = c2 v -> a2 = c3 v -> (a0, a1, a2) = v.
Proof. destruct v as [[v0 v1] v2]. unfold c1, c2, c3. cbn [fst snd]. intros; subst; reflexivity. Qed.

Lemma sin_acos_sq c : -1 <= c <= 1 -> sin (acos c) * sin (acos c) = 1 - c * c.
Proof.
  intros H. rewrite sin_acos by exact H. rewrite sqrt_sqrt; [unfold Rsqr; ring|].
  unfold Rsqr. nra.
Qed.

Lemma sin_acos_nonneg c : -1 <= c <= 1 -> 0 <= sin (acos c).
Proof. intros H. rewrite sin_acos by exact H. apply sqrt_pos. Qed.

Section Axis.
  Variables u v : V3.
  Hypothesis Hu : vdot u u = 1.
  Hypothesis Hv : vdot v v = 1.
  Let c := vdot u v.
  Let s := sin (acos c).
  Let n := axis u v.
  Let w := cross3 u v.

  Lemma c_bound : -1 <= c <= 1.
  Proof. apply vdot_unit_bound; assumption. Qed.

  Lemma ww : vdot w w = 1 - c * c.
  Proof. unfold w. rewrite lagrange, Hu, Hv. fold c. ring. Qed.

  Lemma ss : s * s = 1 - c * c.
  Proof. apply sin_acos_sq. apply c_bound. Qed.

  (* the two regimes of the axis *)
  Lemma axis_cases :
    (0 < sqrt (vdot w w) /\ n = (c1 w / sqrt (vdot w w), c2 w / sqrt (vdot w w), c3 w / sqrt (vdot w w))
       /\ s = sqrt (vdot w w))
    \/ (n = (0, 0, 0) /\ s = 0 /\ c * c = 1).
  Proof.
    unfold n, axis. fold w.
    change (c1 w * c1 w + c2 w * c2 w + c3 w * c3 w) with (vdot w w).
    destruct (Rltb 0 (sqrt (vdot w w))) eqn:E.
    - left. apply Rltb_true in E. split; [exact E|]. split; [reflexivity|].
      unfold s. rewrite sin_acos by apply c_bound. f_equal. rewrite ww. unfold Rsqr. ring.
    - right. apply Rltb_false in E.
      assert (W0 : vdot w w = 0).
      { apply sqrt_not_pos; [|exact E]. rewrite ww. generalize c_bound. nra. }
      assert (C1 : c * c = 1) by (rewrite ww in W0; lra).
      assert (S0 : s = 0).
      { assert (s * s = 0) by (rewrite ss; lra). nra. }
      split; [|split; assumption].
      destruct w as [[w0 w1] w2]. unfold vdot, c1, c2, c3 in *. cbn [fst snd] in *.
      destruct (sumsq3_zero _ _ _ W0) as (X & Y & Z). subst. reflexivity.
  Qed.

  (* isometry: R^T R = 1 *)
  Lemma rodrigues_isometry a b :
    vdot (rodrigues c s n a) (rodrigues c s n b) = vdot a b.
  Proof.
    rewrite rodrigues_dot.
    destruct axis_cases as [(Hm & Hn & Hs) | (Hn & Hs & Hc)].
    - assert (NN : vdot n n = 1).
      { rewrite Hn. set (m := sqrt (vdot w w)) in *.
        assert (MM : m * m = vdot w w) by (apply sqrt_sqrt; rewrite ww; generalize c_bound; nra).
        rewrite vdot_mk2. unfold vdot in MM.
        transitivity ((c1 w * c1 w + c2 w * c2 w + c3 w * c3 w) / (m * m)); [field; lra|].
        rewrite <- MM. field. lra. }
      rewrite NN, ss. ring.
    - rewrite Hn, Hs.
      rewrite vdot_mk2, !vdot_mk.
      transitivity ((c * c) * vdot a b); [ring|]. rewrite Hc. ring.
  Qed.

  (* the rotation maps v1 onto v2 *)
  Lemma rodrigues_maps : rodrigues c s n u = v.
  Proof.
    destruct axis_cases as [(Hm & Hn & Hs) | (Hn & Hs & Hc)].
    - rewrite Hn, Hs. set (m := sqrt (vdot w w)) in *.
      assert (WU : vdot w u = 0).
      { unfold w. destruct u as [[u0 u1] u2], v as [[v0 v1] v2].
        unfold cross3, vdot, c1, c2, c3. cbn [fst snd]. ring. }
      rewrite rodrigues_mk.
      assert (NV : vdot (c1 w / m, c2 w / m, c3 w / m) u = 0).
      { rewrite vdot_mk. transitivity (vdot w u / m); [unfold vdot; field; lra|].
        rewrite WU. field. lra. }
      rewrite NV.
      replace (m * (c2 w / m * c3 u - c3 w / m * c2 u)) with (c2 w * c3 u - c3 w * c2 u) by (field; lra).
      replace (m * (c3 w / m * c1 u - c1 w / m * c3 u)) with (c3 w * c1 u - c1 w * c3 u) by (field; lra).
      replace (m * (c1 w / m * c2 u - c2 w / m * c1 u)) with (c1 w * c2 u - c2 w * c1 u) by (field; lra).
      assert (E0 : c * c1 u + (c2 w * c3 u - c3 w * c2 u) = c1 v * vdot u u)
        by (unfold c, w, cross3, vdot, c1, c2, c3; cbn [fst snd]; ring).
      assert (E1 : c * c2 u + (c3 w * c1 u - c1 w * c3 u) = c2 v * vdot u u)
        by (unfold c, w, cross3, vdot, c1, c2, c3; cbn [fst snd]; ring).
      assert (E2 : c * c3 u + (c1 w * c2 u - c2 w * c1 u) = c3 v * vdot u u)
        by (unfold c, w, cross3, vdot, c1, c2, c3; cbn [fst snd]; ring).
      rewrite Hu in E0, E1, E2.
      apply v3_ext; lra.
    - rewrite Hn, Hs, rodrigues_mk, vdot_mk.
      (* |v - c u|^2 = 1 - c^2 = 0 *)
      assert (D : (c1 v - c * c1 u) * (c1 v - c * c1 u) + (c2 v - c * c2 u) * (c2 v - c * c2 u)
                  + (c3 v - c * c3 u) * (c3 v - c * c3 u) = 0).
      { transitivity (vdot v v - 2 * c * vdot u v + c * c * vdot u u); [unfold vdot; ring|].
        rewrite Hu, Hv. fold c. lra. }
      destruct (sumsq3_zero _ _ _ D) as (X & Y & Z).
      apply v3_ext; lra.
  Qed.
End Axis.

(* ---------------------------------------------------------------- (ra, dec) of a unit vector *)
Lemma clip_id z : -1 <= z <= 1 -> Rmin (Rmax z (-1)) 1 = z.
Proof. intros H. rewrite Rmax_left by lra. apply Rmin_left. lra. Qed.

Lemma clip_range z : -1 <= Rmin (Rmax z (-1)) 1 <= 1.
Proof.
  split.
  - apply Rmin_glb; [apply Rmax_r | lra].
  - apply Rmin_r.
Qed.

Lemma unit_z_bound x y z : x * x + y * y + z * z = 1 -> -1 <= z <= 1.
Proof. intros H. split; nra. Qed.

(* any angle with the cosine and sine of atan2(y, x), and dec = asin z *)
Lemma dirv_of_unit x y z ra :
  x * x + y * y + z * z = 1 ->
  cos ra = cos (Ratan2 y x) -> sin ra = sin (Ratan2 y x) ->
  dirv ra (asin z) = (x, y, z).
Proof.
  intros H Hc Hs. assert (Hz := unit_z_bound x y z H).
  unfold dirv. rewrite Hc, Hs, sin_asin, cos_asin by exact Hz.
  replace (1 - z²) with (x * x + y * y) by (unfold Rsqr; lra).
  destruct (Ratan2_cos_sin y x) as [C S].
  apply v3_ext; unfold c1, c2, c3; cbn [fst snd]; lra.
Qed.

Section P.
  Variable e : R -> R.
  Notation N := (RNum e).

  (* ---------------------------------------------------------------- model = algebra *)
  Lemma rot_vec1_R ra dec : rot_vec1 N ra dec = dirv ra dec.
  Proof. unfold rot_vec1, dirv. rewrite K_rot_v1x, K_rot_v1y, K_rot_v1z. reflexivity. Qed.
  Lemma rot_vec2_R ra dec : rot_vec2 N ra dec = dirv ra dec.
  Proof. unfold rot_vec2, dirv. rewrite K_rot_v2x, K_rot_v2y, K_rot_v2z. reflexivity. Qed.
  Lemma rot_vec3_R ra dec : rot_vec3 N ra dec = dirv ra dec.
  Proof. unfold rot_vec3, dirv. rewrite K_rot_v3x, K_rot_v3y, K_rot_v3z. reflexivity. Qed.

  Lemma rot_cosa_R ra1 d1 ra2 d2 : rot_cosa N ra1 d1 ra2 d2 = vdot (dirv ra1 d1) (dirv ra2 d2).
  Proof.
    unfold rot_cosa. rewrite K_rot_cos_alpha, cos_minus.
    set (c0 := (cos ra2 * cos ra1 + sin ra2 * sin ra1) * cos d1 * cos d2 + sin d1 * sin d2).
    assert (E : c0 = vdot (dirv ra1 d1) (dirv ra2 d2)).
    { unfold c0, vdot, dirv, c1, c2, c3. cbn [fst snd]. ring. }
    assert (B := dirv_dot_bound ra1 d1 ra2 d2). rewrite <- E in B.
    rewrite K_rot_clip_hi_mask. destruct (Rltb 1 c0) eqn:E1; [apply Rltb_true in E1; lra|].
    rewrite K_rot_clip_lo_mask. destruct (Rltb c0 (-1)) eqn:E2; [apply Rltb_true in E2; lra|].
    exact E.
  Qed.

  Lemma cross_R (a b : V3) : cross N a b = cross3 a b.
  Proof. unfold cross, cross3, vx, vy, vz, c1, c2, c3. num_R. reflexivity. Qed.

  Lemma rot_axis_R (a b : V3) : rot_axis N a b = axis a b.
  Proof.
    unfold rot_axis, axis. rewrite cross_R. set (w := cross3 a b).
    unfold rot_norm_of. rewrite K_rot_norm, sum3_R, !K_rot_norm_term, K_rot_axis_mask.
    unfold vget, vx, vy, vz, c1, c2, c3.
    destruct (Rltb 0 _); [|reflexivity].
    unfold vmk. rewrite !K_rot_axis_div. reflexivity.
  Qed.

  Lemma matvec_rot c s (n v : V3) :
    matvec N (rot_matrix_of N c s n) v = rodrigues c s n v.
  Proof.
    unfold rot_matrix_of.
    destruct n as [[n0 n1] n2], v as [[v0 v1] v2].
    unfold matvec, vmk. rewrite !sum3_R.
    unfold mmk, vmk, mget, mrow, vget, vx, vy, vz. cbn [fst snd].
    rewrite !K_rot_R. unfold nrotx. rewrite !K_rot_nrotx.
    unfold outer, eye, skv, vget, vx, vy, vz. cbn [fst snd]. num_R.
    unfold rodrigues, vdot, c1, c2, c3. cbn [fst snd].
    apply v3_ext; unfold c1, c2, c3; cbn [fst snd]; ring.
  Qed.

  Lemma rot_matrix_apply ra1 d1 ra2 d2 (v : V3) :
    matvec N (rot_matrix N ra1 d1 ra2 d2) v
    = rodrigues (vdot (dirv ra1 d1) (dirv ra2 d2))
                (sin (acos (vdot (dirv ra1 d1) (dirv ra2 d2))))
                (axis (dirv ra1 d1) (dirv ra2 d2)) v.
  Proof.
    unfold rot_matrix. cbv zeta. rewrite matvec_rot.
    rewrite K_rot_sin_alpha, K_rot_alpha, rot_cosa_R, rot_axis_R.
    rewrite (rot_vec1_R ra1 d1), (rot_vec2_R ra2 d2). reflexivity.
  Qed.

  (* orthogonality, as an isometry of the inner product *)
  Lemma rot_matrix_isometry ra1 d1 ra2 d2 (a b : V3) :
    vdot (matvec N (rot_matrix N ra1 d1 ra2 d2) a) (matvec N (rot_matrix N ra1 d1 ra2 d2) b)
    = vdot a b.
  Proof. rewrite !rot_matrix_apply. apply rodrigues_isometry; apply dirv_unit. Qed.

  Lemma rot_matrix_maps ra1 d1 ra2 d2 :
    matvec N (rot_matrix N ra1 d1 ra2 d2) (dirv ra1 d1) = dirv ra2 d2.
  Proof. rewrite rot_matrix_apply. apply rodrigues_maps; apply dirv_unit. Qed.

  (* ---------------------------------------------------------------- back to (ra, dec) *)
  Lemma rot_radec_spec (w : V3) :
    vdot w w = 1 ->
    dirv (fst (rot_radec N w)) (snd (rot_radec N w)) = w
    /\ 0 <= fst (rot_radec N w) < 2 * PI
    /\ - (PI / 2) <= snd (rot_radec N w) <= PI / 2.
  Proof.
    destruct w as [[x y] z]. unfold vdot, c1, c2, c3. cbn [fst snd]. intros H.
    unfold rot_radec, vx, vy, vz. cbn [fst snd].
    rewrite K_rot_ra_mod, K_rot_ra_wrap, K_rot_ra, K_rot_twopi, K_rot_dec.
    rewrite clip_id by (apply (unit_z_bound x y z H)).
    split; [|split].
    - apply dirv_of_unit; [exact H| |].
      + rewrite cos_Rfmod. destruct (Rltb (Ratan2 y x) 0); [|f_equal; ring].
        replace (Ratan2 y x + 2 * PI) with (Ratan2 y x + 2 * IZR 1 * PI) by ring.
        apply cos_period_Z.
      + rewrite sin_Rfmod. destruct (Rltb (Ratan2 y x) 0); [|f_equal; ring].
        replace (Ratan2 y x + 2 * PI) with (Ratan2 y x + 2 * IZR 1 * PI) by ring.
        apply sin_period_Z.
    - apply Rfmod_bound. apply twoPI_pos.
    - apply asin_bound.
  Qed.

  (* ranges hold for every real 3-vector, unit or not *)
  Lemma rot_radec_range (w : V3) :
    0 <= fst (rot_radec N w) < 2 * PI /\ - (PI / 2) <= snd (rot_radec N w) <= PI / 2.
  Proof.
    unfold rot_radec. cbn [fst snd]. rewrite K_rot_ra_mod, K_rot_twopi, K_rot_dec.
    split; [apply Rfmod_bound; apply twoPI_pos | apply asin_bound].
  Qed.

  Lemma rot_sv_dirv ra1 d1 ra2 d2 ra3 d3 :
    dirv (fst (rot_sv N ra1 d1 ra2 d2 ra3 d3)) (snd (rot_sv N ra1 d1 ra2 d2 ra3 d3))
    = matvec N (rot_matrix N ra1 d1 ra2 d2) (dirv ra3 d3).
  Proof.
    unfold rot_sv. rewrite (rot_vec3_R ra3 d3).
    apply rot_radec_spec. rewrite rot_matrix_isometry. apply dirv_unit.
  Qed.

  (* rotating the reconstructed direction keeps its separation from the true direction *)
  Lemma rot_sv_preserves ra1 d1 ra2 d2 ra3 d3 :
    angsep N (fst (rot_sv N ra1 d1 ra2 d2 ra3 d3)) (snd (rot_sv N ra1 d1 ra2 d2 ra3 d3)) ra2 d2 None
    = angsep N ra3 d3 ra1 d1 None.
  Proof.
    apply angsep_of_dot. rewrite rot_sv_dirv.
    rewrite <- (rot_matrix_maps ra1 d1 ra2 d2).
    apply rot_matrix_isometry.
  Qed.

  (* ... and the separation between any two rotated directions *)
  Lemma rot_sv_preserves_pair ra1 d1 ra2 d2 ra3 d3 ra4 d4 :
    angsep N (fst (rot_sv N ra1 d1 ra2 d2 ra3 d3)) (snd (rot_sv N ra1 d1 ra2 d2 ra3 d3))
             (fst (rot_sv N ra1 d1 ra2 d2 ra4 d4)) (snd (rot_sv N ra1 d1 ra2 d2 ra4 d4)) None
    = angsep N ra3 d3 ra4 d4 None.
  Proof. apply angsep_of_dot. rewrite !rot_sv_dirv. apply rot_matrix_isometry. Qed.

  (* the true direction itself lands on the source *)
  Lemma rot_sv_true_on_source ra1 d1 ra2 d2 :
    angsep N (fst (rot_sv N ra1 d1 ra2 d2 ra1 d1)) (snd (rot_sv N ra1 d1 ra2 d2 ra1 d1)) ra2 d2 None = 0.
  Proof. rewrite rot_sv_preserves. apply angsep_self. Qed.

  Lemma rot_sv_range ra1 d1 ra2 d2 ra3 d3 :
    0 <= fst (rot_sv N ra1 d1 ra2 d2 ra3 d3) < 2 * PI
    /\ - (PI / 2) <= snd (rot_sv N ra1 d1 ra2 d2 ra3 d3) <= PI / 2.
  Proof. unfold rot_sv. apply rot_radec_range. Qed.

  (* ---------------------------------------------------------------- psi_to_dec_and_ra *)
  Lemma p2d_xyz_unit sd sr psi t :
    vdot (p2d_xyz N sd sr psi t) (p2d_xyz N sd sr psi t) = 1.
  Proof.
    unfold p2d_xyz. cbv zeta. rewrite K_p2d_x, K_p2d_y, K_p2d_z, K_p2d_a, K_p2d_b, K_p2d_c.
    unfold vdot, c1, c2, c3. cbn [fst snd].
    set (b := PI / 2 - sd).
    generalize (sc1 psi) (sc1 b) (sc1 sr) (sc1 t).
    set (sa := sin psi). set (ca := cos psi). set (sb := sin b). set (cb := cos b).
    set (sc := sin sr). set (cc := cos sr). set (st := sin t). set (ct := cos t).
    intros Ha Hb Hc Ht.
    (* p = (sa ct, sa st, ca); p' = rotation about y by b; then about z by c *)
    transitivity ((sc * sc + cc * cc) * ((cb * (sa * ct) - sb * ca) * (cb * (sa * ct) - sb * ca) + (sa * st) * (sa * st))
                  + (sb * (sa * ct) + cb * ca) * (sb * (sa * ct) + cb * ca)); [ring|].
    rewrite Hc, Rmult_1_l.
    transitivity ((sb * sb + cb * cb) * ((sa * ct) * (sa * ct) + ca * ca) + (sa * st) * (sa * st)); [ring|].
    rewrite Hb, Rmult_1_l.
    transitivity (sa * sa * (st * st + ct * ct) + ca * ca); [ring|].
    rewrite Ht. lra.
  Qed.

  Lemma psi2decra_dirv sd sr psi t :
    dirv (snd (psi2decra N sd sr psi t)) (fst (psi2decra N sd sr psi t))
    = (- c1 (p2d_xyz N sd sr psi t), c2 (p2d_xyz N sd sr psi t), c3 (p2d_xyz N sd sr psi t)).
  Proof.
    assert (U := p2d_xyz_unit sd sr psi t).
    unfold psi2decra. cbv zeta. destruct (p2d_xyz N sd sr psi t) as [[x y] z].
    unfold vdot, c1, c2, c3, vx, vy, vz in *. cbn [fst snd] in *.
    assert (Hz := unit_z_bound x y z U).
    rewrite K_p2d_dec, K_p2d_zen, K_p2d_ra, K_p2d_azi, clip_id by exact Hz.
    rewrite <- asin_acos by exact Hz.
    unfold dirv. rewrite cos_Rfmod, sin_Rfmod.
    unfold Rminus at 1 2. rewrite cos_plus, sin_plus, cos_neg, sin_neg, cos_PI, sin_PI.
    rewrite sin_asin, cos_asin by exact Hz.
    replace (1 - z²) with (x * x + y * y) by (unfold Rsqr; lra).
    destruct (Ratan2_cos_sin y x) as [C S].
    apply v3_ext; unfold c1, c2, c3; cbn [fst snd]; lra.
  Qed.

  Lemma psi2decra_dot sd sr psi t :
    vdot (dirv (snd (psi2decra N sd sr psi t)) (fst (psi2decra N sd sr psi t))) (dirv sr sd) = cos psi.
  Proof.
    rewrite psi2decra_dirv.
    unfold p2d_xyz. cbv zeta. rewrite K_p2d_x, K_p2d_y, K_p2d_z, K_p2d_a, K_p2d_b, K_p2d_c.
    unfold vdot, dirv, c1, c2, c3. cbn [fst snd].
    rewrite (sin_shift sd), (cos_shift sd).
    generalize (sc1 sd) (sc1 sr).
    set (sa := sin psi). set (ca := cos psi). set (sb := cos sd). set (cb := sin sd).
    set (sc := sin sr). set (cc := cos sr). set (st := sin t). set (ct := cos t).
    intros Hb Hc.
    transitivity ((sc * sc + cc * cc) * (ca * sb * sb - sa * cb * sb * ct) + sa * sb * cb * ct + ca * cb * cb); [ring|].
    rewrite Hc, Rmult_1_l.
    transitivity (ca * (cb * cb + sb * sb)); [ring|].
    rewrite Hb. ring.
  Qed.

  (* the drawn direction lies at separation psi from the source *)
  Lemma psi2decra_sep sd sr psi t :
    0 <= psi <= PI ->
    angsep N (snd (psi2decra N sd sr psi t)) (fst (psi2decra N sd sr psi t)) sr sd None = psi.
  Proof.
    intros H. rewrite angsep_angle. unfold angle. rewrite psi2decra_dot. apply acos_cos. exact H.
  Qed.

  Lemma psi2decra_range sd sr psi t :
    - (PI / 2) <= fst (psi2decra N sd sr psi t) <= PI / 2
    /\ 0 <= snd (psi2decra N sd sr psi t) < 2 * PI.
  Proof.
    unfold psi2decra. cbv zeta. cbn [fst snd]. rewrite K_p2d_dec, K_p2d_zen, K_p2d_ra.
    split.
    - generalize (acos_bound (Rmin (Rmax (vz (p2d_xyz N sd sr psi t)) (-1)) 1)). lra.
    - apply Rfmod_bound. apply twoPI_pos.
  Qed.
  (* ---------------------------------------------------------------- composition: what the analysis sees *)
  Lemma tdm_psi_angsep ra dec sra sdec f : tdm_psi N ra dec sra sdec f = angsep N ra dec sra sdec f.
  Proof. unfold tdm_psi. apply K_call_tdm_psi. Qed.
  Lemma signalpdf_psi_angsep sra sdec ra dec : signalpdf_psi N sra sdec ra dec = angsep N sra sdec ra dec None.
  Proof. unfold signalpdf_psi. apply K_call_signalpdf_psi. Qed.

  (* an MC event rotated onto the source enters the psi data field and the spatial
     signal PDF with the separation it had from its true direction *)
  Lemma pipeline_rot ra1 d1 ra2 d2 ra3 d3 :
    tdm_psi N (fst (rot_sv N ra1 d1 ra2 d2 ra3 d3)) (snd (rot_sv N ra1 d1 ra2 d2 ra3 d3)) ra2 d2 None
      = angsep N ra3 d3 ra1 d1 None
    /\ signalpdf_psi N ra2 d2 (fst (rot_sv N ra1 d1 ra2 d2 ra3 d3)) (snd (rot_sv N ra1 d1 ra2 d2 ra3 d3))
      = angsep N ra3 d3 ra1 d1 None.
  Proof.
    rewrite tdm_psi_angsep, signalpdf_psi_angsep, (angsep_sym e ra2 d2). split; apply rot_sv_preserves.
  Qed.

  (* a direction drawn at opening angle psi is seen at psi, unless a larger floor is configured *)
  Lemma pipeline_psi sd sr psi t f :
    0 <= psi <= PI ->
    tdm_psi N (snd (psi2decra N sd sr psi t)) (fst (psi2decra N sd sr psi t)) sr sd None = psi
    /\ tdm_psi N (snd (psi2decra N sd sr psi t)) (fst (psi2decra N sd sr psi t)) sr sd (Some f) = Rmax psi f.
  Proof.
    intros H. rewrite !tdm_psi_angsep, angsep_floor, (psi2decra_sep sd sr psi t H). split; reflexivity.
  Qed.

  (* the guards of the involution and of the psi theorem are needed *)
  Lemma azi2ra_guard_needed mjd : azi2ra N (azi2ra N (2 * PI) mjd) mjd <> 2 * PI.
  Proof.
    rewrite azi2ra_twice.
    replace (Rfmod (2 * PI) (2 * PI)) with 0.
    - generalize PI_RGT_0. lra.
    - symmetry. apply (Rfmod_unique (2 * PI) (2 * PI) 0 1); [apply twoPI_pos | generalize twoPI_pos; lra | ring].
  Qed.

  Lemma psi2decra_guard_needed sd sr psi t :
    psi < 0 ->
    angsep N (snd (psi2decra N sd sr psi t)) (fst (psi2decra N sd sr psi t)) sr sd None <> psi.
  Proof. intros H E. generalize (angsep_range e (snd (psi2decra N sd sr psi t)) (fst (psi2decra N sd sr psi t)) sr sd). lra. Qed.

  Lemma psi2decra_guard_needed_hi sd sr psi t :
    PI < psi ->
    angsep N (snd (psi2decra N sd sr psi t)) (fst (psi2decra N sd sr psi t)) sr sd None <> psi.
  Proof. intros H E. generalize (angsep_range e (snd (psi2decra N sd sr psi t)) (fst (psi2decra N sd sr psi t)) sr sd). lra. Qed.
End P.
