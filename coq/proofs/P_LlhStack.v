(* C02: the stacking rule.  SourceWeightedPDFRatio.get_gradient (M_LlhGrad.sw_grad, numpy `+=`
   plumbing included) returns, for every selected event,
       R_i' = ( - R_i * A' + sum_k ( a_k' R_ik + a_k R_ik' ) ) / A ,
   and this is the derivative of the stacked ratio returned by get_ratio (M_Llh.sw_ratio)
   when the weights a_k and the per-source ratios R_ik are differentiable functions —
   given the C05 invariant (every (source, event) pair listed at most once). *)
From Coq Require Import Reals ZArith List Bool Lra Lia Arith.
From Coquelicot Require Import Coquelicot.
From Sky Require Import Num NumR G_llh G_layout M_Llh M_LlhPipe M_LlhGrad S_Llh S_LlhPipe S_LlhGrad
  P_Llh P_LlhK P_LlhValue P_LlhC1 P_LlhCompose P_LlhDeriv P_LlhGrad.
Import ListNotations.
Open Scope R_scope.

Section S.
  Variable erfR : R -> R.
  Notation Nm := (RNum erfR).

  Definition dak (da_k : option (list R)) (k : nat) : R :=
    match da_k with Some da => nth k da 0 | None => 0 end.
  Definition lookupo (dvals : option (list (nat * nat * R))) (k e : nat) : R :=
    match dvals with Some dv => pair_lookup dv k e | None => 0 end.

  Lemma sw_grad_step_len a da vals dv S k : length (sw_grad_step Nm a da vals dv S k) = length S.
  Proof. unfold sw_grad_step. destruct da, dv; rewrite ?fancy_add_len; reflexivity. Qed.

  Lemma sw_grad_step_at a da vals dv S k e :
    NoDup (map row_pair vals) ->
    (forall d, dv = Some d -> NoDup (map row_pair d)) ->
    (e < length S)%nat ->
    nth e (sw_grad_step Nm a da vals dv S k) 0
    = nth e S 0 + dak da k * pair_lookup vals k e + nth k a 0 * lookupo dv k e.
  Proof.
    intros Hnd Hndd He. unfold sw_grad_step.
    set (S1 := match da with
               | Some da0 => fancy_add (fun old r => k_sw_grad_term_a Nm old (nth k da0 (nzero Nm)) r) S (rows_of k vals)
               | None => S end).
    assert (HS1 : length S1 = length S) by (unfold S1; destruct da; rewrite ?fancy_add_len; reflexivity).
    assert (E1 : nth e S1 0 = nth e S 0 + dak da k * pair_lookup vals k e).
    { unfold S1, dak. destruct da as [da0|]; [|lra].
      rewrite fancy_add_at by exact He.
      pose proof (last_for_pair_lookup vals k e Hnd) as HL. unfold pairs_of in HL.
      change (rows_of k vals) with (map (fun v : nat * nat * R => (snd (fst v), snd v))
                                        (filter (fun v => Nat.eqb (fst (fst v)) k) vals)).
      cbn [nzero RNum].
      destruct (last_for e (map (fun v : nat * nat * R => (snd (fst v), snd v))
                                (filter (fun v => Nat.eqb (fst (fst v)) k) vals))) as [r|].
      - rewrite K_sw_grad_term_a, <- HL. reflexivity.
      - rewrite <- HL. lra. }
    unfold lookupo. destruct dv as [d|]; [|rewrite E1; lra].
    rewrite fancy_add_at by (rewrite HS1; exact He).
    pose proof (last_for_pair_lookup d k e (Hndd d eq_refl)) as HL. unfold pairs_of in HL.
    change (rows_of k d) with (map (fun v : nat * nat * R => (snd (fst v), snd v))
                                   (filter (fun v => Nat.eqb (fst (fst v)) k) d)).
    cbn [nzero RNum].
    destruct (last_for e (map (fun v : nat * nat * R => (snd (fst v), snd v))
                              (filter (fun v => Nat.eqb (fst (fst v)) k) d))) as [r|].
    - rewrite K_sw_grad_term_b, E1, <- HL. reflexivity.
    - rewrite E1, <- HL. lra.
  Qed.

  Lemma sw_grad_fold_len a da vals dv ks : forall S,
    length (fold_left (sw_grad_step Nm a da vals dv) ks S) = length S.
  Proof. induction ks as [|k ks IH]; intros S; cbn [fold_left]; [reflexivity|]. rewrite IH. apply sw_grad_step_len. Qed.

  Lemma sw_grad_fold_at a da vals dv ks : forall S e,
    NoDup (map row_pair vals) -> (forall d, dv = Some d -> NoDup (map row_pair d)) ->
    (e < length S)%nat ->
    nth e (fold_left (sw_grad_step Nm a da vals dv) ks S) 0
    = nth e S 0 + Rsum (map (fun k => dak da k * pair_lookup vals k e + nth k a 0 * lookupo dv k e) ks).
  Proof.
    induction ks as [|k ks IH]; intros S e Hnd Hndd He; cbn [fold_left map].
    - cbn. lra.
    - rewrite IH by (try assumption; rewrite sw_grad_step_len; exact He).
      rewrite sw_grad_step_at by assumption. unfold Rsum. cbn [fold_right]. lra.
  Qed.

  (* the formula of the code, event by event *)
  Definition stack_grad_spec (a : list R) (da : option (list R)) (vals : list (nat * nat * R))
             (dv : option (list (nat * nat * R))) (Re : R) (e : nat) : R :=
    (- Re * match da with Some d => Rsum d | None => 0 end
     + Rsum (map (fun k => dak da k * pair_lookup vals k e + nth k a 0 * lookupo dv k e) (seq 0 (length a))))
    / Rsum a.

  Theorem sw_grad_spec a da n_sel vals dv Ri e :
    NoDup (map row_pair vals) -> (forall d, dv = Some d -> NoDup (map row_pair d)) ->
    length Ri = n_sel -> (e < n_sel)%nat -> (da <> None \/ dv <> None) ->
    nth e (sw_grad Nm a da n_sel vals dv Ri) 0 = stack_grad_spec a da vals dv (nth e Ri 0) e.
  Proof.
    intros Hnd Hndd HL He Hsome. unfold sw_grad.
    assert (Hgen :
      nth e (map (fun p => k_sw_grad_norm Nm (k_sw_grad_add Nm (fst p) (snd p)) (nsum Nm a))
                 (combine (map (fun r => k_sw_grad_init Nm r (match da with Some d => nsum Nm d | None => nzero Nm end)) Ri)
                          (fold_left (sw_grad_step Nm a da vals dv) (seq 0 (length a)) (repeat (nzero Nm) n_sel)))) 0
      = stack_grad_spec a da vals dv (nth e Ri 0) e).
    { set (S := fold_left (sw_grad_step Nm a da vals dv) (seq 0 (length a)) (repeat (nzero Nm) n_sel)).
      assert (HS : length S = n_sel) by (unfold S; rewrite sw_grad_fold_len; apply repeat_length).
      rewrite (nth_map_lt' _ _ e (0, 0) 0) by (rewrite combine_length, map_length, HL, HS; lia).
      rewrite combine_nth by (rewrite map_length, HL, HS; reflexivity). cbn [fst snd].
      rewrite (nth_map_lt' _ Ri e 0 0) by (rewrite HL; exact He).
      rewrite K_sw_grad_norm, K_sw_grad_add, K_sw_grad_init, nsum_R.
      unfold S. rewrite sw_grad_fold_at by (try assumption; rewrite repeat_length; exact He).
      rewrite nth_repeat. unfold stack_grad_spec. cbn [nzero RNum].
      destruct da as [d|]; rewrite ?nsum_R; f_equal; lra. }
    destruct da as [d|]; [exact Hgen|]. destruct dv as [d|]; [exact Hgen|].
    destruct Hsome as [H|H]; contradiction.
  Qed.

  (* ---------------------------------------------------------------- the derivative *)
  (* a lookup in a table whose payload is transformed commutes with the transformation *)
  Lemma pair_lookup_map {A} (h : A -> R) (rows : list (nat * nat * A)) k e :
    pair_lookup (map (fun v => (fst v, h (snd v))) rows) k e
    = match find (fun v => Nat.eqb (fst (fst v)) k && Nat.eqb (snd (fst v)) e) rows with
      | Some v => h (snd v) | None => 0 end.
  Proof.
    unfold pair_lookup. induction rows as [|[[s i] x] rows IH]; [reflexivity|].
    cbn [map find fst snd]. destruct (Nat.eqb s k && Nat.eqb i e); [reflexivity|exact IH].
  Qed.

  Lemma map_row_pair_map {A} (h : A -> R) (rows : list (nat * nat * A)) :
    map row_pair (map (fun v => (fst v, h (snd v))) rows) = map fst rows.
  Proof. rewrite map_map. apply map_ext. intros v. reflexivity. Qed.

  Theorem stacking_rule (aks : list wfun) (rows : list (nat * nat * wfun)) (e : nat) (t0 : R) :
    List.Forall (fun a => is_derive (fst a) t0 (snd a)) aks ->
    List.Forall (fun v => is_derive (fst (snd v)) t0 (snd (snd v))) rows ->
    Rsum (a_at aks t0) <> 0 ->
    is_derive (fun t => stacked_spec (a_at aks t) (rows_at rows t) e) t0
      (stack_grad_spec (a_at aks t0) (Some (d_of aks)) (rows_at rows t0) (Some (drows_of rows))
                       (stacked_spec (a_at aks t0) (rows_at rows t0) e) e).
  Proof.
    intros Ha Hr HA. unfold stacked_spec, stack_grad_spec, dak, lookupo.
    assert (Hlen : forall t, length (a_at aks t) = length aks) by (intros t; unfold a_at; apply map_length).
    (* the k-th weight and the (k,e) ratio as functions *)
    set (Ak := fun k : nat => nth k (map fst aks) (fun _ => 0)).
    set (dAk := fun k : nat => nth k (d_of aks) 0).
    set (Lk := fun k : nat => match find (fun v : nat * nat * wfun => Nat.eqb (fst (fst v)) k && Nat.eqb (snd (fst v)) e) rows with
                              | Some v => fst (snd v) | None => fun _ => 0 end).
    set (dLk := fun k : nat => match find (fun v : nat * nat * wfun => Nat.eqb (fst (fst v)) k && Nat.eqb (snd (fst v)) e) rows with
                               | Some v => snd (snd v) | None => 0 end).
    assert (EA : forall k t, nth k (a_at aks t) 0 = Ak k t).
    { intros k t. unfold Ak, a_at. clear. revert k. induction aks as [|a l IH]; intros [|k]; cbn [map nth]; auto. }
    assert (EL : forall k t, pair_lookup (rows_at rows t) k e = Lk k t).
    { intros k t. unfold rows_at, Lk. rewrite (pair_lookup_map (fun w : wfun => fst w t)).
      destruct (find _ rows); reflexivity. }
    assert (EdL : forall k, pair_lookup (drows_of rows) k e = dLk k).
    { intros k. unfold drows_of, dLk. rewrite (pair_lookup_map (fun w : wfun => snd w)). reflexivity. }
    assert (DA : forall k, is_derive (Ak k) t0 (dAk k)).
    { intros k. unfold Ak, dAk, d_of. clear - Ha. revert k.
      induction Ha as [|a l Hd _ IH]; intros [|k]; cbn [map nth]; try apply (is_derive_const 0); [exact Hd|apply IH]. }
    assert (DL : forall k, is_derive (Lk k) t0 (dLk k)).
    { intros k. unfold Lk, dLk. destruct (find _ rows) as [v|] eqn:Ef; [|apply (is_derive_const 0)].
      apply find_some in Ef. destruct Ef as (Hin & _). rewrite List.Forall_forall in Hr. apply Hr. exact Hin. }
    apply (is_derive_ext (fun t => Rsum (map (fun g => g t) (map (fun k => fun t => Lk k t * Ak k t) (seq 0 (length aks))))
                                   / Rsum (map (fun g => g t) (map fst aks)))).
    { intros t. rewrite Hlen, !map_map.
      assert (E1 : map (fun k => Lk k t * Ak k t) (seq 0 (length aks))
                   = map (fun k => pair_lookup (rows_at rows t) k e * nth k (a_at aks t) 0) (seq 0 (length aks)))
        by (apply map_ext; intros k; rewrite EL, EA; reflexivity).
      rewrite E1. reflexivity. }
    eapply is_derive_eq.
    - apply is_derive_div.
      + apply Rsum_derive.
        instantiate (1 := map (fun k => dLk k * Ak k t0 + Lk k t0 * dAk k) (seq 0 (length aks))).
        induction (seq 0 (length aks)) as [|k ks IH]; cbn [map]; constructor; [|exact IH].
        apply (is_derive_mult (Lk k) (Ak k) t0 (dLk k) (dAk k) (DL k) (DA k)). intros n m. apply Rmult_comm.
      + apply Rsum_derive. instantiate (1 := d_of aks). unfold d_of.
        clear - Ha. induction Ha as [|a l Hd _ IH]; cbn [map]; constructor; [exact Hd|exact IH].
      + rewrite map_map. exact HA.
    - rewrite Hlen, !map_map. cbn beta.
      replace (Rsum (map (fun x : wfun => fst x t0) aks)) with (Rsum (a_at aks t0)) by reflexivity.
      replace (Rsum (map (fun k => pair_lookup (rows_at rows t0) k e * nth k (a_at aks t0) 0) (seq 0 (length aks))))
        with (Rsum (map (fun k => Lk k t0 * Ak k t0) (seq 0 (length aks))))
        by (f_equal; apply map_ext; intros k; rewrite EL, EA; reflexivity).
      replace (Rsum (map (fun k => nth k (d_of aks) 0 * pair_lookup (rows_at rows t0) k e
                                    + nth k (a_at aks t0) 0 * pair_lookup (drows_of rows) k e) (seq 0 (length aks))))
        with (Rsum (map (fun k => dLk k * Ak k t0 + Lk k t0 * dAk k) (seq 0 (length aks))))
        by (f_equal; apply map_ext; intros k; rewrite EL, EA, EdL; unfold dAk; ring).
      unfold a_at in *. field. exact HA.
  Qed.

  (* ---- SigOverBkgPDFRatio.get_gradient: the separately computed mask and the four cases *)
  Lemma K_lk_sobg_mask b : lk_sobg_mask Nm b = Rltb 0 b.
  Proof. unfold lk_sobg_mask. num_R. reflexivity. Qed.

  (* the executed model of one row (M_LlhGrad.sob_eval) is, case by case, the gradient function the
     quotient-rule theorems (P_WeightsDeriv) are about; rows with non-positive background get 0 *)
  Theorem sob_eval_cases z s ds b db :
    snd (sob_eval Nm z s ds b db false false) = 0
    /\ snd (sob_eval Nm z s ds b db true false) = sob_grad_sig Nm ds b
    /\ snd (sob_eval Nm z s ds b db true true) = sob_grad_both Nm s ds b db
    /\ snd (sob_eval Nm z s ds b db false true) = sob_grad_bkg Nm s b db
    /\ fst (sob_eval Nm z s ds b db false false) = sob_ratio Nm z s b.
  Proof.
    unfold sob_eval, sob_grad_sig, sob_grad_both, sob_grad_bkg. cbn [fst snd].
    rewrite K_lk_sobg_mask, K_sob_mask. cbn. repeat split.
  Qed.

  (* ---- PDFProduct.get_pd: the product rule of two probability densities depending on the same
     fit parameter, and the two one-sided cases *)
  Lemma K_lk_pdfprod pd1 g2 pd2 g1 :
    lk_pdfprod_both Nm pd1 g2 pd2 g1 = pd1 * g2 + pd2 * g1
    /\ lk_pdfprod_1 Nm pd2 g1 = pd2 * g1 /\ lk_pdfprod_2 Nm pd1 g2 = pd1 * g2.
  Proof. unfold lk_pdfprod_both, lk_pdfprod_1, lk_pdfprod_2. num_R. repeat split. Qed.

  Theorem pdf_product_rule (p1 p2 : R -> R) (t0 d1 d2 : R) :
    is_derive p1 t0 d1 -> is_derive p2 t0 d2 ->
    is_derive (fun t => p1 t * p2 t) t0 (lk_pdfprod_both Nm (p1 t0) d2 (p2 t0) d1)
    /\ (d2 = 0 -> lk_pdfprod_both Nm (p1 t0) d2 (p2 t0) d1 = lk_pdfprod_1 Nm (p2 t0) d1)
    /\ (d1 = 0 -> lk_pdfprod_both Nm (p1 t0) d2 (p2 t0) d1 = lk_pdfprod_2 Nm (p1 t0) d2).
  Proof.
    intros H1 H2. destruct (K_lk_pdfprod (p1 t0) d2 (p2 t0) d1) as (E & E1 & E2). rewrite E, E1, E2.
    split; [|split; intros ->; ring].
    eapply is_derive_eq.
    - apply (is_derive_mult p1 p2 t0 d1 d2 H1 H2). intros n m. apply Rmult_comm.
    - unfold plus; cbn. ring.
  Qed.
End S.
