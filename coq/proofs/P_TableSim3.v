(* C16 — simulation of tidy_up, set_selection and rename_fields. *)
From Coq Require Import ZArith List Bool Lia Arith.
From Sky Require Import Result PyList G_table M_Table S_Table S_TableInterp P_TableBase P_TableOps P_TableOps2 P_TableOps3 P_TableSim P_TableSim2.
Import ListNotations.
Open Scope Z_scope.

Definition cflag (o : obj) : bool := match oidx o with Some _ => true | None => false end.

(* ------------------------------------------------------------ tidy_up *)
Lemma ddel_app_notin : forall (c1 c2 : list (name * buf)) a, ~ In a (keys c1) -> ddel (c1 ++ c2) a = c1 ++ ddel c2 a.
Proof.
  induction c1 as [|[k b] r IH]; intros c2 a H; [reflexivity|]. cbn in *.
  destruct (k =? a) eqn:Q; [apply Z.eqb_eq in Q; exfalso; apply H; left; assumption|].
  f_equal. apply IH. tauto.
Qed.

Lemma keys_filter_incl : forall (p : name * buf -> bool) c k, In k (keys (filter p c)) -> In k (keys c).
Proof.
  intros p c k H; unfold keys in *. apply in_map_iff in H; destruct H as [x [<- Hx]].
  apply filter_In in Hx. apply in_map; tauto.
Qed.

Lemma sim_tidy : forall s E o keep, repr s E o ->
  sim1 (tidy_up s o keep) (abs_of E o) (s_tidy (abs_of E o) keep).
Proof.
  intros s E o keep R. unfold s_tidy, tidy_up; cbn [acols alen acache abs_of].
  set (kpc := fun c : name * buf => mem (fst c) keep).
  pose (J := fun (todo : list name) (st : mstate) =>
    fst st = s /\ repr s E (snd st) /\ exists done, fnl o = done ++ todo /\
      abs_obj s (snd st) = mkat (filter kpc (cols_of E done) ++ cols_of E todo) (olen o) (cflag o)).
  pose (F := fun (st : mstate) (x : outcome) => False).
  pose proof (loop_ind _ (tidy_one keep) J F (fnl o) (s, o)) as L.
  assert (J0 : J (fnl o) (s, o)).
  { unfold J; cbn [fst snd]; splits; auto. exists []; split; [reflexivity|]. cbn [app cols_of map filter].
    rewrite (abs_obj_repr _ _ _ R). unfold abs_of, cflag. rewrite (r_fnl _ _ _ R). reflexivity. }
  specialize (L J0).
  assert (ND : NoDup (fnl o)) by (rewrite (r_fnl _ _ _ R); apply R).
  assert (Hs : forall a r st0, J (a :: r) st0 ->
     match tidy_one keep a st0 with (st', Done) => J r st' | (st', x) => F st' x end).
  { intros a r [s0 o0] (A1 & A2 & done & A3 & A4); cbn [fst snd] in *; subst s0.
    unfold tidy_one; cbn [fst snd].
    assert (Happ : cols_of E (done ++ [a]) = cols_of E done ++ [(a, E a)]) by (rewrite cols_of_app; reflexivity).
    assert (Fa : filter kpc [(a, E a)] = if mem a keep then [(a, E a)] else []) by reflexivity.
    destruct (mem a keep) eqn:M.
    - unfold J; cbn [fst snd]; splits; auto. exists (done ++ [a]); split; [rewrite <- app_assoc; assumption|].
      rewrite A4, Happ, filter_app, Fa. rewrite <- app_assoc. reflexivity.
    - pose proof (sim_remove s E o0 a A2) as SR. pose proof (remove_field_spec s E o0 a A2) as RS.
      rewrite <- (abs_obj_repr _ _ _ A2), A4 in SR. unfold s_remove in SR. unfold anames in SR; cbn [acols alen acache] in SR.
      assert (Ma : mem a (keys (filter kpc (cols_of E done) ++ cols_of E (a :: r))) = true).
      { apply mem_In. unfold keys; rewrite map_app. apply in_or_app; right. cbn. left; reflexivity. }
      rewrite Ma in SR. destruct (remove_field s o0 a) as [[s' o'] x]. cbn in SR. destruct SR as [-> SR].
      destruct RS as (-> & RS2 & _). unfold J; cbn [fst snd]; splits; auto.
      exists (done ++ [a]); split; [rewrite <- app_assoc; assumption|].
      rewrite SR. f_equal. rewrite Happ, filter_app, Fa, app_nil_r.
      rewrite ddel_app_notin.
      + cbn [cols_of map ddel]. rewrite Z.eqb_refl. reflexivity.
      + intros Q. apply keys_filter_incl in Q. rewrite keys_cols_of in Q.
        rewrite A3 in ND. apply NoDup_remove_2 in ND. apply ND. apply in_or_app; left; assumption. }
  specialize (L Hs).
  destruct (loop (tidy_one keep) (fnl o) (s, o)) as [[s' o'] x]; destruct x; try contradiction.
  destruct L as (A1 & A2 & done & A3 & A4); cbn [fst snd] in *. subst s'.
  cbn. split; [reflexivity|]. rewrite A4. rewrite app_nil_r in A3. subst done.
  cbn [cols_of map]. rewrite app_nil_r. rewrite (r_fnl _ _ _ R). reflexivity.
Qed.

(* ------------------------------------------------------------ set_selection *)
(* the loop of set_selection once more, now remembering that every processed column
   was written successfully and which column raised *)
Lemma set_selection_spec2 : forall s E o Ea a sl, repr s E o -> repr s Ea a -> compat o a ->
  match set_selection s o a sl with
  | ((s', o'), x) =>
      exists todo, o' = o /\ repr s' (EmixW sl (fnl o) E Ea todo) o /\ (forall k, In k todo -> In k (fnl o))
        /\ (forall k, In k (fnl o) -> ~ In k todo -> exists d, np_put (bdata (E k)) sl (bdata (Ea k)) = Ok d)
        /\ ((x = Done /\ todo = [] /\ forallb (has a) (fnl o) = true)
            \/ (exists k e, In k (fnl o) /\ np_put (bdata (E k)) sl (bdata (Ea k)) = Err e /\ x = Raised e
                            /\ forallb (has a) (fnl o) = true)
            \/ (x = Raised KeyError /\ todo = fnl o /\ forallb (has a) (fnl o) = false))
  end.
Proof.
  intros s E o Ea a sl R Ra Hc; unfold set_selection.
  assert (R0 : repr s (EmixW sl (fnl o) E Ea (fnl o)) o).
  { eapply repr_ext; [exact R|]. intros n Hn; unfold EmixW; destruct (mem n (fnl o)); reflexivity. }
  destruct (forallb (has a) (fnl o)) eqn:FA.
  2:{ exists (fnl o); splits; auto. intros k H1 H2; contradiction. }
  assert (Hsub : forall n, In n (keys (fields o)) -> In n (keys (fields a))).
  { intros n Hn; apply (repr_has _ _ _ _ Ra). eapply forallb_In; [exact FA|]. rewrite (r_fnl _ _ _ R); assumption. }
  pose (P := fun (todo : list name) (st : mstate) =>
    snd st = o /\ repr (fst st) (EmixW sl (fnl o) E Ea todo) o
    /\ (forall n l2, In n todo -> assoc n (fields a) = Some l2 -> rd (fst st) l2 = Some (Ea n))
    /\ (forall n, In n todo -> In n (fnl o))
    /\ (forall k, In k (fnl o) -> ~ In k todo -> exists d, np_put (bdata (E k)) sl (bdata (Ea k)) = Ok d)).
  pose (J := fun (todo : list name) (st : mstate) => P todo st /\ NoDup todo).
  pose (F := fun (st : mstate) (x : outcome) =>
    exists todo, P todo st /\ exists k e, In k (fnl o) /\ np_put (bdata (E k)) sl (bdata (Ea k)) = Err e /\ x = Raised e).
  pose proof (loop_ind _ (setsel_one sl a) J F (fnl o) (s, o)) as L.
  assert (J0 : J (fnl o) (s, o)).
  { unfold J, P; cbn [fst snd]; splits; auto.
    - intros n l2 _ A. apply (r_cols _ _ _ Ra); apply assoc_In; assumption.
    - intros k H1 H2; contradiction.
    - rewrite (r_fnl _ _ _ R); apply R. }
  specialize (L J0).
  assert (Hs : forall fn r st0, J (fn :: r) st0 ->
     match setsel_one sl a fn st0 with (st', Done) => J r st' | (st', x) => F st' x end).
  { intros fn r [s1 o1] ((A1 & A2 & A4 & A6 & A7) & A5); cbn [fst snd] in *; subst o1.
    assert (Hfn : In fn (keys (fields o))) by (rewrite <- (r_fnl _ _ _ R); apply A6; left; reflexivity).
    destruct (repr_assoc _ _ _ _ A2 Hfn) as [l1 [B1 B2]].
    destruct (In_keys_assoc _ _ (Hsub fn Hfn)) as [l2 B3].
    pose proof (A4 fn l2 (or_introl eq_refl) B3) as B4.
    inversion A5 as [|? ? Hnr NDr]; subst.
    assert (Mfn : mem fn (fnl o) = true) by (apply mem_In; apply A6; left; reflexivity).
    assert (EW : EmixW sl (fnl o) E Ea (fn :: r) fn = E fn).
    { unfold EmixW. replace (mem fn (fn :: r)) with true; [rewrite andb_false_r; reflexivity|].
      symmetry; apply mem_In; left; reflexivity. }
    unfold setsel_one. rewrite B1, B3, B2, B4, EW.
    destruct (np_put (bdata (E fn)) sl (bdata (Ea fn))) as [d|e] eqn:PQ.
    - destruct (write_col s1 _ o fn l1 (mkbuf (bdt (E fn)) d) A2 B1) as [W1 W2].
      unfold J, P; cbn [fst snd]; splits; auto.
      + eapply repr_ext; [exact W1|]. intros n Hn; unfold upd, EmixW.
        destruct (n =? fn) eqn:Q.
        * apply Z.eqb_eq in Q; subst n. apply mem_false in Hnr. rewrite Hnr, Mfn; cbn.
          unfold putbuf; rewrite PQ; reflexivity.
        * cbn [mem existsb]; rewrite Q; reflexivity.
      + intros n l2' Hn A. rewrite rd_wr_neq; [apply A4; [right; assumption | assumption]|].
        eapply Hc; [exact A | exact B1 |]. intros ->; contradiction.
      + intros n Hn; apply A6; right; assumption.
      + intros k Hk Hnk. destruct (Z.eq_dec k fn) as [->|Hne]; [eauto|].
        apply A7; [assumption|]. intros [Q|Q]; [congruence | contradiction].
    - exists (fn :: r); split; [unfold P; cbn [fst snd]; splits; auto|].
      exists fn, e; splits; auto. apply A6; left; reflexivity. }
  specialize (L Hs).
  destruct (loop (setsel_one sl a) (fnl o) (s, o)) as [[s' o'] x]; destruct x.
  - destruct L as ((A1 & A2 & A4 & A6 & A7) & A5); cbn [fst snd] in *. exists []; splits; auto.
  - destruct L as (todo & (A1 & A2 & A4 & A6 & A7) & k & e' & K1 & K2 & K3); cbn [fst snd] in *.
    exists todo; splits; auto. right; left. exists k, e'; splits; auto.
  - destruct L as (todo & _ & k & e' & _ & _ & K3); discriminate.
Qed.

Lemma sim_setsel : forall s E o Ea a sl, repr s E o -> eqlen E o -> repr s Ea a -> eqlen Ea a -> compat o a ->
  sim1 (set_selection s o a sl) (abs_of E o) (s_setsel (abs_of E o) (abs_of Ea a) sl).
Proof.
  intros s E o Ea a sl R [L0 L1] Ra [A0 A1] Hc. pose proof (set_selection_spec2 s E o Ea a sl R Ra Hc) as S.
  unfold s_setsel. unfold anames; cbn [acols alen acache abs_of]. rewrite !keys_cols_of.
  assert (PC : forallb (fun k => mem k (keys (fields a))) (keys (fields o)) = forallb (has a) (fnl o)).
  { rewrite (r_fnl _ _ _ R). apply forallb_ext_in; intros; reflexivity. }
  rewrite PC.
  destruct (set_selection s o a sl) as [[s' o'] x].
  destruct S as (todo & -> & S2 & S3 & S4 & S5).
  assert (AB : abs_obj s' o = abs_of (EmixW sl (fnl o) E Ea todo) o) by (apply abs_obj_repr; assumption).
  assert (Unch : (forall k, In k (fnl o) -> In k todo) -> abs_obj s' o = abs_of E o).
  { intros H. rewrite AB. unfold abs_of. f_equal. apply cols_of_ext. intros k Hk. unfold EmixW.
    replace (mem k todo) with true by (symmetry; apply mem_In; apply H; rewrite (r_fnl _ _ _ R); assumption).
    rewrite andb_false_r; reflexivity. }
  destruct S5 as [(-> & -> & FA) | [(k & e & K1 & K2 & -> & FA) | (-> & -> & FA)]]; rewrite FA.
  - (* all columns written *)
    assert (Hsub : forall n, In n (keys (fields o)) -> In n (keys (fields a))).
    { intros n Hn; apply (repr_has _ _ _ _ Ra). eapply forallb_In; [exact FA|]. rewrite (r_fnl _ _ _ R); assumption. }
    assert (OK : map_cols (s_put sl (abs_of Ea a)) (cols_of E (keys (fields o)))
                 = Ok (cols_of (fun k => putbuf sl (E k) (Ea k)) (keys (fields o)))).
    { apply map_cols_ok. intros k Hk. unfold s_put, putbuf. cbn [acols abs_of].
      rewrite lookup_cols_of by (apply Hsub; assumption).
      assert (Hf : In k (fnl o)) by (rewrite (r_fnl _ _ _ R); assumption).
      destruct (S4 k Hf (fun Q => Q)) as [d Hd]. rewrite Hd. reflexivity. }
    rewrite OK. cbn. split; [reflexivity|]. rewrite AB. unfold abs_of. f_equal. apply cols_of_ext.
    intros k Hk. unfold EmixW. replace (mem k (fnl o)) with true by (symmetry; apply mem_In; rewrite (r_fnl _ _ _ R); assumption).
    reflexivity.
  - (* numpy raises for one column, hence for all of them (equal lengths): nothing was written *)
    assert (Hsub : forall n, In n (keys (fields o)) -> In n (keys (fields a))).
    { intros n Hn; apply (repr_has _ _ _ _ Ra). eapply forallb_In; [exact FA|]. rewrite (r_fnl _ _ _ R); assumption. }
    rewrite (r_fnl _ _ _ R) in K1.
    assert (AllErr : forall k', In k' (keys (fields o)) -> np_put (bdata (E k')) sl (bdata (Ea k')) = Err e).
    { intros k' Hk'. eapply np_put_err_len; [| | exact K2].
      - pose proof (L1 k K1) as Q1; pose proof (L1 k' Hk') as Q2. unfold blen, zlen in *. lia.
      - pose proof (A1 k (Hsub k K1)) as Q1; pose proof (A1 k' (Hsub k' Hk')) as Q2. unfold blen, zlen in *. lia. }
    assert (Td : forall k', In k' (fnl o) -> In k' todo).
    { intros k' Hk'. destruct (in_dec Z.eq_dec k' todo) as [Q|Q]; [assumption|]. exfalso.
      destruct (S4 k' Hk' Q) as [d Hd]. rewrite (r_fnl _ _ _ R) in Hk'. rewrite (AllErr k' Hk') in Hd. discriminate. }
    destruct (keys (fields o)) as [|k0 rest] eqn:KS; [contradiction|].
    rewrite map_cols_err_all with (e := e).
    2:{ unfold s_put. cbn [acols abs_of]. rewrite lookup_cols_of by (apply Hsub; left; reflexivity).
        rewrite (AllErr k0 (or_introl eq_refl)). reflexivity. }
    cbn. split; [reflexivity|]. apply Unch; assumption.
  - cbn. split; [reflexivity|]. apply Unch; auto.
Qed.
