(* C16 — simulation of tidy_up, set_selection and rename_fields. *)
From Coq Require Import ZArith List Bool Lia Arith.
From Sky Require Import Result PyList G_table M_Table S_Table S_TableInterp P_TableBase P_TableOps P_TableOps2 P_TableOps3 P_TableSim P_TableSim2.
Import ListNotations.
Open Scope Z_scope.

Definition cflag (o : obj) : bool := match oidx o with Some _ => true | None => false end.

(* ------------------------------------------------------------ tidy_up *)
Lemma ddel_app_notin : forall (c1 c2 : list (name * buf)) a, ~ In a (keys c1) -> ddel (c1 ++ c2) a = c1 ++ ddel c2 a.
Proof.
  induction c1 as [|[k b] r IH]; intros c2 a H; [reflexivity|]. cbn in *.
  destruct (k =? a) eqn:Q; [apply Z.eqb_eq in Q; exfalso; apply H; left; assumption|].
  f_equal. apply IH. tauto.
Qed.

Lemma keys_filter_incl : forall (p : name * buf -> bool) c k, In k (keys (filter p c)) -> In k (keys c).
Proof.
  intros p c k H; unfold keys in *. apply in_map_iff in H; destruct H as [x [<- Hx]].
  apply filter_In in Hx. apply in_map; tauto.
Qed.

Lemma sim_tidy : forall s E o keep, repr s E o ->
  sim1 (tidy_up s o keep) (abs_of E o) (s_tidy (abs_of E o) keep).
Proof.
  intros s E o keep R. unfold s_tidy, tidy_up; cbn [acols alen acache abs_of].
  set (kpc := fun c : name * buf => mem (fst c) keep).
  pose (J := fun (todo : list name) (st : mstate) =>
    fst st = s /\ repr s E (snd st) /\ exists done, fnl o = done ++ todo /\
      abs_obj s (snd st) = mkat (filter kpc (cols_of E done) ++ cols_of E todo) (olen o) (cflag o)).
  pose (F := fun (st : mstate) (x : outcome) => False).
  pose proof (loop_ind _ (tidy_one keep) J F (fnl o) (s, o)) as L.
  assert (J0 : J (fnl o) (s, o)).
  { unfold J; cbn [fst snd]; splits; auto. exists []; split; [reflexivity|]. cbn [app cols_of map filter].
    rewrite (abs_obj_repr _ _ _ R). unfold abs_of, cflag. rewrite (r_fnl _ _ _ R). reflexivity. }
  specialize (L J0).
  assert (ND : NoDup (fnl o)) by (rewrite (r_fnl _ _ _ R); apply R).
  assert (Hs : forall a r st0, J (a :: r) st0 ->
     match tidy_one keep a st0 with (st', Done) => J r st' | (st', x) => F st' x end).
  { intros a r [s0 o0] (A1 & A2 & done & A3 & A4); cbn [fst snd] in *; subst s0.
    unfold tidy_one; cbn [fst snd].
    assert (Happ : cols_of E (done ++ [a]) = cols_of E done ++ [(a, E a)]) by (rewrite cols_of_app; reflexivity).
    destruct (mem a keep) eqn:M.
    - unfold J; cbn [fst snd]; splits; auto. exists (done ++ [a]); split; [rewrite <- app_assoc; assumption|].
      rewrite A4, Happ, filter_app. cbn [filter]. unfold kpc at 2; cbn [fst]. rewrite M. rewrite <- app_assoc. reflexivity.
    - pose proof (sim_remove s E o0 a A2) as SR. pose proof (remove_field_spec s E o0 a A2) as RS.
      rewrite <- (abs_obj_repr _ _ _ A2), A4 in SR. unfold s_remove in SR. unfold anames in SR; cbn [acols alen acache] in SR.
      assert (Ma : mem a (keys (filter kpc (cols_of E done) ++ cols_of E (a :: r))) = true).
      { apply mem_In. unfold keys; rewrite map_app. apply in_or_app; right. cbn. left; reflexivity. }
      rewrite Ma in SR. destruct (remove_field s o0 a) as [[s' o'] x]. cbn in SR. destruct SR as [-> SR].
      destruct RS as (-> & RS2 & _). unfold J; cbn [fst snd]; splits; auto.
      exists (done ++ [a]); split; [rewrite <- app_assoc; assumption|].
      rewrite SR. f_equal. rewrite Happ, filter_app. cbn [filter]. unfold kpc at 3; cbn [fst]. rewrite M, app_nil_r.
      rewrite ddel_app_notin.
      + cbn [cols_of map ddel]. rewrite Z.eqb_refl. reflexivity.
      + intros Q. apply keys_filter_incl in Q. rewrite keys_cols_of in Q.
        rewrite A3 in ND. apply NoDup_remove_2 in ND. apply ND. apply in_or_app; left; assumption. }
  specialize (L Hs).
  destruct (loop (tidy_one keep) (fnl o) (s, o)) as [[s' o'] x]; destruct x; try contradiction.
  destruct L as (A1 & A2 & done & A3 & A4); cbn [fst snd] in *. subst s'.
  cbn. split; [reflexivity|]. rewrite A4. rewrite app_nil_r in A3. subst done.
  cbn [cols_of map]. rewrite app_nil_r. rewrite (r_fnl _ _ _ R). reflexivity.
Qed.
