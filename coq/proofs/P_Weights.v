(* C03: dataset fractions and the multi-dataset sum — real-number reading.
   (The differentiation rules that used to live here are in P_WeightsDeriv.v.) *)
From Coq Require Import Reals ZArith List Bool Lra Lia Permutation.
From Sky Require Import Num NumR G_weights M_Weights S_Llh S_Weights P_WeightsBase.
Import ListNotations.
Open Scope R_scope.

Section W.
  Variable erfR : R -> R.
  Notation Nm := (RNum erfR).

  (* ---- sums over tables *)
  Lemma Rsum_nonneg l : List.Forall (fun x => 0 <= x) l -> 0 <= Rsum l.
  Proof. unfold Rsum. induction 1 as [|x l Hx _ IH]; cbn; lra. Qed.

  Lemma Rsum_concat (a : list (list R)) : Rsum (concat a) = Rsum (map Rsum a).
  Proof.
    induction a as [|r a IH]; [reflexivity|].
    cbn [concat map]. rewrite Rsum_app, IH. reflexivity.
  Qed.

  Lemma a_j_R a : a_j Nm a = map Rsum a.
  Proof. unfold a_j. apply map_ext. intros r. apply nsum_R. Qed.
  Lemma a_tot_R a : a_tot Nm a = Rsum (map Rsum a).
  Proof. unfold a_tot. rewrite nsum_R. apply Rsum_concat. Qed.

  Lemma f_j_R a : f_j Nm a = map (fun r => Rsum r / Rsum (map Rsum a)) a.
  Proof.
    unfold f_j. rewrite a_j_R, a_tot_R, map_map. apply map_ext. intros r.
    rewrite K_f_j. reflexivity.
  Qed.

  Lemma Rsum_map_div (l : list R) (c : R) : Rsum (map (fun x => x / c) l) = Rsum l / c.
  Proof.
    unfold Rsum. induction l as [|x l IH]; cbn [map fold_right]; [unfold Rdiv; lra|].
    rewrite IH. unfold Rdiv. lra.
  Qed.

  (* C03: partition of unity *)
  Theorem f_j_sum1 (a : list (list R)) :
    Rsum (map Rsum a) <> 0 -> Rsum (f_j Nm a) = 1.
  Proof.
    intros H. rewrite f_j_R.
    rewrite <- (map_map Rsum (fun x => x / Rsum (map Rsum a))).
    rewrite Rsum_map_div. field. exact H.
  Qed.

  Theorem f_j_nonneg (a : list (list R)) :
    List.Forall (List.Forall (fun x => 0 <= x)) a -> 0 < Rsum (map Rsum a) ->
    List.Forall (fun f => 0 <= f) (f_j Nm a).
  Proof.
    intros Hnn Hpos. rewrite f_j_R. apply List.Forall_forall. intros f Hin.
    apply in_map_iff in Hin as (r & <- & Hr).
    rewrite List.Forall_forall in Hnn. specialize (Hnn r Hr).
    apply Rsum_nonneg in Hnn. unfold Rdiv.
    apply Rmult_le_pos; [exact Hnn|]. left. apply Rinv_0_lt_compat. exact Hpos.
  Qed.

  (* a_jk = W_k * Y_jk *)
  Lemma a_row_R W Y : a_row Nm W Y = map (fun p => fst p * snd p) (combine W Y).
  Proof. unfold a_row. apply map_ext. intros [w y]. reflexivity. Qed.

  Lemma Rsum_a_row_scale c W Y :
    Rsum (a_row Nm (map (Rmult c) W) Y) = c * Rsum (a_row Nm W Y).
  Proof.
    rewrite !a_row_R. revert Y. induction W as [|w W IH]; intros Y.
    - cbn. lra.
    - destruct Y as [|y Y]; [cbn; lra|].
      cbn [map combine]. unfold Rsum in *. cbn [map fold_right fst snd].
      rewrite IH. lra.
  Qed.

  (* C03: multiplying all source weights by a common factor leaves f_j unchanged *)
  Theorem f_j_scale c W (Y : list (list R)) :
    c <> 0 -> Rsum (map Rsum (a_table Nm W Y)) <> 0 ->
    f_j Nm (a_table Nm (map (Rmult c) W) Y) = f_j Nm (a_table Nm W Y).
  Proof.
    intros Hc Ha. rewrite !f_j_R. unfold a_table. rewrite !map_map.
    assert (E : Rsum (map (fun x => Rsum (a_row Nm (map (Rmult c) W) x)) Y)
                = c * Rsum (map (fun x => Rsum (a_row Nm W x)) Y)).
    { clear. unfold Rsum at 1 3. induction Y as [|y Y IH]; cbn [map fold_right]; [lra|].
      rewrite IH, Rsum_a_row_scale. lra. }
    rewrite E. apply map_ext. intros y. rewrite Rsum_a_row_scale.
    unfold a_table in Ha. rewrite map_map in Ha. field. split; assumption.
  Qed.

  (* C03: permuting datasets permutes the fractions *)
  Theorem f_j_perm (a a' : list (list R)) :
    Permutation a a' -> Permutation (f_j Nm a) (f_j Nm a').
  Proof.
    intros HP. rewrite !f_j_R.
    rewrite (Rsum_perm (map Rsum a) (map Rsum a')) by (apply Permutation_map; exact HP).
    apply Permutation_map. exact HP.
  Qed.

  (* permuting the sources inside every dataset row leaves the fractions unchanged *)
  Theorem f_j_perm_sources (a a' : list (list R)) :
    List.Forall2 (fun r r' => Permutation r r') a a' -> f_j Nm a = f_j Nm a'.
  Proof.
    intros H. rewrite !f_j_R.
    assert (E : map Rsum a = map Rsum a').
    { induction H as [|r r' a a' Hr _ IH]; [reflexivity|]. cbn [map].
      rewrite IH, (Rsum_perm r r' Hr). reflexivity. }
    rewrite E. clear E. generalize (Rsum (map Rsum a')). intros c.
    induction H as [|r r' a a' Hr _ IH]; [reflexivity|]. cbn [map].
    rewrite (Rsum_perm r r' Hr). f_equal. exact IH.
  Qed.

  Lemma f_j_length (a : list (list R)) : length (f_j Nm a) = length a.
  Proof. unfold f_j, a_j. now rewrite !map_length. Qed.

  Theorem f_j_le1 (a : list (list R)) :
    List.Forall (List.Forall (fun x => 0 <= x)) a -> 0 < Rsum (map Rsum a) ->
    List.Forall (fun f => f <= 1) (f_j Nm a).
  Proof.
    intros Hnn Hpos.
    pose proof (f_j_nonneg a Hnn Hpos) as H0.
    pose proof (f_j_sum1 a (Rgt_not_eq _ _ Hpos)) as H1.
    revert H0 H1. generalize (f_j Nm a). intros l H0 H1.
    assert (G : forall l, List.Forall (fun f => 0 <= f) l ->
                List.Forall (fun f => f <= Rsum l) l).
    { clear. induction 1 as [|x l Hx Hl IH]; constructor.
      - unfold Rsum. cbn [fold_right]. pose proof (Rsum_nonneg l Hl) as P. unfold Rsum in P. lra.
      - eapply List.Forall_impl; [|exact IH]. cbn beta. intros y Hy.
        unfold Rsum in *. cbn [fold_right]. lra. }
    specialize (G l H0). rewrite H1 in G. exact G.
  Qed.

  (* ---- the manual's un-simplified expression *)
  Lemma map_nth_seq (row : list R) :
    map (fun k => nth k row 0) (seq 0 (length row)) = row.
  Proof.
    induction row as [|x row IH]; [reflexivity|].
    cbn [length seq map nth]. f_equal.
    rewrite <- seq_shift, map_map. exact IH.
  Qed.

  Theorem f_j_is_manual (a : list (list R)) (K : nat) :
    List.Forall (fun row => length row = K) a ->
    (forall k, (k < K)%nat -> colsum a k <> 0) -> total a <> 0 ->
    f_j Nm a = map (f_j_manual a K) a.
  Proof.
    intros Hrect Hcol Htot. rewrite f_j_R. apply map_ext_in. intros row Hin.
    rewrite List.Forall_forall in Hrect. specialize (Hrect row Hin).
    unfold f_j_manual, f_src, f_ds_given_src. fold (total a).
    rewrite (map_ext_in _ (fun k => nth k row 0 / total a)).
    - rewrite <- (map_map (fun k => nth k row 0) (fun x => x / total a)).
      rewrite Rsum_map_div. rewrite <- Hrect, map_nth_seq. reflexivity.
    - intros k Hk. apply in_seq in Hk. field. repeat split; first [exact Htot | apply Hcol; lia].
  Qed.

  Theorem f_j_is_simplified (a : list (list R)) :
    f_j Nm a = map (f_j_simplified a) a.
  Proof. rewrite f_j_R. reflexivity. Qed.

  (* where the manual's un-simplified expression is 0/0 (a source without yield in
     any dataset) the code's expression is still the partition of unity *)
  Lemma manual_undefined_code_defined :
    let a := [[1; 0]; [3; 0]] in
    colsum a 1 = 0 /\ f_j Nm a = [1 / 4; 3 / 4].
  Proof.
    cbv zeta. split.
    - unfold colsum, Rsum. cbn. lra.
    - rewrite f_j_R. unfold Rsum. cbn. f_equal; [|f_equal]; f_equal; lra.
  Qed.

  (* ---- C03: the multi-dataset value is the sum of the single-dataset values
     at ns * f_j *)
  Theorem multi_value_additive opa ns f (ds : list (R * list R)) :
    multi_value Nm opa ns f ds =
    Rsum (map (fun p => evaluate_value Nm opa (fst (snd p)) (ns * fst p) (snd (snd p)))
              (combine f ds)).
  Proof. unfold multi_value. rewrite nsum_R. reflexivity. Qed.

  Theorem multi_value_perm opa ns (fd fd' : list (R * (R * list R))) :
    Permutation fd fd' ->
    multi_value Nm opa ns (map fst fd) (map snd fd)
    = multi_value Nm opa ns (map fst fd') (map snd fd').
  Proof.
    intros HP. rewrite !multi_value_additive.
    assert (C : forall l : list (R * (R * list R)), combine (map fst l) (map snd l) = l).
    { induction l as [|[a b] l IH]; [reflexivity|]. cbn. now rewrite IH. }
    rewrite !C. apply Rsum_perm. apply Permutation_map. exact HP.
  Qed.

  (* C03: permuting the datasets — rows of a_jk together with their data — leaves
     the value unchanged.  An element is (row of a_jk, (N_j, n_selected_j, pair table_j));
     the ratios of a dataset are the stacked ratios of its own row. *)
  Definition rd_data (x : list R * (R * nat * list (nat * nat * R))) : R * list R :=
    (fst (fst (snd x)), sw_ratio Nm (fst x) (snd (fst (snd x))) (snd (snd x))).

  Theorem multi_value_perm_rows opa ns (rd rd' : list (list R * (R * nat * list (nat * nat * R)))) :
    Permutation rd rd' ->
    multi_value Nm opa ns (f_j Nm (map fst rd)) (map rd_data rd)
    = multi_value Nm opa ns (f_j Nm (map fst rd')) (map rd_data rd').
  Proof.
    intros HP. rewrite !multi_value_additive, !f_j_R.
    assert (Et : Rsum (map Rsum (map fst rd)) = Rsum (map Rsum (map fst rd'))).
    { apply Rsum_perm. apply Permutation_map. apply Permutation_map. exact HP. }
    rewrite Et. set (t := Rsum (map Rsum (map fst rd'))).
    assert (C : forall l : list (list R * (R * nat * list (nat * nat * R))),
              combine (map (fun r => Rsum r / t) (map fst l)) (map rd_data l)
              = map (fun x => (Rsum (fst x) / t, rd_data x)) l).
    { induction l as [|x l IH]; [reflexivity|]. cbn [map combine]. now rewrite IH. }
    rewrite !C, !map_map. apply Rsum_perm. apply Permutation_map. exact HP.
  Qed.

  (* ---- the guards of the partition-of-unity theorems are needed *)
  (* the witness does not lean on the value of 1/0: the two fractions are x * /0 and
     -x * /0, which cancel whatever /0 is *)
  Lemma fj_sum1_guard_needed :
    exists a : list (list R), Rsum (map Rsum a) = 0 /\ Rsum (f_j Nm a) <> 1.
  Proof.
    exists [[1]; [-1]]. split; [unfold Rsum; cbn; lra|].
    rewrite f_j_R. unfold Rsum. cbn. unfold Rdiv.
    generalize (/ (1 + 0 + (-1 + 0 + 0))). intros z. lra.
  Qed.

  Lemma fj_nonneg_guard_needed :
    exists a : list (list R), 0 < Rsum (map Rsum a) /\ ~ List.Forall (fun f => 0 <= f) (f_j Nm a).
  Proof.
    exists [[2]; [-1]]. split; [unfold Rsum; cbn; lra|].
    rewrite f_j_R. intros H. inversion H as [|? ? _ H2]. inversion H2 as [|? ? H3 _].
    match type of H3 with 0 <= ?x / ?t =>
      assert (E : t = 1) by (unfold Rsum; cbn; lra); rewrite E in H3 end.
    unfold Rdiv, Rsum in H3. cbn in H3. rewrite Rinv_1 in H3. lra.
  Qed.
End W.
