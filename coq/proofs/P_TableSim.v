(* C16 — simulation: each model operation, seen through the abstraction (tables as values),
   is the plain-table operation of S_TableInterp.v; a raising operation changes nothing. *)
From Coq Require Import ZArith List Bool Lia Arith.
From Sky Require Import Result PyList G_table M_Table S_Table S_TableInterp P_TableBase P_TableOps P_TableOps2 P_TableOps3.
Import ListNotations.
Open Scope Z_scope.

Definition cols_of (E : name -> buf) (ks : list name) : list (name * buf) := map (fun k => (k, E k)) ks.

Lemma keys_cols_of : forall E ks, keys (cols_of E ks) = ks.
Proof. intros; unfold keys, cols_of; rewrite map_map; cbn; apply map_id. Qed.

Lemma keys_vals_of : forall s d, keys (vals_of s d) = keys d.
Proof. intros; unfold keys, vals_of; rewrite map_map; reflexivity. Qed.

Lemma vals_of_repr : forall s E o, repr s E o -> vals_of s (fields o) = cols_of E (keys (fields o)).
Proof.
  intros s E o R; unfold vals_of, cols_of, keys; rewrite map_map. apply map_ext_in.
  intros [n l] Hi; cbn. unfold getb. rewrite (r_cols _ _ _ R n l Hi). reflexivity.
Qed.

Definition abs_of (E : name -> buf) (o : obj) : atable :=
  mkat (cols_of E (keys (fields o))) (olen o) (match oidx o with Some _ => true | None => false end).

Lemma abs_obj_repr : forall s E o, repr s E o -> abs_obj s o = abs_of E o.
Proof. intros; unfold abs_obj, abs_of; rewrite (vals_of_repr _ _ _ H); reflexivity. Qed.

Lemma cols_of_ext : forall E E' ks, (forall k, In k ks -> E k = E' k) -> cols_of E ks = cols_of E' ks.
Proof. intros; unfold cols_of; apply map_ext_in; intros k Hk; rewrite H by assumption; reflexivity. Qed.

Lemma cols_of_app : forall E a b, cols_of E (a ++ b) = cols_of E a ++ cols_of E b.
Proof. intros; unfold cols_of; apply map_app. Qed.

Lemma cols_of_upd_notin : forall E ks n b, ~ In n ks -> cols_of (upd E n b) ks = cols_of E ks.
Proof. intros; apply cols_of_ext; intros k Hk; apply upd_other; intros ->; contradiction. Qed.

Lemma cols_of_upd_in : forall E ks n b, NoDup ks -> In n ks ->
  cols_of (upd E n b) ks = dset (cols_of E ks) n b.
Proof.
  induction ks as [|k r IH]; intros n b ND Hin; [contradiction|].
  inversion ND as [|? ? Hk ND']; subst. cbn [cols_of map dset].
  destruct (k =? n) eqn:Q.
  - apply Z.eqb_eq in Q; subst k. rewrite upd_same. f_equal. apply cols_of_upd_notin; assumption.
  - apply Z.eqb_neq in Q. rewrite upd_other by assumption. f_equal.
    apply IH; [assumption|]. destruct Hin; [congruence | assumption].
Qed.

Lemma cols_of_lremove : forall E ks n, cols_of E (lremove n ks) = ddel (cols_of E ks) n.
Proof.
  induction ks as [|k r IH]; intros n; [reflexivity|]. cbn [lremove cols_of map ddel].
  destruct (k =? n); [reflexivity|]. cbn [map]. f_equal. apply IH.
Qed.

Lemma assoc_cols_of : forall E ks n, In n ks -> assoc n (cols_of E ks) = Some (E n).
Proof.
  induction ks as [|k r IH]; intros n Hin; [contradiction|]. cbn [cols_of map assoc].
  destruct (k =? n) eqn:Q; [apply Z.eqb_eq in Q; subst; reflexivity|].
  apply IH. destruct Hin; [apply Z.eqb_neq in Q; congruence | assumption].
Qed.

Lemma assoc_cols_of_none : forall E ks n, ~ In n ks -> assoc n (cols_of E ks) = None.
Proof. intros; apply assoc_None; rewrite keys_cols_of; assumption. Qed.

Lemma mem_iff_has : forall s E o n, repr s E o -> mem n (anames (abs_of E o)) = has o n.
Proof. intros; unfold anames, abs_of, has; cbn [acols]; rewrite keys_cols_of; reflexivity. Qed.

Ltac simpl_abs := unfold abs_of, with_fields, with_fnl; cbn [acols alen acache fields fnl olen oidx].

(* the shape of a result: (x, table) vs. the specification's res *)
Definition sim1 (r : mstate * outcome) (before : atable) (spec : res atable) : Prop :=
  match spec with
  | Ok t' => snd r = Done /\ abs_obj (fst (fst r)) (snd (fst r)) = t'
  | Err e => snd r = Raised e /\ abs_obj (fst (fst r)) (snd (fst r)) = before
  end.

(* ------------------------------------------------------------ append_field / __setitem__ *)
Lemma sim_append_field : forall s E o n b, repr s E o -> eqlen E o ->
  sim1 (append_field (s ++ [b]) o n (length s)) (abs_of E o) (s_append_field (abs_of E o) n b).
Proof.
  intros s E o n b R L. pose proof (append_field_spec s E o n b R) as S.
  unfold s_append_field. rewrite (mem_iff_has _ _ _ _ R). cbn [alen abs_of].
  unfold append_field in *. rewrite rd_app_new in *.
  destruct (repr_extend s E o [b] R) as [Rx _].
  destruct (has o n) eqn:H.
  - cbn. split; [reflexivity | apply abs_obj_repr; assumption].
  - unfold af_len_bad in *. destruct (negb (blen b =? olen o)) eqn:Q.
    + cbn. split; [reflexivity | apply abs_obj_repr; assumption].
    + destruct S as (S1 & S2 & S3 & S4 & S5 & S6 & S7). cbn. split; [reflexivity|].
      rewrite (abs_obj_repr _ _ _ S2). simpl_abs.
      rewrite dset_notin by assumption. unfold keys at 1; rewrite map_app; cbn [map fst]. fold (keys (fields o)).
      rewrite cols_of_app. cbn [cols_of map]. rewrite upd_same. f_equal. f_equal.
      apply cols_of_upd_notin; assumption.
Qed.

Lemma sim_setitem : forall s E o n b, repr s E o -> eqlen E o ->
  sim1 (setitem (s ++ [b]) o n (length s)) (abs_of E o) (s_setitem (abs_of E o) n b).
Proof.
  intros s E o n b R L. unfold s_setitem, setitem. rewrite (mem_iff_has _ _ _ _ R).
  destruct (has o n) eqn:H; cbn [negb].
  - rewrite rd_app_new. unfold si_len_bad. cbn [alen abs_of].
    destruct (repr_extend s E o [b] R) as [Rx _].
    destruct (negb (blen b =? olen o)) eqn:Q.
    + cbn. split; [reflexivity | apply abs_obj_repr; assumption].
    + apply (repr_has _ _ _ _ R) in H.
      destruct (replace_col s E o n b R H) as (A & B & C). cbn. split; [reflexivity|].
      rewrite (abs_obj_repr _ _ _ A). simpl_abs. rewrite keys_dset_in by assumption.
      f_equal. apply cols_of_upd_in; [apply R | assumption].
  - apply sim_append_field; assumption.
Qed.

(* ------------------------------------------------------------ remove_field *)
Lemma sim_remove : forall s E o n, repr s E o ->
  sim1 (remove_field s o n) (abs_of E o) (s_remove (abs_of E o) n).
Proof.
  intros s E o n R. pose proof (remove_field_spec s E o n R) as S.
  unfold s_remove. rewrite (mem_iff_has _ _ _ _ R).
  destruct (remove_field s o n) as [[s' o'] x] eqn:RF.
  destruct (has o n) eqn:H.
  - apply (repr_has _ _ _ _ R) in H. destruct (In_keys_assoc _ _ H) as [l Hl].
    unfold remove_field in RF. rewrite Hl in RF.
    assert (M : mem n (fnl o) = true) by (rewrite (r_fnl _ _ _ R); apply mem_In; assumption).
    rewrite M in RF. inversion RF; subst s' o' x. cbn.
    destruct (del_col s E o n R) as (A & _ & _). split; [reflexivity|].
    unfold with_fnl, with_fields; cbn [fields fnl olen oidx].
    rewrite (abs_obj_repr _ _ _ A). simpl_abs. rewrite keys_ddel. f_equal. apply cols_of_lremove.
  - assert (A : assoc n (fields o) = None).
    { apply assoc_None. intros Q. apply (repr_has _ _ _ _ R) in Q. congruence. }
    unfold remove_field in RF. rewrite A in RF. inversion RF; subst s' o' x. cbn.
    split; [reflexivity | apply abs_obj_repr; assumption].
Qed.

(* ------------------------------------------------------------ set_field_dtype *)
Lemma astype_same : forall b dt, bdt b = dt -> astype dt b = b.
Proof. intros [d v] dt; cbn; intros ->; reflexivity. Qed.

Lemma dset_cols_same : forall E ks n, NoDup ks -> In n ks -> dset (cols_of E ks) n (E n) = cols_of E ks.
Proof.
  intros. rewrite <- cols_of_upd_in by assumption. apply cols_of_ext.
  intros k Hk; unfold upd; destruct (k =? n) eqn:Q; [apply Z.eqb_eq in Q; subst|]; reflexivity.
Qed.

Lemma sim_set_dtype : forall s E o n dt, repr s E o ->
  sim1 (set_field_dtype s o n dt) (abs_of E o) (s_set_dtype (abs_of E o) n dt).
Proof.
  intros s E o n dt R. unfold s_set_dtype, set_field_dtype. cbn [acols abs_of].
  destruct (assoc n (fields o)) as [l|] eqn:A.
  - pose proof (assoc_keys _ _ _ A) as Hin. rewrite (assoc_cols_of E _ _ Hin).
    rewrite (r_cols _ _ _ R _ _ (assoc_In _ _ _ A)).
    destruct (bdt (E n) =? dt) eqn:Q.
    + apply Z.eqb_eq in Q. cbn. split; [reflexivity|]. rewrite (abs_obj_repr _ _ _ R). simpl_abs.
      rewrite (astype_same _ _ Q). rewrite dset_cols_same; [reflexivity | apply R | assumption].
    + cbn [alloc]. destruct (replace_col s E o n (astype dt (E n)) R Hin) as (B1 & B2 & B3).
      cbn. split; [reflexivity|]. rewrite (abs_obj_repr _ _ _ B1). simpl_abs.
      rewrite keys_dset_in by assumption. f_equal. apply cols_of_upd_in; [apply R | assumption].
  - assert (Hn : ~ In n (keys (fields o))) by (apply assoc_None; assumption).
    rewrite (assoc_cols_of_none E _ _ Hn). cbn. split; [reflexivity | apply abs_obj_repr; assumption].
Qed.

(* ------------------------------------------------------------ indices *)
Lemma sim_indices : forall s E o, repr s E o -> eqlen E o ->
  sim1 (get_indices s o) (abs_of E o) (s_indices (abs_of E o)).
Proof.
  intros s E o R [L0 _]. pose proof (get_indices_spec s E o R L0) as S.
  destruct (get_indices s o) as [[s' o'] x]. destruct S as (S1 & S2 & S3 & S4 & S5 & li & b & S6 & _).
  cbn. split; [assumption|]. rewrite (abs_obj_repr _ _ _ S2). unfold abs_of, s_indices; cbn [acols alen].
  rewrite S4, S5, S6. reflexivity.
Qed.
