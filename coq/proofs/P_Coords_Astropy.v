(* C19 proofs, part 4: the transcription of astropy's position_angle /
   angular_separation / offset_by (the ap_ definitions of M_Coords) satisfies the contracts used
   in P_Coords_Sky.v, over the reals — so rotate_signal_events_on_sphere with
   these formulas preserves separation and position angle unconditionally
   (away from astropy's approximate pole branch 0 < cos(lat) < 1e-12). *)
From Coq Require Import Reals ZArith List Bool Lra Lia Psatz.
From Sky Require Import Num NumR G_coords M_Coords S_Coords P_Coords_Real P_Coords_K P_Coords P_Coords_Rot P_Coords_Sky.
Open Scope R_scope.

(* ---------------------------------------------------------------- atan2 with a non-negative first argument *)
Lemma atan_nonneg x : 0 <= x -> 0 <= atan x.
Proof.
  intros [H|H].
  - left. rewrite <- atan_0. apply atan_increasing. exact H.
  - subst. rewrite atan_0. lra.
Qed.

Lemma atan_nonpos x : x <= 0 -> atan x <= 0.
Proof.
  intros [H|H].
  - left. rewrite <- atan_0. apply atan_increasing. exact H.
  - subst. rewrite atan_0. lra.
Qed.

Lemma Ratan2_range_upper y x : 0 <= y -> x * x + y * y = 1 -> 0 <= Ratan2 y x <= PI.
Proof.
  intros Hy H1. unfold Ratan2. generalize PI_RGT_0; intros HP.
  destruct (Rlt_dec 0 x) as [Hx|Hx].
  - assert (0 <= y / x) by (apply Rmult_le_pos; [exact Hy | left; apply Rinv_0_lt_compat; exact Hx]).
    generalize (atan_nonneg (y / x) H) (atan_bound (y / x)). lra.
  - destruct (Rlt_dec x 0) as [Hn|Hn].
    + destruct (Rle_dec 0 y) as [_|C]; [|lra].
      assert (y / x <= 0).
      { replace (y / x) with (- (y / (- x))) by (field; lra).
        assert (0 <= y / (- x)) by (apply Rmult_le_pos; [exact Hy | left; apply Rinv_0_lt_compat; lra]). lra. }
      generalize (atan_nonpos (y / x) H) (atan_bound (y / x)). lra.
    + assert (x = 0) by lra. subst x.
      destruct (Rlt_dec 0 y); [lra|]. destruct (Rlt_dec y 0); [lra|].
      assert (y = 0) by lra. subst y. lra.
Qed.

(* atan2(sqrt(1 - c^2), c) = acos c *)
Lemma Ratan2_acos s c : 0 <= s -> c * c + s * s = 1 -> Ratan2 s c = acos c.
Proof.
  intros Hs H1.
  destruct (Ratan2_cos_sin s c) as [C _].
  rewrite H1, sqrt_1, Rmult_1_l in C.
  rewrite <- C at 2. symmetry. apply acos_cos. apply Ratan2_range_upper; assumption.
Qed.

(* ---------------------------------------------------------------- components in the local frame *)
Lemma dot_north l1 b1 l2 b2 :
  vdot (dirv l2 b2) (north l1 b1) = sin b2 * cos b1 - cos b2 * sin b1 * cos (l2 - l1).
Proof. rewrite cos_minus. unfold vdot, dirv, north, c1, c2, c3. cbn [fst snd]. ring. Qed.
Lemma dot_east l1 b1 l2 b2 :
  vdot (dirv l2 b2) (east l1 b1) = sin (l2 - l1) * cos b2.
Proof. rewrite sin_minus. unfold vdot, dirv, east, c1, c2, c3. cbn [fst snd]. ring. Qed.
Lemma dot_dirv l1 b1 l2 b2 :
  vdot (dirv l1 b1) (dirv l2 b2) = sin b1 * sin b2 + cos b1 * cos b2 * cos (l2 - l1).
Proof. rewrite cos_minus. unfold vdot, dirv, c1, c2, c3. cbn [fst snd]. ring. Qed.

(* Parseval in the frame (u1, N1, E1) *)
Lemma frame_parseval l1 b1 l2 b2 :
  vdot (dirv l1 b1) (dirv l2 b2) * vdot (dirv l1 b1) (dirv l2 b2)
  + (vdot (dirv l2 b2) (north l1 b1) * vdot (dirv l2 b2) (north l1 b1)
     + vdot (dirv l2 b2) (east l1 b1) * vdot (dirv l2 b2) (east l1 b1)) = 1.
Proof.
  rewrite dot_north, dot_east, dot_dirv.
  generalize (sc1 b1) (sc1 b2) (sc1 (l2 - l1)).
  set (a := sin b1). set (b := cos b1). set (c := sin b2). set (d := cos b2).
  set (S := sin (l2 - l1)). set (C := cos (l2 - l1)). intros H1 H2 H3.
  transitivity (d * d * (S * S + C * C) * 1 + c * c * (a * a + b * b) + d * d * C * C * ((a * a + b * b) - 1)); [ring|].
  rewrite H1, H3. lra.
Qed.

Lemma v3_ext_sky a0 a1 a2 (v : V3) : c1 v = a0 -> c2 v = a1 -> c3 v = a2 -> v = (a0, a1, a2).
Proof. destruct v as [[v0 v1] v2]. unfold c1, c2, c3. cbn [fst snd]. intros; subst; reflexivity. Qed.

Section A.
  Variable e : R -> R.
  Notation N := (RNum e).

  Lemma two_pi_R : two_pi N = 2 * PI.
  Proof. unfold two_pi. num_R. reflexivity. Qed.

  Lemma ap_wrap360_R x : ap_wrap360 N x = Rfmod x (2 * PI).
  Proof. unfold ap_wrap360. rewrite two_pi_R. num_R. reflexivity. Qed.

  Lemma dirv_wrap lon lat : dirv (ap_wrap360 N lon) lat = dirv lon lat.
  Proof. rewrite ap_wrap360_R. unfold dirv. rewrite cos_Rfmod, sin_Rfmod. reflexivity. Qed.

  Lemma north_wrap lon lat : north (ap_wrap360 N lon) lat = north lon lat.
  Proof. unfold north. rewrite (ap_wrap360_R lon), cos_Rfmod, sin_Rfmod. reflexivity. Qed.
  Lemma east_wrap lon lat : east (ap_wrap360 N lon) lat = east lon lat.
  Proof. unfold east. rewrite (ap_wrap360_R lon), cos_Rfmod, sin_Rfmod. reflexivity. Qed.

  (* ---------------------------------------------------------------- angular_separation (Vincenty) *)
  Lemma ap_separation_R l1 b1 l2 b2 :
    ap_separation N l1 b1 l2 b2 = acos (vdot (dirv l1 b1) (dirv l2 b2)).
  Proof.
    unfold ap_separation, ap_hypot. cbv zeta. num_R.
    replace (cos b2 * sin (l2 - l1)) with (vdot (dirv l2 b2) (east l1 b1)) by (rewrite dot_east; ring).
    replace (cos b1 * sin b2 - sin b1 * cos b2 * cos (l2 - l1)) with (vdot (dirv l2 b2) (north l1 b1))
      by (rewrite dot_north; ring).
    replace (sin b1 * sin b2 + cos b1 * cos b2 * cos (l2 - l1)) with (vdot (dirv l1 b1) (dirv l2 b2))
      by (rewrite dot_dirv; ring).
    apply Ratan2_acos; [apply sqrt_pos|].
    rewrite sqrt_sqrt.
    - generalize (frame_parseval l1 b1 l2 b2). lra.
    - nra.
  Qed.

  (* ---------------------------------------------------------------- position_angle *)
  Lemma ap_position_angle_R l1 b1 l2 b2 :
    sin (acos (vdot (dirv l1 b1) (dirv l2 b2))) * cos (ap_position_angle N l1 b1 l2 b2)
      = vdot (dirv l2 b2) (north l1 b1)
    /\ sin (acos (vdot (dirv l1 b1) (dirv l2 b2))) * sin (ap_position_angle N l1 b1 l2 b2)
      = vdot (dirv l2 b2) (east l1 b1).
  Proof.
    unfold ap_position_angle. cbv zeta. rewrite ap_wrap360_R, cos_Rfmod, sin_Rfmod. num_R.
    replace (sin b2 * cos b1 - cos b2 * sin b1 * cos (l2 - l1)) with (vdot (dirv l2 b2) (north l1 b1))
      by (rewrite dot_north; ring).
    replace (sin (l2 - l1) * cos b2) with (vdot (dirv l2 b2) (east l1 b1)) by (rewrite dot_east; ring).
    set (x := vdot (dirv l2 b2) (north l1 b1)). set (y := vdot (dirv l2 b2) (east l1 b1)).
    set (c := vdot (dirv l1 b1) (dirv l2 b2)).
    assert (P : c * c + (x * x + y * y) = 1) by apply frame_parseval.
    assert (B : -1 <= c <= 1) by apply dirv_dot_bound.
    rewrite sin_acos by exact B.
    replace (1 - c²) with (x * x + y * y) by (unfold Rsqr; lra).
    apply Ratan2_cos_sin.
  Qed.

  (* ---------------------------------------------------------------- offset_by, regular branch *)
  Lemma offset_point_unit lon lat pa d :
    vdot (offset_point lon lat pa d) (offset_point lon lat pa d) = 1.
  Proof.
    unfold offset_point at 1. rewrite vdot_vlin.
    rewrite (vdot_comm (dirv lon lat)), (vdot_comm (north lon lat)), (vdot_comm (east lon lat)).
    rewrite offset_dot_u, offset_dot_n, offset_dot_e.
    generalize (sc1 d) (sc1 pa). intros H1 H2.
    transitivity (cos d * cos d + sin d * sin d * (sin pa * sin pa + cos pa * cos pa)); [ring|].
    rewrite H2. lra.
  Qed.

  Lemma offset_point_c3 lon lat pa d :
    c3 (offset_point lon lat pa d) = sin lat * cos d + cos lat * sin d * cos pa.
  Proof. unfold offset_point, vlin, dirv, north, east, c3. cbn [fst snd]. ring. Qed.

  (* the horizontal components, rotated back by -lon *)
  Lemma offset_point_c12 lon lat pa d :
    let h := cos d * cos lat - sin d * cos pa * sin lat in
    let k := sin d * sin pa in
    c1 (offset_point lon lat pa d) = h * cos lon - k * sin lon
    /\ c2 (offset_point lon lat pa d) = h * sin lon + k * cos lon.
  Proof. unfold offset_point, vlin, dirv, north, east, c1, c2, c3. cbn [fst snd]. split; ring. Qed.

  Lemma ap_offset_by_R lon lat pa d :
    1 / 1000000000000 <= cos lat ->
    dirv (fst (ap_offset_by N lon lat pa d)) (snd (ap_offset_by N lon lat pa d)) = offset_point lon lat pa d
    /\ 0 <= fst (ap_offset_by N lon lat pa d) < 2 * PI
    /\ - (PI / 2) <= snd (ap_offset_by N lon lat pa d) <= PI / 2.
  Proof.
    intros Hc. unfold ap_offset_by. cbv zeta. cbn [fst snd]. rewrite ap_wrap360_R.
    assert (Hsmall : ap_small N = 1 / 1000000000000) by (unfold ap_small; num_R; reflexivity).
    rewrite Hsmall. num_R.
    destruct (Rltb (cos lat) (1 / 1000000000000)) eqn:E; [apply Rltb_true in E; lra|]. clear E.
    split; [|split; [apply Rfmod_bound; apply twoPI_pos | apply asin_bound]].
    set (cb := sin lat * cos d + cos lat * sin d * cos pa).
    set (h := cos d * cos lat - sin d * cos pa * sin lat).
    set (k := sin d * sin pa).
    assert (U := offset_point_unit lon lat pa d).
    assert (Z := offset_point_c3 lon lat pa d). fold cb in Z.
    destruct (offset_point_c12 lon lat pa d) as [X Y]. fold h k in X, Y.
    assert (HK : h * h + k * k + cb * cb = 1).
    { unfold vdot in U. rewrite X, Y, Z in U. generalize (sc1 lon). intros L.
      transitivity ((h * cos lon - k * sin lon) * (h * cos lon - k * sin lon)
                    + (h * sin lon + k * cos lon) * (h * sin lon + k * cos lon) + cb * cb
                    + (h * h + k * k) * (1 - (sin lon * sin lon + cos lon * cos lon))); [ring|].
      rewrite L. lra. }
    assert (Bc : -1 <= cb <= 1) by (split; nra).
    (* the atan2 arguments are cos(lat) * (k, h) *)
    replace (k * cos lat) with (cos lat * k) by ring.
    replace (cos d - cb * sin lat) with (cos lat * h).
    2:{ unfold h, cb. generalize (sc1 lat). intros L.
        transitivity (cos d * (cos lat * cos lat) - sin d * cos pa * sin lat * cos lat); [ring|].
        replace (cos lat * cos lat) with (1 - sin lat * sin lat) by lra. ring. }
    set (A := Ratan2 (cos lat * k) (cos lat * h)).
    destruct (Ratan2_cos_sin (cos lat * k) (cos lat * h)) as [CA SA]. fold A in CA, SA.
    assert (Hrho : sqrt (cos lat * h * (cos lat * h) + cos lat * k * (cos lat * k)) = cos lat * sqrt (1 - cb * cb)).
    { replace (cos lat * h * (cos lat * h) + cos lat * k * (cos lat * k)) with ((cos lat * cos lat) * (1 - cb * cb)) by nra.
      rewrite sqrt_mult by nra. rewrite sqrt_square by lra. reflexivity. }
    rewrite Hrho in CA, SA.
    set (sb := sqrt (1 - cb * cb)) in *.
    assert (CA' : sb * cos A = h).
    { apply (Rmult_eq_reg_l (cos lat)); [|lra]. lra. }
    assert (SA' : sb * sin A = k).
    { apply (Rmult_eq_reg_l (cos lat)); [|lra]. lra. }
    unfold dirv. rewrite cos_Rfmod, sin_Rfmod, cos_plus, sin_plus, sin_asin, cos_asin by exact Bc.
    replace (1 - cb²) with (1 - cb * cb) by (unfold Rsqr; ring). fold sb.
    symmetry. apply v3_ext_sky.
    - rewrite X. rewrite <- CA', <- SA'. ring.
    - rewrite Y. rewrite <- CA', <- SA'. ring.
    - rewrite Z. reflexivity.
  Qed.

  (* ---------------------------------------------------------------- offset_by, pole branch at the exact poles *)
  Lemma sin_d_nonneg d : 0 <= d <= PI -> 0 <= sin d.
  Proof. intros H. apply sin_ge_0; lra. Qed.

  Lemma cos_asin_cos d : 0 <= d <= PI -> cos (asin (cos d)) = sin d.
  Proof.
    intros H. rewrite cos_asin by apply COS_bound.
    apply sqrt_lem_1.
    - unfold Rsqr. generalize (sc1 d) (COS_bound d). nra.
    - apply sin_d_nonneg; exact H.
    - unfold Rsqr. generalize (sc1 d). lra.
  Qed.

  Lemma ap_offset_by_north_pole lon pa d :
    0 <= d <= PI ->
    dirv (fst (ap_offset_by N lon (PI / 2) pa d)) (snd (ap_offset_by N lon (PI / 2) pa d))
    = offset_point lon (PI / 2) pa d.
  Proof.
    intros Hd. unfold ap_offset_by. cbv zeta. cbn [fst snd]. rewrite ap_wrap360_R.
    assert (Hsmall : ap_small N = 1 / 1000000000000) by (unfold ap_small; num_R; reflexivity).
    rewrite Hsmall. num_R. rewrite cos_PI2, sin_PI2.
    destruct (Rltb 0 (1 / 1000000000000)) eqn:E; [|apply Rltb_false in E; lra]. clear E.
    replace (1 * cos d + 0 * sin d * cos pa) with (cos d) by ring.
    unfold dirv. rewrite cos_Rfmod, sin_Rfmod, sin_asin, (cos_asin_cos d Hd) by apply COS_bound.
    replace (lon + (PI / 2 + 1 * (PI / 2 - pa))) with ((lon - pa) + PI) by field.
    rewrite neg_cos, neg_sin, cos_minus, sin_minus.
    symmetry. apply v3_ext_sky; unfold offset_point, vlin, dirv, north, east, c1, c2, c3; cbn [fst snd];
      rewrite ?cos_PI2, ?sin_PI2; ring.
  Qed.

  Lemma ap_offset_by_south_pole lon pa d :
    0 <= d <= PI ->
    dirv (fst (ap_offset_by N lon (- (PI / 2)) pa d)) (snd (ap_offset_by N lon (- (PI / 2)) pa d))
    = offset_point lon (- (PI / 2)) pa d.
  Proof.
    intros Hd. unfold ap_offset_by. cbv zeta. cbn [fst snd]. rewrite ap_wrap360_R.
    assert (Hsmall : ap_small N = 1 / 1000000000000) by (unfold ap_small; num_R; reflexivity).
    rewrite Hsmall. num_R. rewrite cos_neg, sin_neg, cos_PI2, sin_PI2.
    destruct (Rltb 0 (1 / 1000000000000)) eqn:E; [|apply Rltb_false in E; lra]. clear E.
    replace (- (1) * cos d + 0 * sin d * cos pa) with (- cos d) by ring.
    unfold dirv. rewrite cos_Rfmod, sin_Rfmod, asin_opp, sin_neg, cos_neg, sin_asin, (cos_asin_cos d Hd) by apply COS_bound.
    replace (lon + (PI / 2 + - (1) * (PI / 2 - pa))) with (lon + pa) by field.
    rewrite cos_plus, sin_plus.
    symmetry. apply v3_ext_sky; unfold offset_point, vlin, dirv, north, east, c1, c2, c3; cbn [fst snd];
      rewrite ?cos_neg, ?sin_neg, ?cos_PI2, ?sin_PI2; ring.
  Qed.

  (* regular branch or exact pole *)
  Definition astropy_exact (lat : R) : Prop :=
    1 / 1000000000000 <= cos lat \/ lat = PI / 2 \/ lat = - (PI / 2).

  Lemma ap_offset_by_dirv lon lat pa d :
    astropy_exact lat -> 0 <= d <= PI ->
    dirv (fst (ap_offset_by N lon lat pa d)) (snd (ap_offset_by N lon lat pa d)) = offset_point lon lat pa d.
  Proof.
    intros [H|[H|H]] Hd.
    - apply ap_offset_by_R. exact H.
    - subst. apply ap_offset_by_north_pole. exact Hd.
    - subst. apply ap_offset_by_south_pole. exact Hd.
  Qed.

  (* in between, 0 < cos(lat) < 1e-12, astropy substitutes the pole formula for the
     longitude change: the contract fails there (so the guard is needed) *)
  Lemma ap_offset_by_gap_refuted :
    exists lon lat pa d, - (PI / 2) <= lat <= PI / 2 /\ 0 <= d <= PI /\ 0 < cos lat < 1 / 1000000000000
      /\ dirv (fst (ap_offset_by N lon lat pa d)) (snd (ap_offset_by N lon lat pa d)) <> offset_point lon lat pa d.
  Proof.
    set (x := 1 / 10000000000000).
    assert (Hx : -1 <= x <= 1) by (unfold x; lra).
    exists 0, (acos x), 0, (PI / 2).
    assert (CL : cos (acos x) = x) by (apply cos_acos; exact Hx).
    assert (SL : sin (acos x) = sqrt (1 - x²)) by (apply sin_acos; exact Hx).
    assert (S0 : 0 < sqrt (1 - x²) < 1).
    { split.
      - apply sqrt_lt_R0. unfold Rsqr, x. lra.
      - rewrite <- sqrt_1 at 2. apply sqrt_lt_1_alt. unfold Rsqr, x. lra. }
    generalize PI_RGT_0; intros HP.
    assert (AL : 0 <= acos x <= PI / 2).
    { destruct (acos_bound x) as [A0 A1]. split; [exact A0|].
      destruct (Rle_lt_dec (acos x) (PI / 2)) as [L|L]; [exact L|].
      exfalso. assert (cos (acos x) < 0) by (apply cos_lt_0; lra). rewrite CL in H. unfold x in H. lra. }
    split; [lra|]. split; [lra|]. split; [rewrite CL; unfold x; lra|].
    intros EQ. apply (f_equal c2) in EQ. revert EQ.
    unfold ap_offset_by. cbv zeta. cbn [fst snd]. rewrite ap_wrap360_R.
    assert (Hsmall : ap_small N = 1 / 1000000000000) by (unfold ap_small; num_R; reflexivity).
    rewrite Hsmall. num_R. rewrite CL, SL, cos_PI2, sin_PI2, cos_0, sin_0.
    destruct (Rltb x (1 / 1000000000000)) eqn:E; [|apply Rltb_false in E; unfold x in E; lra]. clear E.
    set (s := sqrt (1 - x²)) in *.
    replace (s * 0 + x * 1 * 1) with x by ring.
    replace (0 + (PI / 2 + s * (PI / 2 - 0))) with (PI / 2 * (1 + s)) by field.
    assert (R1 : 0 <= PI / 2 * (1 + s) < 2 * PI) by (split; nra).
    rewrite (Rfmod_small _ _ R1).
    unfold offset_point, vlin, dirv, north, east, c2. cbn [fst snd].
    rewrite CL, SL, cos_PI2, sin_PI2, cos_0, sin_0. fold s.
    rewrite cos_asin by exact Hx. fold s.
    intros EQ.
    assert (P1 : 0 < sin (PI / 2 * (1 + s))) by (apply sin_gt_0; nra).
    assert (0 < sin (PI / 2 * (1 + s)) * s) by (apply Rmult_lt_0_compat; lra).
    lra.
  Qed.

  (* ---------------------------------------------------------------- the pole branch for EVERY latitude it is taken for *)
  (* 0 <= cos(lat) < 1e-12 (this contains every double next to +-pi/2: cos = 6.1e-17): astropy substitutes the pole formula
     for the longitude change only; the latitude stays exact, and the inner product with the starting direction is off by at
     most 2 cos(lat) *)
  Lemma ap_offset_by_pole_branch_bound lon lat pa d :
    0 <= cos lat < 1 / 1000000000000 ->
    Rabs (vdot (dirv (fst (ap_offset_by N lon lat pa d)) (snd (ap_offset_by N lon lat pa d))) (dirv lon lat) - cos d)
    <= 2 * cos lat.
  Proof.
    intros Hc. unfold ap_offset_by. cbv zeta. cbn [fst snd]. rewrite ap_wrap360_R.
    assert (Hsmall : ap_small N = 1 / 1000000000000) by (unfold ap_small; num_R; reflexivity).
    rewrite Hsmall. num_R.
    destruct (Rltb (cos lat) (1 / 1000000000000)) eqn:E; [|apply Rltb_false in E; lra]. clear E.
    set (cb := sin lat * cos d + cos lat * sin d * cos pa).
    set (h := cos d * cos lat - sin d * cos pa * sin lat).
    set (k := sin d * sin pa).
    set (A := PI / 2 + sin lat * (PI / 2 - pa)).
    assert (HK : h * h + k * k + cb * cb = 1).
    { unfold h, k, cb. generalize (sc1 lat) (sc1 d) (sc1 pa).
      set (sl := sin lat). set (cl := cos lat). set (sd := sin d). set (cd := cos d). set (sp := sin pa). set (cp := cos pa).
      intros H1 H2 H3.
      transitivity (cd * cd * (sl * sl + cl * cl) + sd * sd * cp * cp * (sl * sl + cl * cl) + sd * sd * sp * sp); [ring|].
      rewrite H1.
      transitivity (cd * cd + sd * sd * (sp * sp + cp * cp)); [ring|]. rewrite H3. lra. }
    assert (Bc : -1 <= cb <= 1) by (split; nra).
    assert (Bh : -1 <= h <= 1) by (split; nra).
    unfold vdot, dirv, c1, c2, c3. cbn [fst snd].
    rewrite cos_Rfmod, sin_Rfmod, sin_asin by exact Bc.
    set (co := cos (asin cb)).
    assert (Bco : -1 <= co <= 1) by apply COS_bound.
    assert (BcA : -1 <= cos A <= 1) by apply COS_bound.
    (* cos(lon + A) cos lon + sin(lon + A) sin lon = cos A *)
    assert (E : cos (lon + A) * co * (cos lon * cos lat) + sin (lon + A) * co * (sin lon * cos lat) + cb * sin lat - cos d
                = cos lat * (co * cos A - h)).
    { rewrite cos_plus, sin_plus. unfold h, cb. generalize (sc1 lon) (sc1 lat).
      set (sl := sin lat). set (cl := cos lat). set (sL := sin lon). set (cL := cos lon). intros H1 H2.
      transitivity (cl * co * cos A * (sL * sL + cL * cL) - cos d * (1 - sl * sl) + cl * sin d * cos pa * sl
                    + co * sin A * cl * (sL * cL - cL * sL)); [ring|].
      rewrite H1. replace (1 - sl * sl) with (cl * cl) by lra. ring. }
    rewrite E. rewrite Rabs_mult, (Rabs_pos_eq (cos lat)) by lra.
    assert (Rabs (co * cos A - h) <= 2).
    { apply Rabs_le. assert (-1 <= co * cos A <= 1) by (split; nra). lra. }
    nra.
  Qed.

  Lemma cos_nonneg_of_range lat : - (PI / 2) <= lat <= PI / 2 -> 0 <= cos lat.
  Proof. intros H. apply cos_ge_0; lra. Qed.

  (* ---------------------------------------------------------------- the function with astropy's formulas *)
  Lemma rses_ap_dirv sra sdec tra tdec rra rdec :
    astropy_exact sdec ->
    dirv (fst (rses_ap N sra sdec tra tdec rra rdec)) (snd (rses_ap N sra sdec tra tdec rra rdec))
    = offset_point sra sdec
        (ap_position_angle N (ap_wrap360 N tra) tdec (ap_wrap360 N rra) rdec)
        (acos (vdot (dirv tra tdec) (dirv rra rdec))).
  Proof.
    intros Hc. unfold rses_ap. rewrite rses_R. cbn [o_offset_by o_position_angle o_separation ap_oracle].
    rewrite ap_separation_R, !dirv_wrap.
    rewrite (ap_offset_by_dirv (ap_wrap360 N sra) sdec
                (ap_position_angle N (ap_wrap360 N tra) tdec (ap_wrap360 N rra) rdec)
                (acos (vdot (dirv tra tdec) (dirv rra rdec))) Hc (acos_bound _)).
    unfold offset_point.
    rewrite (dirv_wrap sra sdec), (north_wrap sra sdec), (east_wrap sra sdec). reflexivity.
  Qed.

  Theorem rses_ap_preserves_sep sra sdec tra tdec rra rdec :
    astropy_exact sdec ->
    angsep N (fst (rses_ap N sra sdec tra tdec rra rdec)) (snd (rses_ap N sra sdec tra tdec rra rdec)) sra sdec None
    = angsep N rra rdec tra tdec None.
  Proof.
    intros Hc. rewrite !angsep_angle. unfold angle.
    rewrite (rses_ap_dirv sra sdec tra tdec rra rdec Hc), offset_dot_u.
    rewrite acos_cos by apply acos_bound. rewrite vdot_comm. reflexivity.
  Qed.

  Theorem rses_ap_frame sra sdec tra tdec rra rdec :
    astropy_exact sdec ->
    let out := rses_ap N sra sdec tra tdec rra rdec in
    vdot (dirv (fst out) (snd out)) (dirv sra sdec) = vdot (dirv rra rdec) (dirv tra tdec)
    /\ vdot (dirv (fst out) (snd out)) (north sra sdec) = vdot (dirv rra rdec) (north tra tdec)
    /\ vdot (dirv (fst out) (snd out)) (east sra sdec) = vdot (dirv rra rdec) (east tra tdec).
  Proof.
    intros Hc out. unfold out. rewrite (rses_ap_dirv sra sdec tra tdec rra rdec Hc).
    rewrite offset_dot_u, offset_dot_n, offset_dot_e.
    destruct (ap_position_angle_R (ap_wrap360 N tra) tdec (ap_wrap360 N rra) rdec) as [H1 H2].
    rewrite !dirv_wrap in H1, H2.
    rewrite (north_wrap tra tdec) in H1. rewrite (east_wrap tra tdec) in H2.
    split; [|split; assumption].
    rewrite cos_acos by apply dirv_dot_bound. apply vdot_comm.
  Qed.

  Lemma pipeline_rses_ap sra sdec tra tdec rra rdec :
    astropy_exact sdec ->
    tdm_psi N (fst (rses_ap N sra sdec tra tdec rra rdec)) (snd (rses_ap N sra sdec tra tdec rra rdec)) sra sdec None
      = angsep N rra rdec tra tdec None
    /\ signalpdf_psi N sra sdec (fst (rses_ap N sra sdec tra tdec rra rdec)) (snd (rses_ap N sra sdec tra tdec rra rdec))
      = angsep N rra rdec tra tdec None.
  Proof.
    intros H. rewrite tdm_psi_angsep, signalpdf_psi_angsep, (angsep_sym e sra sdec).
    split; apply rses_ap_preserves_sep; exact H.
  Qed.

  Theorem rses_ap_range sra sdec tra tdec rra rdec :
    0 <= fst (rses_ap N sra sdec tra tdec rra rdec) < 2 * PI
    /\ - (PI / 2) <= snd (rses_ap N sra sdec tra tdec rra rdec) <= PI / 2.
  Proof.
    unfold rses_ap. rewrite rses_R. cbn [o_offset_by ap_oracle]. unfold ap_offset_by. cbv zeta. cbn [fst snd].
    rewrite ap_wrap360_R. num_R.
    split; [apply Rfmod_bound; apply twoPI_pos | apply asin_bound].
  Qed.
  (* for EVERY source declination in [-pi/2, pi/2] - regular branch, exact pole or astropy's approximate pole branch,
     hence also for every double the code can receive as a pole: the cosine of the separation is preserved up to
     2 cos(src_dec) < 2e-12, and exactly outside the approximate branch *)
  Theorem rses_ap_all_latitudes sra sdec tra tdec rra rdec :
    - (PI / 2) <= sdec <= PI / 2 ->
    Rabs (vdot (dirv (fst (rses_ap N sra sdec tra tdec rra rdec)) (snd (rses_ap N sra sdec tra tdec rra rdec))) (dirv sra sdec)
          - vdot (dirv rra rdec) (dirv tra tdec))
    <= (if Rlt_dec (cos sdec) (1 / 1000000000000) then 2 * cos sdec else 0).
  Proof.
    intros Hr. assert (C0 := cos_nonneg_of_range sdec Hr).
    destruct (Rlt_dec (cos sdec) (1 / 1000000000000)) as [Hg|Hg].
    - unfold rses_ap. rewrite rses_R. cbn [o_offset_by o_position_angle o_separation ap_oracle].
      rewrite ap_separation_R, !dirv_wrap.
      set (pa := ap_position_angle N _ _ _ _).
      set (dd := acos (vdot (dirv tra tdec) (dirv rra rdec))).
      assert (B := ap_offset_by_pole_branch_bound (ap_wrap360 N sra) sdec pa dd (conj C0 Hg)).
      rewrite (dirv_wrap sra sdec) in B.
      replace (vdot (dirv rra rdec) (dirv tra tdec)) with (cos dd).
      + exact B.
      + unfold dd. rewrite cos_acos by apply dirv_dot_bound. apply vdot_comm.
    - assert (Hx : astropy_exact sdec) by (left; lra).
      destruct (rses_ap_frame sra sdec tra tdec rra rdec Hx) as [E _].
      rewrite E. replace (vdot (dirv rra rdec) (dirv tra tdec) - vdot (dirv rra rdec) (dirv tra tdec)) with 0 by ring.
      rewrite Rabs_R0. lra.
  Qed.

  (* the premises of the oracle theorems of P_Coords_Sky.v are satisfiable: astropy's own formulas meet them with
     okLat = "regular branch or exact pole" (so those theorems are not vacuous) *)
  Lemma ap_oracle_meets_contracts :
    (forall l1 b1 l2 b2, o_separation (ap_oracle N) l1 b1 l2 b2 = acos (vdot (dirv l1 b1) (dirv l2 b2)))
    /\ (forall lon lat pa d, astropy_exact lat -> 0 <= d <= PI ->
        dirv (fst (o_offset_by (ap_oracle N) lon lat pa d)) (snd (o_offset_by (ap_oracle N) lon lat pa d)) = offset_point lon lat pa d
        /\ 0 <= fst (o_offset_by (ap_oracle N) lon lat pa d) < 2 * PI
        /\ - (PI / 2) <= snd (o_offset_by (ap_oracle N) lon lat pa d) <= PI / 2)
    /\ (forall l1 b1 l2 b2,
        sin (acos (vdot (dirv l1 b1) (dirv l2 b2))) * cos (o_position_angle (ap_oracle N) l1 b1 l2 b2) = vdot (dirv l2 b2) (north l1 b1)
        /\ sin (acos (vdot (dirv l1 b1) (dirv l2 b2))) * sin (o_position_angle (ap_oracle N) l1 b1 l2 b2) = vdot (dirv l2 b2) (east l1 b1)).
  Proof.
    cbn [o_separation o_offset_by o_position_angle ap_oracle].
    split; [exact ap_separation_R|]. split; [|exact ap_position_angle_R].
    intros lon lat pa d Hx Hd. split; [apply ap_offset_by_dirv; assumption|].
    unfold ap_offset_by. cbv zeta. cbn [fst snd]. rewrite ap_wrap360_R. num_R.
    split; [apply Rfmod_bound; apply twoPI_pos | apply asin_bound].
  Qed.
  (* every event of the post-sampling processing keeps its separation with respect to ITS OWN source *)
  Lemma post_sampling_ap_own_source (srcs : list (R * R)) (evs : list (ps_event (T := R))) i k tra tdec rra rdec sra sdec :
    nth_error evs i = Some (k, (tra, tdec), (rra, rdec)) ->
    nth_error srcs k = Some (sra, sdec) ->
    astropy_exact sdec ->
    exists out, nth_error (post_sampling_ap N srcs evs) i = Some (Some out)
      /\ angsep N (fst out) (snd out) sra sdec None = angsep N rra rdec tra tdec None
      /\ 0 <= fst out < 2 * PI /\ - (PI / 2) <= snd out <= PI / 2.
  Proof.
    intros He Hs Hx. unfold post_sampling_ap.
    exists (rses_ap N sra sdec tra tdec rra rdec).
    split.
    - rewrite (map_nth_error _ _ _ He). cbn [fst snd]. rewrite Hs. reflexivity.
    - split; [apply rses_ap_preserves_sep; exact Hx | apply rses_ap_range].
  Qed.

  Lemma post_sampling_ap_length (srcs : list (R * R)) (evs : list (ps_event (T := R))) :
    length (post_sampling_ap N srcs evs) = length evs.
  Proof. unfold post_sampling_ap. apply map_length. Qed.
End A.
