(* C04 — complete case analysis of the Parameter constructor and of make_floating for every form of
   the request (None / scalar / triple, every combination of given and inherited settings). *)
From Coq Require Import ZArith List Bool Lia.
From Sky Require Import Result PyList G_params M_Params S_Params P_Params.
Import ListNotations.
Open Scope Z_scope.

Lemma set_below_b v lo : set_below v lo = (v <? lo).
Proof. destruct (v <? lo) eqn:E; [apply K_set_below, Z.ltb_lt; assumption|].
  destruct (set_below v lo) eqn:E2; [apply K_set_below in E2; apply Z.ltb_ge in E; lia | reflexivity]. Qed.
Lemma set_above_b v hi : set_above v hi = (hi <? v).
Proof. destruct (hi <? v) eqn:E; [apply K_set_above; apply Z.ltb_lt in E; lia|].
  destruct (set_above v hi) eqn:E2; [apply K_set_above in E2; apply Z.ltb_ge in E; lia | reflexivity]. Qed.
Lemma mkfl_oob_b v lo hi : mkfl_oob v lo hi = negb ((lo <=? v) && (v <=? hi)).
Proof.
  destruct ((lo <=? v) && (v <=? hi)) eqn:E; cbn.
  - apply andb_true_iff in E. destruct E as (E1 & E2). apply Z.leb_le in E1, E2. apply K_mkfl_oob. lia.
  - destruct (mkfl_oob v lo hi) eqn:E2; [reflexivity|]. apply K_mkfl_oob in E2.
    apply andb_false_iff in E. destruct E as [E|E]; apply Z.leb_gt in E; lia.
Qed.
Lemma set_fixed_ne_b v i : set_fixed_ne v i = negb (v =? i).
Proof. destruct (v =? i) eqn:E; cbn; [apply K_set_fixed_ne, Z.eqb_eq; assumption|].
  destruct (set_fixed_ne v i) eqn:E2; [reflexivity|]. apply K_set_fixed_ne in E2. apply Z.eqb_neq in E. contradiction. Qed.

(* Parameter(name, initial, valmin, valmax, isfixed): every argument combination *)
Theorem param_new_spec d :
  param_new d =
  let fx := match d_isfixed d with
            | Some b => b
            | None => match d_valmin d, d_valmax d with Some _, Some _ => false | _, _ => true end
            end in
  if fx then Ok (mkParam (d_name d) (d_initial d) true (d_valmin d) (d_valmax d) (d_initial d))
  else match d_valmin d, d_valmax d with
       | Some lo, Some hi =>
           if (lo <=? d_initial d) && (d_initial d <=? hi)
           then Ok (mkParam (d_name d) (d_initial d) false (Some lo) (Some hi) (d_initial d))
           else Err ValueError
       | _, _ => Err TypeError
       end.
Proof.
  unfold param_new, setter_check. cbv zeta.
  destruct (match d_isfixed d with Some b => b | None => _ end); cbn [p_isfixed p_initial p_valmin p_valmax].
  - rewrite set_fixed_ne_b, Z.eqb_refl. reflexivity.
  - destruct (d_valmin d) as [lo|]; [|reflexivity]. rewrite set_below_b.
    destruct (d_valmax d) as [hi|]; [|destruct (d_initial d <? lo); reflexivity]. rewrite set_above_b.
    destruct (d_initial d <? lo) eqn:E1; [apply Z.ltb_lt in E1; replace (lo <=? d_initial d) with false by (symmetry; apply Z.leb_gt; lia); reflexivity|].
    apply Z.ltb_ge in E1. replace (lo <=? d_initial d) with true by (symmetry; apply Z.leb_le; lia). cbn [andb].
    destruct (hi <? d_initial d) eqn:E2.
    + apply Z.ltb_lt in E2. replace (d_initial d <=? hi) with false by (symmetry; apply Z.leb_gt; lia). reflexivity.
    + apply Z.ltb_ge in E2. replace (d_initial d <=? hi) with true by (symmetry; apply Z.leb_le; lia). reflexivity.
Qed.

(* make_floating(initial, valmin, valmax): a given setting is used, a missing one is inherited (initial
   from the current VALUE, bounds from the current bounds); zero is a value like any other *)
Theorem make_floating_spec p i lo hi :
  make_floating p i lo hi =
  let i' := match i with Some v => v | None => p_value p end in
  match opt_or lo (p_valmin p), opt_or hi (p_valmax p) with
  | Some lo', Some hi' =>
      if (lo' <=? i') && (i' <=? hi')
      then Ok (mkParam (p_name p) i' false (Some lo') (Some hi') i')
      else Err ValueError
  | _, _ => Err ValueError
  end.
Proof.
  unfold make_floating, floating_settings, opt_or. cbv zeta.
  set (i' := match i with Some v => v | None => p_value p end).
  destruct lo as [a|]; [|destruct (p_valmin p) as [a|]; cbn [bind]; [|destruct hi; [|destruct (p_valmax p)]; reflexivity]];
  (destruct hi as [b|]; [|destruct (p_valmax p) as [b|]; cbn [bind]; [|reflexivity]]); cbn [bind];
  rewrite mkfl_oob_b; destruct ((a <=? i') && (i' <=? b)) eqn:E; cbn [negb]; try reflexivity;
  unfold set_value, setter_check; cbn [p_isfixed p_valmin p_valmax bind];
  rewrite set_below_b, set_above_b; apply andb_true_iff in E; destruct E as (E1 & E2);
  apply Z.leb_le in E1, E2;
  replace (i' <? a) with false by (symmetry; apply Z.ltb_ge; lia);
  replace (b <? i') with false by (symmetry; apply Z.ltb_ge; lia); reflexivity.
Qed.

(* the three forms of a make_params_floating request entry *)
Theorem float_entry_spec p e :
  let '(i, lo, hi) := parse_fentry e in
  (i, lo, hi) = match e with
                | FNone => (None, None, None)
                | FInit v => (Some v, None, None)
                | FTriple i lo hi => (i, lo, hi)
                end
  /\ make_floating p i lo hi =
     match opt_or lo (p_valmin p), opt_or hi (p_valmax p) with
     | Some lo', Some hi' =>
         let i' := match e with
                   | FNone | FTriple None _ _ => p_value p
                   | FInit v | FTriple (Some v) _ _ => v
                   end in
         if (lo' <=? i') && (i' <=? hi')
         then Ok (mkParam (p_name p) i' false (Some lo') (Some hi') i')
         else Err ValueError
     | _, _ => Err ValueError
     end.
Proof.
  destruct e as [|v|[v|] lo hi]; cbn [parse_fentry]; (split; [reflexivity|]); rewrite make_floating_spec; cbv zeta; reflexivity.
Qed.

(* make_fixed(initial): None keeps the current value (also when it is 0); a given value replaces value
   and initial and drops bounds that do not contain it *)
Theorem make_fixed_spec p i :
  make_fixed p i =
  match i with
  | None => mkParam (p_name p) (p_value p) true (p_valmin p) (p_valmax p) (p_value p)
  | Some v =>
      match p_valmin p, p_valmax p with
      | Some lo, Some hi =>
          if (lo <=? v) && (v <=? hi) then mkParam (p_name p) v true (Some lo) (Some hi) v
          else mkParam (p_name p) v true None None v
      | lo, hi => mkParam (p_name p) v true lo hi v
      end
  end.
Proof.
  unfold make_fixed. destruct i as [v|]; [|reflexivity].
  destruct (p_valmin p) as [lo|], (p_valmax p) as [hi|]; try reflexivity.
  destruct ((lo <=? v) && (v <=? hi)) eqn:E.
  - apply andb_true_iff in E. destruct E as (E1 & E2). apply Z.leb_le in E1, E2.
    assert (X : mkfix_oob v lo hi = false) by (apply K_mkfix_oob; lia). rewrite X. reflexivity.
  - destruct (mkfix_oob v lo hi) eqn:X; [reflexivity|]. apply K_mkfix_oob in X.
    apply andb_false_iff in E. destruct E as [E|E]; apply Z.leb_gt in E; lia.
Qed.

(* the value setter in closed form *)
Theorem set_value_spec p v :
  set_value p v =
  if p_isfixed p then (if v =? p_initial p then Ok (with_value p v) else Err ValueError)
  else match p_valmin p, p_valmax p with
       | Some lo, Some hi => if (lo <=? v) && (v <=? hi) then Ok (with_value p v) else Err ValueError
       | _, _ => Err TypeError
       end.
Proof.
  unfold set_value, setter_check. destruct (p_isfixed p).
  - rewrite set_fixed_ne_b. destruct (v =? p_initial p); reflexivity.
  - destruct (p_valmin p) as [lo|]; [|reflexivity]. rewrite set_below_b.
    destruct (p_valmax p) as [hi|]; [|destruct (v <? lo); reflexivity]. rewrite set_above_b.
    destruct (v <? lo) eqn:E1.
    + apply Z.ltb_lt in E1. replace (lo <=? v) with false by (symmetry; apply Z.leb_gt; lia). reflexivity.
    + apply Z.ltb_ge in E1. replace (lo <=? v) with true by (symmetry; apply Z.leb_le; lia). cbn [andb].
      destruct (hi <? v) eqn:E2.
      * apply Z.ltb_lt in E2. replace (v <=? hi) with false by (symmetry; apply Z.leb_gt; lia). reflexivity.
      * apply Z.ltb_ge in E2. replace (v <=? hi) with true by (symmetry; apply Z.leb_le; lia). reflexivity.
Qed.

(* ---- the independent definitions of S_Params.v are the model's functions *)
Lemma s_param_new_eq d : s_param_new d = param_new d.
Proof. rewrite param_new_spec. reflexivity. Qed.
Lemma s_make_fixed_eq p i : s_make_fixed p i = make_fixed p i.
Proof. rewrite make_fixed_spec. reflexivity. Qed.
Lemma s_make_floating_eq p i lo hi : s_make_floating p i lo hi = make_floating p i lo hi.
Proof. rewrite make_floating_spec. reflexivity. Qed.
Lemma s_set_value_eq p v : s_set_value p v = set_value p v.
Proof. rewrite set_value_spec. reflexivity. Qed.
Lemma s_entry_eq e : s_entry e = parse_fentry e.
Proof. destruct e; reflexivity. Qed.
Lemma s_fix_row_eq req p : s_fix_row req p = fix_one req p.
Proof. unfold s_fix_row, fix_one. destruct (assoc req (p_name p)); [apply s_make_fixed_eq | reflexivity]. Qed.
Lemma s_float_row_eq req p : s_float_row req p = float_one req p.
Proof.
  unfold s_float_row, float_one. destruct (assoc req (p_name p)) as [e|]; [|reflexivity].
  rewrite s_entry_eq. destruct (parse_fentry e) as [[i lo] hi]. rewrite s_make_floating_eq. reflexivity.
Qed.
Lemma s_float_row_ok_eq req p : s_float_row_ok req p = float_row_ok req p.
Proof.
  unfold s_float_row_ok, float_row_ok. destruct (assoc req (p_name p)) as [e|]; [|reflexivity].
  rewrite s_entry_eq. destruct (parse_fentry e) as [[i lo] hi]. cbn [fst snd]. rewrite s_make_floating_eq. f_equal.
  destruct (floating_settings p i lo hi) as [t|err] eqn:E.
  - destruct (make_floating_Ok p i lo hi (ex_intro _ t E)) as (p' & Hp' & _). rewrite Hp'. reflexivity.
  - rewrite (make_floating_Err _ _ _ _ _ E). reflexivity.
Qed.

Lemma s_fix_old t req :
  s_fix t req = if existsb (fun p => is_some (assoc req (p_name p)) && p_isfixed p) t then Err ValueError
                else Ok (map (fix_one req) t).
Proof. unfold s_fix. rewrite (map_ext _ _ (s_fix_row_eq req)). reflexivity. Qed.
Lemma s_float_old t req :
  s_float t req = if forallb (float_row_ok req) t then Ok (map (float_one req) t) else Err ValueError.
Proof.
  unfold s_float. rewrite (map_ext _ _ (s_float_row_eq req)).
  replace (forallb (s_float_row_ok req) t) with (forallb (float_row_ok req) t); [reflexivity|].
  induction t as [|p t IH]; [reflexivity|]. cbn. rewrite s_float_row_ok_eq, IH. reflexivity.
Qed.
Lemma s_setv_old t k v : s_setv t k v = do p <- py_get t k; do p' <- set_value p v; py_set t k p'.
Proof. unfold s_setv. destruct (py_get t k); cbn [bind]; [rewrite s_set_value_eq|]; reflexivity. Qed.
