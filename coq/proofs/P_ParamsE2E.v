(* C04 — end to end: for every operation sequence, every view of the resulting world of objects is the
   brute-force reading of the world the SPECIFICATION interpreter computes from the same sequence. *)
From Coq Require Import ZArith List Bool Lia.
From Sky Require Import Result PyList G_params M_Params S_Params P_Params P_ParamsViews P_ParamsWorld P_ParamsMap
  P_ParamsRec P_ParamsRefine.
Import ListNotations.
Open Scope Z_scope.

Section Reach.
Variables (src : list bool) (ops : list op).
Let w := run (init src) ops.
Let a := s_run (s_init src) ops.

Lemma reach_abs : abs w = a.
Proof. apply refinement_reachable. Qed.

Lemma reach_ok : WorldOk w.
Proof. apply reachable_ok. Qed.

Lemma reach_gps : Consistent (w_store w) (mp_gps (w_map w)) (a_g a) /\ a_names a = mp_names (w_map w) /\ a_src a = mp_src (w_map w).
Proof.
  pose proof reach_abs as E. pose proof reach_ok as HW.
  destruct (world_set_facts w GP _ HW eq_refl) as (HC & _).
  rewrite <- E. unfold abs; cbn. auto.
Qed.

Lemma reach_set r t :
  a_get a r = Ok t -> exists s, get_set w r = Ok s /\ Consistent (w_store w) s t.
Proof.
  rewrite <- reach_abs, get_set_abs. destruct (get_set w r) as [s|e] eqn:Hg; [|discriminate].
  intros H; inversion H; subst. exists s. split; [reflexivity|].
  apply (world_set_facts w r s reach_ok Hg).
Qed.

Theorem e2e_views_set r t :
  a_get a r = Ok t ->
  exists s, get_set w r = Ok s /\
  let T := table_of t in
  ps_mask s = s_mask T
  /\ floating_mask s = map negb (s_mask T)
  /\ ps_fxn s = s_fixed_names T
  /\ ps_fln s = s_floating_names T
  /\ params_name_list s = s_fixed_names T ++ s_floating_names T
  /\ ps_fxv s = s_fixed_values T
  /\ fixed_params_idxs s = s_fixed_idxs T
  /\ floating_params_idxs s = s_floating_idxs T
  /\ n_params s = zlen T
  /\ n_fixed_params s = zlen (s_fixed_names T)
  /\ n_floating_params s = zlen (s_floating_names T)
  /\ floating_param_initials (w_store w) s = Ok (s_floating_initials T)
  /\ floating_param_bounds (w_store w) s = Ok (s_floating_bounds T)
  /\ (forall n, get_fixed_pidx s n = match s_fixed_pidx T n with Some i => Ok i | None => Err KeyError end)
  /\ (forall n, get_floating_pidx s n = match s_floating_pidx T n with Some i => Ok i | None => Err KeyError end).
Proof.
  intros H. destruct (reach_set r t H) as (s & Hg & HC). exists s. split; [assumption|]. apply (views_all _ _ _ HC).
Qed.

Theorem e2e_params_dict r t vec vals :
  a_get a r = Ok t -> s_values (table_of t) vec = Some vals ->
  exists s, get_set w r = Ok s
    /\ forall n, dict_get (get_params_dict s vec) n = s_lookup (s_params_map (table_of t) vals) n.
Proof.
  intros H HV. destruct (reach_set r t H) as (s & Hg & HC). exists s. split; [assumption|].
  apply (view_params_dict _ _ _ _ _ HC HV).
Qed.

Lemma reach_matrix : matrix_ok (w_map w) /\ aliases_ok (w_map w).
Proof. split; [apply reach_ok | apply reachable_aliases_ok]. Qed.

Theorem e2e_model_params_dict vec vals midx arow :
  s_values (table_of (a_g a)) vec = Some vals ->
  nth_error (a_names a) midx = Some arow ->
  exists d, create_model_params_dict (w_map w) vec (Z.of_nat midx) = Ok d
    /\ forall x, dict_get d x = s_lookup (s_local arow vals) x.
Proof.
  intros HV Hn. destruct reach_gps as (HC & En & _). destruct reach_matrix as (HM & HA). rewrite En in Hn.
  apply (model_params_dict_ok _ _ _ _ _ _ _ HC HM HA HV Hn).
Qed.

Theorem e2e_src_params_recarray vec vals sources :
  s_values (table_of (a_g a)) vec = Some vals ->
  (forall arr, sources = Some (inl arr) -> forall z, In z arr -> 0 <= z < Z.of_nat (length (a_src a))) ->
  exists uniq rows,
    create_src_params_recarray (w_map w) vec sources = Ok (uniq, rows)
    /\ strictly_sorted uniq
    /\ (forall u, In u uniq <->
          exists i arow, nth_error (a_src a) i = Some true /\ nth_error (a_names a) i = Some arow /\ In u (somes arow))
    /\ map fst rows = match sources with
                      | None => s_positions 0 (a_src a)
                      | Some (inl arr) => arr
                      | Some (inr srcs) => filter (fun smidx => mem smidx srcs) (s_positions 0 (a_src a))
                      end
    /\ (forall smidx cells, In (smidx, cells) rows ->
          exists i arow, smidx = Z.of_nat i /\ nth_error (a_names a) i = Some arow
            /\ cells = map (s_cell arow vals (s_gpidxs 0 0 (table_of (a_g a)))) uniq).
Proof.
  intros HV Harr. destruct reach_gps as (HC & En & Es). destruct reach_matrix as (HM & HA).
  rewrite En, Es in *.
  destruct (src_params_recarray_sel _ _ _ _ _ sources HC HM HA HV Harr) as (uniq & rows & R1 & R2 & R3 & R4).
  destruct (src_params_recarray_ok _ _ _ _ _ HC HM HA HV) as (uniq' & rows' & Q1 & Q2 & Q3 & _).
  assert (uniq' = uniq).
  { unfold create_src_params_recarray in Q1. destruct (rec_len_bad _ _); [discriminate|].
    rewrite R2 in Q1. cbn [bind] in Q1. destruct (mapM _ _); cbn [bind] in Q1; [|discriminate]. inversion Q1. reflexivity. }
  subst uniq'. exists uniq, rows. split; [assumption|]. split; [assumption|]. split; [assumption|]. split; [|assumption].
  rewrite R3. reflexivity.
Qed.
End Reach.

(* the vector handed to the mapper must have one entry per floating parameter: otherwise the record
   array is refused ... *)
Theorem recarray_rejects_wrong_length m vec sources :
  zlen vec <> n_floating_params (mp_gps m) -> create_src_params_recarray m vec sources = Err ValueError.
Proof.
  intros H. unfold create_src_params_recarray.
  destruct (rec_len_bad (n_floating_params (mp_gps m)) (zlen vec)) eqn:E; [reflexivity|].
  apply K_rec_len_bad in E. contradiction.
Qed.
