(* C03: the index plumbing of M_Weights.v — group slices, the a_jk table, the
   stacked ratio with its index check, the multi-dataset loop. *)
From Coq Require Import Reals ZArith List Bool Lra Lia Permutation Arith.
From Sky Require Import Result PyList Num NumR G_weights M_Weights S_Llh S_Weights
     P_WeightsBase P_Weights P_Stacked.
Import ListNotations.

(* ------------------------------------------------------------------ *)
(* characterising lemmas of the regenerated kernels of G_weights.v      *)
Open Scope Z_scope.
Lemma K_sidx_init : k_sidx_init = 0.
Proof. reflexivity. Qed.
Lemma K_slice_lo s : k_slice_lo s = s.
Proof. reflexivity. Qed.
Lemma K_slice_hi s n : k_slice_hi s n = s + n.
Proof. unfold k_slice_hi. lia. Qed.
Lemma K_sidx_next s n : k_sidx_next s n = s + n.
Proof. unfold k_sidx_next. lia. Qed.
Lemma K_ak_row_idx0 d : k_ak_row_idx0 d = d.
Proof. reflexivity. Qed.
Lemma K_ak_row d x : k_ak_row d x = x.
Proof. reflexivity. Qed.
Lemma K_nsf_pick_idx0 j : k_nsf_pick_idx0 j = j.
Proof. reflexivity. Qed.
Lemma K_nsf_pick j x : k_nsf_pick j x = x.
Proof. reflexivity. Qed.
Lemma K_chg_recarrays x : k_chg_recarrays x = x.
Proof. reflexivity. Qed.
Lemma K_chg_weights x : k_chg_weights x = x.
Proof. reflexivity. Qed.
Lemma K_init_weights x : k_init_weights x = x.
Proof. reflexivity. Qed.
Lemma K_multi_chg x : k_multi_chg x = x.
Proof. reflexivity. Qed.
Lemma K_src_mask s k : k_src_mask (Z.of_nat s) (Z.of_nat k) = Nat.eqb s k.
Proof.
  unfold k_src_mask. destruct (Nat.eqb_spec s k) as [E|E].
  - subst. apply Z.eqb_refl.
  - apply Z.eqb_neq. lia.
Qed.

(* ------------------------------------------------------------------ *)
(* the hypothesis-group slices tile [0, n_sources)                      *)
Lemma slices_from_cons s n r :
  slices_from s (n :: r) = (s, s + n) :: slices_from (s + n) r.
Proof.
  cbn [slices_from].
  pose proof (K_slice_lo s) as E1. pose proof (K_slice_hi s n) as E2.
  pose proof (K_sidx_next s n) as E3. congruence.
Qed.

Lemma zsum_nonneg l : Forall (fun n => 0 <= n) l -> 0 <= zsum l.
Proof. unfold zsum. induction 1 as [|n l Hn _ IH]; cbn [fold_right]; lia. Qed.

Definition in_slice (i : Z) (sl : Z * Z) : bool := (fst sl <=? i) && (i <? snd sl).

Lemma slices_from_count sizes : forall s i,
  Forall (fun n => 0 <= n) sizes ->
  length (filter (in_slice i) (slices_from s sizes))
  = if (s <=? i) && (i <? s + zsum sizes) then 1%nat else 0%nat.
Proof.
  induction sizes as [|n r IH]; intros s i H.
  - cbn. replace (s + 0) with s by lia.
    destruct (s <=? i) eqn:A, (i <? s) eqn:B; cbn; try reflexivity. lia.
  - inversion H as [|? ? Hn Hr]; subst. rewrite slices_from_cons. cbn [filter].
    pose proof (zsum_nonneg r Hr) as Hz.
    assert (E : zsum (n :: r) = n + zsum r) by reflexivity. rewrite E.
    specialize (IH (s + n) i Hr).
    unfold in_slice at 1. cbn [fst snd].
    destruct (s <=? i) eqn:A, (i <? s + n) eqn:B; cbn [andb length];
      rewrite IH;
      destruct (s + n <=? i) eqn:C, (i <? s + n + zsum r) eqn:D, (i <? s + (n + zsum r)) eqn:F;
      cbn [andb]; try reflexivity; lia.
Qed.

(* every source index is covered by exactly one slice, no other index by any *)
Theorem slices_tile sizes i :
  Forall (fun n => 0 <= n) sizes ->
  length (filter (in_slice i) (slices sizes))
  = if (0 <=? i) && (i <? zsum sizes) then 1%nat else 0%nat.
Proof. intros H. unfold slices. rewrite K_sidx_init. apply (slices_from_count sizes 0 i H). Qed.

(* consecutive: each slice starts where the previous one ended; the first at 0,
   the last ends at n_sources *)
Fixpoint chained (s : Z) (sl : list (Z * Z)) (e : Z) : Prop :=
  match sl with
  | [] => s = e
  | (a, b) :: r => a = s /\ a <= b /\ chained b r e
  end.

Lemma slices_from_chained sizes : forall s,
  Forall (fun n => 0 <= n) sizes -> chained s (slices_from s sizes) (s + zsum sizes).
Proof.
  induction sizes as [|n r IH]; intros s H.
  - cbn. unfold zsum. cbn. lia.
  - inversion H as [|? ? Hn Hr]; subst. rewrite slices_from_cons. cbn [chained].
    repeat split; try lia.
    replace (s + zsum (n :: r)) with ((s + n) + zsum r)
      by (change (zsum (n :: r)) with (n + zsum r); lia).
    apply IH. exact Hr.
Qed.

Theorem slices_chained sizes :
  Forall (fun n => 0 <= n) sizes -> chained 0 (slices sizes) (zsum sizes).
Proof.
  intros H. unfold slices. rewrite K_sidx_init.
  apply (slices_from_chained sizes 0 H).
Qed.

(* ------------------------------------------------------------------ *)
(* the stacked ratio of M_Weights is M_Llh's sw_ratio behind an index check
   (any number system)                                                  *)
Section Generic.
  Context {T : Type} (N : Num T).

  (* after change_shg_mgr a long-lived service behaves like a freshly built one,
     whatever it was built for and whatever it was changed to before *)
  Lemma svc_weights_last (W0 : list (list T)) changes W :
    svc_weights W0 (changes ++ [W]) = W.
  Proof. unfold svc_weights. rewrite fold_left_app. reflexivity. Qed.

  Theorem a_jk_after_fresh J (W0 : list (list T)) changes W Ycols :
    a_jk_after N J W0 (changes ++ [W]) Ycols = a_jk_calc N J (combine W Ycols).
  Proof. unfold a_jk_after. rewrite svc_weights_last. reflexivity. Qed.

  Lemma mine_eq k (vals : list (nat * nat * T)) :
    mine k vals = filter (fun v => Nat.eqb (fst (fst v)) k) vals.
  Proof. unfold mine. apply filter_ext. intros v. unfold src_of_val. apply K_src_mask. Qed.

  Lemma stack_step_eq a vals Ri k : stack_step N a vals Ri k = sw_source_step N a vals Ri k.
  Proof. unfold stack_step, sw_source_step. cbv zeta. rewrite mine_eq. reflexivity. Qed.

  Lemma fold_left_ext2 {A B} (f g : A -> B -> A) l : forall a,
    (forall a b, f a b = g a b) -> fold_left f l a = fold_left g l a.
  Proof. induction l as [|x l IH]; intros a H; cbn; [reflexivity|]. rewrite H. apply IH, H. Qed.

  Lemma stacked_ratio_ok a n vals :
    idx_ok (length a) n vals = true -> stacked_ratio N a n vals = Ok (sw_ratio N a n vals).
  Proof.
    intros H. unfold stacked_ratio, sw_ratio. rewrite H. cbv zeta. f_equal. f_equal.
    apply fold_left_ext2. intros; apply stack_step_eq.
  Qed.

  Lemma stacked_ratio_err a n vals :
    idx_ok (length a) n vals = false -> stacked_ratio N a n vals = Err IndexError.
  Proof. intros H. unfold stacked_ratio. rewrite H. reflexivity. Qed.

  Lemma stacked_ratio_inv a n vals R :
    stacked_ratio N a n vals = Ok R ->
    idx_ok (length a) n vals = true /\ R = sw_ratio N a n vals.
  Proof.
    intros H. destruct (idx_ok (length a) n vals) eqn:E.
    - rewrite (stacked_ratio_ok a n vals E) in H. inversion H. auto.
    - rewrite (stacked_ratio_err a n vals E) in H. discriminate.
  Qed.

  (* the check accepts exactly the tables whose pairs of known sources point to selected events *)
  Lemma idx_ok_spec n_src n_sel (vals : list (nat * nat * T)) :
    idx_ok n_src n_sel vals = true <->
    (forall v, In v vals -> (src_of_val v < n_src)%nat -> (evt_of_val v < n_sel)%nat).
  Proof.
    unfold idx_ok. rewrite forallb_forall. split; intros H v Hin.
    - intros Hs. specialize (H v Hin). apply orb_true_iff in H as [H|H].
      + apply negb_true_iff, Nat.ltb_ge in H. lia.
      + apply Nat.ltb_lt in H. exact H.
    - destruct (Nat.ltb (src_of_val v) n_src) eqn:E; cbn [negb orb]; [|reflexivity].
      apply Nat.ltb_lt. apply H; [exact Hin|]. apply Nat.ltb_lt. exact E.
  Qed.
End Generic.

(* ------------------------------------------------------------------ *)
(* real-number reading                                                  *)
Section Comp.
  Variable erfR : R -> R.
  Notation Nm := (RNum erfR).

  Lemma K_ll_init : k_ll_init Nm = 0%R.
  Proof. unfold k_ll_init. rewrite ofZ_R. reflexivity. Qed.
  Lemma K_ll_acc (x y : R) : k_ll_acc Nm x y = (x + y)%R.
  Proof. reflexivity. Qed.

  (* ---- the a_jk table *)
  Definition row_state (p : list R) (m : nat) : list (option R) := map Some p ++ repeat None m.

  Lemma firstn_app_exact {A} (l1 l2 : list A) : firstn (length l1) (l1 ++ l2) = l1.
  Proof. induction l1 as [|x l1 IH]; cbn; [reflexivity|]. now rewrite IH. Qed.
  Lemma skipn_app_exact {A} (l1 l2 : list A) k : skipn (length l1 + k) (l1 ++ l2) = skipn k l2.
  Proof. induction l1 as [|x l1 IH]; cbn; [reflexivity|]. exact IH. Qed.
  Lemma skipn_repeat {A} (x : A) k : forall m, skipn k (repeat x m) = repeat x (m - k).
  Proof.
    induction k as [|k IH]; intros m; [now rewrite Nat.sub_0_r|].
    destruct m as [|m]; [reflexivity|]. cbn [repeat skipn]. rewrite IH. reflexivity.
  Qed.

  Lemma mulrow_length W Y : length Y = length W -> length (mulrow W Y) = length W.
  Proof. intros H. unfold mulrow. rewrite map_length, combine_length, H. lia. Qed.

  Lemma bmul_wf W Y : length Y = length W -> bmul Nm W Y = Ok (mulrow W Y).
  Proof.
    intros H. unfold bmul. rewrite H, Nat.eqb_refl. apply f_equal.
    unfold mulrow. apply map_ext. intros [w y]. apply K_a_jk.
  Qed.

  Lemma set_slice_state p m v :
    (length v <= m)%nat ->
    set_slice (row_state p m) (zlen p) (zlen p + zlen v) v
    = Ok (row_state (p ++ v) (m - length v)).
  Proof.
    intros Hv. unfold set_slice. cbv zeta.
    assert (L : zlen (row_state p m) = Z.of_nat (length p + m)).
    { unfold zlen, row_state. now rewrite app_length, map_length, repeat_length. }
    assert (A : py_norm_idx (zlen (row_state p m)) (zlen p) = zlen p).
    { rewrite L. unfold py_norm_idx, zlen. destruct (Z.of_nat (length p) <? 0) eqn:E; lia. }
    assert (B : py_norm_idx (zlen (row_state p m)) (zlen p + zlen v) = zlen p + zlen v).
    { rewrite L. unfold py_norm_idx, zlen.
      destruct (Z.of_nat (length p) + Z.of_nat (length v) <? 0) eqn:E; lia. }
    rewrite A, B.
    replace (Z.to_nat (zlen p + zlen v - zlen p)) with (length v) by (unfold zlen; lia).
    rewrite Nat.eqb_refl. f_equal.
    replace (Z.to_nat (zlen p)) with (length (map (@Some R) p))
      by (rewrite map_length; unfold zlen; lia).
    unfold row_state. rewrite firstn_app_exact, skipn_app_exact, skipn_repeat.
    rewrite map_app, <- app_assoc. reflexivity.
  Qed.

  Lemma calc_ds_state W m s : forall ps Ycol,
    Forall (fun p => length p = s) ps ->
    Forall (fun Yg => length Yg = length W) Ycol -> length Ycol = length ps ->
    (length W <= m)%nat ->
    calc_ds Nm (Z.of_nat s) (Z.of_nat s + zlen W) W Ycol (map (fun p => row_state p m) ps)
    = Ok (map (fun pY => row_state (fst pY ++ mulrow W (snd pY)) (m - length W))
              (combine ps Ycol)).
  Proof.
    induction ps as [|p ps IH]; intros Ycol Hps HY HL Hm; [reflexivity|].
    destruct Ycol as [|Yg Ycol]; [discriminate HL|].
    inversion Hps as [|? ? Hp Hps']; subst. inversion HY as [|? ? Hg HY']; subst.
    cbn [map calc_ds combine]. rewrite (bmul_wf W Yg Hg). cbn [bind].
    pose proof (mulrow_length W Yg Hg) as ML.
    replace (Z.of_nat (length p)) with (zlen p) by reflexivity.
    replace (zlen W) with (zlen (mulrow W Yg)) by (unfold zlen; now rewrite ML).
    rewrite set_slice_state by (rewrite ML; exact Hm). cbn [bind].
    replace (zlen (mulrow W Yg)) with (zlen W) by (unfold zlen; now rewrite ML).
    replace (zlen p) with (Z.of_nat (length p)) by reflexivity.
    rewrite (IH Ycol Hps' HY') by (cbn in HL; lia || exact Hm). cbn [bind fst snd].
    rewrite ML. reflexivity.
  Qed.

  Lemma n_sources_cons W Ycol (r : list (list R * list (list R))) :
    n_sources ((W, Ycol) :: r) = zlen W + n_sources r.
  Proof. reflexivity. Qed.

  Lemma calc_groups_state : forall groups ps s m,
    Forall (fun p => length p = s) ps -> wf_groups (length ps) groups ->
    Z.of_nat m = n_sources groups ->
    calc_groups Nm (Z.of_nat s) groups (map (fun p => row_state p m) ps)
    = Ok (map (fun p => row_state p 0) (a_rows ps groups)).
  Proof.
    induction groups as [|[W Ycol] r IH]; intros ps s m Hps Hwf Hm.
    - cbn in Hm. assert (m = 0)%nat by (unfold n_sources, zsum in Hm; cbn in Hm; lia). subst m.
      reflexivity.
    - inversion Hwf as [|? ? [HJ HY] Hwf']; subst. cbn [fst snd] in *.
      rewrite n_sources_cons in Hm.
      assert (Hr : 0 <= n_sources r).
      { unfold n_sources. apply zsum_nonneg. apply Forall_forall. intros x Hx.
        apply in_map_iff in Hx as (g & <- & _). unfold zlen. lia. }
      assert (HWm : (length W <= m)%nat) by (unfold zlen in Hm; lia).
      cbn [calc_groups a_rows].
      pose proof (K_slice_lo (Z.of_nat s)) as E1.
      pose proof (K_slice_hi (Z.of_nat s) (zlen W)) as E2.
      pose proof (K_sidx_next (Z.of_nat s) (zlen W)) as E3.
      rewrite E1, E2, E3.
      rewrite (calc_ds_state W m s ps Ycol Hps HY HJ HWm). cbn [bind].
      set (ps' := map (fun pY => fst pY ++ mulrow W (snd pY)) (combine ps Ycol)).
      replace (map (fun pY => row_state (fst pY ++ mulrow W (snd pY)) (m - length W))
                   (combine ps Ycol))
        with (map (fun p => row_state p (m - length W)) ps')
        by (unfold ps'; now rewrite map_map).
      replace (Z.of_nat s + zlen W) with (Z.of_nat (s + length W)) by (unfold zlen; lia).
      assert (Lps' : length ps' = length ps).
      { unfold ps'. rewrite map_length, combine_length, HJ. lia. }
      apply IH.
      + unfold ps'. apply Forall_forall. intros q Hq.
        apply in_map_iff in Hq as ([p Yg] & <- & Hin). cbn [fst snd].
        pose proof (in_combine_l _ _ _ _ Hin) as Hp. pose proof (in_combine_r _ _ _ _ Hin) as Hy.
        rewrite Forall_forall in Hps, HY.
        rewrite app_length, (mulrow_length W Yg (HY Yg Hy)), (Hps p Hp). reflexivity.
      + rewrite Lps'. exact Hwf'.
      + unfold zlen in Hm. lia.
  Qed.

  Lemma mapM_read_state (ps : list (list R)) :
    mapM (mapM (@read_entry R)) (map (fun p => row_state p 0) ps) = Ok ps.
  Proof.
    assert (G : forall p : list R, mapM (@read_entry R) (row_state p 0) = Ok p).
    { intros p. unfold row_state. cbn [repeat]. rewrite app_nil_r.
      induction p as [|x p IH]; [reflexivity|]. cbn [map mapM read_entry bind].
      rewrite IH. reflexivity. }
    induction ps as [|p ps IH]; [reflexivity|]. cbn [map mapM]. rewrite G. cbn [bind].
    rewrite IH. reflexivity.
  Qed.

  (* C03: the table the service computes is W_k * Y_jk, every entry written
     (no read of an unwritten np.empty cell), for any number of groups *)
  Theorem a_jk_calc_spec J groups :
    wf_groups J groups -> a_jk_calc Nm J groups = Ok (a_spec J groups).
  Proof.
    intros Hwf. unfold a_jk_calc, a_spec. cbv zeta.
    assert (Hn : 0 <= n_sources groups).
    { unfold n_sources. apply zsum_nonneg. apply Forall_forall. intros x Hx.
      apply in_map_iff in Hx as (g & <- & _). unfold zlen. lia. }
    replace (repeat (repeat None (Z.to_nat (n_sources groups))) J)
      with (map (fun p : list R => row_state p (Z.to_nat (n_sources groups))) (repeat [] J)).
    2:{ clear. generalize (Z.to_nat (n_sources groups)) as n. intros n.
        induction J as [|J IHJ]; [reflexivity|]. cbn [repeat map]. now rewrite IHJ. }
    pose proof (K_sidx_init) as E0. rewrite E0. change 0 with (Z.of_nat 0).
    rewrite (calc_groups_state groups (repeat [] J) 0 (Z.to_nat (n_sources groups))).
    - cbn [bind]. apply mapM_read_state.
    - apply Forall_forall. intros p Hp. apply repeat_spec in Hp. now subst.
    - rewrite repeat_length. exact Hwf.
    - lia.
  Qed.

  (* ---- the multi-dataset loop *)
  Local Open Scope R_scope.

  Lemma py_get_nat {A} (l : list A) k x : py_get l (Z.of_nat k) = Ok x -> nth_error l k = Some x.
  Proof.
    unfold py_get. cbv zeta. destruct (Z.of_nat k <? 0)%Z eqn:E; [apply Z.ltb_lt in E; lia|].
    destruct ((Z.of_nat k <? 0)%Z || (zlen l <=? Z.of_nat k)%Z); [discriminate|].
    rewrite Nat2Z.id. destruct (nth_error l k); [intros H; inversion H; reflexivity|discriminate].
  Qed.

  Lemma py_get_In {A} (l : list A) i x : py_get l i = Ok x -> In x l.
  Proof.
    unfold py_get. cbv zeta.
    destruct (_ || _); [discriminate|].
    destruct (nth_error l _) eqn:E; [|discriminate].
    intros H; inversion H; subst. eapply nth_error_In. exact E.
  Qed.

  Lemma py_get_map {A B} (g : A -> B) (l : list A) i :
    py_get (map g l) i = match py_get l i with Ok x => Ok (g x) | Err e => Err e end.
  Proof.
    unfold py_get, zlen. cbv zeta. rewrite map_length.
    destruct (_ || _); [reflexivity|].
    rewrite nth_error_map. destruct (nth_error l _); reflexivity.
  Qed.

  Lemma skipn_cons_nth_error {A} (l : list A) : forall k x,
    nth_error l k = Some x -> skipn k l = x :: skipn (S k) l.
  Proof.
    induction l as [|y l IH]; intros [|k] x H; cbn in *; try discriminate.
    - inversion H. reflexivity.
    - apply IH. exact H.
  Qed.

  Definition term (opa ns : R) (q : R * (dset (T:=R) * list R)) : R :=
    logLambda_manual (opa - 1) (d_N (fst (snd q))) (ns * fst q) (snd (snd q)).

  Definition ratio_of (a : list (list R)) (d : dset (T:=R)) (Rj : list R) : Prop :=
    exists a_k, py_get a (d_idx d) = Ok a_k
                /\ stacked_ratio Nm a_k (d_nsel d) (d_vals d) = Ok Rj.

  Lemma multi_loop_spec opa ns a f : forall ds k acc v,
    multi_loop Nm opa ns a f (Z.of_nat k) ds acc = Ok v ->
    exists Rs, Forall2 (ratio_of a) ds Rs /\ (length ds <= length (skipn k f))%nat
               /\ v = acc + Rsum (map (term opa ns) (combine (skipn k f) (combine ds Rs))).
  Proof.
    induction ds as [|d r IH]; intros k acc v H.
    - cbn in H. inversion H; subst. exists []. split; [constructor|]. split; [cbn; lia|].
      cbn [combine]. rewrite combine_nil. cbn. lra.
    - cbn [multi_loop] in H.
      pose proof (K_nsf_pick_idx0 (Z.of_nat k)) as EJ. rewrite EJ in H.
      destruct (py_get f (Z.of_nat k)) as [fj|] eqn:Ef; [|discriminate]. cbn [bind] in H.
      unfold single_value in H.
      pose proof (K_ak_row_idx0 (d_idx d)) as ED. rewrite ED in H.
      destruct (py_get a (d_idx d)) as [a_k|] eqn:Ea; [|discriminate]. cbn [bind] in H.
      destruct (stacked_ratio Nm a_k (d_nsel d) (d_vals d)) as [Rj|] eqn:Es; [|discriminate].
      cbn [bind] in H.
      replace (Z.of_nat k + 1)%Z with (Z.of_nat (S k)) in H by lia.
      apply IH in H as (Rs & HF & HL & Hv).
      apply py_get_nat in Ef. rewrite (skipn_cons_nth_error f k fj Ef).
      exists (Rj :: Rs). split; [constructor; [exists a_k; split; assumption|exact HF]|].
      split; [cbn [length]; lia|].
      rewrite Hv.
      match goal with |- context [k_ll_acc Nm ?x ?y] =>
        replace (k_ll_acc Nm x y) with (x + y) by (symmetry; apply K_ll_acc) end.
      rewrite value_is_manual.
      match goal with |- context [w_nsf Nm ?x ?y] =>
        replace (w_nsf Nm x y) with (x * y) by (symmetry; apply K_nsf) end.
      cbn [combine map]. unfold term at 2. cbn [fst snd]. unfold Rsum. cbn [fold_right]. lra.
  Qed.

  (* C03: the multi-dataset value is the sum over the datasets of the manual's
     single-dataset log-likelihood ratio at ns * f_j, with the stacked ratios of
     the dataset's own row of a_jk *)
  Theorem multi_eval_additive opa ns J groups ds v :
    multi_eval Nm opa ns J groups ds = Ok v ->
    exists a Rs,
      a_jk_calc Nm J groups = Ok a /\ length ds = J /\ (length ds <= length (f_j Nm a))%nat
      /\ Forall2 (ratio_of a) ds Rs
      /\ v = Rsum (map (term opa ns) (combine (f_j Nm a) (combine ds Rs))).
  Proof.
    unfold multi_eval. intros H.
    destruct (Nat.eqb (length ds) J) eqn:EL; cbn [negb] in H; [|discriminate].
    apply Nat.eqb_eq in EL.
    destruct (a_jk_calc Nm J groups) as [a|] eqn:Ea; [|discriminate]. cbn [bind] in H.
    change 0%Z with (Z.of_nat 0) in H.
    apply multi_loop_spec in H as (Rs & HF & HL & Hv). cbn [skipn] in *.
    exists a, Rs. repeat split; try assumption.
    rewrite Hv, K_ll_init. lra.
  Qed.

  (* ---- W -> c W, end to end *)
  Definition scaleW (c : R) (groups : list (list R * list (list R))) :=
    map (fun g => (map (Rmult c) (fst g), snd g)) groups.

  Lemma mulrow_scale c W : forall Y, mulrow (map (Rmult c) W) Y = map (Rmult c) (mulrow W Y).
  Proof.
    unfold mulrow. induction W as [|w W IH]; intros [|y Y]; cbn [map combine fst snd]; try reflexivity.
    rewrite IH. f_equal. lra.
  Qed.

  Lemma a_rows_scale c : forall groups ps,
    a_rows (map (map (Rmult c)) ps) (scaleW c groups) = map (map (Rmult c)) (a_rows ps groups).
  Proof.
    induction groups as [|[W Ycol] r IH]; intros ps; [reflexivity|].
    cbn [scaleW map a_rows fst snd]. fold (scaleW c r). rewrite <- IH. f_equal.
    clear. revert Ycol. induction ps as [|p ps IHp]; intros [|Yg Ycol]; cbn [map combine fst snd];
      try reflexivity.
    rewrite IHp, map_app, mulrow_scale. reflexivity.
  Qed.

  Lemma a_spec_scale c J groups : a_spec J (scaleW c groups) = map (map (Rmult c)) (a_spec J groups).
  Proof.
    unfold a_spec. rewrite <- a_rows_scale. f_equal.
    induction J as [|J IH]; [reflexivity|]. cbn [repeat map]. now rewrite <- IH.
  Qed.

  Lemma wf_groups_scale c J groups : wf_groups J groups -> wf_groups J (scaleW c groups).
  Proof.
    unfold wf_groups, scaleW. intros H. apply Forall_forall. intros g Hg.
    apply in_map_iff in Hg as (g0 & <- & Hin). rewrite Forall_forall in H.
    destruct (H g0 Hin) as [H1 H2]. cbn [fst snd]. split; [exact H1|].
    rewrite map_length. exact H2.
  Qed.

  Lemma f_j_scale_table c (a : list (list R)) :
    c <> 0 -> total a <> 0 -> f_j Nm (map (map (Rmult c)) a) = f_j Nm a.
  Proof.
    intros Hc Ht. rewrite !f_j_R, !map_map.
    assert (E : Rsum (map (fun x => Rsum (map (Rmult c) x)) a) = c * total a).
    { unfold total. clear. unfold Rsum at 1 3. induction a as [|r a IH]; cbn [map fold_right]; [lra|].
      rewrite IH, Rsum_scale. lra. }
    rewrite E. apply map_ext. intros r. rewrite Rsum_scale. fold (total a). field. split; assumption.
  Qed.

  Lemma multi_loop_scale c opa ns a f :
    c <> 0 -> Forall (fun row => Rsum row <> 0) a ->
    forall ds j acc,
      multi_loop Nm opa ns (map (map (Rmult c)) a) f j ds acc = multi_loop Nm opa ns a f j ds acc.
  Proof.
    intros Hc Hrows. induction ds as [|d r IH]; intros j acc; [reflexivity|].
    cbn [multi_loop]. destruct (py_get f (k_nsf_pick_idx0 j)) as [fj|]; [|reflexivity].
    cbn [bind].
    assert (ES : single_value Nm opa (map (map (Rmult c)) a) (w_nsf Nm ns fj) d
                 = single_value Nm opa a (w_nsf Nm ns fj) d).
    { unfold single_value. rewrite py_get_map.
      destruct (py_get a (k_ak_row_idx0 (d_idx d))) as [a_k|] eqn:Ea; [|reflexivity].
      cbn [bind]. apply py_get_In in Ea. rewrite Forall_forall in Hrows. specialize (Hrows a_k Ea).
      destruct (idx_ok (length a_k) (d_nsel d) (d_vals d)) eqn:EI.
      - rewrite (stacked_ratio_ok Nm (map (Rmult c) a_k)) by (rewrite map_length; exact EI).
        rewrite (stacked_ratio_ok Nm a_k) by exact EI.
        rewrite (stacked_ratio_scale erfR c a_k _ _ Hc Hrows). reflexivity.
      - rewrite (stacked_ratio_err Nm (map (Rmult c) a_k)) by (rewrite map_length; exact EI).
        rewrite (stacked_ratio_err Nm a_k) by exact EI. reflexivity. }
    rewrite ES. destruct (single_value Nm opa a (w_nsf Nm ns fj) d); [|reflexivity].
    cbn [bind]. apply IH.
  Qed.

  (* C03: multiplying all source weights by a common factor changes nothing:
     same value, same error behaviour *)
  Theorem multi_eval_scale c opa ns J groups ds :
    c <> 0 -> wf_groups J groups ->
    Forall (fun row => Rsum row <> 0) (a_spec J groups) -> total (a_spec J groups) <> 0 ->
    multi_eval Nm opa ns J (scaleW c groups) ds = multi_eval Nm opa ns J groups ds.
  Proof.
    intros Hc Hwf Hrows Htot. unfold multi_eval.
    destruct (negb (Nat.eqb (length ds) J)); [reflexivity|].
    rewrite (a_jk_calc_spec J (scaleW c groups) (wf_groups_scale c J groups Hwf)).
    rewrite (a_jk_calc_spec J groups Hwf). cbn [bind].
    rewrite a_spec_scale, (f_j_scale_table c _ Hc Htot).
    apply multi_loop_scale; assumption.
  Qed.

  Theorem weights_eval_scale c J groups :
    c <> 0 -> wf_groups J groups -> total (a_spec J groups) <> 0 ->
    exists a, weights_eval Nm J groups = Ok (a, f_j Nm a)
              /\ weights_eval Nm J (scaleW c groups) = Ok (map (map (Rmult c)) a, f_j Nm a).
  Proof.
    intros Hc Hwf Htot. exists (a_spec J groups). unfold weights_eval.
    rewrite (a_jk_calc_spec J (scaleW c groups) (wf_groups_scale c J groups Hwf)).
    rewrite (a_jk_calc_spec J groups Hwf). cbn [bind].
    rewrite a_spec_scale, (f_j_scale_table c _ Hc Htot). split; reflexivity.
  Qed.
End Comp.
