From Coq Require Import ZArith List Bool Lia.
From Sky Require Import Result G_parallel M_Parallel M_ParallelNcpu P_Parallel P_ParallelTop.
Import ListNotations.
Open Scope Z_scope.

Lemma K_ncpu_local_missing o : ncpu_local_missing o = match o with None => true | Some _ => false end.
Proof. unfold ncpu_local_missing; destruct o; reflexivity. Qed.
Lemma K_ncpu_cfg_missing o : ncpu_cfg_missing o = match o with None => true | Some _ => false end.
Proof. unfold ncpu_cfg_missing; destruct o; reflexivity. Qed.
Lemma K_ncpu_default : ncpu_default = 1.
Proof. unfold ncpu_default; lia. Qed.
Lemma K_ncpu_too_small z : ncpu_too_small z = (z <? 1).
Proof. unfold ncpu_too_small. destruct (Z.ltb_spec z 1); destruct (z <? 1) eqn:E; try reflexivity;
  try (apply Z.ltb_lt in E; lia); try (apply Z.ltb_ge in E; lia). Qed.

(* first setting that is not None among local, cfg, 1 *)
Definition effective (cfg local : nval) : nval :=
  match local with VNone => match cfg with VNone => VInt 1 | v => v end | v => v end.

Lemma get_ncpu_spec cfg local :
  get_ncpu cfg local =
  match effective cfg local with
  | VInt z => if z <? 1 then Err ValueError else Ok z
  | _ => Err TypeError
  end.
Proof.
  unfold get_ncpu, effective.
  rewrite K_ncpu_local_missing. destruct local as [|zl|]; cbn [as_opt];
    rewrite K_ncpu_cfg_missing; try (destruct cfg as [|zc|]; cbn [as_opt]);
    rewrite ?K_ncpu_default, ?K_ncpu_too_small; reflexivity.
Qed.

Lemma get_ncpu_ok cfg local n :
  get_ncpu cfg local = Ok n ->
  1 <= n /\ effective cfg local = VInt n.
Proof.
  rewrite get_ncpu_spec. destruct (effective cfg local) as [|z|]; try discriminate.
  destruct (Z.ltb_spec z 1); [discriminate|]. intro E; inversion E; subst. split; [lia|reflexivity].
Qed.

(* a number accepted by get_ncpu is never rejected by parallelize *)
Lemma get_ncpu_parallelize {A R} cfg local n (f : A -> res R) args sched :
  get_ncpu cfg local = Ok n ->
  parallelize f args n sched <> Some (Fail BadNcpu).
Proof.
  intro H. apply get_ncpu_ok in H as [Hn _].
  unfold parallelize, par_with. rewrite K_par_empty, K_par_single.
  destruct (Z.eqb_spec (Z.of_nat (length args)) 0); [discriminate|].
  destruct (Z.eqb_spec n 1).
  - destruct (mapM f args); discriminate.
  - destruct (Z.ltb_spec n 1); [lia|].
    destruct (negb _); [discriminate|].
    destruct (mapM f (chunk args (Z.to_nat n) 0)); [|discriminate].
    destruct (exec _ _ sched _) as [w m|o] eqn:E; [discriminate|].
    intro Hc. inversion Hc; subst. 
    revert E. generalize (length (worker_pids (Z.to_nat n))). intros np E.
    (* BadNcpu is produced by no step of the gather loop *)
    assert (Hno : forall sch s, (forall w m, s = Run w m -> True) -> s <> Fin (Fail BadNcpu) ->
              M_Parallel.exec np (fun pid => mapM f (chunk args (Z.to_nat n) pid)) sch s <> Fin (Fail BadNcpu)).
    { induction sch as [|a t IH]; intros s _ Hs; [exact Hs|].
      rewrite exec_cons. apply IH; [trivial|].
      destruct s as [w m|o]; [|exact Hs]. destruct a as [|pid wa]; cbn [M_Parallel.step]; [|discriminate].
      rewrite mstep_eq. destruct (ph m) as [|ae|ae|pid|pid e|].
      - destruct (it m <? np)%nat; discriminate.
      - destruct (rq w) as [|[? ?] ?]; [destruct (putting np w)|]; discriminate.
      - destruct (any_died np w); [discriminate|]. destruct ae; discriminate.
      - destruct ((1 <=? pid)%nat && (pid <=? np)%nat); discriminate.
      - destruct (lq (wks w pid)) as [|[?|] ?]; try discriminate. destruct e; discriminate.
      - destruct (all_ended np w); [|discriminate]. destruct (assemble (pmap m)); discriminate. }
    apply (Hno sched (init l)); [trivial|discriminate|exact E].
Qed.
