(* C15, differentiability of the interpolated value as a function of the
   parameter, INCLUDING the dependence of the interpolation nodes on it: strictly
   inside a cell (Linear1D) / closer to one grid point than to its neighbours
   (Parabola1D), by more than the code's 5e-10-spacing resolution, the nodes are
   locally constant, hence the value is differentiable there and its derivative
   is the reported gradient. *)
From Coq Require Import Reals ZArith List Bool Lra Lia.
From Coquelicot Require Import Coquelicot.
From Sky Require Import Result PyList Num NumR G_grid M_Grid P_Grid P_GridInterp.
Import ListNotations.
Open Scope R_scope.

Section Local.
  Variable erfR : R -> R.
  Notation RN := (RNum erfR).

  Lemma dgrid_delta_pos a b d : (0 <= d)%Z -> (0 < b)%Z -> 0 < g_delta (dgrid a b d).
  Proof. intros Hd Hb. cbn. apply Rmult_lt_0_compat; [apply IZR_lt; exact Hb|apply Rinv_0_lt_compat, pow10_pos, Hd]. Qed.

  (* strictly inside cell n (further than the 5e-10 resolution from its ends)
     the computed index is n *)
  Lemma intD_interior g v n : 0 < g_delta g -> (0 <= n)%Z ->
    IZR n + 5 / 10000000000 < (v - g_lb g) / g_delta g < IZR n + 1 - 5 / 10000000000 ->
    floatD RN g v - IZR n < 1 /\ 0 < floatD RN g v - IZR n /\ intD RN g v = IZR n.
  Proof.
    intros Hdel Hn [H1 H2]. destruct (floatD_props erfR g v) as [K [_ BK]]. apply Rabs_le_inv in BK.
    set (f := floatD RN g v) in *.
    assert (Hf : IZR n < f < IZR n + 1) by lra.
    split; [lra|]. split; [lra|].
    rewrite intD_R. fold f. unfold Rtrunc.
    assert (0 <= IZR n) by (apply IZR_le; exact Hn).
    destruct (Rle_dec 0 f); [|lra]. unfold Rfloor. rewrite (Int_part_spec f n) by lra. reflexivity.
  Qed.

  Lemma cell_nodes a b d n v : (0 <= d)%Z -> (0 < b)%Z -> (0 <= n)%Z -> let g := dgrid a b d in
    IZR n + 5 / 10000000000 < (v - g_lb g) / g_delta g < IZR n + 1 - 5 / 10000000000 ->
    round_lower RN g v = g_lb g + IZR n * g_delta g /\
    round_upper RN g v = g_lb g + IZR (n + 1) * g_delta g.
  Proof.
    intros Hd Hb Hn g Hv. pose proof (dgrid_delta_pos a b d Hd Hb) as Hdel. fold g in Hdel.
    destruct (intD_interior g v n Hdel Hn Hv) as [_ [_ Ei]]. split.
    - rewrite round_lower_is_Gp. unfold k_lower. rewrite Ei. apply Gp_exact. exact Hd.
    - rewrite round_upper_is_Gp. unfold k_upper. rewrite Ei. num_R.
      replace (IZR n + 1) with (IZR (n + 1)) by (rewrite plus_IZR; reflexivity). apply Gp_exact. exact Hd.
  Qed.

  (* T: strictly inside a cell the interpolated value, as a function of the
     parameter (including the dependence of the nodes on it), is differentiable
     and its derivative is the gradient the method reports *)
  Theorem linear_is_derive_inside_cell a b d n F x : (0 <= d)%Z -> (0 < b)%Z -> (0 <= n)%Z ->
    let g := dgrid a b d in
    IZR n + 5 / 10000000000 < (x - g_lb g) / g_delta g < IZR n + 1 - 5 / 10000000000 ->
    is_derive (lin_value1 RN g F) x (lin_grad1 RN g F x).
  Proof.
    intros Hd Hb Hn g Hx. pose proof (dgrid_delta_pos a b d Hd Hb) as Hdel. fold g in Hdel.
    set (x0 := g_lb g + IZR n * g_delta g). set (x1 := g_lb g + IZR (n + 1) * g_delta g).
    set (m := (F x1 - F x0) / (x1 - x0)). set (b0 := F x0 - m * x0).
    destruct (cell_nodes a b d n x Hd Hb Hn Hx) as [EL EU]. fold g in EL, EU.
    assert (Eg : lin_grad1 RN g F x = m) by (rewrite lin_grad1_R, EL, EU; reflexivity).
    rewrite Eg.
    apply (is_derive_ext_loc (fun t => m * t + b0)).
    - apply (locally_interval _ x (g_lb g + (IZR n + 5 / 10000000000) * g_delta g)
                               (g_lb g + (IZR n + 1 - 5 / 10000000000) * g_delta g)).
      + cbn [Rbar_lt]. destruct Hx as [H1 _].
        apply (Rmult_lt_compat_r (g_delta g)) in H1; [|exact Hdel].
        replace ((x - g_lb g) / g_delta g * g_delta g) with (x - g_lb g) in H1 by (field; lra). lra.
      + cbn [Rbar_lt]. destruct Hx as [_ H2].
        apply (Rmult_lt_compat_r (g_delta g)) in H2; [|exact Hdel].
        replace ((x - g_lb g) / g_delta g * g_delta g) with (x - g_lb g) in H2 by (field; lra). lra.
      + intros y Hy1 Hy2. cbn [Rbar_lt] in Hy1, Hy2.
        assert (Hy : IZR n + 5 / 10000000000 < (y - g_lb g) / g_delta g < IZR n + 1 - 5 / 10000000000).
        { split.
          - apply (Rmult_lt_reg_r (g_delta g)); [exact Hdel|].
            replace ((y - g_lb g) / g_delta g * g_delta g) with (y - g_lb g) by (field; lra). lra.
          - apply (Rmult_lt_reg_r (g_delta g)); [exact Hdel|].
            replace ((y - g_lb g) / g_delta g * g_delta g) with (y - g_lb g) by (field; lra). lra. }
        destruct (cell_nodes a b d n y Hd Hb Hn Hy) as [EL' EU']. fold g in EL', EU'.
        rewrite lin_value1_R. cbv zeta. rewrite EL', EU'. reflexivity.
    - auto_derive; [exact I|ring].
  Qed.
End Local.


Lemma Rrint_lt_half r : 0 <= r < 1 / 2 -> Rrint r = 0.
Proof.
  intros H. unfold Rrint. rewrite (Int_part_spec r 0) by lra.
  destruct (Rlt_dec (r - 0) (1 / 2)); [reflexivity|lra].
Qed.
Lemma Rrint_gt_half r : 1 / 2 < r < 1 -> Rrint r = 1.
Proof.
  intros H. unfold Rrint. rewrite (Int_part_spec r 0) by lra.
  destruct (Rlt_dec (r - 0) (1 / 2)); [lra|].
  destruct (Rlt_dec (1 / 2) (r - 0)); [reflexivity|lra].
Qed.

Section Local2.
  Variable erfR : R -> R.
  Notation RN := (RNum erfR).

  (* closer to grid point m >= 1 than to its neighbours (by more than the
     resolution): the nearest grid point is G m *)
  Lemma nearest_interior a b d m v : (0 <= d)%Z -> (0 < b)%Z -> (1 <= m)%Z -> let g := dgrid a b d in
    IZR m - 1 / 2 + 5 / 10000000000 < (v - g_lb g) / g_delta g < IZR m + 1 / 2 - 5 / 10000000000 ->
    round_nearest RN g v = g_lb g + IZR m * g_delta g.
  Proof.
    intros Hd Hb Hm g [H1 H2]. pose proof (dgrid_delta_pos a b d Hd Hb) as Hdel. fold g in Hdel.
    destruct (floatD_props erfR g v) as [K [_ BK]]. apply Rabs_le_inv in BK.
    assert (Hm1 : 1 <= IZR m) by (apply IZR_le; exact Hm).
    rewrite round_nearest_is_Gp. unfold k_nearest. rewrite intD_R.
    set (f := floatD RN g v) in *.
    assert (Hf : IZR m - 1 / 2 < f < IZR m + 1 / 2) by lra.
    assert (Ek : nadd RN (around RN 0 (nfmod RN f (ofZ RN 1))) (Rtrunc f) = IZR m).
    { unfold Rtrunc. destruct (Rle_dec 0 f); [|lra]. unfold Rfloor. num_R. unfold Rfmod, Rfloor.
      replace (f / 1) with f by field. rewrite around_R. change (10 ^ 0)%Z with 1%Z.
      destruct (Rle_dec (IZR m) f).
      - rewrite (Int_part_spec f m) by lra.
        rewrite (Rrint_lt_half ((f - 1 * IZR m) * 1)) by lra. lra.
      - rewrite (Int_part_spec f (m - 1)) by (rewrite minus_IZR; lra). rewrite minus_IZR.
        rewrite (Rrint_gt_half ((f - 1 * (IZR m - 1)) * 1)) by lra. lra. }
    rewrite Ek. apply Gp_exact. exact Hd.
  Qed.

  Theorem parabola_is_derive_near_grid_point a b d m F x : (0 <= d)%Z -> (0 < b)%Z -> (1 <= m)%Z ->
    let g := dgrid a b d in
    IZR m - 1 / 2 + 5 / 10000000000 < (x - g_lb g) / g_delta g < IZR m + 1 / 2 - 5 / 10000000000 ->
    is_derive (par_value1 RN g F) x (par_grad1 RN g F x).
  Proof.
    intros Hd Hb Hm g Hx. pose proof (dgrid_delta_pos a b d Hd Hb) as Hdel. fold g in Hdel.
    set (x1 := g_lb g + IZR m * g_delta g). set (dx := g_delta g).
    set (pa := 1 / 2 * (F (x1 - dx) - 2 * F x1 + F (x1 + dx)) / (dx * dx)).
    set (pb := 1 / 2 * (F (x1 + dx) - F (x1 - dx)) / dx).
    pose proof (regular_fixed_points erfR a b d (m - 1) Hd Hb) as [_ [E0 _]].
    pose proof (regular_fixed_points erfR a b d (m + 1) Hd Hb) as [_ [E2 _]].
    fold g in E0, E2. rewrite minus_IZR in E0. rewrite plus_IZR in E2.
    replace (g_lb g + (IZR m - 1) * g_delta g) with (x1 - dx) in E0 by (unfold x1, dx; ring).
    replace (g_lb g + (IZR m + 1) * g_delta g) with (x1 + dx) in E2 by (unfold x1, dx; ring).
    assert (V : forall t, IZR m - 1 / 2 + 5 / 10000000000 < (t - g_lb g) / g_delta g < IZR m + 1 / 2 - 5 / 10000000000 ->
                par_value1 RN g F t = pa * ((t - x1) * (t - x1)) + pb * (t - x1) + F x1
                /\ par_grad1 RN g F t = 2 * pa * (t - x1) + pb).
    { intros t Ht. pose proof (nearest_interior a b d m t Hd Hb Hm Ht) as EN. fold g in EN. fold x1 in EN.
      rewrite par_value1_R, par_grad1_R. cbv zeta. rewrite EN. fold dx. rewrite E0, E2. split; reflexivity. }
    rewrite (proj2 (V x Hx)).
    apply (is_derive_ext_loc (fun t => pa * ((t - x1) * (t - x1)) + pb * (t - x1) + F x1)).
    - apply (locally_interval _ x (g_lb g + (IZR m - 1 / 2 + 5 / 10000000000) * g_delta g)
                               (g_lb g + (IZR m + 1 / 2 - 5 / 10000000000) * g_delta g)).
      + cbn [Rbar_lt]. destruct Hx as [H1 _].
        apply (Rmult_lt_compat_r (g_delta g)) in H1; [|exact Hdel].
        replace ((x - g_lb g) / g_delta g * g_delta g) with (x - g_lb g) in H1 by (field; lra). lra.
      + cbn [Rbar_lt]. destruct Hx as [_ H2].
        apply (Rmult_lt_compat_r (g_delta g)) in H2; [|exact Hdel].
        replace ((x - g_lb g) / g_delta g * g_delta g) with (x - g_lb g) in H2 by (field; lra). lra.
      + intros y Hy1 Hy2. cbn [Rbar_lt] in Hy1, Hy2. symmetry. apply V. split.
        * apply (Rmult_lt_reg_r (g_delta g)); [exact Hdel|].
          replace ((y - g_lb g) / g_delta g * g_delta g) with (y - g_lb g) by (field; lra). lra.
        * apply (Rmult_lt_reg_r (g_delta g)); [exact Hdel|].
          replace ((y - g_lb g) / g_delta g * g_delta g) with (y - g_lb g) by (field; lra). lra.
    - auto_derive; [exact I|ring].
  Qed.
End Local2.
