(* C13 — integrals of the time profiles with a support window (box, Gaussian):
   the integral of the profile VALUES over any interval, by Chasles over the
   pieces inside / outside the window. *)
From Coq Require Import Reals ZArith List Bool Lra Lia.
From Coquelicot Require Import Coquelicot.
From Sky Require Import Result Num NumR G_flux M_Flux P_Flux.
Import ListNotations.
Open Scope R_scope.

Lemma is_RInt_const_on (f : R -> R) a b c :
  a <= b -> (forall x, a < x < b -> f x = c) -> is_RInt f a b ((b - a) * c).
Proof.
  intros Hab H. apply (is_RInt_ext (fun _ => c)).
  - intros x Hx. rewrite Rmin_left, Rmax_right in Hx by lra. symmetry. apply H. lra.
  - exact (is_RInt_const a b c).
Qed.

Lemma is_RInt_zero_on (f : R -> R) a b :
  a <= b -> (forall x, a < x < b -> f x = 0) -> is_RInt f a b 0.
Proof.
  intros Hab H. replace 0 with ((b - a) * 0) by ring. apply is_RInt_const_on; assumption.
Qed.

(* f = g inside (ts,te), 0 outside, G an antiderivative of g on [ts,te] *)
Lemma is_RInt_window (f g G : R -> R) ts te t1 t2 :
  t1 <= t2 -> ts <= te ->
  (forall x, ts < x < te -> f x = g x) ->
  (forall x, x < ts \/ te < x -> f x = 0) ->
  (forall a b, ts <= a -> a <= b -> b <= te -> is_RInt g a b (G b - G a)) ->
  is_RInt f t1 t2
    (if Rle_dec ts t2 then if Rle_dec t1 te then G (Rmin t2 te) - G (Rmax t1 ts) else 0 else 0).
Proof.
  intros H12 Hw Hin Hout HG.
  destruct (Rle_dec ts t2) as [Ha|Ha].
  2:{ apply is_RInt_zero_on; [assumption|]. intros x Hx. apply Hout. lra. }
  destruct (Rle_dec t1 te) as [Hb|Hb].
  2:{ apply is_RInt_zero_on; [assumption|]. intros x Hx. apply Hout. lra. }
  set (lo := Rmax t1 ts). set (hi := Rmin t2 te).
  assert (Hlo : t1 <= lo /\ ts <= lo) by (unfold lo, Rmax; destruct (Rle_dec t1 ts); lra).
  assert (Hhi : hi <= t2 /\ hi <= te) by (unfold hi, Rmin; destruct (Rle_dec t2 te); lra).
  assert (Hlh : lo <= hi) by (unfold lo, hi, Rmax, Rmin; destruct (Rle_dec t1 ts), (Rle_dec t2 te); lra).
  assert (Hlo' : lo = t1 \/ lo = ts) by (unfold lo, Rmax; destruct (Rle_dec t1 ts); auto).
  assert (Hhi' : hi = t2 \/ hi = te) by (unfold hi, Rmin; destruct (Rle_dec t2 te); auto).
  replace (G hi - G lo) with (plus (plus 0 (G hi - G lo)) 0) by (unfold plus; simpl; ring).
  apply (is_RInt_Chasles f t1 hi t2).
  - apply (is_RInt_Chasles f t1 lo hi).
    + apply is_RInt_zero_on; [lra|]. intros x Hx. apply Hout. left. destruct Hlo'; lra.
    + apply (is_RInt_ext g).
      * intros x Hx. rewrite Rmin_left, Rmax_right in Hx by lra. symmetry. apply Hin. lra.
      * apply HG; lra.
  - apply is_RInt_zero_on; [lra|]. intros x Hx. apply Hout. right. destruct Hhi'; lra.
Qed.

Section WithErf.
  Variable erfR : R -> R.
  Notation RN := (RNum erfR).

  Lemma to_self_None fac test scale su x :
    conv_test_spec test -> to_self RN fac test scale None su x = x.
  Proof. intros H. unfold to_self. rewrite H. reflexivity. Qed.

  (* ---------------------------------------------------------- box *)
  Lemma box_call_R tu ts te t :
    t_call RN (Box tu ts te) None t = if Rle_dec ts t then if Rle_dec t te then 1 else 0 else 0.
  Proof.
    cbn [t_call]. rewrite (to_self_None _ _ _ _ _ K_box_call_conv). cbv zeta.
    destruct (box_call_m RN t ts te) eqn:H.
    - apply K_box_call_m in H. destruct (Rle_dec ts t); [|lra]. destruct (Rle_dec t te); [reflexivity|lra].
    - destruct (Rle_dec ts t); [|reflexivity]. destruct (Rle_dec t te); [|reflexivity].
      assert (box_call_m RN t ts te = true) by (apply K_box_call_m; lra). congruence.
  Qed.

  Theorem box_is_RInt tu ts te t1 t2 : ts <= te -> t1 <= t2 ->
    is_RInt (t_call RN (Box tu ts te) None) t1 t2 (t_int RN (Box tu ts te) None t1 t2).
  Proof.
    intros Hw H12. cbn [t_int]. rewrite !(to_self_None _ _ _ _ _ K_box_int_conv).
    rewrite box_integral_spec.
    apply (is_RInt_window (t_call RN (Box tu ts te) None) (fun _ => 1) (fun x => x)); try assumption.
    - intros x Hx. rewrite box_call_R. destruct (Rle_dec ts x); [|lra]. destruct (Rle_dec x te); [reflexivity|lra].
    - intros x Hx. rewrite box_call_R. destruct (Rle_dec ts x); [|reflexivity]. destruct (Rle_dec x te); [lra|reflexivity].
    - intros a b _ Hab _. replace (b - a) with ((b - a) * 1) by ring. exact (is_RInt_const a b 1).
  Qed.

  (* the box integral is the length of [t1,t2] ∩ [ts,te] *)
  Lemma box_int_length tu ts te t1 t2 : ts <= te -> t1 <= t2 ->
    t_int RN (Box tu ts te) None t1 t2 = Rmax 0 (Rmin t2 te - Rmax t1 ts).
  Proof.
    intros Hw H12. cbn [t_int]. rewrite !(to_self_None _ _ _ _ _ K_box_int_conv), box_integral_spec.
    unfold Rmax, Rmin.
    repeat (match goal with |- context [Rle_dec ?x ?y] => destruct (Rle_dec x y) end); lra.
  Qed.

  (* ---------------------------------------------------------- gaussian *)
  Hypothesis erf_deriv : forall x, is_derive erfR x (2 / sqrt PI * exp (- (x * x))).

  Definition gauss_G sg t0 (t : R) : R := sqrt (PI / 2) * sg * erfR ((t - t0) / (sqrt 2 * sg)).
  Definition gauss_g sg t0 (t : R) : R := exp (- (t - t0) * (t - t0) / (2 * sg * sg)).

  Lemma gauss_deriv sg t0 t : 0 < sg -> is_derive (gauss_G sg t0) t (gauss_g sg t0 t).
  Proof.
    intros Hs. unfold gauss_G, gauss_g.
    assert (H2 : 0 < sqrt 2) by (apply sqrt_lt_R0; lra).
    assert (Hp : 0 < sqrt PI) by (apply sqrt_lt_R0, PI_RGT_0).
    assert (Hs2 : sqrt 2 * sqrt 2 = 2) by (apply sqrt_sqrt; lra).
    set (u := (t - t0) / (sqrt 2 * sg)).
    replace (exp (- (t - t0) * (t - t0) / (2 * sg * sg)))
      with (sqrt (PI / 2) * sg * (scal (1 / (sqrt 2 * sg)) (2 / sqrt PI * exp (- (u * u))))).
    - apply is_derive_scal.
      apply (is_derive_comp erfR (fun x => (x - t0) / (sqrt 2 * sg))).
      + apply erf_deriv.
      + auto_derive; [exact I | field; split; lra].
    - unfold scal; simpl; unfold mult; simpl.
      rewrite sqrt_div_alt by lra.
      replace (- (u * u)) with (- (t - t0) * (t - t0) / (2 * sg * sg)).
      2:{ unfold u. rewrite <- Hs2 at 1. field. split; lra. }
      set (e := exp _).
      transitivity (e * (2 / (sqrt 2 * sqrt 2))).
      + field. repeat split; lra.
      + rewrite Hs2. field.
  Qed.

  Lemma gauss_g_cont sg t0 t : 0 < sg -> continuous (gauss_g sg t0) t.
  Proof.
    intros Hs. apply (ex_derive_continuous (gauss_g sg t0)). unfold gauss_g. auto_derive.
    assert (0 < sg * sg) by (apply Rmult_lt_0_compat; lra). lra.
  Qed.

  Lemma gauss_is_RInt_line sg t0 a b : 0 < sg ->
    is_RInt (gauss_g sg t0) a b (gauss_G sg t0 b - gauss_G sg t0 a).
  Proof.
    intros Hs. apply (is_RInt_derive (gauss_G sg t0) (gauss_g sg t0)).
    - intros x _. apply gauss_deriv. assumption.
    - intros x _. apply gauss_g_cont. assumption.
  Qed.

  Lemma gauss_call_R tu ts te sg tol t :
    t_call RN (Gauss tu ts te sg tol) None t =
      if Rle_dec ts t then if Rlt_dec t te then gauss_g sg ((ts + te) / 2) t else 0 else 0.
  Proof.
    cbn [t_call]. rewrite (to_self_None _ _ _ _ _ K_ga_call_conv). cbv zeta.
    rewrite K_ga_call_val, K_ga_call_dt, K_ga_call_t0, K_ga_call_twossq.
    destruct (ga_call_m RN t ts te) eqn:H.
    - apply K_ga_call_m in H. destruct (Rle_dec ts t); [|lra]. destruct (Rlt_dec t te); [reflexivity|lra].
    - destruct (Rle_dec ts t); [|reflexivity]. destruct (Rlt_dec t te); [|reflexivity].
      assert (ga_call_m RN t ts te = true) by (apply K_ga_call_m; lra). congruence.
  Qed.

  Lemma gauss_int_R tu ts te sg tol t1 t2 :
    t_int RN (Gauss tu ts te sg tol) None t1 t2 =
      gauss_G sg ((ts + te) / 2) (Rmin (Rmax t2 ts) te) - gauss_G sg ((ts + te) / 2) (Rmin (Rmax t1 ts) te).
  Proof.
    cbn [t_int]. rewrite !(to_self_None _ _ _ _ _ K_ga_int_conv), gauss_integral_spec. reflexivity.
  Qed.

  (* get_integral (the erf difference of the interval clipped to the support window) is the
     integral of the profile values, for every interval *)
  Theorem gauss_is_RInt tu ts te sg tol t1 t2 : 0 < sg -> ts <= te -> t1 <= t2 ->
    is_RInt (t_call RN (Gauss tu ts te sg tol) None) t1 t2 (t_int RN (Gauss tu ts te sg tol) None t1 t2).
  Proof.
    intros Hs Hw H12. rewrite gauss_int_R.
    replace (gauss_G sg ((ts + te) / 2) (Rmin (Rmax t2 ts) te) - gauss_G sg ((ts + te) / 2) (Rmin (Rmax t1 ts) te))
      with (if Rle_dec ts t2 then if Rle_dec t1 te
            then gauss_G sg ((ts + te) / 2) (Rmin t2 te) - gauss_G sg ((ts + te) / 2) (Rmax t1 ts) else 0 else 0).
    - apply (is_RInt_window (t_call RN (Gauss tu ts te sg tol) None) (gauss_g sg ((ts + te) / 2))
                            (gauss_G sg ((ts + te) / 2))); try assumption.
      + intros x Hx. rewrite gauss_call_R. destruct (Rle_dec ts x); [|lra]. destruct (Rlt_dec x te); [reflexivity|lra].
      + intros x Hx. rewrite gauss_call_R. destruct (Rle_dec ts x); [|reflexivity]. destruct (Rlt_dec x te); [lra|reflexivity].
      + intros a b _ _ _. apply gauss_is_RInt_line. assumption.
    - destruct (Rle_dec ts t2) as [Ha|Ha]; [destruct (Rle_dec t1 te) as [Hb|Hb]|].
      + rewrite (Rmax_left t2 ts) by lra. f_equal. f_equal.
        unfold Rmax. destruct (Rle_dec t1 ts); [rewrite Rmin_left by lra; reflexivity|rewrite Rmin_left by lra; reflexivity].
      + rewrite !Rmin_right; [lra| |]; unfold Rmax; destruct (Rle_dec t1 ts), (Rle_dec t2 ts); lra.
      + assert (Rmax t1 ts = ts) by (apply Rmax_right; lra). assert (Rmax t2 ts = ts) by (apply Rmax_right; lra).
        rewrite H, H0. lra.
  Qed.

  (* the Gaussian integral is the tail-free erf difference when the interval lies inside the window *)
  Lemma gauss_int_inside tu ts te sg tol t1 t2 : ts <= t1 -> t1 <= t2 -> t2 <= te ->
    t_int RN (Gauss tu ts te sg tol) None t1 t2 =
      gauss_G sg ((ts + te) / 2) t2 - gauss_G sg ((ts + te) / 2) t1.
  Proof.
    intros. rewrite gauss_int_R, !Rmax_left, !Rmin_left by lra. reflexivity.
  Qed.
End WithErf.
