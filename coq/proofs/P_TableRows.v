(* C16 — set_selection on ROWS: the rows hit by the selector are replaced by the rows of the
   source table (the last hit wins, a one-row source is broadcast), all other rows stay. *)
From Coq Require Import ZArith List Bool Lia Arith.
From Sky Require Import Result PyList M_Table S_Table P_TableBase P_TableOps2.
Import ListNotations.
Open Scope Z_scope.

Ltac splits := repeat match goal with |- _ /\ _ => split end.

(* index (into the position list) of the last position equal to i *)
Fixpoint last_idx_from (ps : list nat) (i : nat) (k : nat) (cur : option nat) : option nat :=
  match ps with
  | [] => cur
  | p :: r => last_idx_from r i (S k) (if Nat.eqb p i then Some k else cur)
  end.
Definition last_idx (ps : list nat) (i : nat) : option nat := last_idx_from ps i 0 None.

Lemma nth_set_nth : forall (d : list Z) p v i, (i < length d)%nat ->
  nth i (set_nth d p v) 0 = if Nat.eqb p i then v else nth i d 0.
Proof.
  induction d as [|a r IH]; intros p v i Hi; cbn in Hi; [lia|].
  destruct p as [|p]; destruct i as [|i]; cbn; try reflexivity.
  apply IH; lia.
Qed.

(* the value-level statement, by induction with the running "current" value *)
Lemma nth_scatter_val : forall ps (d vs : list Z) i, (i < length d)%nat -> length vs = length ps ->
  forall k cur (all : list Z),
    (forall j, (j < length vs)%nat -> nth (k + j) all 0 = nth j vs 0) ->
    nth i (scatter d ps vs) 0 =
      match last_idx_from ps i k None with
      | Some j => nth j all 0
      | None => nth i d 0
      end
    /\ (last_idx_from ps i k cur = match last_idx_from ps i k None with Some j => Some j | None => cur end).
Proof.
  induction ps as [|p r IH]; intros d vs i Hi L k cur all Hall; cbn [scatter last_idx_from].
  - split; reflexivity.
  - destruct vs as [|v vr]; [discriminate|]. cbn in L.
    assert (Hi' : (i < length (set_nth d p v))%nat) by (rewrite length_set_nth; assumption).
    assert (Hall' : forall j, (j < length vr)%nat -> nth (S k + j) all 0 = nth j vr 0).
    { intros j Hj. replace (S k + j)%nat with (k + S j)%nat by lia. rewrite Hall by (cbn; lia). reflexivity. }
    destruct (IH (set_nth d p v) vr i Hi' (eq_add_S _ _ L) (S k) (if Nat.eqb p i then Some k else None) all Hall') as [I1 I2].
    destruct (IH (set_nth d p v) vr i Hi' (eq_add_S _ _ L) (S k) (if Nat.eqb p i then Some k else cur) all Hall') as [_ I3].
    split.
    + rewrite I1, I2. destruct (last_idx_from r i (S k) None); [reflexivity|].
      rewrite nth_set_nth by assumption. destruct (Nat.eqb p i); [|reflexivity].
      specialize (Hall 0%nat). rewrite Nat.add_0_r in Hall. rewrite Hall by (cbn; lia). reflexivity.
    + rewrite I3, I2. destruct (last_idx_from r i (S k) None); [reflexivity|]. destruct (Nat.eqb p i); reflexivity.
Qed.

Lemma nth_scatter_last : forall ps (d vs : list Z) i, (i < length d)%nat -> length vs = length ps ->
  nth i (scatter d ps vs) 0 = match last_idx ps i with Some j => nth j vs 0 | None => nth i d 0 end.
Proof.
  intros. unfold last_idx. apply (nth_scatter_val ps d vs i H H0 0%nat None vs). intros; reflexivity.
Qed.

Lemma np_put_inv : forall d sl v r, np_put d sl v = Ok r ->
  exists ps vs, sel_pos (zlen d) sl = Ok ps /\ broadcast v (length ps) = Some vs /\ r = scatter d ps vs.
Proof.
  intros d sl v r H; unfold np_put in H; destruct sl.
  - destruct (broadcast v (length idx)) as [vs|] eqn:B; [|discriminate].
    destruct (sel_pos (zlen d) (SIdx idx)) as [ps|] eqn:S; cbn in H; [|discriminate]. inversion H; subst.
    exists ps, vs; splits; auto. cbn in S. apply mapM_length in S. rewrite S. assumption.
  - destruct (sel_pos (zlen d) (SMask m)) as [ps|] eqn:S; cbn in H; [|discriminate].
    destruct (broadcast v (length ps)) as [vs|] eqn:B; [|discriminate]. inversion H; subst.
    exists ps, vs; splits; auto.
Qed.

Lemma broadcast_len' : forall v k vs, broadcast v k = Some vs -> length vs = k.
Proof.
  intros v k vs H; unfold broadcast in H. destruct (Nat.eqb (length v) k) eqn:Q.
  - apply Nat.eqb_eq in Q; inversion H; subst; reflexivity.
  - destruct v as [|a [|? ?]]; try discriminate. inversion H; apply repeat_length.
Qed.

Lemma broadcast_nth : forall v k vs j, broadcast v k = Some vs -> (j < k)%nat ->
  length vs = k /\ nth j vs 0 = nth (if Nat.eqb (length v) k then j else 0%nat) v 0.
Proof.
  intros v k vs j H Hj; unfold broadcast in H. destruct (Nat.eqb (length v) k) eqn:Q.
  - apply Nat.eqb_eq in Q. inversion H; subst; split; reflexivity.
  - destruct v as [|a [|? ?]]; try discriminate. inversion H; subst. split; [apply repeat_length|].
    cbn. clear - Hj. revert j Hj. induction k as [|k IH]; intros j Hj; [lia|]. destruct j; cbn; [reflexivity | apply IH; lia].
Qed.

(* rows *)
Theorem set_selection_rows : forall (E Ea E' : name -> buf) names sl len alen' ps,
  (forall n, In n names -> length (bdata (E n)) = len /\ length (bdata (Ea n)) = alen'
                           /\ np_put (bdata (E n)) sl (bdata (Ea n)) = Ok (bdata (E' n))) ->
  sel_pos (Z.of_nat len) sl = Ok ps ->
  forall i, (i < len)%nat ->
    row E' names i =
      match last_idx ps i with
      | Some j => row Ea names (if Nat.eqb alen' (length ps) then j else 0%nat)
      | None => row E names i
      end.
Proof.
  intros E Ea E' names sl len alen' ps H SP i Hi.
  assert (Each : forall n, In n names ->
     nth i (bdata (E' n)) 0 = match last_idx ps i with
                              | Some j => nth (if Nat.eqb alen' (length ps) then j else 0%nat) (bdata (Ea n)) 0
                              | None => nth i (bdata (E n)) 0
                              end).
  { intros n Hn. destruct (H n Hn) as (L1 & L2 & P). apply np_put_inv in P. destruct P as (ps' & vs & P1 & P2 & P3).
    unfold zlen in P1. rewrite L1, SP in P1. inversion P1; subst ps'. rewrite P3.
    rewrite nth_scatter_last; [| lia | ].
    - destruct (last_idx ps i) as [j|] eqn:LI; [|reflexivity].
      assert (Hj : (j < length ps)%nat).
      { clear - LI. unfold last_idx in LI.
        assert (G : forall ps k cur j, last_idx_from ps i k cur = Some j ->
                    (cur = Some j) \/ (k <= j < k + length ps)%nat).
        { intros ps0. induction ps0 as [|p r IH]; intros k cur j0 H; cbn in *; [left; assumption|].
          destruct (IH _ _ _ H) as [Q|Q]; [|right; lia].
          destruct (Nat.eqb p i); [inversion Q; right; lia | left; assumption]. }
        destruct (G ps 0%nat None j LI) as [Q|Q]; [discriminate | lia]. }
      destruct (broadcast_nth _ _ _ j P2 Hj) as [_ Q]. rewrite Q, L2. reflexivity.
    - eapply broadcast_len'; eassumption. }
  unfold row. destruct (last_idx ps i); apply map_ext_in; intros n0 Hn0; rewrite (Each n0 Hn0); reflexivity.
Qed.
