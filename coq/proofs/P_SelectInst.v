(* C05 — the discrete theorem instantiated with the translated criteria of the concrete classes
   (real-number reading): which class uses which criterion is part of a theorem, not only of
   the harness. *)
From Coq Require Import Reals ZArith List Bool Lia Lra Sorting.Sorted.
From Sky Require Import Result PyList Num NumR G_select M_Select M_SelectNum S_Select S_SelectNum P_Select P_SelectNum.
Import ListNotations.
Local Open Scope nat_scope.

Section Inst.
  Variable erf : R -> R.
  Notation N := (RNum erf).
  Notation src2 := (R * R)%type.
  Notation decband := (decband N).
  Notation raband := (raband N).
  Notation spatialbox := (spatialbox N).
  Notation in_ra_band := (in_ra_band erf).

  Lemma wf_spatialbox delta ns : wf_meth (spatialbox delta) ns.
  Proof. split; [apply K_sb_batch_size|]. intros s e. apply box_ra_copies. Qed.

  Lemma crit_decband delta ns s e : crit_of (decband delta) ns s e = true <-> in_dec_band delta s e.
  Proof. unfold M_SelectNum.decband. cbn [crit_of]. apply dec_crit_abs. Qed.

  Lemma crit_raband delta ns s e : crit_of (raband delta) ns s e = true <-> in_ra_band delta s e.
  Proof.
    unfold M_SelectNum.raband. cbn [crit_of]. unfold raband_crit, S_SelectNum.in_ra_band. exact (Rltb_true _ _).
  Qed.

  Lemma crit_spatialbox delta ns s e :
    crit_of (spatialbox delta) ns s e = true <-> in_ra_band delta s e /\ in_dec_band delta s e.
  Proof.
    unfold M_SelectNum.spatialbox. cbn [crit_of]. rewrite andb_true_iff, <- raband_box_same, box_dec_crit_R.
    rewrite <- (crit_raband delta ns), <- (crit_decband delta ns). reflexivity.
  Qed.

  (* SpatialBox keeps exactly the pairs that RABand & DecBand keep *)
  Theorem spatialbox_is_raband_and_decband delta (srcs : list src2) (evs : list (ev4 (T := R))) :
    0 < length srcs ->
    exists r r', run (spatialbox delta) srcs evs None = Ok r
      /\ run (MAnd (raband delta) (decband delta)) srcs evs None = Ok r'
      /\ s_events r = s_events r' /\ s_tbl r = s_tbl r' /\ s_orig r = s_orig r'.
  Proof.
    intros Hns.
    destruct (run_spec _ _ srcs Hns (spatialbox delta) evs None (wf_spatialbox delta _) I) as (ev1 & E1 & F1).
    destruct (run_spec _ _ srcs Hns (MAnd (raband delta) (decband delta)) evs None (conj I I) I) as (ev2 & E2 & F2).
    assert (Hc : forall k j, cix (spatialbox delta) None srcs evs k j
                             = cix (MAnd (raband delta) (decband delta)) None srcs evs k j).
    { intros k j. unfold cix. cbn [inc_has andb]. unfold cidx.
      destruct (nth_error srcs k) as [s|]; [|reflexivity]. destruct (nth_error evs j) as [e|]; [|reflexivity].
      apply eq_true_iff_eq. rewrite crit_spatialbox. cbn [crit_of]. rewrite andb_true_iff.
      rewrite <- (crit_raband delta (length srcs)), <- (crit_decband delta (length srcs)). reflexivity. }
    assert (Ho : spec_orig (cix (spatialbox delta) None srcs evs) (length srcs) (length evs)
                 = spec_orig (cix (MAnd (raband delta) (decband delta)) None srcs evs) (length srcs) (length evs))
      by (apply spec_orig_ext; intros; apply Hc).
    rewrite Ho in E1, F1.
    rewrite (spec_pairs_ext _ (cix (MAnd (raband delta) (decband delta)) None srcs evs) _ (length evs) _
               (spec_orig_lt _ _ _) (fun k j _ _ => Hc k j)) in E1.
    eexists. eexists. split; [exact E1|]. split; [exact E2|]. cbn [s_events s_tbl s_orig].
    split; [|split; reflexivity].
    (* both event lists are the events at the same original indices *)
    clear - F1 F2. revert ev2 F2. induction F1 as [|e j l l' H F IH]; intros ev2 F2; inversion F2; subst; [reflexivity|].
    f_equal; [congruence|now apply IH].
  Qed.

  (* DecBand, written out: the pairs are those with |dec_event - dec_source| < delta *)
  Theorem decband_pairs delta (srcs : list src2) (evs : list (ev4 (T := R))) :
    0 < length srcs ->
    exists r orig, run (decband delta) srcs evs None = Ok r
      /\ s_orig r = map Z.of_nat orig
      /\ Forall2 (fun e j => nth_error evs j = Some e) (s_events r) orig
      /\ StronglySorted lt orig
      /\ StronglySorted lexlt (s_tbl r)
      /\ (forall j, In j orig <-> exists k s e, nth_error srcs k = Some s /\ nth_error evs j = Some e
                                               /\ in_dec_band delta s e)
      /\ (forall k p, In (Z.of_nat k, Z.of_nat p) (s_tbl r) <->
            exists j s e, nth_error orig p = Some j /\ nth_error srcs k = Some s /\ nth_error evs j = Some e
                          /\ in_dec_band delta s e).
  Proof.
    intros Hns.
    destruct (select_full (decband delta) srcs evs Hns I) as (r & o & Er & Ho & So & F & T & _ & Hin & _).
    exists r, o. split; [exact Er|]. split; [exact So|]. split; [exact F|].
    split; [rewrite Ho; apply SS_filter, SS_seq|]. split; [exact T|]. split.
    - intros j. rewrite Ho.
      rewrite (spec_orig_In (cidx (crit_of (decband delta) (length srcs)) srcs evs) (length srcs) (length evs) j). split.
      + intros (_ & k & _ & Hc). apply cidx_true in Hc as (s & e & Hs & He & Hc). apply crit_decband in Hc.
        now exists k, s, e.
      + intros (k & s & e & Hs & He & Hc). split; [apply nth_error_Some; congruence|].
        exists k. split; [apply nth_error_Some; congruence|]. apply cidx_true. exists s, e.
        split; [assumption|]. split; [assumption|]. now apply crit_decband.
    - intros k p. rewrite Hin. split.
      + intros (_ & j & Hj & Hc). apply cidx_true in Hc as (s & e & Hs & He & Hc). apply crit_decband in Hc.
        now exists j, s, e.
      + intros (j & s & e & Hj & Hs & He & Hc). split; [apply nth_error_Some; congruence|].
        exists j. split; [assumption|]. apply cidx_true. exists s, e.
        split; [assumption|]. split; [assumption|]. now apply crit_decband.
  Qed.
End Inst.
