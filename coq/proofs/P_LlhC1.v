(* C01, Taylor clause: the per-event function  Lam alpha  of the manual (the
   logarithm above the threshold, its second-order expansion at and below it)
   is continuously differentiable across the threshold, and the expansion
   agrees with the logarithm in value, slope and curvature there. *)
From Coq Require Import Reals List Lra.
From Coquelicot Require Import Coquelicot.
From Sky Require Import S_Llh.
Open Scope R_scope.

(* ---- gluing two functions that agree at the junction *)
Lemma continuous_glue (f f1 f2 : R -> R) (x : R) :
  (forall y, f y = f1 y \/ f y = f2 y) -> f1 x = f x -> f2 x = f x ->
  continuous f1 x -> continuous f2 x -> continuous f x.
Proof.
  intros Hsel E1 E2 C1 C2 P HP.
  unfold continuous in C1, C2.
  assert (H1 : locally x (fun y => P (f1 y))).
  { apply C1. rewrite E1. exact HP. }
  assert (H2 : locally x (fun y => P (f2 y))).
  { apply C2. rewrite E2. exact HP. }
  unfold filtermap.
  generalize (filter_and _ _ H1 H2). apply filter_imp.
  intros y [A B]. destruct (Hsel y) as [E|E]; rewrite E; assumption.
Qed.

Lemma is_derive_glue (f f1 f2 : R -> R) (x l : R) :
  (forall y, f y = f1 y \/ f y = f2 y) -> f1 x = f x -> f2 x = f x ->
  is_derive f1 x l -> is_derive f2 x l -> is_derive f x l.
Proof.
  intros Hsel E1 E2 [_ D1] [L D2].
  split; [exact L|].
  intros x0 Hx0 eps.
  specialize (D1 x0 Hx0 eps). specialize (D2 x0 Hx0 eps).
  assert (Ex : x0 = x).
  { symmetry. apply is_filter_lim_locally_unique. exact Hx0. }
  subst x0.
  generalize (filter_and _ _ D1 D2). apply filter_imp.
  intros y [A B]. rewrite E1 in A. rewrite E2 in B.
  destruct (Hsel y) as [E|E]; rewrite E; assumption.
Qed.

(* ---- the slope of the manual's per-event function *)
Definition dLam (alpha a : R) : R :=
  if Rlt_dec alpha a then / (1 + a)
  else / (1 + alpha) - (a - alpha) / (1 + alpha) / (1 + alpha).

Lemma Taylor_at alpha : Taylor alpha alpha = ln (1 + alpha).
Proof. unfold Taylor. replace (alpha - alpha) with 0 by lra. unfold Rdiv. lra. Qed.

Lemma Taylor_derive alpha a :
  0 < 1 + alpha ->
  is_derive (Taylor alpha) a (/ (1 + alpha) - (a - alpha) / (1 + alpha) / (1 + alpha)).
Proof. intros H. unfold Taylor. auto_derive; [trivial|]. field. lra. Qed.

Lemma log_derive a : 0 < 1 + a -> is_derive (fun t => ln (1 + t)) a (/ (1 + a)).
Proof. intros H. auto_derive; [lra|]. field. lra. Qed.

Lemma inv_derive a :
  0 < 1 + a -> is_derive (fun t => / (1 + t)) a (- / ((1 + a) * (1 + a))).
Proof. intros H. auto_derive; [lra|]. field. lra. Qed.

Lemma lin_derive alpha a :
  0 < 1 + alpha ->
  is_derive (fun t => / (1 + alpha) - (t - alpha) / (1 + alpha) / (1 + alpha)) a
            (- / ((1 + alpha) * (1 + alpha))).
Proof. intros H. auto_derive; [trivial|]. field. lra. Qed.

Lemma loc_gt (alpha a : R) : alpha < a -> locally a (fun t => alpha < t).
Proof.
  intros H. assert (Hd : 0 < a - alpha) by lra.
  exists (mkposreal _ Hd). intros t Ht.
  unfold ball in Ht. cbn in Ht. unfold AbsRing_ball, abs, minus, plus, opp in Ht. cbn in Ht.
  apply Rabs_def2 in Ht. lra.
Qed.

Lemma loc_lt (alpha a : R) : a < alpha -> locally a (fun t => t < alpha).
Proof.
  intros H. assert (Hd : 0 < alpha - a) by lra.
  exists (mkposreal _ Hd). intros t Ht.
  unfold ball in Ht. cbn in Ht. unfold AbsRing_ball, abs, minus, plus, opp in Ht. cbn in Ht.
  apply Rabs_def2 in Ht. lra.
Qed.

Lemma Lam_sel alpha y : Lam alpha y = ln (1 + y) \/ Lam alpha y = Taylor alpha y.
Proof. unfold Lam. destruct (Rlt_dec alpha y); [left|right]; reflexivity. Qed.

(* the slope of Lam everywhere, including AT the threshold *)
Theorem Lam_derive alpha a :
  0 < 1 + alpha -> is_derive (Lam alpha) a (dLam alpha a).
Proof.
  intros Hpos. unfold dLam.
  destruct (Rlt_dec alpha a) as [Hgt|Hle].
  - apply (is_derive_ext_loc (fun t => ln (1 + t))).
    + generalize (loc_gt alpha a Hgt). apply filter_imp. intros t Ht.
      unfold Lam. destruct (Rlt_dec alpha t); [reflexivity|lra].
    + apply log_derive. lra.
  - destruct (Req_dec a alpha) as [E|NE].
    + subst a.
      replace (/ (1 + alpha) - (alpha - alpha) / (1 + alpha) / (1 + alpha)) with (/ (1 + alpha))
        by (field; lra).
      apply (is_derive_glue (Lam alpha) (fun t => ln (1 + t)) (Taylor alpha)).
      * apply Lam_sel.
      * unfold Lam. destruct (Rlt_dec alpha alpha); [lra|]. symmetry. apply Taylor_at.
      * unfold Lam. destruct (Rlt_dec alpha alpha); [lra|]. reflexivity.
      * apply log_derive. exact Hpos.
      * replace (/ (1 + alpha)) with (/ (1 + alpha) - (alpha - alpha) / (1 + alpha) / (1 + alpha))
          by (field; lra).
        apply Taylor_derive. exact Hpos.
    + assert (Hlt : a < alpha) by lra.
      apply (is_derive_ext_loc (Taylor alpha)).
      * generalize (loc_lt alpha a Hlt). apply filter_imp. intros t Ht.
        unfold Lam. destruct (Rlt_dec alpha t); [lra|reflexivity].
      * apply Taylor_derive. exact Hpos.
Qed.

(* value and slope are continuous across the threshold *)
Theorem Lam_continuous alpha a : 0 < 1 + alpha -> continuous (Lam alpha) a.
Proof.
  intros H. apply (ex_derive_continuous (Lam alpha) a).
  exists (dLam alpha a). apply Lam_derive. exact H.
Qed.

Theorem dLam_continuous_at_threshold alpha :
  0 < 1 + alpha -> continuous (dLam alpha) alpha.
Proof.
  intros Hpos.
  apply (continuous_glue (dLam alpha) (fun a => / (1 + a))
           (fun a => / (1 + alpha) - (a - alpha) / (1 + alpha) / (1 + alpha))).
  - intros y. unfold dLam. destruct (Rlt_dec alpha y); [left|right]; reflexivity.
  - unfold dLam. destruct (Rlt_dec alpha alpha); [lra|]. field. lra.
  - unfold dLam. destruct (Rlt_dec alpha alpha); [lra|]. reflexivity.
  - apply (ex_derive_continuous (fun a => / (1 + a)) alpha).
    exists (- / ((1 + alpha) * (1 + alpha))). apply inv_derive. exact Hpos.
  - apply (ex_derive_continuous
             (fun a => / (1 + alpha) - (a - alpha) / (1 + alpha) / (1 + alpha)) alpha).
    exists (- / ((1 + alpha) * (1 + alpha))). apply lin_derive. exact Hpos.
Qed.

(* the expansion IS the second-order Taylor polynomial of ln(1+.) at alpha:
   equal value, first and second derivative *)
Theorem Taylor_is_second_order alpha :
  0 < 1 + alpha ->
  Taylor alpha alpha = ln (1 + alpha)
  /\ is_derive (fun a => ln (1 + a)) alpha (/ (1 + alpha))
  /\ is_derive (Taylor alpha) alpha (/ (1 + alpha))
  /\ is_derive (fun a => / (1 + a)) alpha (- / ((1 + alpha) * (1 + alpha)))
  /\ is_derive (fun a => / (1 + alpha) - (a - alpha) / (1 + alpha) / (1 + alpha)) alpha
               (- / ((1 + alpha) * (1 + alpha)))
  /\ (forall a, is_derive (Taylor alpha) a
                  (/ (1 + alpha) - (a - alpha) / (1 + alpha) / (1 + alpha))).
Proof.
  intros H. split; [|split; [|split; [|split; [|split]]]].
  - apply Taylor_at.
  - apply log_derive. exact H.
  - replace (/ (1 + alpha)) with (/ (1 + alpha) - (alpha - alpha) / (1 + alpha) / (1 + alpha))
      by (field; lra).
    apply Taylor_derive. exact H.
  - apply inv_derive. exact H.
  - apply lin_derive. exact H.
  - intros a. apply Taylor_derive. exact H.
Qed.

(* ---- below the threshold the expansion lies strictly ABOVE the logarithm
   (third-order remainder): used to show that the guard of the zero-ratio
   removal clause is sharp *)
Definition hgap (alpha a : R) : R := Taylor alpha a - ln (1 + a).
Definition dhgap (alpha a : R) : R :=
  / (1 + alpha) - (a - alpha) / (1 + alpha) / (1 + alpha) - / (1 + a).

Lemma hgap_derive alpha a :
  0 < 1 + alpha -> 0 < 1 + a -> is_derive (hgap alpha) a (dhgap alpha a).
Proof.
  intros Hp Hq. unfold hgap, dhgap.
  apply (is_derive_minus (Taylor alpha) (fun t => ln (1 + t))).
  - apply Taylor_derive. exact Hp.
  - apply log_derive. exact Hq.
Qed.

Lemma dhgap_form alpha a :
  0 < 1 + alpha -> 0 < 1 + a ->
  dhgap alpha a = - ((alpha - a) * (alpha - a)) / ((1 + alpha) * (1 + alpha) * (1 + a)).
Proof. intros Hp Hq. unfold dhgap. field. lra. Qed.

Lemma dhgap_nonpos alpha a : 0 < 1 + alpha -> 0 < 1 + a -> dhgap alpha a <= 0.
Proof.
  intros Hp Hq. rewrite dhgap_form by assumption.
  unfold Rdiv. rewrite Ropp_mult_distr_l_reverse.
  apply Rge_le, Ropp_0_le_ge_contravar.
  apply Rmult_le_pos; [apply Rle_0_sqr|].
  apply Rlt_le, Rinv_0_lt_compat.
  apply Rmult_lt_0_compat; [apply Rmult_lt_0_compat|]; assumption.
Qed.

Lemma dhgap_neg alpha a : 0 < 1 + alpha -> 0 < 1 + a -> a <> alpha -> dhgap alpha a < 0.
Proof.
  intros Hp Hq Hne. rewrite dhgap_form by assumption.
  unfold Rdiv. rewrite Ropp_mult_distr_l_reverse.
  apply Ropp_lt_gt_0_contravar.
  apply Rmult_lt_0_compat.
  - assert (H : alpha - a <> 0) by lra.
    pose proof (Rsqr_pos_lt _ H) as Hs. unfold Rsqr in Hs. exact Hs.
  - apply Rinv_0_lt_compat.
    apply Rmult_lt_0_compat; [apply Rmult_lt_0_compat|]; assumption.
Qed.

Lemma hgap_mvt alpha x y :
  0 < 1 + alpha -> -1 < x -> x < y ->
  exists c, x <= c <= y /\ hgap alpha y - hgap alpha x = dhgap alpha c * (y - x).
Proof.
  intros Hp Hx Hxy.
  destruct (MVT_gen (hgap alpha) x y (dhgap alpha)) as (c & Hc & E).
  - intros t Ht. rewrite Rmin_left, Rmax_right in Ht by lra.
    apply hgap_derive; [exact Hp|lra].
  - intros t Ht. rewrite Rmin_left, Rmax_right in Ht by lra.
    apply continuity_pt_filterlim.
    apply (ex_derive_continuous (hgap alpha) t).
    exists (dhgap alpha t). apply hgap_derive; [exact Hp|lra].
  - rewrite Rmin_left, Rmax_right in Hc by lra. exists c. split; assumption.
Qed.

Theorem Taylor_above_log alpha a :
  0 < 1 + alpha -> -1 < a -> a < alpha -> ln (1 + a) < Taylor alpha a.
Proof.
  intros Hp Ha Hlt.
  assert (H0 : hgap alpha alpha = 0).
  { unfold hgap. rewrite Taylor_at. lra. }
  pose (m := (a + alpha) / 2).
  assert (Hm : a < m < alpha) by (unfold m; lra).
  (* hgap m >= 0 *)
  destruct (hgap_mvt alpha m alpha Hp) as (c1 & Hc1 & E1); [lra|lra|].
  assert (D1 : dhgap alpha c1 <= 0) by (apply dhgap_nonpos; lra).
  assert (G1 : 0 <= hgap alpha m).
  { rewrite H0 in E1.
    assert (dhgap alpha c1 * (alpha - m) <= 0).
    { rewrite <- (Rmult_0_l (alpha - m)). apply Rmult_le_compat_r; lra. }
    lra. }
  (* hgap a > hgap m *)
  destruct (hgap_mvt alpha a m Hp) as (c2 & Hc2 & E2); [lra|lra|].
  assert (D2 : dhgap alpha c2 < 0) by (apply dhgap_neg; lra).
  assert (G2 : hgap alpha m - hgap alpha a < 0).
  { rewrite E2. rewrite <- (Rmult_0_l (m - a)). apply Rmult_lt_compat_r; lra. }
  unfold hgap in G1, G2 |- *. unfold hgap in *. lra.
Qed.
