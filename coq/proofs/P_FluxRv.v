(* C13 extension — the scipy random variate built from a time profile
   (skyllh/core/utils/flux_model.py): its pdf is the profile divided by the total integral, hence
   normalised on the support window. *)
From Coq Require Import Reals ZArith List Bool Lra.
From Coquelicot Require Import Coquelicot.
From Sky Require Import Result Num NumR G_flux M_Flux P_Flux P_FluxInt P_FluxDeep.
Open Scope R_scope.

Section Rv.
  Variable erfR : R -> R.
  Notation RN := (RNum erfR).

  Lemma K_rv_has_norm x : rv_has_norm RN x = true <-> x <> 0.
  Proof. unfold rv_has_norm. num_R. rewrite negb_true_iff. apply Reqb_false. Qed.
  Lemma K_rv_norm x : rv_norm RN x = 1 / x.
  Proof. unfold rv_norm. num_R. lra. Qed.
  Lemma K_rv_pdf n v : rv_pdf RN n v = v * n. Proof. unfold rv_pdf. num_R. ring. Qed.

  Theorem rv_pdf_value p t :
    rv_pdf_of RN p t = t_call RN p None t * (if Req_EM_T (t_total RN p) 0 then 0 else 1 / t_total RN p).
  Proof.
    unfold rv_pdf_of, rv_norm_of. cbv zeta. rewrite K_rv_pdf. f_equal.
    destruct (rv_has_norm RN (t_total RN p)) eqn:H.
    - apply K_rv_has_norm in H. destruct (Req_EM_T (t_total RN p) 0); [contradiction|apply K_rv_norm].
    - destruct (Req_EM_T (t_total RN p) 0); [reflexivity|].
      assert (rv_has_norm RN (t_total RN p) = true) by (apply K_rv_has_norm; assumption). congruence.
  Qed.

  Lemma rv_normalised_gen p a b :
    is_RInt (t_call RN p None) a b (t_total RN p) -> t_total RN p <> 0 ->
    is_RInt (rv_pdf_of RN p) a b 1.
  Proof.
    intros HI Hn.
    set (k := 1 / t_total RN p).
    apply (is_RInt_ext (fun t => scal k (t_call RN p None t))).
    { intros t _. rewrite rv_pdf_value. destruct (Req_EM_T (t_total RN p) 0); [contradiction|].
      fold k. unfold scal; simpl; unfold mult; simpl. ring. }
    replace 1 with (scal k (t_total RN p)).
    - apply (is_RInt_scal (t_call RN p None)). exact HI.
    - unfold k, scal; simpl; unfold mult; simpl. field. assumption.
  Qed.

  Theorem rv_box_normalised tu ts te : ts < te ->
    is_RInt (rv_pdf_of RN (Box tu ts te)) ts te 1
    /\ (forall t, 0 <= rv_pdf_of RN (Box tu ts te) t)
    /\ (forall t, ts <= t <= te -> rv_pdf_of RN (Box tu ts te) t = 1 / (te - ts)).
  Proof.
    intros Hw.
    assert (Ht : t_total RN (Box tu ts te) = te - ts).
    { rewrite t_total_spec, (box_int_length erfR) by lra.
      rewrite (Rmin_left te te), (Rmax_left ts ts) by lra. rewrite Rmax_right by lra. reflexivity. }
    split; [|split].
    - apply rv_normalised_gen; [|rewrite Ht; lra].
      rewrite t_total_spec. apply box_is_RInt; lra.
    - intros t. rewrite rv_pdf_value, Ht, box_call_R.
      destruct (Req_EM_T (te - ts) 0); [lra|].
      assert (0 < 1 / (te - ts)) by (apply Rdiv_lt_0_compat; lra).
      destruct (Rle_dec ts t); [destruct (Rle_dec t te)|]; lra.
    - intros t Hin. rewrite rv_pdf_value, Ht, box_call_R.
      destruct (Req_EM_T (te - ts) 0); [lra|].
      destruct (Rle_dec ts t); [|lra]. destruct (Rle_dec t te); lra.
  Qed.

  (* a degenerate profile (total integral 0) gives the zero density, not a division by zero *)
  Theorem rv_zero_total p t : t_total RN p = 0 -> rv_pdf_of RN p t = 0.
  Proof. intros H. rewrite rv_pdf_value, H. destruct (Req_EM_T 0 0); [ring|contradiction]. Qed.

  Hypothesis erf_deriv : forall x, is_derive erfR x (2 / sqrt PI * exp (- (x * x))).

  Theorem rv_gauss_normalised tu ts te sg tol : 0 < sg -> ts < te ->
    is_RInt (rv_pdf_of RN (Gauss tu ts te sg tol)) ts te 1.
  Proof.
    intros Hs Hw.
    destruct (gauss_cdf_props erfR erf_deriv tu ts te sg tol Hs Hw) as [Hpos _].
    apply rv_normalised_gen; [|lra].
    rewrite t_total_spec. apply (gauss_is_RInt erfR erf_deriv); lra.
  Qed.
End Rv.
