(* Proofs about M_Coll: ordered dictionaries, the name index of
   NamedObjectCollection under all histories, freshness of `+`. *)
From Coq Require Import ZArith List Bool Lia Arith.
From Sky Require Import Result PyList G_coll M_Coll.
Import ListNotations.
Open Scope Z_scope.

(* ------------------------------------------------------------------ *)
(* characterising lemmas of the regenerated kernels *)
Lemma K_cidx_start_default : cidx_start_default = 0. Proof. reflexivity. Qed.
Lemma K_cidx_key : forall n, cidx_key n = n. Proof. reflexivity. Qed.
Lemma K_cidx_value : forall s i, cidx_value s i = s + i. Proof. reflexivity. Qed.
Lemma K_cidx_slice_lo : forall s, cidx_slice_lo s = s. Proof. reflexivity. Qed.
Lemma K_cidx_slice_hi : forall e, cidx_slice_hi e = e. Proof. reflexivity. Qed.
Lemma K_cidx_iter_base : forall x, cidx_iter_base x = x. Proof. reflexivity. Qed.
Lemma K_add_n_objs : forall n, add_n_objs n = n. Proof. reflexivity. Qed.
Lemma K_add_start : forall n, add_start n = n. Proof. reflexivity. Qed.
Lemma K_pop_default_index : forall n, pop_default_index n = n - 1. Proof. reflexivity. Qed.
Lemma K_pop_list_pop : forall x, pop_list_pop x = x. Proof. reflexivity. Qed.
Lemma K_npop_name_lookup : forall x, npop_name_lookup x = x. Proof. reflexivity. Qed.
Lemma K_npop_super : forall x, npop_super x = x. Proof. reflexivity. Qed.
Lemma K_npop_rebuild : forall x, npop_rebuild x = x. Proof. reflexivity. Qed.
Lemma K_index_by_name : forall n x, index_by_name n x = x. Proof. reflexivity. Qed.
Lemma K_index_by_name_idx0 : forall n, index_by_name_idx0 n = n. Proof. reflexivity. Qed.
Lemma K_oc_copy_inst : forall x, oc_copy_inst x = x. Proof. reflexivity. Qed.
Lemma K_oc_copy_objects : forall x, oc_copy_objects x = x. Proof. reflexivity. Qed.
Lemma K_noc_copy_super : forall x, noc_copy_super x = x. Proof. reflexivity. Qed.
Lemma K_noc_copy_index : forall x, noc_copy_index x = x. Proof. reflexivity. Qed.
Lemma K_oc_plus_copy : forall x, oc_plus_copy x = x. Proof. reflexivity. Qed.
Lemma K_oc_init_add : forall x, oc_init_add x = x. Proof. reflexivity. Qed.
Lemma K_dsc_store_val : forall x, dsc_store_val x = x. Proof. reflexivity. Qed.
(* statement-skeleton pins (translator `shapev`): the definitions exist only when the skeleton is the pinned one *)
Lemma K_sh_make_dict_hash : sh_make_dict_hash = true. Proof. reflexivity. Qed.
Lemma K_sh_make_dict_hash_value : sh_make_dict_hash_value = true. Proof. reflexivity. Qed.
Lemma K_sh_datafields_get_joint_names : sh_datafields_get_joint_names = true. Proof. reflexivity. Qed.
Lemma K_sh_dfs_and_check : sh_dfs_and_check = true. Proof. reflexivity. Qed.
Lemma K_sh_dfs_or_check : sh_dfs_or_check = true. Proof. reflexivity. Qed.
Lemma K_sh_config_from_yaml : sh_config_from_yaml = true. Proof. reflexivity. Qed.
Lemma K_sh_config_from_dict : sh_config_from_dict = true. Proof. reflexivity. Qed.
Lemma K_sh_configu_initu : sh_configu_initu = true. Proof. reflexivity. Qed.
Lemma K_sh_config_set_ncpu : sh_config_set_ncpu = true. Proof. reflexivity. Qed.
Lemma K_sh_config_enable_tracing : sh_config_enable_tracing = true. Proof. reflexivity. Qed.
Lemma K_sh_config_disable_tracing : sh_config_disable_tracing = true. Proof. reflexivity. Qed.
Lemma K_sh_config_set_enable_tracing : sh_config_set_enable_tracing = true. Proof. reflexivity. Qed.
Lemma K_sh_config_set_wd : sh_config_set_wd = true. Proof. reflexivity. Qed.
Lemma K_sh_config_set_internal_units : sh_config_set_internal_units = true. Proof. reflexivity. Qed.
Lemma K_sh_config_get_wd : sh_config_get_wd = true. Proof. reflexivity. Qed.
Lemma K_sh_ocu_initu : sh_ocu_initu = true. Proof. reflexivity. Qed.
Lemma K_sh_oc_copy : sh_oc_copy = true. Proof. reflexivity. Qed.
Lemma K_sh_oc_add : sh_oc_add = true. Proof. reflexivity. Qed.
Lemma K_sh_ocu_addu : sh_ocu_addu = true. Proof. reflexivity. Qed.
Lemma K_sh_oc_pop : sh_oc_pop = true. Proof. reflexivity. Qed.
Lemma K_sh_nocu_initu : sh_nocu_initu = true. Proof. reflexivity. Qed.
Lemma K_sh_noc_copy : sh_noc_copy = true. Proof. reflexivity. Qed.
Lemma K_sh_noc_add : sh_noc_add = true. Proof. reflexivity. Qed.
Lemma K_sh_noc_pop : sh_noc_pop = true. Proof. reflexivity. Qed.
Lemma K_sh_nocucreate_obj_name_to_idx_dict : sh_nocucreate_obj_name_to_idx_dict = true. Proof. reflexivity. Qed.
Lemma K_sh_noc_get_index_by_name : sh_noc_get_index_by_name = true. Proof. reflexivity. Qed.
Lemma K_sh_nocu_getitemu : sh_nocu_getitemu = true. Proof. reflexivity. Qed.
Lemma K_sh_nocu_containsu : sh_nocu_containsu = true. Proof. reflexivity. Qed.
Lemma K_sh_noc_name_list : sh_noc_name_list = true. Proof. reflexivity. Qed.
Lemma K_sh_pdfset_make_key : sh_pdfset_make_key = true. Proof. reflexivity. Qed.
Lemma K_sh_pdfset_add_pdf : sh_pdfset_add_pdf = true. Proof. reflexivity. Qed.
Lemma K_sh_pdfset_get_pdf : sh_pdfset_get_pdf = true. Proof. reflexivity. Qed.
Lemma K_sh_pdfsetu_containsu : sh_pdfsetu_containsu = true. Proof. reflexivity. Qed.
Lemma K_sh_dsc_add_datasets : sh_dsc_add_datasets = true. Proof. reflexivity. Qed.
Lemma K_sh_dsc_remove_dataset : sh_dsc_remove_dataset = true. Proof. reflexivity. Qed.
Lemma K_sh_dsc_get_dataset : sh_dsc_get_dataset = true. Proof. reflexivity. Qed.
Lemma K_sh_mcu_initu : sh_mcu_initu = true. Proof. reflexivity. Qed.


(* ------------------------------------------------------------------ *)
(* ordered dictionaries *)
Section OD.
  Context {V : Type}.
  Implicit Types (d e : od V) (k : Z) (v : V).

  Lemma od_get_set_same : forall d k v, od_get (od_set d k v) k = Some v.
  Proof.
    induction d as [|[k' v'] t IH]; intros k v; cbn.
    - rewrite Z.eqb_refl; reflexivity.
    - destruct (k' =? k) eqn:E; cbn; rewrite E; auto.
  Qed.

  Lemma od_get_set_other : forall d k v k', k <> k' -> od_get (od_set d k v) k' = od_get d k'.
  Proof.
    induction d as [|[k0 v0] t IH]; intros k v k' N; cbn.
    - destruct (k =? k') eqn:E; auto. apply Z.eqb_eq in E; contradiction.
    - destruct (k0 =? k) eqn:E; cbn.
      + apply Z.eqb_eq in E; subst k0.
        destruct (k =? k') eqn:E2; auto. apply Z.eqb_eq in E2; contradiction.
      + destruct (k0 =? k'); auto.
  Qed.

  Lemma od_mem_set : forall d k v k', od_mem (od_set d k v) k' = (k =? k') || od_mem d k'.
  Proof.
    intros d k v k'; unfold od_mem.
    destruct (k =? k') eqn:E.
    - apply Z.eqb_eq in E; subst; rewrite od_get_set_same; reflexivity.
    - apply Z.eqb_neq in E. rewrite od_get_set_other by assumption. reflexivity.
  Qed.

  Lemma od_set_set_same : forall d k v0 v, od_set (od_set d k v0) k v = od_set d k v.
  Proof.
    induction d as [|[k' v'] t IH]; intros k v0 v; cbn.
    - rewrite Z.eqb_refl; reflexivity.
    - destruct (k' =? k) eqn:E; cbn; rewrite E; [reflexivity | rewrite IH; reflexivity].
  Qed.

  Lemma od_set_notin : forall d k v, od_mem d k = false -> od_set d k v = d ++ [(k, v)].
  Proof.
    induction d as [|[k' v'] t IH]; intros k v M; cbn; [reflexivity|].
    unfold od_mem in M; cbn in M.
    destruct (k' =? k) eqn:E; [discriminate|].
    rewrite IH; [reflexivity | exact M].
  Qed.

  Lemma od_set_comm_mem : forall d k v k2 v2,
    od_mem d k = true -> k <> k2 ->
    od_set (od_set d k2 v2) k v = od_set (od_set d k v) k2 v2.
  Proof.
    induction d as [|[k0 v0] t IH]; intros k v k2 v2 M N.
    - discriminate.
    - unfold od_mem in M; cbn in M. cbn.
      destruct (k0 =? k2) eqn:E2; destruct (k0 =? k) eqn:E1; cbn; rewrite ?E1, ?E2; try reflexivity.
      + apply Z.eqb_eq in E1, E2; subst; contradiction.
      + rewrite IH; auto.
  Qed.

  Lemma od_keys_set : forall d k v,
    od_keys (od_set d k v) = if od_mem d k then od_keys d else od_keys d ++ [k].
  Proof.
    unfold od_keys.
    induction d as [|[k' v'] t IH]; intros k v; cbn; [reflexivity|].
    unfold od_mem; cbn. destruct (k' =? k) eqn:E; cbn; [reflexivity|].
    rewrite IH. unfold od_mem. destruct (od_get t k); reflexivity.
  Qed.

  Lemma od_mem_keys : forall d k, od_mem d k = true <-> In k (od_keys d).
  Proof.
    induction d as [|[k' v'] t IH]; intros k; unfold od_mem; cbn.
    - split; [discriminate | tauto].
    - destruct (k' =? k) eqn:E.
      + apply Z.eqb_eq in E; split; auto.
      + apply Z.eqb_neq in E. unfold od_mem in IH. rewrite IH. split; [auto | intros [X|X]; [contradiction|auto]].
  Qed.

  Lemma od_mem_false_keys : forall d k, od_mem d k = false <-> ~ In k (od_keys d).
  Proof.
    intros d k. rewrite <- od_mem_keys. destruct (od_mem d k); split; intros X; try congruence.
  Qed.

  Lemma nodup_snoc : forall (l : list Z) k, NoDup l -> ~ In k l -> NoDup (l ++ [k]).
  Proof.
    induction l as [|a t IH]; intros k N NI; cbn.
    - constructor; [tauto | constructor].
    - inversion N as [|? ? Na Nt]; subst. constructor.
      + rewrite in_app_iff; cbn. intros [X|[X|[]]]; [contradiction|]. subst; apply NI; left; reflexivity.
      + apply IH; [exact Nt | intros X; apply NI; right; exact X].
  Qed.

  Lemma od_keys_set_nodup : forall d k v, NoDup (od_keys d) -> NoDup (od_keys (od_set d k v)).
  Proof.
    intros d k v N. rewrite od_keys_set. destruct (od_mem d k) eqn:M; [exact N|].
    apply od_mem_false_keys in M. apply nodup_snoc; assumption.
  Qed.

  Lemma od_update_app : forall d A B, od_update d (A ++ B) = od_update (od_update d A) B.
  Proof. intros; unfold od_update; apply fold_left_app. Qed.

  Lemma od_update_cons : forall d k v t, od_update d ((k, v) :: t) = od_update (od_set d k v) t.
  Proof. reflexivity. Qed.
  Lemma od_update_nil : forall d, od_update d [] = d.
  Proof. reflexivity. Qed.

  Lemma od_update_nodup : forall B d, NoDup (od_keys d) -> NoDup (od_keys (od_update d B)).
  Proof.
    induction B as [|[k v] t IH]; intros d N; [exact N|].
    rewrite od_update_cons. apply IH. apply od_keys_set_nodup; exact N.
  Qed.

  Lemma od_of_nodup : forall B, NoDup (od_keys (@od_of V B)).
  Proof. intros; apply od_update_nodup; constructor. Qed.

  (* setting an existing key commutes with a later update that does not touch it *)
  Lemma od_set_update_mem : forall t E k v,
    od_mem E k = true -> ~ In k (map fst t) ->
    od_set (od_update E t) k v = od_update (od_set E k v) t.
  Proof.
    induction t as [|[k2 v2] t IH]; intros E k v M NI; [reflexivity|].
    cbn in NI. rewrite !od_update_cons. rewrite IH.
    - rewrite od_set_comm_mem; auto.
    - rewrite od_mem_set, M; apply orb_true_r.
    - tauto.
  Qed.

  (* d.update(e) after e[k] = v  ==  (d.update(e))[k] = v, for a dict e *)
  Lemma od_update_set : forall e d k v,
    NoDup (od_keys e) ->
    od_update d (od_set e k v) = od_set (od_update d e) k v.
  Proof.
    induction e as [|[k' v'] t IH]; intros d k v N; [reflexivity|].
    cbn in N; inversion N as [|? ? Nk Nt]; subst.
    cbn [od_set]. destruct (k' =? k) eqn:E; rewrite !od_update_cons.
    - apply Z.eqb_eq in E; subst k'.
      rewrite od_set_update_mem.
      + rewrite od_set_set_same; reflexivity.
      + rewrite od_mem_set, Z.eqb_refl; reflexivity.
      + exact Nk.
    - apply IH; exact Nt.
  Qed.

  (* d.update(OrderedDict(items)) == item assignment of the items in sequence *)
  Lemma od_update_od_of : forall B d, od_update d (od_of B) = od_update d B.
  Proof.
    induction B as [|[k v] t IH] using rev_ind; intros d; [reflexivity|].
    unfold od_of. rewrite !od_update_app. rewrite !od_update_cons, !od_update_nil.
    rewrite od_update_set by apply od_of_nodup.
    unfold od_of in IH. rewrite IH. reflexivity.
  Qed.

  Lemma od_of_app : forall A B, @od_of V (A ++ B) = od_update (od_of A) (od_of B).
  Proof. intros; rewrite od_update_od_of; unfold od_of; apply od_update_app. Qed.

  (* items with distinct new keys are simply appended *)
  Lemma od_update_fresh : forall B d,
    NoDup (map fst B) -> (forall k, In k (map fst B) -> ~ In k (od_keys d)) ->
    od_update d B = d ++ B.
  Proof.
    induction B as [|[k v] t IH]; intros d N F.
    - rewrite app_nil_r; reflexivity.
    - rewrite od_update_cons. cbn in N; inversion N as [|? ? Nk Nt]; subst.
      rewrite od_set_notin by (apply od_mem_false_keys; apply F; left; reflexivity).
      rewrite IH; [rewrite <- app_assoc; reflexivity | exact Nt |].
      intros k0 I0. unfold od_keys; rewrite map_app, in_app_iff; cbn.
      intros [X|[X|[]]]; [apply (F k0); [right; exact I0 | exact X] | subst; contradiction].
  Qed.

  Lemma od_of_nodup_id : forall B, NoDup (map fst B) -> @od_of V B = B.
  Proof. intros B N; unfold od_of; rewrite od_update_fresh; auto. Qed.
End OD.

(* ------------------------------------------------------------------ *)
(* enumerate / the name index *)
Lemma enum_names_cons : forall s o l, enum_names s (o :: l) = (oname o, s) :: enum_names (s + 1) l.
Proof. reflexivity. Qed.

Lemma enum_names_app : forall l1 l2 s,
  enum_names s (l1 ++ l2) = enum_names s l1 ++ enum_names (s + zlen l1) l2.
Proof.
  induction l1 as [|o t IH]; intros l2 s.
  - cbn [app]. replace (s + zlen (@nil obj)) with s by (unfold zlen; cbn; lia). reflexivity.
  - rewrite <- app_comm_cons, !enum_names_cons, IH. cbn [app]. do 3 f_equal.
    unfold zlen; cbn [length]; lia.
Qed.

Lemma enum_names_keys : forall l s, map fst (enum_names s l) = names l.
Proof. induction l as [|o t IH]; intros s; [reflexivity|]. rewrite enum_names_cons; cbn; rewrite IH; reflexivity. Qed.

Lemma create_idx_shift : forall l start a,
  map (fun p : Z * obj => (cidx_key (oname (snd p)), cidx_value start (fst p))) (enumerate_from a l)
  = enum_names (start + a) l.
Proof.
  induction l as [|o t IH]; intros start a; [reflexivity|].
  cbn [enumerate_from map]. rewrite IH, enum_names_cons. cbn [fst snd].
  rewrite K_cidx_key, K_cidx_value. do 2 f_equal. lia.
Qed.

(* K: _create_obj_name_to_idx_dict(start) = OrderedDict((o.name, start+i) for i,o in enumerate(objs[start:])) *)
Lemma create_idx_spec : forall l start, 0 <= start ->
  create_idx l start = od_of (enum_names start (skipn (Z.to_nat start) l)).
Proof.
  intros l start _. unfold create_idx. rewrite K_cidx_slice_lo, create_idx_shift.
  rewrite Z.add_0_r. reflexivity.
Qed.

Lemma skipn_app_len : forall {A} (l n : list A), skipn (Z.to_nat (zlen l)) (l ++ n) = n.
Proof.
  intros A l n. unfold zlen. rewrite Nat2Z.id.
  rewrite skipn_app, Nat.sub_diag, skipn_all. reflexivity.
Qed.

(* the index after add: update of the old index by the index of the new tail *)
Lemma add_index : forall l news,
  od_update (od_of (enum_names 0 l)) (create_idx (l ++ news) (add_start (add_n_objs (zlen l))))
  = od_of (enum_names 0 (l ++ news)).
Proof.
  intros l news. rewrite K_add_start, K_add_n_objs.
  rewrite create_idx_spec by (unfold zlen; lia).
  rewrite skipn_app_len, od_update_od_of.
  rewrite enum_names_app. unfold od_of at 2. rewrite od_update_app. reflexivity.
Qed.

Lemma pop_index : forall l, create_idx l cidx_start_default = od_of (enum_names 0 l).
Proof. intros l. rewrite K_cidx_start_default, create_idx_spec by lia. reflexivity. Qed.

(* uniquely named objects: the index is literally enumerate *)
Lemma index_unique : forall l, NoDup (names l) -> od_of (enum_names 0 l) = enum_names 0 l.
Proof. intros l N. apply od_of_nodup_id. rewrite enum_names_keys. exact N. Qed.

Lemma enum_names_get : forall l s k o,
  NoDup (names l) -> nth_error l k = Some o ->
  od_get (enum_names s l) (oname o) = Some (s + Z.of_nat k).
Proof.
  induction l as [|a t IH]; intros s k o N E; [destruct k; discriminate|].
  rewrite enum_names_cons. cbn [od_get]. cbn in N. inversion N as [|? ? Na Nt]; subst.
  destruct k as [|k]; cbn in E.
  - inversion E; subst. rewrite Z.eqb_refl. f_equal; lia.
  - destruct (oname a =? oname o) eqn:Eq.
    + apply Z.eqb_eq in Eq. exfalso; apply Na. rewrite Eq. unfold names.
      apply in_map. eapply nth_error_In; exact E.
    + rewrite (IH (s + 1) k o Nt E). f_equal; lia.
Qed.

Lemma enum_names_get_none : forall l s n, ~ In n (names l) -> od_get (enum_names s l) n = None.
Proof.
  induction l as [|a t IH]; intros s n NI; [reflexivity|].
  rewrite enum_names_cons. cbn [od_get]. cbn in NI.
  destruct (oname a =? n) eqn:E; [apply Z.eqb_eq in E; tauto|]. apply IH; tauto.
Qed.

Lemma py_get_nth : forall {A} (l : list A) k a, nth_error l k = Some a -> py_get l (Z.of_nat k) = Ok a.
Proof.
  intros A l k a E. unfold py_get.
  assert (L : (k < length l)%nat) by (apply nth_error_Some; congruence).
  destruct (Z.of_nat k <? 0) eqn:E1; [apply Z.ltb_lt in E1; lia|].
  unfold zlen. destruct (Z.of_nat k <? 0) eqn:E2; [apply Z.ltb_lt in E2; lia|].
  destruct (Z.of_nat (length l) <=? Z.of_nat k) eqn:E3; [apply Z.leb_le in E3; lia|].
  cbn [orb]. rewrite Nat2Z.id, E. reflexivity.
Qed.

(* ------------------------------------------------------------------ *)
(* the heap *)
Lemma nth_error_set_nth : forall {A} (h : list A) l c k,
  nth_error (set_nth h l c) k =
  if Nat.eqb k l then match nth_error h l with Some _ => Some c | None => None end
  else nth_error h k.
Proof.
  induction h as [|a t IH]; intros l c k.
  - cbn. destruct (Nat.eqb k l); destruct k, l; reflexivity.
  - destruct l as [|l], k as [|k]; cbn; try reflexivity. apply IH.
Qed.

Lemma length_set_nth : forall {A} (h : list A) l c, length (set_nth h l c) = length h.
Proof. induction h as [|a t IH]; intros [|l] c; cbn; auto. Qed.

Lemma nth_error_snoc : forall {A} (h : list A) c k,
  nth_error (h ++ [c]) k = if Nat.eqb k (length h) then Some c else nth_error h k.
Proof.
  intros A h c k. destruct (Nat.eqb_spec k (length h)) as [E|E].
  - subst. rewrite nth_error_app2, Nat.sub_diag by lia. reflexivity.
  - destruct (Nat.lt_ge_cases k (length h)) as [L|L].
    + apply nth_error_app1; exact L.
    + rewrite (proj2 (nth_error_None h k)) by lia.
      apply nth_error_None. rewrite app_length; cbn; lia.
Qed.

Lemma firstn_set_nth_ge : forall {A} (h : list A) n l c, (n <= l)%nat -> firstn n (set_nth h l c) = firstn n h.
Proof.
  induction h as [|a t IH]; intros n l c L; [reflexivity|].
  destruct l as [|l]; [replace n with 0%nat by lia; reflexivity|].
  destruct n as [|n]; [reflexivity|]. cbn. rewrite IH by lia. reflexivity.
Qed.

Definition wf_heap (h : heap) : Prop :=
  forall i ty lo di, nth_error h i = Some (CInst ty lo di) ->
    exists l, nth_error h lo = Some (CList l)
              /\ nth_error h di = Some (CDict (od_of (enum_names 0 l))).

Definition sep_heap (h : heap) : Prop :=
  forall i j ty lo di ty' lo' di',
    nth_error h i = Some (CInst ty lo di) -> nth_error h j = Some (CInst ty' lo' di') ->
    i <> j -> lo <> lo' /\ di <> di'.

Definition hinv (h : heap) : Prop := wf_heap h /\ sep_heap h.

Lemma get_inst_nth : forall h i ty lo di,
  get_inst h i = Some (ty, lo, di) <-> nth_error h i = Some (CInst ty lo di).
Proof.
  intros; unfold get_inst. destruct (nth_error h i) as [[ | | ]|]; split; intros X; try discriminate; inversion X; subst; reflexivity.
Qed.
Lemma get_list_nth : forall h k l, get_list h k = Some l <-> nth_error h k = Some (CList l).
Proof.
  intros; unfold get_list. destruct (nth_error h k) as [[ | | ]|]; split; intros X; try discriminate; inversion X; subst; reflexivity.
Qed.
Lemma get_dict_nth : forall h k d, get_dict h k = Some d <-> nth_error h k = Some (CDict d).
Proof.
  intros; unfold get_dict. destruct (nth_error h k) as [[ | | ]|]; split; intros X; try discriminate; inversion X; subst; reflexivity.
Qed.

Lemma view_nth : forall h i ty l d,
  view h i = Some (ty, l, d) <->
  exists lo di, nth_error h i = Some (CInst ty lo di) /\ nth_error h lo = Some (CList l)
                /\ nth_error h di = Some (CDict d).
Proof.
  intros h i ty l d. unfold view. split.
  - destruct (get_inst h i) as [[[ty' lo] di]|] eqn:E; [|discriminate].
    destruct (get_list h lo) as [l'|] eqn:El; [|discriminate].
    destruct (get_dict h di) as [d'|] eqn:Ed; [|discriminate].
    intros X; inversion X; subst. exists lo, di.
    apply get_inst_nth in E. apply get_list_nth in El. apply get_dict_nth in Ed. auto.
  - intros (lo & di & A & B & C).
    apply get_inst_nth in A. apply get_list_nth in B. apply get_dict_nth in C.
    rewrite A, B, C. reflexivity.
Qed.

(* the old part of a heap that only grew is still valid *)
Lemma view_prefix : forall h h' i v,
  firstn (length h) h' = h -> view h i = Some v -> view h' i = Some v.
Proof.
  intros h h' i [[ty l] d] P V. apply view_nth in V. destruct V as (lo & di & A & B & C).
  apply view_nth. exists lo, di.
  assert (Q : forall k c, nth_error h k = Some c -> nth_error h' k = Some c).
  { intros k c E. assert (k < length h)%nat by (apply nth_error_Some; congruence).
    rewrite <- (firstn_skipn (length h) h'), P. rewrite nth_error_app1 by lia. exact E. }
  auto.
Qed.

Lemma hinv_nil : hinv [].
Proof. split; intros i; intros; destruct i; discriminate. Qed.

Ltac neq_dec a b := destruct (Nat.eqb_spec a b); try subst.

(* writing a list cell and the matching dict cell of one instance *)
Lemma hinv_write : forall h i ty lo di l0 d0 l1,
  hinv h -> nth_error h i = Some (CInst ty lo di) ->
  nth_error h lo = Some (CList l0) -> nth_error h di = Some (CDict d0) ->
  hinv (put (put h lo (CList l1)) di (CDict (od_of (enum_names 0 l1)))).
Proof.
  intros h i ty lo di l0 d0 l1 [W S] Hi Hlo Hdi.
  assert (N : forall k, nth_error (put (put h lo (CList l1)) di (CDict (od_of (enum_names 0 l1)))) k
     = if Nat.eqb k di then Some (CDict (od_of (enum_names 0 l1)))
       else if Nat.eqb k lo then Some (CList l1) else nth_error h k).
  { intros k. unfold put. rewrite !nth_error_set_nth.
    neq_dec k di.
    - neq_dec di lo; [congruence|]. rewrite Hdi. reflexivity.
    - neq_dec k lo; [rewrite Hlo|]; reflexivity. }
  assert (I : forall k ty' lo' di', nth_error (put (put h lo (CList l1)) di (CDict (od_of (enum_names 0 l1)))) k = Some (CInst ty' lo' di')
              -> nth_error h k = Some (CInst ty' lo' di') /\ k <> di /\ k <> lo).
  { intros k ty' lo' di' E. rewrite N in E. neq_dec k di; [discriminate|]. neq_dec k lo; [discriminate|]. auto. }
  split.
  - intros k ty' lo' di' E. apply I in E. destruct E as (E & _ & _).
    destruct (Nat.eq_dec k i) as [->|NE].
    + rewrite Hi in E; inversion E; subst. exists l1. rewrite !N.
      rewrite Nat.eqb_refl. neq_dec lo' di'; [congruence|]. rewrite Nat.eqb_refl. auto.
    + destruct (S k i _ _ _ _ _ _ E Hi NE) as [A B].
      destruct (W _ _ _ _ E) as (l' & El & Ed). exists l'. rewrite !N.
      neq_dec lo' di; [congruence|]. neq_dec lo' lo; [congruence|].
      neq_dec di' di; [congruence|]. neq_dec di' lo; [congruence|]. auto.
  - intros a b ty1 lo1 di1 ty2 lo2 di2 Ea Eb NE.
    apply I in Ea; apply I in Eb. destruct Ea as (Ea & _); destruct Eb as (Eb & _).
    eapply S; eauto.
Qed.

Lemma hinv_write_frame : forall h i ty lo di l0 d0 c1 c2 j v,
  hinv h -> nth_error h i = Some (CInst ty lo di) ->
  nth_error h lo = Some (CList l0) -> nth_error h di = Some (CDict d0) ->
  j <> i -> view h j = Some v ->
  view (put (put h lo (CList c1)) di (CDict c2)) j = Some v.
Proof.
  intros h i ty lo di l0 d0 c1 c2 j [[ty' l'] d'] [W S] Hi Hlo Hdi NE V.
  apply view_nth in V. destruct V as (lo' & di' & A & B & C).
  destruct (S j i _ _ _ _ _ _ A Hi NE) as [X Y].
  apply view_nth. exists lo', di'. unfold put. rewrite !nth_error_set_nth.
  repeat split.
  - neq_dec j di; [congruence|]. neq_dec j lo; [congruence|]. exact A.
  - neq_dec lo' di; [congruence|]. neq_dec lo' lo; [congruence|]. exact B.
  - neq_dec di' di; [congruence|]. neq_dec di' lo; [congruence|]. exact C.
Qed.

(* ------------------------------------------------------------------ *)
(* the operations *)
Lemma noc_add_spec : forall h i x h' r,
  hinv h -> noc_add h i x = (h', r) ->
  hinv h' /\ length h' = length h
  /\ (forall j v, j <> i -> view h j = Some v -> view h' j = Some v)
  /\ match r with
     | Err _ => h' = h
     | Ok _ => exists ty lo di l news,
         nth_error h i = Some (CInst ty lo di) /\ nth_error h lo = Some (CList l)
         /\ oc_add_objs h ty x = Ok news
         /\ h' = put (put h lo (CList (l ++ news))) di (CDict (od_of (enum_names 0 (l ++ news))))
         /\ view h' i = Some (ty, l ++ news, od_of (enum_names 0 (l ++ news)))
     end.
Proof.
  intros h i x h' r Hinv E. unfold noc_add in E.
  destruct (get_inst h i) as [[[ty lo] di]|] eqn:Ei; [|inversion E; subst; auto].
  destruct (get_list h lo) as [l|] eqn:El; [|inversion E; subst; auto].
  destruct (get_dict h di) as [d|] eqn:Ed; [|inversion E; subst; auto].
  destruct (oc_add_objs h ty x) as [news|e] eqn:Ea; [|inversion E; subst; auto].
  apply get_inst_nth in Ei. apply get_list_nth in El. apply get_dict_nth in Ed.
  destruct (proj1 Hinv _ _ _ _ Ei) as (l0 & El0 & Ed0).
  rewrite El in El0; inversion El0; subst l0. rewrite Ed in Ed0; inversion Ed0; subst d.
  rewrite add_index in E. inversion E; subst h' r. clear E.
  assert (HI : hinv (put (put h lo (CList (l ++ news))) di (CDict (od_of (enum_names 0 (l ++ news))))))
    by (eapply hinv_write; eauto).
  split; [exact HI|]. split; [unfold put; rewrite !length_set_nth; reflexivity|].
  split; [intros j v NE V; eapply hinv_write_frame; eauto|].
  exists ty, lo, di, l, news. repeat split; auto.
  apply view_nth. exists lo, di. unfold put. rewrite !nth_error_set_nth.
  assert (lo <> di) by congruence.
  repeat split.
  - neq_dec i di; [congruence|]. neq_dec i lo; [congruence|]. exact Ei.
  - neq_dec lo di; [congruence|]. rewrite Nat.eqb_refl, El. reflexivity.
  - rewrite Nat.eqb_refl. neq_dec di lo; [congruence|]. rewrite Ed. reflexivity.
Qed.

Lemma hinv_alloc3 : forall h ty l,
  hinv h ->
  hinv (h ++ [CList l; CDict (od_of (enum_names 0 l)); CInst ty (length h) (S (length h))]).
Proof.
  intros h ty l [W Sp].
  set (n := length h).
  assert (N : forall k, nth_error (h ++ [CList l; CDict (od_of (enum_names 0 l)); CInst ty n (S n)]) k
     = if Nat.eqb k n then Some (CList l)
       else if Nat.eqb k (S n) then Some (CDict (od_of (enum_names 0 l)))
       else if Nat.eqb k (S (S n)) then Some (CInst ty n (S n)) else nth_error h k).
  { intros k.
    change [CList l; CDict (od_of (enum_names 0 l)); CInst ty n (S n)]
      with ([CList l] ++ [CDict (od_of (enum_names 0 l))] ++ [CInst ty n (S n)]).
    rewrite !app_assoc. rewrite !nth_error_snoc, !app_length. cbn [length]. fold n.
    replace (n + 1 + 1)%nat with (S (S n)) by lia. replace (n + 1)%nat with (S n) by lia.
    neq_dec k (S (S n)).
    - neq_dec (S (S n)) n; [lia|]. neq_dec (S (S n)) (S n); [lia|]. reflexivity.
    - neq_dec k (S n); [neq_dec (S n) n; [lia|reflexivity]|]. reflexivity. }
  assert (B : forall k c, nth_error h k = Some c -> (k < n)%nat).
  { intros k c E. apply nth_error_Some. congruence. }
  assert (Old : forall k c, nth_error h k = Some c ->
            nth_error (h ++ [CList l; CDict (od_of (enum_names 0 l)); CInst ty n (S n)]) k = Some c).
  { intros k c E. pose proof (B _ _ E). rewrite N.
    neq_dec k n; [lia|]. neq_dec k (S n); [lia|]. neq_dec k (S (S n)); [lia|]. exact E. }
  split.
  - intros k ty' lo' di' E. rewrite N in E.
    neq_dec k n; [discriminate|]. neq_dec k (S n); [discriminate|].
    neq_dec k (S (S n)).
    + inversion E; subst. exists l. rewrite !N. rewrite Nat.eqb_refl.
      neq_dec (S n) n; [lia|]. rewrite Nat.eqb_refl. auto.
    + destruct (W _ _ _ _ E) as (l' & A & C). exists l'. auto.
  - intros a b ty1 lo1 di1 ty2 lo2 di2 Ea Eb NE. rewrite N in Ea, Eb.
    neq_dec a n; [discriminate|]. neq_dec a (S n); [discriminate|].
    neq_dec b n; [discriminate|]. neq_dec b (S n); [discriminate|].
    neq_dec a (S (S n)); neq_dec b (S (S n)).
    + contradiction.
    + inversion Ea; subst. destruct (W _ _ _ _ Eb) as (l' & A & C).
      pose proof (B _ _ A). pose proof (B _ _ C). fold n in H, H0. lia.
    + inversion Eb; subst. destruct (W _ _ _ _ Ea) as (l' & A & C).
      pose proof (B _ _ A). pose proof (B _ _ C). fold n in H, H0. lia.
    + eapply Sp; eauto.
Qed.

Lemma noc_new_spec : forall h ty h' c,
  hinv h -> noc_new h ty = (h', c) ->
  hinv h' /\ firstn (length h) h' = h /\ (length h <= c)%nat /\ view h' c = Some (ty, [], []).
Proof.
  intros h ty h' c Hinv E. unfold noc_new, alloc in E. cbn in E.
  rewrite !app_length in E. cbn [length] in E.
  replace (length h + 1)%nat with (S (length h)) in E by lia.
  rewrite <- !app_assoc in E. cbn [app] in E. inversion E; subst h' c. clear E.
  pose proof (hinv_alloc3 h ty [] Hinv) as HI. cbn in HI.
  split; [exact HI|]. split; [rewrite firstn_app, Nat.sub_diag, firstn_all; cbn; apply app_nil_r|].
  split; [lia|]. apply view_nth. exists (length h), (S (length h)).
  repeat split.
  - rewrite nth_error_app2 by lia.
    match goal with |- nth_error _ ?k = _ => replace k with 2%nat by lia end. reflexivity.
  - rewrite nth_error_app2, Nat.sub_diag by lia. reflexivity.
  - rewrite nth_error_app2 by lia.
    match goal with |- nth_error _ ?k = _ => replace k with 1%nat by lia end. reflexivity.
Qed.

Lemma noc_copy_spec : forall h i h' r,
  hinv h -> noc_copy h i = (h', r) ->
  match r with
  | Err _ => h' = h
  | Ok c => exists ty l d, view h i = Some (ty, l, d)
      /\ h' = h ++ [CList l; CDict d; CInst ty (length h) (S (length h))]
      /\ c = S (S (length h)) /\ hinv h'
  end.
Proof.
  intros h i h' r Hinv E. unfold noc_copy in E.
  destruct (get_inst h i) as [[[ty lo] di]|] eqn:Ei; [|inversion E; subst; auto].
  destruct (get_list h lo) as [l|] eqn:El; [|inversion E; subst; auto].
  destruct (get_dict h di) as [d|] eqn:Ed; [|inversion E; subst; auto].
  unfold alloc in E. rewrite !app_length in E. cbn [length] in E.
  replace (length h + 1)%nat with (S (length h)) in E by lia.
  replace (S (length h) + 1)%nat with (S (S (length h))) in E by lia.
  rewrite <- !app_assoc in E. cbn [app] in E. inversion E; subst h' r. clear E.
  exists ty, l, d. unfold view. rewrite Ei, El, Ed.
  apply get_inst_nth in Ei. apply get_list_nth in El. apply get_dict_nth in Ed.
  destruct (proj1 Hinv _ _ _ _ Ei) as (l0 & El0 & Ed0).
  rewrite El in El0; inversion El0; subst l0. rewrite Ed in Ed0; inversion Ed0; subst d.
  split; [reflexivity|]. split; [reflexivity|]. split; [reflexivity|].
  apply hinv_alloc3; exact Hinv.
Qed.

(* which list index a pop key denotes *)
Definition pop_key_rel (k : popkey) (l : list obj) (d : od Z) (ix : Z) : Prop :=
  match k with
  | PNone => ix = zlen l - 1
  | PIdx j => ix = j
  | PName n => od_get d n = Some ix
  end.

Lemma noc_pop_spec : forall h i k h' r,
  hinv h -> noc_pop h i k = (h', r) ->
  hinv h'
  /\ (forall j v, j <> i -> view h j = Some v -> view h' j = Some v)
  /\ match r with
     | Err _ => h' = h
     | Ok o => exists ty l d ix l',
         view h i = Some (ty, l, d) /\ py_pop l ix = Ok (o, l') /\ pop_key_rel k l d ix
         /\ view h' i = Some (ty, l', od_of (enum_names 0 l'))
     end.
Proof.
  intros h i k h' r Hinv E. unfold noc_pop in E.
  destruct (get_inst h i) as [[[ty lo] di]|] eqn:Ei; [|inversion E; subst; auto].
  destruct (get_list h lo) as [l|] eqn:El; [|inversion E; subst; auto].
  destruct (get_dict h di) as [d|] eqn:Ed; [|inversion E; subst; auto].
  match type of E with (match ?ixe with _ => _ end) = _ => destruct ixe as [ix|e] eqn:Eix end;
    [|inversion E; subst; auto].
  destruct (py_pop l ix) as [[o l']|e] eqn:Ep; [|inversion E; subst; auto].
  unfold alloc in E. rewrite pop_index in E. unfold put in E. rewrite length_set_nth in E.
  inversion E; subst h' r. clear E.
  pose proof Ei as Gi. pose proof El as Gl. pose proof Ed as Gd.
  apply get_inst_nth in Ei. apply get_list_nth in El. apply get_dict_nth in Ed.
  destruct Hinv as [W Sp].
  set (n := length h). set (dn := od_of (enum_names 0 l')).
  assert (B : forall a c, nth_error h a = Some c -> (a < n)%nat).
  { intros a c X. apply nth_error_Some. congruence. }
  pose proof (B _ _ Ei) as Bi. pose proof (B _ _ El) as Blo.
  assert (N : forall a, nth_error (set_nth (set_nth h lo (CList l') ++ [CDict dn]) i (CInst ty lo n)) a
     = if Nat.eqb a i then Some (CInst ty lo n)
       else if Nat.eqb a n then Some (CDict dn)
       else if Nat.eqb a lo then Some (CList l') else nth_error h a).
  { intros a. rewrite nth_error_set_nth, !nth_error_snoc, length_set_nth, !nth_error_set_nth. fold n.
    neq_dec a i.
    - neq_dec i n; [lia|]. neq_dec i lo; [congruence|]. rewrite Ei. reflexivity.
    - neq_dec a n; [reflexivity|]. neq_dec a lo; [rewrite El|]; reflexivity. }
  assert (HI : hinv (set_nth (set_nth h lo (CList l') ++ [CDict dn]) i (CInst ty lo n))).
  { split.
    - intros a ty' lo' di' E. rewrite N in E. neq_dec a i.
      + inversion E; subst. exists l'. rewrite !N.
        neq_dec lo' i; [congruence|]. neq_dec lo' n; [lia|]. rewrite Nat.eqb_refl.
        neq_dec n i; [lia|]. rewrite Nat.eqb_refl. auto.
      + neq_dec a n; [discriminate|]. neq_dec a lo; [discriminate|].
        destruct (Sp a i _ _ _ _ _ _ E Ei ltac:(assumption)) as [X Y].
        destruct (W _ _ _ _ E) as (l2 & A & C). exists l2. rewrite !N.
        pose proof (B _ _ A). pose proof (B _ _ C).
        neq_dec lo' i; [congruence|]. neq_dec lo' n; [lia|]. neq_dec lo' lo; [congruence|].
        neq_dec di' i; [congruence|]. neq_dec di' n; [lia|]. neq_dec di' lo; [congruence|]. auto.
    - intros a b ty1 lo1 di1 ty2 lo2 di2 Ea Eb NE. rewrite N in Ea, Eb.
      neq_dec a i; neq_dec b i.
      + contradiction.
      + inversion Ea; subst. neq_dec b n; [discriminate|]. neq_dec b lo1; [discriminate|].
        destruct (Sp b i _ _ _ _ _ _ Eb Ei ltac:(assumption)) as [X Y].
        destruct (W _ _ _ _ Eb) as (l2 & A & C). pose proof (B _ _ C). split; [congruence | lia].
      + inversion Eb; subst. neq_dec a n; [discriminate|]. neq_dec a lo2; [discriminate|].
        destruct (Sp a i _ _ _ _ _ _ Ea Ei ltac:(assumption)) as [X Y].
        destruct (W _ _ _ _ Ea) as (l2 & A & C). pose proof (B _ _ C). split; [congruence | lia].
      + neq_dec a n; [discriminate|]. neq_dec a lo; [discriminate|].
        neq_dec b n; [discriminate|]. neq_dec b lo; [discriminate|]. eapply Sp; eauto. }
  split; [exact HI|]. split.
  - intros j [[ty' l2] d2] NE V. apply view_nth in V. destruct V as (lo' & di' & A & C & D).
    destruct (Sp j i _ _ _ _ _ _ A Ei NE) as [X Y].
    pose proof (B _ _ A). pose proof (B _ _ C). pose proof (B _ _ D).
    apply view_nth. exists lo', di'. rewrite !N. repeat split.
    + neq_dec j i; [contradiction|]. neq_dec j n; [lia|]. neq_dec j lo; [congruence|]. exact A.
    + neq_dec lo' i; [congruence|]. neq_dec lo' n; [lia|]. neq_dec lo' lo; [congruence|]. exact C.
    + neq_dec di' i; [congruence|]. neq_dec di' n; [lia|]. neq_dec di' lo; [congruence|]. exact D.
  - exists ty, l, d, ix, l'. split; [unfold view; rewrite Gi, Gl, Gd; reflexivity|].
    split; [exact Ep|]. split.
    { destruct k as [|j|nm]; cbn in Eix |- *.
      - inversion Eix; reflexivity.
      - inversion Eix; reflexivity.
      - rewrite K_index_by_name_idx0 in Eix. destruct (od_get d nm) as [ix0|]; [rewrite K_npop_name_lookup in Eix|]; inversion Eix; reflexivity. }
    apply view_nth. exists lo, n. rewrite !N. repeat split.
    + rewrite Nat.eqb_refl. reflexivity.
    + neq_dec lo i; [congruence|]. neq_dec lo n; [lia|]. rewrite Nat.eqb_refl. reflexivity.
    + neq_dec n i; [lia|]. rewrite Nat.eqb_refl. reflexivity.
Qed.

Definition operand_in (h : heap) (x : operand) : Prop :=
  match x with OpColl j => (j < length h)%nat | _ => True end.

Lemma oc_add_objs_prefix : forall h ext ty x,
  wf_heap h -> operand_in h x -> oc_add_objs (h ++ ext) ty x = oc_add_objs h ty x.
Proof.
  intros h ext ty [o|s|j] W Hin; try reflexivity. cbn in Hin.
  unfold oc_add_objs, get_inst. rewrite nth_error_app1 by exact Hin.
  destruct (nth_error h j) as [[ty' lo' di'| |]|] eqn:E; try reflexivity.
  destruct (W _ _ _ _ E) as (l & A & _).
  unfold get_list. rewrite nth_error_app1 by (apply nth_error_Some; congruence).
  reflexivity.
Qed.

(* a + x : the old heap is a prefix of the new one (no old cell is written or
   re-bound), the result is a new instance with new list and dict cells *)
Lemma noc_plus_spec : forall h i x h' r,
  hinv h -> noc_plus h i x = (h', r) ->
  hinv h' /\ firstn (length h) h' = h
  /\ match r with
     | Err _ => True
     | Ok c => exists ty l d news lo' di',
         view h i = Some (ty, l, d) /\ (operand_in h x -> oc_add_objs h ty x = Ok news)
         /\ (length h <= c)%nat /\ (length h <= lo')%nat /\ (length h <= di')%nat
         /\ nth_error h' c = Some (CInst ty lo' di')
         /\ view h' c = Some (ty, l ++ news, od_of (enum_names 0 (l ++ news)))
     end.
Proof.
  intros h i x h' r Hinv E. unfold noc_plus in E.
  destruct (noc_copy h i) as [h1 [c|e]] eqn:Ec.
  - pose proof (noc_copy_spec _ _ _ _ Hinv Ec) as (ty & l & d & V & Eh1 & Ecc & HI1). cbn in *.
    destruct (noc_add h1 c x) as [h2 r2] eqn:Ea.
    pose proof (noc_add_spec _ _ _ _ _ HI1 Ea) as (HI2 & Len & Fr & R).
    assert (P1 : firstn (length h) h1 = h).
    { subst h1. rewrite firstn_app, Nat.sub_diag, firstn_all. cbn. apply app_nil_r. }
    destruct r2 as [u|e].
    + inversion E; subst h' r. clear E.
      destruct R as (ty2 & lo2 & di2 & l2 & news & A & B & C & D & F).
      assert (Ac : nth_error h1 c = Some (CInst ty (length h) (S (length h)))).
      { subst h1 c. rewrite nth_error_app2 by lia.
        match goal with |- nth_error _ ?k = _ => replace k with 2%nat by lia end. reflexivity. }
      rewrite Ac in A. inversion A; subst ty2 lo2 di2.
      assert (Bl : nth_error h1 (length h) = Some (CList l)).
      { subst h1. rewrite nth_error_app2, Nat.sub_diag by lia. reflexivity. }
      rewrite Bl in B. inversion B; subst l2.
      split; [exact HI2|]. split.
      * rewrite D. unfold put. rewrite !firstn_set_nth_ge by lia. exact P1.
      * exists ty, l, d, news, (length h), (S (length h)).
        split; [exact V|]. split; [intros Hin; rewrite <- C, Eh1; symmetry; apply oc_add_objs_prefix; [apply Hinv | exact Hin]|].
        split; [lia|]. split; [lia|]. split; [lia|]. split; [|exact F].
        rewrite D. unfold put. rewrite !nth_error_set_nth.
        destruct (Nat.eqb_spec c (S (length h))); [lia|].
        destruct (Nat.eqb_spec c (length h)); [lia|]. exact Ac.
    + inversion E; subst h' r. subst h2. split; [exact HI1|]. split; [exact P1 | exact I].
  - pose proof (noc_copy_spec _ _ _ _ Hinv Ec) as X. cbn in X. subst h1.
    inversion E; subst. split; [exact Hinv|]. split; [apply firstn_all | exact I].
Qed.

(* failed mutators leave the heap as it was *)
Lemma add_failure_atomic : forall h i x h' e, noc_add h i x = (h', Err e) -> h' = h.
Proof.
  intros h i x h' e E. unfold noc_add in E.
  destruct (get_inst h i) as [[[ty lo] di]|]; [|inversion E; auto].
  destruct (get_list h lo); [|inversion E; auto].
  destruct (get_dict h di); [|inversion E; auto].
  destruct (oc_add_objs h ty x); inversion E; auto.
Qed.

Lemma hinv_view_e : forall h i ty l d,
  hinv h -> view h i = Some (ty, l, d) -> d = od_of (enum_names 0 l).
Proof.
  intros h i ty l d [W _] V. apply view_nth in V. destruct V as (lo & di & A & B & C).
  destruct (W _ _ _ _ A) as (l' & B' & C'). rewrite B in B'; inversion B'; subst l'.
  rewrite C in C'; inversion C'; reflexivity.
Qed.

(* constructor with initial objects *)
Lemma add_each_spec : forall s h c n,
  hinv h -> (n <= length h)%nat ->
  (forall ty lo di, nth_error h c = Some (CInst ty lo di) -> (n <= lo)%nat /\ (n <= di)%nat) ->
  forall h' r, add_each h c s = (h', r) ->
  hinv h' /\ firstn n h' = firstn n h /\ length h' = length h
  /\ (forall ty lo di, nth_error h c = Some (CInst ty lo di) -> nth_error h' c = Some (CInst ty lo di))
  /\ match r with
     | Err _ => True
     | Ok _ => forall ty l d, view h c = Some (ty, l, d) ->
                view h' c = Some (ty, l ++ s, od_of (enum_names 0 (l ++ s)))
                /\ Forall (fun o => issub (ocls o) ty = true) s
     end.
Proof.
  induction s as [|o t IH]; intros h c n HI Hn Hc h' r E; cbn in E.
  - inversion E; subst. split; [exact HI|]. split; [reflexivity|]. split; [reflexivity|]. split; [auto|].
    intros ty l d V. rewrite app_nil_r.
    pose proof (hinv_view_e _ _ _ _ _ HI V) as Hd. rewrite Hd in V. split; [exact V | constructor].
  - destruct (noc_add h c (OpObj o)) as [h1 [u|e]] eqn:Ea.
    + destruct (noc_add_spec _ _ _ _ _ HI Ea) as (HI1 & L1 & _ & ty & lo & di & l & news & A & B & C & D & V1).
      destruct (Hc _ _ _ A) as [Hlo Hdi].
      assert (A1 : nth_error h1 c = Some (CInst ty lo di)).
      { apply view_nth in V1. destruct V1 as (lo1 & di1 & X & _). rewrite D in X |- *. unfold put in *.
        rewrite !nth_error_set_nth in *. destruct (Nat.eqb c di); [destruct (if Nat.eqb di lo then _ else _); discriminate|].
        destruct (Nat.eqb c lo); [destruct (nth_error h lo); discriminate|]. exact A. }
      assert (Hc1 : forall ty0 lo0 di0, nth_error h1 c = Some (CInst ty0 lo0 di0) -> (n <= lo0)%nat /\ (n <= di0)%nat).
      { intros ty0 lo0 di0 X. rewrite A1 in X. inversion X; subst. auto. }
      destruct (IH h1 c n HI1 ltac:(lia) Hc1 h' r E) as (HI' & P' & L' & K' & R').
      split; [exact HI'|]. split; [|split; [lia|split]].
      * rewrite P', D. unfold put. rewrite !firstn_set_nth_ge by lia. reflexivity.
      * intros ty0 lo0 di0 X. rewrite A in X. inversion X; subst. apply K'. exact A1.
      * destruct r as [u'|e]; [|exact I]. intros ty0 l0 d0 V.
        assert (V0 : view h c = Some (ty, l, od_of (enum_names 0 l))).
        { destruct (proj1 HI _ _ _ _ A) as (l2 & B2 & C2). rewrite B in B2. inversion B2; subst l2.
          apply view_nth. exists lo, di. auto. }
        rewrite V0 in V. inversion V; subst ty0 l0 d0.
        cbn in C. destruct (issub (ocls o) ty) eqn:Io; inversion C; subst news.
        destruct (R' _ _ _ V1) as [V' T']. rewrite <- app_assoc in V'. cbn [app] in V'.
        split; [exact V' | constructor; assumption].
    + inversion E; subst. rewrite (add_failure_atomic _ _ _ _ _ Ea).
      split; [exact HI|]. split; [reflexivity|]. split; [reflexivity|]. split; [auto | exact I].
Qed.

Lemma noc_new_from_spec : forall h ty s h' r,
  hinv h -> noc_new_from h ty s = (h', r) ->
  hinv h' /\ firstn (length h) h' = h
  /\ match r with
     | Err _ => True
     | Ok c => (length h <= c)%nat /\ get_inst h c = None
               /\ view h' c = Some (ty, s, od_of (enum_names 0 s))
               /\ Forall (fun o => issub (ocls o) ty = true) s
     end.
Proof.
  intros h ty s h' r HI E. unfold noc_new_from in E.
  destruct (noc_new h ty) as [h1 c] eqn:En.
  destruct (noc_new_spec _ _ _ _ HI En) as (HI1 & P1 & Hc & V1).
  assert (L1 : (length h <= length h1)%nat).
  { rewrite <- P1 at 1. rewrite firstn_length. lia. }
  assert (Hc1 : forall ty0 lo di, nth_error h1 c = Some (CInst ty0 lo di) -> (length h <= lo)%nat /\ (length h <= di)%nat).
  { intros ty0 lo di X. unfold noc_new, alloc in En. cbn in En. rewrite !app_length in En. cbn [length] in En.
    rewrite <- !app_assoc in En. cbn [app] in En. inversion En; subst h1 c.
    rewrite nth_error_app2 in X by lia.
    match type of X with nth_error _ ?k = _ => replace k with 2%nat in X by lia end.
    cbn in X. inversion X; subst. lia. }
  destruct (add_each h1 c s) as [h2 [u|e]] eqn:Ea; inversion E; subst h' r;
    destruct (add_each_spec s h1 c (length h) HI1 L1 Hc1 _ _ Ea) as (HI2 & P2 & L2 & K2 & R2).
  - split; [exact HI2|]. split; [rewrite P2; exact P1|]. split; [exact Hc|].
    split; [unfold get_inst; rewrite (proj2 (nth_error_None h c)) by lia; reflexivity|].
    destruct (R2 _ _ _ V1) as [V T]. cbn [app] in V. auto.
  - split; [exact HI2|]. split; [rewrite P2; exact P1 | exact I].
Qed.

(* ------------------------------------------------------------------ *)
(* all histories *)
Lemma step_inv : forall h o, hinv h -> hinv (fst (step h o)).
Proof.
  intros h [ty|ty s|i x|i k|i x] Hinv; cbn [step].
  - destruct (noc_new h ty) as [h' c] eqn:E. cbn. eapply noc_new_spec; eauto.
  - destruct (noc_new_from h ty s) as [h' [c|e]] eqn:E; cbn; eapply noc_new_from_spec; eauto.
  - destruct (noc_add h i x) as [h' [u|e]] eqn:E; cbn; eapply noc_add_spec; eauto.
  - destruct (noc_pop h i k) as [h' [u|e]] eqn:E; cbn; eapply noc_pop_spec; eauto.
  - destruct (noc_plus h i x) as [h' [u|e]] eqn:E; cbn; eapply noc_plus_spec; eauto.
Qed.

Lemma run_inv : forall ops h, hinv h -> hinv (run h ops).
Proof.
  induction ops as [|o t IH]; intros h Hinv; [exact Hinv|].
  cbn. apply IH. apply step_inv; exact Hinv.
Qed.

Lemma hinv_view : forall h i ty l d,
  hinv h -> view h i = Some (ty, l, d) -> d = od_of (enum_names 0 l).
Proof.
  intros h i ty l d [W _] V. apply view_nth in V. destruct V as (lo & di & A & B & C).
  destruct (W _ _ _ _ A) as (l' & B' & C'). rewrite B in B'; inversion B'; subst l'.
  rewrite C in C'; inversion C'; reflexivity.
Qed.

(* C20_index *)
Theorem index_all_histories : forall ops i ty l d,
  view (run [] ops) i = Some (ty, l, d) ->
  d = od_of (enum_names 0 l)
  /\ (NoDup (names l) ->
      d = enum_names 0 l
      /\ od_keys d = names l
      /\ (forall k o, nth_error l k = Some o ->
            noc_index_by_name (run [] ops) i (oname o) = Ok (Z.of_nat k)
            /\ noc_getitem_name (run [] ops) i (oname o) = Ok o
            /\ noc_contains (run [] ops) i (oname o) = Ok true)
      /\ (forall n, ~ In n (names l) ->
            noc_index_by_name (run [] ops) i n = Err KeyError
            /\ noc_contains (run [] ops) i n = Ok false)).
Proof.
  intros ops i ty l d V.
  pose proof (hinv_view _ _ _ _ _ (run_inv ops [] hinv_nil) V) as Hd.
  split; [exact Hd|]. intros N.
  rewrite index_unique in Hd by exact N. subst d.
  split; [reflexivity|]. split; [apply enum_names_keys|]. split.
  - intros k o E. unfold noc_index_by_name, noc_getitem_name, noc_contains, od_mem. rewrite V.
    rewrite K_index_by_name_idx0, (enum_names_get l 0 k o N E). cbn [Z.add].
    repeat split. apply py_get_nth; exact E.
  - intros n NI. unfold noc_index_by_name, noc_contains, od_mem. rewrite V.
    rewrite K_index_by_name_idx0, (enum_names_get_none l 0 n NI). auto.
Qed.

Lemma pop_failure_atomic : forall h i k h' e, noc_pop h i k = (h', Err e) -> h' = h.
Proof.
  intros h i k h' e E. unfold noc_pop in E.
  destruct (get_inst h i) as [[[ty lo] di]|]; [|inversion E; auto].
  destruct (get_list h lo) as [l|]; [|inversion E; auto].
  destruct (get_dict h di) as [d|]; [|inversion E; auto].
  match type of E with (match ?ixe with _ => _ end) = _ => destruct ixe as [ix|e'] end; [|inversion E; auto].
  destruct (py_pop l ix) as [[o l']|e']; [|inversion E; auto].
  unfold alloc in E. inversion E.
Qed.

(* C20_plus: after any history, a + x leaves every existing collection (the
   operands included) exactly as it was and returns a new one *)
Theorem plus_fresh : forall ops i x h' r,
  noc_plus (run [] ops) i x = (h', r) ->
  let h := run [] ops in
  firstn (length h) h' = h
  /\ (forall j v, view h j = Some v -> view h' j = Some v)
  /\ match r with
     | Err _ => True
     | Ok c => exists ty l d news lo' di',
         view h i = Some (ty, l, d)
         /\ (operand_in h x -> oc_add_objs h ty x = Ok news)
         /\ get_inst h c = None /\ (length h <= lo')%nat /\ (length h <= di')%nat
         /\ get_inst h' c = Some (ty, lo', di')
         /\ view h' c = Some (ty, l ++ news, od_of (enum_names 0 (l ++ news)))
     end.
Proof.
  intros ops i x h' r E h.
  pose proof (noc_plus_spec _ _ _ _ _ (run_inv ops [] hinv_nil) E) as (HI & P & R).
  fold h in P, R. split; [exact P|]. split; [intros j v V; eapply view_prefix; eauto|].
  destruct r as [c|e]; [|exact I].
  destruct R as (ty & l & d & news & lo' & di' & A & B & C & D & F & G & K).
  exists ty, l, d, news, lo', di'. repeat split; auto.
  - unfold get_inst. rewrite (proj2 (nth_error_None h c)) by lia. reflexivity.
  - apply get_inst_nth; exact G.
Qed.

(* ------------------------------------------------------------------ *)
(* list.pop(index): Python semantics incl. negative and out-of-range indices *)
Lemma py_pop_ok : forall {A} (l : list A) i o l',
  py_pop l i = Ok (o, l') ->
  exists l1 l2, l = l1 ++ o :: l2 /\ l' = l1 ++ l2 /\ (i = zlen l1 \/ i = - zlen l2 - 1).
Proof.
  intros A l i o l' E. unfold py_pop in E.
  set (n := zlen l) in *. set (j := if i <? 0 then i + n else i) in *.
  destruct ((j <? 0) || (n <=? j)) eqn:R; [discriminate|].
  apply orb_false_iff in R. destruct R as [R1 R2]. apply Z.ltb_ge in R1. apply Z.leb_gt in R2.
  destruct (nth_error l (Z.to_nat j)) as [a|] eqn:En; [|discriminate].
  inversion E; subst a l'. clear E.
  destruct (nth_error_split l (Z.to_nat j) En) as (l1 & l2 & El & Len).
  exists l1, l2. split; [exact El|]. split.
  - assert (F1 : firstn (length l1) (l1 ++ o :: l2) = l1).
    { rewrite firstn_app, Nat.sub_diag, firstn_all. cbn. apply app_nil_r. }
    assert (F2 : skipn (S (length l1)) (l1 ++ o :: l2) = l2).
    { clear. induction l1 as [|a t IH]; [reflexivity | exact IH]. }
    assert (G : firstn (length l1) l ++ skipn (S (length l1)) l = l1 ++ l2)
      by (rewrite El, F1, F2; reflexivity).
    rewrite <- Len. exact G.
  - assert (Hn : n = zlen l1 + 1 + zlen l2).
    { unfold n, zlen. rewrite El, app_length. cbn [length]. lia. }
    assert (Hj : j = zlen l1) by (unfold zlen; lia).
    unfold j in Hj. destruct (i <? 0); [right | left]; lia.
Qed.

Lemma py_pop_err : forall {A} (l : list A) i e,
  py_pop l i = Err e -> e = IndexError /\ (i < - zlen l \/ zlen l <= i).
Proof.
  intros A l i e E. unfold py_pop in E.
  set (n := zlen l) in *. destruct (i <? 0) eqn:Neg.
  - apply Z.ltb_lt in Neg. destruct ((i + n <? 0) || (n <=? i + n)) eqn:R.
    + inversion E. split; [reflexivity|]. apply orb_true_iff in R. destruct R as [R|R];
        [apply Z.ltb_lt in R | apply Z.leb_le in R]; lia.
    + apply orb_false_iff in R. destruct R as [R1 R2]. apply Z.ltb_ge in R1.
      destruct (nth_error l (Z.to_nat (i + n))) eqn:En; [discriminate|].
      apply nth_error_None in En. unfold n, zlen in *. lia.
  - apply Z.ltb_ge in Neg. destruct ((i <? 0) || (n <=? i)) eqn:R.
    + inversion E. split; [reflexivity|]. apply orb_true_iff in R. destruct R as [R|R];
        [apply Z.ltb_lt in R | apply Z.leb_le in R]; lia.
    + apply orb_false_iff in R. destruct R as [R1 R2]. apply Z.leb_gt in R2.
      destruct (nth_error l (Z.to_nat i)) eqn:En; [discriminate|].
      apply nth_error_None in En. unfold n, zlen in *. lia.
Qed.

Lemma od_get_update : forall {V} (B d : od V) n v,
  od_get (od_update d B) n = Some v -> In (n, v) B \/ od_get d n = Some v.
Proof.
  induction B as [|[k x] t IH]; intros d n v E; [right; exact E|].
  rewrite od_update_cons in E. destruct (IH _ _ _ E) as [X|X]; [left; right; exact X|].
  destruct (Z.eq_dec k n) as [->|NE].
  - rewrite od_get_set_same in X. inversion X; subst. left; left; reflexivity.
  - rewrite od_get_set_other in X by exact NE. right; exact X.
Qed.

Lemma od_mem_update : forall {V} (B d : od V) n,
  In n (map fst B) -> od_mem (od_update d B) n = true.
Proof.
  intros V B. assert (G : forall (B : od V) d n, od_mem d n = true \/ In n (map fst B) -> od_mem (od_update d B) n = true).
  { induction B0 as [|[k x] t IH]; intros d n [M|I]; try exact M; try (destruct I; fail);
      rewrite od_update_cons; apply IH.
    - left. rewrite od_mem_set, M. apply orb_true_r.
    - cbn in I. destruct I as [->|I]; [left; rewrite od_mem_set, Z.eqb_refl; reflexivity | right; exact I]. }
  intros d n I. apply G. right; exact I.
Qed.

Lemma enum_names_in : forall l s n ix,
  In (n, ix) (enum_names s l) -> exists k o, ix = s + Z.of_nat k /\ nth_error l k = Some o /\ oname o = n.
Proof.
  induction l as [|a t IH]; intros s n ix I; [destruct I|].
  rewrite enum_names_cons in I. destruct I as [I|I].
  - inversion I; subst. exists 0%nat, a. repeat split. lia.
  - destruct (IH _ _ _ I) as (k & o & E1 & E2 & E3). exists (S k), o. repeat split; auto. lia.
Qed.

(* C20_pop *)
Theorem pop_all_histories : forall ops i k h' r,
  noc_pop (run [] ops) i k = (h', r) ->
  let h := run [] ops in
  (forall j v, j <> i -> view h j = Some v -> view h' j = Some v)
  /\ match r with
     | Ok o => exists ty l d l1 l2,
         view h i = Some (ty, l, d) /\ l = l1 ++ o :: l2
         /\ view h' i = Some (ty, l1 ++ l2, od_of (enum_names 0 (l1 ++ l2)))
         /\ match k with
            | PNone => l2 = []
            | PIdx ix => ix = zlen l1 \/ ix = - zlen l2 - 1
            | PName n => oname o = n
            end
     | Err e => h' = h /\ forall ty l d, view h i = Some (ty, l, d) ->
         match k with
         | PNone => l = [] /\ e = IndexError
         | PIdx ix => (ix < - zlen l \/ zlen l <= ix) /\ e = IndexError
         | PName n => ~ In n (names l) /\ e = KeyError
         end
     end.
Proof.
  intros ops i k h' r E h. pose proof (run_inv ops [] hinv_nil) as HI. fold h in HI, E.
  destruct (noc_pop_spec _ _ _ _ _ HI E) as (HI' & Fr & R).
  split; [exact Fr|]. destruct r as [o|e].
  - destruct R as (ty & l & d & ix & l' & V & Ep & Rel & V').
    destruct (py_pop_ok _ _ _ _ Ep) as (l1 & l2 & El & El' & Hix). subst l'.
    exists ty, l, d, l1, l2. split; [exact V|]. split; [exact El|]. split; [exact V'|].
    assert (Hn : zlen l = zlen l1 + 1 + zlen l2) by (unfold zlen; rewrite El, app_length; cbn [length]; lia).
    assert (P1 : 0 <= zlen l1) by (unfold zlen; lia). assert (P2 : 0 <= zlen l2) by (unfold zlen; lia).
    destruct k as [|j|n]; cbn in Rel.
    + assert (zlen l2 = 0) by lia. destruct l2; [reflexivity | unfold zlen in *; cbn in *; lia].
    + subst ix. exact Hix.
    + rewrite (hinv_view _ _ _ _ _ HI V) in Rel.
      destruct (od_get_update _ _ _ _ Rel) as [I|I]; [|discriminate].
      destruct (enum_names_in _ _ _ _ I) as (kk & o' & E1 & E2 & E3).
      assert (kk = length l1) by (unfold zlen in *; lia). subst kk.
      rewrite El, nth_error_app2, Nat.sub_diag in E2 by lia. inversion E2; subst o'. exact E3.
  - subst h'. split; [reflexivity|]. intros ty l d V.
    pose proof (hinv_view _ _ _ _ _ HI V) as Hd.
    apply view_nth in V. destruct V as (lo & di & A & B & C).
    apply get_inst_nth in A. apply get_list_nth in B. apply get_dict_nth in C.
    unfold noc_pop in E. rewrite A, B, C in E.
    assert (Fin : forall ix o l', py_pop l ix = Ok (o, l') ->
              (let (h2, dn) := alloc (put h lo (CList l')) (CDict (create_idx l' cidx_start_default)) in
               (put h2 i (CInst ty lo dn), Ok o)) = (h, Err e) -> False).
    { intros ix o l' _ X. unfold alloc in X. inversion X. }
    destruct k as [|j|n].
    + destruct (py_pop l (pop_default_index (zlen l))) as [[o l']|e'] eqn:Ep; [exfalso; eapply Fin; eauto|].
      inversion E; subst e'. destruct (py_pop_err _ _ _ Ep) as [He R]. rewrite K_pop_default_index in R.
      split; [|exact He]. destruct l; [reflexivity | unfold zlen in R; cbn [length] in R; lia].
    + destruct (py_pop l j) as [[o l']|e'] eqn:Ep; [exfalso; eapply Fin; eauto|].
      inversion E; subst e'. destruct (py_pop_err _ _ _ Ep) as [He R]. split; assumption.
    + rewrite K_index_by_name_idx0 in E. destruct (od_get d n) as [ix|] eqn:Eg.
      * exfalso. rewrite K_npop_name_lookup in E.
        destruct (py_pop l ix) as [[o l']|e'] eqn:Ep; [eapply Fin; eauto|].
        destruct (py_pop_err _ _ _ Ep) as [_ R]. rewrite Hd in Eg.
        destruct (od_get_update _ _ _ _ Eg) as [I|I]; [|discriminate].
        destruct (enum_names_in _ _ _ _ I) as (kk & o' & E1 & E2 & _).
        assert (kk < length l)%nat by (apply nth_error_Some; congruence). unfold zlen in R. lia.
      * inversion E. split; [|reflexivity]. intros I.
        assert (M : od_mem d n = true).
        { rewrite Hd. apply od_mem_update. rewrite enum_names_keys. exact I. }
        unfold od_mem in M. rewrite Eg in M. discriminate.
Qed.

(* ------------------------------------------------------------------ *)
(* copy(): the new instance has its own list and index cells *)
Theorem copy_fresh : forall ops i h' c,
  noc_copy (run [] ops) i = (h', Ok c) ->
  let h := run [] ops in
  firstn (length h) h' = h
  /\ exists ty l d lo' di',
       view h i = Some (ty, l, d) /\ view h' c = Some (ty, l, d)
       /\ get_inst h c = None /\ get_inst h' c = Some (ty, lo', di')
       /\ (forall j tyj loj dij, get_inst h j = Some (tyj, loj, dij) -> loj <> lo' /\ dij <> di').
Proof.
  intros ops i h' c E h. pose proof (run_inv ops [] hinv_nil) as HI. fold h in HI, E.
  pose proof (noc_copy_spec _ _ _ _ HI E) as (ty & l & d & V & Eh & Ec & HI'). cbn in *.
  split; [rewrite Eh, firstn_app, Nat.sub_diag, firstn_all; cbn; apply app_nil_r|].
  exists ty, l, d, (length h), (S (length h)). split; [exact V|].
  assert (Nc : nth_error h' c = Some (CInst ty (length h) (S (length h)))).
  { rewrite Eh, Ec. rewrite nth_error_app2 by lia.
    match goal with |- nth_error _ ?k = _ => replace k with 2%nat by lia end. reflexivity. }
  split.
  - apply view_nth. exists (length h), (S (length h)). split; [exact Nc|]. rewrite Eh. split.
    + rewrite nth_error_app2, Nat.sub_diag by lia. reflexivity.
    + rewrite nth_error_app2 by lia.
      match goal with |- nth_error _ ?k = _ => replace k with 1%nat by lia end. reflexivity.
  - split; [unfold get_inst; rewrite (proj2 (nth_error_None h c)) by lia; reflexivity|].
    split; [apply get_inst_nth; exact Nc|].
    intros j tyj loj dij G. apply get_inst_nth in G. destruct (proj1 HI _ _ _ _ G) as (l0 & A & B).
    assert (loj < length h)%nat by (apply nth_error_Some; congruence).
    assert (dij < length h)%nat by (apply nth_error_Some; congruence). lia.
Qed.

(* ------------------------------------------------------------------ *)
(* the element type check of add: a collection only ever holds instances of
   (subclasses of) its obj_type *)
Definition typed_heap (h : heap) : Prop :=
  forall i ty lo di l, nth_error h i = Some (CInst ty lo di) -> nth_error h lo = Some (CList l) ->
    Forall (fun o => issub (ocls o) ty = true) l.

Lemma issub_trans : forall a b c, issub a b = true -> issub b c = true -> issub a c = true.
Proof. intros [] [] []; cbn; auto. Qed.

Lemma oc_add_objs_typed : forall h ty x news,
  typed_heap h -> oc_add_objs h ty x = Ok news -> Forall (fun o => issub (ocls o) ty = true) news.
Proof.
  intros h ty [o|s|j] news T E; cbn in E.
  - destruct (issub (ocls o) ty) eqn:I; inversion E. constructor; [exact I | constructor].
  - destruct s as [|o0 t]; [discriminate|].
    destruct (forallb (fun o => issub (ocls o) (ocls o0)) (o0 :: t)) eqn:F; [|discriminate].
    destruct (issub (ocls o0) ty) eqn:I; inversion E; subst news.
    apply Forall_forall. intros o Ho. rewrite forallb_forall in F.
    eapply issub_trans; [apply F; exact Ho | exact I].
  - destruct (get_inst h j) as [[[tyj loj] dij]|] eqn:G; [|discriminate].
    destruct (get_list h loj) as [lj|] eqn:Gl; [|discriminate].
    destruct (issub tyj ty) eqn:I; inversion E; subst news.
    apply get_inst_nth in G. apply get_list_nth in Gl.
    pose proof (T _ _ _ _ _ G Gl) as Tj. apply Forall_forall. intros o Ho.
    rewrite Forall_forall in Tj. eapply issub_trans; [apply Tj; exact Ho | exact I].
Qed.

Lemma typed_alloc3 : forall h ty l d,
  hinv h -> typed_heap h -> Forall (fun o => issub (ocls o) ty = true) l ->
  typed_heap (h ++ [CList l; CDict d; CInst ty (length h) (S (length h))]).
Proof.
  intros h ty l d [W _] T Tl. set (n := length h).
  assert (N : forall k, nth_error (h ++ [CList l; CDict d; CInst ty n (S n)]) k
     = if Nat.eqb k n then Some (CList l)
       else if Nat.eqb k (S n) then Some (CDict d)
       else if Nat.eqb k (S (S n)) then Some (CInst ty n (S n)) else nth_error h k).
  { intros k. change [CList l; CDict d; CInst ty n (S n)] with ([CList l] ++ [CDict d] ++ [CInst ty n (S n)]).
    rewrite !app_assoc. rewrite !nth_error_snoc, !app_length. cbn [length]. fold n.
    replace (n + 1 + 1)%nat with (S (S n)) by lia. replace (n + 1)%nat with (S n) by lia.
    neq_dec k (S (S n)).
    - neq_dec (S (S n)) n; [lia|]. neq_dec (S (S n)) (S n); [lia|]. reflexivity.
    - neq_dec k (S n); [neq_dec (S n) n; [lia|reflexivity]|]. reflexivity. }
  intros k ty' lo' di' l' Ek El. rewrite N in Ek.
  neq_dec k n; [discriminate|]. neq_dec k (S n); [discriminate|]. neq_dec k (S (S n)).
  - inversion Ek; subst. rewrite N, Nat.eqb_refl in El. inversion El; subst. exact Tl.
  - destruct (W _ _ _ _ Ek) as (l0 & A & _).
    assert (lo' < n)%nat by (apply nth_error_Some; congruence).
    rewrite N in El. neq_dec lo' n; [lia|]. neq_dec lo' (S n); [lia|]. neq_dec lo' (S (S n)); [lia|].
    eapply T; eauto.
Qed.

Lemma typed_write : forall h i ty lo di l0 d0 l1 d1,
  hinv h -> typed_heap h -> nth_error h i = Some (CInst ty lo di) ->
  nth_error h lo = Some (CList l0) -> nth_error h di = Some (CDict d0) ->
  Forall (fun o => issub (ocls o) ty = true) l1 ->
  typed_heap (put (put h lo (CList l1)) di (CDict d1)).
Proof.
  intros h i ty lo di l0 d0 l1 d1 [W Sp] T Hi Hlo Hdi Tl.
  assert (N : forall k, nth_error (put (put h lo (CList l1)) di (CDict d1)) k
     = if Nat.eqb k di then Some (CDict d1) else if Nat.eqb k lo then Some (CList l1) else nth_error h k).
  { intros k. unfold put. rewrite !nth_error_set_nth. neq_dec k di.
    - neq_dec di lo; [congruence|]. rewrite Hdi. reflexivity.
    - neq_dec k lo; [rewrite Hlo|]; reflexivity. }
  intros k ty' lo' di' l' Ek El. rewrite N in Ek.
  neq_dec k di; [discriminate|]. neq_dec k lo; [discriminate|].
  rewrite N in El. destruct (Nat.eq_dec k i) as [->|NE].
  - rewrite Hi in Ek. inversion Ek; subst. neq_dec lo' di'; [congruence|].
    rewrite Nat.eqb_refl in El. inversion El; subst. exact Tl.
  - destruct (Sp k i _ _ _ _ _ _ Ek Hi NE) as [X Y]. destruct (W _ _ _ _ Ek) as (l2 & A & _).
    neq_dec lo' di; [congruence|]. neq_dec lo' lo; [congruence|]. eapply T; eauto.
Qed.

Lemma py_pop_forall : forall {A} (P : A -> Prop) (l : list A) i o l',
  py_pop l i = Ok (o, l') -> Forall P l -> Forall P l'.
Proof.
  intros A P l i o l' E F. destruct (py_pop_ok _ _ _ _ E) as (l1 & l2 & El & El' & _). subst.
  apply Forall_app in F. destruct F as [F1 F2]. inversion F2; subst. apply Forall_app. auto.
Qed.

Lemma noc_add_typed : forall h i x h' r,
  hinv h -> typed_heap h -> noc_add h i x = (h', r) -> typed_heap h'.
Proof.
  intros h i x h' [u|e] HI T E.
  - destruct (noc_add_spec _ _ _ _ _ HI E) as (_ & _ & _ & ty & lo & di & l & news & A & B & C & D & _).
    destruct (proj1 HI _ _ _ _ A) as (l0 & B0 & C0). rewrite B in B0; inversion B0; subst l0.
    rewrite D. eapply typed_write; eauto. apply Forall_app. split; [eapply T; eauto|].
    eapply oc_add_objs_typed; eauto.
  - rewrite (add_failure_atomic _ _ _ _ _ E). exact T.
Qed.

Lemma add_each_typed : forall s h c h' r,
  hinv h -> typed_heap h -> add_each h c s = (h', r) -> typed_heap h'.
Proof.
  induction s as [|o t IH]; intros h c h' r HI T E; cbn in E; [inversion E; subst; exact T|].
  destruct (noc_add h c (OpObj o)) as [h1 [u|e]] eqn:Ea.
  - eapply IH; [| |exact E]; [eapply noc_add_spec; eauto | eapply noc_add_typed; eauto].
  - inversion E; subst. eapply noc_add_typed; eauto.
Qed.

Lemma noc_new_typed : forall h ty, hinv h -> typed_heap h -> typed_heap (fst (noc_new h ty)).
Proof.
  intros h ty HI T. unfold noc_new, alloc. cbn. rewrite !app_length. cbn [length].
  rewrite <- !app_assoc. cbn [app].
  replace (length h + 1)%nat with (S (length h)) by lia.
  apply typed_alloc3; auto.
Qed.

Lemma step_typed : forall h o, hinv h -> typed_heap h -> typed_heap (fst (step h o)).
Proof.
  intros h [ty|ty s|i x|i k|i x] HI T; cbn [step].
  - pose proof (noc_new_typed h ty HI T) as X. destruct (noc_new h ty) as [h' c]. exact X.
  - unfold noc_new_from. pose proof (noc_new_typed h ty HI T) as X.
    destruct (noc_new h ty) as [h1 c] eqn:En. cbn [fst] in X.
    pose proof (noc_new_spec _ _ _ _ HI En) as (HI1 & _).
    destruct (add_each h1 c s) as [h2 [u|e]] eqn:Ea; cbn; eapply add_each_typed; eauto.
  - destruct (noc_add h i x) as [h' [u|e]] eqn:E; cbn; eapply noc_add_typed; eauto.
  - destruct (noc_pop h i k) as [h' [o|e]] eqn:E; cbn; [|rewrite (pop_failure_atomic _ _ _ _ _ E); exact T].
    unfold noc_pop in E.
    destruct (get_inst h i) as [[[ty lo] di]|] eqn:Ei; [|discriminate].
    destruct (get_list h lo) as [l|] eqn:El; [|discriminate].
    destruct (get_dict h di) as [d|] eqn:Ed; [|discriminate].
    match type of E with (match ?ixe with _ => _ end) = _ => destruct ixe as [ix|e'] end; [|discriminate].
    destruct (py_pop l ix) as [[o' l']|e'] eqn:Ep; [|discriminate].
    unfold alloc, put in E. rewrite length_set_nth in E. inversion E; subst h' o'. clear E.
    apply get_inst_nth in Ei. apply get_list_nth in El. apply get_dict_nth in Ed.
    destruct HI as [W Sp]. set (n := length h).
    assert (B : forall a c, nth_error h a = Some c -> (a < n)%nat)
      by (intros a c X; apply nth_error_Some; congruence).
    pose proof (B _ _ Ei). pose proof (B _ _ El).
    set (dn := create_idx l' cidx_start_default).
    assert (N : forall a, nth_error (set_nth (set_nth h lo (CList l') ++ [CDict dn]) i (CInst ty lo n)) a
       = if Nat.eqb a i then Some (CInst ty lo n)
         else if Nat.eqb a n then Some (CDict dn)
         else if Nat.eqb a lo then Some (CList l') else nth_error h a).
    { intros a. rewrite nth_error_set_nth, !nth_error_snoc, length_set_nth, !nth_error_set_nth. fold n.
      neq_dec a i.
      - neq_dec i n; [lia|]. neq_dec i lo; [congruence|]. rewrite Ei. reflexivity.
      - neq_dec a n; [reflexivity|]. neq_dec a lo; [rewrite El|]; reflexivity. }
    intros a ty' lo' di' l2 Ea El2. rewrite N in Ea. rewrite N in El2. neq_dec a i.
    + inversion Ea; subst. neq_dec lo' i; [congruence|]. neq_dec lo' n; [lia|].
      rewrite Nat.eqb_refl in El2. inversion El2; subst.
      eapply py_pop_forall; [exact Ep | eapply T; eauto].
    + neq_dec a n; [discriminate|]. neq_dec a lo; [discriminate|].
      destruct (Sp a i _ _ _ _ _ _ Ea Ei ltac:(assumption)) as [X Y].
      destruct (W _ _ _ _ Ea) as (l3 & A3 & _). pose proof (B _ _ A3).
      neq_dec lo' i; [congruence|]. neq_dec lo' n; [lia|]. neq_dec lo' lo; [congruence|]. eapply T; eauto.
  - unfold noc_plus. destruct (noc_copy h i) as [h1 [c|e]] eqn:Ec.
    + pose proof (noc_copy_spec _ _ _ _ HI Ec) as (ty & l & d & V & Eh1 & Ecc & HI1). cbn in *.
      assert (T1 : typed_heap h1).
      { rewrite Eh1. apply typed_alloc3; auto. apply view_nth in V. destruct V as (lo & di & A & B & _).
        eapply T; eauto. }
      destruct (noc_add h1 c x) as [h2 [u|e]] eqn:Ea; cbn.
      * destruct (noc_add_spec _ _ _ _ _ HI1 Ea) as (_ & _ & _ & ty2 & lo & di & l2 & news & A & B & C & D & _).
        destruct (proj1 HI1 _ _ _ _ A) as (l0 & B0 & C0). rewrite B in B0; inversion B0; subst l0.
        rewrite D. eapply typed_write; eauto. apply Forall_app. split; [eapply T1; eauto|].
        eapply oc_add_objs_typed; eauto.
      * rewrite (add_failure_atomic _ _ _ _ _ Ea). exact T1.
    + pose proof (noc_copy_spec _ _ _ _ HI Ec) as X. cbn in X. subst h1. cbn. exact T.
Qed.

Theorem typed_all_histories : forall ops i ty l d,
  view (run [] ops) i = Some (ty, l, d) -> Forall (fun o => issub (ocls o) ty = true) l.
Proof.
  intros ops i ty l d V.
  assert (G : forall ops h, hinv h -> typed_heap h -> typed_heap (run h ops)).
  { induction ops0 as [|o t IH]; intros h HI T; [exact T|]. cbn. apply IH; [apply step_inv | apply step_typed]; assumption. }
  assert (T0 : typed_heap []) by (intros k; intros; destruct k; discriminate).
  apply view_nth in V. destruct V as (lo & di & A & B & _).
  eapply (G ops [] hinv_nil T0); eauto.
Qed.

(* the constructor with initial objects, after any history *)
Theorem new_from_all_histories : forall ops ty s h' r,
  noc_new_from (run [] ops) ty s = (h', r) ->
  let h := run [] ops in
  firstn (length h) h' = h
  /\ match r with
     | Err _ => True
     | Ok c => get_inst h c = None
               /\ view h' c = Some (ty, s, od_of (enum_names 0 s))
               /\ Forall (fun o => issub (ocls o) ty = true) s
     end.
Proof.
  intros ops ty s h' r E h. pose proof (run_inv ops [] hinv_nil) as HI. fold h in HI, E.
  destruct (noc_new_from_spec _ _ _ _ _ HI E) as (_ & P & R). split; [exact P|].
  destruct r as [c|e]; [|exact I]. tauto.
Qed.

(* the constructor succeeds exactly when every given object passes the type check *)
Lemma noc_add_obj_cases : forall h c o ty l d h' r,
  hinv h -> view h c = Some (ty, l, d) -> noc_add h c (OpObj o) = (h', r) ->
  (issub (ocls o) ty = true /\ r = Ok tt) \/ (issub (ocls o) ty = false /\ r = Err TypeError /\ h' = h).
Proof.
  intros h c o ty l d h' r HI V E. unfold noc_add in E. unfold view in V.
  destruct (get_inst h c) as [[[ty0 lo] di]|]; [|discriminate].
  destruct (get_list h lo) as [l0|]; [|discriminate]. destruct (get_dict h di) as [d0|]; [|discriminate].
  inversion V; subst ty0 l0 d0. cbn in E. destruct (issub (ocls o) ty) eqn:I.
  - inversion E; subst. left; auto.
  - inversion E; subst. right; auto.
Qed.

Lemma add_each_decides : forall s h c ty l d h' r,
  hinv h -> view h c = Some (ty, l, d) -> add_each h c s = (h', r) ->
  (Forall (fun o => issub (ocls o) ty = true) s -> r = Ok tt)
  /\ (forall e, r = Err e -> e = TypeError /\ ~ Forall (fun o => issub (ocls o) ty = true) s).
Proof.
  induction s as [|o t IH]; intros h c ty l d h' r HI V E; cbn in E.
  - inversion E; subst. split; [reflexivity | intros e X; discriminate].
  - destruct (noc_add h c (OpObj o)) as [h1 r1] eqn:Ea.
    destruct (noc_add_obj_cases _ _ _ _ _ _ _ _ HI V Ea) as [[I R]|[I [R Hh]]]; subst r1.
    + destruct (noc_add_spec _ _ _ _ _ HI Ea) as (HI1 & _ & _ & ty2 & lo & di & l2 & news & A & B & C & D & V1).
      assert (ty2 = ty).
      { apply view_nth in V. destruct V as (lo0 & di0 & A0 & _). rewrite A in A0. inversion A0; reflexivity. }
      subst ty2. destruct (IH _ _ _ _ _ _ _ HI1 V1 E) as [P1 P2]. split.
      * intros F. inversion F; subst. apply P1; assumption.
      * intros e X. destruct (P2 e X) as [Q1 Q2]. split; [exact Q1|]. intros F. inversion F; subst. apply Q2; assumption.
    + inversion E; subst. split.
      * intros F. inversion F; subst. congruence.
      * intros e X. inversion X; subst. split; [reflexivity|]. intros F. inversion F; subst. congruence.
Qed.

Theorem new_from_decides : forall ops ty s h' r,
  noc_new_from (run [] ops) ty s = (h', r) ->
  (Forall (fun o => issub (ocls o) ty = true) s -> exists c, r = Ok c)
  /\ (forall e, r = Err e -> e = TypeError /\ ~ Forall (fun o => issub (ocls o) ty = true) s).
Proof.
  intros ops ty s h' r E. pose proof (run_inv ops [] hinv_nil) as HI.
  unfold noc_new_from in E. destruct (noc_new (run [] ops) ty) as [h1 c] eqn:En.
  destruct (noc_new_spec _ _ _ _ HI En) as (HI1 & _ & _ & V1).
  destruct (add_each h1 c s) as [h2 r2] eqn:Ea.
  destruct (add_each_decides _ _ _ _ _ _ _ _ HI1 V1 Ea) as [P1 P2].
  destruct r2 as [u|e2]; inversion E; subst.
  - split; [intros _; exists c; reflexivity | intros e X; discriminate].
  - split; [intros F; specialize (P1 F); discriminate | intros e X; inversion X; subst; apply P2; reflexivity].
Qed.

(* ------------------------------------------------------------------ *)
(* Extension: ModelCollection.cast *)
Lemma K_cast_is_model : forall b, cast_is_model b = b. Proof. reflexivity. Qed.
Lemma K_cast_is_collection : forall b, cast_is_collection b = b. Proof. reflexivity. Qed.
Lemma K_cast_is_seq_of_models : forall b, cast_is_seq_of_models b = b. Proof. reflexivity. Qed.
Lemma K_cast_n_returns : cast_n_returns = 4. Proof. reflexivity. Qed.

(* casting a collection returns that very collection and touches nothing *)
Theorem cast_identity : forall h j ty lo di,
  get_inst h j = Some (ty, lo, di) -> mc_cast h (CColl j) = (h, Ok j).
Proof. intros h j ty lo di G. unfold mc_cast. rewrite G, K_cast_is_collection. reflexivity. Qed.

Theorem cast_all_histories : forall ops a h' r,
  mc_cast (run [] ops) a = (h', r) ->
  let h := run [] ops in
  firstn (length h) h' = h
  /\ match r with
     | Ok c =>
         match a with
         | CColl j => c = j /\ h' = h /\ get_inst h j <> None
         | _ => get_inst h c = None
                /\ view h' c = Some (CBase, cast_objs a, od_of (enum_names 0 (cast_objs a)))
                /\ Forall (fun o => issub (ocls o) CBase = true) (cast_objs a)
         end
     | Err e => e = TypeError /\ h' = h
                /\ match a with
                   | CNone => False
                   | CObj o => issub (ocls o) CBase = false
                   | CColl j => get_inst h j = None
                   | CSeq s => ~ Forall (fun o => issub (ocls o) CBase = true) s
                   | COther => True
                   end
     end.
Proof.
  intros ops a h' r E h. fold h in E.
  assert (NF : forall s, forallb (fun o => issub (ocls o) CBase) s = true -> forall h2 r2,
            noc_new_from h CBase s = (h2, r2) ->
            firstn (length h) h2 = h /\ exists c, r2 = Ok c /\ get_inst h c = None
              /\ view h2 c = Some (CBase, s, od_of (enum_names 0 s))
              /\ Forall (fun o => issub (ocls o) CBase = true) s).
  { intros s F h2 r2 E2. destruct (new_from_all_histories ops CBase s h2 r2 E2) as [P R].
    destruct (new_from_decides ops CBase s h2 r2 E2) as [D _].
    assert (Fa : Forall (fun o => issub (ocls o) CBase = true) s).
    { apply Forall_forall. intros o Ho. rewrite forallb_forall in F. apply F; exact Ho. }
    destruct (D Fa) as [c Ec]. subst r2. split; [exact P|]. exists c. split; [reflexivity|]. tauto. }
  assert (AllF : forall h0 : heap, firstn (length h0) h0 = h0) by (intros; apply firstn_all).
  destruct a as [|o|j|s|]; unfold mc_cast in E.
  - destruct (NF [] eq_refl _ _ E) as (P & c & -> & A). split; [exact P | exact A].
  - rewrite K_cast_is_model in E. destruct (issub (ocls o) CBase) eqn:I.
    + assert (F : forallb (fun o0 => issub (ocls o0) CBase) [o] = true) by (cbn; rewrite I; reflexivity).
      destruct (NF [o] F _ _ E) as (P & c & -> & A). split; [exact P | exact A].
    + inversion E; subst. split; [apply AllF|]. auto.
  - rewrite K_cast_is_collection in E. destruct (get_inst h j) eqn:G; inversion E; subst.
    + split; [apply AllF|]. repeat split. congruence.
    + split; [apply AllF|]. auto.
  - rewrite K_cast_is_seq_of_models in E.
    destruct (forallb (fun o => issub (ocls o) CBase) s) eqn:F.
    + destruct (NF s F _ _ E) as (P & c & -> & A). split; [exact P | exact A].
    + inversion E; subst. split; [apply AllF|]. split; [reflexivity|]. split; [reflexivity|].
      intros Fa. rewrite Forall_forall in Fa.
      assert (forallb (fun o => issub (ocls o) CBase) s = true) by (apply forallb_forall; exact Fa). congruence.
  - inversion E; subst. split; [apply AllF|]. auto.
Qed.
