(* C15, grid part.  (1) Structural theorems for EVERY number system: each
   rounded value and each stored grid point is the one expression Gp applied to
   the index the function computed, so bit-identical membership reduces to
   equality of indices.  (2) Theorems at RNum (exact arithmetic): bracket,
   half-spacing, fixed points, grid construction and extension.  (3) Irregular
   grids. *)
From Coq Require Import Reals ZArith List Bool Lra Lia.
From Sky Require Import Result PyList Num NumR G_grid M_Grid.
Import ListNotations.
Open Scope R_scope.

(* ================================================================== *)
(* characterising lemmas of the regenerated kernels, all number systems *)
Section Kernels.
  Context {T : Type} (N : Num T).

  Lemma K_pg_floatD_raw v lb d : pg_floatD_raw N v lb d = ndiv N (nsub N v lb) d.
  Proof. reflexivity. Qed.
  Lemma K_pg_floatD_round f : pg_floatD_round N f = around N 9 f.
  Proof. reflexivity. Qed.
  Lemma K_pg_intD t : pg_intD N t = t.
  Proof. reflexivity. Qed.
  Lemma K_pg_lower_gp lb i d : pg_lower_gp N lb i d = nadd N lb (nmul N i d).
  Proof. reflexivity. Qed.
  Lemma K_pg_upper_gp lb i d : pg_upper_gp N lb i d = nadd N lb (nmul N (nadd N i (ofZ N 1)) d).
  Proof. reflexivity. Qed.
  Lemma K_pg_nearest_gp lb f i d :
    pg_nearest_gp N lb f i d = nadd N lb (nmul N (nadd N (around N 0 (nfmod N f (ofZ N 1))) i) d).
  Proof. reflexivity. Qed.
  Lemma K_pg_lower_round x d : pg_lower_round N x d = around N d x.
  Proof. reflexivity. Qed.
  Lemma K_pg_upper_round x d : pg_upper_round N x d = around N d x.
  Proof. reflexivity. Qed.
  Lemma K_pg_nearest_round x d : pg_nearest_round N x d = around N d x.
  Proof. reflexivity. Qed.
  Lemma K_pg_delta_round x d : pg_delta_round N x d = around N d x.
  Proof. reflexivity. Qed.
  Lemma K_pg_lb_round x d : pg_lb_round N x d = around N d x.
  Proof. reflexivity. Qed.
  Lemma K_pg_lb_index : pg_lb_index = 0%Z.
  Proof. reflexivity. Qed.
  Lemma K_pg_grid_set x : pg_grid_set N x = x.
  Proof. reflexivity. Qed.
  Lemma K_pg_extra_lo f d : pg_extra_lo N f d = nsub N f d.
  Proof. reflexivity. Qed.
  Lemma K_pg_extra_hi l d : pg_extra_hi N l d = nadd N l d.
  Proof. reflexivity. Qed.
  Lemma K_pg_extra_lb x : pg_extra_lb N x = x.
  Proof. reflexivity. Qed.
  Lemma K_ig_middle hi lo : ig_middle N hi lo = ndiv N (nadd N hi lo) (ofZ N 2).
  Proof. reflexivity. Qed.
  Lemma K_ig_nearest_idx s : ig_nearest_idx s = s.
  Proof. reflexivity. Qed.
  Lemma K_ig_lower_idx s : ig_lower_idx s = (s - 1)%Z.
  Proof. reflexivity. Qed.
  Lemma K_ig_upper_idx s : ig_upper_idx s = s.
  Proof. reflexivity. Qed.
  Lemma K_ig_gp i x : ig_nearest_gp N i x = x /\ ig_lower_gp N i x = x /\ ig_upper_gp N i x = x
                      /\ ig_nearest_gp_idx0 N i = i /\ ig_lower_gp_idx0 N i = i /\ ig_upper_gp_idx0 N i = i.
  Proof. repeat split. Qed.
  Lemma K_ig_extra_lo g0 g1 : ig_extra_lo N g0 g1 = nsub N g0 (nsub N g1 g0).
  Proof. reflexivity. Qed.
  Lemma K_ig_extra_hi gl gl1 : ig_extra_hi N gl gl1 = nadd N gl (nsub N gl gl1).
  Proof. reflexivity. Qed.
End Kernels.

(* ================================================================== *)
(* (1) structure: every number system *)
Section Struct.
  Context {T : Type} (N : Num T).

  Theorem round_lower_is_Gp g v : round_lower N g v = Gp N g (k_lower N g v).
  Proof. unfold round_lower. rewrite K_pg_lower_round, K_pg_lower_gp. reflexivity. Qed.
  Theorem round_upper_is_Gp g v : round_upper N g v = Gp N g (k_upper N g v).
  Proof. unfold round_upper. rewrite K_pg_upper_round, K_pg_upper_gp. reflexivity. Qed.
  Theorem round_nearest_is_Gp g v : round_nearest N g v = Gp N g (k_nearest N g v).
  Proof. unfold round_nearest. rewrite K_pg_nearest_round, K_pg_nearest_gp. reflexivity. Qed.

  Lemma map_round_nearest g l :
    map (fun v => pg_grid_set N (round_nearest N g v)) l = map (Gp N g) (map (k_nearest N g) l).
  Proof. rewrite map_map. apply map_ext. intros v. rewrite K_pg_grid_set. apply round_nearest_is_Gp. Qed.

  Theorem pg_make_grid_is_map_Gp d0 dec arr p :
    pg_make N d0 dec arr = Ok p ->
    pg_grid p = map (Gp N (pg_desc p)) (map (k_nearest N (pg_desc p)) arr)
    /\ g_dec (pg_desc p) = dec /\ (dec <= 16)%Z.
  Proof.
    unfold pg_make. destruct (16 <? dec)%Z eqn:Hd; [discriminate|].
    destruct (py_get arr pg_lb_index) as [g0|e]; cbn [bind]; [|discriminate].
    intros H. injection H as <-.
    split; [apply map_round_nearest|]. split; [reflexivity|apply Z.ltb_ge in Hd; exact Hd].
  Qed.

  Definition ext_desc (p : pgrid (T := T)) (first : T) : gdesc :=
    {| g_lb := pg_extra_lb N (pg_extra_lo N first (g_delta (pg_desc p)));
       g_delta := g_delta (pg_desc p); g_dec := g_dec (pg_desc p) |}.
  Definition ext_newgrid (p : pgrid (T := T)) (first : T) : list T :=
    pg_extra_lo N first (g_delta (pg_desc p)) :: pg_grid p
      ++ [pg_extra_hi N (last (pg_grid p) first) (g_delta (pg_desc p))].
  Lemma pg_extend_eq p first rest : pg_grid p = first :: rest ->
    pg_extend N p = Ok {| pg_desc := ext_desc p first;
                          pg_grid := map (fun v => pg_grid_set N (round_nearest N (ext_desc p first) v))
                                         (ext_newgrid p first) |}.
  Proof. intros E. unfold pg_extend, ext_newgrid. rewrite E. reflexivity. Qed.

  Theorem pg_extend_grid_is_map_Gp p q :
    pg_extend N p = Ok q ->
    exists newgrid, pg_grid q = map (Gp N (pg_desc q)) (map (k_nearest N (pg_desc q)) newgrid)
                    /\ length newgrid = S (S (length (pg_grid p))).
  Proof.
    destruct (pg_grid p) as [|first rest] eqn:Hg; [unfold pg_extend; rewrite Hg; discriminate|].
    rewrite (pg_extend_eq p first rest Hg). intros H.
    assert (E : q = {| pg_desc := ext_desc p first;
                       pg_grid := map (fun v => pg_grid_set N (round_nearest N (ext_desc p first) v))
                                      (ext_newgrid p first) |}) by congruence.
    subst q. exists (ext_newgrid p first). split; [apply map_round_nearest|].
    unfold ext_newgrid. rewrite Hg. cbn [length]. rewrite app_length. cbn [length]. lia.
  Qed.

  (* membership is equality of indices: if the index a rounding function
     computed is the index of some stored point, the result IS that stored
     point (same expression, hence bit-identical in any number system) *)
  Theorem member_of_grid d0 dec arr p k :
    pg_make N d0 dec arr = Ok p ->
    In k (map (k_nearest N (pg_desc p)) arr) ->
    In (Gp N (pg_desc p) k) (pg_grid p).
  Proof.
    intros H Hin. destruct (pg_make_grid_is_map_Gp _ _ _ _ H) as [Hg _]. rewrite Hg.
    apply in_map. exact Hin.
  Qed.

  Corollary round_lower_member d0 dec arr p v :
    pg_make N d0 dec arr = Ok p ->
    In (k_lower N (pg_desc p) v) (map (k_nearest N (pg_desc p)) arr) ->
    In (round_lower N (pg_desc p) v) (pg_grid p).
  Proof. intros H Hin. rewrite round_lower_is_Gp. eapply member_of_grid; eauto. Qed.
  Corollary round_upper_member d0 dec arr p v :
    pg_make N d0 dec arr = Ok p ->
    In (k_upper N (pg_desc p) v) (map (k_nearest N (pg_desc p)) arr) ->
    In (round_upper N (pg_desc p) v) (pg_grid p).
  Proof. intros H Hin. rewrite round_upper_is_Gp. eapply member_of_grid; eauto. Qed.
  Corollary round_nearest_member d0 dec arr p v :
    pg_make N d0 dec arr = Ok p ->
    In (k_nearest N (pg_desc p) v) (map (k_nearest N (pg_desc p)) arr) ->
    In (round_nearest N (pg_desc p) v) (pg_grid p).
  Proof. intros H Hin. rewrite round_nearest_is_Gp. eapply member_of_grid; eauto. Qed.

  (* irregular grid: a result is a stored member, whatever the number system *)
  Lemma py_get_In {A} (l : list A) i x : py_get l i = Ok x -> In x l.
  Proof.
    unfold py_get. destruct (_ || _); [discriminate|].
    destruct (nth_error l _) eqn:E; [|discriminate]. intros H; inversion H; subst.
    eapply nth_error_In; eauto.
  Qed.
  Theorem irr_results_are_members grid v x :
    irr_nearest N grid v = Ok x \/ irr_lower N grid v = Ok x \/ irr_upper N grid v = Ok x -> In x grid.
  Proof.
    unfold irr_nearest, irr_lower, irr_upper.
    intros [H|[H|H]];
      match type of H with (bind ?r _) = _ => destruct r as [y|e] eqn:E; cbn [bind] in H; [|discriminate] end;
      inversion H; subst; apply py_get_In in E; exact E.
  Qed.
End Struct.

(* ================================================================== *)
(* (2) exact arithmetic *)
Lemma Int_part_spec r z : IZR z <= r < IZR z + 1 -> Int_part r = z.
Proof.
  intros [H1 H2]. unfold Int_part.
  assert (E : (z + 1)%Z = up r) by (apply up_tech; [exact H1|rewrite plus_IZR; lra]). lia.
Qed.
Lemma Int_part_bounds r : IZR (Int_part r) <= r < IZR (Int_part r) + 1.
Proof. destruct (base_Int_part r). lra. Qed.
Lemma Int_part_IZR z : Int_part (IZR z) = z.
Proof. apply Int_part_spec. lra. Qed.

Lemma Rrint_Z x : exists z, Rrint x = IZR z /\ Rabs (IZR z - x) <= 1/2.
Proof.
  unfold Rrint. pose proof (Int_part_bounds x) as B. set (f := Int_part x) in *.
  destruct (Rlt_dec (x - IZR f) (1/2)).
  - exists f. split; [reflexivity|]. apply Rabs_le. lra.
  - destruct (Rlt_dec (1/2) (x - IZR f)).
    + exists (f + 1)%Z. split; [reflexivity|]. rewrite plus_IZR. apply Rabs_le. lra.
    + destruct (Z.even f).
      * exists f. split; [reflexivity|]. apply Rabs_le. lra.
      * exists (f + 1)%Z. split; [reflexivity|]. rewrite plus_IZR. apply Rabs_le. lra.
Qed.
Lemma Rrint_IZR z : Rrint (IZR z) = IZR z.
Proof.
  unfold Rrint. rewrite Int_part_IZR. destruct (Rlt_dec (IZR z - IZR z) (1/2)); [reflexivity|lra].
Qed.
Lemma Rfloor_IZR z : Rfloor (IZR z) = IZR z.
Proof. unfold Rfloor. rewrite Int_part_IZR. reflexivity. Qed.
Lemma Rtrunc_IZR z : Rtrunc (IZR z) = IZR z.
Proof.
  unfold Rtrunc, Rceil. destruct (Rle_dec 0 (IZR z)); [apply Rfloor_IZR|].
  replace (- IZR z) with (IZR (- z)) by (rewrite opp_IZR; reflexivity).
  rewrite Int_part_IZR, opp_IZR. lra.
Qed.

Lemma Rabs_le_inv x y : Rabs x <= y -> - y <= x <= y.
Proof. unfold Rabs. destruct (Rcase_abs x); lra. Qed.

Lemma pow10_pos d : (0 <= d)%Z -> 0 < IZR (10 ^ d).
Proof. intros H. apply IZR_lt. apply Z.pow_pos_nonneg; lia. Qed.

Section Exact.
  Variable erfR : R -> R.
  Notation RN := (RNum erfR).

  Lemma around_R d x : around RN d x = Rrint (x * IZR (10 ^ d)) / IZR (10 ^ d).
  Proof. unfold around. num_R. reflexivity. Qed.

  Lemma around_decimal d k : (0 <= d)%Z -> around RN d (IZR k / IZR (10 ^ d)) = IZR k / IZR (10 ^ d).
  Proof.
    intros Hd. rewrite around_R. pose proof (pow10_pos d Hd) as P.
    replace (IZR k / IZR (10 ^ d) * IZR (10 ^ d)) with (IZR k) by (field; lra).
    rewrite Rrint_IZR. reflexivity.
  Qed.

  Lemma around_err d x : (0 <= d)%Z -> Rabs (around RN d x - x) <= (1/2) / IZR (10 ^ d).
  Proof.
    intros Hd. rewrite around_R. pose proof (pow10_pos d Hd) as P.
    destruct (Rrint_Z (x * IZR (10 ^ d))) as [z [E B]]. rewrite E.
    replace (IZR z / IZR (10 ^ d) - x) with ((IZR z - x * IZR (10 ^ d)) / IZR (10 ^ d)) by (field; lra).
    unfold Rdiv. rewrite Rabs_mult, (Rabs_right (/ _)).
    - apply Rmult_le_compat_r; [left; apply Rinv_0_lt_compat; exact P|exact B].
    - left. apply Rinv_0_lt_compat. exact P.
  Qed.

  Lemma around_is_decimal d x : exists z, around RN d x = IZR z / IZR (10 ^ d).
  Proof. rewrite around_R. destruct (Rrint_Z (x * IZR (10 ^ d))) as [z [E _]]. exists z. rewrite E. reflexivity. Qed.

  (* a grid in exact arithmetic: origin a/10^d, spacing b/10^d > 0 *)
  Definition dgrid (a b d : Z) : gdesc :=
    {| g_lb := IZR a / IZR (10 ^ d); g_delta := IZR b / IZR (10 ^ d); g_dec := d |}.

  Lemma Gp_exact a b d n : (0 <= d)%Z ->
    Gp RN (dgrid a b d) (IZR n) = g_lb (dgrid a b d) + IZR n * g_delta (dgrid a b d).
  Proof.
    intros Hd. unfold Gp. cbn [g_lb g_delta g_dec dgrid]. num_R. pose proof (pow10_pos d Hd) as P.
    replace (IZR a / IZR (10 ^ d) + IZR n * (IZR b / IZR (10 ^ d))) with (IZR (a + n * b) / IZR (10 ^ d))
      by (rewrite plus_IZR, mult_IZR; field; lra).
    apply around_decimal. exact Hd.
  Qed.

  Lemma floatD_R g v : floatD RN g v = around RN 9 ((v - g_lb g) / g_delta g).
  Proof. unfold floatD. rewrite K_pg_floatD_round, K_pg_floatD_raw. reflexivity. Qed.

  Lemma intD_R g v : intD RN g v = Rtrunc (floatD RN g v).
  Proof. unfold intD. rewrite K_pg_intD. num_R. lra. Qed.

  (* floatD is a multiple of 1e-9 within 5e-10 of the true coordinate *)
  Lemma floatD_props g v :
    exists K : Z, floatD RN g v = IZR K / 1000000000
                  /\ Rabs (floatD RN g v - (v - g_lb g) / g_delta g) <= 5 / 10000000000.
  Proof.
    rewrite floatD_R. destruct (around_is_decimal 9 ((v - g_lb g) / g_delta g)) as [K E].
    exists K. split.
    - rewrite E. change (10 ^ 9)%Z with 1000000000%Z. reflexivity.
    - pose proof (around_err 9 ((v - g_lb g) / g_delta g) ltac:(lia)) as B.
      change (10 ^ 9)%Z with 1000000000%Z in B. lra.
  Qed.

  (* the index computed for a value at or above the origin *)
  Lemma intD_bracket g v : 0 < g_delta g -> g_lb g <= v ->
    exists n : Z, (0 <= n)%Z /\ intD RN g v = IZR n /\
      IZR n <= floatD RN g v <= IZR n + 1 - 1 / 1000000000.
  Proof.
    intros Hdel Hv. destruct (floatD_props g v) as [K [EK BK]].
    set (x := (v - g_lb g) / g_delta g) in *.
    assert (Hx : 0 <= x). { unfold x. apply Rmult_le_pos; [lra|left; apply Rinv_0_lt_compat; exact Hdel]. }
    assert (HK : (0 <= K)%Z).
    { apply Rabs_le_inv in BK. rewrite EK in BK.
      assert (-1 < IZR K) by lra. apply lt_IZR in H. lia. }
    rewrite intD_R, EK. unfold Rtrunc.
    assert (P : 0 <= IZR K / 1000000000).
    { apply Rmult_le_pos; [apply IZR_le; exact HK|lra]. }
    destruct (Rle_dec 0 (IZR K / 1000000000)); [|contradiction].
    unfold Rfloor. set (n := (K / 1000000000)%Z).
    assert (Hn : Int_part (IZR K / 1000000000) = n).
    { apply Int_part_spec. unfold n.
      pose proof (Z.div_mod K 1000000000 ltac:(lia)) as DM.
      pose proof (Z.mod_pos_bound K 1000000000 ltac:(lia)) as MB.
      set (q := (K / 1000000000)%Z) in *. set (m := (K mod 1000000000)%Z) in *.
      rewrite DM, plus_IZR, mult_IZR.
      assert (0 <= IZR m < 1000000000) by (split; [apply IZR_le; lia|apply IZR_lt; lia]). lra. }
    rewrite Hn. exists n. split; [unfold n; apply Z.div_pos; lia|]. split; [reflexivity|].
    unfold n. pose proof (Z.div_mod K 1000000000 ltac:(lia)) as DM.
    pose proof (Z.mod_pos_bound K 1000000000 ltac:(lia)) as MB.
    set (q := (K / 1000000000)%Z) in *. set (m := (K mod 1000000000)%Z) in *.
    assert (EK2 : IZR K = 1000000000 * IZR q + IZR m)
      by (rewrite DM at 1; rewrite plus_IZR, mult_IZR; reflexivity).
    rewrite EK2.
    assert (0 <= IZR m <= 999999999) by (split; apply IZR_le; lia). lra.
  Qed.

  (* T: lower <= v < upper = lower + spacing, up to the code's own 9-decimal
     resolution of the grid coordinate; both are G n for an integer n *)
  Theorem regular_bracket a b d v : (0 <= d)%Z -> (0 < b)%Z ->
    let g := dgrid a b d in
    g_lb g <= v ->
    exists n : Z, (0 <= n)%Z /\
      round_lower RN g v = g_lb g + IZR n * g_delta g /\
      round_upper RN g v = g_lb g + IZR (n + 1) * g_delta g /\
      round_upper RN g v = round_lower RN g v + g_delta g /\
      round_lower RN g v - 5 / 10000000000 * g_delta g <= v /\
      v <= round_upper RN g v - 5 / 10000000000 * g_delta g /\
      v < round_upper RN g v.
  Proof.
    intros Hd Hb g Hv.
    assert (Hdel : 0 < g_delta g).
    { cbn. apply Rmult_lt_0_compat; [apply IZR_lt; exact Hb|apply Rinv_0_lt_compat, pow10_pos, Hd]. }
    destruct (intD_bracket g v Hdel Hv) as [n [Hn0 [En Bn]]].
    destruct (floatD_props g v) as [K [_ BK]]. apply Rabs_le_inv in BK.
    exists n. split; [exact Hn0|].
    assert (EL : round_lower RN g v = g_lb g + IZR n * g_delta g).
    { rewrite round_lower_is_Gp. unfold k_lower. rewrite En. apply Gp_exact. exact Hd. }
    assert (EU : round_upper RN g v = g_lb g + IZR (n + 1) * g_delta g).
    { rewrite round_upper_is_Gp. unfold k_upper. rewrite En. num_R.
      replace (IZR n + 1) with (IZR (n + 1)) by (rewrite plus_IZR; reflexivity). apply Gp_exact. exact Hd. }
    split; [exact EL|]. split; [exact EU|]. rewrite EL, EU, plus_IZR.
    set (x := (v - g_lb g) / g_delta g) in *.
    assert (Ev : v = g_lb g + x * g_delta g) by (unfold x; field; lra).
    split; [ring|].
    assert (A1 : (IZR n - 5 / 10000000000) * g_delta g <= x * g_delta g)
      by (apply Rmult_le_compat_r; lra).
    assert (A2 : x * g_delta g <= (IZR n + 1 - 5 / 10000000000) * g_delta g)
      by (apply Rmult_le_compat_r; lra).
    split; [lra|]. split; [lra|].
    assert (0 < 5 / 10000000000 * g_delta g) by (apply Rmult_lt_0_compat; lra). lra.
  Qed.

  (* T: the nearest grid point is G m and at most half a spacing (plus the
     9-decimal resolution) away *)
  Theorem regular_nearest a b d v : (0 <= d)%Z -> (0 < b)%Z ->
    let g := dgrid a b d in
    g_lb g <= v ->
    exists m : Z, (0 <= m)%Z /\
      round_nearest RN g v = g_lb g + IZR m * g_delta g /\
      Rabs (round_nearest RN g v - v) <= g_delta g / 2 + 5 / 10000000000 * g_delta g.
  Proof.
    intros Hd Hb g Hv.
    assert (Hdel : 0 < g_delta g).
    { cbn. apply Rmult_lt_0_compat; [apply IZR_lt; exact Hb|apply Rinv_0_lt_compat, pow10_pos, Hd]. }
    destruct (intD_bracket g v Hdel Hv) as [n [Hn0 [En Bn]]].
    destruct (floatD_props g v) as [K [_ BK]]. apply Rabs_le_inv in BK.
    set (f := floatD RN g v) in *.
    (* fmod f 1 = f - n *)
    assert (Er : nfmod RN f (ofZ RN 1) = f - IZR n).
    { num_R. unfold Rfmod, Rfloor. replace (f / 1) with f by field.
      rewrite (Int_part_spec f n) by lra. ring. }
    destruct (Rrint_Z ((f - IZR n) * IZR (10 ^ 0))) as [j [Ej Bj]].
    assert (Ea : around RN 0 (nfmod RN f (ofZ RN 1)) = IZR j).
    { rewrite Er, around_R, Ej. change (10 ^ 0)%Z with 1%Z. field. }
    change (10 ^ 0)%Z with 1%Z in Bj. rewrite Rmult_1_r in Bj. apply Rabs_le_inv in Bj.
    assert (Hj : (0 <= j)%Z).
    { assert (-1 < IZR j) by lra. apply lt_IZR in H. lia. }
    exists (j + n)%Z. split; [lia|].
    assert (EN : round_nearest RN g v = g_lb g + IZR (j + n) * g_delta g).
    { rewrite round_nearest_is_Gp. unfold k_nearest. fold f. rewrite Ea, En. num_R.
      replace (IZR j + IZR n) with (IZR (j + n)) by (rewrite plus_IZR; reflexivity). apply Gp_exact. exact Hd. }
    split; [exact EN|]. rewrite EN, plus_IZR.
    set (x := (v - g_lb g) / g_delta g) in *.
    assert (Ev : v = g_lb g + x * g_delta g) by (unfold x; field; lra).
    replace (g_lb g + (IZR j + IZR n) * g_delta g - v) with ((IZR j + IZR n - x) * g_delta g) by (unfold x; field; lra).
    rewrite Rabs_mult, (Rabs_right (g_delta g)) by lra.
    replace (g_delta g / 2 + 5 / 10000000000 * g_delta g) with ((1/2 + 5 / 10000000000) * g_delta g) by field.
    apply Rmult_le_compat_r; [lra|]. apply Rabs_le. lra.
  Qed.

  (* T: in exact arithmetic every grid point G n (any integer n) is a fixed
     point of "lower" and "nearest", and "upper" gives the next one.  This is
     the clause that FAILS on doubles for some admissible grids (P_GridSF). *)
  Theorem regular_fixed_points a b d n : (0 <= d)%Z -> (0 < b)%Z ->
    let g := dgrid a b d in
    let v := g_lb g + IZR n * g_delta g in
    round_lower RN g v = v /\ round_nearest RN g v = v /\ round_upper RN g v = v + g_delta g.
  Proof.
    intros Hd Hb g v.
    assert (Hdel : 0 < g_delta g).
    { cbn. apply Rmult_lt_0_compat; [apply IZR_lt; exact Hb|apply Rinv_0_lt_compat, pow10_pos, Hd]. }
    assert (Ef : floatD RN g v = IZR n).
    { rewrite floatD_R. replace ((v - g_lb g) / g_delta g) with (IZR n) by (unfold v; field; lra).
      rewrite around_R. rewrite <- mult_IZR, Rrint_IZR, mult_IZR. field.
      apply Rgt_not_eq, pow10_pos. lia. }
    assert (Ei : intD RN g v = IZR n) by (rewrite intD_R, Ef; apply Rtrunc_IZR).
    split; [|split].
    - rewrite round_lower_is_Gp. unfold k_lower. rewrite Ei. apply Gp_exact. exact Hd.
    - rewrite round_nearest_is_Gp. unfold k_nearest. rewrite Ei, Ef.
      assert (E0 : around RN 0 (nfmod RN (IZR n) (ofZ RN 1)) = 0).
      { num_R. unfold Rfmod. replace (IZR n / 1) with (IZR n) by field. rewrite Rfloor_IZR.
        replace (IZR n - 1 * IZR n) with (IZR 0) by ring. rewrite around_R, <- mult_IZR, Rrint_IZR.
        change (0 * 10 ^ 0)%Z with 0%Z. change (10 ^ 0)%Z with 1%Z. field. }
      rewrite E0. num_R. rewrite Rplus_0_l. apply Gp_exact. exact Hd.
    - rewrite round_upper_is_Gp. unfold k_upper. rewrite Ei. num_R.
      replace (IZR n + 1) with (IZR (n + 1)) by (rewrite plus_IZR; reflexivity).
      transitivity (g_lb g + IZR (n + 1) * g_delta g); [apply Gp_exact; exact Hd|].
      rewrite plus_IZR. unfold v. ring.
  Qed.

  (* T: construction.  A grid given as origin + i*spacing (what np.arange
     yields in exact arithmetic) with origin and spacing having at most `d`
     decimals is stored unchanged, with unchanged descriptors *)
  Definition points (a b d : Z) (first : Z) (n : nat) : list R :=
    map (fun i => IZR a / IZR (10 ^ d) + IZR (first + Z.of_nat i) * (IZR b / IZR (10 ^ d))) (seq 0 n).

  Theorem make_grid_exact a b d n : (0 <= d <= 16)%Z -> (0 < b)%Z ->
    pg_make RN (IZR b / IZR (10 ^ d)) d (points a b d 0 (S n))
    = Ok {| pg_desc := dgrid a b d; pg_grid := points a b d 0 (S n) |}.
  Proof.
    intros [Hd0 Hd1] Hb. unfold pg_make.
    destruct (16 <? d)%Z eqn:E; [apply Z.ltb_lt in E; lia|].
    rewrite K_pg_lb_index. unfold points at 1. cbn [seq map py_get zlen length].
    change (py_get _ 0) with (Ok (A := R) (IZR a / IZR (10 ^ d) + IZR (0 + Z.of_nat 0) * (IZR b / IZR (10 ^ d)))).
    cbn [bind]. rewrite K_pg_lb_round, K_pg_delta_round.
    replace (IZR a / IZR (10 ^ d) + IZR (0 + Z.of_nat 0) * (IZR b / IZR (10 ^ d))) with (IZR a / IZR (10 ^ d))
      by (cbn [Z.of_nat Z.add]; lra).
    rewrite !around_decimal by exact Hd0. fold (dgrid a b d). f_equal. f_equal.
    unfold points. rewrite map_map. apply map_ext. intros i. rewrite K_pg_grid_set.
    exact (proj1 (proj2 (regular_fixed_points a b d (0 + Z.of_nat i) Hd0 Hb))).
  Qed.

End Exact.
