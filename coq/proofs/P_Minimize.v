(* C11: characterising lemmas of the minimiser kernels and the theorems about
   NR1dNsMinimizerImpl / NRNsScan2dMinimizerImpl at the real-number instance. *)
From Coq Require Import Reals ZArith List Bool Lia Lra.
From Sky Require Import Result Num NumR G_minimize M_Minimize.
Import ListNotations.
Open Scope R_scope.

Section Kernels.
  Variable erfR : R -> R.
  Notation N := (RNum erfR).

  Lemma K_nr_init_bad ns_min i0 : nr_init_bad N ns_min i0 = true <-> i0 < ns_min.
  Proof. unfold nr_init_bad; num_R. apply Rltb_true. Qed.
  Lemma K_nr_step0 tol : nr_step0 N tol = tol + 1.
  Proof. unfold nr_step0; num_R. reflexivity. Qed.
  Lemma K_nr_fprime0 : nr_fprime0 N = 1000.
  Proof. unfold nr_fprime0; num_R. reflexivity. Qed.
  Lemma K_nr_niter0 : nr_niter0 = 0%Z. Proof. reflexivity. Qed.
  Lemma K_nr_flags :
    nr_flag0 = 0%Z /\ nr_flag_nan = 2%Z /\ nr_flag_fnan = 2%Z /\ nr_flag_lo = (-2)%Z /\ nr_flag_hi = (-1)%Z /\ nr_flag_maxed = 1%Z.
  Proof. repeat split. Qed.
  Lemma K_nr_cond_num tol st fp :
    nr_cond_num N tol st fp = true <-> (tol < Rabs st \/ 1/10 < Rabs fp).
  Proof.
    unfold nr_cond_num; num_R. rewrite orb_true_iff, !Rltb_true. tauto.
  Qed.
  Lemma K_nr_cond_iter n m : nr_cond_iter n m = true <-> (n < m)%Z.
  Proof. unfold nr_cond_iter. apply Z.ltb_lt. Qed.
  Lemma K_nr_step f1 f2 : nr_step N f1 f2 = - f1 / f2.
  Proof. unfold nr_step; num_R. reflexivity. Qed.
  Lemma K_nr_step_nan st : nr_step_nan N st = false.
  Proof. reflexivity. Qed.
  Lemma K_nr_at_bound ns lo hi st :
    nr_at_bound N ns lo hi st = true <-> ((ns = lo /\ st < 0) \/ (ns = hi /\ 0 < st)).
  Proof.
    unfold nr_at_bound; num_R.
    rewrite orb_true_iff, !andb_true_iff, !Reqb_true, !Rltb_true. tauto.
  Qed.
  Lemma K_nr_at_lo ns lo : nr_at_lo N ns lo = true <-> ns = lo.
  Proof. unfold nr_at_lo; num_R. apply Reqb_true. Qed.
  Lemma K_nr_at_hi ns hi : nr_at_hi N ns hi = true <-> ns = hi.
  Proof. unfold nr_at_hi; num_R. apply Reqb_true. Qed.
  Lemma K_nr_ns_next ns st : nr_ns_next N ns st = ns + st.
  Proof. reflexivity. Qed.
  Lemma K_nr_clip_lo ns lo : nr_clip_lo N ns lo = true <-> ns < lo.
  Proof. unfold nr_clip_lo; num_R. apply Rltb_true. Qed.
  Lemma K_nr_clip_hi ns hi : nr_clip_hi N ns hi = true <-> hi < ns.
  Proof. unfold nr_clip_hi; num_R. apply Rltb_true. Qed.
  Lemma K_nr_niter_inc n : nr_niter_inc n = (n + 1)%Z. Proof. reflexivity. Qed.
  Lemma K_nr_reeval b : nr_reeval b = negb b. Proof. reflexivity. Qed.
  (* over the reals no value is NaN: the NaN-value guard never fires (the IEEE path: P_MinimizeNaN.v) *)
  Lemma K_nr_f_nan f : nr_f_nan N f = false. Proof. reflexivity. Qed.
  Lemma K_scan_best_nan f : scan_best_nan N f = false. Proof. reflexivity. Qed.
  Lemma K_nr_maxed n m : nr_maxed n m = true <-> n = m.
  Proof. unfold nr_maxed. apply Z.eqb_eq. Qed.
  Lemma K_nr_converged fl : nr_converged fl = true <-> (fl <= 0)%Z.
  Proof. unfold nr_converged. apply Z.leb_le. Qed.
  Lemma K_nr_repeatable : nr_repeatable = false. Proof. reflexivity. Qed.
  Lemma K_scan_better a b : scan_better N a b = true <-> a < b.
  Proof. unfold scan_better; num_R. apply Rltb_true. Qed.
  Lemma K_scan_niter t n : scan_niter t n = (t + n)%Z. Proof. reflexivity. Qed.
  Lemma K_lbfgs_converged w : lbfgs_converged w = true <-> w = 0%Z.
  Proof. unfold lbfgs_converged. apply Z.eqb_eq. Qed.
  Lemma K_mx_neg f g g2 m :
    mx_neg_f N f = - f /\ (forall i, mx_neg_grad N i g = - g) /\ (forall i, mx_neg_grad_idx0 N i = i) /\ mx_neg_grad2 N g2 = - g2 /\
    mx_llmax_nr N m = - m /\ mx_neg_f_gen N f = - f /\ mx_neg_grads_gen N g = - g /\ mx_llmax_gen N m = - m.
  Proof. repeat split. Qed.
End Kernels.

(* ------------------------------------------------------------------ NR 1d *)
From Sky Require Import S_Minimize.

Section NRProofs.
  Variable erfR : R -> R.
  Notation N := (RNum erfR).
  Variable obj : R -> R * R * R.
  Variables tol lo hi : R.
  Variable max_steps : Z.

  Definition F (x : R) : R := fst3 (obj x).
  Definition F1 (x : R) : R := snd3 (obj x).
  Definition F2 (x : R) : R := thd3 (obj x).

  Lemma nr_clip_spec x : nr_clip N lo hi x = clipR lo hi x.
  Proof.
    unfold nr_clip, clipR.
    destruct (nr_clip_lo N x lo) eqn:E1.
    - apply K_nr_clip_lo in E1. destruct (Rlt_dec x lo); [reflexivity|lra].
    - assert (~ x < lo) by (intro Hc; apply (proj2 (K_nr_clip_lo erfR x lo)) in Hc; congruence).
      destruct (Rlt_dec x lo); [lra|].
      destruct (nr_clip_hi N x hi) eqn:E2.
      + apply K_nr_clip_hi in E2. destruct (Rlt_dec hi x); [reflexivity|lra].
      + assert (~ hi < x) by (intro Hc; apply (proj2 (K_nr_clip_hi erfR x hi)) in Hc; congruence).
        destruct (Rlt_dec hi x); [lra|reflexivity].
  Qed.

  (* the loop state (ns, step, fprime) is the initial one, or the one produced
     by a Newton step from a previous in-loop evaluation point *)
  Definition state_ok (ns st fp : R) : Prop :=
    (st = tol + 1 /\ fp = 1000) \/
    (exists prev, st = - F1 prev / F2 prev /\ fp = F1 prev /\ ns = clipR lo hi (prev + st)).

  Definition nr_post (n0 : Z) (r : nrres R) : Prop :=
    r_f r = F (r_x r) /\
    (n0 <= r_niter r)%Z /\ (r_niter r <= max_steps)%Z /\
    (r_flag r = (-2)%Z \/ r_flag r = (-1)%Z \/ r_flag r = 0%Z \/ r_flag r = 1%Z) /\
    (r_flag r = 1%Z <-> r_niter r = max_steps) /\
    (r_flag r = (-2)%Z -> r_x r = lo /\ r_step r = - F1 lo / F2 lo /\
                          (r_step r < 0 \/ (lo = hi /\ 0 < r_step r))) /\
    (r_flag r = (-1)%Z -> r_x r = hi /\ r_step r = - F1 hi / F2 hi /\ 0 < r_step r /\ lo <> hi) /\
    (r_flag r = 0%Z -> exists prev,
        r_step r = - F1 prev / F2 prev /\ Rabs (r_step r) <= tol /\
        Rabs (F1 prev) <= 1/10 /\ r_x r = clipR lo hi (prev + r_step r)).

  Lemma nr_post_tr_cons n0 a r : nr_post n0 r -> nr_post n0 (tr_cons a r).
  Proof. unfold nr_post. cbn [tr_cons r_x r_f r_flag r_niter r_step]. tauto. Qed.

  Lemma nr_post_mono n0 n1 r : (n1 <= n0)%Z -> nr_post n0 r -> nr_post n1 r.
  Proof.
    unfold nr_post. intros H (P1 & P2 & P3 & P4 & P5 & P6 & P7 & P8).
    repeat split; try tauto; try lia.
  Qed.

  Lemma nr_finish_fields niter ns st flag ab fcur :
    let r := nr_finish N obj max_steps niter ns st flag ab fcur in
    r_x r = ns /\ r_niter r = niter /\ r_step r = st /\
    r_flag r = (if Z.eqb niter max_steps then 1%Z else flag) /\
    r_f r = (if ab then fcur else F ns).
  Proof.
    unfold nr_finish. rewrite K_nr_reeval, K_nr_f_nan. unfold nr_maxed, nr_flag_maxed.
    destruct ab; cbn [negb r_x r_f r_flag r_niter r_step]; repeat split.
  Qed.

  (* exit through the loop condition *)
  Lemma nr_exit_cond niter ns st fp :
    (niter <= max_steps)%Z -> state_ok ns st fp ->
    nr_cond_num N tol st fp && nr_cond_iter niter max_steps = false ->
    nr_post niter (nr_finish N obj max_steps niter ns st nr_flag0 false (nzero N)).
  Proof.
    intros Hle Hst Ec.
    pose proof (nr_finish_fields niter ns st nr_flag0 false (nzero N)) as Hf. cbv zeta in Hf.
    destruct Hf as (Hx & Hn & Hs & Hfl & Hff).
    unfold nr_post. rewrite Hx, Hn, Hs, Hfl, Hff. unfold nr_flag0.
    destruct (Z.eqb_spec niter max_steps) as [Heq|Hne].
    - repeat split; intros; try lia; try discriminate; auto.
    - assert (Hcn : nr_cond_num N tol st fp = false).
      { apply andb_false_iff in Ec. destruct Ec as [Ec|Ec]; [exact Ec|].
        exfalso. assert (Hlt : (niter < max_steps)%Z) by lia.
        apply (proj2 (K_nr_cond_iter niter max_steps)) in Hlt. congruence. }
      assert (Hnc : ~ (tol < Rabs st \/ 1/10 < Rabs fp)).
      { intro Hc. apply (proj2 (K_nr_cond_num erfR tol st fp)) in Hc. congruence. }
      repeat split; intros; try lia; try discriminate; auto.
      destruct Hst as [[Hs0 Hf0]|(prev & Hs1 & Hf1 & Hn1)].
      + exfalso. apply Hnc. right. rewrite Hf0. rewrite Rabs_pos_eq; lra.
      + exists prev. split; [exact Hs1|]. split; [lra|]. split; [rewrite <- Hf1; lra | exact Hn1].
  Qed.

  Lemma nr_loop_spec : forall fuel niter ns st fp r,
    (max_steps <= Z.of_nat fuel + niter)%Z -> (niter <= max_steps)%Z ->
    state_ok ns st fp ->
    nr_loop N obj tol lo hi fuel max_steps niter ns st fp = Ok r ->
    nr_post niter r /\ (lo <= hi -> lo <= ns <= hi -> lo <= r_x r <= hi).
  Proof.
    induction fuel as [|k IH]; intros niter ns st fp r Hfuel Hle Hst Hrun.
    - cbn [nr_loop] in Hrun.
      destruct (nr_cond_num N tol st fp && nr_cond_iter niter max_steps) eqn:Ec; [discriminate|].
      injection Hrun as <-. split.
      + apply (nr_exit_cond niter ns st fp); assumption.
      + intros _ Hin. exact Hin.
    - cbn [nr_loop] in Hrun.
      destruct (nr_cond_num N tol st fp && nr_cond_iter niter max_steps) eqn:Ec.
      + apply andb_true_iff in Ec. destruct Ec as [Ecn Eci].
        apply K_nr_cond_iter in Eci.
        destruct (obj ns) as [[fv f1v] f2v] eqn:Eo.
        assert (HF : F ns = fv) by (unfold F; rewrite Eo; reflexivity).
        assert (HF1 : F1 ns = f1v) by (unfold F1; rewrite Eo; reflexivity).
        assert (HF2 : F2 ns = f2v) by (unfold F2; rewrite Eo; reflexivity).
        rewrite K_nr_step_nan, K_nr_step in Hrun.
        destruct (nr_at_bound N ns lo hi (- f1v / f2v)) eqn:Eb.
        * (* forced exit at a boundary *)
          apply K_nr_at_bound in Eb.
          injection Hrun as <-.
          assert (Hne : (niter =? max_steps)%Z = false) by (apply Z.eqb_neq; lia).
          split.
          -- apply nr_post_tr_cons.
             destruct (Reqb ns lo) eqn:Elo.
             ++ apply Reqb_true in Elo.
                pose proof (nr_finish_fields niter ns (- f1v / f2v) nr_flag_lo true fv) as Hf.
                cbv zeta in Hf. destruct Hf as (Hx & Hn & Hs & Hfl & Hff).
                rewrite Hne in Hfl.
                unfold nr_post. rewrite Hx, Hn, Hs, Hfl, Hff. unfold nr_flag_lo. subst ns. rewrite HF1, HF2, HF.
                repeat split; intros; try lia; try discriminate; auto.
                destruct Eb as [[_ Hneg]|[He Hpos]]; [left; exact Hneg | right; split; assumption].
             ++ assert (Hnlo : ns <> lo) by (apply Reqb_false; exact Elo).
                assert (Hhi : ns = hi /\ 0 < - f1v / f2v) by (destruct Eb as [[H _]|H]; [contradiction|exact H]).
                destruct Hhi as [Hhi Hpos].
                rewrite (proj2 (Reqb_true ns hi) Hhi).
                pose proof (nr_finish_fields niter ns (- f1v / f2v) nr_flag_hi true fv) as Hf.
                cbv zeta in Hf. destruct Hf as (Hx & Hn & Hs & Hfl & Hff).
                rewrite Hne in Hfl.
                unfold nr_post. rewrite Hx, Hn, Hs, Hfl, Hff. unfold nr_flag_hi. subst ns. rewrite HF1, HF2, HF.
                repeat split; intros; try lia; try discriminate; auto.
          -- intros _ Hin. cbn [tr_cons r_x].
             match goal with |- context [nr_finish N obj max_steps niter ns ?s ?fl true fv] =>
               pose proof (nr_finish_fields niter ns s fl true fv) as Hf end.
             cbv zeta in Hf. destruct Hf as (Hx & _). rewrite Hx. exact Hin.
        * (* a Newton step *)
          destruct (nr_loop N obj tol lo hi k max_steps (nr_niter_inc niter)
                      (nr_clip N lo hi (nr_ns_next N ns (- f1v / f2v))) (- f1v / f2v) f1v) as [r'|e] eqn:Er;
            [|discriminate].
          cbn [bind] in Hrun. injection Hrun as <-.
          rewrite K_nr_niter_inc, K_nr_ns_next, nr_clip_spec in Er.
          apply IH in Er.
          -- destruct Er as [Hp Hb]. split.
             ++ apply nr_post_tr_cons. apply (nr_post_mono (niter + 1)); [lia|exact Hp].
             ++ intros Hlh _. cbn [tr_cons r_x]. apply Hb; [exact Hlh|]. apply clipR_in; exact Hlh.
          -- rewrite Nat2Z.inj_succ in Hfuel. lia.
          -- lia.
          -- right. exists ns. rewrite HF1, HF2. repeat split.
      + injection Hrun as <-. split.
        * apply (nr_exit_cond niter ns st fp); assumption.
        * intros _ Hin.
          match goal with |- context [nr_finish N obj max_steps niter ns st ?fl false ?z] =>
            pose proof (nr_finish_fields niter ns st fl false z) as Hf end.
          cbv zeta in Hf. destruct Hf as (Hx & _). rewrite Hx. exact Hin.
  Qed.

  (* the loop never fails: the fuel never runs out before the code's counter *)
  Lemma nr_loop_ok : forall fuel niter ns st fp,
    (max_steps <= Z.of_nat fuel + niter)%Z ->
    exists r, nr_loop N obj tol lo hi fuel max_steps niter ns st fp = Ok r.
  Proof.
    induction fuel as [|k IH]; intros niter ns st fp Hfuel; cbn [nr_loop].
    - destruct (nr_cond_num N tol st fp && nr_cond_iter niter max_steps) eqn:Ec; [|eexists; reflexivity].
      exfalso. apply andb_true_iff in Ec. destruct Ec as [_ Eci].
      apply K_nr_cond_iter in Eci. cbn [Z.of_nat] in Hfuel. lia.
    - destruct (nr_cond_num N tol st fp && nr_cond_iter niter max_steps) eqn:Ec; [|eexists; reflexivity].
      destruct (obj ns) as [[fv f1v] f2v].
      rewrite K_nr_step_nan.
      destruct (nr_at_bound N ns lo hi (nr_step N f1v f2v)); [eexists; reflexivity|].
      destruct (IH (nr_niter_inc niter) (nr_clip N lo hi (nr_ns_next N ns (nr_step N f1v f2v)))
                   (nr_step N f1v f2v) f1v) as [r Hr].
      + rewrite K_nr_niter_inc. rewrite Nat2Z.inj_succ in Hfuel. lia.
      + rewrite Hr. cbn [bind]. eexists; reflexivity.
  Qed.

  Theorem nr1d_total init :
    (0 <= max_steps)%Z ->
    (init < lo -> nr1d N obj tol lo hi max_steps init = Err ValueError) /\
    (lo <= init -> exists r, nr1d N obj tol lo hi max_steps init = Ok r).
  Proof.
    intros Hms. unfold nr1d. split; intros H.
    - rewrite (proj2 (K_nr_init_bad erfR lo init) H). reflexivity.
    - destruct (nr_init_bad N lo init) eqn:E.
      + apply K_nr_init_bad in E. lra.
      + apply nr_loop_ok. rewrite K_nr_niter0, Z2Nat.id; lia.
  Qed.

  Theorem nr1d_spec init r :
    (0 <= max_steps)%Z ->
    nr1d N obj tol lo hi max_steps init = Ok r ->
    lo <= init /\ nr_post 0 r /\ (lo <= hi -> init <= hi -> lo <= r_x r <= hi).
  Proof.
    intros Hms. unfold nr1d.
    destruct (nr_init_bad N lo init) eqn:E; [discriminate|].
    assert (Hlo : lo <= init).
    { destruct (Rle_dec lo init) as [H|H]; [exact H|].
      exfalso. assert (Hlt : init < lo) by lra.
      apply (proj2 (K_nr_init_bad erfR lo init)) in Hlt. congruence. }
    intros Hrun. apply nr_loop_spec in Hrun.
    - destruct Hrun as [Hp Hb]. rewrite K_nr_niter0 in Hp. split; [exact Hlo|]. split; [exact Hp|].
      intros Hlh Hhi. apply Hb; [exact Hlh|lra].
    - rewrite K_nr_niter0, Z2Nat.id; lia.
    - rewrite K_nr_niter0. exact Hms.
    - left. rewrite K_nr_step0, K_nr_fprime0. split; reflexivity.
  Qed.

  (* ---- consequences for a convex objective (f = -log Lambda, log Lambda concave) *)
  Theorem nr_bound_exit_is_minimiser r :
    convex_fo F F1 -> lo < hi -> nr_post 0 r ->
    (r_flag r = (-2)%Z -> 0 < F2 lo -> argmin_on F lo hi (r_x r) /\ 0 < F1 lo) /\
    (r_flag r = (-1)%Z -> 0 < F2 hi -> argmin_on F lo hi (r_x r) /\ F1 hi < 0).
  Proof.
    intros Hcx Hlh (P1 & P2 & P3 & P4 & P5 & P6 & P7 & P8). split.
    - intros Hfl Hpos. destruct (P6 Hfl) as (Hx & Hs & Hneg).
      assert (Hs' : r_step r < 0) by (destruct Hneg as [H|[H _]]; [exact H|lra]).
      assert (Hg : 0 < F1 lo).
      { rewrite Hs in Hs'. unfold Rdiv in Hs'.
        assert (0 < / F2 lo) by (apply Rinv_0_lt_compat; exact Hpos).
        destruct (Rle_dec (F1 lo) 0) as [Hle|Hgt]; [|lra].
        exfalso. assert (0 <= - F1 lo * / F2 lo) by (apply Rmult_le_pos; lra). lra. }
      split; [|exact Hg]. rewrite Hx. split; [lra|].
      intros y Hy. pose proof (Hcx lo y) as Hc.
      assert (0 <= F1 lo * (y - lo)) by (apply Rmult_le_pos; lra). lra.
    - intros Hfl Hpos. destruct (P7 Hfl) as (Hx & Hs & Hpos' & _).
      assert (Hg : F1 hi < 0).
      { rewrite Hs in Hpos'. unfold Rdiv in Hpos'.
        assert (0 < / F2 hi) by (apply Rinv_0_lt_compat; exact Hpos).
        destruct (Rle_dec 0 (F1 hi)) as [Hle|Hgt]; [|lra].
        exfalso. assert (0 <= F1 hi * / F2 hi) by (apply Rmult_le_pos; lra). lra. }
      split; [|exact Hg]. rewrite Hx. split; [lra|].
      intros y Hy. pose proof (Hcx hi y) as Hc.
      assert (0 <= (- F1 hi) * (hi - y)) by (apply Rmult_le_pos; lra). lra.
  Qed.

  (* "never below the value at the initial point", in the exact form that
     convexity gives for an undamped Newton iteration *)
  Theorem nr_not_worse_than_initial init r :
    convex_fo F F1 -> nr_post 0 r ->
    r_f r <= F init + Rabs (F1 (r_x r)) * Rabs (init - r_x r).
  Proof.
    intros Hcx (P1 & _). rewrite P1.
    pose proof (Hcx (r_x r) init) as Hc.
    assert (- (F1 (r_x r) * (init - r_x r)) <= Rabs (F1 (r_x r)) * Rabs (init - r_x r)).
    { rewrite <- Rabs_mult. pose proof (Rle_abs (- (F1 (r_x r) * (init - r_x r)))) as H.
      rewrite Rabs_Ropp in H. exact H. }
    lra.
  Qed.

  (* strong convexity with modulus m, first-order form *)
  Definition strongly_convex_fo (m : R) : Prop :=
    forall x y, F x + F1 x * (y - x) + m / 2 * (y - x) * (y - x) <= F y.

  Lemma clipR_nonexpansive a c : lo <= c <= hi -> Rabs (clipR lo hi a - c) <= Rabs (a - c).
  Proof.
    intros Hc. unfold clipR.
    destruct (Rlt_dec a lo); [|destruct (Rlt_dec hi a)].
    - unfold Rabs; destruct (Rcase_abs (lo - c)), (Rcase_abs (a - c)); lra.
    - unfold Rabs; destruct (Rcase_abs (hi - c)), (Rcase_abs (a - c)); lra.
    - apply Rle_refl.
  Qed.

  (* convergence exit: the reported point is within ns_tol + 0.1/m of the
     stationary point xs of an m-strongly convex objective *)
  Theorem nr_converged_near_stationary r m xs :
    0 < m -> strongly_convex_fo m -> lo <= xs <= hi -> F1 xs = 0 ->
    nr_post 0 r -> r_flag r = 0%Z ->
    Rabs (r_x r - xs) <= tol + 1 / 10 / m.
  Proof.
    intros Hm Hsc Hxs Hst (P1 & P2 & P3 & P4 & P5 & P6 & P7 & P8) Hfl.
    destruct (P8 Hfl) as (prev & Hs & Htol & Hg & Hx).
    pose proof (Hsc prev xs) as H1. pose proof (Hsc xs prev) as H2. rewrite Hst in H2.
    set (d := prev - xs) in *.
    assert (Hd : m * (d * d) <= Rabs (F1 prev) * Rabs d).
    { assert (m * (d * d) <= F1 prev * d) by (unfold d in *; nra).
      rewrite <- Rabs_mult. pose proof (Rle_abs (F1 prev * d)). lra. }
    assert (Hdd : Rabs d <= 1 / 10 / m).
    { assert (Had : d * d = Rabs d * Rabs d).
      { unfold Rabs. destruct (Rcase_abs d); ring. }
      rewrite Had in Hd. pose proof (Rabs_pos d) as Hp.
      destruct (Req_dec (Rabs d) 0) as [Hz|Hnz].
      - rewrite Hz. apply Rlt_le. apply Rdiv_lt_0_compat; lra.
      - assert (0 < Rabs d) by lra.
        assert (m * Rabs d <= Rabs (F1 prev)) by nra.
        apply (Rmult_le_reg_l m); [exact Hm|].
        replace (m * (1 / 10 / m)) with (1 / 10) by (field; lra). lra. }
    rewrite Hx.
    eapply Rle_trans; [apply clipR_nonexpansive; exact Hxs|].
    replace (prev + r_step r - xs) with (r_step r + d) by (unfold d; ring).
    eapply Rle_trans; [apply Rabs_triang|]. lra.
  Qed.
End NRProofs.
