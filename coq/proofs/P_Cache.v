(* Proofs for C06.  Part 1: one characterising lemma K_<kernel> per generated
   definition of gen/G_cache.v — nothing below part 1 unfolds a kernel.
   Part 2: the cache invariant and the refinement to the cache-free
   specification.  Part 3: consequences stated on histories. *)
From Coq Require Import ZArith List Bool Lia.
From Sky Require Import Result Num G_cache M_Cache S_Cache.
Import ListNotations.
Open Scope Z_scope.

(* ------------------------------------------------------------------ part 1 *)
Lemma K_tdm_sid_initial : tdm_sid_initial = -1.
Proof. reflexivity. Qed.
Lemma K_tdm_init_bump s : tdm_init_bump s = s + 1.
Proof. reflexivity. Qed.
Lemma K_tdm_src_bump s : tdm_src_bump s = s + 1.
Proof. reflexivity. Qed.
Lemma K_tdm_pre_bump s : tdm_pre_bump s = s + 1.
Proof. reflexivity. Qed.
Lemma K_tdm_stat_bump s : tdm_stat_bump s = s + 1.
Proof. reflexivity. Qed.
Lemma K_tdm_gfp_bump s : tdm_gfp_bump s = s + 1.
Proof. reflexivity. Qed.
Lemma K_tdm_src_skip n : tdm_src_skip n = (n =? 0).
Proof. reflexivity. Qed.
Lemma K_tdm_pre_skip n : tdm_pre_skip n = (n =? 0).
Proof. reflexivity. Qed.
Lemma K_tdm_stat_skip n : tdm_stat_skip n = (n =? 0).
Proof. reflexivity. Qed.
Lemma K_tdm_gfp_skip n : tdm_gfp_skip n = (n =? 0).
Proof. reflexivity. Qed.

Lemma K_grid_low lb i d : grid_low lb i d = lb + i * d.
Proof. unfold grid_low. lia. Qed.
Lemma K_grid_up lb i d : grid_up lb i d = grid_low lb i d + d.
Proof. unfold grid_up, grid_low. lia. Qed.

Lemma K_lin_is_cached c s xc x :
  lin_is_cached c s xc x = true <-> c = Some s /\ xc = x.
Proof.
  unfold lin_is_cached. destruct c as [k|]; cbn.
  - rewrite andb_true_iff, !Z.eqb_eq. split.
    + intros [H1 H2]. subst. auto.
    + intros [H1 H2]. inversion H1. subst. auto.
  - split; [discriminate | intros [H _]; discriminate].
Qed.
Lemma K_lin_x0_from v : lin_x0_from v = v. Proof. reflexivity. Qed.
Lemma K_lin_x1_from v : lin_x1_from v = v. Proof. reflexivity. Qed.
Lemma K_lin_key_sid v : lin_key_sid v = v. Proof. reflexivity. Qed.
Lemma K_lin_key_x0 v : lin_key_x0 v = v. Proof. reflexivity. Qed.
Lemma K_lin_store_sid v : lin_store_sid v = v. Proof. reflexivity. Qed.
Lemma K_lin_store_x0 v : lin_store_x0 v = v. Proof. reflexivity. Qed.

Lemma K_par_sid_matches c s : par_sid_matches c s = true <-> c = Some s.
Proof.
  unfold par_sid_matches. destruct c as [k|]; cbn.
  - rewrite Z.eqb_eq. split; [intros; subst; auto | intros H; inversion H; auto].
  - split; discriminate.
Qed.
Lemma K_par_key_differs a b : par_key_differs a b = negb (a =? b).
Proof. reflexivity. Qed.
Lemma K_par_x1_from v : par_x1_from v = v. Proof. reflexivity. Qed.
Lemma K_par_x0_arg x1 dx : par_x0_arg x1 dx = x1 - dx. Proof. reflexivity. Qed.
Lemma K_par_x2_arg x1 dx : par_x2_arg x1 dx = x1 + dx. Proof. reflexivity. Qed.
Lemma K_par_key_sid v : par_key_sid v = v. Proof. reflexivity. Qed.
Lemma K_par_key_x1 v : par_key_x1 v = v. Proof. reflexivity. Qed.
Lemma K_par_store_sid v : par_store_sid v = v. Proof. reflexivity. Qed.
Lemma K_par_store_x1 v : par_store_x1 v = v. Proof. reflexivity. Qed.

Lemma K_pd_cache_invalid c s : pd_cache_invalid c s = false <-> c = Some s.
Proof.
  unfold pd_cache_invalid. destruct c as [k|]; cbn.
  - rewrite negb_false_iff, Z.eqb_eq. split; [intros; subst; auto | intros H; inversion H; auto].
  - split; discriminate.
Qed.
Lemma K_pd_store_sid v : pd_store_sid v = v. Proof. reflexivity. Qed.
Lemma K_pd_use_cache b : pd_use_cache b = b. Proof. reflexivity. Qed.

(* SplinedI3EnergySigSetOverBkgPDFRatio._is_cached returns True exactly when
   none of its three tests fires *)
Lemma K_i3_is_cached c s kc k :
  (negb (i3_sid_none c) && negb (i3_sid_differs c s) && negb (i3_key_differs kc k)) = true
  <-> c = Some s /\ kc = k.
Proof.
  unfold i3_sid_none, i3_sid_differs, i3_key_differs. destruct c as [v|]; cbn.
  - rewrite !negb_involutive, andb_true_iff, !Z.eqb_eq.
    split; [intros [H1 H2]; subst; auto | intros [H1 H2]; inversion H1; subst; auto].
  - split; [discriminate | intros [H _]; discriminate].
Qed.

Lemma K_ns2_no_cache o : ns2_no_cache o = true <-> o = None.
Proof. unfold ns2_no_cache. destruct o; split; intros; congruence. Qed.
Lemma K_ns2_reset_on_new_trial : ns2_reset_on_new_trial = None.
Proof. reflexivity. Qed.
Lemma K_ns2_reset_on_evaluate : ns2_reset_on_evaluate = None.
Proof. reflexivity. Qed.

(* SigOverBkgPDFRatio.get_gradient, case 2: a fresh zero array receives sgrad / b
   (the arrays handed out by the signal PDF are not written to) *)
Lemma K_sob_grad_target_fresh v : sob_grad_target_fresh v = v. Proof. reflexivity. Qed.
Lemma K_sob_grad_case2 {T} (N : Num T) sgrad b : sob_grad_case2 N sgrad b = ndiv N sgrad b.
Proof. reflexivity. Qed.

(* round 4 pins: change_shg_mgr of the weights service re-creates both members
   derived from the sources; get_ratio fills a freshly allocated array *)
Lemma K_svc_change_recreates_recarrays v : svc_change_recreates_recarrays v = v. Proof. reflexivity. Qed.
Lemma K_svc_change_recreates_weights v : svc_change_recreates_weights v = v. Proof. reflexivity. Qed.
Lemma K_sob_ratio_target_fresh v : sob_ratio_target_fresh v = v. Proof. reflexivity. Qed.

(* DataField memo of a global-fit-parameter dependent field *)
Lemma K_gfp_initial_value : gfp_initial_value = None.
Proof. reflexivity. Qed.
Lemma K_gfp_reset_on_new_trial : gfp_reset_on_new_trial = None.
Proof. reflexivity. Qed.
(* ns-profile / multi-dataset function *)
Lemma K_prof_logL0_initial : prof_logL0_initial = None. Proof. reflexivity. Qed.
Lemma K_prof_logL0_point v : prof_logL0_point v = v. Proof. reflexivity. Qed.
Lemma K_prof_logL0_arg v : prof_logL0_arg v = v. Proof. reflexivity. Qed.
Lemma K_prof_log_lambda a b : prof_log_lambda a b = a - b. Proof. reflexivity. Qed.
Lemma K_multi_nsf a b : multi_nsf a b = a * b. Proof. reflexivity. Qed.
Lemma K_multi_ns2_nsf a b : multi_ns2_nsf a b = multi_nsf a b. Proof. reflexivity. Qed.
Lemma K_gfp_name_missing n l : gfp_name_missing n l = negb (existsb (Z.eqb n) l).
Proof. reflexivity. Qed.
Lemma K_gfp_value_differs x m : gfp_value_differs x m = false <-> m = Some x.
Proof.
  unfold gfp_value_differs. destruct m as [v|]; cbn.
  - rewrite negb_false_iff, Z.eqb_eq. split; [intros; subst; auto | intros H; inversion H; auto].
  - split; discriminate.
Qed.
Lemma K_gfp_skip_calc b : gfp_skip_calc b = negb b. Proof. reflexivity. Qed.
Lemma K_gfp_is_srcevt b : gfp_is_srcevt b = b. Proof. reflexivity. Qed.
Lemma K_gfp_store_value v : gfp_store_value v = v. Proof. reflexivity. Qed.
Lemma K_tdm_has_gfp n : tdm_has_gfp n = (n >? 0). Proof. reflexivity. Qed.
Lemma K_llh_calc_gfp b : llh_calc_gfp b = b. Proof. reflexivity. Qed.

Global Opaque tdm_sid_initial tdm_init_bump tdm_src_bump tdm_pre_bump tdm_stat_bump tdm_gfp_bump
  tdm_src_skip tdm_pre_skip tdm_stat_skip tdm_gfp_skip grid_low grid_up
  lin_is_cached lin_x0_from lin_x1_from lin_key_sid lin_key_x0 lin_store_sid lin_store_x0
  par_sid_matches par_key_differs par_x1_from par_x0_arg par_x2_arg par_key_sid par_key_x1
  par_store_sid par_store_x1 pd_cache_invalid pd_store_sid pd_use_cache
  i3_sid_none i3_sid_differs i3_key_differs ns2_no_cache ns2_reset_on_new_trial
  gfp_initial_value gfp_name_missing gfp_value_differs gfp_skip_calc gfp_is_srcevt gfp_store_value
  tdm_has_gfp llh_calc_gfp gfp_reset_on_new_trial
  prof_logL0_initial prof_logL0_point prof_logL0_arg prof_log_lambda multi_nsf multi_ns2_nsf ns2_reset_on_evaluate.

(* ------------------------------------------------------------------ part 2 *)
Section Refine.
Variable W : world.
Variable C : cfg.
(* ParameterGrid: the upper grid point is determined by the lower one (both
   are computed from the same interval count; proved for the code's grid in
   part 3) *)
Definition grid_ok : Prop := forall x y, glow W x = glow W y -> gup W x = gup W y.
Hypothesis Hgrid : grid_ok.

Notation State := (state W).
Notation Tv := (tv (data W) (src W) (GV W)).

Definition kle (k : option Z) (sid : Z) : Prop :=
  match k with Some k' => k' <= sid | None => True end.

Lemma kle_stale k sid sid' : kle k sid -> sid < sid' -> kle k sid' /\ k <> Some sid'.
Proof.
  destruct k as [k'|]; cbn; intros H1 H2; split; try lia; try exact I; try discriminate.
  intros E. inversion E. lia.
Qed.

Definition lin_ok (sid : Z) (vw : option (view (data W) (src W))) (sf : option (src W) * (option (GV W) * option (GV W)))
  (ev : option Tv) (c : option Z * Z * option (LC W)) : Prop :=
  kle (fst (fst c)) sid /\
  forall v e x0c cl, vw = Some v -> ev = Some e -> c = (Some sid, x0c, cl) ->
    exists xf, x0c = glow W xf /\ in_grid W x0c = true /\ in_grid W (gup W xf) = true /\
      cl = Some (Lmk W x0c (gup W xf) (Fsig W (v, sf) e x0c) (Fsig W (v, sf) e (gup W xf))).

Definition par_ok (sid : Z) (vw : option (view (data W) (src W))) (sf : option (src W) * (option (GV W) * option (GV W)))
  (ev : option Tv) (c : option Z * Z * option (PC W)) : Prop :=
  kle (fst (fst c)) sid /\
  forall v e x1c cp, vw = Some v -> ev = Some e -> c = (Some sid, x1c, cp) ->
    in_grid W (gnear W (x1c - gdx W)) = true /\ in_grid W x1c = true /\
    in_grid W (gnear W (x1c + gdx W)) = true /\
    cp = Some (Pmk W (Fsig W (v, sf) e (gnear W (x1c - gdx W))) (Fsig W (v, sf) e x1c)
                     (Fsig W (v, sf) e (gnear W (x1c + gdx W)))).

(* a MultiDimGridPDF cache whose recomputation would give v0 *)
Definition pdfc_ok (sid : Z) (c : pdfc W) (v0 : V W) : Prop :=
  p_sid c = Some sid -> forall w, p_pd c = Some w -> w = v0.

Definition sig_ok (sid : Z) (vw : option (view (data W) (src W))) (sf : option (src W) * (option (GV W) * option (GV W)))
  (ev : option Tv) (f : Z -> pdfc W) : Prop :=
  forall g, kle (p_sid (f g)) sid /\
    forall v e, vw = Some v -> ev = Some e -> pdfc_ok sid (f g) (Fsig W (v, sf) e g).

Definition bkg_ok (sid : Z) (vw : option (view (data W) (src W))) (sf : option (src W) * (option (GV W) * option (GV W)))
  (c : pdfc W) : Prop :=
  kle (p_sid c) sid /\ forall v, vw = Some v -> pdfc_ok sid c (Fbkg W (v, sf)).

(* the invariant: no key is newer than the state id, and every cache entry
   whose key matches the current key holds what recomputation would give *)
Definition CInv (st : State) : Prop :=
  lin_ok (s_sid st) (s_view st) (s_ext st) (s_evd st) (s_lin st) /\
  par_ok (s_sid st) (s_view st) (s_ext st) (s_evd st) (s_par st) /\
  sig_ok (s_sid st) (s_view st) (s_ext st) (s_evd st) (s_sig st) /\
  bkg_ok (s_sid st) (s_view st) (s_ext st) (s_bkg st).

Definition abs (st : State) : sstate W :=
  mksst W (s_view st) (s_srcf st) (s_cur st) (s_evd st) (s_nsg st).

(* any increase of the state id makes every entry stale *)
Lemma CInv_bump st sid' vw sf cur ev nsg gk gv :
  CInv st -> s_sid st < sid' ->
  CInv (mkst W sid' vw sf cur ev (s_lin st) (s_par st) (s_sig st) (s_bkg st) nsg gk gv).
Proof.
  intros (Hl & Hp & Hs & Hb) Hlt. unfold CInv, s_ext; cbn.
  destruct Hl as [Hl _]. destruct Hp as [Hp _]. destruct Hb as [Hb _].
  split; [|split; [|split]].
  - split; [apply (kle_stale _ _ _ Hl Hlt)|].
    intros v e x0c cl _ _ E. destruct (kle_stale _ _ _ Hl Hlt) as [_ N]. rewrite E in N. cbn in N. congruence.
  - split; [apply (kle_stale _ _ _ Hp Hlt)|].
    intros v e x1c cp _ _ E. destruct (kle_stale _ _ _ Hp Hlt) as [_ N]. rewrite E in N. cbn in N. congruence.
  - intros g. split; [apply (kle_stale _ _ _ (proj1 (Hs g)) Hlt)|].
    intros v e _ _ E. destruct (kle_stale _ _ _ (proj1 (Hs g)) Hlt) as [_ N]. congruence.
  - split; [apply (kle_stale _ _ _ Hb Hlt)|].
    intros v _ E. destruct (kle_stale _ _ _ Hb Hlt) as [_ N]. congruence.
Qed.

Lemma CInv_init_raw s0 :
  CInv (mkst W tdm_sid_initial None None s0 None (None, 0, None) (None, 0, None)
             (fun _ => mkpdfc W None None) (mkpdfc W None None) None (gfp_initial_value, gfp_initial_value) (None, None)).
Proof.
  unfold CInv, lin_ok, par_ok, sig_ok, bkg_ok, pdfc_ok, s_ext; cbn.
  repeat split; try exact I; intros; try discriminate; congruence.
Qed.

Lemma CInv_calc_source st s : CInv st -> CInv (calc_source_fields W C st s).
Proof.
  intros H. unfold calc_source_fields. rewrite K_tdm_src_skip, K_tdm_src_bump.
  destruct (c_nsrc C =? 0); [exact H|]. apply CInv_bump; [exact H | lia].
Qed.

Lemma CInv_init s0 : CInv (init W C s0).
Proof. apply CInv_calc_source, CInv_init_raw. Qed.

Lemma CInv_set_cur st s :
  CInv st -> CInv (mkst W (s_sid st) (s_view st) (s_srcf st) s (s_evd st) (s_lin st) (s_par st)
                        (s_sig st) (s_bkg st) (s_nsg st) (s_gkey st) (s_gv st)).
Proof. intros H; exact H. Qed.

Lemma CInv_change_source st s : CInv st -> CInv (change_source W C st s).
Proof. intros H. apply CInv_calc_source. exact H. Qed.

Lemma CInv_init_trial st d : CInv st -> CInv (init_trial W C st d).
Proof.
  intros H. unfold init_trial. apply CInv_bump; [exact H|].
  rewrite K_tdm_init_bump, K_tdm_pre_skip, K_tdm_stat_skip, K_tdm_pre_bump.
  destruct (c_npre C =? 0); destruct (c_nstat C =? 0); rewrite ?K_tdm_stat_bump; lia.
Qed.

(* MultiDimGridPDF: a valid cache returns what recomputation gives and stays valid *)
Lemma pdf_get_spec sid c v0 v c' b :
  kle (p_sid c) sid -> pdfc_ok sid c v0 -> pdf_get W C sid c v0 = (v, c', b) ->
  v = v0 /\ kle (p_sid c') sid /\ pdfc_ok sid c' v0.
Proof.
  intros Hk Hok. unfold pdf_get. rewrite K_pd_use_cache, K_pd_store_sid.
  destruct (c_cache_pd C).
  - destruct (pd_cache_invalid (p_sid c) sid) eqn:Ei.
    + intros E; inversion E; subst; cbn. repeat split; try lia.
      intros _ w Ew. cbn in Ew. congruence.
    + apply K_pd_cache_invalid in Ei. destruct (p_pd c) as [w|] eqn:Ew.
      * intros E; inversion E; subst. repeat split; auto.
      * intros E; inversion E; subst; cbn. repeat split; try lia.
        intros _ w Ew'. cbn in Ew'. congruence.
  - intros E; inversion E; subst. repeat split; auto.
Qed.

(* what sig_eval leaves untouched *)
Definition frame (st st' : State) : Prop :=
  s_sid st' = s_sid st /\ s_view st' = s_view st /\ s_ext st' = s_ext st /\
  s_cur st' = s_cur st /\ s_evd st' = s_evd st /\ s_nsg st' = s_nsg st /\
  s_lin st' = s_lin st /\ s_par st' = s_par st /\ s_bkg st' = s_bkg st /\
  s_srcf st' = s_srcf st /\ s_gkey st' = s_gkey st /\ s_gv st' = s_gv st.

Lemma frame_refl st : frame st st.
Proof. unfold frame; repeat split. Qed.
Lemma frame_trans a b c : frame a b -> frame b c -> frame a c.
Proof. unfold frame; intros; intuition congruence. Qed.

Lemma sig_eval_spec st v e g st' t r :
  CInv st -> s_view st = Some v -> s_evd st = Some e ->
  sig_eval W C st (v, s_ext st) e g = (st', t, r) ->
  r = pure_sig W (v, s_ext st) e g /\ CInv st' /\ frame st st'.
Proof.
  intros (Hl & Hp & Hs & Hb) Ev Ee. unfold sig_eval, pure_sig.
  destruct (in_grid W g) eqn:Eg.
  - destruct (pdf_get W C (s_sid st) (s_sig st g) (Fsig W (v, s_ext st) e g)) as [[w c] b] eqn:Epg.
    intros E; inversion E; subst; clear E.
    destruct (pdf_get_spec _ _ _ _ _ _ (proj1 (Hs g)) (proj2 (Hs g) v e Ev Ee) Epg) as (E1 & K1 & O1).
    subst w. split; [reflexivity|]. split; [|unfold frame; cbn; repeat split].
    unfold CInv; cbn. split; [exact Hl|]. split; [exact Hp|]. split; [|exact Hb].
    intros g0. unfold upd. destruct (g0 =? g) eqn:E0.
    + apply Z.eqb_eq in E0. subst g0. split; [exact K1|].
      intros v' e' Ev' Ee'.
      assert (v' = v) by congruence. assert (e' = e) by congruence. subst. exact O1.
    + apply (Hs g0).
  - intros E; inversion E; subst. split; [reflexivity|]. split; [|apply frame_refl].
    unfold CInv; auto.
Qed.

Lemma pure_sig_ok cur e g w : pure_sig W cur e g = Ok w -> in_grid W g = true /\ w = Fsig W cur e g.
Proof. unfold pure_sig. destruct (in_grid W g); intros H; inversion H; auto. Qed.

(* replacing the line cache by a valid entry *)
Lemma CInv_set_lin st c :
  CInv st -> lin_ok (s_sid st) (s_view st) (s_ext st) (s_evd st) c -> CInv (set_lin W st c).
Proof. intros (Hl & Hp & Hs & Hb) H. unfold CInv; cbn. auto. Qed.
Lemma CInv_set_par st c :
  CInv st -> par_ok (s_sid st) (s_view st) (s_ext st) (s_evd st) c -> CInv (set_par W st c).
Proof. intros (Hl & Hp & Hs & Hb) H. unfold CInv; cbn. auto. Qed.

Definition frame_i (st st' : State) : Prop :=
  s_sid st' = s_sid st /\ s_view st' = s_view st /\ s_ext st' = s_ext st /\
  s_cur st' = s_cur st /\ s_evd st' = s_evd st /\ s_nsg st' = s_nsg st /\ s_bkg st' = s_bkg st /\
  s_srcf st' = s_srcf st /\ s_gkey st' = s_gkey st /\ s_gv st' = s_gv st.

Lemma frame_frame_i a b : frame a b -> frame_i a b.
Proof. unfold frame, frame_i; intuition. Qed.

Lemma interp_lin_spec st v e x st' t r :
  CInv st -> s_view st = Some v -> s_evd st = Some e ->
  interp_lin W C st (v, s_ext st) e x = (st', t, r) ->
  r = pure_lin W (v, s_ext st) e x /\ CInv st' /\ frame_i st st'.
Proof.
  intros HI Ev Ee. unfold interp_lin, pure_lin.
  rewrite K_lin_x0_from, K_lin_key_sid, K_lin_key_x0, K_lin_x1_from.
  destruct (s_lin st) as [[csid cx0] cl] eqn:El.
  destruct (lin_is_cached csid (s_sid st) cx0 (glow W x)) eqn:Eh.
  - (* hit *)
    apply K_lin_is_cached in Eh. destruct Eh as [E1 E2]. subst csid cx0.
    destruct HI as (Hl & Hp & Hs & Hb).
    destruct (proj2 Hl v e (glow W x) cl Ev Ee El) as (xf & Exf & G0 & G1 & Ecl).
    rewrite Ecl. intros E; inversion E; subst; clear E.
    rewrite (Hgrid x xf Exf).
    unfold pure_sig. rewrite G0, G1. cbn.
    split; [reflexivity|]. split; [unfold CInv; auto | unfold frame_i; repeat split].
  - (* miss *)
    clear Eh.
    destruct (sig_eval W C st (v, s_ext st) e (glow W x)) as [[st1 t0] r0] eqn:E0.
    destruct (sig_eval_spec _ _ _ _ _ _ _ HI Ev Ee E0) as (R0 & I1 & F1).
    destruct r0 as [M0|er].
    + destruct F1 as (Fs & Fv & Ff & Fc & Fe & Fn & Fl & Fp & Fb & Fsf & Fgk & Fgv).
      assert (Ev1 : s_view st1 = Some v) by congruence.
      assert (Ee1 : s_evd st1 = Some e) by congruence.
      destruct (sig_eval W C st1 (v, s_ext st) e (gup W x)) as [[st2 t1] r1] eqn:E1.
      rewrite <- Ff in E1.
      destruct (sig_eval_spec _ _ _ _ _ _ _ I1 Ev1 Ee1 E1) as (R1 & I2 & F2).
      rewrite Ff in R1.
      destruct F2 as (Gs & Gv & Gf & Gc & Ge & Gn & Gl & Gp & Gb & Gsf & Ggk & Ggv).
      destruct r1 as [M1|er].
      * intros E; inversion E; subst; clear E.
        rewrite <- R0, <- R1. cbn.
        split; [reflexivity|]. split.
        -- apply CInv_set_lin; [exact I2|]. rewrite K_lin_store_sid, K_lin_store_x0.
           unfold lin_ok; cbn. split; [lia|].
           intros v' e' x0c cl' Ev' Ee' Ec. inversion Ec; subst; clear Ec.
           symmetry in R0, R1. apply pure_sig_ok in R0, R1. destruct R0 as [G0 W0]. destruct R1 as [G1 W1].
           exists x. repeat split; auto.
           assert (v' = v) by congruence. assert (e' = e) by congruence. subst v' e'.
           rewrite Gf, Ff. rewrite W0, W1. reflexivity.
        -- unfold frame_i, s_ext in *; cbn. repeat split; congruence.
      * intros E; inversion E; subst; clear E.
        rewrite <- R0, <- R1. cbn. split; [reflexivity|]. split; [exact I2|].
        unfold frame_i, s_ext in *. repeat split; congruence.
    + intros E; inversion E; subst; clear E. rewrite <- R0. cbn.
      split; [reflexivity|]. split; [exact I1 | apply frame_frame_i; exact F1].
Qed.


Lemma interp_par_spec st v e x st' t r :
  CInv st -> s_view st = Some v -> s_evd st = Some e ->
  interp_par W C st (v, s_ext st) e x = (st', t, r) ->
  r = pure_par W (v, s_ext st) e x /\ CInv st' /\ frame_i st st'.
Proof.
  intros HI Ev Ee. unfold interp_par, pure_par.
  destruct (s_par st) as [[csid cx1] cp] eqn:Ep.
  rewrite K_par_x1_from, K_par_key_sid, K_par_key_x1, K_par_key_differs, K_par_x0_arg, K_par_x2_arg,
    negb_involutive.
  destruct (par_sid_matches csid (s_sid st) && (cx1 =? gnear W x)) eqn:Eh.
  - (* hit *)
    apply andb_true_iff in Eh. destruct Eh as [E1 E2].
    apply K_par_sid_matches in E1. apply Z.eqb_eq in E2. subst csid cx1.
    destruct HI as (Hl & Hp & Hs & Hb).
    destruct (proj2 Hp v e (gnear W x) cp Ev Ee Ep) as (G0 & G1 & G2 & Ecp).
    rewrite Ecp. intros E; inversion E; subst; clear E.
    unfold pure_sig. rewrite G0, G1, G2. cbn.
    split; [reflexivity|]. split; [unfold CInv; auto | unfold frame_i; repeat split].
  - (* miss *)
    clear Eh.
    destruct (sig_eval W C st (v, s_ext st) e (gnear W (gnear W x - gdx W))) as [[st1 t0] r0] eqn:E0.
    destruct (sig_eval_spec _ _ _ _ _ _ _ HI Ev Ee E0) as (R0 & I1 & F1).
    destruct r0 as [M0|er].
    + destruct F1 as (Fs & Fv & Ff & Fc & Fe & Fn & Fl & Fp & Fb & Fsf & Fgk & Fgv).
      assert (Ev1 : s_view st1 = Some v) by congruence.
      assert (Ee1 : s_evd st1 = Some e) by congruence.
      destruct (sig_eval W C st1 (v, s_ext st) e (gnear W x)) as [[st2 t1] r1] eqn:E1.
      rewrite <- Ff in E1.
      destruct (sig_eval_spec _ _ _ _ _ _ _ I1 Ev1 Ee1 E1) as (R1 & I2 & F2).
      rewrite Ff in R1.
      destruct F2 as (Gs & Gv & Gf & Gc & Ge & Gn & Gl & Gp & Gb & Gsf & Ggk & Ggv).
      destruct r1 as [M1|er].
      * assert (Ev2 : s_view st2 = Some v) by congruence.
        assert (Ee2 : s_evd st2 = Some e) by congruence.
        assert (Hf2 : s_ext st2 = s_ext st) by congruence.
        destruct (sig_eval W C st2 (v, s_ext st) e (gnear W (gnear W x + gdx W))) as [[st3 t2] r2] eqn:E2.
        rewrite <- Hf2 in E2.
        destruct (sig_eval_spec _ _ _ _ _ _ _ I2 Ev2 Ee2 E2) as (R2 & I3 & F3).
        rewrite Hf2 in R2.
        destruct F3 as (Hs3 & Hv3 & Hf3 & Hc3 & He3 & Hn3 & Hl3 & Hp3 & Hb3 & Hsf3 & Hgk3 & Hgv3).
        destruct r2 as [M2|er].
        -- intros E; inversion E; subst; clear E.
           rewrite <- R0, <- R1, <- R2. cbn.
           split; [reflexivity|]. split.
           ++ apply CInv_set_par; [exact I3|]. rewrite K_par_store_sid, K_par_store_x1.
              unfold par_ok; cbn. split; [lia|].
              intros v' e' x1c cp' Ev' Ee' Ec. inversion Ec; subst; clear Ec.
              symmetry in R0, R1, R2. apply pure_sig_ok in R0, R1, R2.
              destruct R0 as [G0 W0]. destruct R1 as [G1 W1]. destruct R2 as [G2 W2].
              repeat split; auto.
              assert (v' = v) by congruence. assert (e' = e) by congruence. subst v' e'.
              rewrite Hf3, Hf2. rewrite W0, W1, W2. reflexivity.
           ++ unfold frame_i, s_ext in *; cbn. repeat split; congruence.
        -- intros E; inversion E; subst; clear E.
           rewrite <- R0, <- R1, <- R2. cbn. split; [reflexivity|]. split; [exact I3|].
           unfold frame_i, s_ext in *. repeat split; congruence.
      * intros E; inversion E; subst; clear E.
        rewrite <- R0, <- R1. cbn. split; [reflexivity|]. split; [exact I2|].
        unfold frame_i, s_ext in *. repeat split; congruence.
    + intros E; inversion E; subst; clear E. rewrite <- R0. cbn.
      split; [reflexivity|]. split; [exact I1 | apply frame_frame_i; exact F1].
Qed.

Lemma interp_spec st v e x st' t r :
  CInv st -> s_view st = Some v -> s_evd st = Some e ->
  interp W C st (v, s_ext st) e x = (st', t, r) ->
  r = pure_interp W C (v, s_ext st) e x /\ CInv st' /\ frame_i st st'.
Proof.
  unfold interp, pure_interp. destruct (c_par C); [apply interp_par_spec | apply interp_lin_spec].
Qed.

Lemma CInv_set_bkg_nsg st c n :
  CInv st -> bkg_ok (s_sid st) (s_view st) (s_ext st) c -> CInv (set_bkg_nsg W st c n).
Proof. intros (Hl & Hp & Hs & Hb) H. unfold CInv; cbn. auto. Qed.

(* ---- the DataField memo of the global-fit-parameter dependent field *)
(* no such field: no values *)
Definition NoG (st : State) : Prop :=
  (c_ngfp C <= 0 -> fst (s_gv st) = None) /\ (c_ngfp C <= 1 -> snd (s_gv st) = None).

(* a plain field's column in the events array, whenever it carries remembered
   parameter values, holds what the calculation function gives for them now *)
Definition Memo (st : State) : Prop :=
  c_gfp_srcevt C = false ->
  forall v, s_view st = Some v ->
    (forall k g, fst (s_gkey st) = Some k -> fst (s_gv st) = Some g -> g = Fg W v (s_srcf st) (s_cur st) k) /\
    (forall k g, snd (s_gkey st) = Some k -> snd (s_gv st) = Some g -> g = Fg2 W v (s_srcf st) (s_cur st) k).

(* configurations in which the memo is never consulted *)
Definition memo_free : bool := c_gfp_srcevt C || (c_ngfp C <=? 0).

Lemma Memo_free st : memo_free = true -> NoG st -> Memo st.
Proof.
  unfold memo_free, Memo, NoG. intros H (H0 & H1) Hs v _.
  rewrite Hs in H. cbn in H. apply Z.leb_le in H.
  split; intros k g _ Eg; [rewrite (H0 H) in Eg | rewrite H1 in Eg by lia]; discriminate.
Qed.

Lemma CInv_bump' st st' sid' :
  CInv st -> s_sid st < sid' ->
  s_lin st' = s_lin st -> s_par st' = s_par st -> s_sig st' = s_sig st -> s_bkg st' = s_bkg st ->
  CInv (set_sid W st' sid').
Proof.
  intros H Hlt E1 E2 E3 E4. unfold set_sid. rewrite E1, E2, E3, E4.
  exact (CInv_bump st sid' _ _ _ _ _ _ _ H Hlt).
Qed.

(* what gfp_step leaves untouched *)
Definition frame_g (st st' : State) : Prop :=
  s_view st' = s_view st /\ s_srcf st' = s_srcf st /\ s_cur st' = s_cur st /\
  s_evd st' = s_evd st /\ s_nsg st' = s_nsg st.

Definition frame_c (st st' : State) : Prop :=
  s_sid st' = s_sid st /\ s_lin st' = s_lin st /\ s_par st' = s_par st /\ s_sig st' = s_sig st /\
  s_bkg st' = s_bkg st.

Lemma miss1 st : gfp_name_missing 1 (cols W C st) =
  match c_gfp_srcevt C, fst (s_gv st) with false, Some _ => false | _, _ => true end.
Proof.
  unfold cols. rewrite K_gfp_is_srcevt, K_gfp_name_missing.
  destruct (c_gfp_srcevt C); [reflexivity|]. destruct (fst (s_gv st)); destruct (snd (s_gv st)); reflexivity.
Qed.
Lemma miss2 st : gfp_name_missing 2 (cols W C st) =
  match c_gfp_srcevt C, snd (s_gv st) with false, Some _ => false | _, _ => true end.
Proof.
  unfold cols. rewrite K_gfp_is_srcevt, K_gfp_name_missing.
  destruct (c_gfp_srcevt C); [reflexivity|]. destruct (fst (s_gv st)); destruct (snd (s_gv st)); reflexivity.
Qed.

Lemma field1_spec st v x st1 c1 :
  gfp_field1 W C st v x = (st1, c1) ->
  frame_g st st1 /\ frame_c st st1 /\ snd (s_gkey st1) = snd (s_gkey st) /\ snd (s_gv st1) = snd (s_gv st) /\
  (Memo st -> s_view st = Some v ->
     fst (s_gkey st1) = Some x /\ fst (s_gv st1) = Some (Fg W v (s_srcf st) (s_cur st) x)).
Proof.
  unfold gfp_field1. rewrite miss1, K_gfp_skip_calc, K_gfp_store_value.
  set (calc := match c_gfp_srcevt C, fst (s_gv st) with false, Some _ => false | _, _ => true end).
  destruct (if calc then true else gfp_value_differs x (fst (s_gkey st))) eqn:Ec; cbn [negb];
    intros E; inversion E; subst; clear E.
  - unfold frame_g, frame_c; cbn. repeat split.
  - unfold frame_g, frame_c. repeat split.
    + unfold calc in Ec. destruct (c_gfp_srcevt C) eqn:Es; [discriminate|].
      destruct (fst (s_gv st1)) as [g|] eqn:Eg; [|discriminate].
      apply K_gfp_value_differs in Ec. exact Ec.
    + unfold calc in Ec. destruct (c_gfp_srcevt C) eqn:Es; [discriminate|].
      destruct (fst (s_gv st1)) as [g|] eqn:Eg; [|discriminate].
      apply K_gfp_value_differs in Ec.
      rewrite (proj1 (H Es v H0) x g Ec Eg). reflexivity.
Qed.

Lemma field2_spec st v n st2 c2 :
  gfp_field2 W C st v n = (st2, c2) ->
  frame_g st st2 /\ frame_c st st2 /\ fst (s_gkey st2) = fst (s_gkey st) /\ fst (s_gv st2) = fst (s_gv st) /\
  (Memo st -> s_view st = Some v ->
     snd (s_gkey st2) = Some n /\ snd (s_gv st2) = Some (Fg2 W v (s_srcf st) (s_cur st) n)).
Proof.
  unfold gfp_field2. rewrite miss2, K_gfp_skip_calc, K_gfp_store_value.
  set (calc := match c_gfp_srcevt C, snd (s_gv st) with false, Some _ => false | _, _ => true end).
  destruct (if calc then true else gfp_value_differs n (snd (s_gkey st))) eqn:Ec; cbn [negb];
    intros E; inversion E; subst; clear E.
  - unfold frame_g, frame_c; cbn. repeat split.
  - unfold frame_g, frame_c. repeat split.
    + unfold calc in Ec. destruct (c_gfp_srcevt C) eqn:Es; [discriminate|].
      destruct (snd (s_gv st2)) as [g|] eqn:Eg; [|discriminate].
      apply K_gfp_value_differs in Ec. exact Ec.
    + unfold calc in Ec. destruct (c_gfp_srcevt C) eqn:Es; [discriminate|].
      destruct (snd (s_gv st2)) as [g|] eqn:Eg; [|discriminate].
      apply K_gfp_value_differs in Ec.
      rewrite (proj2 (H Es v H0) n g Ec Eg). reflexivity.
Qed.

(* a memo that holds the values of the current parameter point *)
Lemma Memo_of st v :
  s_view st = Some v ->
  (forall k g, fst (s_gkey st) = Some k -> fst (s_gv st) = Some g -> g = Fg W v (s_srcf st) (s_cur st) k) ->
  (forall k g, snd (s_gkey st) = Some k -> snd (s_gv st) = Some g -> g = Fg2 W v (s_srcf st) (s_cur st) k) ->
  Memo st.
Proof. intros Ev H1 H2 _ v' Ev'. assert (v' = v) by congruence. subst. split; assumption. Qed.

Lemma gfp_step_spec st v ns x st0 tg :
  CInv st -> NoG st -> s_view st = Some v -> gfp_step W C st v ns x = (st0, tg) ->
  CInv st0 /\ NoG st0 /\ frame_g st st0 /\
  (Memo st -> Memo st0 /\ s_ext st0 = snd (full_tv W C v (s_srcf st) (s_cur st) ns x)).
Proof.
  intros HI (HN0 & HN1) Ev. unfold gfp_step, full_tv, has_gfp_field, has_gfp_field2.
  rewrite K_llh_calc_gfp, K_tdm_has_gfp, K_tdm_gfp_skip.
  destruct (c_ngfp C >? 0) eqn:Epos.
  - assert (Hpos : c_ngfp C > 0) by (apply Z.gtb_lt in Epos; lia).
    assert (E0 : (c_ngfp C =? 0) = false) by (apply Z.eqb_neq; lia).
    rewrite E0. cbn [snd].
    destruct (gfp_field1 W C st v x) as [st1 c1] eqn:E1.
    destruct (field1_spec _ _ _ _ _ E1) as ((Gv & Gsf & Gc & Ge & Gn) & (Cs & Cl & Cp & Cg & Cb) & K1 & V1 & H1).
    destruct (2 <=? c_ngfp C) eqn:E2.
    + destruct (gfp_field2 W C st1 v ns) as [st2 c2] eqn:E3.
      assert (Ev1 : s_view st1 = Some v) by congruence.
      destruct (field2_spec _ _ _ _ _ E3) as ((Hv & Hsf & Hc & He & Hn) & (Ds & Dl & Dp & Dg & Db) & K2 & V2 & H2).
      intros E; inversion E; subst; clear E. rewrite K_tdm_gfp_bump.
      split; [apply (CInv_bump' st st2); [exact HI | lia | congruence..]|].
      split; [unfold NoG; cbn; split; intros; apply Z.leb_le in E2; lia|].
      split; [unfold frame_g; cbn; repeat split; congruence|].
      intros HM. destruct (H1 HM Ev) as (A1 & B1).
      assert (M1 : Memo st1).
      { intros Es v' Ev'. assert (v' = v) by congruence. subst v'. split.
        - intros k g Ek Eg. rewrite A1 in Ek. rewrite B1 in Eg. inversion Ek; inversion Eg; subst.
          rewrite Gsf, Gc. reflexivity.
        - intros k g Ek Eg. rewrite K1 in Ek. rewrite V1 in Eg. rewrite Gsf, Gc.
          apply (proj2 (HM Es v Ev) k g Ek Eg). }
      destruct (H2 M1 Ev1) as (A2 & B2).
      split.
      * apply (Memo_of _ v); cbn; [congruence | |].
        -- intros k g Ek Eg. rewrite K2, A1 in Ek. rewrite V2, B1 in Eg. inversion Ek; inversion Eg; subst.
           rewrite Hsf, Hc, Gsf, Gc. reflexivity.
        -- intros k g Ek Eg. rewrite A2 in Ek. rewrite B2 in Eg. inversion Ek; inversion Eg; subst.
           rewrite Hsf, Hc. reflexivity.
      * unfold s_ext; cbn. rewrite Hsf, Gsf. f_equal.
        rewrite (surjective_pairing (s_gv st2)), V2, B1, B2, Gsf, Gc. reflexivity.
    + intros E; inversion E; subst; clear E. rewrite K_tdm_gfp_bump.
      assert (Hle : c_ngfp C <= 1) by (apply Z.leb_gt in E2; lia).
      split; [apply (CInv_bump' st st1); [exact HI | lia | congruence..]|].
      split; [unfold NoG; cbn; split; intros; [lia | rewrite V1; apply HN1; assumption]|].
      split; [unfold frame_g; cbn; repeat split; congruence|].
      intros HM. destruct (H1 HM Ev) as (A1 & B1).
      split.
      * apply (Memo_of _ v); cbn; [congruence | |].
        -- intros k g Ek Eg. rewrite A1 in Ek. rewrite B1 in Eg. inversion Ek; inversion Eg; subst.
           rewrite Gsf, Gc. reflexivity.
        -- intros k g _ Eg. rewrite V1, (HN1 Hle) in Eg. discriminate.
      * unfold s_ext; cbn. rewrite Gsf. f_equal.
        rewrite (surjective_pairing (s_gv st1)), V1, B1, (HN1 Hle). reflexivity.
  - assert (Hle : c_ngfp C <= 0) by (destruct (Z.gtb_spec (c_ngfp C) 0); [discriminate | lia]).
    intros E; inversion E; subst; clear E.
    split; [exact HI|]. split; [split; assumption|]. split; [unfold frame_g; repeat split|].
    intros HM. split; [exact HM|].
    assert (E2 : (2 <=? c_ngfp C) = false) by (apply Z.leb_gt; lia).
    unfold s_ext. rewrite E2, (surjective_pairing (s_gv st0)), (HN0 Hle), HN1 by lia. reflexivity.
Qed.

Lemma full_tv_eq v sf cs ns x : full_tv W C v sf cs ns x = (v, snd (full_tv W C v sf cs ns x)).
Proof. reflexivity. Qed.

(* one evaluation: invariants kept; with a valid memo the output is the one of
   the cache-free evaluation *)
Lemma evaluate_body_spec st ns x st' r t :
  CInv st -> NoG st -> s_nsg st = None -> evaluate_body W C st ns x = (st', r, t) ->
  CInv st' /\ NoG st' /\ s_cur st' = s_cur st /\ s_srcf st' = s_srcf st /\ s_view st' = s_view st /\
  (Memo st -> sstep W C (abs st) (Evaluate W ns x) = (abs st', OEval W r) /\ Memo st').
Proof.
  intros HI HN Hnone. unfold evaluate_body, sstep, abs; cbn [ss_view ss_evd ss_srcf ss_cur ss_nsg].
  destruct (s_view st) as [v|] eqn:Ev.
  2:{ intros E; inversion E; subst. rewrite Ev, Hnone.
      split; [exact HI|]. split; [exact HN|]. split; [reflexivity|]. split; [reflexivity|].
      split; [reflexivity|]. intros HM. split; [reflexivity | exact HM]. }
  destruct (s_evd st) as [e|] eqn:Ee.
  2:{ intros E; inversion E; subst. rewrite Ev, Ee, Hnone.
      split; [exact HI|]. split; [exact HN|]. split; [reflexivity|]. split; [reflexivity|].
      split; [reflexivity|]. intros HM. split; [reflexivity | exact HM]. }
  destruct (gfp_step W C st v ns x) as [st0 tg] eqn:Eg.
  destruct (gfp_step_spec _ _ _ _ _ _ HI HN Ev Eg) as (I0 & N0 & (Gv & Gsf & Gc & Ge & Gn) & HM0).
  assert (Ev0 : s_view st0 = Some v) by congruence.
  assert (Ee0 : s_evd st0 = Some e) by congruence.
  destruct (interp W C st0 (v, s_ext st0) e x) as [[st1 t1] r1] eqn:Ei.
  destruct (interp_spec _ _ _ _ _ _ _ I0 Ev0 Ee0 Ei) as (R1 & I1 & F1).
  destruct F1 as (Fs & Fv & Ff & Fc & Fe & Fn & Fb & Fsf & Fgk & Fgv).
  destruct r1 as [o|er].
  - destruct (pdf_get W C (s_sid st1) (s_bkg st1) (Fbkg W (v, s_ext st0))) as [[b c] computed] eqn:Epg.
    intros E; inversion E; subst; clear E.
    destruct I1 as (Hl & Hp & Hs & Hb).
    assert (Ev1 : s_view st1 = Some v) by congruence.
    assert (Hok : pdfc_ok (s_sid st1) (s_bkg st1) (Fbkg W (v, s_ext st0))).
    { rewrite <- Ff. apply (proj2 Hb v Ev1). }
    destruct (pdf_get_spec _ _ _ _ _ _ (proj1 Hb) Hok Epg) as (E1 & K1 & O1). subst b.
    split.
    { apply CInv_set_bkg_nsg; [unfold CInv; auto|].
      split; [exact K1|]. intros v' Ev'. assert (v' = v) by congruence. subst v'. rewrite Ff. exact O1. }
    split; [unfold NoG in *; cbn; rewrite Fgv; exact N0|].
    cbn. split; [congruence|]. split; [congruence|]. split; [congruence|].
    intros HM. destruct (HM0 HM) as [M0 Ex]. split.
    + rewrite (full_tv_eq v (s_srcf st) (s_cur st) ns x), <- Ex.
      unfold pure_nsg, pure_eval. rewrite <- R1. cbn.
      rewrite Fv, Fsf, Fc, Fe, Gv, Gsf, Gc, Ge, Ev, Ee. reflexivity.
    + unfold Memo in *; cbn. rewrite Fgk, Fgv, Fv, Fsf, Fc. exact M0.
  - intros E; inversion E; subst; clear E.
    split; [exact I1|]. split; [unfold NoG in *; rewrite Fgv; exact N0|].
    split; [congruence|]. split; [congruence|]. split; [congruence|].
    intros HM. destruct (HM0 HM) as [M0 Ex]. split.
    + rewrite (full_tv_eq v (s_srcf st) (s_cur st) ns x), <- Ex.
      unfold pure_nsg, pure_eval. rewrite <- R1. cbn.
      rewrite Fv, Fsf, Fc, Fe, Fn, Gv, Gsf, Gc, Ge, Gn, Ev, Ee, Hnone. reflexivity.
    + unfold Memo in *. rewrite Fgk, Fgv, Fv, Fsf, Fc. exact M0.
Qed.

(* the specification's evaluation does not read the remembered ns-gradients *)
Lemma sstep_eval_forget st ns x :
  sstep W C (abs (forget_nsg W st)) (Evaluate W ns x) = sstep W C (abs st) (Evaluate W ns x).
Proof. unfold sstep, abs, forget_nsg; cbn. destruct (s_view st); [destruct (s_evd st)|]; reflexivity. Qed.

Lemma forget_inv st :
  CInv st -> NoG st ->
  CInv (forget_nsg W st) /\ NoG (forget_nsg W st) /\ s_nsg (forget_nsg W st) = None /\
  (Memo st -> Memo (forget_nsg W st)).
Proof.
  intros HI HN. unfold forget_nsg. rewrite K_ns2_reset_on_evaluate.
  split; [destruct HI as (a & b & c & d); apply CInv_set_bkg_nsg; [unfold CInv; auto | exact d]|].
  split; [exact HN|]. split; [reflexivity|]. intros HM. exact HM.
Qed.

Lemma evaluate_spec st ns x st' r t :
  CInv st -> NoG st -> evaluate W C st ns x = (st', r, t) ->
  CInv st' /\ NoG st' /\ s_cur st' = s_cur st /\ s_srcf st' = s_srcf st /\ s_view st' = s_view st /\
  (Memo st -> sstep W C (abs st) (Evaluate W ns x) = (abs st', OEval W r) /\ Memo st').
Proof.
  intros HI HN Ee. unfold evaluate in Ee.
  destruct (forget_inv st HI HN) as (I0 & N0 & Hn & HM0).
  destruct (evaluate_body_spec _ _ _ _ _ _ I0 N0 Hn Ee) as (A & B & Ec & Es & Ev & H).
  split; [exact A|]. split; [exact B|]. split; [exact Ec|]. split; [exact Es|]. split; [exact Ev|].
  intros HM. rewrite <- sstep_eval_forget. apply H, HM0, HM.
Qed.

Lemma ns_grad2_spec st ns :
  sstep W C (abs st) (NsGrad2 W ns) = (abs st, ONs2 W (ns_grad2 W st ns)).
Proof.
  unfold sstep, ns_grad2, abs, plain_tv; cbn [ss_view ss_evd ss_srcf ss_cur ss_nsg].
  destruct (s_nsg st) as [g|] eqn:En.
  - destruct (ns2_no_cache (Some 0)) eqn:Ek.
    + apply K_ns2_no_cache in Ek. discriminate.
    + destruct (s_view st); reflexivity.
  - destruct (ns2_no_cache None) eqn:Ek; [reflexivity|].
    assert (H : ns2_no_cache None = true) by (apply K_ns2_no_cache; reflexivity). congruence.
Qed.

Lemma abs_calc_source st s :
  abs (calc_source_fields W C st s) =
  mksst W (s_view st) (if has_src_fields C then Some s else s_srcf st) (s_cur st) (s_evd st) (s_nsg st).
Proof.
  unfold calc_source_fields, has_src_fields. rewrite K_tdm_src_skip.
  destruct (c_nsrc C =? 0); reflexivity.
Qed.

Lemma abs_init s0 : abs (init W C s0) = sinit W C s0.
Proof. unfold init. rewrite abs_calc_source. reflexivity. Qed.

(* the source data fields hold the values of the current source hypothesis *)
Definition MC (st : State) : Prop :=
  s_srcf st = (if has_src_fields C then Some (s_cur st) else None).

Lemma calc_source_gv st s : s_gv (calc_source_fields W C st s) = s_gv st /\
  s_gkey (calc_source_fields W C st s) = s_gkey st /\ s_cur (calc_source_fields W C st s) = s_cur st.
Proof. unfold calc_source_fields. destruct (tdm_src_skip (c_nsrc C)); cbn; auto. Qed.

Lemma init_inv s0 : NoG (init W C s0) /\ Memo (init W C s0) /\ MC (init W C s0) /\ s_cur (init W C s0) = s0.
Proof.
  unfold init. destruct (calc_source_gv
    (mkst W tdm_sid_initial None None s0 None (None, 0, None) (None, 0, None)
       (fun _ => mkpdfc W None None) (mkpdfc W None None) None (gfp_initial_value, gfp_initial_value) (None, None)) s0)
    as (E1 & E2 & E3).
  split; [unfold NoG; rewrite E1; split; intros _; reflexivity|].
  split; [unfold Memo; intros _ v _; rewrite E1; split; intros k g _ Eg; discriminate|].
  split; [|rewrite E3; reflexivity].
  unfold MC. rewrite E3. cbn.
  unfold calc_source_fields, has_src_fields. rewrite K_tdm_src_skip.
  destruct (c_nsrc C =? 0); reflexivity.
Qed.

(* every operation keeps the invariants; with a valid memo it gives the
   observation of the specification *)
Lemma step_spec st o st' ob t :
  CInv st -> NoG st -> step W C st o = (st', ob, t) ->
  CInv st' /\ NoG st' /\ (MC st -> MC st') /\ s_cur st' = src_after W (s_cur st) [o] /\
  (Memo st -> sstep W C (abs st) o = (abs st', ob)) /\
  match o with
  | ChangeSource _ _ => True
  | InitTrial _ _ => Memo st'
  | _ => Memo st -> Memo st'
  end.
Proof.
  intros HI HN. destruct o as [d|ns x|s|ns]; cbn [step].
  - intros E; inversion E; subst; clear E.
    split; [apply CInv_init_trial; exact HI|].
    split; [unfold NoG, init_trial in *; cbn; destruct HN as (H0 & H1);
            destruct (gfp_is_srcevt (c_gfp_srcevt C)); cbn; split; auto|].
    split; [unfold MC, init_trial; cbn; auto|].
    split; [reflexivity|].
    split; [intros _; unfold sstep, abs, init_trial, plain_tv; cbn; rewrite K_ns2_reset_on_new_trial; reflexivity|].
    unfold Memo, init_trial; cbn. rewrite K_gfp_reset_on_new_trial. intros _ v _. split; intros; discriminate.
  - destruct (evaluate W C st ns x) as [[st1 r] t1] eqn:Ee.
    intros E; inversion E; subst; clear E.
    destruct (evaluate_spec _ _ _ _ _ _ HI HN Ee) as (I1 & N1 & Ec & Esf & Ev & HM).
    split; [exact I1|]. split; [exact N1|].
    split; [unfold MC; rewrite Ec, Esf; auto|]. split; [exact Ec|].
    split; [intros M; apply (HM M) | intros M; apply (HM M)].
  - intros E; inversion E; subst; clear E.
    split; [apply CInv_change_source; exact HI|].
    unfold change_source.
    match goal with |- context [calc_source_fields W C ?a s] => destruct (calc_source_gv a s) as (E1 & E2 & E3) end.
    split; [unfold NoG in *; rewrite E1; cbn; exact HN|].
    split.
    { intros M. unfold MC in *. rewrite E3. cbn.
      unfold calc_source_fields, has_src_fields in *. rewrite K_tdm_src_skip.
      destruct (c_nsrc C =? 0); cbn in *; [exact M | reflexivity]. }
    split; [rewrite E3; reflexivity|].
    split; [|exact I]. intros _. rewrite abs_calc_source. reflexivity.
  - intros E; inversion E; subst; clear E.
    split; [exact HI|]. split; [exact HN|]. split; [auto|]. split; [reflexivity|].
    split; [intros _; apply ns_grad2_spec | auto].
Qed.

Lemma run_spec ops : forall st dirty,
  CInv st -> NoG st -> (dirty = false -> Memo st) ->
  memo_free = true \/ wseq W dirty ops = true ->
  observations W C st ops = srun W C (abs st) ops.
Proof.
  induction ops as [|o r IH]; intros st dirty HI HN HM HG; [reflexivity|].
  unfold observations in *. cbn [run srun].
  destruct (step W C st o) as [[st' ob] t] eqn:Es.
  destruct (step_spec _ _ _ _ _ HI HN Es) as (I1 & N1 & _ & _ & Hs & Hm).
  assert (M : (match o with Evaluate _ _ _ => Memo st | _ => True end)).
  { destruct o; try exact I. destruct HG as [HF|HW]; [apply Memo_free; assumption|].
    cbn in HW. apply andb_true_iff in HW. destruct HW as [Hd _]. apply negb_true_iff in Hd. auto. }
  destruct o as [d|ns x|s|ns].
  - (* InitTrial *)
    assert (Memo st \/ True) by auto.
    assert (E1 : sstep W C (abs st) (InitTrial W d) = (abs st', ob)).
    { clear - Es. cbn [step] in Es. inversion Es; subst.
      unfold sstep, abs, init_trial, plain_tv; cbn. rewrite K_ns2_reset_on_new_trial. reflexivity. }
    rewrite E1. cbn [map fst]. f_equal.
    apply (IH st' false I1 N1 (fun _ => Hm)).
    destruct HG as [HF|HW]; [left; exact HF | right; exact HW].
  - rewrite (Hs M). cbn [map fst]. f_equal.
    apply (IH st' dirty I1 N1 (fun _ => Hm M)).
    destruct HG as [HF|HW]; [left; exact HF|]. right. cbn in HW. apply andb_true_iff in HW. apply HW.
  - assert (E1 : sstep W C (abs st) (ChangeSource W s) = (abs st', ob)).
    { clear - Es. cbn [step] in Es. inversion Es; subst.
      unfold change_source. rewrite abs_calc_source. reflexivity. }
    rewrite E1. cbn [map fst]. f_equal.
    apply (IH st' true I1 N1); [intros; discriminate|].
    destruct HG as [HF|HW]; [left; exact HF | right; exact HW].
  - assert (E1 : sstep W C (abs st) (NsGrad2 W ns) = (abs st', ob)).
    { clear - Es. cbn [step] in Es. inversion Es; subst. apply ns_grad2_spec. }
    rewrite E1. cbn [map fst]. f_equal.
    assert (st' = st) by (cbn [step] in Es; inversion Es; reflexivity). subst st'.
    apply (IH st dirty I1 N1 HM).
    destruct HG as [HF|HW]; [left; exact HF | right; exact HW].
Qed.

(* T1: every observation equals the one of the cache-free specification — for
   every history when no plain global-fit-parameter field exists, and for every
   history that initialises a new trial after a source change before it
   evaluates when one exists *)
Theorem refines s0 ops :
  c_ngfp C <= 0 \/ c_gfp_srcevt C = true \/ wseq W false ops = true ->
  observations W C (init W C s0) ops = srun W C (sinit W C s0) ops.
Proof.
  intros HG. rewrite <- abs_init. destruct (init_inv s0) as (N & M & _ & _).
  apply (run_spec ops (init W C s0) false (CInv_init s0) N (fun _ => M)).
  unfold memo_free. destruct HG as [H|[H|H]].
  - left. apply orb_true_iff. right. apply Z.leb_le, H.
  - left. rewrite H. reflexivity.
  - right. exact H.
Qed.

(* invariants of the state after any history *)
Lemma mfinal_inv ops : forall st, CInv st -> NoG st -> MC st ->
  CInv (mfinal W C st ops) /\ NoG (mfinal W C st ops) /\ MC (mfinal W C st ops) /\
  s_cur (mfinal W C st ops) = src_after W (s_cur st) ops.
Proof.
  induction ops as [|o r IH]; intros st HI HN HC; [auto|].
  cbn [mfinal]. destruct (step W C st o) as [[st' ob] t] eqn:Es. cbn [fst].
  destruct (step_spec _ _ _ _ _ HI HN Es) as (I1 & N1 & C1 & Ec & _ & _).
  destruct (IH st' I1 N1 (C1 HC)) as (A & B & D & E).
  split; [exact A|]. split; [exact B|]. split; [exact D|].
  rewrite E, Ec. destruct o; reflexivity.
Qed.

Lemma run_app a : forall st b,
  observations W C st (a ++ b) = observations W C st a ++ observations W C (mfinal W C st a) b.
Proof.
  induction a as [|o r IH]; intros st b; [reflexivity|].
  unfold observations in *. cbn [app run mfinal].
  destruct (step W C st o) as [[st' ob] t] eqn:Es. cbn [fst map]. rewrite IH. reflexivity.
Qed.

End Refine.

(* ------------------------------------------------------------------ part 3 *)
Section Fresh.
Variable W : world.
Variable C : cfg.

Definition srcf_of (s : src W) : option (src W) := if has_src_fields C then Some s else None.
Definition sconsistent (s : sstate W) : Prop := ss_srcf s = srcf_of (ss_cur s).

Lemma srun_app a : forall s b, srun W C s (a ++ b) = srun W C s a ++ srun W C (sfinal W C s a) b.
Proof.
  induction a as [|o r IH]; intros s b; [reflexivity|].
  cbn [app srun sfinal]. destruct (sstep W C s o) as [s' ob] eqn:E. cbn [fst].
  rewrite IH. reflexivity.
Qed.

Lemma sinit_consistent s0 : sconsistent (sinit W C s0).
Proof. reflexivity. Qed.

(* the state right after a trial was initialised with data d *)
Definition trial_state (c : src W) (d : data W) (n : option (G W)) : sstate W :=
  mksst W (Some (mkview d c)) (srcf_of c) c (Some (plain_tv W (mkview d c) (srcf_of c))) n.

Lemma sstep_init_trial s d :
  sconsistent s -> sstep W C s (InitTrial W d) = (trial_state (ss_cur s) d None, ONone W).
Proof. unfold sconsistent, trial_state. intros H. cbn. rewrite H. reflexivity. Qed.

(* evaluations and second derivatives leave everything but the ns-gradients *)
Lemma sfinal_queries mid : forall c d n, forallb (is_query W) mid = true ->
  exists n', sfinal W C (trial_state c d n) mid = trial_state c d n'.
Proof.
  induction mid as [|o r IH]; intros c d n H; [exists n; reflexivity|].
  cbn [forallb] in H. apply andb_true_iff in H. destruct H as [Hq Hr].
  cbn [sfinal]. destruct o as [d'|ns x|s'|ns]; try discriminate; cbn.
  - apply IH, Hr.
  - apply IH, Hr.
Qed.

Lemma sfinal_ns2 tail : forall s, forallb (is_ns2 W) tail = true -> sfinal W C s tail = s.
Proof.
  induction tail as [|o r IH]; intros s H; [reflexivity|].
  cbn [forallb] in H. apply andb_true_iff in H. destruct H as [Hq Hr].
  destruct o; try discriminate. cbn. apply IH, Hr.
Qed.

Lemma sfinal_app a : forall b s, sfinal W C s (a ++ b) = sfinal W C (sfinal W C s a) b.
Proof. induction a as [|q r IH]; intros b s; [reflexivity | cbn [app sfinal]; apply IH]. Qed.

Lemma last_mid {A} (a : list A) b c x d : last (a ++ b :: c ++ [x]) d = x.
Proof.
  replace (a ++ b :: c ++ [x]) with ((a ++ b :: c) ++ [x]) by (rewrite <- app_assoc; reflexivity).
  apply last_last.
Qed.

Lemma wseq_queries l : forall r, forallb (is_query W) l = true -> wseq W false (l ++ r) = wseq W false r.
Proof.
  induction l as [|o t IH]; intros r H; [reflexivity|].
  cbn [forallb] in H. apply andb_true_iff in H. destruct H as [Hq Hr].
  destruct o; try discriminate; cbn; apply IH, Hr.
Qed.

Lemma ns2_is_query l : forallb (is_ns2 W) l = true -> forallb (is_query W) l = true.
Proof.
  induction l as [|o t IH]; intros H; [reflexivity|].
  cbn [forallb] in *. apply andb_true_iff in H. destruct H as [Hq Hr].
  destruct o; try discriminate. cbn. apply IH, Hr.
Qed.

(* what the PDFs read in a trial with data d initialised for source c *)
Definition cur_tvx (c : src W) (d : data W) (ns x : Z) := full_tv W C (mkview d c) (srcf_of c) c ns x.
Definition evd_tv (c : src W) (d : data W) := plain_tv W (mkview d c) (srcf_of c).

Lemma L_eval sp d mid ns x :
  sconsistent sp -> forallb (is_query W) mid = true ->
  srun W C sp (InitTrial W d :: mid ++ [Evaluate W ns x]) =
  ONone W :: srun W C (trial_state (ss_cur sp) d None) mid ++
    [OEval W (pure_eval W C (cur_tvx (ss_cur sp) d ns x) (evd_tv (ss_cur sp) d) ns x)].
Proof.
  intros Hc Hq. cbn [srun]. rewrite (sstep_init_trial _ d Hc). f_equal.
  rewrite srun_app. f_equal.
  destruct (sfinal_queries mid (ss_cur sp) d None Hq) as [n' En]. rewrite En. reflexivity.
Qed.

Lemma L_ns2 sp d mid ns x tail n :
  sconsistent sp -> forallb (is_query W) mid = true -> forallb (is_ns2 W) tail = true ->
  srun W C sp (InitTrial W d :: (mid ++ Evaluate W ns x :: tail) ++ [NsGrad2 W n]) =
  ONone W :: srun W C (trial_state (ss_cur sp) d None) (mid ++ Evaluate W ns x :: tail) ++
    [ONs2 W (match pure_nsg W C (cur_tvx (ss_cur sp) d ns x) (evd_tv (ss_cur sp) d) ns x with
             | Some g => Ok (g2 W g (evd_tv (ss_cur sp) d) n)
             | None => Err RuntimeError
             end)].
Proof.
  intros Hc Hq Ht. cbn [srun]. rewrite (sstep_init_trial _ d Hc). f_equal.
  rewrite srun_app. f_equal.
  destruct (sfinal_queries mid (ss_cur sp) d None Hq) as [n' En].
  rewrite sfinal_app, En.
  cbn [sfinal sstep trial_state ss_view ss_evd ss_srcf ss_cur ss_nsg fst].
  fold (cur_tvx (ss_cur sp) d ns x). fold (evd_tv (ss_cur sp) d).
  rewrite (sfinal_ns2 tail _ Ht). cbn [srun sstep ss_nsg ss_view ss_srcf].
  destruct (pure_nsg W C (cur_tvx (ss_cur sp) d ns x) (evd_tv (ss_cur sp) d) ns x); reflexivity.
Qed.

Lemma L_ns2_none sp d tail n :
  sconsistent sp -> forallb (is_ns2 W) tail = true ->
  srun W C sp (InitTrial W d :: tail ++ [NsGrad2 W n]) =
  ONone W :: srun W C (trial_state (ss_cur sp) d None) tail ++ [ONs2 W (Err RuntimeError)].
Proof.
  intros Hc Ht. cbn [srun]. rewrite (sstep_init_trial _ d Hc). f_equal.
  rewrite srun_app. f_equal. rewrite (sfinal_ns2 tail _ Ht). reflexivity.
Qed.

End Fresh.

(* the statements about histories, for the model with caches *)
Section ModelLevel.
Variable W : world.
Variable C : cfg.
Hypothesis Hgrid : grid_ok W.

(* the objects after any history `pre` *)
Lemma after_pre s0 pre :
  let stp := mfinal W C (init W C s0) pre in
  CInv W stp /\ NoG W C stp /\ sconsistent W C (abs W stp) /\ ss_cur (abs W stp) = src_after W s0 pre.
Proof.
  cbv zeta. destruct (init_inv W C s0) as (N & _ & M & Ec).
  destruct (mfinal_inv W C Hgrid pre (init W C s0) (CInv_init W C s0) N M) as (A & B & D & E).
  split; [exact A|]. split; [exact B|]. split; [exact D|]. cbn. rewrite E, Ec. reflexivity.
Qed.

Lemma obs_suffix s0 pre d rest :
  wseq W false rest = true ->
  observations W C (init W C s0) (pre ++ InitTrial W d :: rest) =
  observations W C (init W C s0) pre ++
    srun W C (abs W (mfinal W C (init W C s0) pre)) (InitTrial W d :: rest).
Proof.
  intros Hw. rewrite run_app. f_equal.
  destruct (after_pre s0 pre) as (A & B & _ & _).
  apply (run_spec W C Hgrid _ _ true A B); [intros; discriminate|]. right. exact Hw.
Qed.

Lemma obs_fresh c ops :
  wseq W false ops = true ->
  observations W C (init W C c) ops = srun W C (sinit W C c) ops.
Proof. intros H. apply (refines W C Hgrid). right. right. exact H. Qed.

Theorem eval_fresh s0 pre d mid ns x :
  forallb (is_query W) mid = true ->
  last (observations W C (init W C s0) (pre ++ InitTrial W d :: mid ++ [Evaluate W ns x])) (ONone W) =
  last (observations W C (init W C (src_after W s0 pre)) [InitTrial W d; Evaluate W ns x]) (ONone W).
Proof.
  intros Hq. destruct (after_pre s0 pre) as (_ & _ & Hc & Ec).
  rewrite obs_suffix by (rewrite (wseq_queries W mid _ Hq); reflexivity).
  rewrite (L_eval W C _ d mid ns x Hc Hq), last_mid, Ec.
  rewrite obs_fresh by reflexivity.
  change [InitTrial W d; Evaluate W ns x] with (InitTrial W d :: [] ++ [Evaluate W ns x]).
  rewrite (L_eval W C _ d [] ns x (sinit_consistent W C _) eq_refl). reflexivity.
Qed.

(* the second derivative after an evaluation of the current trial — whether that
   evaluation returned a value or raised — is the one on freshly built objects *)
Theorem ns2_fresh s0 pre d mid ns x tail n :
  forallb (is_query W) mid = true -> forallb (is_ns2 W) tail = true ->
  last (observations W C (init W C s0)
          (pre ++ InitTrial W d :: (mid ++ Evaluate W ns x :: tail) ++ [NsGrad2 W n])) (ONone W) =
  last (observations W C (init W C (src_after W s0 pre)) [InitTrial W d; Evaluate W ns x; NsGrad2 W n]) (ONone W).
Proof.
  intros Hq Ht. destruct (after_pre s0 pre) as (_ & _ & Hc & Ec).
  assert (Hw : wseq W false ((mid ++ Evaluate W ns x :: tail) ++ [NsGrad2 W n]) = true).
  { rewrite <- app_assoc. rewrite (wseq_queries W mid _ Hq). cbn.
    rewrite (wseq_queries W tail _ (ns2_is_query W tail Ht)). reflexivity. }
  rewrite obs_suffix by exact Hw.
  rewrite (L_ns2 W C _ d mid ns x tail n Hc Hq Ht), last_mid, Ec.
  rewrite obs_fresh by reflexivity.
  change [InitTrial W d; Evaluate W ns x; NsGrad2 W n]
    with (InitTrial W d :: ([] ++ Evaluate W ns x :: []) ++ [NsGrad2 W n]).
  rewrite (L_ns2 W C _ d [] ns x [] n (sinit_consistent W C _) eq_refl eq_refl). reflexivity.
Qed.

Theorem ns2_needs_eval s0 pre d tail n :
  forallb (is_ns2 W) tail = true ->
  last (observations W C (init W C s0) (pre ++ InitTrial W d :: tail ++ [NsGrad2 W n])) (ONone W) =
  ONs2 W (Err RuntimeError).
Proof.
  intros Ht. destruct (after_pre s0 pre) as (_ & _ & Hc & _).
  rewrite obs_suffix by (rewrite (wseq_queries W tail _ (ns2_is_query W tail Ht)); reflexivity).
  rewrite (L_ns2_none W C _ d tail n Hc Ht), last_mid. reflexivity.
Qed.

End ModelLevel.

(* the code's regular grid satisfies the grid premise: lower and upper grid
   point are computed from the same interval count *)
Lemma zgrid_ok lb d : forall x y, zlow lb d x = zlow lb d y -> zup lb d x = zup lb d y.
Proof. unfold zlow, zup. intros x y H. rewrite !K_grid_up, H. reflexivity. Qed.

Lemma wfree_grid_ok lb d lo hi : grid_ok (wfree lb d lo hi).
Proof. unfold grid_ok; cbn. apply zgrid_ok. Qed.

(* ------------------------------------------------------------------ witnesses
   The guards of T1-T3 are needed (faithful model = the code): *)
Definition Wd := wfree 100 100 100 400.

Lemma neq_by {A B} (f : A -> B) (a b : A) : f a <> f b -> a <> b.
Proof. intros H E. apply H. rewrite E. reflexivity. Qed.

(* small distinguishing features of observations of the free world *)
Definition ns2_is_ok (o : obs Wd) : bool := match o with ONs2 _ (Ok _) => true | _ => false end.
Definition eval_elt (k : nat) (o : obs Wd) : Z := match o with OEval _ (Ok l) => nth k l 0 | _ => 0 end.

Lemma source_change_without_new_trial_witness :
  let C := mkcfg 1 0 0 true false 0 false in
  last (observations Wd C (init Wd C 7)
          [InitTrial Wd 1; ChangeSource Wd 8; Evaluate Wd 5 250]) (ONone Wd)
  <> last (observations Wd C (init Wd C 8) [InitTrial Wd 1; Evaluate Wd 5 250]) (ONone Wd).
Proof. cbv zeta. apply (neq_by (eval_elt 4)). vm_compute. discriminate. Qed.

(* a plain global-fit-parameter field keeps its column when the source changes
   within a trial: an evaluation at the same parameter value re-uses it *)
Lemma plain_gfp_memo_witness :
  let C := mkcfg 0 0 0 true false 1 false in
  observations Wd C (init Wd C 7)
    [InitTrial Wd 1; Evaluate Wd 5 250; ChangeSource Wd 8; Evaluate Wd 5 250]
  <> srun Wd C (sinit Wd C 7)
    [InitTrial Wd 1; Evaluate Wd 5 250; ChangeSource Wd 8; Evaluate Wd 5 250].
Proof. cbv zeta. apply (neq_by (fun l => eval_elt 10 (nth 3 l (ONone Wd)))). vm_compute. discriminate. Qed.

Lemma source_change_without_new_trial_refuted :
  exists (W : world) (C : cfg) (s0 s1 : src W) (d : data W) (ns x : Z),
    last (observations W C (init W C s0)
            [InitTrial W d; ChangeSource W s1; Evaluate W ns x]) (ONone W)
    <> last (observations W C (init W C s1) [InitTrial W d; Evaluate W ns x]) (ONone W).
Proof.
  exists Wd, (mkcfg 1 0 0 true false 0 false), 7, 8, 1, 5, 250.
  exact source_change_without_new_trial_witness.
Qed.

Lemma plain_gfp_memo_refuted :
  exists (W : world) (C : cfg) (s0 : src W) (ops : list (op W)),
    (forall x y, glow W x = glow W y -> gup W x = gup W y) /\
    observations W C (init W C s0) ops <> srun W C (sinit W C s0) ops.
Proof.
  exists Wd, (mkcfg 0 0 0 true false 1 false), 7,
    [InitTrial Wd 1; Evaluate Wd 5 250; ChangeSource Wd 8; Evaluate Wd 5 250].
  split; [exact (wfree_grid_ok 100 100 100 400) | exact plain_gfp_memo_witness].
Qed.

Lemma key_tests_exact :
  (forall c s xc x, lin_is_cached c s xc x = true <-> c = Some s /\ xc = x) /\
  (forall c s xc x, par_sid_matches c s && negb (par_key_differs xc x) = true <-> c = Some s /\ xc = x) /\
  (forall c s, pd_cache_invalid c s = false <-> c = Some s) /\
  (forall c s kc k, negb (i3_sid_none c) && negb (i3_sid_differs c s) && negb (i3_key_differs kc k) = true
                    <-> c = Some s /\ kc = k) /\
  (forall x m, gfp_value_differs x m = false <-> m = Some x).
Proof.
  split; [exact K_lin_is_cached|].
  split; [|split; [exact K_pd_cache_invalid | split; [exact K_i3_is_cached | exact K_gfp_value_differs]]].
  intros c s xc x. rewrite K_par_key_differs, negb_involutive, andb_true_iff, K_par_sid_matches, Z.eqb_eq.
  reflexivity.
Qed.

Lemma state_id_bumps :
  (forall s, tdm_init_bump s > s) /\ (forall s, tdm_src_bump s > s) /\ (forall s, tdm_pre_bump s > s) /\
  (forall s, tdm_stat_bump s > s) /\ (forall s, tdm_gfp_bump s > s) /\
  (forall (W : world) (C : cfg) (st : state W) (d : data W), s_sid (init_trial W C st d) > s_sid st).
Proof.
  repeat split; intros.
  - rewrite K_tdm_init_bump; lia.
  - rewrite K_tdm_src_bump; lia.
  - rewrite K_tdm_pre_bump; lia.
  - rewrite K_tdm_stat_bump; lia.
  - rewrite K_tdm_gfp_bump; lia.
  - unfold init_trial; cbn [s_sid].
    rewrite K_tdm_init_bump, K_tdm_pre_skip, K_tdm_stat_skip, K_tdm_pre_bump.
    destruct (c_npre C =? 0); destruct (c_nstat C =? 0); rewrite ?K_tdm_stat_bump; lia.
Qed.

(* ------------------------------------------------------------------ part 4
   two datasets (MultiDatasetTCLLHRatio) and the ns-profile function with its
   remembered null-hypothesis value *)
Section MultiRefine.
Variable W : world.
Variable C : cfg.
Variable MW : mworld W.
Variable MC : mcfg.
Hypothesis Hgrid : grid_ok W.
Hypothesis Hfree : memo_free C = true.     (* no plain global-fit-parameter field *)

Definition mabs (s : mstate W MW) : msstate W MW :=
  mkms W MW (abs W (m1 W MW s)) (abs W (m2 W MW s)) (m_l0 W MW s) (m_wsrc W MW s).

Definition MInv (s : mstate W MW) : Prop :=
  CInv W (m1 W MW s) /\ NoG W C (m1 W MW s) /\ CInv W (m2 W MW s) /\ NoG W C (m2 W MW s).

Lemma comp_step st o st' ob t :
  CInv W st -> NoG W C st -> step W C st o = (st', ob, t) ->
  sstep W C (abs W st) o = (abs W st', ob) /\ CInv W st' /\ NoG W C st' /\
  s_cur st' = src_after W (s_cur st) [o].
Proof.
  intros HI HN Es.
  destruct (step_spec W C Hgrid _ _ _ _ _ HI HN Es) as (I1 & N1 & _ & Ec & Hs & _).
  split; [apply Hs, (Memo_free W C st Hfree HN)|]. auto.
Qed.

Lemma comp_eval st ns x st' r t :
  CInv W st -> NoG W C st -> evaluate W C st ns x = (st', r, t) ->
  sstep W C (abs W st) (Evaluate W ns x) = (abs W st', OEval W r) /\ CInv W st' /\ NoG W C st' /\
  s_cur st' = s_cur st.
Proof.
  intros HI HN Ee.
  assert (Es : step W C st (Evaluate W ns x) = (st', OEval W r, t)) by (cbn [step]; rewrite Ee; reflexivity).
  destruct (comp_step _ _ _ _ _ HI HN Es) as (A & B & D & E). auto.
Qed.

Lemma meval2_spec s ns x s' r t :
  MInv s -> meval2 W C MW s ns x = (s', r, t) ->
  mseval2 W C MW (mabs s) ns x = (mabs s', r) /\ MInv s' /\
  s_cur (m1 W MW s') = s_cur (m1 W MW s).
Proof.
  intros (I1 & N1 & I2 & N2). unfold meval2, mseval2, mabs; cbn [p1 p2 p_l0 p_wsrc].
  change (ss_cur (abs W (m1 W MW s))) with (s_cur (m1 W MW s)).
  destruct (evaluate W C (m1 W MW s) (nsf MW (s_cur (m1 W MW s)) 0 ns) x) as [[a r1] t1] eqn:E1.
  destruct (comp_eval _ _ _ _ _ _ I1 N1 E1) as (S1 & Ia & Na & Ca). rewrite S1. cbn [obs_eval].
  destruct r1 as [o1|e].
  - destruct (evaluate W C (m2 W MW s) (nsf MW (s_cur (m1 W MW s)) 1 ns) x) as [[b r2] t2] eqn:E2.
    destruct (comp_eval _ _ _ _ _ _ I2 N2 E2) as (S2 & Ib & Nb & Cb). rewrite S2. cbn [obs_eval].
    destruct r2 as [o2|e]; intros E; inversion E; subst; cbn; (split; [reflexivity|]); (split; [|exact Ca]);
      unfold MInv; cbn; auto.
  - intros E; inversion E; subst; cbn. split; [reflexivity|]. split; [|exact Ca]. unfold MInv; cbn; auto.
Qed.

Lemma comp_init st d :
  CInv W st -> NoG W C st ->
  fst (sstep W C (abs W st) (InitTrial W d)) = abs W (init_trial W C st d) /\
  CInv W (init_trial W C st d) /\ NoG W C (init_trial W C st d).
Proof.
  intros HI HN.
  destruct (comp_step st (InitTrial W d) (init_trial W C st d) (ONone W) [] HI HN eq_refl) as (A & B & D & _).
  rewrite A. auto.
Qed.

Lemma comp_src st sr :
  CInv W st -> NoG W C st ->
  fst (sstep W C (abs W st) (ChangeSource W sr)) = abs W (change_source W C st sr) /\
  CInv W (change_source W C st sr) /\ NoG W C (change_source W C st sr).
Proof.
  intros HI HN.
  destruct (comp_step st (ChangeSource W sr) (change_source W C st sr) (ONone W) [] HI HN eq_refl) as (A & B & D & _).
  rewrite A. auto.
Qed.

Lemma comp_ns2 st n : CInv W st -> NoG W C st ->
  obs_ns2 W (snd (sstep W C (abs W st) (NsGrad2 W n))) = ns_grad2 W st n.
Proof.
  intros HI HN.
  destruct (comp_step st (NsGrad2 W n) st (ONs2 W (ns_grad2 W st n)) [] HI HN eq_refl) as (A & _).
  rewrite A. reflexivity.
Qed.

Lemma mstep_spec s o s' ob t :
  MInv s -> mstep W C MW MC s o = (s', ob, t) ->
  msstep W C MW MC (mabs s) o = (mabs s', ob) /\ MInv s'.
Proof.
  intros HI. pose proof HI as (I1 & N1 & I2 & N2). destruct o as [d1 d2|ns x|sr|n]; cbn [mstep msstep].
  - destruct (comp_init _ d1 I1 N1) as (A1 & B1 & D1). destruct (comp_init _ d2 I2 N2) as (A2 & B2 & D2).
    unfold mabs at 1 2 3 4; cbn [p1 p2 p_l0 p_wsrc]. rewrite A1, A2.
    set (s1 := mkm W MW (init_trial W C (m1 W MW s) d1) (init_trial W C (m2 W MW s) d2) (m_l0 W MW s) (m_wsrc W MW s)).
    assert (Hs1 : MInv s1) by (unfold MInv, s1; cbn; auto).
    change (mkms W MW (abs W (init_trial W C (m1 W MW s) d1)) (abs W (init_trial W C (m2 W MW s) d2))
              (m_l0 W MW s) (m_wsrc W MW s)) with (mabs s1).
    rewrite K_prof_logL0_arg, K_prof_logL0_point.
    destruct (m_profile MC).
    + destruct (meval2 W C MW s1 (m_ns0 MC) (m_x0 MC)) as [[s2 r] t2] eqn:Ee.
      destruct (meval2_spec _ _ _ _ _ _ Hs1 Ee) as (S & I' & _). rewrite S.
      destruct r as [v|e]; intros E; inversion E; subst; cbn; (split; [reflexivity|]).
      * destruct I' as (a & b & c & d). unfold MInv; cbn; auto.
      * exact I'.
    + intros E; inversion E; subst. split; [reflexivity | exact Hs1].
  - destruct (meval2 W C MW s ns x) as [[s2 r] t2] eqn:Ee.
    destruct (meval2_spec _ _ _ _ _ _ HI Ee) as (S & I' & _). rewrite S.
    intros E; inversion E; subst. split; [reflexivity | exact I'].
  - destruct (comp_src _ sr I1 N1) as (A1 & B1 & D1). destruct (comp_src _ sr I2 N2) as (A2 & B2 & D2).
    unfold mabs at 1 2 3 4; cbn [p1 p2 p_l0 p_wsrc]. rewrite A1, A2.
    intros E; inversion E; subst. split; [reflexivity|]. unfold MInv; cbn; auto.
  - unfold mabs at 1 2 3 4 5; cbn [p1 p2 p_l0 p_wsrc].
    intros E; inversion E; subst. split; [|exact HI].
    destruct (m_wsrc W MW s') as [ws|]; [|reflexivity].
    rewrite (comp_ns2 _ _ I1 N1), (comp_ns2 _ _ I2 N2). reflexivity.
Qed.

Lemma mrun_spec ops : forall s, MInv s ->
  mobservations W C MW MC s ops = msrun W C MW MC (mabs s) ops.
Proof.
  induction ops as [|o r IH]; intros s HI; [reflexivity|].
  unfold mobservations in *. cbn [mrun msrun].
  destruct (mstep W C MW MC s o) as [[s' ob] t] eqn:Es.
  destruct (mstep_spec _ _ _ _ _ HI Es) as [E1 I1]. rewrite E1. cbn [map fst]. rewrite (IH s' I1). reflexivity.
Qed.

(* T5: two datasets with or without the ns-profile function: for EVERY history
   every observation equals the one of the cache-free specification, in which
   the null-hypothesis value is recomputed from the trial at every
   initialisation *)
Theorem mrefines s0 ops :
  mobservations W C MW MC (minit W C MW s0) ops = msrun W C MW MC (msinit W C MW s0) ops.
Proof.
  assert (E : mabs (minit W C MW s0) = msinit W C MW s0).
  { unfold mabs, minit, msinit; cbn. rewrite abs_init. reflexivity. }
  rewrite <- E. apply mrun_spec.
  destruct (init_inv W C s0) as (N & _ & _ & _).
  unfold MInv, minit; cbn. split; [apply CInv_init|]. split; [exact N|]. split; [apply CInv_init | exact N].
Qed.

End MultiRefine.

(* ------------------------------------------------------------------ part 5
   maximisation result and test statistic: the minimiser as an oracle *)
Section MaxRefine.
Variable W : world.
Variable C : cfg.
Hypothesis Hgrid : grid_ok W.
Variable MaxOut : Type.
Variable strat : qlog W -> option (Z * Z).
Variable pick : qlog W -> MaxOut.

(* every query of the minimiser is answered like on objects without caches *)
Lemma max_loop_spec fuel : forall st h st' h' t,
  CInv W st -> NoG W C st -> Memo W C st ->
  max_loop W C strat fuel st h = (st', h', t) ->
  smax_loop W C strat fuel (abs W st) h = (abs W st', h') /\
  CInv W st' /\ NoG W C st' /\ Memo W C st' /\ s_cur st' = s_cur st /\ s_srcf st' = s_srcf st.
Proof.
  induction fuel as [|f IH]; intros st h st' h' t HI HN HM; cbn [max_loop smax_loop].
  - intros E; inversion E; subst. auto 10.
  - destruct (strat h) as [[ns x]|]; [|intros E; inversion E; subst; auto 10].
    destruct (evaluate W C st ns x) as [[st1 r] t1] eqn:Ee.
    destruct (evaluate_spec W C Hgrid _ _ _ _ _ _ HI HN Ee) as (I1 & N1 & Ec & Esf & _ & H1).
    destruct (H1 HM) as (S1 & M1). rewrite S1. cbn [obs_eval].
    destruct (max_loop W C strat f st1 (h ++ [(ns, x, r)])) as [[st2 h2] t2] eqn:El.
    intros E; inversion E; subst.
    destruct (IH _ _ _ _ _ I1 N1 M1 El) as (A & B & D & F & G & K).
    split; [exact A|]. split; [exact B|]. split; [exact D|]. split; [exact F|]. split; congruence.
Qed.

(* the queries made by a maximisation are evaluations: a maximisation leaves
   the objects in a state that some list of evaluate operations leaves *)
Lemma max_loop_ops fuel : forall st h, exists evs,
  forallb (is_query W) evs = true /\ fst (fst (max_loop W C strat fuel st h)) = mfinal W C st evs.
Proof.
  induction fuel as [|f IH]; intros st h; cbn [max_loop].
  - exists []. split; reflexivity.
  - destruct (strat h) as [[ns x]|]; [|exists []; split; reflexivity].
    destruct (evaluate W C st ns x) as [[st1 r] t1] eqn:Ee.
    destruct (IH st1 (h ++ [(ns, x, r)])) as (evs & Hq & Hf).
    destruct (max_loop W C strat f st1 (h ++ [(ns, x, r)])) as [[st2 h2] t2] eqn:El. cbn [fst] in *.
    exists (Evaluate W ns x :: evs). split; [cbn; exact Hq|].
    cbn [mfinal step]. rewrite Ee. cbn [fst]. exact Hf.
Qed.

Lemma mfinal_app a : forall st b, mfinal W C st (a ++ b) = mfinal W C (mfinal W C st a) b.
Proof. induction a as [|o r IH]; intros st b; [reflexivity | cbn [app mfinal]; apply IH]. Qed.

(* evaluations and second derivatives keep the invariants and the memo *)
Lemma queries_final mid : forall st,
  CInv W st -> NoG W C st -> Memo W C st -> forallb (is_query W) mid = true ->
  CInv W (mfinal W C st mid) /\ NoG W C (mfinal W C st mid) /\ Memo W C (mfinal W C st mid) /\
  abs W (mfinal W C st mid) = sfinal W C (abs W st) mid.
Proof.
  induction mid as [|o r IH]; intros st HI HN HM Hq; [auto|].
  cbn [forallb] in Hq. apply andb_true_iff in Hq. destruct Hq as [Ho Hr].
  cbn [mfinal sfinal]. destruct (step W C st o) as [[st' ob] t] eqn:Es. cbn [fst].
  destruct (step_spec W C Hgrid _ _ _ _ _ HI HN Es) as (I1 & N1 & _ & _ & Hs & Hm).
  rewrite (Hs HM). cbn [fst].
  assert (M1 : Memo W C st') by (destruct o; try discriminate; apply Hm, HM).
  apply (IH st' I1 N1 M1 Hr).
Qed.

(* the state after  pre ++ [InitTrial d] ++ mid  (mid: evaluations / second derivatives) *)
Lemma after_trial s0 pre d mid :
  forallb (is_query W) mid = true ->
  let st := mfinal W C (init W C s0) (pre ++ InitTrial W d :: mid) in
  CInv W st /\ NoG W C st /\ Memo W C st /\
  exists n, abs W st = trial_state W C (src_after W s0 pre) d n.
Proof.
  intros Hq. cbv zeta. rewrite mfinal_app. cbn [mfinal step fst].
  destruct (after_pre W C Hgrid s0 pre) as (A & B & Hc & Ec).
  set (stp := mfinal W C (init W C s0) pre) in *.
  destruct (step_spec W C Hgrid stp (InitTrial W d) (init_trial W C stp d) (ONone W) [] A B eq_refl)
    as (I1 & N1 & _ & _ & _ & M1).
  destruct (queries_final mid _ I1 N1 M1 Hq) as (I2 & N2 & M2 & E2).
  split; [exact I2|]. split; [exact N2|]. split; [exact M2|].
  assert (E1 : abs W (init_trial W C stp d) = trial_state W C (src_after W s0 pre) d None).
  { assert (Ea : sstep W C (abs W stp) (InitTrial W d) = (abs W (init_trial W C stp d), ONone W))
      by (unfold sstep, abs, init_trial, plain_tv; cbn; rewrite K_ns2_reset_on_new_trial; reflexivity).
    rewrite (sstep_init_trial W C _ d Hc), Ec in Ea. apply (f_equal fst) in Ea. cbn [fst] in Ea.
    symmetry. exact Ea. }
  rewrite E2, E1. destruct (sfinal_queries W C mid (src_after W s0 pre) d None Hq) as [n' En].
  exists n'. exact En.
Qed.

(* on objects without caches the answers do not depend on the remembered ns-gradients *)
Lemma smax_loop_nsg fuel : forall c d n1 n2 h,
  snd (smax_loop W C strat fuel (trial_state W C c d n1) h) =
  snd (smax_loop W C strat fuel (trial_state W C c d n2) h).
Proof.
  induction fuel as [|f IH]; intros c d n1 n2 h; cbn [smax_loop]; [reflexivity|].
  destruct (strat h) as [[ns x]|]; [|reflexivity].
  cbn [sstep trial_state ss_view ss_evd ss_srcf ss_cur ss_nsg obs_eval].
  apply IH.
Qed.

(* T6: after ANY history `pre`, in a trial initialised with data d and after
   any evaluations / second derivatives of that trial, the maximisation (for
   every minimiser strategy and every fuel) returns what it returns on freshly
   built objects for the current source hypothesis; hence so does every test
   statistic computed from it *)
Theorem maximize_as_fresh s0 pre d mid fuel :
  forallb (is_query W) mid = true ->
  snd (maximize W C MaxOut strat pick fuel (mfinal W C (init W C s0) (pre ++ InitTrial W d :: mid))) =
  snd (maximize W C MaxOut strat pick fuel (mfinal W C (init W C (src_after W s0 pre)) [InitTrial W d])).
Proof.
  intros Hq.
  assert (Hone : forall s pre' mid', forallb (is_query W) mid' = true ->
    snd (maximize W C MaxOut strat pick fuel (mfinal W C (init W C s) (pre' ++ InitTrial W d :: mid'))) =
    pick (snd (smax_loop W C strat fuel (trial_state W C (src_after W s pre') d None) []))).
  { intros s pre' mid' Hq'. destruct (after_trial s pre' d mid' Hq') as (I & N & M & n & En).
    unfold maximize.
    destruct (max_loop W C strat fuel (mfinal W C (init W C s) (pre' ++ InitTrial W d :: mid')) [])
      as [[st' h'] t] eqn:El. cbn [snd].
    destruct (max_loop_spec fuel _ _ _ _ _ I N M El) as (S & _).
    rewrite En in S. f_equal.
    rewrite <- (smax_loop_nsg fuel _ d n None []). rewrite S. reflexivity. }
  rewrite (Hone s0 pre mid Hq).
  change [InitTrial W d] with ([] ++ InitTrial W d :: []).
  rewrite (Hone (src_after W s0 pre) [] [] eq_refl). reflexivity.
Qed.

(* ... also when the history itself contains earlier maximisations *)
Lemma xfinal_expand xs : forall st, exists ops,
  xfinal W C MaxOut strat pick st xs = mfinal W C st ops /\
  (forall s, src_after W s ops = xsrc_after W s xs) /\
  (forallb (xis_query W) xs = true -> forallb (is_query W) ops = true).
Proof.
  induction xs as [|xo r IH]; intros st.
  - exists []. repeat split; auto.
  - destruct xo as [o|fuel]; cbn [xfinal].
    + destruct (IH (fst (fst (step W C st o)))) as (ops & E & Hs & Hq).
      exists (o :: ops). split; [cbn [mfinal]; exact E|]. split.
      * intros s. destruct o; cbn; apply Hs.
      * cbn. intros H. apply andb_true_iff in H. destruct H as [H1 H2]. rewrite H1. cbn. apply Hq, H2.
    + unfold maximize.
      destruct (max_loop_ops fuel st []) as (evs & Hqe & Hf).
      destruct (max_loop W C strat fuel st []) as [[st' h'] t] eqn:El. cbn [fst] in *.
      destruct (IH st') as (ops & E & Hs & Hq).
      exists (evs ++ ops). split; [rewrite mfinal_app, <- Hf; exact E|]. split.
      * intros s. cbn [xsrc_after]. rewrite <- Hs.
        clear - Hqe. revert s. induction evs as [|e t IHt]; intros s; [reflexivity|].
        cbn [forallb] in Hqe. apply andb_true_iff in Hqe. destruct Hqe as [H1 H2].
        destruct e; try discriminate; cbn; apply IHt, H2.
      * cbn. intros H. rewrite forallb_app, Hqe. cbn. apply Hq, H.
Qed.

Theorem xmaximize_as_fresh s0 xpre d xmid fuel :
  forallb (xis_query W) xmid = true ->
  snd (maximize W C MaxOut strat pick fuel
         (xfinal W C MaxOut strat pick (init W C s0) (xpre ++ XOp W (InitTrial W d) :: xmid))) =
  snd (maximize W C MaxOut strat pick fuel (mfinal W C (init W C (xsrc_after W s0 xpre)) [InitTrial W d])).
Proof.
  intros Hq.
  assert (Happ : forall a st b, xfinal W C MaxOut strat pick st (a ++ b) =
                   xfinal W C MaxOut strat pick (xfinal W C MaxOut strat pick st a) b).
  { induction a as [|o r IH]; intros st b; [reflexivity|]. destruct o; cbn [app xfinal]; apply IH. }
  rewrite Happ. cbn [xfinal].
  destruct (xfinal_expand xpre (init W C s0)) as (pre & Ep & Hsp & _). rewrite Ep.
  destruct (xfinal_expand xmid (fst (fst (step W C (mfinal W C (init W C s0) pre) (InitTrial W d)))))
    as (mid & Em & _ & Hqm). rewrite Em.
  replace (mfinal W C (fst (fst (step W C (mfinal W C (init W C s0) pre) (InitTrial W d)))) mid)
    with (mfinal W C (init W C s0) (pre ++ InitTrial W d :: mid)) by (rewrite mfinal_app; reflexivity).
  rewrite (maximize_as_fresh s0 pre d mid fuel (Hqm Hq)), Hsp. reflexivity.
Qed.

End MaxRefine.

Lemma xmaximize_and_ts_as_fresh :
  forall (W : world) (C : cfg),
    (forall x y, glow W x = glow W y -> gup W x = gup W y) ->
    forall (MaxOut TS : Type) (strat : qlog W -> option (Z * Z)) (pick : qlog W -> MaxOut) (ts : MaxOut -> TS)
           (s0 : src W) (xpre : list (xop W)) (d : data W) (xmid : list (xop W)) (fuel : nat),
      forallb (xis_query W) xmid = true ->
      let used := snd (maximize W C MaxOut strat pick fuel
                         (xfinal W C MaxOut strat pick (init W C s0) (xpre ++ XOp W (InitTrial W d) :: xmid))) in
      let fresh := snd (maximize W C MaxOut strat pick fuel
                          (mfinal W C (init W C (xsrc_after W s0 xpre)) [InitTrial W d])) in
      used = fresh /\ ts used = ts fresh.
Proof.
  intros W C Hg MaxOut TS strat pick ts s0 xpre d xmid fuel Hq. cbv zeta.
  rewrite (xmaximize_as_fresh W C Hg MaxOut strat pick s0 xpre d xmid fuel Hq). split; reflexivity.
Qed.

(* ------------------------------------------------------------------ part 6
   the cache of SplinedI3EnergySigSetOverBkgPDFRatio as a layer of the machine *)
Section I3Refine.
Variable W : world.
Variable C : cfg.
Hypothesis Hgrid : grid_ok W.
Hypothesis Hfree : memo_free C = true.

Definition ic_ok (sid : Z) (vw : option (view (data W) (src W)))
  (ext : option (src W) * (option (GV W) * option (GV W))) (ev : option (tv (data W) (src W) (GV W)))
  (c : option Z * Z * option (O W)) : Prop :=
  kle (fst (fst c)) sid /\
  forall x0 co v e, c = (Some sid, x0, co) -> vw = Some v -> ev = Some e ->
    exists o, co = Some o /\ pure_interp W C (v, ext) e x0 = Ok o.

Definition I3Inv (s : i3state W) : Prop :=
  CInv W (i_base W s) /\ NoG W C (i_base W s) /\
  ic_ok (s_sid (i_base W s)) (s_view (i_base W s)) (s_ext (i_base W s)) (s_evd (i_base W s)) (i_c W s).

Lemma ic_ok_bump sid sid' vw ext ev vw' ext' ev' c :
  ic_ok sid vw ext ev c -> sid < sid' -> ic_ok sid' vw' ext' ev' c.
Proof.
  intros (Hk & _) Hlt. destruct (kle_stale _ _ _ Hk Hlt) as (K & N). split; [exact K|].
  intros x0 co v e E. rewrite E in N. cbn in N. congruence.
Qed.

Lemma gfp_step_sid st v ns x st0 tg :
  gfp_step W C st v ns x = (st0, tg) -> st0 = st \/ s_sid st < s_sid st0.
Proof.
  unfold gfp_step. rewrite K_llh_calc_gfp, K_tdm_has_gfp, K_tdm_gfp_skip.
  destruct (c_ngfp C >? 0); [|intros E; inversion E; auto].
  destruct (c_ngfp C =? 0); [intros E; inversion E; auto|].
  destruct (gfp_field1 W C st v x) as [st1 c1] eqn:E1.
  destruct (field1_spec W C _ _ _ _ _ E1) as (_ & (Cs & _) & _).
  destruct (2 <=? c_ngfp C).
  - destruct (gfp_field2 W C st1 v ns) as [st2 c2] eqn:E2.
    destruct (field2_spec W C _ _ _ _ _ E2) as (_ & (Ds & _) & _).
    intros E; inversion E; subst. right. cbn. rewrite K_tdm_gfp_bump. lia.
  - intros E; inversion E; subst. right. cbn. rewrite K_tdm_gfp_bump. lia.
Qed.

Lemma i3_evaluate_spec s ns x s' r t :
  I3Inv s -> i3_evaluate W C s ns x = (s', r, t) ->
  sstep W C (abs W (i_base W s)) (Evaluate W ns x) = (abs W (i_base W s'), OEval W r) /\ I3Inv s'.
Proof.
  intros HInv0. destruct HInv0 as (HI0 & HN0 & HC0).
  rewrite <- (sstep_eval_forget W C (i_base W s)).
  destruct (forget_inv W C (i_base W s) HI0 HN0) as (HI & HN & Hnone & _).
  assert (HC : ic_ok (s_sid (forget_nsg W (i_base W s))) (s_view (forget_nsg W (i_base W s)))
                 (s_ext (forget_nsg W (i_base W s))) (s_evd (forget_nsg W (i_base W s))) (i_c W s)) by exact HC0.
  assert (HInv : I3Inv (mki3 W (forget_nsg W (i_base W s)) (i_c W s))) by (split; [exact HI | split; [exact HN | exact HC]]).
  unfold i3_evaluate, sstep, abs; cbn [ss_view ss_evd ss_srcf ss_cur ss_nsg].
  set (st := forget_nsg W (i_base W s)) in HI, HN, HC, Hnone, HInv |- *.
  pose proof (Memo_free W C st Hfree HN) as HM.
  destruct (s_view st) as [v|] eqn:Ev.
  2:{ intros E; inversion E; subst. cbn [i_base]. fold st. rewrite Ev, Hnone. split; [reflexivity|]. exact HInv. }
  destruct (s_evd st) as [e|] eqn:Ee.
  2:{ intros E; inversion E; subst. cbn [i_base]. fold st. rewrite Ev, Ee, Hnone. split; [reflexivity|]. exact HInv. }
  assert (Evb : s_view (i_base W s) = Some v) by exact Ev.
  assert (Eeb : s_evd (i_base W s) = Some e) by exact Ee.
  destruct (gfp_step W C st v ns x) as [st0 tg] eqn:Eg.
  destruct (gfp_step_spec W C _ _ _ _ _ _ HI HN Ev Eg) as (I0 & N0 & (Gv & Gsf & Gc & Ge & Gn) & HM0).
  destruct (HM0 HM) as (M0 & Ex).
  assert (Ev0 : s_view st0 = Some v) by congruence.
  assert (Ee0 : s_evd st0 = Some e) by congruence.
  rewrite (full_tv_eq W C v (s_srcf st) (s_cur st) ns x), <- Ex.
  unfold pure_nsg, pure_eval.
  destruct (i3_is_cached W (i_c W s) (s_sid st0) x) eqn:Eh.
  - (* the cached ratio is used *)
    unfold i3_is_cached in Eh. apply K_i3_is_cached in Eh. destruct Eh as (Ek & Ex0).
    destruct (gfp_step_sid _ _ _ _ _ _ Eg) as [Es|Hlt].
    + subst st0. destruct (i_c W s) as [[ck cx] co] eqn:Eic. cbn in Ek, Ex0. subst ck cx.
      destruct (proj2 HC x co v e eq_refl eq_refl eq_refl) as (o & Eo & Ep). subst co. cbn [snd].
      intros E; inversion E; subst; clear E. rewrite Ep. cbn.
      split; [rewrite ?Ev, ?Ee, ?Evb, ?Eeb; reflexivity|].
      destruct HI as (Hl & Hp & Hs & Hb).
      split; [apply CInv_set_bkg_nsg; [unfold CInv; auto | exact Hb]|].
      split; [exact HN|]. cbn. rewrite ?Ev, ?Ee, ?Evb, ?Eeb. exact HC.
    + exfalso. destruct HC as (Hk & _). rewrite Ek in Hk. cbn in Hk.
      change (s_sid st) with (s_sid (i_base W s)) in *. lia.
  - destruct (interp W C st0 (v, s_ext st0) e x) as [[st1 t1] r1] eqn:Ei.
    destruct (interp_spec W C Hgrid _ _ _ _ _ _ _ I0 Ev0 Ee0 Ei) as (R1 & I1 & F1).
    destruct F1 as (Fs & Fv & Ff & Fc & Fe & Fn & Fb & Fsf & Fgk & Fgv).
    assert (HC1 : forall c', ic_ok (s_sid st) (s_view st) (s_ext st) (s_evd st) c' ->
              fst (fst c') <> Some (s_sid st0) \/ st0 = st).
    { intros c' (Hk' & _). destruct (gfp_step_sid _ _ _ _ _ _ Eg) as [Es|Hlt]; [right; exact Es|].
      left. intros E'. rewrite E' in Hk'. cbn in Hk'. change (s_sid st) with (s_sid (i_base W s)) in *. lia. }
    destruct r1 as [o|er]; intros E; inversion E; subst; clear E; rewrite <- R1; cbn.
    + split; [rewrite Fv, Fsf, Fc, Fe, Gv, Gsf, Gc, Ge, ?Ev, ?Ee, ?Evb, ?Eeb; reflexivity|].
      destruct I1 as (Hl & Hp & Hs & Hb).
      split; [apply CInv_set_bkg_nsg; [unfold CInv; auto | exact Hb]|].
      split; [unfold NoG in *; cbn; rewrite Fgv; exact N0|].
      cbn. split; [cbn; change (s_sid st) with (s_sid (i_base W s)) in *; lia|].
      intros x0 co v' e' Ec Ev' Ee'. inversion Ec; subst. exists o. split; [reflexivity|].
      assert (v' = v) by congruence. assert (e' = e) by congruence. subst.
      change (s_ext (set_bkg_nsg W st1 (s_bkg st1) ?n)) with (s_ext st1).
      replace (s_ext st1) with (s_ext st0) by (unfold s_ext; congruence). symmetry. exact R1.
    + split; [rewrite Fv, Fsf, Fc, Fe, Fn, Gv, Gsf, Gc, Ge, Gn, ?Ev, ?Ee, ?Evb, ?Eeb, ?Hnone; reflexivity|].
      split; [exact I1|]. split; [unfold NoG in *; cbn; rewrite Fgv; exact N0|]. cbn.
      destruct (gfp_step_sid _ _ _ _ _ _ Eg) as [Es|Hlt].
      * subst st0. rewrite Fs, Fv, Fe. replace (s_ext st1) with (s_ext st) by (unfold s_ext; congruence).
        rewrite ?Ev, ?Ee, ?Evb, ?Eeb. exact HC.
      * apply (ic_ok_bump _ _ _ _ _ _ _ _ _ HC). change (s_sid st) with (s_sid (i_base W s)) in *. lia.
Qed.

Lemma i3step_spec s o s' ob t :
  I3Inv s -> i3step W C s o = (s', ob, t) ->
  sstep W C (abs W (i_base W s)) o = (abs W (i_base W s'), ob) /\ I3Inv s'.
Proof.
  intros HI. pose proof HI as (I & N & HC). destruct o as [d|ns x|sr|n]; cbn [i3step].
  - intros E; inversion E; subst; clear E. cbn [i_base i_c].
    destruct (step_spec W C Hgrid _ (InitTrial W d) _ _ _ I N eq_refl) as (I1 & N1 & _ & _ & Hs & _).
    split; [apply Hs, (Memo_free W C _ Hfree N)|]. split; [exact I1|]. split; [exact N1|].
    apply (ic_ok_bump _ _ _ _ _ _ _ _ _ HC).
    destruct (state_id_bumps) as (_ & _ & _ & _ & _ & Hb). specialize (Hb W C (i_base W s) d). cbn [i_base] in *. lia.
  - destruct (i3_evaluate W C s ns x) as [[s1 r] t1] eqn:Ee.
    intros E; inversion E; subst. apply (i3_evaluate_spec _ _ _ _ _ _ HI Ee).
  - intros E; inversion E; subst; clear E. cbn [i_base i_c].
    destruct (step_spec W C Hgrid _ (ChangeSource W sr) _ _ _ I N eq_refl) as (I1 & N1 & _ & _ & Hs & _).
    split; [apply Hs, (Memo_free W C _ Hfree N)|]. split; [exact I1|]. split; [exact N1|].
    unfold change_source, calc_source_fields. rewrite K_tdm_src_skip, K_tdm_src_bump.
    destruct (c_nsrc C =? 0); cbn.
    + exact HC.
    + apply (ic_ok_bump _ _ _ _ _ _ _ _ _ HC). lia.
  - intros E; inversion E; subst; clear E. split; [apply ns_grad2_spec | exact HI].
Qed.

(* T7: with the i3 PDF ratio (its own cache in front of the interpolation
   method) every observation of every history equals the cache-free one *)
Theorem i3refines s0 ops :
  i3observations W C (i3init W C s0) ops = srun W C (sinit W C s0) ops.
Proof.
  assert (Hrun : forall ops s, I3Inv s -> i3observations W C s ops = srun W C (abs W (i_base W s)) ops).
  { induction ops0 as [|o r IH]; intros s HI; [reflexivity|].
    unfold i3observations in *. cbn [i3run srun].
    destruct (i3step W C s o) as [[s' ob] t] eqn:Es.
    destruct (i3step_spec _ _ _ _ _ HI Es) as [E1 I1]. rewrite E1. cbn [map fst]. rewrite (IH s' I1). reflexivity. }
  rewrite <- (abs_init W C s0). apply (Hrun ops (i3init W C s0)).
  destruct (init_inv W C s0) as (N & _).
  split; [apply CInv_init|]. split; [exact N|]. split; [exact I|]. intros; discriminate.
Qed.

End I3Refine.

(* ------------------------------------------------------------------ part 7
   "as fresh" statements for the i3 ratio machine and the two-dataset machine.
   The specifications srun / msrun keep what the objects are GIVEN (the trial,
   the source, the ns-gradients of the last evaluation, the null-hypothesis
   value of the trial); these theorems say that after a new trial nothing of
   the earlier history is left in the observations. *)
Section FreshSpec.
Variable W : world.
Variable C : cfg.

Lemma sstep_consistent s o : sconsistent W C s -> sconsistent W C (fst (sstep W C s o)).
Proof.
  unfold sconsistent, srcf_of. intros H. destruct o as [d|ns x|s'|ns]; cbn.
  - exact H.
  - destruct (ss_view s); [destruct (ss_evd s)|]; cbn; exact H.
  - destruct (has_src_fields C); [reflexivity | exact H].
  - exact H.
Qed.

Lemma sfinal_inv ops : forall s, sconsistent W C s ->
  sconsistent W C (sfinal W C s ops) /\ ss_cur (sfinal W C s ops) = src_after W (ss_cur s) ops.
Proof.
  induction ops as [|o r IH]; intros s H; [auto|]. cbn [sfinal].
  destruct (IH _ (sstep_consistent s o H)) as (A & B). split; [exact A|]. rewrite B.
  destruct o as [d|ns x|s'|ns]; cbn; try reflexivity.
  destruct (ss_view s); [destruct (ss_evd s)|]; reflexivity.
Qed.

(* on objects without caches: evaluation / second derivative in a new trial
   do not depend on the history before that trial *)
Theorem srun_eval_fresh s0 pre d mid ns x :
  forallb (is_query W) mid = true ->
  last (srun W C (sinit W C s0) (pre ++ InitTrial W d :: mid ++ [Evaluate W ns x])) (ONone W) =
  last (srun W C (sinit W C (src_after W s0 pre)) [InitTrial W d; Evaluate W ns x]) (ONone W).
Proof.
  intros Hq. rewrite srun_app.
  destruct (sfinal_inv pre _ (sinit_consistent W C s0)) as (Hc & Ec). cbn [ss_cur sinit] in Ec.
  rewrite (L_eval W C _ d mid ns x Hc Hq), last_mid, Ec.
  change [InitTrial W d; Evaluate W ns x] with (InitTrial W d :: [] ++ [Evaluate W ns x]).
  rewrite (L_eval W C _ d [] ns x (sinit_consistent W C _) eq_refl). reflexivity.
Qed.

Theorem srun_ns2_fresh s0 pre d mid ns x tail n :
  forallb (is_query W) mid = true -> forallb (is_ns2 W) tail = true ->
  last (srun W C (sinit W C s0) (pre ++ InitTrial W d :: (mid ++ Evaluate W ns x :: tail) ++ [NsGrad2 W n])) (ONone W) =
  last (srun W C (sinit W C (src_after W s0 pre)) [InitTrial W d; Evaluate W ns x; NsGrad2 W n]) (ONone W).
Proof.
  intros Hq Ht. rewrite srun_app.
  destruct (sfinal_inv pre _ (sinit_consistent W C s0)) as (Hc & Ec). cbn [ss_cur sinit] in Ec.
  rewrite (L_ns2 W C _ d mid ns x tail n Hc Hq Ht), last_mid, Ec.
  change [InitTrial W d; Evaluate W ns x; NsGrad2 W n]
    with (InitTrial W d :: ([] ++ Evaluate W ns x :: []) ++ [NsGrad2 W n]).
  rewrite (L_ns2 W C _ d [] ns x [] n (sinit_consistent W C _) eq_refl eq_refl). reflexivity.
Qed.

End FreshSpec.

Section I3Fresh.
Variable W : world.
Variable C : cfg.
Hypothesis Hgrid : grid_ok W.
Hypothesis Hfree : memo_free C = true.

Theorem i3_eval_fresh s0 pre d mid ns x :
  forallb (is_query W) mid = true ->
  last (i3observations W C (i3init W C s0) (pre ++ InitTrial W d :: mid ++ [Evaluate W ns x])) (ONone W) =
  last (i3observations W C (i3init W C (src_after W s0 pre)) [InitTrial W d; Evaluate W ns x]) (ONone W).
Proof. intros Hq. rewrite !(i3refines W C Hgrid Hfree). apply srun_eval_fresh, Hq. Qed.

Theorem i3_ns2_fresh s0 pre d mid ns x tail n :
  forallb (is_query W) mid = true -> forallb (is_ns2 W) tail = true ->
  last (i3observations W C (i3init W C s0)
          (pre ++ InitTrial W d :: (mid ++ Evaluate W ns x :: tail) ++ [NsGrad2 W n])) (ONone W) =
  last (i3observations W C (i3init W C (src_after W s0 pre)) [InitTrial W d; Evaluate W ns x; NsGrad2 W n]) (ONone W).
Proof. intros Hq Ht. rewrite !(i3refines W C Hgrid Hfree). apply srun_ns2_fresh; assumption. Qed.

End I3Fresh.

Section MultiFresh.
Variable W : world.
Variable C : cfg.
Variable MW : mworld W.
Variable MC : mcfg.

Definition msok (c : src W) (s : msstate W MW) : Prop :=
  sconsistent W C (p1 W MW s) /\ sconsistent W C (p2 W MW s) /\ ss_cur (p1 W MW s) = c /\ ss_cur (p2 W MW s) = c.

Lemma sstep_eval_cur s ns x : ss_cur (fst (sstep W C s (Evaluate W ns x))) = ss_cur s.
Proof. cbn. destruct (ss_view s); [destruct (ss_evd s)|]; reflexivity. Qed.

Lemma mseval2_ok c s ns x : msok c s -> msok c (fst (mseval2 W C MW s ns x)).
Proof.
  intros (A & B & Ea & Eb). unfold mseval2.
  pose proof (sstep_consistent W C (p1 W MW s) (Evaluate W (nsf MW (ss_cur (p1 W MW s)) 0 ns) x) A) as A'.
  pose proof (sstep_eval_cur (p1 W MW s) (nsf MW (ss_cur (p1 W MW s)) 0 ns) x) as Ca.
  destruct (sstep W C (p1 W MW s) (Evaluate W (nsf MW (ss_cur (p1 W MW s)) 0 ns) x)) as [a o1]. cbn [fst] in *.
  destruct (obs_eval W o1).
  - pose proof (sstep_consistent W C (p2 W MW s) (Evaluate W (nsf MW (ss_cur (p1 W MW s)) 1 ns) x) B) as B'.
    pose proof (sstep_eval_cur (p2 W MW s) (nsf MW (ss_cur (p1 W MW s)) 1 ns) x) as Cb.
    destruct (sstep W C (p2 W MW s) (Evaluate W (nsf MW (ss_cur (p1 W MW s)) 1 ns) x)) as [b o2]. cbn [fst] in *.
    destruct (obs_eval W o2); cbn; unfold msok; cbn; repeat split; congruence.
  - cbn. unfold msok; cbn. repeat split; congruence.
Qed.

Lemma msstep_ok c s o : msok c s -> msok (msrc_after W c [o]) (fst (msstep W C MW MC s o)).
Proof.
  intros H. pose proof H as (A & B & Ea & Eb). destruct o as [d1 d2|ns x|sr|n]; cbn [msstep msrc_after].
  - assert (H1 : msok c (mkms W MW (fst (sstep W C (p1 W MW s) (InitTrial W d1))) (fst (sstep W C (p2 W MW s) (InitTrial W d2)))
                          (p_l0 W MW s) (p_wsrc W MW s))).
    { unfold msok; cbn. repeat split; try assumption. }
    destruct (m_profile MC); [|exact H1].
    pose proof (mseval2_ok c _ (m_ns0 MC) (m_x0 MC) H1) as H2.
    destruct (mseval2 W C MW _ (m_ns0 MC) (m_x0 MC)) as [s2 r]. cbn [fst] in H2.
    destruct r; cbn [fst]; [|exact H2]. destruct H2 as (a & b & e1 & e2). unfold msok; cbn; auto.
  - pose proof (mseval2_ok c s ns x H) as H2. destruct (mseval2 W C MW s ns x) as [s2 r]. exact H2.
  - unfold msok; cbn. repeat split.
    + apply (sstep_consistent W C (p1 W MW s) (ChangeSource W sr) A).
    + apply (sstep_consistent W C (p2 W MW s) (ChangeSource W sr) B).
  - exact H.
Qed.

Lemma msfinal_ok ops : forall c s, msok c s -> msok (msrc_after W c ops) (msfinal W C MW MC s ops).
Proof.
  induction ops as [|o r IH]; intros c s H; [exact H|]. cbn [msfinal].
  replace (msrc_after W c (o :: r)) with (msrc_after W (msrc_after W c [o]) r) by (destruct o; reflexivity).
  apply IH, msstep_ok, H.
Qed.

Lemma last_app_ne {A} (l1 l2 : list A) d : l2 <> [] -> last (l1 ++ l2) d = last l2 d.
Proof.
  intros H. induction l1 as [|a r IH]; [reflexivity|]. cbn [app].
  destruct (r ++ l2) eqn:E; [destruct r; [cbn in E; congruence | discriminate]|]. exact IH.
Qed.

Lemma msrun_ne s o r : msrun W C MW MC s (o :: r) <> [].
Proof. cbn [msrun]. destruct (msstep W C MW MC s o). discriminate. Qed.

Lemma msrun_app a : forall s b,
  msrun W C MW MC s (a ++ b) = msrun W C MW MC s a ++ msrun W C MW MC (msfinal W C MW MC s a) b.
Proof.
  induction a as [|o r IH]; intros s b; [reflexivity|]. cbn [app msrun msfinal].
  destruct (msstep W C MW MC s o) as [s' ob]. cbn [fst]. rewrite IH. reflexivity.
Qed.

(* the evaluation of both datasets does not read the remembered null-hypothesis
   value nor the weight factors of an earlier evaluation *)
Lemma mseval2_indep A B l w l' w' ns x :
  mseval2 W C MW (mkms W MW A B l w) ns x =
  (mkms W MW (p1 W MW (fst (mseval2 W C MW (mkms W MW A B l' w') ns x)))
             (p2 W MW (fst (mseval2 W C MW (mkms W MW A B l' w') ns x))) l (Some (ss_cur A)),
   snd (mseval2 W C MW (mkms W MW A B l' w') ns x)).
Proof.
  unfold mseval2; cbn [p1 p2 p_l0 p_wsrc].
  destruct (sstep W C A (Evaluate W (nsf MW (ss_cur A) 0 ns) x)) as [a o1].
  destruct (obs_eval W o1); [|reflexivity].
  destruct (sstep W C B (Evaluate W (nsf MW (ss_cur A) 1 ns) x)) as [b o2].
  destruct (obs_eval W o2); reflexivity.
Qed.

(* T5': on objects without caches, [init both trials; evaluate] after ANY
   history equals the same on fresh objects for the current source hypothesis
   (with the ns-profile function: provided the null-hypothesis evaluation of the
   new trial returns a value) *)
Theorem ms_eval_fresh s0 pre d1 d2 ns x :
  m_profile MC = false \/
  hd (MNone W MW) (msrun W C MW MC (msinit W C MW (msrc_after W s0 pre)) [MInit W d1 d2]) = MInitO W MW (Ok 0) ->
  last (msrun W C MW MC (msinit W C MW s0) (pre ++ [MInit W d1 d2; MEval W ns x])) (MNone W MW) =
  last (msrun W C MW MC (msinit W C MW (msrc_after W s0 pre)) [MInit W d1 d2; MEval W ns x]) (MNone W MW).
Proof.
  intros Hp. rewrite msrun_app, (last_app_ne _ _ _ (msrun_ne _ _ _)).
  assert (H0 : forall c, msok c (msinit W C MW c))
    by (intros c0; unfold msok, msinit; cbn; repeat split; try reflexivity; apply sinit_consistent).
  set (c := msrc_after W s0 pre) in *.
  pose proof (msfinal_ok pre s0 _ (H0 s0)) as (A & B & Ea & Eb). fold c in Ea, Eb.
  set (sp := msfinal W C MW MC (msinit W C MW s0) pre) in *.
  assert (Hgen : forall s, msok c s ->
    last (msrun W C MW MC s [MInit W d1 d2; MEval W ns x]) (MNone W MW) =
    last (msrun W C MW MC (mkms W MW (p1 W MW s) (p2 W MW s) None None) [MInit W d1 d2; MEval W ns x]) (MNone W MW) \/
    (m_profile MC = true /\
     forall v, snd (mseval2 W C MW (mkms W MW (trial_state W C c d1 None) (trial_state W C c d2 None) None None)
                      (m_ns0 MC) (m_x0 MC)) <> Ok v)).
  { intros s (Sa & Sb & Ca & Cb). cbn [msrun msstep p1 p2 p_l0 p_wsrc].
    rewrite (sstep_init_trial W C _ d1 Sa), (sstep_init_trial W C _ d2 Sb), Ca, Cb. cbn [fst].
    destruct (m_profile MC) eqn:Ep.
    - rewrite (mseval2_indep _ _ (p_l0 W MW s) (p_wsrc W MW s) None None).
      destruct (mseval2 W C MW (mkms W MW (trial_state W C c d1 None) (trial_state W C c d2 None) None None)
                  (m_ns0 MC) (m_x0 MC)) as [s2 r] eqn:Ee. cbn [fst snd].
      destruct r as [v|e].
      + left. rewrite (mseval2_indep _ _ None None None None) in Ee. cbn [trial_state ss_cur] in *.
        injection Ee as E1 E2. cbn [p1 p2 p_l0 p_wsrc]. cbn [trial_state ss_cur]. reflexivity.
      + right. split; [reflexivity|]. intros v E'. discriminate.
    - left. cbn [last].
      rewrite (mseval2_indep _ _ (p_l0 W MW s) (p_wsrc W MW s) None None).
      destruct (mseval2 W C MW (mkms W MW (trial_state W C c d1 None) (trial_state W C c d2 None) None None) ns x)
        as [s2 r]. cbn [fst snd]. reflexivity. }
  assert (Hfresh : msrun W C MW MC (msinit W C MW c) [MInit W d1 d2; MEval W ns x] =
                   msrun W C MW MC (mkms W MW (p1 W MW (msinit W C MW c)) (p2 W MW (msinit W C MW c)) None None)
                     [MInit W d1 d2; MEval W ns x]) by reflexivity.
  destruct (Hgen sp (conj A (conj B (conj Ea Eb)))) as [E|[Ep Hno]].
  - rewrite E.
    destruct (Hgen (msinit W C MW c) (H0 c)) as [E2|[Ep Hno]].
    + rewrite E2. unfold msinit. cbn [msrun msstep p1 p2 p_l0 p_wsrc].
      rewrite (sstep_init_trial W C _ d1 A), (sstep_init_trial W C _ d2 B), Ea, Eb.
      rewrite (sstep_init_trial W C _ d1 (sinit_consistent W C c)), (sstep_init_trial W C _ d2 (sinit_consistent W C c)).
      reflexivity.
    + exfalso. destruct Hp as [Hp|Hp]; [congruence|].
      unfold msinit in Hp. cbn [msrun msstep hd p1 p2 p_l0 p_wsrc] in Hp.
      rewrite (sstep_init_trial W C _ d1 (sinit_consistent W C c)), (sstep_init_trial W C _ d2 (sinit_consistent W C c)), Ep in Hp.
      cbn [fst ss_cur sinit] in Hp.
      destruct (mseval2 W C MW (mkms W MW (trial_state W C c d1 None) (trial_state W C c d2 None) None None)
                  (m_ns0 MC) (m_x0 MC)) as [s2 r] eqn:Ee.
      destruct r as [v|e]; [apply (Hno v); reflexivity | cbn in Hp; discriminate].
  - exfalso. destruct Hp as [Hp|Hp]; [congruence|].
    unfold msinit in Hp. cbn [msrun msstep hd p1 p2 p_l0 p_wsrc] in Hp.
    rewrite (sstep_init_trial W C _ d1 (sinit_consistent W C c)), (sstep_init_trial W C _ d2 (sinit_consistent W C c)), Ep in Hp.
    cbn [fst ss_cur sinit] in Hp.
    destruct (mseval2 W C MW (mkms W MW (trial_state W C c d1 None) (trial_state W C c d2 None) None None)
                (m_ns0 MC) (m_x0 MC)) as [s2 r] eqn:Ee.
    destruct r as [v|e]; [apply (Hno v); reflexivity | cbn in Hp; discriminate].
Qed.

End MultiFresh.

Section MultiFreshModel.
Variable W : world.
Variable C : cfg.
Variable MW : mworld W.
Variable MC : mcfg.
Hypothesis Hgrid : grid_ok W.
Hypothesis Hfree : memo_free C = true.

Theorem multi_eval_fresh s0 pre d1 d2 ns x :
  m_profile MC = false \/
  hd (MNone W MW) (mobservations W C MW MC (minit W C MW (msrc_after W s0 pre)) [MInit W d1 d2]) = MInitO W MW (Ok 0) ->
  last (mobservations W C MW MC (minit W C MW s0) (pre ++ [MInit W d1 d2; MEval W ns x])) (MNone W MW) =
  last (mobservations W C MW MC (minit W C MW (msrc_after W s0 pre)) [MInit W d1 d2; MEval W ns x]) (MNone W MW).
Proof.
  rewrite !(mrefines W C MW MC Hgrid Hfree). apply ms_eval_fresh.
Qed.

End MultiFreshModel.
