(* C18: the real-valued kernels (rounding, band shift, weights, mu2flux) and
   their tie to the integer formulas of model/M_Inject.v. *)
From Coq Require Import Reals ZArith List Bool Lia Lra Psatz.
From Sky Require Import Num NumR Result PyList G_inject M_Inject S_Inject P_InjectMC.
Import ListNotations.
Open Scope R_scope.

Ltac push_IZR := repeat (rewrite plus_IZR || rewrite minus_IZR || rewrite mult_IZR || rewrite opp_IZR).

Lemma Int_part_uniq (r : R) (k : Z) : IZR k <= r -> r < IZR k + 1 -> Int_part r = k.
Proof.
  intros H1 H2. unfold Int_part.
  assert (E : (k + 1)%Z = up r).
  { apply up_tech; [exact H1| rewrite plus_IZR; exact H2]. }
  rewrite <- E. lia.
Qed.

(* ------------------------------------------------------------------ rounding *)
Lemma Rrint_ratio p q : (0 < q)%Z -> Rrint (IZR p / IZR q) = IZR (rhe p q).
Proof.
  intros Hq.
  assert (Hq' : 0 < IZR q) by (apply IZR_lt; exact Hq).
  pose proof (Z.div_mod p q ltac:(lia)) as Hdm.
  pose proof (Z.mod_pos_bound p q Hq) as Hb.
  unfold rhe, Rrint. cbv zeta.
  set (f := (p / q)%Z) in *. set (r := (p mod q)%Z) in *.
  assert (Hx : IZR p / IZR q = IZR f + IZR r / IZR q).
  { rewrite Hdm, plus_IZR, mult_IZR. field. lra. }
  assert (Hr0 : 0 <= IZR r / IZR q).
  { apply Rmult_le_pos; [apply IZR_le; lia|left; apply Rinv_0_lt_compat; exact Hq']. }
  assert (Hr1 : IZR r / IZR q < 1).
  { apply (Rmult_lt_reg_r (IZR q)); [exact Hq'|]. unfold Rdiv. rewrite Rmult_assoc, Rinv_l by lra.
    rewrite Rmult_1_r, Rmult_1_l. apply IZR_lt; lia. }
  assert (Hip : Int_part (IZR p / IZR q) = f).
  { apply Int_part_uniq; rewrite Hx; lra. }
  rewrite Hip. replace (IZR p / IZR q - IZR f) with (IZR r / IZR q) by (rewrite Hx; ring).
  assert (Hhalf : forall c : comparison, True) by trivial. clear Hhalf.
  assert (Hlt : IZR r / IZR q < 1 / 2 <-> (2 * r < q)%Z).
  { split; intros H.
    - apply lt_IZR. rewrite mult_IZR.
      apply (Rmult_lt_compat_r (IZR q)) in H; [|exact Hq'].
      unfold Rdiv in H. rewrite Rmult_assoc, Rinv_l in H by lra. lra.
    - apply IZR_lt in H. rewrite mult_IZR in H.
      apply (Rmult_lt_reg_r (IZR q)); [exact Hq'|].
      unfold Rdiv. rewrite Rmult_assoc, Rinv_l by lra. lra. }
  assert (Hgt : 1 / 2 < IZR r / IZR q <-> (q < 2 * r)%Z).
  { split; intros H.
    - apply lt_IZR. rewrite mult_IZR.
      apply (Rmult_lt_compat_r (IZR q)) in H; [|exact Hq'].
      unfold Rdiv in H. rewrite (Rmult_assoc (IZR r)), Rinv_l in H by lra. lra.
    - apply IZR_lt in H. rewrite mult_IZR in H.
      apply (Rmult_lt_reg_r (IZR q)); [exact Hq'|].
      unfold Rdiv. rewrite (Rmult_assoc (IZR r)), Rinv_l by lra. lra. }
  destruct (Rlt_dec (IZR r / IZR q) (1 / 2)) as [H1|H1].
  - apply Hlt in H1. apply Z.ltb_lt in H1. rewrite H1. reflexivity.
  - assert (E1 : (2 * r <? q)%Z = false).
    { apply Z.ltb_ge. destruct (Z_lt_dec (2 * r) q) as [C|C]; [apply Hlt in C; contradiction|lia]. }
    rewrite E1.
    destruct (Rlt_dec (1 / 2) (IZR r / IZR q)) as [H2|H2].
    + apply Hgt in H2. apply Z.ltb_lt in H2. rewrite H2. reflexivity.
    + assert (E2 : (q <? 2 * r)%Z = false).
      { apply Z.ltb_ge. destruct (Z_lt_dec q (2 * r)) as [C|C]; [apply Hgt in C; contradiction|lia]. }
      rewrite E2. destruct (Z.even f); reflexivity.
Qed.

Section R.
  Variable erf : R -> R.
  Let N := RNum erf.

  (* np.round(mean * w, 0) on w = a/q is the integer round-half-even of (mean*a)/q *)
  Lemma K_cnt_round mean a q :
    (0 < q)%Z -> cnt_round N (IZR mean) (IZR a / IZR q) = IZR (rhe (mean * a) q).
  Proof.
    intros Hq. unfold cnt_round, N. num_R.
    assert (Hq' : IZR q <> 0) by (apply not_0_IZR; lia).
    replace (IZR mean * (IZR a / IZR q) * 1) with (IZR (mean * a) / IZR q)
      by (rewrite mult_IZR; field; exact Hq').
    rewrite Rrint_ratio by exact Hq. field.
  Qed.

  (* ------------------------------------------------------------- band shift *)
  Definition shiftR (x w L U : R) : R := shift_S N (shift_m N w U L) x (shift_b N w L U).

  Lemma K_shift x w L U : L < U -> shiftR x w L U = w * (L + U - 2 * x) / (U - L).
  Proof. intros H. unfold shiftR, shift_S, shift_m, shift_b, N. num_R. field. lra. Qed.

  Definition band_lo (x w L U : R) : R := band_min N (band_center N x (shiftR x w L U)) w.
  Definition band_hi (x w L U : R) : R := band_max N (band_center N x (shiftR x w L U)) w.

  Lemma K_band_lo x w L U : L < U -> band_lo x w L U = x + w * (L + U - 2 * x) / (U - L) - w.
  Proof. intros H. unfold band_lo, band_min, band_center. rewrite K_shift by exact H. unfold N. num_R. reflexivity. Qed.
  Lemma K_band_hi x w L U : L < U -> band_hi x w L U = x + w * (L + U - 2 * x) / (U - L) + w.
  Proof. intros H. unfold band_hi, band_max, band_center. rewrite K_shift by exact H. unfold N. num_R. reflexivity. Qed.

  Lemma K_band_omega lo hi : band_omega N hi lo = 2 * PI * (hi - lo).
  Proof. unfold band_omega, N. num_R. reflexivity. Qed.

  (* the shifted band stays inside the MC coverage [L, U] *)
  Theorem band_inside x w L U :
    L < U -> L <= x <= U -> 0 <= 2 * w <= U - L ->
    L <= band_lo x w L U /\ band_hi x w L U <= U
    /\ band_hi x w L U - band_lo x w L U = 2 * w.
  Proof.
    intros HLU Hx Hw. rewrite K_band_lo, K_band_hi by exact HLU.
    assert (HD : 0 < U - L) by lra.
    assert (E1 : x + w * (L + U - 2 * x) / (U - L) - w - L = (x - L) * (U - L - 2 * w) / (U - L)) by (field; lra).
    assert (E2 : U - (x + w * (L + U - 2 * x) / (U - L) + w) = (U - x) * (U - L - 2 * w) / (U - L)) by (field; lra).
    assert (P1 : 0 <= (x - L) * (U - L - 2 * w) / (U - L)).
    { apply Rmult_le_pos; [apply Rmult_le_pos; lra|left; apply Rinv_0_lt_compat; exact HD]. }
    assert (P2 : 0 <= (U - x) * (U - L - 2 * w) / (U - L)).
    { apply Rmult_le_pos; [apply Rmult_le_pos; lra|left; apply Rinv_0_lt_compat; exact HD]. }
    repeat split; lra.
  Qed.

  (* the event mask of calc_source_signal_mc_event_flux on integer (scaled)
     inputs is the integer test of the model *)
  Lemma K_band_mask x w L U sd :
    (L < U)%Z ->
    band_mask N (IZR sd) (band_lo (IZR x) (IZR w) (IZR L) (IZR U)) (band_hi (IZR x) (IZR w) (IZR L) (IZR U))
    = in_band x w L U sd.
  Proof.
    intros HLU. assert (HLU' : IZR L < IZR U) by (apply IZR_lt; exact HLU).
    assert (HD : 0 < IZR U - IZR L) by lra.
    unfold band_mask. rewrite K_band_lo, K_band_hi by exact HLU'. unfold N. num_R.
    unfold in_band, band_lo_D, band_hi_D.
    set (lo := IZR x + IZR w * (IZR L + IZR U - 2 * IZR x) / (IZR U - IZR L) - IZR w).
    set (hi := IZR x + IZR w * (IZR L + IZR U - 2 * IZR x) / (IZR U - IZR L) + IZR w).
    assert (Elo : lo * (IZR U - IZR L)
                  = IZR (x * (U - L) + (-2 * w * x + w * (L + U)) - w * (U - L))).
    { unfold lo. push_IZR. field. lra. }
    assert (Ehi : hi * (IZR U - IZR L)
                  = IZR (x * (U - L) + (-2 * w * x + w * (L + U)) + w * (U - L))).
    { unfold hi. push_IZR. field. lra. }
    assert (Esd : IZR sd * (IZR U - IZR L) = IZR (sd * (U - L))).
    { rewrite mult_IZR, minus_IZR. reflexivity. }
    f_equal.
    - destruct (Rleb lo (IZR sd)) eqn:E; symmetry.
      + apply Rleb_true in E. apply Z.leb_le. apply le_IZR. rewrite <- Elo, <- Esd.
        apply Rmult_le_compat_r; lra.
      + apply Rleb_false in E. apply Z.leb_gt. apply lt_IZR. rewrite <- Elo, <- Esd.
        apply Rmult_lt_compat_r; lra.
    - destruct (Rleb (IZR sd) hi) eqn:E; symmetry.
      + apply Rleb_true in E. apply Z.leb_le. apply le_IZR. rewrite <- Ehi, <- Esd.
        apply Rmult_le_compat_r; lra.
      + apply Rleb_false in E. apply Z.leb_gt. apply lt_IZR. rewrite <- Ehi, <- Esd.
        apply Rmult_lt_compat_r; lra.
  Qed.

  Lemma K_energy_mask m en lo hi :
    energy_mask N m (IZR en) (IZR lo) (IZR hi) = m && in_energy (Some (lo, hi)) en.
  Proof.
    unfold energy_mask, in_energy, N. num_R. f_equal. f_equal.
    - destruct (Rleb (IZR lo) (IZR en)) eqn:E; symmetry.
      + apply Rleb_true in E. apply Z.leb_le. apply le_IZR. exact E.
      + apply Rleb_false in E. apply Z.leb_gt. apply lt_IZR. lra.
    - destruct (Rleb (IZR en) (IZR hi)) eqn:E; symmetry.
      + apply Rleb_true in E. apply Z.leb_le. apply le_IZR. exact E.
      + apply Rleb_false in E. apply Z.leb_gt. apply lt_IZR. lra.
  Qed.

  Lemma K_energy_guard er : energy_guard er = match er with Some _ => true | None => false end.
  Proof. destruct er; reflexivity. Qed.
  Lemma K_cand_flux_srcw_guard sw : cand_flux_srcw_guard sw = match sw with Some _ => true | None => false end.
  Proof. destruct sw; reflexivity. Qed.

  (* ---------------------------------------------------------------- weights *)
  (* weight of a candidate: mcweight * fluxmodel(E) * unit / omega [* srcweight]
     * livetime * time-unit factor *)
  Lemma K_cand_weight mw fx unit_ om sw lt tf :
    cand_weight N (cand_flux_srcw N (cand_flux N unit_ fx om) sw) lt tf mw
    = (mw * fx * sw * lt) * (unit_ * tf) / om.
  Proof. unfold cand_weight, cand_flux_srcw, cand_flux, N. num_R. unfold Rdiv. ring. Qed.

  Lemma K_cand_weight_nosrcw mw fx unit_ om lt tf :
    cand_weight N (cand_flux N unit_ fx om) lt tf mw = (mw * fx * 1 * lt) * (unit_ * tf) / om.
  Proof. unfold cand_weight, cand_flux, N. num_R. unfold Rdiv. ring. Qed.

  Lemma K_cand_norm w s : cand_norm N s w = w / s.
  Proof. unfold cand_norm, N. num_R. reflexivity. Qed.

  (* with positive constants the real weight is zero exactly when the integer
     numerator of the model is zero *)
  Lemma weight_zero_iff (n : Z) c om :
    0 < c -> 0 < om -> (IZR n * c / om = 0 <-> n = 0%Z).
  Proof.
    intros Hc Hom. split.
    - intros H. apply eq_IZR. unfold Rdiv in H.
      apply Rmult_integral in H. destruct H as [H|H].
      + apply Rmult_integral in H. destruct H as [H|H]; [exact H|lra].
      + pose proof (Rinv_0_lt_compat om Hom). lra.
    - intros ->. unfold Rdiv. ring.
  Qed.

  (* the weight of a candidate exactly as the source computes it (flux line of
     calc_source_signal_mc_event_flux, source-weight factor, weight line of
     _construct_signal_candidates, band solid angle), evaluated on the model's
     integer fields: the model's c_wn / c_wd up to one positive constant *)
  Theorem K_cand_weight_model (mw fx sw lt hw : Z) (lo hi u tf : R) :
    hi - lo = 2 * IZR hw -> IZR hw <> 0 ->
    cand_weight N (cand_flux_srcw N (cand_flux N u (IZR fx) (band_omega N hi lo)) (IZR sw)) (IZR lt) tf (IZR mw)
    = IZR (mw * fx * sw * lt) / IZR hw * (u * tf / (4 * PI)).
  Proof.
    intros Hb Hh. rewrite K_cand_weight, K_band_omega, Hb. push_IZR. field. split; [exact PI_neq0|exact Hh].
  Qed.

  (* ---------------------------------------------------------------- mu2flux *)
  Lemma K_mu_ref_N_k refN s : mu_ref_N_k N refN s = s * refN.
  Proof. unfold mu_ref_N_k, N. num_R. reflexivity. Qed.

  Lemma K_mu_flux_k mu refN refNk phi0 u :
    mu_flux_k N mu refN refNk phi0 u = mu * (/ refN * (refNk / refN) * phi0 * u).
  Proof. unfold mu_flux_k, N. num_R. unfold Rdiv. ring. Qed.

  (* mu2flux(per_source=True) and the total, for the per-source sums s_k of the
     normalised candidate weights *)
  Definition mu2flux_src (mu refN phi0 u : R) (s : R) : R :=
    mu_flux_k N mu refN (mu_ref_N_k N refN s) phi0 u.
  (* one group: (Phi0, unit factor, per-source weight sums) *)
  Definition mu2flux_list (mu refN : R) (groups : list (R * R * list R)) : list R :=
    flat_map (fun g => map (mu2flux_src mu refN (fst (fst g)) (snd (fst g))) (snd g)) groups.
  Definition rsum (l : list R) : R := fold_right Rplus 0 l.
  Definition mu2flux_total (mu refN : R) (groups : list (R * R * list R)) : R :=
    rsum (mu2flux_list mu refN groups).

  Lemma rsum_scale c l : rsum (map (Rmult c) l) = c * rsum l.
  Proof.
    unfold rsum. induction l as [|x l IH]; cbn [map fold_right]; [ring|]. rewrite IH. ring.
  Qed.

  Lemma mu2flux_src_lin c mu refN phi0 u s :
    mu2flux_src (c * mu) refN phi0 u s = c * mu2flux_src mu refN phi0 u s.
  Proof. unfold mu2flux_src. rewrite !K_mu_flux_k. ring. Qed.
  Lemma mu2flux_src_add a b refN phi0 u s :
    mu2flux_src (a + b) refN phi0 u s = mu2flux_src a refN phi0 u s + mu2flux_src b refN phi0 u s.
  Proof. unfold mu2flux_src. rewrite !K_mu_flux_k. ring. Qed.

  Theorem mu2flux_linear c mu refN groups :
    mu2flux_list (c * mu) refN groups = map (Rmult c) (mu2flux_list mu refN groups)
    /\ mu2flux_total (c * mu) refN groups = c * mu2flux_total mu refN groups.
  Proof.
    assert (H : mu2flux_list (c * mu) refN groups = map (Rmult c) (mu2flux_list mu refN groups)).
    { unfold mu2flux_list. induction groups as [|g gs IH]; cbn [flat_map map]; [reflexivity|].
      rewrite map_app, IH. f_equal. rewrite map_map. apply map_ext. intros s. apply mu2flux_src_lin. }
    split; [exact H|]. unfold mu2flux_total. rewrite H. apply rsum_scale.
  Qed.

  Theorem mu2flux_additive a b refN groups :
    mu2flux_total (a + b) refN groups = mu2flux_total a refN groups + mu2flux_total b refN groups.
  Proof.
    unfold mu2flux_total, mu2flux_list.
    induction groups as [|g gs IH]; cbn [flat_map rsum fold_right]; [ring|].
    unfold rsum in *. rewrite !fold_right_app.
    assert (A : forall (l : list R) z1 z2 z3, z1 = z2 + z3 ->
      fold_right Rplus z1 (map (mu2flux_src (a + b) refN (fst (fst g)) (snd (fst g))) l)
      = fold_right Rplus z2 (map (mu2flux_src a refN (fst (fst g)) (snd (fst g))) l)
        + fold_right Rplus z3 (map (mu2flux_src b refN (fst (fst g)) (snd (fst g))) l)).
    { induction l as [|s l IHl]; intros z1 z2 z3 Hz; cbn [map fold_right]; [exact Hz|].
      rewrite (IHl z1 z2 z3 Hz), mu2flux_src_add. ring. }
    apply A. exact IH.
  Qed.

  (* mu2flux in closed form: mu * s_k * Phi0 * unit / ref_N  (ref_N <> 0) *)
  Lemma mu2flux_src_closed mu refN phi0 u s :
    refN <> 0 -> mu2flux_src mu refN phi0 u s = mu * s * phi0 * u / refN.
  Proof. intros H. unfold mu2flux_src. rewrite K_mu_flux_k, K_mu_ref_N_k. field. exact H. Qed.
End R.

(* the sampler vector of the model: p_i = (c_wn_i / c_wd_i) * W with one common
   positive W, i.e. proportional to the real candidate weights *)
Theorem samp_w_ratio (tbl : list cand) (i : nat) (c : cand) :
  Forall (fun c => (0 < c_wd c)%Z) tbl -> nth_error tbl i = Some c ->
  IZR (nth i (samp_w tbl) 0%Z) = IZR (c_wn c) / IZR (c_wd c) * IZR (zlcm_l (map c_wd tbl))
  /\ (0 < zlcm_l (map c_wd tbl))%Z.
Proof.
  intros Hwd Hi. unfold samp_w. cbv zeta. rewrite (nth_samp _ _ _ _ Hi).
  assert (Hall : Forall (fun d => (0 < d)%Z) (map c_wd tbl)).
  { apply Forall_forall. intros d Hd. apply in_map_iff in Hd. destruct Hd as [c' [<- Hc']].
    rewrite Forall_forall in Hwd. apply Hwd; exact Hc'. }
  destruct (zlcm_l_spec _ Hall) as [HW Hdiv]. rewrite Forall_forall in Hdiv.
  pose proof (nth_error_In _ _ Hi) as Hin.
  destruct (Hdiv (c_wd c) (in_map c_wd _ _ Hin)) as [q Hq].
  rewrite Forall_forall in Hwd. pose proof (Hwd c Hin) as Hd.
  split; [|exact HW]. rewrite Hq, Z.div_mul by lia. push_IZR.
  assert (IZR (c_wd c) <> 0) by (apply not_0_IZR; lia). field. assumption.
Qed.
