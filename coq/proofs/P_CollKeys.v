(* Proofs about M_CollKeys: stage checks are bitwise all/any; make_dict_hash
   and PDFSet lookups do not depend on the fill order of the dictionary. *)
From Coq Require Import ZArith List Bool Lia Permutation.
From Sky Require Import Result PyList G_coll M_Coll M_CollKeys P_Coll.
Import ListNotations.
Open Scope Z_scope.

(* ------------------------------------------------------------------ *)
(* kernels *)
Lemma K_and_is_int : forall b, and_is_int b = b. Proof. reflexivity. Qed.
Lemma K_or_is_int : forall b, or_is_int b = b. Proof. reflexivity. Qed.
Lemma K_and_int : forall s m, and_int s m = (Z.land s m =? m). Proof. reflexivity. Qed.
Lemma K_or_int : forall s m, or_int s m = negb (Z.land s m =? 0). Proof. reflexivity. Qed.
Lemma K_and_loop_fail : forall s m, and_loop_fail s m = negb (Z.land s m =? m). Proof. reflexivity. Qed.
Lemma K_or_loop_hit : forall s m, or_loop_hit s m = negb (Z.land s m =? 0). Proof. reflexivity. Qed.
Lemma K_and_ret_loop : and_ret_loop = false. Proof. reflexivity. Qed.
Lemma K_and_ret_end : and_ret_end = true. Proof. reflexivity. Qed.
Lemma K_or_ret_loop : or_ret_loop = true. Proof. reflexivity. Qed.
Lemma K_or_ret_end : or_ret_end = false. Proof. reflexivity. Qed.
Lemma K_mdh : forall x, mdh x = x. Proof. reflexivity. Qed.
Lemma K_pdfset_add_key : forall x, pdfset_add_key x = x. Proof. reflexivity. Qed.
Lemma K_pdfset_get_key_int : forall x, pdfset_get_key_int x = x. Proof. reflexivity. Qed.
Lemma K_pdfset_get_key_dict : forall x, pdfset_get_key_dict x = x. Proof. reflexivity. Qed.
Lemma K_pdfset_get_value : forall k x, pdfset_get_value k x = x. Proof. reflexivity. Qed.
Lemma K_pdfset_get_value_idx0 : forall k, pdfset_get_value_idx0 k = k. Proof. reflexivity. Qed.
Lemma K_cfg_init_copy : forall x, cfg_init_copy x = x. Proof. reflexivity. Qed.
Lemma K_cfg_from_dict_copy : forall x, cfg_from_dict_copy x = x. Proof. reflexivity. Qed.

(* ------------------------------------------------------------------ *)
(* stage checks *)
Lemma and_int_spec : forall s m,
  and_int s m = true <-> (forall n, 0 <= n -> Z.testbit m n = true -> Z.testbit s n = true).
Proof.
  intros s m. rewrite K_and_int, Z.eqb_eq. split.
  - intros E n Hn Bm. rewrite <- E in Bm. rewrite Z.land_spec in Bm.
    apply andb_true_iff in Bm. tauto.
  - intros F. apply Z.bits_inj'. intros n Hn. rewrite Z.land_spec.
    destruct (Z.testbit m n) eqn:Bm.
    + rewrite (F n Hn Bm). reflexivity.
    + apply andb_false_r.
Qed.

Lemma nonzero_bit : forall x, x <> 0 -> exists n, 0 <= n /\ Z.testbit x n = true.
Proof.
  intros x Nz. destruct (Z.lt_trichotomy x 0) as [L|[E|G]]; [|contradiction|].
  - exists (Z.log2 (Z.abs x) + 1). split; [pose proof (Z.log2_nonneg (Z.abs x)); lia|].
    apply Z.bits_iff_neg; [lia | exact L].
  - exists (Z.log2 x). split; [apply Z.log2_nonneg | apply Z.bit_log2; exact G].
Qed.

Lemma or_int_spec : forall s m,
  or_int s m = true <-> (exists n, 0 <= n /\ Z.testbit m n = true /\ Z.testbit s n = true).
Proof.
  intros s m. rewrite K_or_int, negb_true_iff, Z.eqb_neq. split.
  - intros Nz. destruct (nonzero_bit _ Nz) as (n & Hn & B).
    rewrite Z.land_spec in B. apply andb_true_iff in B. exists n; tauto.
  - intros (n & Hn & Bm & Bs) E.
    assert (X : Z.testbit (Z.land s m) n = true) by (rewrite Z.land_spec, Bm, Bs; reflexivity).
    rewrite E, Z.bits_0 in X. discriminate.
Qed.

Lemma and_loop_forallb : forall s ms, and_loop s ms = forallb (and_int s) ms.
Proof.
  intros s; induction ms as [|m t IH]; [reflexivity|].
  cbn [and_loop forallb]. rewrite K_and_loop_fail, K_and_ret_loop, K_and_int, IH.
  destruct (Z.land s m =? m); reflexivity.
Qed.

Lemma or_loop_existsb : forall s ms, or_loop s ms = existsb (or_int s) ms.
Proof.
  intros s; induction ms as [|m t IH]; [reflexivity|].
  cbn [or_loop existsb]. rewrite K_or_loop_hit, K_or_ret_loop, K_or_int, IH.
  destruct (Z.land s m =? 0); reflexivity.
Qed.

Definition covers (s m : Z) : Prop := forall n, 0 <= n -> Z.testbit m n = true -> Z.testbit s n = true.
Definition meets (s m : Z) : Prop := exists n, 0 <= n /\ Z.testbit m n = true /\ Z.testbit s n = true.

Theorem and_check_spec : forall s a,
  match a with
  | SInt m => exists b, and_check s a = Ok b /\ (b = true <-> covers s m)
  | SSeq ms => exists b, and_check s a = Ok b /\ (b = true <-> forall m, In m ms -> covers s m)
  end.
Proof.
  intros s [m|ms]; unfold and_check; rewrite K_and_is_int; cbn [is_int].
  - eexists; split; [reflexivity | apply and_int_spec].
  - eexists; split; [reflexivity|]. rewrite and_loop_forallb, forallb_forall.
    split; intros F m Hm; [exact (proj1 (and_int_spec s m) (F m Hm)) | exact (proj2 (and_int_spec s m) (F m Hm))].
Qed.

Theorem or_check_spec : forall s a,
  match a with
  | SInt m => exists b, or_check s a = Ok b /\ (b = true <-> meets s m)
  | SSeq ms => exists b, or_check s a = Ok b /\ (b = true <-> exists m, In m ms /\ meets s m)
  end.
Proof.
  intros s [m|ms]; unfold or_check; rewrite K_or_is_int; cbn [is_int].
  - eexists; split; [reflexivity | apply or_int_spec].
  - eexists; split; [reflexivity|]. rewrite or_loop_existsb, existsb_exists.
    split; intros (m & Hm & X); exists m; (split; [exact Hm|]);
      [exact (proj1 (or_int_spec s m) X) | exact (proj2 (or_int_spec s m) X)].
Qed.

Lemma table_16 : table_ok 16 4 = true.
Proof. vm_compute. reflexivity. Qed.

Theorem joint_names_spec : forall fields a,
  (forall stage, exists b, or_check stage a = Ok b) ->
  joint_names fields a =
    Ok (map fst (filter (fun kv => match or_check (snd kv) a with Ok b => b | Err _ => false end) fields)).
Proof.
  intros fields a T. induction fields as [|[name stage] t IH]; [reflexivity|].
  cbn [joint_names filter snd]. destruct (T stage) as [b Eb]. rewrite Eb, IH.
  destruct b; reflexivity.
Qed.

(* ------------------------------------------------------------------ *)
(* canonical listing *)
Lemma item_leb_true : forall a b, item_leb a b = true <->
  (fst a < fst b \/ (fst a = fst b /\ snd a <= snd b)).
Proof.
  intros a b. unfold item_leb. rewrite orb_true_iff, andb_true_iff, Z.ltb_lt, Z.eqb_eq, Z.leb_le. tauto.
Qed.

Lemma item_leb_false : forall a b, item_leb a b = false <->
  (fst b < fst a \/ (fst a = fst b /\ snd b < snd a)).
Proof.
  intros a b. unfold item_leb. rewrite orb_false_iff, andb_false_iff, Z.ltb_ge, Z.eqb_neq, Z.leb_gt. lia.
Qed.

Lemma item_eq : forall a b : item, fst a = fst b -> snd a = snd b -> a = b.
Proof. intros [a1 a2] [b1 b2]; cbn; intros; subst; reflexivity. Qed.

Lemma insert_comm : forall l a b, insert_item a (insert_item b l) = insert_item b (insert_item a l).
Proof.
  induction l as [|c t IH]; intros a b.
  - cbn. destruct (item_leb a b) eqn:E1; destruct (item_leb b a) eqn:E2; try reflexivity.
    + apply item_leb_true in E1, E2. assert (a = b) by (apply item_eq; lia). subst; reflexivity.
    + apply item_leb_false in E1, E2. lia.
  - cbn [insert_item].
    destruct (item_leb b c) eqn:Ebc; destruct (item_leb a c) eqn:Eac; cbn [insert_item];
      rewrite ?Ebc, ?Eac.
    + destruct (item_leb a b) eqn:E1; destruct (item_leb b a) eqn:E2; try reflexivity.
      * apply item_leb_true in E1, E2. assert (a = b) by (apply item_eq; lia). subst; reflexivity.
      * apply item_leb_false in E1, E2. lia.
    + destruct (item_leb a b) eqn:E1; [|reflexivity].
      apply item_leb_true in E1, Ebc. apply item_leb_false in Eac. lia.
    + destruct (item_leb b a) eqn:E2; [|reflexivity].
      apply item_leb_true in E2, Eac. apply item_leb_false in Ebc. lia.
    + rewrite IH. reflexivity.
Qed.

Lemma canon_perm : forall l l', Permutation l l' -> canon_items l = canon_items l'.
Proof.
  intros l l' P. induction P as [|x l l' P IH|x y l|l l' l'' P1 IH1 P2 IH2]; cbn.
  - reflexivity.
  - rewrite IH; reflexivity.
  - apply insert_comm.
  - congruence.
Qed.

Lemma insert_perm : forall a l, Permutation (a :: l) (insert_item a l).
Proof.
  intros a; induction l as [|b t IH]; cbn; [apply Permutation_refl|].
  destruct (item_leb a b); [apply Permutation_refl|].
  eapply perm_trans; [apply perm_swap|]. apply perm_skip. exact IH.
Qed.

(* the canonical listing has exactly the items of the dictionary *)
Lemma canon_is_perm : forall l, Permutation l (canon_items l).
Proof.
  induction l as [|a t IH]; cbn; [constructor|].
  eapply perm_trans; [apply perm_skip; exact IH | apply insert_perm].
Qed.

(* ------------------------------------------------------------------ *)
Section HashThms.
  Variable H : list item -> Z.

  (* C20_hash: equal dictionaries filled in different orders get one key *)
  Theorem hash_order_free : forall d d' : od Z,
    Permutation d d' ->
    make_dict_hash H (DDict d) = make_dict_hash H (DDict d').
  Proof. intros d d' P. cbn. rewrite (canon_perm _ _ P). reflexivity. Qed.

  Theorem hash_none_is_empty : make_dict_hash H DNone = make_dict_hash H (DDict []).
  Proof. reflexivity. Qed.

  Theorem pdfset_get_order_free : forall s (d d' : od Z),
    Permutation d d' ->
    pdfset_get H s (GDict d) = pdfset_get H s (GDict d').
  Proof. intros s d d' P. unfold pdfset_get. rewrite (hash_order_free d d' P). reflexivity. Qed.

  Theorem pdfset_add_order_free : forall s p (d d' : od Z),
    Permutation d d' ->
    pdfset_add H s p (GDict d) = pdfset_add H s p (GDict d').
  Proof. intros s p d d' P. unfold pdfset_add. rewrite (hash_order_free d d' P). reflexivity. Qed.

  (* what was stored under a dictionary is found under every re-ordering of it,
     also by its integer key *)
  Theorem pdfset_add_get : forall s p (d d' : od Z) s',
    Permutation d d' ->
    pdfset_add H s p (GDict d) = (s', Ok tt) ->
    pdfset_get H s' (GDict d') = Ok p
    /\ (exists k, make_dict_hash H (DDict d') = Ok k /\ pdfset_get H s' (GInt k) = Ok p)
    /\ pdfset_contains H s' (GDict d') = Ok true.
  Proof.
    intros s p d d' s' P E.
    unfold pdfset_get, pdfset_contains. rewrite <- (hash_order_free d d' P).
    unfold pdfset_add in E. destruct (negb (pis_pdf p)); [inversion E|].
    cbn in *. rewrite K_mdh, ?K_pdfset_add_key, ?K_pdfset_get_key_dict, ?K_pdfset_get_key_int,
      ?K_pdfset_get_value_idx0 in *.
    destruct (od_mem s (H (canon_items d))); [inversion E|].
    match type of E with (if ?c then _ else _) = _ => destruct c end; [|inversion E].
    inversion E; subst s'.
    rewrite od_get_set_same. split; [reflexivity|]. split.
    - eexists; split; [reflexivity|]. rewrite K_pdfset_get_key_int, od_get_set_same. reflexivity.
    - unfold od_mem. rewrite od_get_set_same. reflexivity.
  Qed.

  (* a failed add_pdf leaves the set unchanged *)
  Theorem pdfset_add_failure : forall s p g s' e, pdfset_add H s p g = (s', Err e) -> s' = s.
  Proof.
    intros s p g s' e E. unfold pdfset_add in E.
    destruct (negb (pis_pdf p)); [inversion E; reflexivity|].
    destruct g as [k|d|]; try (inversion E; reflexivity).
    cbn in E. destruct (od_mem s (pdfset_add_key (mdh (H (canon_items d))))); [inversion E; reflexivity|].
    match type of E with (if ?c then _ else _) = _ => destruct c end; inversion E; reflexivity.
  Qed.

  (* other entries are not disturbed by an add *)
  Theorem pdfset_add_frame : forall s p g s' r k,
    pdfset_add H s p g = (s', r) ->
    (forall d, g = GDict d -> make_dict_hash H (DDict d) <> Ok k) ->
    pdfset_get H s' (GInt k) = pdfset_get H s (GInt k).
  Proof.
    intros s p g s' r k E NK. unfold pdfset_add in E.
    destruct (negb (pis_pdf p)); [inversion E; reflexivity|].
    destruct g as [k0|d|]; try (inversion E; reflexivity).
    specialize (NK d eq_refl). cbn in E, NK.
    destruct (od_mem s (pdfset_add_key (mdh (H (canon_items d))))); [inversion E; reflexivity|].
    match type of E with (if ?c then _ else _) = _ => destruct c end; inversion E; [|reflexivity].
    unfold pdfset_get. rewrite K_pdfset_get_key_int, K_pdfset_get_value_idx0, K_pdfset_add_key.
    rewrite od_get_set_other; [reflexivity|]. intros X; apply NK; rewrite X; reflexivity.
  Qed.
End HashThms.

(* ------------------------------------------------------------------ *)
(* PDFSet: the order in which two PDFs are added does not matter for lookups *)
Section PdfOrder.
  Variable H : list item -> Z.

  Lemma od_get_set : forall {V} (d : od V) k v k',
    od_get (od_set d k v) k' = if k =? k' then Some v else od_get d k'.
  Proof.
    intros V d k v k'. destruct (Z.eqb_spec k k').
    - subst. apply od_get_set_same.
    - apply od_get_set_other; assumption.
  Qed.

  Theorem pdfset_add_commute : forall s p1 d1 p2 d2 s1 s12 s2 s21,
    pdfset_add H s p1 (GDict d1) = (s1, Ok tt) -> pdfset_add H s1 p2 (GDict d2) = (s12, Ok tt) ->
    pdfset_add H s p2 (GDict d2) = (s2, Ok tt) -> pdfset_add H s2 p1 (GDict d1) = (s21, Ok tt) ->
    forall g, pdfset_get H s12 g = pdfset_get H s21 g.
  Proof.
    intros s p1 d1 p2 d2 s1 s12 s2 s21 E1 E12 E2 E21 g.
    unfold pdfset_add in *. cbn [make_dict_hash] in *.
    rewrite ?K_mdh, ?K_pdfset_add_key in *.
    set (k1 := H (canon_items d1)) in *. set (k2 := H (canon_items d2)) in *.
    destruct (negb (pis_pdf p1)); [inversion E1|]. destruct (negb (pis_pdf p2)); [inversion E12|].
    destruct (od_mem s k1) eqn:M1; [inversion E1|].
    destruct (od_mem s k2) eqn:M2; [inversion E2|].
    match type of E1 with (if ?c then _ else _) = _ => destruct c end; [|inversion E1].
    match type of E2 with (if ?c then _ else _) = _ => destruct c end; [|inversion E2].
    inversion E1; subst s1. inversion E2; subst s2. clear E1 E2.
    destruct (od_mem (od_set s k1 p1) k2) eqn:M12; [inversion E12|].
    destruct (od_mem (od_set s k2 p2) k1) eqn:M21; [inversion E21|].
    match type of E12 with (if ?c then _ else _) = _ => destruct c end; [|inversion E12].
    match type of E21 with (if ?c then _ else _) = _ => destruct c end; [|inversion E21].
    inversion E12; subst s12. inversion E21; subst s21. clear E12 E21.
    rewrite od_mem_set in M12. apply orb_false_iff in M12. destruct M12 as [N12 _].
    apply Z.eqb_neq in N12.
    unfold pdfset_get. destruct g as [k|d|]; cbn [make_dict_hash]; try reflexivity;
      rewrite ?K_mdh, ?K_pdfset_get_key_int, ?K_pdfset_get_key_dict, ?K_pdfset_get_value_idx0;
      rewrite !od_get_set;
      match goal with |- context [k2 =? ?x] => destruct (Z.eqb_spec k2 x); destruct (Z.eqb_spec k1 x); try reflexivity; congruence end.
  Qed.
End PdfOrder.

(* ------------------------------------------------------------------ *)
(* DatasetCollection: the dict stays keyed by the dataset names *)
Definition dsc_ok (c : dsc) : Prop :=
  NoDup (od_keys c) /\ forall k o, In (k, o) c -> oname o = k /\ issub (ocls o) CBase = true.

Lemma od_set_in_k : forall {V} (d : od V) k v k' v',
  In (k', v') (od_set d k v) -> In (k', v') d \/ (k' = k /\ v' = v).
Proof.
  induction d as [|[k0 v0] t IH]; intros k v k' v' I; cbn in I.
  - destruct I as [I|[]]. inversion I; auto.
  - destruct (Z.eqb_spec k0 k).
    + destruct I as [I|I]; [inversion I; subst; auto | left; right; exact I].
    + destruct I as [I|I]; [left; left; exact I|].
      destruct (IH _ _ _ _ I) as [X|X]; [left; right; exact X | right; exact X].
Qed.

Lemma od_del_in : forall {V} (d : od V) k k' v, In (k', v) (od_del d k) -> In (k', v) d.
Proof.
  induction d as [|[k0 v0] t IH]; intros k k' v I; [exact I|]. cbn in I.
  destruct (k0 =? k); [right; exact I|]. destruct I as [I|I]; [left; exact I | right; eapply IH; eauto].
Qed.

Lemma od_del_nodup : forall {V} (d : od V) k, NoDup (od_keys d) -> NoDup (od_keys (od_del d k)).
Proof.
  unfold od_keys. induction d as [|[k0 v0] t IH]; intros k N; [exact N|]. cbn in *.
  inversion N as [|? ? Nk Nt]; subst. destruct (k0 =? k); [exact Nt|]. cbn. constructor.
  - intros X. apply Nk. apply in_map_iff in X. destruct X as ([k1 v1] & E1 & I1). cbn in E1; subst.
    apply in_map_iff. exists (k0, v1). split; [reflexivity | eapply od_del_in; eauto].
  - apply IH; exact Nt.
Qed.

Lemma K_dsc_dup_check : forall (c : dsc) k, dsc_dup_check k (od_keys c) = od_mem c k.
Proof.
  intros c k. unfold dsc_dup_check, od_mem, od_keys.
  induction c as [|[k0 v0] t IH]; [reflexivity|]. cbn. rewrite IH.
  rewrite (Z.eqb_sym k k0). destruct (k0 =? k); reflexivity.
Qed.

Lemma dsc_add_ok : forall ds c c' r, dsc_ok c -> dsc_add c ds = (c', r) -> dsc_ok c'.
Proof.
  induction ds as [|o t IH]; intros c c' r Ok E; cbn in E; [inversion E; subst; exact Ok|].
  destruct (negb (issub (ocls o) CBase)) eqn:Ty; [inversion E; subst; exact Ok|].
  rewrite K_dsc_dup_check in E.
  destruct (od_mem c (oname o)) eqn:M; [inversion E; subst; exact Ok|].
  eapply IH; [|exact E]. destruct Ok as [N A]. split.
  - apply od_keys_set_nodup; exact N.
  - intros k o' I. destruct (od_set_in_k _ _ _ _ _ I) as [X|[X1 X2]]; [apply A; exact X|].
    subst. split; [reflexivity|]. apply negb_false_iff in Ty; exact Ty.
Qed.

Lemma dstep_ok : forall c o, dsc_ok c -> dsc_ok (fst (dstep c o)).
Proof.
  intros c [ds|n] Ok; cbn [dstep].
  - destruct (dsc_add c ds) as [c' r] eqn:E. cbn. eapply dsc_add_ok; eauto.
  - unfold dsc_remove. destruct (od_mem c n); cbn; [|exact Ok]. destruct Ok as [N A]. split.
    + apply od_del_nodup; exact N.
    + intros k o I. apply A. eapply od_del_in; eauto.
Qed.

Lemma od_get_in : forall {V} (d : od V) k v, od_get d k = Some v -> In (k, v) d.
Proof.
  induction d as [|[k0 v0] t IH]; intros k v E; [discriminate|]. cbn in E.
  destruct (Z.eqb_spec k0 k); [inversion E; subst; left; reflexivity | right; apply IH; exact E].
Qed.

Theorem dataset_collection_keys : forall ops,
  dsc_ok (drun [] ops)
  /\ forall n o, dsc_get (drun [] ops) n = Ok o -> oname o = n.
Proof.
  intros ops.
  assert (G : forall ops c, dsc_ok c -> dsc_ok (drun c ops)).
  { induction ops0 as [|o t IH]; intros c Ok; [exact Ok|]. cbn. apply IH. apply dstep_ok; exact Ok. }
  assert (K0 : dsc_ok []) by (split; [constructor | intros k o []]).
  split; [apply G; exact K0|].
  intros n o E. unfold dsc_get in E. destruct (od_get (drun [] ops) n) as [o'|] eqn:Eg; [|discriminate].
  inversion E; subst o'. apply od_get_in in Eg. apply (proj2 (G ops [] K0)) in Eg. tauto.
Qed.

(* ------------------------------------------------------------------ *)
(* sequences of stage masks: the checks are the checks against the bitwise OR
   of all masks (masks may share bits; it is an OR, not a sum) *)
Definition lor_all (ms : list Z) : Z := fold_right Z.lor 0 ms.

Lemma covers_lor : forall s a b, covers s (Z.lor a b) <-> covers s a /\ covers s b.
Proof.
  intros s a b. unfold covers. split.
  - intros F. split; intros n Hn B; apply F; auto; rewrite Z.lor_spec, B; auto using orb_true_r.
  - intros [Fa Fb] n Hn B. rewrite Z.lor_spec in B. apply orb_true_iff in B. destruct B; auto.
Qed.

Lemma meets_lor : forall s a b, meets s (Z.lor a b) <-> meets s a \/ meets s b.
Proof.
  intros s a b. unfold meets. split.
  - intros (n & Hn & B & Bs). rewrite Z.lor_spec in B. apply orb_true_iff in B.
    destruct B; [left | right]; exists n; auto.
  - intros [(n & Hn & B & Bs)|(n & Hn & B & Bs)]; exists n; rewrite Z.lor_spec, B; auto using orb_true_r.
Qed.

Lemma covers_lor_all : forall s ms, covers s (lor_all ms) <-> forall m, In m ms -> covers s m.
Proof.
  intros s; induction ms as [|m t IH]; cbn [lor_all fold_right].
  - split; [intros _ m [] | intros _ n Hn B; rewrite Z.bits_0 in B; discriminate].
  - fold (lor_all t). rewrite covers_lor, IH. split.
    + intros [A B] x [X|X]; [subst; exact A | auto].
    + intros F. split; [apply F; left; reflexivity | intros x X; apply F; right; exact X].
Qed.

Lemma meets_lor_all : forall s ms, meets s (lor_all ms) <-> exists m, In m ms /\ meets s m.
Proof.
  intros s; induction ms as [|m t IH]; cbn [lor_all fold_right].
  - split; [intros (n & Hn & B & _); rewrite Z.bits_0 in B; discriminate | intros (m & [] & _)].
  - fold (lor_all t). rewrite meets_lor, IH. split.
    + intros [A|(x & X & A)]; [exists m; split; [left; reflexivity | exact A] | exists x; split; [right; exact X | exact A]].
    + intros (x & [X|X] & A); [subst; left; exact A | right; exists x; auto].
Qed.

Lemma bool_eq_iff : forall a b : bool, (a = true <-> b = true) -> a = b.
Proof. intros [|] [|] [A B]; auto; try (symmetry; auto); discriminate (A eq_refl) || auto. Qed.

Theorem and_check_seq_fold : forall s ms,
  and_check s (SSeq ms) = Ok (Z.land s (lor_all ms) =? lor_all ms).
Proof.
  intros s ms. unfold and_check. rewrite K_and_is_int. cbn [is_int]. f_equal.
  rewrite and_loop_forallb, <- K_and_int. apply bool_eq_iff.
  rewrite forallb_forall. rewrite (and_int_spec s (lor_all ms)). fold (covers s (lor_all ms)).
  rewrite covers_lor_all. split; intros F m Hm.
  - exact (proj1 (and_int_spec s m) (F m Hm)).
  - exact (proj2 (and_int_spec s m) (F m Hm)).
Qed.

Theorem or_check_seq_fold : forall s ms,
  or_check s (SSeq ms) = Ok (negb (Z.land s (lor_all ms) =? 0)).
Proof.
  intros s ms. unfold or_check. rewrite K_or_is_int. cbn [is_int]. f_equal.
  rewrite or_loop_existsb, <- K_or_int. apply bool_eq_iff.
  rewrite existsb_exists. rewrite (or_int_spec s (lor_all ms)). fold (meets s (lor_all ms)).
  rewrite meets_lor_all. split; intros (m & Hm & X); exists m; (split; [exact Hm|]).
  - exact (proj1 (or_int_spec s m) X).
  - exact (proj2 (or_int_spec s m) X).
Qed.

(* get_joint_names: exactly the fields whose stage meets the (OR of the) given
   stages, in the declaration order of the dictionary *)
Definition stage_mask (a : stagesarg) : Z :=
  match a with SInt m => m | SSeq ms => lor_all ms end.

Theorem joint_names_exact : forall fields a,
  joint_names fields a =
    Ok (map fst (filter (fun kv => negb (Z.land (snd kv) (stage_mask a) =? 0)) fields)).
Proof.
  intros fields a. induction fields as [|[name stage] t IH]; [reflexivity|].
  cbn [joint_names filter snd]. rewrite IH.
  assert (E : or_check stage a = Ok (negb (Z.land stage (stage_mask a) =? 0))).
  { destruct a as [m|ms]; cbn [stage_mask]; [|apply or_check_seq_fold].
    unfold or_check. rewrite K_or_is_int. cbn [is_int]. rewrite K_or_int. reflexivity. }
  rewrite E. destruct (negb (Z.land stage (stage_mask a) =? 0)); reflexivity.
Qed.

(* ------------------------------------------------------------------ *)
(* the stage constants are distinct single bits: a field required at one stage
   is never required at another one by accident *)
Lemma K_dfs_constants_ok : constants_ok dfs_constants = true.
Proof. vm_compute. reflexivity. Qed.

Theorem stage_constants_disjoint : forall a b, In a dfs_constants -> In b dfs_constants ->
  (a = b -> or_check a (SInt b) = Ok true /\ and_check a (SInt b) = Ok true)
  /\ (a <> b -> or_check a (SInt b) = Ok false /\ and_check a (SInt b) = Ok false).
Proof.
  intros a b Ha Hb. unfold dfs_constants in *. cbn in Ha, Hb.
  destruct Ha as [<-|[<-|[<-|[<-|[]]]]]; destruct Hb as [<-|[<-|[<-|[<-|[]]]]];
    (split; intros X; [try (exfalso; revert X; vm_compute; discriminate); split; vm_compute; reflexivity
                      | try (exfalso; apply X; reflexivity); split; vm_compute; reflexivity]).
Qed.
