(* C01: characterising lemmas of exactly those regenerated kernels on which the
   VALUE of the log-likelihood ratio depends (the gradient kernels are
   characterised in P_Llh.v and are not needed here, so that a change of a
   gradient formula does not touch the C01 theorems).  The stability mask is
   characterised away from the threshold only: AT the threshold the logarithm
   and its expansion coincide, so `>` and `>=` give the same value. *)
From Coq Require Import Reals ZArith List Bool Lra.
From Sky Require Import Num NumR G_llh.
Open Scope R_scope.

(* closes a characterising lemma after the kernel has been unfolded: robust
   against algebraically equivalent rewrites of the source expression *)
Ltac kv_ln_norm :=
  repeat match goal with
         | |- ?lhs = ?rhs =>
             match lhs with
             | context [ln ?a] =>
                 match rhs with
                 | context [ln ?b] =>
                     lazymatch a with
                     | b => fail
                     | _ => replace a with b by (first [lra | (unfold Rdiv; ring)])
                     end
                 end
             end
         end.

Ltac kv_fin :=
  num_R;
  first
    [ reflexivity
    | lra
    | (unfold Rdiv; ring)
    | (field; fail)
    | (kv_ln_norm; first [reflexivity | lra | (unfold Rdiv; ring)])
    | (repeat f_equal; first [lra | (unfold Rdiv; ring)])
    | (unfold Rltb, Rleb, Reqb;
       repeat (match goal with
               | |- context [Rlt_dec ?a ?b] => destruct (Rlt_dec a b)
               | |- context [Rle_dec ?a ?b] => destruct (Rle_dec a b)
               | |- context [Req_EM_T ?a ?b] => destruct (Req_EM_T a b)
               end);
       cbn [negb andb orb]; first [reflexivity | (exfalso; lra)]) ].

Section KV.
  Variable erfR : R -> R.
  Notation Nm := (RNum erfR).

  Lemma KV_alpha opa : k_alpha Nm opa = opa - 1.
  Proof. unfold k_alpha. kv_fin. Qed.
  Lemma KV_alpha_i ns x : k_alpha_i Nm ns x = ns * x.
  Proof. unfold k_alpha_i. kv_fin. Qed.
  (* the mask, away from the threshold *)
  Lemma KV_m_stable ai a :
    (a < ai -> k_m_stable Nm ai a = true) /\ (ai < a -> k_m_stable Nm ai a = false).
  Proof.
    unfold k_m_stable. num_R. unfold Rltb, Rleb.
    split; intros H;
      repeat (match goal with
              | |- context [Rlt_dec ?a ?b] => destruct (Rlt_dec a b)
              | |- context [Rle_dec ?a ?b] => destruct (Rle_dec a b)
              end);
      cbn [negb andb orb]; first [reflexivity | (exfalso; lra)].
  Qed.
  Lemma KV_loglam_stable ai : k_loglam_stable Nm ai = ln (1 + ai).
  Proof. unfold k_loglam_stable. kv_fin. Qed.
  Lemma KV_tildealpha ai a opa : k_tildealpha Nm ai a opa = (ai - a) / opa.
  Proof. unfold k_tildealpha. kv_fin. Qed.
  Lemma KV_loglam_unstable a ta :
    k_loglam_unstable Nm a ta = ln (1 + a) + ta - / 2 * ta * ta.
  Proof. unfold k_loglam_unstable. kv_fin. Qed.
  Lemma KV_log_lambda N N' ns s :
    k_log_lambda Nm N N' ns s = s + (N - N') * ln (1 + - ns / N).
  Proof. unfold k_log_lambda. kv_fin. Qed.
  Lemma KV_Xi r N : k_Xi Nm r N = (r - 1) / N.
  Proof. unfold k_Xi. kv_fin. Qed.
  Lemma KV_nsf ns f : k_nsf Nm ns f = ns * f.
  Proof. unfold k_nsf. kv_fin. Qed.
  Lemma KV_prod_ratio r1 r2 : k_prod_ratio Nm r1 r2 = r1 * r2.
  Proof. unfold k_prod_ratio. kv_fin. Qed.
  Lemma KV_sob_mask b : k_sob_mask Nm b = Rltb 0 b.
  Proof. unfold k_sob_mask. kv_fin. Qed.
  Lemma KV_sob_ratio s b : k_sob_ratio Nm s b = s / b.
  Proof. unfold k_sob_ratio. kv_fin. Qed.
  Lemma KV_sw_term acc r ak : k_sw_term Nm acc r ak = acc + r * ak.
  Proof. unfold k_sw_term. kv_fin. Qed.
  Lemma KV_sw_norm r A : k_sw_norm Nm r A = r / A.
  Proof. unfold k_sw_norm. kv_fin. Qed.
End KV.
