(* C03: permuting the datasets at the level of the services — the yield arrays of every
   group and the per-dataset data are permuted consistently, the value of
   MultiDatasetTCLLHRatio.evaluate (model: multi_eval) does not change. *)
From Coq Require Import Reals ZArith List Bool Lra Lia Permutation Arith.
From Sky Require Import Result PyList Num NumR G_weights M_Weights S_Llh S_Weights
     P_WeightsBase P_Weights P_Stacked P_WeightsComp.
Import ListNotations.
Open Scope R_scope.

Section Perm.
  Variable erfR : R -> R.
  Notation Nm := (RNum erfR).

  Definition ddata : Type := (R * nat * list (nat * nat * R))%type.
  (* dataset j uses row j of a_jk: d_idx = j *)
  Definition mk_dset (j : nat) (x : ddata) : dset (T:=R) :=
    (Z.of_nat j, fst (fst x), snd (fst x), snd x).
  Definition ds_from (k : nat) (data : list ddata) : list (dset (T:=R)) :=
    map (fun jx => mk_dset (fst jx) (snd jx)) (combine (seq k (length data)) data).
  Definition perm_groups (q : list nat) (groups : list (list R * list (list R))) :=
    map (fun g => (fst g, map (fun i => nth i (snd g) []) q)) groups.

  (* ---- generic list facts *)
  Lemma map_nth_seq_gen {A} (l : list A) d : map (fun k => nth k l d) (seq 0 (length l)) = l.
  Proof.
    induction l as [|x l IH]; [reflexivity|].
    cbn [length seq map nth]. f_equal. rewrite <- seq_shift, map_map. exact IH.
  Qed.

  Lemma combine_map2 {A B C} (f : A -> B) (g : A -> C) (q : list A) :
    combine (map f q) (map g q) = map (fun i => (f i, g i)) q.
  Proof. induction q as [|i q IH]; [reflexivity|]. cbn. now rewrite IH. Qed.

  Lemma combine_map_r {A B C} (h : B -> C) (l1 : list A) : forall (l2 : list B),
    combine l1 (map h l2) = map (fun p => (fst p, h (snd p))) (combine l1 l2).
  Proof. induction l1 as [|a l1 IH]; intros [|b l2]; try reflexivity. cbn. now rewrite IH. Qed.

  Lemma map_fst_combine {A B} (l1 : list A) : forall (l2 : list B),
    length l1 = length l2 -> map fst (combine l1 l2) = l1.
  Proof.
    induction l1 as [|a l1 IH]; intros [|b l2] H; cbn in *; try reflexivity; try lia.
    f_equal. apply IH. lia.
  Qed.

  Lemma perm_map_nth {A} (l : list A) d q :
    Permutation q (seq 0 (length l)) -> Permutation (map (fun i => nth i l d) q) l.
  Proof.
    intros HP. eapply Permutation_trans; [apply Permutation_map; exact HP|].
    rewrite map_nth_seq_gen. apply Permutation_refl.
  Qed.

  (* ---- the table of the permuted configuration is the permuted table *)
  Lemma a_rows_perm q J : forall groups ps,
    length ps = J -> Forall (fun g => length (snd g) = J) groups ->
    a_rows (map (fun i => nth i ps []) q) (perm_groups q groups)
    = map (fun i => nth i (a_rows ps groups) []) q.
  Proof.
    induction groups as [|[W Ycol] r IH]; intros ps Hps Hg; [reflexivity|].
    inversion Hg as [|? ? HY Hg']; subst. cbn [fst snd] in HY.
    cbn [perm_groups map a_rows fst snd]. fold (perm_groups q r).
    set (ps' := map (fun pY => fst pY ++ mulrow W (snd pY)) (combine ps Ycol)).
    rewrite <- (IH ps'); [|unfold ps'; rewrite map_length, combine_length; lia|exact Hg'].
    f_equal. rewrite combine_map2, map_map. apply map_ext. intros i. cbn [fst snd].
    unfold ps'.
    pose proof (map_nth (fun pY : list R * list R => fst pY ++ mulrow W (snd pY))
                        (combine ps Ycol) ([], []) i) as M.
    assert (D : @nil R ++ mulrow W [] = []) by (unfold mulrow; destruct W; reflexivity).
    cbn [fst snd] in M. rewrite D in M. rewrite M, combine_nth by lia. reflexivity.
  Qed.

  Lemma nth_repeat_nil {A} n i : nth i (repeat (@nil A) n) [] = [].
  Proof. revert i. induction n as [|n IH]; intros [|i]; cbn; try reflexivity. apply IH. Qed.

  Lemma a_spec_perm q J groups :
    length q = J -> Forall (fun g => length (snd g) = J) groups ->
    a_spec J (perm_groups q groups) = map (fun i => nth i (a_spec J groups) []) q.
  Proof.
    intros Hq Hg. unfold a_spec. rewrite <- (a_rows_perm q J groups (repeat [] J));
      [|apply repeat_length|exact Hg].
    f_equal. rewrite (map_ext _ (fun _ => @nil R)) by (intros i; apply nth_repeat_nil).
    rewrite <- Hq. clear. induction q as [|i q IH]; [reflexivity|]. cbn. now rewrite IH.
  Qed.

  Lemma a_rows_length : forall groups ps,
    Forall (fun g => length (snd g) = length ps) groups -> length (a_rows ps groups) = length ps.
  Proof.
    induction groups as [|[W Ycol] r IH]; intros ps H; [reflexivity|].
    inversion H as [|? ? HY H']; subst. cbn [fst snd] in HY. cbn [a_rows].
    rewrite IH; rewrite map_length, combine_length, HY, Nat.min_id; [reflexivity|exact H'].
  Qed.

  Lemma wf_lengths J groups : wf_groups J groups -> Forall (fun g => length (snd g) = J) groups.
  Proof. unfold wf_groups. apply Forall_impl. intros g [H _]. exact H. Qed.

  Lemma a_spec_length J groups : wf_groups J groups -> length (a_spec J groups) = J.
  Proof.
    intros H. unfold a_spec. rewrite a_rows_length; rewrite repeat_length; [reflexivity|].
    apply wf_lengths. exact H.
  Qed.

  Lemma wf_perm_groups q J groups :
    length q = J -> Forall (fun i => (i < J)%nat) q -> wf_groups J groups ->
    wf_groups J (perm_groups q groups).
  Proof.
    intros Hq Hi Hwf. unfold wf_groups, perm_groups in *. apply Forall_forall. intros g Hg.
    apply in_map_iff in Hg as (g0 & <- & Hin). rewrite Forall_forall in Hwf.
    destruct (Hwf g0 Hin) as [H1 H2]. cbn [fst snd]. split; [now rewrite map_length|].
    apply Forall_forall. intros Y HY. apply in_map_iff in HY as (i & <- & Hiq).
    rewrite Forall_forall in Hi, H2. apply H2. apply nth_In. rewrite H1. apply Hi. exact Hiq.
  Qed.

  (* ---- the value as a function of the rows paired with their data *)
  Definition rd_of (x : list R * ddata) : R * list R :=
    (fst (fst (snd x)), sw_ratio Nm (fst x) (snd (fst (snd x))) (snd (snd x))).

  Lemma ratios_of_rows a : forall data k Rs,
    Forall2 (ratio_of erfR a) (ds_from k data) Rs ->
    map (fun dR => (d_N (fst dR), snd dR)) (combine (ds_from k data) Rs)
    = map rd_of (combine (skipn k a) data).
  Proof.
    induction data as [|x data IH]; intros k Rs H.
    - cbn. destruct (skipn k a); reflexivity.
    - unfold ds_from in *. cbn [length seq combine map] in *. cbn [fst snd] in *.
      inversion H as [|d Rj ? ? (a_k & Ea & Es) HF]; subst.
      unfold mk_dset, d_idx in Ea. cbn [fst snd] in Ea.
      apply py_get_nat in Ea. rewrite (skipn_cons_nth_error a k a_k Ea).
      cbn [combine map]. f_equal.
      + unfold rd_of, d_N, mk_dset. cbn [fst snd].
        apply (stacked_ratio_inv Nm) in Es as [_ ->]. reflexivity.
      + apply (IH (S k) l' HF).
  Qed.

  Lemma multi_eval_rows opa ns J groups data v :
    wf_groups J groups ->
    multi_eval Nm opa ns J groups (ds_from 0 data) = Ok v ->
    v = multi_value Nm opa ns (f_j Nm (a_spec J groups)) (map rd_of (combine (a_spec J groups) data)).
  Proof.
    intros Hwf H. apply multi_eval_additive in H as (a & Rs & Ea & _ & _ & HF & Hv).
    rewrite (a_jk_calc_spec erfR J groups Hwf) in Ea. inversion Ea; subst a. clear Ea.
    rewrite multi_value_additive. rewrite Hv.
    pose proof (ratios_of_rows (a_spec J groups) data 0 Rs HF) as E. cbn [skipn] in E.
    rewrite <- E. clear E.
    rewrite combine_map_r, map_map. f_equal. apply map_ext. intros [fj [d Rj]].
    unfold term. cbn [fst snd]. rewrite value_is_manual. reflexivity.
  Qed.

  (* C03: service-level dataset permutation.  q lists, for every new position, the old
     dataset; the yield arrays of every group and the per-dataset data are permuted
     with q, every dataset keeps using its own row (d_idx = position). *)
  Theorem multi_eval_perm_datasets opa ns J groups (data : list ddata) q d0 v v' :
    wf_groups J groups -> length data = J -> Permutation q (seq 0 J) ->
    multi_eval Nm opa ns J groups (ds_from 0 data) = Ok v ->
    multi_eval Nm opa ns J (perm_groups q groups)
               (ds_from 0 (map (fun i => nth i data d0) q)) = Ok v' ->
    v = v'.
  Proof.
    intros Hwf Hd HP H H'.
    assert (Hq : length q = J) by (rewrite (Permutation_length HP); apply seq_length).
    assert (Hi : Forall (fun i => (i < J)%nat) q).
    { apply Forall_forall. intros i Hin. apply (Permutation_in _ HP) in Hin.
      apply in_seq in Hin. lia. }
    apply (multi_eval_rows _ _ _ _ _ _ Hwf) in H.
    apply (multi_eval_rows _ _ _ _ _ _ (wf_perm_groups q J groups Hq Hi Hwf)) in H'.
    rewrite H, H'. clear H H'.
    rewrite (a_spec_perm q J groups Hq (wf_lengths J groups Hwf)).
    set (a := a_spec J groups).
    assert (La : length a = J) by (apply a_spec_length; exact Hwf).
    rewrite combine_map2.
    assert (E : map (fun i => (nth i a [], nth i data d0)) q
                = map (fun i => nth i (combine a data) ([], d0)) q).
    { apply map_ext. intros i. rewrite combine_nth by lia. reflexivity. }
    rewrite E.
    assert (HPm : Permutation (map (fun i => nth i (combine a data) ([], d0)) q) (combine a data)).
    { apply perm_map_nth. rewrite combine_length, La, Hd, Nat.min_id. exact HP. }
    assert (Ef : map (fun i => nth i a []) q = map fst (map (fun i => nth i (combine a data) ([], d0)) q)).
    { rewrite map_map. apply map_ext. intros i. rewrite combine_nth by lia. reflexivity. }
    rewrite Ef.
    assert (Ea : a = map fst (combine a data)) by (symmetry; apply map_fst_combine; lia).
    rewrite Ea at 1.
    symmetry. apply (multi_value_perm_rows erfR opa ns _ _ HPm).
  Qed.

  (* ---- C03: the VALUE under a consistent permutation of the sources.
     An element of rd is (row of a_jk, (N_j, n_selected_j, pair table_j)) of one dataset.
     perm_row: the sources are re-ordered (new source i is old source p[i]), the pair table is
     labelled with the new indices.  relab_row: the same configuration in the old labelling. *)
  Definition perm_row (p : list nat) (x : list R * ddata) : list R * ddata :=
    (map (fun i => nth i (fst x) 0) p, snd x).
  Definition relab_row (p : list nat) (x : list R * ddata) : list R * ddata :=
    (fst x, (fst (snd x), map (relabel p) (snd (snd x)))).

  Theorem multi_value_perm_sources opa ns K p (rd : list (list R * ddata)) :
    Permutation p (seq 0 K) ->
    Forall (fun x => length (fst x) = K /\ NoDup (map pair_of (snd (snd x)))
                     /\ Forall (fun v => (src_of v < K)%nat) (snd (snd x))) rd ->
    multi_value Nm opa ns (f_j Nm (map fst (map (perm_row p) rd))) (map rd_of (map (perm_row p) rd))
    = multi_value Nm opa ns (f_j Nm (map fst (map (relab_row p) rd))) (map rd_of (map (relab_row p) rd)).
  Proof.
    intros HP Hrd.
    assert (Ef : f_j Nm (map fst (map (perm_row p) rd)) = f_j Nm (map fst (map (relab_row p) rd))).
    { apply f_j_perm_sources. induction Hrd as [|x rd (HK & _ & _) _ IH]; [constructor|].
      cbn [map]. constructor; [|exact IH]. unfold perm_row, relab_row. cbn [fst].
      apply (perm_map_nth (fst x) 0 p). pose proof HP as HP'. rewrite <- HK in HP'. exact HP'. }
    assert (Ed : map rd_of (map (perm_row p) rd) = map rd_of (map (relab_row p) rd)).
    { rewrite !map_map. apply map_ext_in. intros x Hx. rewrite Forall_forall in Hrd.
      destruct (Hrd x Hx) as (HK & Hnd & Hsrc).
      unfold rd_of, perm_row, relab_row. cbn [fst snd]. f_equal.
      apply (nth_ext _ _ 0 0); [now rewrite !sw_ratio_length|].
      intros e He. rewrite sw_ratio_length in He.
      pose proof HP as HP'. rewrite <- HK in HP', Hsrc.
      apply (stacked_ratio_perm_sources erfR (fst x) _ (snd (snd x)) p e);
        [exact HP'|exact Hnd|exact Hsrc|exact He]. }
    rewrite Ef, Ed. reflexivity.
  Qed.
End Perm.
