(* C15, cache consistency as a state-machine theorem: for EVERY history of
   calls on one Linear1D / Parabola1D object (any length, any trial data state
   ids, shared or per-source values, some sources changing cell and others
   not), every returned (values, gradients) equals the cache-free per-entry
   computation at the arguments of that call.  Exact arithmetic. *)
From Coq Require Import Reals ZArith List Bool Lra Lia.
From Sky Require Import Result PyList Num NumR G_grid M_Grid P_Grid P_GridInterp P_GridCall P_GridCache.
Import ListNotations.
Open Scope R_scope.

Section LinHist.
  Variable erfR : R -> R.
  Notation RN := (RNum erfR).
  Variables (a b d : Z).
  Hypothesis (Hd : (0 <= d)%Z) (Hb : (0 < b)%Z).
  Notation g := (dgrid a b d).
  Variable Fm : manifold (T := R).
  Variable layout : Z -> list (nat * nat).

  Definition lin_args_ok (id : Z) (xs : list R) (xof : nat -> R) : Prop :=
    forall s e, In (s, e) (layout id) -> bcast xs s = Ok (xof s) /\ g_lb g <= xof s.

  Definition lin_vals (id : Z) (xof : nat -> R) : list R :=
    map (fun se => lin_value1 RN g (fun t => Fm id t (fst se) (snd se)) (xof (fst se))) (layout id).
  Definition lin_grads (id : Z) (xof : nat -> R) : list R :=
    map (fun se => lin_grad1 RN g (fun t => Fm id t (fst se) (snd se)) (xof (fst se))) (layout id).

  Definition lin_state (id : Z) (xs : list R) (xof : nat -> R) : lin_cache (T := R) :=
    Some (id, map (fun x => lin_x0 RN (round_lower RN g x)) xs, lin_grads id xof,
          map (fun se => snd (lin_params RN g (fun t => Fm id t (fst se) (snd se)) (xof (fst se)))) (layout id)).

  (* the invariant: the cache is empty or holds exactly the parametrisation of
     some earlier admissible call *)
  Definition lin_inv (st : lin_cache (T := R)) : Prop :=
    st = None \/ exists id0 xs0 xof0, lin_args_ok id0 xs0 xof0 /\ st = lin_state id0 xs0 xof0.

  Lemma lin_miss id xs xof : lin_args_ok id xs xof ->
    (do r <- mapM (lin_entry RN g Fm id xs (map (fun x => lin_x0 RN (round_lower RN g x)) xs)
                             (map (fun x => lin_x1 RN (round_upper RN g x)) xs)) (layout id);
     Ok (map (fun t => fst (fst t)) r, map (lin_grad RN) (map (fun t => snd (fst t)) r),
         Some (id, map (fun x => lin_x0 RN (round_lower RN g x)) xs, map (fun t => snd (fst t)) r,
               map (fun t => snd t) r)))
    = Ok (lin_vals id xof, lin_grads id xof, lin_state id xs xof).
  Proof.
    intros H. apply (lin_miss_branch erfR g Fm (layout id) id xs xof).
    intros s e Hi. apply (H s e Hi).
  Qed.

  Lemma lin_step st id xs xof : lin_inv st -> lin_args_ok id xs xof ->
    match lin_call RN g Fm (layout id) st id xs with
    | Ok (v, gr, st') => v = lin_vals id xof /\ gr = lin_grads id xof /\ lin_inv st'
    | Err _ => True
    end.
  Proof.
    intros Hinv Hargs.
    assert (Hnew : lin_inv (lin_state id xs xof)) by (right; exists id, xs, xof; split; [exact Hargs|reflexivity]).
    destruct Hinv as [->|[id0 [xs0 [xof0 [Hargs0 ->]]]]].
    - unfold lin_call. cbv zeta. rewrite K_lin_is_cached. cbn [bind]. rewrite (lin_miss id xs xof Hargs).
      repeat split. exact Hnew.
    - unfold lin_call, lin_state. cbv zeta. rewrite K_lin_is_cached.
      destruct (id0 =? id)%Z eqn:Eid; cbn [andb].
      + apply Z.eqb_eq in Eid. subst id0.
        destruct (np_all_equal RN (map (fun x => lin_x0 RN (round_lower RN g x)) xs0)
                               (map (fun x => lin_x0 RN (round_lower RN g x)) xs)) as [h|err] eqn:Eh;
          cbn [bind]; [|exact I].
        rewrite K_lin_is_cached, Z.eqb_refl. cbn [andb]. destruct h.
        * destruct (lin_cached_values_per_entry erfR a b d Fm id xs0 xs xof0 xof (layout id) Hd Hb) as [EV EG].
          { intros s e Hi. destruct (Hargs0 s e Hi) as [B0 L0]. destruct (Hargs s e Hi) as [B1 L1].
            repeat split; try assumption.
            apply (np_all_equal_bcast erfR _ _ s _ _ Eh).
            - rewrite bcast_map, B0. reflexivity.
            - rewrite bcast_map, B1. reflexivity. }
          unfold lin_grads. rewrite EV. cbn [bind]. split; [reflexivity|]. split.
          -- rewrite map_map. rewrite <- EG. apply map_ext. intros se. reflexivity.
          -- right. exists id, xs0, xof0. split; [exact Hargs0|reflexivity].
        * rewrite (lin_miss id xs xof Hargs). repeat split. exact Hnew.
      + cbn [bind]. rewrite (lin_miss id xs xof Hargs). repeat split. exact Hnew.
  Qed.

  (* no call raises when the per-source value arrays have compatible lengths *)
  Lemma lin_step_ok st id xs xof n : lin_inv st -> lin_args_ok id xs xof ->
    (match st with Some (_, cx0s, _, _) => length cx0s = 1 \/ length cx0s = n | None => True end)%nat ->
    (length xs = 1 \/ length xs = n)%nat ->
    exists v gr st', lin_call RN g Fm (layout id) st id xs = Ok (v, gr, st') /\
      (match st' with Some (_, cx0s, _, _) => length cx0s = 1 \/ length cx0s = n | None => True end)%nat.
  Proof.
    intros Hinv Hargs Hl0 Hl.
    destruct Hinv as [->|[id0 [xs0 [xof0 [Hargs0 ->]]]]].
    - unfold lin_call. cbv zeta. rewrite K_lin_is_cached. cbn [bind]. rewrite (lin_miss id xs xof Hargs).
      do 3 eexists. split; [reflexivity|]. unfold lin_state; cbv beta iota; rewrite map_length; exact Hl.
    - unfold lin_state in Hl0. cbv beta iota in Hl0. rewrite map_length in Hl0.
      unfold lin_call, lin_state. cbv zeta. rewrite K_lin_is_cached.
      destruct (id0 =? id)%Z eqn:Eid; cbn [andb].
      + apply Z.eqb_eq in Eid. subst id0.
        destruct (np_all_equal_ok erfR (map (fun x => lin_x0 RN (round_lower RN g x)) xs0)
                                  (map (fun x => lin_x0 RN (round_lower RN g x)) xs)) as [h Eh];
          [rewrite !map_length; lia|].
        rewrite Eh. cbn [bind]. rewrite K_lin_is_cached, Z.eqb_refl. cbn [andb]. destruct h.
        * destruct (lin_cached_values_per_entry erfR a b d Fm id xs0 xs xof0 xof (layout id) Hd Hb) as [EV EG].
          { intros s e Hi. destruct (Hargs0 s e Hi) as [B0 L0]. destruct (Hargs s e Hi) as [B1 L1].
            repeat split; try assumption.
            apply (np_all_equal_bcast erfR _ _ s _ _ Eh).
            - rewrite bcast_map, B0. reflexivity.
            - rewrite bcast_map, B1. reflexivity. }
          unfold lin_grads. rewrite EV. cbn [bind]. do 3 eexists. split; [reflexivity|].
          cbv beta iota. rewrite map_length. exact Hl0.
        * rewrite (lin_miss id xs xof Hargs). do 3 eexists. split; [reflexivity|].
          unfold lin_state; cbv beta iota; rewrite map_length; exact Hl.
      + cbn [bind]. rewrite (lin_miss id xs xof Hargs). do 3 eexists. split; [reflexivity|].
        unfold lin_state; cbv beta iota; rewrite map_length; exact Hl.
  Qed.

  (* T: every history *)
  Theorem linear_history_consistent (calls : list (Z * list R)) (xofs : list (nat -> R)) st :
    lin_inv st ->
    (forall k id xs xof, nth_error calls k = Some (id, xs) -> nth_error xofs k = Some xof -> lin_args_ok id xs xof) ->
    forall k id xs xof v gr,
      nth_error calls k = Some (id, xs) -> nth_error xofs k = Some xof ->
      nth_error (lin_run RN g Fm layout st calls) k = Some (Ok (v, gr)) ->
      v = lin_vals id xof /\ gr = lin_grads id xof.
  Proof.
    revert xofs st. induction calls as [|[id0 xs0] calls IH]; intros xofs st Hinv Hargs k id xs xof v gr Hc Hx Hr.
    - destruct k; discriminate.
    - destruct xofs as [|xof0 xofs]; [destruct k; discriminate|].
      assert (A0 : lin_args_ok id0 xs0 xof0) by (apply (Hargs 0%nat); reflexivity).
      pose proof (lin_step st id0 xs0 xof0 Hinv A0) as Hs.
      cbn [lin_run] in Hr.
      destruct (lin_call RN g Fm (layout id0) st id0 xs0) as [[[v0 g0] st']|err].
      + destruct Hs as [Ev [Eg Hinv']]. destruct k as [|k].
        * cbn in Hc, Hx, Hr. inversion Hc; inversion Hx; inversion Hr; subst. split; reflexivity.
        * cbn [nth_error] in Hc, Hx, Hr. eapply (IH xofs st' Hinv'); eauto.
          intros k' id' xs' xof' Hc' Hx'. apply (Hargs (S k')); assumption.
      + destruct k as [|k].
        * cbn in Hr. discriminate.
        * cbn [nth_error] in Hc, Hx, Hr. eapply (IH xofs st Hinv); eauto.
          intros k' id' xs' xof' Hc' Hx'. apply (Hargs (S k')); assumption.
  Qed.

  (* ... and none of its calls raises when the value arrays have length 1 or n *)
  Theorem linear_history_no_error (calls : list (Z * list R)) (xofs : list (nat -> R)) (n : nat) st :
    lin_inv st ->
    (match st with Some (_, cx0s, _, _) => length cx0s = 1 \/ length cx0s = n | None => True end)%nat ->
    length xofs = length calls ->
    (forall k id xs xof, nth_error calls k = Some (id, xs) -> nth_error xofs k = Some xof ->
                         lin_args_ok id xs xof /\ (length xs = 1 \/ length xs = n)%nat) ->
    forall k r, nth_error (lin_run RN g Fm layout st calls) k = Some r -> exists vg, r = Ok vg.
  Proof.
    revert xofs st. induction calls as [|[id0 xs0] calls IH]; intros xofs st Hinv Hl0 Hlen Hargs k r Hr.
    - destruct k; discriminate.
    - destruct xofs as [|xof0 xofs]; [discriminate|].
      destruct (Hargs 0%nat id0 xs0 xof0 eq_refl eq_refl) as [A0 L0].
      destruct (lin_step_ok st id0 xs0 xof0 n Hinv A0 Hl0 L0) as [v0 [g0 [st' [Ec Hl']]]].
      pose proof (lin_step st id0 xs0 xof0 Hinv A0) as Hs.
      cbn [lin_run] in Hr. rewrite Ec in Hr, Hs. destruct Hs as [_ [_ Hinv']].
      destruct k as [|k].
      + cbn in Hr. inversion Hr. eexists; reflexivity.
      + cbn [nth_error] in Hr. eapply (IH xofs st' Hinv' Hl'); eauto.
        intros k' id' xs' xof' Hc' Hx'. apply (Hargs (S k')); assumption.
  Qed.
End LinHist.

(* ---- Parabola1D *)
Section ParHist.
  Variable erfR : R -> R.
  Notation RN := (RNum erfR).
  Variable g : gdesc (T := R).
  Variable Fm : manifold (T := R).
  Variable layout : Z -> list (nat * nat).

  Definition par_args_ok (id : Z) (xs : list R) (xof : nat -> R) : Prop :=
    forall s e, In (s, e) (layout id) -> bcast xs s = Ok (xof s).
  Definition par_vals (id : Z) (xof : nat -> R) : list R :=
    map (fun se => par_value1 RN g (fun t => Fm id t (fst se) (snd se)) (xof (fst se))) (layout id).
  Definition par_grads (id : Z) (xof : nat -> R) : list R :=
    map (fun se => par_grad1 RN g (fun t => Fm id t (fst se) (snd se)) (xof (fst se))) (layout id).

  Definition par_inv (st : par_cache (T := R)) : Prop :=
    st = None \/ exists id0 xs0 xof0, par_args_ok id0 xs0 xof0 /\ st = par_state erfR g Fm (layout id0) id0 xs0 xof0.

  Definition par_len_ok (n : nat) (st : par_cache (T := R)) : Prop :=
    match st with Some (_, cx1s, _, _, _) => (length cx1s = 1 \/ length cx1s = n)%nat | None => True end.

  Lemma par_step st id xs xof : par_inv st -> par_args_ok id xs xof ->
    match par_call RN g Fm (layout id) st id xs with
    | Ok (v, gr, st') => v = par_vals id xof /\ gr = par_grads id xof /\ par_inv st'
    | Err _ => True
    end.
  Proof.
    intros Hinv Hargs.
    assert (Hnew : par_inv (par_state erfR g Fm (layout id) id xs xof))
      by (right; exists id, xs, xof; split; [exact Hargs|reflexivity]).
    assert (Miss : (do pst <- Ok (map (fun se => par_prm RN g Fm id (xof (fst se)) (fst se) (snd se)) (layout id),
                               par_state erfR g Fm (layout id) id xs xof);
                    let '(prm, st') := pst in
                    do vg <- par_values RN xs (map (fun x => par_x1 RN (round_nearest RN g x)) xs) (layout id) prm;
                    Ok (map fst vg, map snd vg, st'))
                   = Ok (par_vals id xof, par_grads id xof, par_state erfR g Fm (layout id) id xs xof)).
    { cbn [bind]. rewrite (par_values_per_entry RN g Fm id xs xof (layout id) Hargs). cbn [bind].
      unfold par_vals, par_grads. rewrite !map_map. cbn [fst snd]. reflexivity. }
    destruct Hinv as [->|[id0 [xs0 [xof0 [Hargs0 ->]]]]].
    - unfold par_call. cbv zeta. rewrite K_par_is_cached_id. cbn [bind].
      rewrite (par_miss_branch erfR g Fm (layout id) id xs xof Hargs). rewrite Miss. repeat split. exact Hnew.
    - unfold par_call. unfold par_state at 1 2. cbv zeta. rewrite K_par_is_cached_id.
      destruct (id0 =? id)%Z eqn:Eid.
      + apply Z.eqb_eq in Eid. subst id0.
        destruct (np_all_equal RN (map (fun x => par_x1 RN (round_nearest RN g x)) xs0)
                               (map (fun x => par_x1 RN (round_nearest RN g x)) xs)) as [h|err] eqn:Eh;
          cbn [bind]; [|exact I].
        rewrite K_par_is_cached_differs. destruct h; cbn [negb].
        * rewrite combine3_map.
          assert (Eprm : map (fun t : R * R * R => (fst (fst t), snd (fst t), snd t))
                             (map (fun se => par_prm RN g Fm id (xof0 (fst se)) (fst se) (snd se)) (layout id))
                         = map (fun se => par_prm RN g Fm id (xof (fst se)) (fst se) (snd se)) (layout id)).
          { rewrite map_map. apply map_ext_in. intros [s e] Hi. cbn [fst snd].
            assert (EN : round_nearest RN g (xof0 s) = round_nearest RN g (xof s)).
            { apply (np_all_equal_bcast erfR _ _ s _ _ Eh).
              - rewrite bcast_map, (Hargs0 s e Hi). reflexivity.
              - rewrite bcast_map, (Hargs s e Hi). reflexivity. }
            unfold par_prm.
            rewrite (parabola_params_determined_by_x1 erfR g (fun t => Fm id t s e) (xof0 s) (xof s) EN).
            destruct (par_params RN g (fun t => Fm id t s e) (xof s)) as [[[x1 M1] a0] b0]. reflexivity. }
          rewrite Eprm. cbn [bind].
          rewrite (par_values_per_entry RN g Fm id xs xof (layout id) Hargs). cbn [bind].
          unfold par_vals, par_grads. rewrite !map_map. cbn [fst snd]. repeat split.
          right. exists id, xs0, xof0. split; [exact Hargs0|reflexivity].
        * rewrite (par_miss_branch erfR g Fm (layout id) id xs xof Hargs). rewrite Miss. repeat split. exact Hnew.
      + cbn [bind]. rewrite (par_miss_branch erfR g Fm (layout id) id xs xof Hargs). rewrite Miss. repeat split. exact Hnew.
  Qed.

  Theorem parabola_history_consistent (calls : list (Z * list R)) (xofs : list (nat -> R)) st :
    par_inv st ->
    (forall k id xs xof, nth_error calls k = Some (id, xs) -> nth_error xofs k = Some xof -> par_args_ok id xs xof) ->
    forall k id xs xof v gr,
      nth_error calls k = Some (id, xs) -> nth_error xofs k = Some xof ->
      nth_error (par_run RN g Fm layout st calls) k = Some (Ok (v, gr)) ->
      v = par_vals id xof /\ gr = par_grads id xof.
  Proof.
    revert xofs st. induction calls as [|[id0 xs0] calls IH]; intros xofs st Hinv Hargs k id xs xof v gr Hc Hx Hr.
    - destruct k; discriminate.
    - destruct xofs as [|xof0 xofs]; [destruct k; discriminate|].
      assert (A0 : par_args_ok id0 xs0 xof0) by (apply (Hargs 0%nat); reflexivity).
      pose proof (par_step st id0 xs0 xof0 Hinv A0) as Hs.
      cbn [par_run] in Hr.
      destruct (par_call RN g Fm (layout id0) st id0 xs0) as [[[v0 g0] st']|err].
      + destruct Hs as [Ev [Eg Hinv']]. destruct k as [|k].
        * cbn in Hc, Hx, Hr. inversion Hc; inversion Hx; inversion Hr; subst. split; reflexivity.
        * cbn [nth_error] in Hc, Hx, Hr. eapply (IH xofs st' Hinv'); eauto.
          intros k' id' xs' xof' Hc' Hx'. apply (Hargs (S k')); assumption.
      + destruct k as [|k].
        * cbn in Hr. discriminate.
        * cbn [nth_error] in Hc, Hx, Hr. eapply (IH xofs st Hinv); eauto.
          intros k' id' xs' xof' Hc' Hx'. apply (Hargs (S k')); assumption.
  Qed.
End ParHist.

Section ParHistOk.
  Variable erfR : R -> R.
  Notation RN := (RNum erfR).
  Variable g : gdesc (T := R).
  Variable Fm : manifold (T := R).
  Variable layout : Z -> list (nat * nat).

  Lemma par_step_strong st id xs xof : par_inv erfR g Fm layout st -> par_args_ok layout id xs xof ->
    (match st with
     | Some (cid, cx1s, _, _, _) => cid = id ->
         exists h, np_all_equal RN cx1s (map (fun x => par_x1 RN (round_nearest RN g x)) xs) = Ok h
     | None => True end) ->
    exists st', par_call RN g Fm (layout id) st id xs
                = Ok (par_vals erfR g Fm layout id xof, par_grads erfR g Fm layout id xof, st')
                /\ (st' = st \/ st' = par_state erfR g Fm (layout id) id xs xof).
  Proof.
    intros Hinv Hargs Hcmp.
    assert (Miss : (do pst <- Ok (map (fun se => par_prm RN g Fm id (xof (fst se)) (fst se) (snd se)) (layout id),
                               par_state erfR g Fm (layout id) id xs xof);
                    let '(prm, st') := pst in
                    do vg <- par_values RN xs (map (fun x => par_x1 RN (round_nearest RN g x)) xs) (layout id) prm;
                    Ok (map fst vg, map snd vg, st'))
                   = Ok (par_vals erfR g Fm layout id xof, par_grads erfR g Fm layout id xof,
                         par_state erfR g Fm (layout id) id xs xof)).
    { cbn [bind]. rewrite (par_values_per_entry RN g Fm id xs xof (layout id) Hargs). cbn [bind].
      unfold par_vals, par_grads. rewrite !map_map. cbn [fst snd]. reflexivity. }
    destruct Hinv as [->|[id0 [xs0 [xof0 [Hargs0 ->]]]]].
    - unfold par_call. cbv zeta. rewrite K_par_is_cached_id. cbn [bind].
      rewrite (par_miss_branch erfR g Fm (layout id) id xs xof Hargs). rewrite Miss.
      eexists. split; [reflexivity|right; reflexivity].
    - unfold par_state at 1 in Hcmp. cbv beta iota zeta in Hcmp.
      unfold par_call. unfold par_state at 1 2. cbv zeta. rewrite K_par_is_cached_id.
      destruct (id0 =? id)%Z eqn:Eid.
      + apply Z.eqb_eq in Eid. subst id0. destruct (Hcmp eq_refl) as [h Eh].
        rewrite Eh. cbn [bind]. rewrite K_par_is_cached_differs. destruct h; cbn [negb].
        * rewrite combine3_map.
          assert (Eprm : map (fun t : R * R * R => (fst (fst t), snd (fst t), snd t))
                             (map (fun se => par_prm RN g Fm id (xof0 (fst se)) (fst se) (snd se)) (layout id))
                         = map (fun se => par_prm RN g Fm id (xof (fst se)) (fst se) (snd se)) (layout id)).
          { rewrite map_map. apply map_ext_in. intros [s e] Hi. cbn [fst snd].
            assert (EN : round_nearest RN g (xof0 s) = round_nearest RN g (xof s)).
            { apply (np_all_equal_bcast erfR _ _ s _ _ Eh).
              - rewrite bcast_map, (Hargs0 s e Hi). reflexivity.
              - rewrite bcast_map, (Hargs s e Hi). reflexivity. }
            unfold par_prm.
            rewrite (parabola_params_determined_by_x1 erfR g (fun t => Fm id t s e) (xof0 s) (xof s) EN).
            destruct (par_params RN g (fun t => Fm id t s e) (xof s)) as [[[x1 M1] a0] b0]. reflexivity. }
          rewrite Eprm. cbn [bind].
          rewrite (par_values_per_entry RN g Fm id xs xof (layout id) Hargs). cbn [bind].
          unfold par_vals, par_grads. rewrite !map_map. cbn [fst snd].
          eexists. split; [reflexivity|left; reflexivity].
        * rewrite (par_miss_branch erfR g Fm (layout id) id xs xof Hargs). rewrite Miss.
          eexists. split; [reflexivity|right; reflexivity].
      + cbn [bind]. rewrite (par_miss_branch erfR g Fm (layout id) id xs xof Hargs). rewrite Miss.
        eexists. split; [reflexivity|right; reflexivity].
  Qed.

  Lemma par_step_ok st id xs xof n : par_inv erfR g Fm layout st -> par_args_ok layout id xs xof ->
    par_len_ok n st -> (length xs = 1 \/ length xs = n)%nat ->
    exists v gr st', par_call RN g Fm (layout id) st id xs = Ok (v, gr, st') /\ par_len_ok n st'.
  Proof.
    intros Hinv Hargs Hl0 Hl.
    assert (Hlen_new : par_len_ok n (par_state erfR g Fm (layout id) id xs xof))
      by (unfold par_state, par_len_ok; cbv beta iota zeta; rewrite map_length; exact Hl).
    destruct (par_step_strong st id xs xof Hinv Hargs) as [st' [E Hst]].
    - destruct st as [[[[[cid cx1s] M1s] as_] bs]|]; [|exact I]. intros _.
      unfold par_len_ok in Hl0. apply np_all_equal_ok. rewrite map_length. lia.
    - do 3 eexists. split; [exact E|]. destruct Hst as [->| ->]; assumption.
  Qed.

  Theorem parabola_history_no_error (calls : list (Z * list R)) (xofs : list (nat -> R)) (n : nat) st :
    par_inv erfR g Fm layout st -> par_len_ok n st ->
    length xofs = length calls ->
    (forall k id xs xof, nth_error calls k = Some (id, xs) -> nth_error xofs k = Some xof ->
                         par_args_ok layout id xs xof /\ (length xs = 1 \/ length xs = n)%nat) ->
    forall k r, nth_error (par_run RN g Fm layout st calls) k = Some r -> exists vg, r = Ok vg.
  Proof.
    revert xofs st. induction calls as [|[id0 xs0] calls IH]; intros xofs st Hinv Hl0 Hlen Hargs k r Hr.
    - destruct k; discriminate.
    - destruct xofs as [|xof0 xofs]; [discriminate|].
      destruct (Hargs 0%nat id0 xs0 xof0 eq_refl eq_refl) as [A0 L0].
      destruct (par_step_ok st id0 xs0 xof0 n Hinv A0 Hl0 L0) as [v0 [g0 [st' [Ec Hl']]]].
      pose proof (par_step erfR g Fm layout st id0 xs0 xof0 Hinv A0) as Hs.
      cbn [par_run] in Hr. rewrite Ec in Hr, Hs. destruct Hs as [_ [_ Hinv']].
      destruct k as [|k].
      + cbn in Hr. inversion Hr. eexists; reflexivity.
      + cbn [nth_error] in Hr. eapply (IH xofs st' Hinv' Hl'); eauto.
        intros k' id' xs' xof' Hc' Hx'. apply (Hargs (S k')); assumption.
  Qed.
End ParHistOk.

