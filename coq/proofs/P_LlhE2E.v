(* C02 — the closed end-to-end theorem: for every declaration list accepted by map_param and every
   floating index r other than the index of ns, entry r of the gradient vector of the model
   (M_LlhE2E.e2e_grad) is the derivative of the model's value with respect to the r-th floating value.
   Hypotheses only on the leaves (yields, interpolated ratios: differentiable) and non-degeneracy at the
   point.  Chains: layout (P_Layout / P_LayoutDeriv) -> leaves -> pipeline (P_LlhPipeGrad). *)
From Coq Require Import Reals ZArith List Bool Lra Lia Arith.
From Coquelicot Require Import Coquelicot.
From Sky Require Import Result PyList Num NumR G_llh G_layout M_Llh M_LlhPipe M_Layout M_LlhGrad M_LlhE2E
  S_Llh S_LlhPipe S_Layout S_LlhGrad
  P_Llh P_LlhK P_LlhValue P_LlhC1 P_LlhCompose P_LlhDeriv P_WeightsDeriv P_Layout P_LayoutDeriv
  P_LlhGrad P_LlhStack P_LlhPipeGrad.
Import ListNotations.
Open Scope R_scope.

Section E.
  Variable erfR : R -> R.
  Notation Nm := (RNum erfR).

  Lemma xval_cellval m vec k nm : xval Nm m vec k nm = cellval m vec k nm.
  Proof. reflexivity. Qed.
  Lemma xkey_cellkey m vec k nm : xkey (T:=R) m vec k nm = cellkey m vec k nm.
  Proof. reflexivity. Qed.

  Lemma create_set_nth (m : @mapper R) vec rec r t :
    create_src_params_recarray m vec = Ok rec ->
    exists rec', create_src_params_recarray m (set_nth vec r t) = Ok rec'.
  Proof.
    unfold create_src_params_recarray. rewrite !K_lk_len_bad.
    replace (zlen (set_nth vec r t)) with (zlen vec) by (unfold zlen; rewrite set_nth_length; reflexivity).
    destruct (negb (zlen vec =? n_floating (m_decls m))%Z); [discriminate|]. intros _. eexists. reflexivity.
  Qed.

  Lemma set_nth_same {A} (l : list A) r d : (r < length l)%nat -> set_nth l r (nth r l d) = l.
  Proof. revert r. induction l as [|a l IH]; intros [|r] H; cbn in *; try lia; auto. f_equal. apply IH. lia. Qed.

  Lemma nth_set_nth_neq {A} (l : list A) : forall r k v d, r <> k -> nth k (set_nth l r v) d = nth k l d.
  Proof. induction l as [|a l IH]; intros [|r] [|k] v d H; cbn; auto; try congruence. Qed.

  (* every cell, mapped or not: the leaf c*f(local value) as a function of the r-th floating value *)
  Lemma cell_leaf_derive n ds (m : @mapper R) vec rec k name (r : nat) (f f' : R -> R) (c : R) :
    build n ds = Ok m -> create_src_params_recarray m vec = Ok rec -> (k < n)%nat -> (r < length vec)%nat ->
    (forall x, is_derive f x (f' x)) ->
    is_derive (fun t => c * f (xval Nm m (set_nth vec r t) k name)) (nth r vec 0)
              (c * (if lk_is_local (Z.of_nat r) (xkey (T:=R) m vec k name) then f' (xval Nm m vec k name) else 0)).
  Proof.
    intros Hb Hc Hk Hr Hf.
    destruct (rcell rec k name) as (ov, g) eqn:Ec.
    destruct (layout_sound n ds m vec rec k name ov g Hb Hc Hk Ec)
      as [(Hov & Hg)|(pre & d & post & v & E & N & _)].
    - (* no declaration feeds the cell: NaN / key 0 whatever the vector is *)
      subst ov g.
      assert (Hkey : xkey (T:=R) m vec k name = 0%Z) by (unfold xkey; rewrite Hc, Ec; reflexivity).
      rewrite Hkey, K_lk_is_local.
      replace (0 =? Z.of_nat r + 1)%Z with false by (symmetry; apply Z.eqb_neq; lia).
      apply (is_derive_eq _ _ _ 0); [|ring].
      apply (is_derive_ext (fun _ => c * f 0)); [|apply (is_derive_const (c * f 0))].
      intros t. destruct (create_set_nth m vec rec r t Hc) as (rec' & Ht).
      destruct (rcell rec' k name) as (ov', g') eqn:Ec'.
      destruct (layout_sound n ds m _ rec' k name ov' g' Hb Ht Hk Ec')
        as [(Hov' & _)|(pre & d & post & v & E & N & _)].
      + unfold xval. rewrite Ht, Ec'. subst ov'. reflexivity.
      + exfalso. destruct (layout_producer n ds m vec rec k name pre d post Hb Hc Hk E N) as (v0 & Ev & _).
        rewrite Ec in Ev. discriminate.
    - rewrite !xval_cellval, xkey_cellkey.
      apply (is_derive_ext (fun t => c * f (cellval m (set_nth vec r t) k name))); [intros t; reflexivity|].
      eapply layout_leaf; try eassumption. apply Hf.
  Qed.

  Lemma sel_yield g fid : (0 <= fid)%Z -> (lk_dsy_pos g && lk_dsy_mask g fid) = lk_is_local fid g.
  Proof.
    intros H. rewrite K_lk_dsy_mask, K_lk_is_local. destruct (g =? fid + 1)%Z eqn:E; [|apply andb_false_r].
    rewrite andb_true_r. apply K_lk_dsy_pos. apply Z.eqb_eq in E. lia.
  Qed.

  (* ---- the scatter of the columns back into the vector *)
  Lemma scatter_spec (f : Z -> R) nsi gns idxs :
    scatter idxs nsi gns (map f (filter (fun i => negb (i =? nsi)%Z) idxs))
    = map (fun i => if (i =? nsi)%Z then gns else f i) idxs.
  Proof.
    induction idxs as [|i l IH]; [reflexivity|]. cbn [filter scatter map].
    destruct (i =? nsi)%Z; cbn [negb map]; f_equal; exact IH.
  Qed.

  Lemma nth_arange (F : Z -> R) : forall N s r, (r < N)%nat ->
    nth r (map F (arange_from s N)) 0 = F (s + Z.of_nat r)%Z.
  Proof.
    induction N as [|N IH]; intros s r H; [lia|]. destruct r as [|r]; cbn [arange_from map nth].
    - f_equal. lia.
    - rewrite IH by lia. f_equal. lia.
  Qed.

  (* ---- the functions of t behind one dataset *)
  Section D.
    Variables (m : @mapper R) (vec : list R) (W : list R) (r : nat).
    Let fid := Z.of_nat r.
    Definition aks_of (d : eds) : list wfun :=
      map (fun k => ((fun t => nth k W 0 * e_Y d k (y_arg Nm m (set_nth vec r t) d k)),
                     nth k W 0 * (if y_sel m vec d k fid then e_dY d k (y_arg Nm m vec d k) else 0)))
          (seq 0 (m_nmodels m)).
    Definition rows_of_ds (d : eds) : list (nat * nat * wfun) :=
      map (fun iv => (snd iv,
                      ((fun t => e_c d (fst iv) * e_phi d (fst iv) (xval Nm m (set_nth vec r t) (fst (snd iv)) (e_lname d))),
                       e_c d (fst iv) * (if lk_i3_match (xkey (T:=R) m vec (fst (snd iv)) (e_lname d)) fid
                                         then e_dphi d (fst iv) (xval Nm m vec (fst (snd iv)) (e_lname d)) else 0))))
          (irows d).
    Definition pds_of (d : eds) : pds := mkPds (e_N d) (e_nsel d) (aks_of d) (rows_of_ds d).

    Lemma a_at_aks d t : a_at (aks_of d) t = a_row Nm m (set_nth vec r t) W d.
    Proof. unfold a_at, aks_of, a_row. rewrite map_map. apply map_ext. intros k. cbn [fst]. rewrite K_a_jk. reflexivity. Qed.
    Lemma d_of_aks d : d_of (aks_of d) = da_row Nm m vec W d fid.
    Proof. unfold d_of, aks_of, da_row. rewrite map_map. apply map_ext. intros k. cbn [snd]. rewrite K_a_jk_grad. reflexivity. Qed.
    Lemma rows_at_ds d t : rows_at (rows_of_ds d) t = vals_of Nm m (set_nth vec r t) d.
    Proof. unfold rows_at, rows_of_ds, vals_of. rewrite map_map. apply map_ext. intros iv. cbn [fst snd]. rewrite K_prod_ratio. reflexivity. Qed.
    Lemma drows_ds d : drows_of (rows_of_ds d) = dvals_of Nm m vec d fid.
    Proof. unfold drows_of, rows_of_ds, dvals_of. rewrite map_map. apply map_ext. intros iv. cbn [fst snd]. rewrite K_prod_grad_r2. reflexivity. Qed.
    Lemma rows_keys d : map fst (rows_of_ds d) = e_rows d.
    Proof.
      unfold rows_of_ds, irows. rewrite map_map. cbn [fst snd].
      generalize 0%nat. induction (e_rows d) as [|p l IH]; intros s; cbn [length seq combine map]; [reflexivity|].
      cbn [snd]. f_equal. apply IH.
    Qed.
  End D.

  (* side conditions at the point, in terms of the model's own quantities *)
  Definition e2e_ok (opa : R) (m : @mapper R) vec (W : list R) (DS : list eds) (nsi : Z) (d : eds) : Prop :=
    let a := a_row Nm m vec W d in
    let atot := a_tot Nm (map (a_row Nm m vec W) DS) in
    let ns := nth (Z.to_nat nsi) vec 0 in
    (forall k x, is_derive (e_Y d k) x (e_dY d k x))
    /\ (forall i x, is_derive (e_phi d i) x (e_dphi d i x))
    /\ NoDup (e_rows d)
    /\ List.Forall (fun p => (fst p < m_nmodels m)%nat) (e_rows d)
    /\ Rsum a <> 0 /\ e_N d <> 0
    /\ 0 < 1 - ns * (Rsum a / atot) / e_N d
    /\ List.Forall (fun x => ns * (Rsum a / atot) * Xof (e_N d) x <> opa - 1)
                   (sw_ratio Nm a (e_nsel d) (vals_of Nm m vec d)).

  Theorem e2e_entry_is_derivative opa n ds (m : @mapper R) vec rec (W : list R) (DS : list eds) nsi g (r : nat) :
    0 < opa ->
    build n ds = Ok m -> create_src_params_recarray m vec = Ok rec ->
    get_gflp_idx (m_decls m) 0%Z = Ok nsi ->
    e2e_grad Nm opa m vec W DS = Ok g ->
    (r < length vec)%nat -> Z.of_nat r <> nsi ->
    a_tot Nm (map (a_row Nm m vec W) DS) <> 0 ->
    List.Forall (e2e_ok opa m vec W DS nsi) DS ->
    is_derive (fun t => e2e_value Nm opa m (set_nth vec r t) W DS nsi) (nth r vec 0) (nth r g 0).
  Proof.
    intros Hopa Hb Hc Hns Hg Hr Hrn Htot Hok.
    destruct (build_spec _ _ _ Hb) as (_ & Hn & _).
    set (t0 := nth r vec 0). set (fid := Z.of_nat r).
    assert (Hsame : set_nth vec r t0 = vec) by (apply set_nth_same; exact Hr).
    (* the requested entry of the vector is the column of fid *)
    assert (Eg : nth r g 0 = e2e_gp Nm opa m vec W DS nsi fid).
    { unfold e2e_grad in Hg. rewrite Hc, Hns in Hg. cbn [bind] in Hg. inversion Hg; subst g.
      unfold p_fids. rewrite scatter_spec.
      rewrite nth_arange by (unfold zlen; rewrite Nat2Z.id; exact Hr).
      replace (0 + Z.of_nat r)%Z with fid by (unfold fid; lia).
      destruct (fid =? nsi)%Z eqn:E; [apply Z.eqb_eq in E; contradiction|reflexivity]. }
    rewrite Eg.
    set (PD := map (pds_of m vec W r) DS).
    assert (Hns_t : forall t, nth (Z.to_nat nsi) (set_nth vec r t) 0 = nth (Z.to_nat nsi) vec 0).
    { intros t. assert (Hne : r <> Z.to_nat nsi).
      { intros E. apply Hrn. rewrite E. apply Z2Nat.id.
        unfold get_gflp_idx in Hns. destruct (index_of 0%Z (floating_names (m_decls m)) 0%Z) eqn:Ei; [|discriminate].
        inversion Hns; subst. clear - Ei. revert Ei. generalize (floating_names (m_decls m)).
        assert (G : forall l s i, (0 <= s)%Z -> index_of 0%Z l s = Some i -> (0 <= i)%Z).
        { induction l as [|y l IH]; intros s i Hs H; [discriminate|]. cbn [index_of] in H.
          destruct (0 =? y)%Z; [inversion H; subst; exact Hs|]. apply (IH (s + 1)%Z); [lia|exact H]. }
        intros l Ei. exact (G l 0%Z _ (Z.le_refl 0) Ei). }
      apply nth_set_nth_neq. exact Hne. }
    assert (Htab : forall t, tab_at PD t = map (a_row Nm m (set_nth vec r t) W) DS).
    { intros t. unfold tab_at, PD. rewrite map_map. apply map_ext. intros d. apply a_at_aks. }
    (* the pipeline theorem on the functions behind the datasets *)
    pose proof (pipeline_p_derive erfR opa (nth (Z.to_nat nsi) vec 0) t0 PD Hopa) as HP.
    assert (Htot' : a_tot Nm (tab_at PD t0) <> 0) by (rewrite Htab, Hsame; exact Htot).
    assert (Hpok : List.Forall (pds_ok erfR opa (nth (Z.to_nat nsi) vec 0) t0 PD) PD).
    { unfold PD. apply List.Forall_forall. intros q Hq. apply in_map_iff in Hq. destruct Hq as (d & <- & Hd).
      rewrite List.Forall_forall in Hok. destruct (Hok d Hd) as (HY & Hphi & Hnd & Hsrc & HA & HN & Hpos & Hthr).
      unfold pds_ok. cbn [pds_of p_aks p_rows p_N p_nsel].
      fold PD. rewrite Htab, !a_at_aks, Hsame.
      split; [|split; [|split; [|split; [|split; [|split]]]]].
      - unfold aks_of. apply List.Forall_forall. intros a Ha. apply in_map_iff in Ha. destruct Ha as (k & <- & Hk).
        apply in_seq in Hk. cbn [fst snd]. unfold y_arg, y_sel. destruct (e_yname d k) as [nm|].
        + rewrite sel_yield by lia.
          apply (cell_leaf_derive n ds m vec rec k nm r (e_Y d k) (e_dY d k) (nth k W 0) Hb Hc); [lia|exact Hr|apply HY].
        + apply (is_derive_eq _ _ _ 0); [apply (is_derive_const (nth k W 0 * e_Y d k 0))|ring].
      - unfold rows_of_ds. apply List.Forall_forall. intros v Hv. apply in_map_iff in Hv. destruct Hv as (iv & <- & Hiv).
        cbn [fst snd]. rewrite K_lk_i3_match, <- K_lk_is_local.
        apply (cell_leaf_derive n ds m vec rec (fst (snd iv)) (e_lname d) r (e_phi d (fst iv)) (e_dphi d (fst iv))
                                (e_c d (fst iv)) Hb Hc); [|exact Hr|apply Hphi].
        unfold irows in Hiv. destruct iv as (i0, p0). apply in_combine_r in Hiv. cbn [fst snd]. rewrite List.Forall_forall in Hsrc. rewrite <- Hn. apply Hsrc. exact Hiv.
      - rewrite rows_keys. exact Hnd.
      - exact HA.
      - exact HN.
      - exact Hpos.
      - unfold Ri_at. cbn [pds_of p_aks p_rows p_nsel]. rewrite a_at_aks, rows_at_ds, Hsame. exact Hthr. }
    specialize (HP Htot' Hpok).
    eapply is_derive_eq.
    - eapply is_derive_ext; [|exact HP].
      intros t. cbv beta. unfold e2e_value, e2e_eval, pipeline_eval. cbn [fst snd]. rewrite Hns_t, !map_map.
      rewrite Htab. f_equal.
      unfold PD. rewrite map_map. apply map_ext. intros d. unfold Ri_at, pd_N, pd_Ri, pd_a, pd_nsel, pd_vals, to_pipe.
      cbn [fst snd pds_of p_N p_aks p_rows p_nsel]. rewrite a_at_aks, rows_at_ds. reflexivity.
    - unfold e2e_gp, e2e_eval, pipeline_eval. cbn [fst snd]. rewrite !map_map. rewrite Htab, Hsame.
      f_equal.
      + unfold dtab, PD. rewrite map_map. f_equal. apply map_ext. intros d.
        unfold pd_da0, pd_da, to_pipe. cbn [fst snd pds_of p_aks]. rewrite d_of_aks. reflexivity.
      + unfold PD. rewrite map_map. apply map_ext. intros d.
        unfold dRi, Ri_at, pd_N, pd_Ri, pd_dRi, pd_a, pd_da, pd_nsel, pd_vals, pd_dvals, to_pipe.
        cbn [fst snd pds_of p_N p_aks p_rows p_nsel]. rewrite a_at_aks, rows_at_ds, d_of_aks, drows_ds, Hsame. reflexivity.
  Qed.
End E.
