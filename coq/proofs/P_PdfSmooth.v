(* C10, smoothed histograms (NeighboringBinHistSmoothingMethod along one axis):
   every smoothed bin is a weighted mean of the bins under the kernel, hence
   non-negative and within the range of the input; what smoothing conserves
   exactly is the mass measured with the kernel-norm weights, not the
   bin-width normalisation (witness). *)
From Coq Require Import Reals ZArith List Bool Lra Lia.
From Coquelicot Require Import Coquelicot.
From Sky Require Import Num NumR G_pdf M_Pdf M_PdfState S_Pdf P_PdfTime P_Pdf.
Import ListNotations.
Open Scope R_scope.

Lemma nth_map_const {A} (c d : R) (h : list A) l : (l < length h)%nat -> nth l (map (fun _ => c) h) d = c.
Proof.
  revert l. induction h as [|a h IH]; intros l Hl; [cbn in Hl; lia|].
  destruct l; [reflexivity|]. cbn [map nth]. apply IH. cbn in Hl. lia.
Qed.

Lemma nth_map_seq (f : nat -> R) n i d : (i < n)%nat -> nth i (map f (seq 0 n)) d = f i.
Proof.
  intros Hi. rewrite (nth_indep _ d (f 0%nat)) by (rewrite map_length, seq_length; exact Hi).
  rewrite map_nth, seq_nth by exact Hi. reflexivity.
Qed.

Section Smooth.
  Variable e : R -> R.
  Let N := RNum e.

  Lemma K_sm_div n c : sm_div N n c = c / n.
  Proof. reflexivity. Qed.

  (* kernel entry that multiplies h[l] in output bin i *)
  Definition kw (k : list R) (i l : nat) : R :=
    kat N k (Z.of_nat i + (Z.of_nat (length k) - 1) / 2 - Z.of_nat l)%Z.

  Lemma kat_nonneg k z : List.Forall (fun x => 0 <= x) k -> 0 <= kat N k z.
  Proof.
    intros Hk. unfold kat. destruct (z <? 0)%Z; cbn [nzero N RNum]; [lra|].
    destruct (nth_in_or_default (Z.to_nat z) k 0) as [Hin | ->]; [|lra].
    rewrite Forall_forall in Hk. apply Hk. exact Hin.
  Qed.

  Lemma conv_R k h i :
    conv_same N k h i = Rsum (map (fun l => kw k i l * nth l h 0) (seq 0 (length h))).
  Proof. unfold conv_same, N. rewrite nsum_R. reflexivity. Qed.

  (* the norm: convolve(ones_like(h), k) *)
  Definition knorm (k : list R) (n i : nat) : R := Rsum (map (fun l => kw k i l) (seq 0 n)).

  Lemma conv_ones k (h : list R) i :
    conv_same N k (map (fun _ => none N) h) i = knorm k (length h) i.
  Proof.
    rewrite conv_R, map_length. unfold knorm. f_equal. apply map_ext_in. intros l Hl.
    apply in_seq in Hl.
    rewrite nth_map_const by lia. cbn [none N RNum]. lra.
  Qed.

  Lemma smooth1_nth k h i :
    (i < length h)%nat ->
    nth i (smooth1 N k h) 0 = conv_same N k h i / knorm k (length h) i.
  Proof.
    intros Hi. unfold smooth1.
    rewrite nth_map_seq by exact Hi. rewrite K_sm_div, conv_ones. reflexivity.
  Qed.

  Lemma smooth1_length k h : length (smooth1 N k h) = length h.
  Proof. unfold smooth1. rewrite map_length, seq_length. reflexivity. Qed.

  (* a weighted sum with non-negative weights lies between lo*W and hi*W *)
  Lemma weighted_bounds (a v : nat -> R) lo hi L :
    (forall l, In l L -> 0 <= a l /\ lo <= v l <= hi) ->
    lo * Rsum (map a L) <= Rsum (map (fun l => a l * v l) L) <= hi * Rsum (map a L).
  Proof.
    induction L as [|x L IH]; intros H; cbn [map Rsum fold_right].
    - lra.
    - fold (Rsum (map a L)) (Rsum (map (fun l => a l * v l) L)).
      destruct (H x (or_introl eq_refl)) as [Ha Hv].
      specialize (IH (fun l Hl => H l (or_intror Hl))). nra.
  Qed.

  (* each smoothed bin is a convex combination of input bins *)
  Theorem smooth_convex k h lo hi :
    List.Forall (fun x => 0 <= x) k ->
    List.Forall (fun x => lo <= x <= hi) h ->
    (forall i, (i < length h)%nat -> 0 < knorm k (length h) i) ->
    List.Forall (fun x => lo <= x <= hi) (smooth1 N k h).
  Proof.
    intros Hk Hh Hn. apply Forall_forall. intros x Hx.
    destruct (In_nth _ _ 0 Hx) as (i & Hi & <-). rewrite smooth1_length in Hi.
    rewrite smooth1_nth by exact Hi. rewrite conv_R.
    pose proof (Hn i Hi) as Hpos. unfold knorm in *.
    assert (B : lo * Rsum (map (fun l => kw k i l) (seq 0 (length h)))
                <= Rsum (map (fun l => kw k i l * nth l h 0) (seq 0 (length h)))
                <= hi * Rsum (map (fun l => kw k i l) (seq 0 (length h)))).
    { apply weighted_bounds. intros l Hl. apply in_seq in Hl. split.
      - apply kat_nonneg. exact Hk.
      - rewrite Forall_forall in Hh. apply Hh. apply nth_In. lia. }
    set (W := Rsum (map (fun l => kw k i l) (seq 0 (length h)))) in *.
    set (A := Rsum (map (fun l => kw k i l * nth l h 0) (seq 0 (length h)))) in *.
    split.
    - apply Rmult_le_reg_r with W; [exact Hpos|]. unfold Rdiv. rewrite Rmult_assoc, Rinv_l by lra. lra.
    - apply Rmult_le_reg_r with W; [exact Hpos|]. unfold Rdiv. rewrite Rmult_assoc, Rinv_l by lra. lra.
  Qed.

  (* exchange of two finite sums *)
  Lemma Rsum_map_add (f g : nat -> R) L :
    Rsum (map (fun l => f l + g l) L) = Rsum (map f L) + Rsum (map g L).
  Proof. induction L as [|x L IH]; [cbn; lra|]. cbn [map]. rewrite !Rsum_cons, IH. lra. Qed.

  Lemma Rsum_map_zero (L : list nat) : Rsum (map (fun _ => 0) L) = 0.
  Proof. induction L as [|x L IH]; [reflexivity|]. cbn [map]. rewrite Rsum_cons, IH. lra. Qed.

  Lemma Rsum_swap (a : nat -> nat -> R) I L :
    Rsum (map (fun i => Rsum (map (fun l => a i l) L)) I)
    = Rsum (map (fun l => Rsum (map (fun i => a i l) I)) L).
  Proof.
    induction I as [|x I IH].
    - rewrite (map_ext (fun l => Rsum (map (fun i => a i l) [])) (fun _ => 0)) by (intros; reflexivity).
      rewrite Rsum_map_zero. reflexivity.
    - cbn [map]. rewrite Rsum_cons, IH.
      rewrite (map_ext (fun l => Rsum (map (fun i => a i l) (x :: I)))
                       (fun l => a x l + Rsum (map (fun i => a i l) I))) by (intros; reflexivity).
      rewrite Rsum_map_add. reflexivity.
  Qed.

  Lemma Rsum_scal_l c (f : nat -> R) L : Rsum (map (fun l => c * f l) L) = c * Rsum (map f L).
  Proof. induction L as [|x L IH]; [cbn; lra|]. cbn [map]. rewrite !Rsum_cons, IH. lra. Qed.

  (* what smoothing conserves exactly (symmetric kernel): the mass measured
     with the kernel norms, sum_i norm_i * smoothed_i = sum_l norm_l * h_l *)
  Theorem smooth_conserves k h :
    (forall i l, kw k i l = kw k l i) ->
    (forall i, (i < length h)%nat -> knorm k (length h) i <> 0) ->
    Rsum (map (fun i => knorm k (length h) i * nth i (smooth1 N k h) 0) (seq 0 (length h)))
    = Rsum (map (fun l => knorm k (length h) l * nth l h 0) (seq 0 (length h))).
  Proof.
    intros Hsym Hn.
    transitivity (Rsum (map (fun i => Rsum (map (fun l => kw k i l * nth l h 0) (seq 0 (length h))))
                            (seq 0 (length h)))).
    - f_equal. apply map_ext_in. intros i Hi. apply in_seq in Hi.
      rewrite smooth1_nth, conv_R by lia. field. apply Hn. lia.
    - rewrite Rsum_swap. f_equal. apply map_ext_in. intros l Hl.
      transitivity (Rsum (map (fun i => nth l h 0 * kw k l i) (seq 0 (length h)))).
      + f_equal. apply map_ext. intros i. rewrite (Hsym i l). ring.
      + rewrite Rsum_scal_l. unfold knorm. apply Rmult_comm.
  Qed.
End Smooth.

(* the bin-width normalisation is NOT conserved in general: block kernel of
   half-width 1 on a unit-width histogram normalised to 1 *)
Lemma smooth_norm_refuted (e : R -> R) :
  step_integral (RNum e) [1; 0; 0] [1; 1; 1] = 1 /\
  smooth1 (RNum e) [1; 1; 1] [1; 0; 0] = [1 / 2; 1 / 3; 0 / 2] /\
  step_integral (RNum e) (smooth1 (RNum e) [1; 1; 1] [1; 0; 0]) [1; 1; 1] = 5 / 6.
Proof.
  assert (H : smooth1 (RNum e) [1; 1; 1] [1; 0; 0] = [1 / 2; 1 / 3; 0 / 2]).
  { unfold smooth1, conv_same, kat, nsum, sm_div.
    cbn [length seq map fold_left nth Z.of_nat nadd nmul ndiv nzero none RNum].
    cbn. change (Pos.to_nat 1) with 1%nat. change (Pos.to_nat 2) with 2%nat. change (Pos.to_nat 3) with 3%nat. cbn [nth].
    apply f_equal2; [field|]. apply f_equal2; [field|]. apply f_equal2; [field | reflexivity]. }
  split; [rewrite step_integral_R; cbn; lra|]. split; [exact H|].
  rewrite H, step_integral_R. cbn. lra.
Qed.
