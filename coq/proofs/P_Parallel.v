(* Proofs about M_Parallel (parallelize, gather loop after the fix):
   kernels, array_split, the dict, the safety invariant of the gather loop and
   "a returned list is the complete, ordered list". *)
From Coq Require Import ZArith List Bool Arith Lia Permutation.
From Sky Require Import Result G_parallel M_Parallel.
Import ListNotations.
Local Open Scope nat_scope.

(* ------------------------------------------------------------------------- *)
(* characterising lemmas of the regenerated kernels (G_parallel)              *)

Ltac kz :=
  repeat match goal with
  | |- context [(?a >? ?b)%Z] => rewrite (Z.gtb_ltb a b)
  | |- context [(?a >=? ?b)%Z] => rewrite (Z.geb_leb a b)
  end;
  repeat match goal with
  | |- context [(?a =? ?b)%Z] => destruct (Z.eqb_spec a b)
  | |- context [(?a <? ?b)%Z] => destruct (Z.ltb_spec a b)
  | |- context [(?a <=? ?b)%Z] => destruct (Z.leb_spec a b)
  end; cbn; try reflexivity; try lia.

Definition ended (e : option Z) : bool := match e with Some _ => true | None => false end.

Lemma K_par_empty n : par_empty n = (n =? 0)%Z.
Proof. unfold par_empty; kz. Qed.
Lemma K_par_single n : par_single n = (n =? 1)%Z.
Proof. unfold par_single; kz. Qed.
Lemma K_par_n_lqueues n : par_n_lqueues n = (n - 1)%Z.
Proof. unfold par_n_lqueues; lia. Qed.
Lemma K_par_seed n : (par_seed_hi n - par_seed_lo = n - 1)%Z.
Proof. unfold par_seed_hi, par_seed_lo; lia. Qed.
Lemma K_par_is_worker p : par_is_worker p = (0 <? p)%Z.
Proof. unfold par_is_worker; kz. Qed.
Lemma K_par_poll_continue b : par_poll_continue b = negb b.
Proof. unfold par_poll_continue; destruct b; reflexivity. Qed.
Lemma K_par_ended e : par_ended e = ended e.
Proof. unfold par_ended; destruct e; reflexivity. Qed.
Lemma K_par_died e :
  par_died e = match e with Some c => negb (c =? 0)%Z | None => false end.
Proof. unfold par_died; destruct e; cbn; try reflexivity; kz. Qed.
Lemma K_par_all_ended_raises b : par_all_ended_raises b = b.
Proof. unfold par_all_ended_raises; destruct b; reflexivity. Qed.
Lemma K_par_pid_proc_idx0 p : par_pid_proc_idx0 p = (p - 1)%Z.
Proof. unfold par_pid_proc_idx0; lia. Qed.
Lemma K_par_pid_proc p x : par_pid_proc p x = x.
Proof. reflexivity. Qed.
Lemma K_par_pid_proc_ended e : par_pid_proc_ended e = ended e.
Proof. unfold par_pid_proc_ended; destruct e; reflexivity. Qed.
Lemma K_par_log_raises b : par_log_raises b = b.
Proof. unfold par_log_raises; destruct b; reflexivity. Qed.
Lemma K_par_is_end_marker (r : option Z) :
  par_is_end_marker r = match r with None => true | Some _ => false end.
Proof. unfold par_is_end_marker; destruct r; reflexivity. Qed.
Lemma K_par_drain_continue b : par_drain_continue b = negb b.
Proof. unfold par_drain_continue; destruct b; reflexivity. Qed.
Lemma K_par_ord_ended_before_get : par_ord_ended_before_get = true.
Proof. reflexivity. Qed.
Lemma K_par_ord_died_before_all_ended : par_ord_died_before_all_ended = true.
Proof. reflexivity. Qed.
Lemma K_par_ord_ended_before_log_get : par_ord_ended_before_log_get = true.
Proof. reflexivity. Qed.
Lemma K_par_ord_tasks_before_result : par_ord_tasks_before_result = true.
Proof. reflexivity. Qed.
Lemma K_par_ord_status_nonblocking : par_ord_status_nonblocking = true.
Proof. reflexivity. Qed.
Lemma K_par_ord_raise_log_nonblocking : par_ord_raise_log_nonblocking = true.
Proof. reflexivity. Qed.
Lemma K_par_worker_shape : par_worker_shape = true.
Proof. reflexivity. Qed.
Lemma K_par_hook_shape : par_hook_shape = true.
Proof. reflexivity. Qed.
Lemma K_par_queue_ctors : par_n_queue_ctor = 3%Z /\ par_n_simple_queue_ctor = 0%Z /\ par_n_try = 3%Z.
Proof. repeat split; reflexivity. Qed.
Lemma K_par_rss_shapes : par_rss_init_shape = true /\ par_rss_reseed_shape = true.
Proof. split; reflexivity. Qed.
Lemma K_par_child_seed x : par_child_seed x = x.
Proof. unfold par_child_seed; lia. Qed.
Lemma K_par_n_global_rng_calls : par_n_global_rng_calls = 0%Z.
Proof. reflexivity. Qed.
Lemma K_par_n_rss_requests : par_n_rss_requests = 1%Z.
Proof. reflexivity. Qed.
Lemma K_trials_n_tasks n : trials_n_tasks n = n.
Proof. unfold trials_n_tasks; lia. Qed.

(* ------------------------------------------------------------------------- *)
(* numpy.array_split                                                          *)

Lemma firstn_plus {A} a b (l : list A) :
  firstn (a + b) l = firstn a l ++ firstn b (skipn a l).
Proof.
  revert l; induction a as [|a IH]; intro l; [reflexivity|].
  destruct l as [|x l]; cbn [plus firstn skipn app].
  - now rewrite firstn_nil.
  - now rewrite IH.
Qed.

Lemma chunks_by_concat {A} sizes (l : list A) :
  concat (chunks_by sizes l) = firstn (list_sum sizes) l.
Proof.
  revert l; induction sizes as [|s t IH]; intro l; cbn [chunks_by concat list_sum fold_right].
  - reflexivity.
  - rewrite IH. change (fold_right plus 0 t) with (list_sum t).
    now rewrite firstn_plus.
Qed.

Lemma chunks_by_length {A} sizes (l : list A) :
  length (chunks_by sizes l) = length sizes.
Proof. revert l; induction sizes as [|s t IH]; intro l; cbn; [reflexivity|now rewrite IH]. Qed.

Lemma chunks_by_sizes {A} sizes (l : list A) :
  list_sum sizes <= length l -> map (@length A) (chunks_by sizes l) = sizes.
Proof.
  revert l; induction sizes as [|s t IH]; intros l H; cbn [chunks_by map]; [reflexivity|].
  cbn [list_sum fold_right] in H. change (fold_right plus 0 t) with (list_sum t) in H.
  rewrite firstn_length, IH.
  - f_equal. lia.
  - rewrite skipn_length. lia.
Qed.

Lemma list_sum_repeat x c : list_sum (repeat x c) = x * c.
Proof. induction c as [|c IH]; cbn [repeat list_sum fold_right]; [lia|].
  change (fold_right plus 0 (repeat x c)) with (list_sum (repeat x c)). rewrite IH. lia. Qed.

Lemma split_sizes_length n k : 1 <= k -> length (split_sizes n k) = k.
Proof.
  intro Hk. unfold split_sizes. rewrite app_length, !repeat_length.
  pose proof (Nat.mod_upper_bound n k). lia.
Qed.

Lemma split_sizes_sum n k : 1 <= k -> list_sum (split_sizes n k) = n.
Proof.
  intro Hk. unfold split_sizes. rewrite list_sum_app, !list_sum_repeat.
  pose proof (Nat.mod_upper_bound n k) as Hr.
  pose proof (Nat.div_mod n k) as Hd.
  set (q := n / k) in *. set (r := n mod k) in *.
  assert (Hr' : r < k) by lia. assert (Hd' : n = k * q + r) by lia.
  clear Hr Hd. rewrite Nat.mul_sub_distr_l. nia.
Qed.

Lemma array_split_concat {A} (l : list A) k : 1 <= k -> concat (array_split l k) = l.
Proof.
  intro Hk. unfold array_split. rewrite chunks_by_concat, split_sizes_sum by exact Hk.
  apply firstn_all.
Qed.

Lemma array_split_length {A} (l : list A) k : 1 <= k -> length (array_split l k) = k.
Proof. intro Hk. unfold array_split. now rewrite chunks_by_length, split_sizes_length. Qed.

Lemma array_split_sizes {A} (l : list A) k :
  1 <= k ->
  map (@length A) (array_split l k)
  = repeat (S (length l / k)) (length l mod k) ++ repeat (length l / k) (k - length l mod k).
Proof.
  intro Hk. unfold array_split. rewrite chunks_by_sizes; [reflexivity|].
  rewrite split_sizes_sum by exact Hk. lia.
Qed.

Lemma array_split_spec {A} (l : list A) k :
  1 <= k ->
  concat (array_split l k) = l /\ length (array_split l k) = k /\
  map (@length A) (array_split l k)
  = repeat (S (length l / k)) (length l mod k) ++ repeat (length l / k) (k - length l mod k).
Proof.
  intro Hk. split; [|split].
  - now apply array_split_concat.
  - now apply array_split_length.
  - now apply array_split_sizes.
Qed.

Lemma map_nth_seq {A} (l : list A) d : map (fun i => nth i l d) (seq 0 (length l)) = l.
Proof.
  induction l as [|x l IH]; [reflexivity|].
  cbn [length seq map nth]. f_equal. rewrite <- seq_shift, map_map. exact IH.
Qed.

Lemma chunks_cover {A} (l : list A) k :
  1 <= k -> concat (map (chunk l k) (seq 0 k)) = l.
Proof.
  intro Hk.
  assert (E : map (chunk l k) (seq 0 k) = array_split l k).
  { pose proof (map_nth_seq (array_split l k) []) as H.
    rewrite array_split_length in H by exact Hk. exact H. }
  rewrite E. now apply array_split_concat.
Qed.

(* ------------------------------------------------------------------------- *)
(* mapM                                                                       *)

Lemma mapM_app {A B} (f : A -> res B) l1 l2 :
  mapM f (l1 ++ l2) = do x <- mapM f l1; do y <- mapM f l2; Ok (x ++ y).
Proof.
  induction l1 as [|a l1 IH]; cbn [app mapM bind].
  - destruct (mapM f l2); reflexivity.
  - destruct (f a); cbn [bind]; [|reflexivity]. rewrite IH.
    destruct (mapM f l1); cbn [bind]; [|reflexivity].
    destruct (mapM f l2); reflexivity.
Qed.

Lemma mapM_concat {A B} (f : A -> res B) (ls : list (list A)) rs :
  Forall2 (fun l r => mapM f l = Ok r) ls rs -> mapM f (concat ls) = Ok (concat rs).
Proof.
  induction 1 as [|l r ls rs H _ IH]; [reflexivity|].
  cbn [concat]. rewrite mapM_app, H, IH. reflexivity.
Qed.

Lemma mapM_length {A B} (f : A -> res B) l r : mapM f l = Ok r -> length r = length l.
Proof.
  revert r; induction l as [|a l IH]; intros r H; cbn [mapM bind] in H.
  - now inversion H.
  - destruct (f a); cbn [bind] in H; [|discriminate].
    destruct (mapM f l) eqn:E; cbn [bind] in H; [|discriminate].
    inversion H; subst. cbn. f_equal. now apply IH.
Qed.

Lemma mapM_total {A B} (f : A -> res B) (g : A -> B) l :
  (forall a, In a l -> f a = Ok (g a)) -> mapM f l = Ok (map g l).
Proof.
  induction l as [|a l IH]; intro H; [reflexivity|].
  cbn [mapM map]. rewrite (H a (or_introl eq_refl)). cbn [bind].
  rewrite IH; [reflexivity|]. intros b Hb. apply H. now right.
Qed.

(* ------------------------------------------------------------------------- *)
(* the dict pid_result_list_map                                               *)

Lemma NoDup_app_r {A} (l l' : list A) : NoDup (l ++ l') -> NoDup l'.
Proof. induction l as [|a l IH]; cbn [app]; intro H; [exact H|]. inversion H; subst. now apply IH. Qed.

Lemma dset_fresh {V} k (v : V) d : ~ In k (map fst d) -> dset k v d = d ++ [(k, v)].
Proof.
  intro H. unfold dset. destruct (existsb _ d) eqn:E; [exfalso|reflexivity].
  apply existsb_exists in E as [[k' v'] [Hin Heq]]. apply Nat.eqb_eq in Heq.
  cbn in Heq; subst. apply H. apply in_map_iff. now exists (k, v').
Qed.

Lemma dget_In {V} k (v : V) d : NoDup (map fst d) -> In (k, v) d -> dget k d = Some v.
Proof.
  induction d as [|[k' v'] t IH]; cbn [map fst dget In]; intros ND Hin; [contradiction|].
  inversion ND as [|x xs Hnot ND']; subst.
  destruct Hin as [E|Hin].
  - inversion E; subst. now rewrite Nat.eqb_refl.
  - destruct (Nat.eqb_spec k' k) as [->|_].
    + exfalso. apply Hnot. apply in_map_iff. now exists (k, v).
    + now apply IH.
Qed.

Lemma assemble_from_spec {V} (d : list (nat * list V)) ps :
  NoDup (map fst d) ->
  (forall p, In p ps -> In p (map fst d)) ->
  exists rs, assemble_from d ps = Ok (concat rs) /\ Forall2 (fun p r => In (p, r) d) ps rs.
Proof.
  intros ND. induction ps as [|p ps IH]; intro Hall.
  - exists []. split; [reflexivity|constructor].
  - destruct IH as [rs [Hrs HF]]; [intros q Hq; apply Hall; now right|].
    assert (Hp : In p (map fst d)) by (apply Hall; now left).
    apply in_map_iff in Hp as [[p' r] [Hfst Hin]]. cbn in Hfst; subst p'.
    exists (r :: rs). split.
    + cbn [assemble_from]. rewrite (dget_In p r d ND Hin), Hrs. reflexivity.
    + now constructor.
Qed.

(* ------------------------------------------------------------------------- *)
(* the gather loop                                                            *)

Section GatherProofs.
Context {R : Type}.
Variable np : nat.
Variable wres : nat -> res (list R).

Notation wstep := (wstep np wres).
Notation mstep := (@mstep R np).
Notation step := (step np wres).
Notation exec := (exec np wres).
Notation all_ended := (@all_ended R np).
Notation any_died := (@any_died R np).

Lemma upd_eq f p k : upd f p k p = k.
Proof. unfold upd. now rewrite Nat.eqb_refl. Qed.

Lemma upd_neq f p k q : q <> p -> upd f p k q = f q.
Proof. unfold upd. intro H. destruct (Nat.eqb_spec q p); [contradiction|reflexivity]. Qed.

Lemma wstep_eq pid a (w : world) :
  wstep pid a w =
  if (1 <=? pid) && (pid <=? np) then
    match exitc (wks w pid) with
    | Some _ => w
    | None =>
      match a, pc (wks w pid) with
      | APutLog id, WRun =>
          mkworld (rq w) (upd (wks w) pid (mkwk WRun None (lq (wks w pid) ++ [Some id])))
      | APutBegin, WRun =>
          match wres pid with
          | Ok r => mkworld (rq w) (upd (wks w) pid (mkwk WPutting None (lq (wks w pid))))
          | Err _ => w
          end
      | APutResult, WRun | APutResult, WPutting =>
          match wres pid with
          | Ok r => mkworld (rq w ++ [(pid, r)]) (upd (wks w) pid (mkwk WPut None (lq (wks w pid))))
          | Err _ => w
          end
      | ARaise, WRun =>
          match wres pid with
          | Ok _ => w
          | Err _ => mkworld (rq w) (upd (wks w) pid (mkwk WRun (Some 1%Z) (lq (wks w pid))))
          end
      | APutEnd, WPut =>
          mkworld (rq w) (upd (wks w) pid (mkwk WDone None (lq (wks w pid) ++ [None])))
      | AExit0, WDone =>
          mkworld (rq w) (upd (wks w) pid (mkwk WDone (Some 0%Z) (lq (wks w pid))))
      | ADie c, p =>
          mkworld (rq w) (upd (wks w) pid (mkwk p (Some c) (lq (wks w pid))))
      | _, _ => w
      end
    end
  else w.
Proof.
  unfold M_Parallel.wstep, wstep_gen.
  rewrite K_par_ord_tasks_before_result, K_par_ord_status_nonblocking, K_par_ord_raise_log_nonblocking.
  reflexivity.
Qed.

Lemma putting_false (w : @world R) :
  putting np w = false <-> (forall p, 1 <= p <= np -> pc (wks w p) <> WPutting).
Proof.
  unfold putting, pids. split.
  - intros H p Hp Hc.
    assert (Hex : existsb (fun q => is_putting (pc (wks w q))) (seq 1 np) = true).
    { apply existsb_exists. exists p. split; [apply in_seq; lia|now rewrite Hc]. }
    congruence.
  - intro H. destruct (existsb _ (seq 1 np)) eqn:E; [|reflexivity].
    apply existsb_exists in E as [p [Hp Hq]]. apply in_seq in Hp.
    exfalso. apply (H p); [lia|]. destruct (pc (wks w p)); try discriminate. reflexivity.
Qed.

Lemma all_ended_true (w : world) :
  all_ended w = true <-> (forall p, 1 <= p <= np -> exitc (wks w p) <> None).
Proof.
  unfold M_Parallel.all_ended, pids. rewrite forallb_forall. split.
  - intros H p Hp. specialize (H p). rewrite in_seq, K_par_ended in H.
    destruct (exitc (wks w p)); [discriminate|]. cbn in H. assert (false = true) by (apply H; lia). discriminate.
  - intros H p Hp. apply in_seq in Hp. rewrite K_par_ended. specialize (H p).
    destruct (exitc (wks w p)); [reflexivity|]. exfalso. apply H; [lia|reflexivity].
Qed.

Lemma any_died_true (w : world) :
  any_died w = true <->
  (exists p c, 1 <= p <= np /\ exitc (wks w p) = Some c /\ c <> 0%Z).
Proof.
  unfold M_Parallel.any_died, pids. rewrite existsb_exists. split.
  - intros [p [Hp H]]. apply in_seq in Hp. rewrite K_par_died in H.
    destruct (exitc (wks w p)) as [c|] eqn:E; [|discriminate].
    exists p, c. split; [lia|]. split; [exact E|].
    destruct (Z.eqb_spec c 0); [discriminate|assumption].
  - intros [p [c [Hp [E Hc]]]]. exists p. split; [apply in_seq; lia|].
    rewrite K_par_died, E. destruct (Z.eqb_spec c 0); [contradiction|reflexivity].
Qed.

(* the master step with the kernels replaced by their characterisations *)
Lemma mstep_eq (w : world) (m : mst) :
  mstep w m =
  match ph m with
  | PollA =>
      if it m <? np then Run w (mkmst (it m) (PollB (all_ended w)) (pmap m))
      else Run w (mkmst (it m) Join (pmap m))
  | PollB ae =>
      match rq w with
      | (pid, r) :: rest =>
          Run (mkworld rest (wks w)) (mkmst (it m) (DrainA pid) (dset pid r (pmap m)))
      | [] => if putting np w then Run w m else Run w (mkmst (it m) (PollC ae) (pmap m))
      end
  | PollC ae =>
      if any_died w then Fin (Fail ChildDied)
      else if ae then Fin (Fail MissingResult)
      else Run w (mkmst (it m) PollA (pmap m))
  | DrainA pid =>
      if (1 <=? pid) && (pid <=? np)
      then Run w (mkmst (it m) (DrainB pid (ended (exitc (wks w pid)))) (pmap m))
      else Fin (Fail BadRecord)
  | DrainB pid e =>
      match lq (wks w pid) with
      | None :: rest =>
          Run (mkworld (rq w) (upd (wks w) pid (mkwk (pc (wks w pid)) (exitc (wks w pid)) rest)))
              (mkmst (S (it m)) PollA (pmap m))
      | Some _ :: rest =>
          Run (mkworld (rq w) (upd (wks w) pid (mkwk (pc (wks w pid)) (exitc (wks w pid)) rest)))
              (mkmst (it m) (DrainA pid) (pmap m))
      | [] => if e then Fin (Fail LogIncomplete)
              else Run w (mkmst (it m) (DrainA pid) (pmap m))
      end
  | Join =>
      if all_ended w
      then Fin (match assemble (pmap m) with Ok r => Done r | Err _ => Fail KeyMissing end)
      else Run w m
  end.
Proof.
  unfold M_Parallel.mstep, mstep_gen.
  rewrite K_par_ord_ended_before_get, K_par_ord_died_before_all_ended, K_par_ord_ended_before_log_get.
  destruct (ph m) as [|ae|ae|pid|pid e|].
  - reflexivity.
  - rewrite K_par_poll_continue. cbn [negb]. reflexivity.
  - rewrite K_par_all_ended_raises, K_par_poll_continue. cbn [negb]. reflexivity.
  - rewrite K_par_pid_proc_idx0, K_par_pid_proc_ended.
    destruct (Nat.leb_spec 1 pid) as [H1|H1]; destruct (Nat.leb_spec pid np) as [H2|H2]; cbn [andb].
    + replace ((0 <=? Z.of_nat pid - 1)%Z && (Z.of_nat pid - 1 <? Z.of_nat np)%Z) with true
        by (symmetry; apply andb_true_intro; split; [apply Z.leb_le|apply Z.ltb_lt]; lia).
      replace (S (Z.to_nat (Z.of_nat pid - 1))) with pid by lia. reflexivity.
    + replace ((0 <=? Z.of_nat pid - 1)%Z && (Z.of_nat pid - 1 <? Z.of_nat np)%Z) with false; [reflexivity|].
      symmetry. apply andb_false_intro2. apply Z.ltb_ge. lia.
    + replace ((0 <=? Z.of_nat pid - 1)%Z && (Z.of_nat pid - 1 <? Z.of_nat np)%Z) with false; [reflexivity|].
      symmetry. apply andb_false_intro1. apply Z.leb_gt. lia.
    + replace ((0 <=? Z.of_nat pid - 1)%Z && (Z.of_nat pid - 1 <? Z.of_nat np)%Z) with false; [reflexivity|].
      symmetry. apply andb_false_intro1. apply Z.leb_gt. lia.
  - rewrite K_par_log_raises.
    destruct (lq (wks w pid)) as [|[id|] rest]; [reflexivity| |];
      rewrite K_par_is_end_marker, K_par_drain_continue; reflexivity.
  - reflexivity.
Qed.

Lemma exec_Fin sched (o : outcome R) : exec sched (Fin o) = Fin o.
Proof. induction sched as [|a s IH]; [reflexivity|exact IH]. Qed.

Lemma exec_app s1 s2 (s : sys) : exec (s1 ++ s2) s = exec s2 (exec s1 s).
Proof. unfold M_Parallel.exec. apply fold_left_app. Qed.

Lemma exec_cons a s (x : sys) : exec (a :: s) x = exec s (step a x).
Proof. reflexivity. Qed.

(* ---- safety invariant ---- *)

Variable r0 : list R.

Definition good_pid (p : nat) : Prop := 1 <= p <= np.

Definition draining (m : @mst R) : option nat :=
  match ph m with DrainA p | DrainB p _ => Some p | _ => None end.

Definition consumed (m : @mst R) : nat :=
  match ph m with DrainA _ | DrainB _ _ => S (it m) | _ => it m end.

(* the result record of the worker is completely in the pipe *)
Definition delivered (p : wpc) : Prop := p = WPut \/ p = WDone.

Definition entry_ok (w : @world R) (pid : nat) (r : list R) : Prop :=
  good_pid pid /\ wres pid = Ok r /\ delivered (pc (wks w pid)).

Record Inv (w : @world R) (m : @mst R) : Prop := mkInv {
  inv_rq : forall pid r, In (pid, r) (rq w) -> entry_ok w pid r;
  inv_pm : forall pid r, In (pid, r) (pmap m) -> (pid = 0 /\ r = r0) \/ entry_ok w pid r;
  inv_nodup : NoDup (map fst (rq w) ++ map fst (pmap m));
  inv_zero : In 0 (map fst (pmap m));
  inv_len : length (pmap m) = S (consumed m);
  inv_it : match ph m with
           | PollA => it m <= np
           | Join => it m = np
           | _ => it m < np
           end;
  inv_drain : forall p, draining m = Some p -> good_pid p /\ In p (map fst (pmap m))
}.

Lemma entry_ok_mono w w' q r :
  (forall p, delivered (pc (wks w p)) -> delivered (pc (wks w' p))) ->
  entry_ok w q r -> entry_ok w' q r.
Proof. intros H [a [b c]]. split; [exact a|split; [exact b|apply H; exact c]]. Qed.

Lemma Inv_init : Inv (mkworld [] (fun _ => fresh)) (mkmst 0 PollA [(0, r0)]).
Proof.
  constructor; cbn.
  - intros pid r [].
  - intros pid r [E|[]]. inversion E. now left.
  - constructor; [intros []|constructor].
  - now left.
  - reflexivity.
  - lia.
  - intros p H. discriminate.
Qed.

Lemma Inv_mono w w' m :
  rq w' = rq w ->
  (forall p, delivered (pc (wks w p)) -> delivered (pc (wks w' p))) ->
  Inv w m -> Inv w' m.
Proof.
  intros Hrq Hpc [H1 H2 H3 H4 H5 H6 H7]. constructor; try assumption.
  - rewrite Hrq. intros pid r Hin. apply (entry_ok_mono w); [exact Hpc|now apply H1].
  - intros pid r Hin. destruct (H2 pid r Hin) as [?|He]; [now left|right].
    apply (entry_ok_mono w); [exact Hpc|exact He].
  - now rewrite Hrq.
Qed.

Lemma Inv_put w m pid r :
  Inv w m -> good_pid pid -> wres pid = Ok r -> ~ delivered (pc (wks w pid)) ->
  Inv (mkworld (rq w ++ [(pid, r)]) (upd (wks w) pid (mkwk WPut None (lq (wks w pid))))) m.
Proof.
  intros HI Hg Hw Hnd.
  destruct HI as [H1 H2 H3 H4 H5 H6 H7].
  assert (Hst : forall p, delivered (pc (wks w p)) ->
                 delivered (pc (upd (wks w) pid (mkwk WPut None (lq (wks w pid))) p))).
  { intros p Hp. destruct (Nat.eq_dec p pid) as [->|Hne];
      [rewrite upd_eq; now left|now rewrite upd_neq]. }
  constructor; cbn [rq wks]; try assumption.
  - intros q r' Hin. apply in_app_or in Hin as [Hin|[E|[]]].
    + apply (entry_ok_mono w); [exact Hst|now apply H1].
    + inversion E; subst. split; [exact Hg|]. split; [exact Hw|].
      cbn [wks]. rewrite upd_eq. now left.
  - intros q r' Hin. destruct (H2 q r' Hin) as [?|He']; [now left|right].
    apply (entry_ok_mono w); [exact Hst|exact He'].
  - rewrite map_app. cbn [map fst]. rewrite <- app_assoc. cbn [app].
    apply NoDup_Add with (a := pid) (l := map fst (rq w) ++ map fst (pmap m)).
    + apply Add_app.
    + split; [exact H3|]. intro Hin. apply in_app_or in Hin as [Hin|Hin];
        apply in_map_iff in Hin as [[q r'] [Hq Hin]]; cbn in Hq; subst q.
      * destruct (H1 pid r' Hin) as [_ [_ Hc]]. now apply Hnd.
      * destruct (H2 pid r' Hin) as [[Hz _]|[_ [_ Hc]]]; [unfold good_pid in Hg; lia|now apply Hnd].
Qed.

Lemma Inv_worker w m pid a : Inv w m -> Inv (wstep pid a w) m.
Proof.
  intro HI. rewrite wstep_eq.
  destruct ((1 <=? pid) && (pid <=? np)) eqn:Hg; [|exact HI].
  apply andb_prop in Hg as [Hg1 Hg2]. apply Nat.leb_le in Hg1, Hg2.
  destruct (exitc (wks w pid)) eqn:He; [exact HI|].
  assert (Hsame : forall k', (delivered (pc (wks w pid)) -> delivered (pc k')) ->
            Inv (mkworld (rq w) (upd (wks w) pid k')) m).
  { intros k' Hk. apply (Inv_mono w); [reflexivity| |exact HI]. cbn. intros p Hp.
    destruct (Nat.eq_dec p pid) as [->|Hne].
    - rewrite upd_eq. now apply Hk.
    - now rewrite upd_neq. }
  assert (Hg : good_pid pid) by (split; assumption).
  destruct a as [id| | | | | |c]; destruct (pc (wks w pid)) eqn:Hpc; try exact HI;
    try (destruct (wres pid) as [r|e] eqn:Hw; try exact HI);
    try (apply Hsame; cbn [pc]; intro Hd;
         solve [exact Hd | right; reflexivity | left; reflexivity | destruct Hd; discriminate]).
  - (* APutResult at WRun *)
    apply Inv_put; auto. rewrite Hpc. intros [Hd|Hd]; discriminate.
  - (* APutResult at WPutting *)
    apply Inv_put; auto. rewrite Hpc. intros [Hd|Hd]; discriminate.
Qed.

Lemma Inv_master w m w' m' : Inv w m -> mstep w m = Run w' m' -> Inv w' m'.
Proof.
  intros HI. rewrite mstep_eq.
  destruct HI as [H1 H2 H3 H4 H5 H6 H7]. unfold consumed, draining in *.
  destruct m as [i phs pm]. cbn [ph it pmap] in *.
  destruct phs as [|ae|ae|pid|pid e|].
  - (* PollA *)
    destruct (Nat.ltb_spec i np) as [Hlt|Hge]; intro E; inversion E; subst; clear E;
      constructor; unfold consumed, draining; cbn [ph it pmap]; auto; try lia; try (intros p Hp; discriminate).
  - (* PollB *)
    destruct (rq w) as [|[pid r] rest] eqn:Hrq;
      [destruct (putting np w)|]; intro E; inversion E; subst; clear E.
    + constructor; unfold consumed, draining; cbn [ph it pmap]; auto; try rewrite Hrq; auto; try (intros p Hp; discriminate).
    + constructor; unfold consumed, draining; cbn [ph it pmap]; auto; try rewrite Hrq; auto; try (intros p Hp; discriminate).
    + cbn [map fst app] in H3. inversion H3 as [|x xs Hnot ND]; subst.
      assert (Hfresh : ~ In pid (map fst pm)) by (intro Hc; apply Hnot; apply in_or_app; now right).
      rewrite (dset_fresh pid r pm Hfresh).
      assert (Hent : entry_ok w pid r) by (apply H1; now left).
      constructor; unfold consumed, draining; cbn [rq wks ph it pmap].
      * intros q r' Hin. apply H1. now right.
      * intros q r' Hin. apply in_app_or in Hin as [Hin|[E|[]]]; [now apply H2|].
        inversion E; subst. now right.
      * rewrite map_app. cbn [map fst]. rewrite app_assoc.
        apply NoDup_Add with (a := pid) (l := map fst rest ++ map fst pm); [|split; assumption].
        pose proof (Add_app pid (map fst rest ++ map fst pm) []) as HA.
        rewrite app_nil_r in HA. exact HA.
      * rewrite map_app. apply in_or_app. now left.
      * rewrite app_length. cbn [length]. lia.
      * exact H6.
      * intros p Hp. inversion Hp; subst. split; [apply Hent|].
        rewrite map_app. apply in_or_app. right. now left.
  - (* PollC *)
    destruct (any_died w); [discriminate|]. destruct ae; [discriminate|].
    intro E; inversion E; subst; clear E.
    constructor; unfold consumed, draining; cbn [ph it pmap]; auto; try lia; try (intros p Hp; discriminate).
  - (* DrainA *)
    destruct ((1 <=? pid) && (pid <=? np)); [|discriminate].
    intro E; inversion E; subst; clear E. constructor; unfold consumed, draining; cbn [ph it pmap]; auto.
  - (* DrainB *)
    assert (Hlq : forall rest,
      (forall q r', In (q, r') (rq w) ->
         entry_ok (mkworld (rq w) (upd (wks w) pid (mkwk (pc (wks w pid)) (exitc (wks w pid)) rest))) q r') /\
      (forall q r', In (q, r') pm -> (q = 0 /\ r' = r0) \/
         entry_ok (mkworld (rq w) (upd (wks w) pid (mkwk (pc (wks w pid)) (exitc (wks w pid)) rest))) q r')).
    { intro rest.
      assert (Hpc : forall p, delivered (pc (wks w p)) ->
                delivered (pc (upd (wks w) pid (mkwk (pc (wks w pid)) (exitc (wks w pid)) rest) p))).
      { intros p Hp. destruct (Nat.eq_dec p pid) as [->|Hne]; [now rewrite upd_eq|now rewrite upd_neq]. }
      split; intros q r' Hin.
      - apply (entry_ok_mono w); [exact Hpc|now apply H1].
      - destruct (H2 q r' Hin) as [?|He']; [now left|right].
        apply (entry_ok_mono w); [exact Hpc|exact He']. }
    destruct (lq (wks w pid)) as [|[id|] rest].
    + destruct e; [discriminate|]. intro E; inversion E; subst; clear E.
      constructor; unfold consumed, draining; cbn [ph it pmap]; auto.
    + intro E; inversion E; subst; clear E. destruct (Hlq rest) as [Ha Hb].
      constructor; unfold consumed, draining; cbn [rq wks ph it pmap]; auto.
    + intro E; inversion E; subst; clear E. destruct (Hlq rest) as [Ha Hb].
      constructor; unfold consumed, draining; cbn [rq wks ph it pmap]; auto; try lia; try (intros p Hp; discriminate).
  - (* Join *)
    destruct (all_ended w); [discriminate|]. intro E; inversion E; subst; clear E.
    constructor; unfold consumed, draining; cbn [ph it pmap]; auto.
Qed.

Definition InvS (s : @sys R) : Prop :=
  match s with Run w m => Inv w m | Fin _ => True end.

(* what a returned list must be: the master's own results followed by the
   results of the workers 1..np, one list per worker, in pid order *)
Definition complete (r : list R) : Prop :=
  exists rs, Forall2 (fun p x => wres p = Ok x) (seq 1 np) rs /\ r = r0 ++ concat rs.

Definition SafeS (s : @sys R) : Prop :=
  match s with
  | Run w m => Inv w m
  | Fin (Done r) => complete r
  | Fin (Fail _) => True
  end.

Lemma join_assemble w m :
  Inv w m -> ph m = Join -> exists r, assemble (pmap m) = Ok r /\ complete r.
Proof.
  intros [H1 H2 H3 H4 H5 H6 H7] Hph. unfold consumed in H5. rewrite Hph in H5, H6.
  assert (ND : NoDup (map fst (pmap m))) by (eapply NoDup_app_r; exact H3).
  assert (Hkeys : forall p, In p (seq 0 (S np)) -> In p (map fst (pmap m))).
  { apply (NoDup_length_incl ND).
    - rewrite seq_length, map_length. lia.
    - intros p Hp. apply in_map_iff in Hp as [[q r'] [Hq Hin]]. cbn in Hq; subst q.
      apply in_seq. destruct (H2 p r' Hin) as [[-> _]|[[Ha Hb] _]]; lia. }
  unfold assemble. rewrite H5, H6.
  destruct (assemble_from_spec (pmap m) (seq 0 (S np)) ND Hkeys) as [rs [Hrs HF]].
  rewrite Hrs. eexists; split; [reflexivity|].
  cbn [seq] in HF. inversion HF as [|p0 x0 ps xs Hx0 HF']; subst.
  destruct (H2 0 x0 Hx0) as [[_ ->]|[[Hbad _] _]]; [|lia].
  exists xs. split; [|reflexivity].
  assert (Hgen : forall ps ys, Forall2 (fun p y => In (p, y) (pmap m)) ps ys ->
                 (forall p, In p ps -> 1 <= p) ->
                 Forall2 (fun p y => wres p = Ok y) ps ys).
  { induction 1 as [|p y ps' ys' Hpy _ IH]; intro Hge; constructor.
    - destruct (H2 p y Hpy) as [[Hz _]|[_ [Hw _]]]; [|exact Hw].
      specialize (Hge p (or_introl eq_refl)). lia.
    - apply IH. intros q Hq. apply Hge. now right. }
  apply Hgen; [exact HF'|]. intros p Hp. apply in_seq in Hp. lia.
Qed.

Lemma master_done_complete w m r : Inv w m -> mstep w m = Fin (Done r) -> complete r.
Proof.
  intros HI. rewrite mstep_eq.
  destruct (ph m) as [|ae|ae|pid|pid e|] eqn:Hph.
  - destruct (it m <? np); discriminate.
  - destruct (rq w) as [|[? ?] ?]; [destruct (putting np w)|]; discriminate.
  - destruct (any_died w); [discriminate|]. destruct ae; discriminate.
  - destruct ((1 <=? pid) && (pid <=? np)); discriminate.
  - destruct (lq (wks w pid)) as [|[?|] ?]; try discriminate. destruct e; discriminate.
  - destruct (all_ended w); [|discriminate].
    destruct (join_assemble w m HI Hph) as [r' [Ha Hc]]. rewrite Ha.
    intro E; inversion E; subst. exact Hc.
Qed.

Lemma SafeS_step a s : SafeS s -> SafeS (step a s).
Proof.
  destruct s as [w m|o]; [|exact (fun H => H)].
  cbn [SafeS M_Parallel.step]. intro HI. destruct a as [|pid wa].
  - destruct (mstep w m) as [w' m'|[r|e]] eqn:E; cbn [SafeS].
    + eapply Inv_master; eassumption.
    + eapply master_done_complete; eassumption.
    + exact I.
  - cbn [SafeS]. now apply Inv_worker.
Qed.

Lemma SafeS_exec sched s : SafeS s -> SafeS (exec sched s).
Proof.
  revert s; induction sched as [|a t IH]; intros s H; [exact H|].
  rewrite exec_cons. apply IH. now apply SafeS_step.
Qed.

(* every list the gather loop can ever return, under every schedule of worker
   actions (deliveries in any order, deaths at any point) and master steps *)
Lemma gather_safe sched r :
  exec sched (init r0) = Fin (Done r) -> complete r.
Proof.
  intro H. pose proof (SafeS_exec sched (init r0) Inv_init) as HS.
  rewrite H in HS. exact HS.
Qed.

Lemma gather_inv sched w m : exec sched (init r0) = Run w m -> Inv w m.
Proof.
  intro H. pose proof (SafeS_exec sched (init r0) Inv_init) as HS.
  rewrite H in HS. exact HS.
Qed.

End GatherProofs.
