(* C01 x C05: from the output of TrialDataManager.initialize_trial (any event
   selection method tree or none, with or without an index field) to the value.
   C05's theorem (proofs/P_SelectTdm.v, imported read-only) shows that the
   stored (source, event) table is duplicate-free and in range; this discharges
   the hypothesis of the stacked-ratio chain. *)
From Coq Require Import Reals ZArith List Bool Lra Lia Arith Permutation.
From Sky Require Import Result PyList Num NumR G_llh M_Llh M_LlhPipe S_Llh S_LlhPipe
  P_LlhK P_LlhValue P_LlhCompose.
From Sky Require Import M_Select S_Select P_Select P_SelectTdm.
Import ListNotations.

(* the index arrays of the table as the PDF ratios see them *)
Definition tbl_src (t : tbl) : list nat := map (fun q => Z.to_nat (fst q)) t.
Definition tbl_evt (t : tbl) : list nat := map (fun q => Z.to_nat (snd q)) t.

Lemma NoDup_map_inj_in {A B} (f : A -> B) (l : list A) :
  (forall x y, In x l -> In y l -> f x = f y -> x = y) -> NoDup l -> NoDup (map f l).
Proof.
  induction l as [|a l IH]; intros Hinj Hnd; [constructor|].
  apply NoDup_cons_iff in Hnd as [Hn Hnd]. cbn [map]. constructor.
  - intros Hin. apply in_map_iff in Hin as (x & Ex & Hx).
    assert (x = a) by (apply Hinj; [now right|now left|exact Ex]). subst x. contradiction.
  - apply IH; [|exact Hnd]. intros x y Hx Hy. apply Hinj; now right.
Qed.

Lemma combine_map_same {A B C} (f : A -> B) (g : A -> C) (l : list A) :
  combine (map f l) (map g l) = map (fun a => (f a, g a)) l.
Proof. induction l as [|a l IH]; [reflexivity|]. cbn [map combine]. rewrite IH. reflexivity. Qed.

Lemma tbl_pairs_nodup (t : tbl) :
  NoDup t -> (forall q, In q t -> (0 <= fst q)%Z /\ (0 <= snd q)%Z) ->
  NoDup (combine (tbl_src t) (tbl_evt t)).
Proof.
  intros Hnd Hpos. unfold tbl_src, tbl_evt. rewrite combine_map_same.
  apply NoDup_map_inj_in; [|exact Hnd].
  intros [a b] [c d] Hx Hy Heq. injection Heq as E1 E2. cbn [fst snd] in *.
  destruct (Hpos _ Hx) as [A1 A2]. destruct (Hpos _ Hy) as [B1 B2]. cbn [fst snd] in *.
  f_equal; apply Z2Nat.inj; assumption.
Qed.

Section SelToValue.
  Variables S E : Type.
  Variable argsort : list E -> list Z.
  Hypothesis argsort_perm : forall l, Permutation (argsort l) (map Z.of_nat (seq 0 (length l))).
  Variable srcs : list S.
  Hypothesis ns_pos : (0 < length srcs)%nat.

  Open Scope R_scope.

  Theorem selection_to_value (m : option (meth S E)) (evs : list E) (b : bool) :
    wf_opt m (length srcs) ->
    exists ev2 t2,
      tdm_init argsort m srcs evs b = Ok (ev2, t2)
      /\ List.Forall (fun k => (k < length srcs)%nat) (tbl_src t2)
      /\ List.Forall (fun e => (e < length ev2)%nat) (tbl_evt t2)
      /\ forall (erfR : R -> R) opa N ns a_k (f0 : rfactor) (fs : list rfactor),
           wf_factor (tbl_evt t2) (length ev2) f0 ->
           List.Forall (wf_factor (tbl_evt t2) (length ev2)) fs ->
           pipe_value (RNum erfR) opa N ns true a_k (length ev2) (tbl_src t2) (tbl_evt t2) f0 fs
           = logLambda_manual (opa - 1) N ns
               (map (stacked_spec a_k
                       (combine (combine (tbl_src t2) (tbl_evt t2))
                                (rows_ratios (tbl_evt t2) f0 fs)))
                    (seq 0 (length ev2))).
  Proof.
    intros Hwf.
    destruct (tdm_full S E argsort argsort_perm srcs ns_pos m evs b Hwf) as (ev2 & t2 & Ei & Hp).
    exists ev2, t2. split; [exact Ei|].
    unfold tdm_post in Hp. cbv zeta in Hp.
    destruct Hp as (orig2 & _ & _ & _ & _ & _ & Hnd & Hrange & _).
    split; [|split].
    - unfold tbl_src. apply Forall_forall. intros k Hk.
      apply in_map_iff in Hk as (q & Eq & Hq). subst k.
      destruct (Hrange q Hq) as [[A B] _]. lia.
    - unfold tbl_evt. apply Forall_forall. intros e He.
      apply in_map_iff in He as (q & Eq & Hq). subst e.
      destruct (Hrange q Hq) as [_ [A B]]. lia.
    - intros erfR opa N ns a_k f0 fs H0 Hfs.
      apply (pipe_value_stacked erfR opa N ns a_k (length ev2) (tbl_src t2) (tbl_evt t2) f0 fs H0 Hfs).
      + unfold tbl_src, tbl_evt. rewrite !map_length. reflexivity.
      + apply tbl_pairs_nodup; [exact Hnd|].
        intros q Hq. destruct (Hrange q Hq) as [[A _] [B _]]. split; assumption.
  Qed.

  (* the same with the domain of the weights spelled out: one weight per source,
     non-zero weight sum (the code divides by it) *)
  Theorem selection_to_value_guarded (m : option (meth S E)) (evs : list E) (b : bool) :
    wf_opt m (length srcs) ->
    exists ev2 t2,
      tdm_init argsort m srcs evs b = Ok (ev2, t2)
      /\ List.Forall (fun k => (k < length srcs)%nat) (tbl_src t2)
      /\ List.Forall (fun e => (e < length ev2)%nat) (tbl_evt t2)
      /\ forall (erfR : R -> R) opa N ns a_k (f0 : rfactor) (fs : list rfactor),
           length a_k = length srcs -> Rsum a_k <> 0 ->
           wf_factor (tbl_evt t2) (length ev2) f0 ->
           List.Forall (wf_factor (tbl_evt t2) (length ev2)) fs ->
           pipe_value (RNum erfR) opa N ns true a_k (length ev2) (tbl_src t2) (tbl_evt t2) f0 fs
           = logLambda_manual (opa - 1) N ns
               (map (stacked_spec a_k
                       (combine (combine (tbl_src t2) (tbl_evt t2))
                                (rows_ratios (tbl_evt t2) f0 fs)))
                    (seq 0 (length ev2))).
  Proof.
    intros Hwf. destruct (selection_to_value m evs b Hwf) as (ev2 & t2 & A & B & C & D).
    exists ev2, t2. repeat (split; [assumption|]).
    intros erfR opa N ns a_k f0 fs _ _ H0 Hfs. apply D; assumption.
  Qed.
End SelToValue.
